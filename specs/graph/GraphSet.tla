------------------------------ MODULE GraphSet ------------------------------
(* Abstract set model of gonum's simple graph containers (graph/simple):     *)
(* a graph is a set of node ids and a partial function from (ordered or       *)
(* unordered) pairs of distinct nodes to a weight token.  One action per      *)
(* public mutator; one operator per public query.  Used in three roles:       *)
(*   R1  TLC checks the design invariants below over every history,           *)
(*   R2  with Emit = TRUE TLC prints every reachable state (with the answers  *)
(*       of all queries) and every transition; the Go harness replays each    *)
(*       transition on the real containers,                                   *)
(*   R3  GraphSetTrace.tla reuses the actions to validate recorded histories. *)
EXTENDS Integers, FiniteSets, Sequences, TLC, Json, GraphViews

CONSTANTS IDs,      \* bounded universe of node ids the mutators are called with
          Directed, \* BOOLEAN
          Weights,  \* weight tokens ({1} for the unweighted types)
          DenseN,   \* 0: map backed graph; n > 0: dense matrix graph on nodes 0..n-1
          AbsentW,  \* dense graphs: the weight value that means "no edge"
          Emit      \* BOOLEAN: generator role

VARIABLES nodes, edges, last
vars == <<nodes, edges, last>>
View == <<nodes, edges>>   \* the outcome flag adds no behaviour

Dense == DenseN > 0
Norm(u, v) == IF Directed \/ u <= v THEN <<u, v>> ELSE <<v, u>>
Pairs == DOMAIN edges
Incident(n) == {p \in Pairs : p[1] = n \/ p[2] = n}
Restrict(f, S) == [x \in S |-> f[x]]
Upd(f, k, w) == [x \in DOMAIN f \cup {k} |-> IF x = k THEN w ELSE f[x]]
Drop(f, k) == Restrict(f, DOMAIN f \ {k})

(***************************** query operators ******************************)
\* (the ...E forms take the state explicitly so that a trace specification can
\* evaluate them on the post-state without priming their arguments)
HasFromToE(E, u, v) == u # v /\ Norm(u, v) \in DOMAIN E
FromE(N, E, u) == {v \in N : HasFromToE(E, u, v)}
ToE(N, E, u)   == {v \in N : HasFromToE(E, v, u)}
HasFromTo(u, v)  == HasFromToE(edges, u, v)
HasBetween(u, v) == u # v /\ (Norm(u, v) \in Pairs \/ Norm(v, u) \in Pairs)
From(u) == FromE(nodes, edges, u)
To(u)   == ToE(nodes, edges, u)
Weight(u, v) == IF u = v THEN [k |-> "self", w |-> 0]
                ELSE IF HasFromTo(u, v) THEN [k |-> "edge", w |-> edges[Norm(u, v)]]
                ELSE [k |-> "absent", w |-> 0]
EdgeList == {<<p[1], p[2], edges[p]>> : p \in Pairs}
Degree(u) == Cardinality(From(u) \cup To(u))

(**************************** returned edge VALUES ***************************)
\* Edge(u, v) / WeightedEdge(u, v) / the items of Edges() return a VALUE (simple.Edge,
\* simple.WeightedEdge): its ends and, for the weighted types, its weight.  ReversedEdge
\* returns a new value with the ends swapped and the same weight.
EdgeVal(u, v) == [f |-> u, t |-> v, w |-> edges[Norm(u, v)]]      \* defined iff HasFromTo(u, v)
RevVal(e)     == [f |-> e.t, t |-> e.f, w |-> e.w]

(************* the wrapper views of package graph (GraphViews.tla) *************)
\* graph.Undirect / graph.UndirectWeighted of a directed container and graph.Complement of any
\* container are stated over the base graph of the state: its nodes, its arcs (an undirected graph
\* has both orientations of each edge) and their weight tokens.
ArcsE(N, E) == {a \in N \X N : HasFromToE(E, a[1], a[2])}
Arcs  == TLCEval(ArcsE(nodes, edges))
ArcW  == TLCEval([a \in Arcs |-> edges[Norm(a[1], a[2])]])
\* the values of UndirectWeighted.Absent the views are asked with: zero (the value the documentation
\* of Weight names for a pair that is not joined), an ordinary weight token, a negative value that
\* is no weight token (1 + (-3) is even, 2 + (-3) is odd: whole and half-integer means)
AbsentVals == {0, 1, -3}

(**************** construction of the dense (matrix) graphs ******************)
\* NewDirectedMatrix / NewUndirectedMatrix(n, init, self, absent) build the graph on nodes
\* 0..n-1; New*MatrixFrom(nodes, init, self, absent) take the node objects, whose "IDs ...
\* must be contiguous from 0 to len(nodes)-1, but may be in any order. If IDs are not
\* contiguous New*MatrixFrom will panic".  "All edges are initialized with the weight given
\* by init": with init = absent the graph starts without edges, otherwise complete.
\* ord is the sequence of ids of the node slice handed to the constructor.
IsPerm(ord) == {ord[i] : i \in 1 .. Len(ord)} = 0 .. (Len(ord) - 1)
CtorEdges(N, init) ==
    IF init = AbsentW THEN <<>>
    ELSE [p \in {q \in N \X N : q[1] # q[2] /\ Norm(q[1], q[2]) = q} |-> init]

(******************************** mutators **********************************)
Ok    == last' = "ok"
Panic == last' = "panic" /\ UNCHANGED <<nodes, edges>>

AddNode(n) == /\ ~Dense
              /\ IF n \in nodes THEN Panic
                 ELSE nodes' = nodes \cup {n} /\ UNCHANGED edges /\ Ok

\* NewNode followed by AddNode of the returned node: the only thing the model
\* says about the allocator is that the id it returns is not a live node.
NewNode(n) == /\ ~Dense /\ n \notin nodes
              /\ nodes' = nodes \cup {n} /\ UNCHANGED edges /\ Ok

RemoveNode(n) == /\ ~Dense
                 /\ nodes' = nodes \ {n}
                 /\ edges' = Restrict(edges, Pairs \ Incident(n)) /\ Ok

SetEdge(u, v, w) ==
    IF u = v THEN Panic
    ELSE IF Dense /\ ~({u, v} \subseteq nodes) THEN Panic
    ELSE /\ nodes' = nodes \cup {u, v}
         /\ edges' = IF Dense /\ w = AbsentW THEN Drop(edges, Norm(u, v))
                     ELSE Upd(edges, Norm(u, v), w)
         /\ Ok

RemoveEdge(u, v) == /\ edges' = IF u # v THEN Drop(edges, Norm(u, v)) ELSE edges
                    /\ UNCHANGED nodes /\ Ok

Ops == [op : {"AddNode", "NewNode", "RemoveNode"}, u : IDs]
       \cup [op : {"SetEdge"}, u : IDs, v : IDs, w : Weights]
       \cup [op : {"RemoveEdge"}, u : IDs, v : IDs]

Do(o) == CASE o.op = "AddNode"    -> AddNode(o.u)
           [] o.op = "NewNode"    -> NewNode(o.u)
           [] o.op = "RemoveNode" -> RemoveNode(o.u)
           [] o.op = "SetEdge"    -> SetEdge(o.u, o.v, o.w)
           [] o.op = "RemoveEdge" -> RemoveEdge(o.u, o.v)

StateRec(n, e) == [nodes |-> n, edges |-> {<<p[1], p[2], e[p]>> : p \in DOMAIN e}]

Init == /\ nodes = IF Dense THEN 0 .. DenseN - 1 ELSE {}
        /\ edges = <<>>
        /\ last = "ok"

Next == \E o \in Ops :
          /\ Do(o)
          /\ Emit => PrintT(ToJson([k |-> "t", s |-> StateRec(nodes, edges), op |-> o,
                                    t |-> StateRec(nodes', edges'), out |-> last']))

Spec == Init /\ [][Next]_vars

(************************* design invariants (R1) ***************************)
TypeOK == /\ nodes \subseteq IDs \cup (0 .. DenseN - 1)
          /\ \A p \in Pairs : edges[p] \in Weights
Closed == \A p \in Pairs : p[1] \in nodes /\ p[2] \in nodes
NoSelf == \A p \in Pairs : p[1] # p[2]
Canon  == \A p \in Pairs : Norm(p[1], p[2]) = p
\* the query operators agree with each other (what the property calls
\* "From/To/HasEdge*/Edge*/Weight agree with each other")
U == IDs \cup nodes
Mirror == \A u, v \in U : (v \in From(u)) = (u \in To(v))
Symm   == ~Directed => \A u, v \in U : HasFromTo(u, v) = HasFromTo(v, u)
Between == \A u, v \in U : HasBetween(u, v) = (HasFromTo(u, v) \/ HasFromTo(v, u))
WeightOK == \A u, v \in U : (Weight(u, v).k = "edge") = HasFromTo(u, v)
DenseNoAbsent == Dense => \A p \in Pairs : edges[p] # AbsentW
\* the returned edge values: reversing twice gives the value back, the weight survives a
\* reversal, and in an undirected graph the reversal of Edge(u, v) is the value of Edge(v, u)
RevLaw == \A u, v \in U : HasFromTo(u, v) =>
             /\ RevVal(RevVal(EdgeVal(u, v))) = EdgeVal(u, v)
             /\ RevVal(EdgeVal(u, v)).w = Weight(u, v).w
             /\ (~Directed => RevVal(EdgeVal(u, v)) = EdgeVal(v, u))

\* the wrapper views agree with their second formulations (GraphViews.tla): the undirected view is
\* the query model of the symmetrised arc set, its From is symmetric, Weight's ok flag <=> x = y or
\* joined, the merges are commutative and ordered min <= mean <= max, the complement of the complement
\* has the original arcs, complement From and From partition the other nodes
ViewUndirect   == Directed => LET A == Arcs IN UndirectLaws(nodes, A, U)
ViewWeight     == Directed => LET A == Arcs W == ArcW IN WeightLaws(A, W, AbsentVals, U)
ViewComplement == LET A == Arcs IN ComplementLaws(nodes, A, U)
ViewBase == LET A == Arcs IN
            /\ \A u, v \in U : UHasV(A, u, v) = HasBetween(u, v)
            /\ \A u \in U : FromA(nodes, A, u) = From(u)
            /\ Loops(A) = {} /\ A \subseteq nodes \X nodes
            /\ ~Directed => SymA(A) = A

\* action properties
PanicLeavesUnchanged == [][last' = "panic" => UNCHANGED <<nodes, edges>>]_vars
RemoveNodeExact == [][\A n \in IDs : (n \in nodes /\ n \notin nodes') =>
                        /\ nodes' = nodes \ {n}
                        /\ DOMAIN edges' = Pairs \ Incident(n)]_vars

(**************************** generator role (R2) ***************************)
\* the answers of every query in the current state
StateAnswers ==
  [k |-> "s", nodes |-> nodes, edges |-> EdgeList,
      from |-> [u \in IDs |-> From(u)], to |-> [u \in IDs |-> To(u)],
      heft |-> {<<u, v>> \in IDs \X IDs : HasFromTo(u, v)},
      heb  |-> {<<u, v>> \in IDs \X IDs : HasBetween(u, v)},
      w    |-> {[u |-> u, v |-> v, k |-> Weight(u, v).k, w |-> Weight(u, v).w] : u \in IDs, v \in IDs},
      deg  |-> [u \in IDs |-> Degree(u)],
      \* the undirected projection (graph.Undirect / graph.UndirectWeighted of a directed graph)
      ufrom |-> [u \in IDs |-> From(u) \cup To(u)],
      \* the value returned for every edge and the value its ReversedEdge must be
      ev |-> {[u |-> p[1], v |-> p[2], w |-> EdgeVal(p[1], p[2]).w,
               rf |-> RevVal(EdgeVal(p[1], p[2])).f, rt |-> RevVal(EdgeVal(p[1], p[2])).t,
               rw |-> RevVal(EdgeVal(p[1], p[2])).w] : p \in {q \in IDs \X IDs : HasFromTo(q[1], q[2])}}]
\* the answers of the wrapper views in the current state (a second record kind, "v").  Tuples:
\*   uev   <<x, y, f, t, rf, rt>>   Edge(x, y) of the undirected view has ends (f, t), its ReversedEdge (rf, rt)
\*   uw    <<m, ab, x, y, k, w2>>   UndirectWeighted{Absent: ab, Merge: m}.Weight(x, y); m: 0 mean (nil), 1 min,
\*                                  2 max; k: 0 self, 1 edge (w2 = twice the merged weight = twice the Weight()
\*                                  of the edge value), 2 absent (zero, not ok)
\*   ma    <<ab, x, y, {<<w, p, f, t>>, <<w, p, f, t>>}>>  what Merge is handed for the joined pair (x, y): the
\*                                  unordered pair of (weight, edge non-nil ? 1 : 0, ends of the edge)
\*   cev   <<u, v, f, t, rf, rt>>   Complement.Edge(u, v) is non-nil, with ends (f, t), its ReversedEdge (rf, rt)
MergeNo(m) == CASE m = "mean" -> 0 [] m = "min" -> 1 [] m = "max" -> 2
KindNo(k)  == CASE k = "self" -> 0 [] k = "edge" -> 1 [] k = "absent" -> 2
B01(b) == IF b THEN 1 ELSE 0
IDPairs == IDs \X IDs
UndirectAnswers(Ar, Wt) ==
  [ufrom |-> [u \in IDs |-> UFromV(nodes, Ar, u)],
   uheb  |-> {p \in IDPairs : UHasV(Ar, p[1], p[2])},
   uev   |-> {<<p[1], p[2], UEdgeV(Ar, p[1], p[2]).f, UEdgeV(Ar, p[1], p[2]).t,
                RevV(UEdgeV(Ar, p[1], p[2])).f, RevV(UEdgeV(Ar, p[1], p[2])).t>>
              : p \in {q \in IDPairs : UHasV(Ar, q[1], q[2])}},
   uw    |-> {<<MergeNo(m), ab, p[1], p[2], KindNo(UWeightV(Ar, Wt, m, ab, p[1], p[2]).k),
                UWeightV(Ar, Wt, m, ab, p[1], p[2]).w2>> : m \in Merges, ab \in AbsentVals, p \in IDPairs},
   ma    |-> {<<ab, p[1], p[2], {<<a.w, B01(a.p), a.f, a.t>> : a \in MergeArgs(Ar, Wt, ab, p[1], p[2])}>>
              : ab \in AbsentVals, p \in {q \in IDPairs : UHasV(Ar, q[1], q[2])}}]
ComplementAnswers(Ar) ==
  [cfrom |-> [u \in IDs |-> CFromV(nodes, Ar, u)],
   cheb  |-> {p \in IDPairs : CBetweenV(nodes, Ar, p[1], p[2])},
   cev   |-> {<<p[1], p[2], CEdgeV(p[1], p[2]).f, CEdgeV(p[1], p[2]).t,
                RevV(CEdgeV(p[1], p[2])).f, RevV(CEdgeV(p[1], p[2])).t>>
              : p \in {q \in IDPairs : CHasV(nodes, Ar, q[1], q[2])}}]
ViewAnswers == [k |-> "v", nodes |-> nodes, edges |-> EdgeList, directed |-> Directed]
               @@ (LET A == Arcs W == ArcW IN
                   ComplementAnswers(A) @@ (IF Directed THEN UndirectAnswers(A, W) ELSE <<>>))
\* printed once per distinct state (invariants are evaluated on new states)
EmitState == Emit => PrintT(ToJson(StateAnswers)) /\ PrintT(ToJson(ViewAnswers))
=============================================================================
