------------------------------ MODULE GraphSet ------------------------------
(* Abstract set model of gonum's simple graph containers (graph/simple):     *)
(* a graph is a set of node ids and a partial function from (ordered or       *)
(* unordered) pairs of distinct nodes to a weight token.  One action per      *)
(* public mutator; one operator per public query.  Used in three roles:       *)
(*   R1  TLC checks the design invariants below over every history,           *)
(*   R2  with Emit = TRUE TLC prints every reachable state (with the answers  *)
(*       of all queries) and every transition; the Go harness replays each    *)
(*       transition on the real containers,                                   *)
(*   R3  GraphSetTrace.tla reuses the actions to validate recorded histories. *)
EXTENDS Integers, FiniteSets, Sequences, TLC, Json

CONSTANTS IDs,      \* bounded universe of node ids the mutators are called with
          Directed, \* BOOLEAN
          Weights,  \* weight tokens ({1} for the unweighted types)
          DenseN,   \* 0: map backed graph; n > 0: dense matrix graph on nodes 0..n-1
          AbsentW,  \* dense graphs: the weight value that means "no edge"
          Emit      \* BOOLEAN: generator role

VARIABLES nodes, edges, last
vars == <<nodes, edges, last>>
View == <<nodes, edges>>   \* the outcome flag adds no behaviour

Dense == DenseN > 0
Norm(u, v) == IF Directed \/ u <= v THEN <<u, v>> ELSE <<v, u>>
Pairs == DOMAIN edges
Incident(n) == {p \in Pairs : p[1] = n \/ p[2] = n}
Restrict(f, S) == [x \in S |-> f[x]]
Upd(f, k, w) == [x \in DOMAIN f \cup {k} |-> IF x = k THEN w ELSE f[x]]
Drop(f, k) == Restrict(f, DOMAIN f \ {k})

(***************************** query operators ******************************)
\* (the ...E forms take the state explicitly so that a trace specification can
\* evaluate them on the post-state without priming their arguments)
HasFromToE(E, u, v) == u # v /\ Norm(u, v) \in DOMAIN E
FromE(N, E, u) == {v \in N : HasFromToE(E, u, v)}
ToE(N, E, u)   == {v \in N : HasFromToE(E, v, u)}
HasFromTo(u, v)  == HasFromToE(edges, u, v)
HasBetween(u, v) == u # v /\ (Norm(u, v) \in Pairs \/ Norm(v, u) \in Pairs)
From(u) == FromE(nodes, edges, u)
To(u)   == ToE(nodes, edges, u)
Weight(u, v) == IF u = v THEN [k |-> "self", w |-> 0]
                ELSE IF HasFromTo(u, v) THEN [k |-> "edge", w |-> edges[Norm(u, v)]]
                ELSE [k |-> "absent", w |-> 0]
EdgeList == {<<p[1], p[2], edges[p]>> : p \in Pairs}
Degree(u) == Cardinality(From(u) \cup To(u))

(**************************** returned edge VALUES ***************************)
\* Edge(u, v) / WeightedEdge(u, v) / the items of Edges() return a VALUE (simple.Edge,
\* simple.WeightedEdge): its ends and, for the weighted types, its weight.  ReversedEdge
\* returns a new value with the ends swapped and the same weight.
EdgeVal(u, v) == [f |-> u, t |-> v, w |-> edges[Norm(u, v)]]      \* defined iff HasFromTo(u, v)
RevVal(e)     == [f |-> e.t, t |-> e.f, w |-> e.w]

(**************** construction of the dense (matrix) graphs ******************)
\* NewDirectedMatrix / NewUndirectedMatrix(n, init, self, absent) build the graph on nodes
\* 0..n-1; New*MatrixFrom(nodes, init, self, absent) take the node objects, whose "IDs ...
\* must be contiguous from 0 to len(nodes)-1, but may be in any order. If IDs are not
\* contiguous New*MatrixFrom will panic".  "All edges are initialized with the weight given
\* by init": with init = absent the graph starts without edges, otherwise complete.
\* ord is the sequence of ids of the node slice handed to the constructor.
IsPerm(ord) == {ord[i] : i \in 1 .. Len(ord)} = 0 .. (Len(ord) - 1)
CtorEdges(N, init) ==
    IF init = AbsentW THEN <<>>
    ELSE [p \in {q \in N \X N : q[1] # q[2] /\ Norm(q[1], q[2]) = q} |-> init]

(******************************** mutators **********************************)
Ok    == last' = "ok"
Panic == last' = "panic" /\ UNCHANGED <<nodes, edges>>

AddNode(n) == /\ ~Dense
              /\ IF n \in nodes THEN Panic
                 ELSE nodes' = nodes \cup {n} /\ UNCHANGED edges /\ Ok

\* NewNode followed by AddNode of the returned node: the only thing the model
\* says about the allocator is that the id it returns is not a live node.
NewNode(n) == /\ ~Dense /\ n \notin nodes
              /\ nodes' = nodes \cup {n} /\ UNCHANGED edges /\ Ok

RemoveNode(n) == /\ ~Dense
                 /\ nodes' = nodes \ {n}
                 /\ edges' = Restrict(edges, Pairs \ Incident(n)) /\ Ok

SetEdge(u, v, w) ==
    IF u = v THEN Panic
    ELSE IF Dense /\ ~({u, v} \subseteq nodes) THEN Panic
    ELSE /\ nodes' = nodes \cup {u, v}
         /\ edges' = IF Dense /\ w = AbsentW THEN Drop(edges, Norm(u, v))
                     ELSE Upd(edges, Norm(u, v), w)
         /\ Ok

RemoveEdge(u, v) == /\ edges' = IF u # v THEN Drop(edges, Norm(u, v)) ELSE edges
                    /\ UNCHANGED nodes /\ Ok

Ops == [op : {"AddNode", "NewNode", "RemoveNode"}, u : IDs]
       \cup [op : {"SetEdge"}, u : IDs, v : IDs, w : Weights]
       \cup [op : {"RemoveEdge"}, u : IDs, v : IDs]

Do(o) == CASE o.op = "AddNode"    -> AddNode(o.u)
           [] o.op = "NewNode"    -> NewNode(o.u)
           [] o.op = "RemoveNode" -> RemoveNode(o.u)
           [] o.op = "SetEdge"    -> SetEdge(o.u, o.v, o.w)
           [] o.op = "RemoveEdge" -> RemoveEdge(o.u, o.v)

StateRec(n, e) == [nodes |-> n, edges |-> {<<p[1], p[2], e[p]>> : p \in DOMAIN e}]

Init == /\ nodes = IF Dense THEN 0 .. DenseN - 1 ELSE {}
        /\ edges = <<>>
        /\ last = "ok"

Next == \E o \in Ops :
          /\ Do(o)
          /\ Emit => PrintT(ToJson([k |-> "t", s |-> StateRec(nodes, edges), op |-> o,
                                    t |-> StateRec(nodes', edges'), out |-> last']))

Spec == Init /\ [][Next]_vars

(************************* design invariants (R1) ***************************)
TypeOK == /\ nodes \subseteq IDs \cup (0 .. DenseN - 1)
          /\ \A p \in Pairs : edges[p] \in Weights
Closed == \A p \in Pairs : p[1] \in nodes /\ p[2] \in nodes
NoSelf == \A p \in Pairs : p[1] # p[2]
Canon  == \A p \in Pairs : Norm(p[1], p[2]) = p
\* the query operators agree with each other (what the property calls
\* "From/To/HasEdge*/Edge*/Weight agree with each other")
U == IDs \cup nodes
Mirror == \A u, v \in U : (v \in From(u)) = (u \in To(v))
Symm   == ~Directed => \A u, v \in U : HasFromTo(u, v) = HasFromTo(v, u)
Between == \A u, v \in U : HasBetween(u, v) = (HasFromTo(u, v) \/ HasFromTo(v, u))
WeightOK == \A u, v \in U : (Weight(u, v).k = "edge") = HasFromTo(u, v)
DenseNoAbsent == Dense => \A p \in Pairs : edges[p] # AbsentW
\* the returned edge values: reversing twice gives the value back, the weight survives a
\* reversal, and in an undirected graph the reversal of Edge(u, v) is the value of Edge(v, u)
RevLaw == \A u, v \in U : HasFromTo(u, v) =>
             /\ RevVal(RevVal(EdgeVal(u, v))) = EdgeVal(u, v)
             /\ RevVal(EdgeVal(u, v)).w = Weight(u, v).w
             /\ (~Directed => RevVal(EdgeVal(u, v)) = EdgeVal(v, u))

\* action properties
PanicLeavesUnchanged == [][last' = "panic" => UNCHANGED <<nodes, edges>>]_vars
RemoveNodeExact == [][\A n \in IDs : (n \in nodes /\ n \notin nodes') =>
                        /\ nodes' = nodes \ {n}
                        /\ DOMAIN edges' = Pairs \ Incident(n)]_vars

(**************************** generator role (R2) ***************************)
\* the answers of every query in the current state
StateAnswers ==
  [k |-> "s", nodes |-> nodes, edges |-> EdgeList,
      from |-> [u \in IDs |-> From(u)], to |-> [u \in IDs |-> To(u)],
      heft |-> {<<u, v>> \in IDs \X IDs : HasFromTo(u, v)},
      heb  |-> {<<u, v>> \in IDs \X IDs : HasBetween(u, v)},
      w    |-> {[u |-> u, v |-> v, k |-> Weight(u, v).k, w |-> Weight(u, v).w] : u \in IDs, v \in IDs},
      deg  |-> [u \in IDs |-> Degree(u)],
      \* the undirected projection (graph.Undirect / graph.UndirectWeighted of a directed graph)
      ufrom |-> [u \in IDs |-> From(u) \cup To(u)],
      \* the value returned for every edge and the value its ReversedEdge must be
      ev |-> {[u |-> p[1], v |-> p[2], w |-> EdgeVal(p[1], p[2]).w,
               rf |-> RevVal(EdgeVal(p[1], p[2])).f, rt |-> RevVal(EdgeVal(p[1], p[2])).t,
               rw |-> RevVal(EdgeVal(p[1], p[2])).w] : p \in {q \in IDs \X IDs : HasFromTo(q[1], q[2])}}]
\* printed once per distinct state (invariants are evaluated on new states)
EmitState == Emit => PrintT(ToJson(StateAnswers))
=============================================================================
