---------------------------- MODULE GraphMultiTrace ----------------------------
(* R3 for multigraphs: accepts a log of a real mutation history of a gonum      *)
(* graph/multi container iff it is a behaviour of GraphMulti (see               *)
(* GraphSetTrace for the conventions).  NewLine events carry the line id the    *)
(* real allocator returned: the model's NewLine is enabled only if that id is   *)
(* not a live line of the pair, so an id collision rejects the trace.           *)
EXTENDS GraphMulti, TLCExt

TraceLog == ndJsonDeserialize("trace.ndjson")
VARIABLE l
tvars == <<nodes, lines, last, l>>
Rng(s) == {s[i] : i \in DOMAIN s}
Ev == TraceLog[l]

Observed(e) ==
    /\ last' = e.out
    /\ Cardinality(nodes') = e.nn
    /\ Cardinality(DOMAIN lines') = e.nl
    /\ \A i \in DOMAIN e.obs :
         /\ FromE(nodes', lines', e.obs[i].n) = Rng(e.obs[i].f)
         /\ ToE(nodes', lines', e.obs[i].n)   = Rng(e.obs[i].t)
         /\ (e.obs[i].n \in nodes') = e.obs[i].live
    /\ e.op \in {"SetLine", "NewLine", "RemoveLine"} => LinesE(lines', e.u, e.v) = Rng(e.lids)

Call == /\ l <= Len(TraceLog) /\ Ev.op \notin {"Reset", "Check"}
        /\ Do([op |-> Ev.op, u |-> Ev.u, v |-> Ev.v, i |-> Ev.i, w |-> Ev.w])
        /\ Observed(Ev)
        /\ l' = l + 1
Reset == /\ l <= Len(TraceLog) /\ Ev.op = "Reset"
         /\ nodes' = {} /\ lines' = <<>> /\ last' = "ok" /\ l' = l + 1
Check == /\ l <= Len(TraceLog) /\ Ev.op = "Check"
         /\ nodes = Rng(Ev.nodes)
         /\ LineList = {<<t[1], t[2], t[3], t[4]>> : t \in Rng(Ev.lines)}
         /\ UNCHANGED <<nodes, lines, last>> /\ l' = l + 1

TraceInit == Init /\ l = 1
TraceNext == Call \/ Reset \/ Check
TraceSpec == TraceInit /\ [][TraceNext]_tvars
TraceInv == Closed /\ Canon

Accepted ==
    LET d == TLCGet("stats").diameter IN
    IF d - 1 = Len(TraceLog) THEN PrintT("TRACE-ACCEPTED " \o ToString(Len(TraceLog)))
    ELSE /\ PrintT("TRACE-REJECTED at event " \o ToString(d) \o ": " \o ToString(TraceLog[d]))
         /\ FALSE
=============================================================================
