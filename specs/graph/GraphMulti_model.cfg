SPECIFICATION Spec
CONSTANTS
  IDs = @IDS@
  LIDs = @LIDS@
  Directed = @DIRECTED@
  Weights = @WEIGHTS@
  Emit = @EMIT@
INVARIANTS TypeOK Closed Canon Mirror Symm RevLaw EdgeWeightLaw ViewBase ViewUndirect ViewComplement EmitState
PROPERTIES PanicLeavesUnchanged RemoveNodeExact
VIEW View
CHECK_DEADLOCK FALSE
