SPECIFICATION ESpec
CONSTANTS
  MaxN = @MAXN@
  Depth = @DEPTH@
  Emit = @EMIT@
  WithOf = FALSE
INVARIANTS TypeOK LenLaw Exhausted WeightResets OpenOnlyOffStart RevKeeps EEmitHist
CHECK_DEADLOCK FALSE
