SPECIFICATION Spec
CONSTANTS
  MaxN = @MAXN@
  Depth = @DEPTH@
  Emit = @EMIT@
INVARIANTS TypeOK LenLaw Exhausted EmitHist
CHECK_DEADLOCK FALSE
