SPECIFICATION Spec
CONSTANTS
  MaxN = @MAXN@
  Depth = @DEPTH@
  Emit = @EMIT@
  WithOf = @WITHOF@
INVARIANTS TypeOK LenLaw Exhausted OfLaw EmitHist
CHECK_DEADLOCK FALSE
