------------------------------ MODULE UidSetApa ------------------------------
(* apalache-mc entry point for UidSet.tla: adds only IndInit, the symbolic   *)
(* "any state satisfying IndInv" that the inductive step starts from.         *)
(*                                                                            *)
(* Apalache needs every variable bounded in the initial predicate.  Gen(N)    *)
(* (module Apalache) is "an arbitrary value of the variable's type whose      *)
(* collections have at most N elements": the three sets hold at most N        *)
(* ARBITRARY integers each (no range), maxID/ret/Max are arbitrary integers.  *)
(* So the bound is on the number of IDs in the pre-state, never on their      *)
(* values and never on the length of the history (IndInv summarises every     *)
(* history).  Why N = 6 elements suffice: see specs/PROOFS.md, "small-witness *)
(* argument"; UidSetProof.tla re-proves the same step with tlapm without any  *)
(* bound.                                                                     *)
EXTENDS UidSet, Apalache

IndInit == /\ nodes = Gen(6)
           /\ used = Gen(6)
           /\ free = Gen(6)
           /\ maxID = Gen(1)
           /\ ret = Gen(1)
           /\ op \in {"init", "add", "remove", "new"}
           /\ IndInv

\* Non-vacuity witnesses: each is an ACTION invariant that apalache-mc must
\* report VIOLATED from IndInit at length 1 - i.e. some state satisfying IndInv
\* (within the Gen bound) has a successor by that action / that branch of
\* NewID, so the inductive step above does not hold for lack of transitions.
WitAdd == ~(op' = "add" /\ nodes' # nodes)
WitRemove == ~(op' = "remove" /\ nodes' # nodes)
WitNewEmpty == ~(op' = "new" /\ nodes = {})
WitNewFree == ~(op' = "new" /\ nodes # {} /\ free # {})
WitNewNext == ~(op' = "new" /\ nodes # {} /\ free = {} /\ maxID # Max)
WitNewScan == ~(op' = "new" /\ nodes # {} /\ free = {} /\ maxID = Max)
=============================================================================
