SPECIFICATION Spec
CONSTANTS
  IDs = @IDS@
INVARIANTS Mirror Closed ClosedTargets UidConsistent FreshID
PROPERTIES RefinesSet
CHECK_DEADLOCK FALSE
