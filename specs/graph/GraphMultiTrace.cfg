SPECIFICATION TraceSpec
CONSTANTS
  IDs = {}
  LIDs = {}
  Directed = @DIRECTED@
  Weights = {1, 2, 3}
  Emit = FALSE
INVARIANTS TraceInv
POSTCONDITION Accepted
CHECK_DEADLOCK FALSE
