----------------------------- MODULE UidSetProof -----------------------------
(* tlapm proof that IndInv is an inductive invariant of UidSet!Spec and that  *)
(* it implies FreshID / FreshIDAll: no bound on the number of IDs, on their   *)
(* values, on Max, or on the length of the history.                           *)
(*   tlapm --threads 8 UidSetProof.tla                                        *)
EXTENDS UidSet, TLAPS

LEMMA InitInv == Init => IndInv
  BY MaxAssumption DEF Init, IndInv, TypeOK, RetFresh, IsID, MinID

LEMMA StepInv == IndInv /\ [Next]_vars => IndInv'
<1> SUFFICES ASSUME IndInv, [Next]_vars PROVE IndInv'
  OBVIOUS
<1> USE MaxAssumption
<1>1. ASSUME NEW id \in IdDom, AddNode(id) PROVE IndInv'
  <2> USE <1>1 DEF AddNode, Use, IndInv, TypeOK, IsID, MinID, IdDom
  <2>1. TypeOK'  OBVIOUS
  <2>2. (used = nodes)'  OBVIOUS
  <2>3. (\A x \in free : x \notin used)'  OBVIOUS
  <2>4. (\A x \in used : x <= maxID)'  OBVIOUS
  <2>5. (\A x \in free : x <= maxID)'  OBVIOUS
  <2>6. (-1 <= maxID /\ maxID <= Max)'  OBVIOUS
  <2>7. RetFresh'  BY DEF RetFresh
  <2> QED  BY <2>1, <2>2, <2>3, <2>4, <2>5, <2>6, <2>7 DEF IndInv
<1>2. ASSUME NEW id \in IdDom, RemoveNode(id) PROVE IndInv'
  BY <1>2 DEF RemoveNode, Release, IndInv, TypeOK, RetFresh, IsID, MinID, IdDom
<1>3. ASSUME NEW r \in IdDom, NewNode(r) PROVE IndInv'
  <2>1. r \notin nodes
    BY <1>3 DEF NewNode, NewIDResult, IndInv, TypeOK, IsID, MinID, IdDom
  <2> QED
    BY <1>3, <2>1 DEF NewNode, IndInv, TypeOK, RetFresh, IsID, MinID, IdDom
<1>4. CASE UNCHANGED vars
  BY <1>4 DEF vars, IndInv, TypeOK, RetFresh, IsID, MinID
<1> QED
  BY <1>1, <1>2, <1>3, <1>4 DEF Next

LEMMA InvFresh == IndInv => FreshID /\ FreshIDAll
  BY MaxAssumption DEF IndInv, TypeOK, FreshID, FreshIDAll, NewIDResult, IsID, MinID, IdDom

THEOREM Safety == Spec => [](IndInv /\ FreshID /\ FreshIDAll /\ RetFresh)
<1>1. IndInv => RetFresh
  BY DEF IndInv
<1> QED
  BY InitInv, StepInv, InvFresh, <1>1, PTL DEF Spec
=============================================================================
