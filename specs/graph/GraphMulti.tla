------------------------------ MODULE GraphMulti ------------------------------
(* Abstract set model of gonum's multigraph containers (graph/multi): a set of *)
(* node ids and a set of lines, each line identified by its end points         *)
(* (ordered for directed graphs) and a line id; several lines may join the     *)
(* same pair and self loops are allowed.  Same three roles as GraphSet.        *)
EXTENDS Integers, FiniteSets, Sequences, TLC, Json, GraphViews

CONSTANTS IDs, LIDs, Directed, Weights, Emit

VARIABLES nodes, lines, last      \* lines: [<<a, b, id>> -> weight], <<a,b>> normalised
vars == <<nodes, lines, last>>
View == <<nodes, lines>>

Norm(u, v) == IF Directed \/ u <= v THEN <<u, v>> ELSE <<v, u>>
K(u, v, i) == <<Norm(u, v)[1], Norm(u, v)[2], i>>
Keys == DOMAIN lines
Restrict(f, S) == [x \in S |-> f[x]]
Upd(f, k, w) == [x \in DOMAIN f \cup {k} |-> IF x = k THEN w ELSE f[x]]

(***************************** query operators ******************************)
LinesE(L, u, v)  == {k[3] : k \in {q \in DOMAIN L : q[1] = Norm(u, v)[1] /\ q[2] = Norm(u, v)[2]}}
Lines(u, v)      == LinesE(lines, u, v)
HasFromTo(u, v)  == Lines(u, v) # {}
HasBetween(u, v) == Lines(u, v) # {} \/ Lines(v, u) # {}
FromE(N, L, u) == {v \in N : LinesE(L, u, v) # {}}
ToE(N, L, u)   == {v \in N : LinesE(L, v, u) # {}}
From(u) == FromE(nodes, lines, u)
To(u)   == ToE(nodes, lines, u)
RECURSIVE SumW(_)
SumW(S) == IF S = {} THEN 0 ELSE LET k == CHOOSE k \in S : TRUE IN lines[k] + SumW(S \ {k})
Weight(u, v) == SumW({k \in Keys : k[1] = Norm(u, v)[1] /\ k[2] = Norm(u, v)[2]})
LineList == {<<k[1], k[2], k[3], lines[k]>> : k \in Keys}

(************************ returned edge and line VALUES ***********************)
\* Edge(u, v) / WeightedEdge(u, v) / EdgeBetween / WeightedEdgeBetween and the items of Edges() /
\* WeightedEdges() return a VALUE (multi.Edge, multi.WeightedEdge) for a joined pair: its ends, an
\* iterator over the lines of the pair (EdgeValue.tla is its state machine) and, for the weighted
\* types, Weight() = the sum of the line weights ("If WeightFunc is nil, the sum of weights is used
\* as the edge weight").  ReversedEdge returns a value with the ends swapped ("The Lines within the
\* WeightedEdge are not altered").  A line VALUE (multi.Line, multi.WeightedLine) has ends, an id
\* and a weight; ReversedLine swaps the ends, "The UID and W of the new Line are the same".
EdgeVal(u, v)    == [f |-> u, t |-> v, ids |-> Lines(u, v), w |-> Weight(u, v)]   \* defined iff HasFromTo(u, v)
RevEdgeVal(e)    == [f |-> e.t, t |-> e.f, ids |-> e.ids, w |-> e.w]
LineVal(u, v, i) == [f |-> u, t |-> v, i |-> i, w |-> lines[K(u, v, i)]]          \* defined iff i \in Lines(u, v)
RevLineVal(l)    == [f |-> l.t, t |-> l.f, i |-> l.i, w |-> l.w]
EdgePairs == {<<k[1], k[2]>> : k \in Keys}

(******************************** mutators **********************************)
Ok    == last' = "ok"
Panic == last' = "panic" /\ UNCHANGED <<nodes, lines>>

AddNode(n) == IF n \in nodes THEN Panic
              ELSE nodes' = nodes \cup {n} /\ UNCHANGED lines /\ Ok
NewNode(n) == n \notin nodes /\ nodes' = nodes \cup {n} /\ UNCHANGED lines /\ Ok
RemoveNode(n) == /\ nodes' = nodes \ {n}
                 /\ lines' = Restrict(lines, {k \in Keys : k[1] # n /\ k[2] # n}) /\ Ok
SetLine(u, v, i, w) == /\ nodes' = nodes \cup {u, v}
                       /\ lines' = Upd(lines, K(u, v, i), w) /\ Ok
\* NewLine followed by SetLine of the returned line: the id is not a live line id of the pair
NewLine(u, v, i, w) == i \notin Lines(u, v) /\ SetLine(u, v, i, w)
\* documented: "If the line does not exist it is a no-op"
RemoveLine(u, v, i) == /\ lines' = Restrict(lines, Keys \ {K(u, v, i)})
                       /\ UNCHANGED nodes /\ Ok

Ops == [op : {"AddNode", "NewNode", "RemoveNode"}, u : IDs]
       \cup [op : {"SetLine", "NewLine"}, u : IDs, v : IDs, i : LIDs, w : Weights]
       \cup [op : {"RemoveLine"}, u : IDs, v : IDs, i : LIDs]

Do(o) == CASE o.op = "AddNode"    -> AddNode(o.u)
           [] o.op = "NewNode"    -> NewNode(o.u)
           [] o.op = "RemoveNode" -> RemoveNode(o.u)
           [] o.op = "SetLine"    -> SetLine(o.u, o.v, o.i, o.w)
           [] o.op = "NewLine"    -> NewLine(o.u, o.v, o.i, o.w)
           [] o.op = "RemoveLine" -> RemoveLine(o.u, o.v, o.i)

StateRec(n, l) == [nodes |-> n, lines |-> {<<k[1], k[2], k[3], l[k]>> : k \in DOMAIN l}]

Init == nodes = {} /\ lines = <<>> /\ last = "ok"

Next == \E o \in Ops :
          /\ Do(o)
          /\ Emit => PrintT(ToJson([k |-> "t", s |-> StateRec(nodes, lines), op |-> o,
                                    t |-> StateRec(nodes', lines'), out |-> last']))
Spec == Init /\ [][Next]_vars

(************************* design invariants (R1) ***************************)
U == IDs \cup nodes
TypeOK == nodes \subseteq IDs /\ \A k \in Keys : lines[k] \in Weights
Closed == \A k \in Keys : k[1] \in nodes /\ k[2] \in nodes
Canon  == \A k \in Keys : Norm(k[1], k[2]) = <<k[1], k[2]>>
Mirror == \A u, v \in U : (v \in From(u)) = (u \in To(v))
Symm   == ~Directed => \A u, v \in U : Lines(u, v) = Lines(v, u)
\* reversing twice gives the value back; ids and weights survive a reversal; in an undirected graph the
\* reversal of the edge / line asked for as (u, v) is the value asked for as (v, u)
RevLaw == \A u, v \in U : HasFromTo(u, v) =>
            /\ RevEdgeVal(RevEdgeVal(EdgeVal(u, v))) = EdgeVal(u, v)
            /\ RevEdgeVal(EdgeVal(u, v)).w = Weight(u, v)
            /\ (~Directed => RevEdgeVal(EdgeVal(u, v)) = EdgeVal(v, u))
            /\ \A i \in Lines(u, v) :
                  /\ RevLineVal(RevLineVal(LineVal(u, v, i))) = LineVal(u, v, i)
                  /\ (~Directed => RevLineVal(LineVal(u, v, i)) = LineVal(v, u, i))
\* the weight of an edge value is the sum over exactly the line values of the pair
RECURSIVE SumLV(_)
SumLV(S) == IF S = {} THEN 0 ELSE LET l == CHOOSE l \in S : TRUE IN l.w + SumLV(S \ {l})
EdgeWeightLaw == \A u, v \in U : HasFromTo(u, v) =>
                    EdgeVal(u, v).w = SumLV({LineVal(u, v, i) : i \in Lines(u, v)})
PanicLeavesUnchanged == [][last' = "panic" => UNCHANGED <<nodes, lines>>]_vars
RemoveNodeExact == [][\A n \in IDs : (n \in nodes /\ n \notin nodes') =>
                        /\ nodes' = nodes \ {n}
                        /\ DOMAIN lines' = {k \in Keys : k[1] # n /\ k[2] # n}]_vars

(********** the wrapper views of package graph (GraphViews.tla) on a multigraph **********)
\* graph.Undirect of the directed multigraphs (through their graph.Directed methods) and
\* graph.Complement of every multigraph: the base graph has an arc for every ordered pair joined by
\* at least one line - self loops included, which the complement "will not include".
Arcs == TLCEval({a \in nodes \X nodes : HasFromTo(a[1], a[2])})
ViewBase == LET A == Arcs IN
            /\ \A u, v \in U : UHasV(A, u, v) = HasBetween(u, v)
            /\ \A u \in U : FromA(nodes, A, u) = From(u)
            /\ ~Directed => SymA(A) = A
ViewUndirect   == Directed => LET A == Arcs IN UndirectLaws(nodes, A, U)
ViewComplement == LET A == Arcs IN ComplementLaws(nodes, A, U)
\* tuples as in GraphSet.tla: uev / cev <<x, y, f, t, rf, rt>>
IDPairs == IDs \X IDs
ViewAnswersOf(A) ==
  [k |-> "v", nodes |-> nodes, lines |-> LineList, directed |-> Directed,
   cfrom |-> [u \in IDs |-> CFromV(nodes, A, u)],
   cheb  |-> {p \in IDPairs : CBetweenV(nodes, A, p[1], p[2])},
   cev   |-> {<<p[1], p[2], CEdgeV(p[1], p[2]).f, CEdgeV(p[1], p[2]).t,
                RevV(CEdgeV(p[1], p[2])).f, RevV(CEdgeV(p[1], p[2])).t>>
              : p \in {q \in IDPairs : CHasV(nodes, A, q[1], q[2])}}]
  @@ (IF Directed
      THEN [ufrom |-> [u \in IDs |-> UFromV(nodes, A, u)],
            uheb  |-> {p \in IDPairs : UHasV(A, p[1], p[2])},
            uev   |-> {<<p[1], p[2], UEdgeV(A, p[1], p[2]).f, UEdgeV(A, p[1], p[2]).t,
                         RevV(UEdgeV(A, p[1], p[2])).f, RevV(UEdgeV(A, p[1], p[2])).t>>
                       : p \in {q \in IDPairs : UHasV(A, q[1], q[2])}}]
      ELSE <<>>)

EmitState ==
  Emit => PrintT(ToJson(ViewAnswersOf(Arcs))) /\
          PrintT(ToJson([k |-> "s", nodes |-> nodes, lines |-> LineList,
      from |-> [u \in IDs |-> From(u)], to |-> [u \in IDs |-> To(u)],
      heft |-> {<<u, v>> \in IDs \X IDs : HasFromTo(u, v)},
      heb  |-> {<<u, v>> \in IDs \X IDs : HasBetween(u, v)},
      \* per ordered pair: the edge value (line ids, weight), the ends of its ReversedEdge, and each
\* line value with the value its ReversedLine must be
      lids |-> {[u |-> u, v |-> v, ids |-> Lines(u, v), w |-> Weight(u, v),
                 rf |-> RevEdgeVal(EdgeVal(u, v)).f, rt |-> RevEdgeVal(EdgeVal(u, v)).t,
                 lv |-> {[i |-> i, w |-> LineVal(u, v, i).w,
                          rf |-> RevLineVal(LineVal(u, v, i)).f, rt |-> RevLineVal(LineVal(u, v, i)).t,
                          ri |-> RevLineVal(LineVal(u, v, i)).i, rw |-> RevLineVal(LineVal(u, v, i)).w]
                         : i \in Lines(u, v)}] : u \in IDs, v \in IDs},
      pairs |-> EdgePairs]))
=============================================================================
