SPECIFICATION Spec
CONSTANTS
  IDs = @IDS@
  Directed = @DIRECTED@
  Weights = @WEIGHTS@
  DenseN = @DENSEN@
  AbsentW = 0
  Emit = @EMIT@
INVARIANTS TypeOK Closed NoSelf Canon Mirror Symm Between WeightOK DenseNoAbsent RevLaw ViewBase ViewUndirect ViewComplement EmitState
PROPERTIES PanicLeavesUnchanged RemoveNodeExact
VIEW View
CHECK_DEADLOCK FALSE
