SPECIFICATION TraceSpec
CONSTANTS
  IDs = {}
  Directed = @DIRECTED@
  Weights = {1, 2, 3}
  DenseN = @DENSEN@
  AbsentW = 0
  Emit = FALSE
INVARIANTS TraceInv
POSTCONDITION Accepted
CHECK_DEADLOCK FALSE
