----------------------------- MODULE GraphDense -----------------------------
(* The dense (adjacency matrix) graphs of graph/simple with their CONSTRUCTION *)
(* as part of the history, and the identity of the node OBJECTS they return.   *)
(*                                                                             *)
(* GraphSet.tla says what a dense graph on nodes 0..n-1 does once it exists.   *)
(* This module adds, reusing GraphSet's mutators and query operators:          *)
(*   - the state "no graph yet" and one action per constructor call:           *)
(*       New{Directed,Undirected}Matrix(n, init, self, absent)       ("plain") *)
(*       New{Directed,Undirected}MatrixFrom(nodes, init, self, absent) ("from")*)
(*     The node slice of the From constructors is modelled by the sequence ord *)
(*     of its ids.  Documented: the ids "must be contiguous from 0 to          *)
(*     len(nodes)-1, but may be in any order. If IDs are not contiguous        *)
(*     New*MatrixFrom will panic"; "All edges are initialized with the weight  *)
(*     given by init"; self is "the cost of self connection" and absent "the   *)
(*     weight returned for absent edges".  The ORDER of the slice and the self *)
(*     value do not appear on the right-hand side of Construct: every legal    *)
(*     order and every self value give the same graph.                         *)
(*   - obj: which of the node objects handed to the graph is the one it        *)
(*     returns for each id (Node, Nodes, From, To and the ends of the returned *)
(*     edges).  Node objects carry a payload token: 0 for the objects given to *)
(*     the constructor, p for the ends of the edge given to a SetEdge /        *)
(*     SetWeightedEdge call.  Documented: "SetEdge will store the nodes of e   *)
(*     in the graph if it was initialized with New*MatrixFrom"; a graph built  *)
(*     by the plain constructor returns simple.Node values (token PlainTok).      *)
(*     When SetEdge panics nothing is promised about the objects stored for    *)
(*     its ends that are nodes of the graph: their token becomes AnyTok.          *)
(*   - weights are TOKENS (small integers); which float64 a token stands for is *)
(*     the harness's binding (token k -> float64(k) unless bound otherwise).    *)
(*     init, self and absent are arbitrary float64 values for gonum, so the     *)
(*     token AbsentW (and a self token) may be bound to NaN, +Inf or -Inf: the   *)
(*     same histories are replayed under those bindings.  The model compares    *)
(*     tokens (w = AbsentW): a weight equal to absent means "no edge" whatever  *)
(*     float it is - absent is "the weight returned for absent edges",          *)
(*     RemoveEdge "removes the edge" by storing it, a graph built with init =   *)
(*     absent has no edges - so when absent is NaN a NaN weight is absent (NaN   *)
(*     is the same value as NaN for this purpose, although NaN # NaN in IEEE     *)
(*     arithmetic) and Weight / WeightedEdge / From / To / Edges /              *)
(*     HasEdgeBetween / HasEdgeFromTo must all agree on it; a returned NaN      *)
(*     equals the token bound to NaN.                                           *)
(* Roles: R1 (the invariants below, over every history), R2 (generator: every  *)
(* state with all query answers and every transition, replayed on the real     *)
(* types).  GraphSetTrace.tla uses IsPerm / CtorEdges for the recorded         *)
(* constructor calls of the random histories (R3).                             *)
EXTENDS GraphSet

CONSTANTS PlainNs,   \* the n of the plain constructor calls
          OrderN,    \* length of the node slices given to the From constructors
          Selfs,     \* self weights the constructors are called with
          Payloads   \* payload tokens of the node objects given to SetEdge ({0}: identity not tracked)

VARIABLES built,     \* "no" | "plain" | "from"
          obj        \* [nodes -> token]

dvars == <<nodes, edges, last, built, obj>>
DView == <<nodes, edges, built, obj>>

\* the node slices: every order of the ids 0..OrderN-1, and slices whose ids are not contiguous
\* from 0 (0 missing; a gap below the largest id; an id twice; a negative id)
Perms(n) == {s \in [1 .. n -> 0 .. (n - 1)] : IsPerm(s)}
Bad(n)   == {[i \in 1 .. n |-> i], [i \in 1 .. n |-> IF i = n THEN n ELSE i - 1],
             [i \in 1 .. n |-> IF i = n THEN 0 ELSE i - 1], [i \in 1 .. n |-> i - 2]}
Orders   == Perms(OrderN) \cup Bad(OrderN)

CtorTok == 0
AnyTok     == 8
PlainTok   == 9

Construct(c) ==
    /\ built = "no"
    /\ IF c.kind = "from" /\ ~IsPerm(c.ord)
       THEN Panic /\ UNCHANGED <<built, obj>>
       ELSE LET N == IF c.kind = "plain" THEN 0 .. (c.n - 1) ELSE 0 .. (Len(c.ord) - 1) IN
            /\ nodes' = N
            /\ edges' = CtorEdges(N, c.init)
            /\ built' = c.kind
            /\ obj' = [i \in N |-> IF c.kind = "plain" THEN PlainTok ELSE CtorTok]
            /\ Ok

\* SetEdge(e) of the unweighted interface stores weight 1; SetWeightedEdge(e) stores e.Weight()
Stored(u, v, p) ==
    IF built = "plain" THEN obj
    ELSE IF last' = "panic"
         THEN [i \in DOMAIN obj |-> IF i \in {u, v} /\ obj[i] # p THEN AnyTok ELSE obj[i]]
         ELSE [i \in DOMAIN obj |-> IF i \in {u, v} THEN p ELSE obj[i]]

DSetEdge(u, v, w, p) == /\ built # "no" /\ SetEdge(u, v, w) /\ obj' = Stored(u, v, p) /\ UNCHANGED built
DRemoveEdge(u, v)    == /\ built # "no" /\ RemoveEdge(u, v) /\ UNCHANGED <<built, obj>>

DOps == [op : {"Construct"}, kind : {"plain"}, n : PlainNs, ord : {<<>>}, init : Weights, self : Selfs]
        \cup [op : {"Construct"}, kind : {"from"}, n : {0}, ord : Orders, init : Weights, self : Selfs]
        \cup [op : {"SetWeightedEdge"}, u : IDs, v : IDs, w : Weights, p : Payloads]
        \cup [op : {"SetUnitEdge"}, u : IDs, v : IDs, p : Payloads]
        \cup [op : {"RemoveEdge"}, u : IDs, v : IDs]

DDo(o) == CASE o.op = "Construct"       -> Construct(o)
            [] o.op = "SetWeightedEdge" -> DSetEdge(o.u, o.v, o.w, o.p)
            [] o.op = "SetUnitEdge"     -> DSetEdge(o.u, o.v, 1, o.p)
            [] o.op = "RemoveEdge"      -> DRemoveEdge(o.u, o.v)

DStateRec(n, e, b, ob) == [nodes |-> n, edges |-> {<<p[1], p[2], e[p]>> : p \in DOMAIN e},
                           built |-> b, obj |-> {<<i, ob[i]>> : i \in DOMAIN ob}]

DInit == nodes = {} /\ edges = <<>> /\ last = "ok" /\ built = "no" /\ obj = <<>>

DNext == \E o \in DOps :
           /\ DDo(o)
           /\ Emit => PrintT(ToJson([k |-> "t", s |-> DStateRec(nodes, edges, built, obj), op |-> o,
                                     t |-> DStateRec(nodes', edges', built', obj'), out |-> last']))

DSpec == DInit /\ [][DNext]_dvars

(************************* design invariants (R1) ***************************)
DTypeOK == /\ built \in {"no", "plain", "from"}
           /\ DOMAIN obj = nodes
           /\ \A i \in nodes : obj[i] \in Payloads \cup {CtorTok, AnyTok, PlainTok}
\* a built graph has exactly the nodes 0..n-1 for some n > 0 - no mutator changes the node set
Contiguous == built # "no" => \E n \in 1 .. DenseN : nodes = 0 .. (n - 1)
Unbuilt    == built = "no" => nodes = {} /\ edges = <<>>
\* a plain graph only ever returns simple.Node values; a From graph never does
PlainObj   == \A i \in nodes : (obj[i] = PlainTok) = (built = "plain")
DPanicLeavesUnchanged == [][last' = "panic" => UNCHANGED <<nodes, edges, built>>]_dvars

(**************************** generator role (R2) ***************************)
\* (the wrapper views - graph.Undirect / UndirectWeighted / Complement, GraphSet.tla - hand out the node
\* objects "stored in the original graph": the "v" record carries obj as well)
DEmitState ==
  Emit => /\ PrintT(ToJson(StateAnswers @@ [built |-> built, obj |-> {<<i, obj[i]>> : i \in nodes}]))
          /\ PrintT(ToJson(ViewAnswers @@ [built |-> built, obj |-> {<<i, obj[i]>> : i \in nodes}]))
=============================================================================
