----------------------------- MODULE GraphViews -----------------------------
(* The wrapper VIEWS of package graph over a container (graph/undirect.go,      *)
(* graph/complement.go), as pure operators over a base graph (N, A, W):         *)
(*   N  the node ids,  A \subseteq N \X N  the arcs (ordered pairs; an          *)
(*   undirected graph is given by its symmetric arc set; a multigraph by the    *)
(*   pairs joined by at least one line, loops included),  W \in [A -> Int] the  *)
(*   weight tokens.                                                             *)
(* GraphSet.tla and GraphMulti.tla apply them to their states, cross-check them *)
(* against second formulations (R1) and print their answers per state (R2).     *)
(*                                                                              *)
(* graph.Undirect{G Directed} "converts a directed graph to an undirected       *)
(* graph", graph.UndirectWeighted{G, Absent, Merge} does so "resolving edge     *)
(* weight conflicts":                                                           *)
(*   Node / Nodes      those of G                                               *)
(*   From(u)           "all nodes in g that can be reached directly from u": in *)
(*                     the undirected graph, the nodes joined to u by an arc in *)
(*                     either direction; no nodes when u is not a node          *)
(*   HasEdgeBetween    "whether an edge exists between nodes x and y"           *)
(*   Edge = EdgeBetween (= WeightedEdge = WeightedEdgeBetween): "If an edge     *)
(*                     exists, the Edge returned is an EdgePair" [fe, re] of    *)
(*                     the arcs x->y and y->x (a missing one is nil); From()    *)
(*                     and To() are those "of the first non-nil edge";          *)
(*                     ReversedEdge has "the end point of the edges in the pair *)
(*                     swapped"; Weight() "the merged edge weights"             *)
(*   Merge             "A merge is performed if at least one edge exists        *)
(*                     between the nodes being considered"; Absent is "the      *)
(*                     value used to represent absent edge weights passed to    *)
(*                     Merge if the reverse edge is present"; "The edges        *)
(*                     corresponding to the two weights are also passed, in the *)
(*                     same order. The order of weight parameters passed to     *)
(*                     Merge is not defined, so the function should be          *)
(*                     commutative. If Merge is nil, the arithmetic mean is     *)
(*                     used"                                                    *)
(*   Weight(x, y)      "the weight for the edge between x and y if Edge(x, y)   *)
(*                     returns a non-nil Edge. If x and y are the same node the *)
(*                     internal node weight is returned. If there is no joining *)
(*                     edge between the two nodes the weight value returned is  *)
(*                     zero. Weight returns true if an edge exists between x    *)
(*                     and y or if x and y have the same ID, false otherwise."  *)
(* graph.Complement{Graph} "provides the complement of a graph. The complement  *)
(* will not include self-edges ... Nodes returned by the Complement directly or *)
(* via queries to returned Edges will be those stored in the original graph":   *)
(*   Node / Nodes      those of the graph                                       *)
(*   Edge(u, v)        "the edge from u to v if such an edge exists and nil     *)
(*                     otherwise": u # v, both nodes, and the graph has no edge *)
(*                     from u to v                                              *)
(*   From(u)           "all nodes in g that can be reached directly from u in   *)
(*                     the complement"                                          *)
(*   HasEdgeBetween    "whether an edge exists between nodes x and y" (of the   *)
(*                     complement, in either direction: for a directed graph it *)
(*                     is true as soon as ONE of the two arcs is missing)       *)
(* Weights are small integers; merged weights are stated DOUBLED (w2 = twice    *)
(* the weight), so that the arithmetic mean stays an integer.                   *)
EXTENDS Integers, FiniteSets

Flip(a) == <<a[2], a[1]>>
SymA(A) == A \cup {Flip(a) : a \in A}
FromA(N, A, u) == {v \in N : <<u, v>> \in A}          \* plain From in the graph (N, A)

(************************** undirected view **********************************)
UHasV(A, x, y)  == <<x, y>> \in A \/ <<y, x>> \in A
UFromV(N, A, u) == IF u \in N THEN {v \in N : UHasV(A, u, v)} ELSE {}
\* the value of Edge(x, y), defined iff UHasV(A, x, y): the ends of the first non-nil arc of the pair
UEdgeV(A, x, y) == IF <<x, y>> \in A THEN [f |-> x, t |-> y] ELSE [f |-> y, t |-> x]
RevV(e)         == [f |-> e.t, t |-> e.f]

Merges == {"mean", "min", "max"}
MinOf(a, b) == IF a <= b THEN a ELSE b
MaxOf(a, b) == IF a >= b THEN a ELSE b
\* TWICE the merged weight
Merge2(m, f, r) == CASE m = "mean" -> f + r
                     [] m = "min"  -> 2 * MinOf(f, r)
                     [] m = "max"  -> 2 * MaxOf(f, r)
\* the weight handed to Merge for the direction x -> y
DirW(A, W, ab, x, y) == IF <<x, y>> \in A THEN W[<<x, y>>] ELSE ab
\* what Merge is handed for the pair (x, y): the two (weight, edge) arguments - UNORDERED; p: is the
\* edge argument non-nil, (f, t): its ends when it is
MergeArgs(A, W, ab, x, y) ==
    {[w |-> DirW(A, W, ab, x, y), p |-> <<x, y>> \in A, f |-> x, t |-> y],
     [w |-> DirW(A, W, ab, y, x), p |-> <<y, x>> \in A, f |-> y, t |-> x]}
UMerged2(A, W, m, ab, x, y) == Merge2(m, DirW(A, W, ab, x, y), DirW(A, W, ab, y, x))
\* Weight(x, y): k = "self" (the internal node weight, ok), "edge" (w2 = twice the merged weight, ok),
\* "absent" (zero, not ok)
UWeightV(A, W, m, ab, x, y) ==
    IF x = y THEN [k |-> "self", w2 |-> 0]
    ELSE IF UHasV(A, x, y) THEN [k |-> "edge", w2 |-> UMerged2(A, W, m, ab, x, y)]
    ELSE [k |-> "absent", w2 |-> 0]
UWeightOk(A, W, m, ab, x, y) == UWeightV(A, W, m, ab, x, y).k # "absent"

(****************************** complement ***********************************)
CHasV(N, A, u, v)     == u # v /\ u \in N /\ v \in N /\ <<u, v>> \notin A     \* Edge(u, v) # nil
CArcs(N, A)           == {a \in N \X N : CHasV(N, A, a[1], a[2])}
CFromV(N, A, u)       == IF u \in N THEN {v \in N \ {u} : v \notin FromA(N, A, u)} ELSE {}
CBetweenV(N, A, x, y) == x # y /\ x \in N /\ y \in N /\ (<<x, y>> \notin A \/ <<y, x>> \notin A)
CEdgeV(u, v)          == [f |-> u, t |-> v]                                   \* defined iff CHasV

(******************* laws (checked by TLC in the using modules) ***************)
\* the laws of the views of the base (N, A, W) for arguments in X \supseteq N (written so that TLC
\* evaluates the derived sets once per state: they are checked on every state of the using models)
UndirectLaws(N, A, X) ==
    LET S == SymA(A) IN
    /\ \A x \in X : UFromV(N, A, x) = FromA(N, S, x)         \* = From of the symmetrised graph
    /\ \A x, y \in X :
          /\ UHasV(A, x, y) = (<<x, y>> \in S)
          /\ (y \in UFromV(N, A, x)) = (x \in UFromV(N, A, y))  \* symmetric
          /\ (y \in UFromV(N, A, x)) = UHasV(A, x, y)           \* (arcs join nodes)
          /\ UHasV(A, x, y) =>
                LET e == UEdgeV(A, x, y) IN
                /\ RevV(RevV(e)) = e
                /\ {e.f, e.t} = {x, y}
                /\ (<<x, y>> \in A /\ <<y, x>> \in A) => RevV(e) = UEdgeV(A, y, x)
\* the three merges as arithmetic (independent of any graph: checked once): commutative, idempotent,
\* ordered min <= mean <= max, and min + max = 2 * mean
ASSUME MergeAlgebra == \A f, r \in -4 .. 4 :
    /\ \A m \in Merges : Merge2(m, f, r) = Merge2(m, r, f) /\ Merge2(m, f, f) = 2 * f
    /\ Merge2("min", f, r) <= Merge2("mean", f, r)
    /\ Merge2("mean", f, r) <= Merge2("max", f, r)
    /\ Merge2("min", f, r) + Merge2("max", f, r) = 2 * Merge2("mean", f, r)
    /\ Merge2("min", f, r) \in {2 * f, 2 * r} /\ Merge2("max", f, r) \in {2 * f, 2 * r}
WeightLaws(A, W, Abs, X) == \A x, y \in X :
    LET both == <<x, y>> \in A /\ <<y, x>> \in A
    IN \A m \in Merges :
         /\ \A ab \in Abs :
               /\ UWeightOk(A, W, m, ab, x, y) = (x = y \/ UHasV(A, x, y))
               /\ UWeightV(A, W, m, ab, x, y) = UWeightV(A, W, m, ab, y, x)   \* symmetric in (x, y)
               /\ (both /\ W[<<x, y>>] = W[<<y, x>>]) =>                      \* concordant weights
                     UMerged2(A, W, m, ab, x, y) = 2 * W[<<x, y>>]
               /\ both => \A ab2 \in Abs :               \* no absent direction: Absent plays no part
                            UMerged2(A, W, m, ab, x, y) = UMerged2(A, W, m, ab2, x, y)
               /\ (m = "mean" /\ x # y) => Cardinality(MergeArgs(A, W, ab, x, y)) = 2
Loops(A) == {a \in A : a[1] = a[2]}
ComplementLaws(N, A, X) ==
    LET C == CArcs(N, A) IN
    /\ CArcs(N, C) = A \ Loops(A)                           \* the complement of the complement
    /\ Loops(C) = {}
    /\ \A x \in X :
          LET cf == CFromV(N, A, x)
              fr == FromA(N, A, x)
          IN /\ cf = FromA(N, C, x)
             /\ x \in N => /\ cf \cup fr \cup {x} = N
                           /\ cf \cap fr = {}
                           /\ x \notin cf
    /\ \A x, y \in X : CBetweenV(N, A, x, y) = UHasV(C, x, y)
=============================================================================
