------------------------------ MODULE GraphStore ------------------------------
(* Implementation-shaped model of graph/simple.DirectedGraph together with the  *)
(* ID allocator graph/set/uid.Set, transcribed from directed.go / uid.go at the  *)
(* grain of their map operations:                                                *)
(*     nodes map, from[u][v], to[v][u] adjacency maps, uid.Set{maxID,used,free}. *)
(* TLC checks (R1) that this design REFINES the abstract set model GraphSet      *)
(* (refinement mapping: nodes = key set of the node map, edges = {<<u,v>> : v in *)
(* from[u]}), and the representation invariants the code relies on: the two      *)
(* adjacency maps mirror each other, adjacency keys are live nodes, the          *)
(* allocator's used set is exactly the live node set, and the ID handed out by   *)
(* NewNode is never live.  Verdicts on the real code never come from this layer  *)
(* (a different but correct representation is fine): it documents why the code   *)
(* satisfies the abstract model and localises a model-level counterexample.      *)
EXTENDS Integers, FiniteSets, Sequences, TLC

CONSTANTS IDs        \* ids used by AddNode/SetEdge/Remove*; NewNode may go one beyond

MaxID == 5           \* stands for math.MaxInt64 in the allocator's wrap-around branch
AllIDs == 0 .. MaxID

VARIABLES gnodes, from, to, used, free, maxID, last
vars == <<gnodes, from, to, used, free, maxID, last>>

Max2(a, b) == IF a > b THEN a ELSE b
Min(S) == CHOOSE x \in S : \A y \in S : x <= y

\* adjacency maps are total functions AllIDs -> SUBSET AllIDs; an absent key is the empty set
Init == /\ gnodes = {} /\ from = [n \in AllIDs |-> {}] /\ to = [n \in AllIDs |-> {}]
        /\ used = {} /\ free = {} /\ maxID = -1 /\ last = "ok"

(* uid.Set *)
UseP(id, u, f, m) == <<u \cup {id}, f \ {id}, Max2(m, id)>>
\* NewID: any id in free (map iteration order), else maxID+1, else the smallest unused id
NewIDs == IF free # {} THEN free
          ELSE IF maxID # MaxID THEN {maxID + 1}
          ELSE {Min(AllIDs \ used)}

AddNodeTo(n) == /\ gnodes' = gnodes \cup {n}
                /\ used' = UseP(n, used, free, maxID)[1]
                /\ free' = UseP(n, used, free, maxID)[2]
                /\ maxID' = UseP(n, used, free, maxID)[3]

AddNode(n) == IF n \in gnodes
              THEN last' = "panic" /\ UNCHANGED <<gnodes, from, to, used, free, maxID>>
              ELSE AddNodeTo(n) /\ UNCHANGED <<from, to>> /\ last' = "ok"

\* NewNode() then AddNode(result)
NewNode == /\ Cardinality(gnodes) < Cardinality(AllIDs)
           /\ \E id \in (IF gnodes = {} THEN {0} ELSE NewIDs) :
                IF id \in gnodes
                THEN last' = "panic" /\ UNCHANGED <<gnodes, from, to, used, free, maxID>>   \* would be an ID collision
                ELSE AddNodeTo(id) /\ UNCHANGED <<from, to>> /\ last' = "ok"

RemoveNode(n) ==
    IF n \notin gnodes THEN UNCHANGED <<gnodes, from, to, used, free, maxID>> /\ last' = "ok"
    ELSE /\ gnodes' = gnodes \ {n}
         \* for from := range g.from[id] { delete(g.to[from], id) } ; delete(g.from, id)
         \* for to := range g.to[id]   { delete(g.from[to], id) } ; delete(g.to, id)
         /\ to' = [v \in AllIDs |-> IF v = n THEN {} ELSE IF v \in from[n] THEN to[v] \ {n} ELSE to[v]]
         /\ from' = [u \in AllIDs |-> IF u = n THEN {} ELSE IF u \in to[n] THEN from[u] \ {n} ELSE from[u]]
         /\ free' = free \cup {n} /\ used' = used \ {n} /\ UNCHANGED maxID
         /\ last' = "ok"

SetEdge(u, v) ==
    IF u = v THEN last' = "panic" /\ UNCHANGED <<gnodes, from, to, used, free, maxID>>
    ELSE LET s1 == IF u \in gnodes THEN <<used, free, maxID>> ELSE UseP(u, used, free, maxID)
             s2 == IF v \in gnodes THEN s1 ELSE UseP(v, s1[1], s1[2], s1[3])
         IN /\ gnodes' = gnodes \cup {u, v}
            /\ used' = s2[1] /\ free' = s2[2] /\ maxID' = s2[3]
            /\ from' = [from EXCEPT ![u] = @ \cup {v}]
            /\ to' = [to EXCEPT ![v] = @ \cup {u}]
            /\ last' = "ok"

RemoveEdge(u, v) ==
    IF u \notin gnodes \/ v \notin gnodes THEN UNCHANGED <<gnodes, from, to, used, free, maxID>> /\ last' = "ok"
    ELSE /\ from' = [from EXCEPT ![u] = @ \ {v}]
         /\ to' = [to EXCEPT ![v] = @ \ {u}]
         /\ UNCHANGED <<gnodes, used, free, maxID>> /\ last' = "ok"

Next == \/ \E n \in IDs : AddNode(n) \/ RemoveNode(n)
        \/ NewNode
        \/ \E u, v \in IDs : SetEdge(u, v) \/ RemoveEdge(u, v)
Spec == Init /\ [][Next]_vars

(***************************** representation ******************************)
Mirror == \A u, v \in AllIDs : (v \in from[u]) = (u \in to[v])
Closed == \A u \in AllIDs : from[u] # {} \/ to[u] # {} => u \in gnodes
ClosedTargets == \A u \in AllIDs : from[u] \subseteq gnodes /\ to[u] \subseteq gnodes
UidConsistent == /\ used = gnodes /\ free \cap used = {}
                 /\ \A n \in gnodes : n <= maxID
                 /\ free \subseteq AllIDs
FreshID == gnodes # {} /\ Cardinality(gnodes) < Cardinality(AllIDs) => NewIDs \cap gnodes = {}
NoCollision == last # "panic" \/ TRUE      \* (ID collisions of NewNode would surface as RefinesSet failing)

(******************************* refinement ********************************)
absEdges == [p \in {<<u, v>> \in AllIDs \X AllIDs : v \in from[u]} |-> 1]
Abs == INSTANCE GraphSet WITH IDs <- AllIDs, Directed <- TRUE, Weights <- {1}, DenseN <- 0, AbsentW <- 0,
                              Emit <- FALSE, nodes <- gnodes, edges <- absEdges, last <- last
RefinesSet == Abs!Spec
=============================================================================
