------------------------------- MODULE UidSet -------------------------------
(* The node-ID allocator graph/set/uid.Set as graph/simple drives it,         *)
(* over UNBOUNDED integers and UNBOUNDED histories.                           *)
(*                                                                            *)
(*   uid.Set          {maxID int64; used, free set.Ints}      (uid.go)         *)
(*   Use(id)          used+=id; free-=id; maxID=max(maxID,id)                  *)
(*   Release(id)      free+=id; used-=id                                       *)
(*   NewID()          some id of free (map iteration: ANY of them), else       *)
(*                    maxID+1 if maxID # MaxInt64, else the least id of        *)
(*                    0..maxID not in used, else panic("unreachable")          *)
(*                                                                            *)
(*   graph/simple     AddNode(n)    -> panics if n.ID() is live, else          *)
(*   (Directed-,                       nodes[id]=n; nodeIDs.Use(id)            *)
(*   UndirectedGraph, RemoveNode(id)-> no-op if id is not live, else           *)
(*   Weighted..)                        delete(nodes,id); nodeIDs.Release(id)   *)
(*                    NewNode()     -> Node(0) if len(nodes)=0;  panics if     *)
(*                                     len(nodes)=uid.Max; else NewID()        *)
(*   (SetEdge/SetWeightedEdge add missing end points through AddNode.)         *)
(*                                                                            *)
(* What is established (see specs/PROOFS.md):                                 *)
(*   IndInv is an inductive invariant of Spec, and IndInv => FreshID /\        *)
(*   RetFresh: an ID handed out by NewNode is never the ID of a live node, so  *)
(*   g.AddNode(g.NewNode()) cannot hit the "node ID collision" panic - after   *)
(*   any finite history of AddNode/RemoveNode/NewNode calls with arbitrary     *)
(*   int64 IDs.  GraphSet.tla (property C12) checks the same clause only on    *)
(*   histories over <= 5 IDs.                                                 *)
(*                                                                            *)
(* Three tools read this one module:                                          *)
(*   apalache-mc  (typed, SMT): Init => IndInv, IndInv /\ Next => IndInv',     *)
(*                IndInv => FreshID, with IndInit built from Gen(N)            *)
(*                (UidSetApa.tla instantiates nothing, it only adds IndInit)   *)
(*   tlapm        (UidSetProof.tla): the same three facts with no bound at     *)
(*                all, plus Spec => []FreshID by PTL                           *)
(*   TLC          (UidSet.cfg, IdDom <- TLCIds): reachable states for a small  *)
(*                word size, IndInv/FreshID/NoScanPanic as plain invariants    *)
EXTENDS Integers, FiniteSets

CONSTANT
    \* the largest ID, math.MaxInt64 in gonum (uid.Max); any Max >= 1 works
    \* @type: Int;
    Max

ASSUME MaxAssumption == Max \in Int /\ Max >= 1

MinID == (-Max) - 1                  \* math.MinInt64: AddNode accepts every int64
IsID(x) == MinID <= x /\ x <= Max

\* the domain the actions' parameter ranges over.  Int for the proofs;
\* TLC's cfg overrides it by the finite word TLCIds.
IdDom == Int
TLCIds == MinID .. Max

VARIABLES
    \* the graph's node map: IDs of live nodes
    \* @type: Set(Int);
    nodes,
    \* @type: Set(Int);
    used,
    \* @type: Set(Int);
    free,
    \* @type: Int;
    maxID,
    \* the last call: "init" | "add" | "remove" | "new"
    \* @type: Str;
    op,
    \* the argument of the last call, or the ID NewNode returned
    \* @type: Int;
    ret

vars == <<nodes, used, free, maxID, op, ret>>

(******************************* uid.Set *************************************)
Use(id) == /\ used' = used \cup {id}
           /\ free' = free \ {id}
           /\ maxID' = IF id > maxID THEN id ELSE maxID

Release(id) == /\ free' = free \cup {id}
               /\ used' = used \ {id}
               /\ UNCHANGED maxID

\* r is a value NewID() may return in the current state.  The free branch is
\* nondeterministic (Go map iteration order).  The scan branch of the code
\* returns the LEAST id of 0..maxID that is not used; the specification allows
\* ANY unused id of that range.  That is a superset of the code's behaviours
\* (the code refines it), so every safety property proved here holds for the
\* code; "least" would need a quantifier over 0..r-1, which the SMT encoding of
\* apalache-mc does not accept for a non-constant r, and no property needs it.
NewIDResult(r) ==
    IF free # {} THEN r \in free
    ELSE IF maxID # Max THEN r = maxID + 1
    ELSE 0 <= r /\ r <= maxID /\ r \notin used

\* NewID() panics ("unreachable") exactly when no branch produces a value
ScanFails == free = {} /\ maxID = Max /\ \A q \in 0 .. Max : q \in used

(***************************** graph/simple **********************************)
Init == /\ nodes = {} /\ used = {} /\ free = {}
        /\ maxID = -1
        /\ op = "init" /\ ret = 0

AddNode(id) == /\ IsID(id)
               /\ id \notin nodes               \* otherwise: panic, state unchanged
               /\ nodes' = nodes \cup {id}
               /\ Use(id)
               /\ op' = "add" /\ ret' = id

RemoveNode(id) == /\ IsID(id)
                  /\ id \in nodes               \* otherwise: no-op
                  /\ nodes' = nodes \ {id}
                  /\ Release(id)
                  /\ op' = "remove" /\ ret' = id

\* NewNode returning r.  The len(nodes) = uid.Max panic guard is NOT a
\* conjunct: leaving it out only adds behaviours (NewID called in more states),
\* so everything proved holds for the guarded code as well.
NewNode(r) == /\ IF nodes = {} THEN r = 0 ELSE NewIDResult(r)
              /\ op' = "new" /\ ret' = r
              /\ UNCHANGED <<nodes, used, free, maxID>>

Next == \E id \in IdDom : AddNode(id) \/ RemoveNode(id) \/ NewNode(id)

Spec == Init /\ [][Next]_vars

(******************************* invariants **********************************)
TypeOK == /\ \A x \in nodes : x \in Int /\ IsID(x)
          /\ \A x \in free : x \in Int /\ IsID(x)
          /\ maxID \in Int
          /\ ret \in Int
          /\ op \in {"init", "add", "remove", "new"}

\* the ID NewNode just returned is not live (NewNode leaves the node map alone,
\* so this speaks about the very state the caller continues in)
RetFresh == op = "new" => ret \notin nodes

IndInv == /\ TypeOK
          /\ used = nodes                           \* used is exactly the live node set
          /\ \A x \in free : x \notin used          \* free and used are disjoint
          /\ \A x \in used : x <= maxID
          /\ \A x \in free : x <= maxID             \* a free id was used once
          /\ -1 <= maxID /\ maxID <= Max
          /\ RetFresh

\* every value NewNode can return in this state is not a live node:
\* the three branches of NewID (any free id / maxID+1 / an id the scan finds
\* unused) and the empty-graph shortcut Node(0)
FreshID == /\ \A r \in free : r \notin nodes
           /\ (maxID + 1) \notin nodes
           /\ \A r \in nodes : r \in used      \* contrapositive: unused => not live
           /\ nodes = {} => 0 \notin nodes

\* the same, stated over the operator the action uses (tlapm and TLC)
FreshIDAll == \A r \in IdDom : (IF nodes = {} THEN r = 0 ELSE NewIDResult(r)) => r \notin nodes

\* the scan branch returns the least unused id and the "unreachable" panic is
\* unreachable as long as the graph holds fewer than Max nodes (TLC only: a
\* counting argument.  Without the premise it is FALSE in the model: with
\* negative IDs a graph can hold more than Max nodes, len(nodes) = uid.Max is
\* then passed unnoticed, and 0..Max can be fully used.  int64 graphs of
\* 2^63 nodes do not exist, so this is a remark, not a finding.)
NoScanPanic == (nodes # {} /\ Cardinality(nodes) < Max) => ~ScanFails

(************************* pieces for apalache-mc ****************************)
\* apalache-mc check --cinit=ConstInit ...: Max is ANY positive integer
ConstInit == Max \in Int /\ Max >= 1
=============================================================================
