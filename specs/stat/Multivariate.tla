------------------------------ MODULE Multivariate ------------------------------
(* Principal components (stat.PC) and canonical correlations (stat.CC) stated   *)
(* by their definitions over exact rational matrices.                           *)
(*                                                                              *)
(* Both analyses are spectral decompositions, which TLA+ cannot compute.  They  *)
(* are therefore stated as PREDICATES: IsPCA(X, w, lam, V) says that (lam, V)   *)
(* is a principal component analysis of the weighted data matrix X, IsCCA(...)  *)
(* that (D, L, Rt) are the canonical correlations and the left / right vectors  *)
(* of the canonical correlation matrix of X and Y.  The predicates only use     *)
(* the weighted covariance of Descriptive.tla (ThmCovLink), matrix products and *)
(* determinants of rationals.  The generator (MultivariateGen.tla) plants data  *)
(* whose decomposition is rational and TLC verifies the predicate on every case *)
(* it prints: an expected value reaches the harness only after the definition   *)
(* accepted it.  Where the decomposition is unique (simple eigenvalue /         *)
(* singular value) the vectors are determined up to sign, and only those are    *)
(* compared.                                                                    *)
(*                                                                              *)
(* A matrix is a sequence of rows of rationals <<n, d>>.                        *)
(*                                                                              *)
(* The data matrices X, Y (and the vectors x, y and the matrix Sigma of the     *)
(* Mahalanobis distance) are ABSTRACT: functions from index pairs to numbers.   *)
(* gonum receives them as mat.Matrix / mat.Vector / (through Cholesky)          *)
(* mat.Symmetric values, and every Go representation of the same abstract       *)
(* matrix - compact Dense, a window of a larger matrix with stride > columns    *)
(* and offsets, the transpose of a matrix holding the transposed data, a user   *)
(* type exposing only the interface; strided / offset vector views - must give  *)
(* the result printed here, into every kind of destination (empty, pre-sized,   *)
(* a window of a larger matrix, whose surroundings stay untouched).  This is    *)
(* property C04's statement applied to package stat; the replay (harness        *)
(* reps.go) runs every history in each representation.                          *)
EXTENDS DescriptiveExt

(********************************* matrices **********************************)
\* TLC keeps a function constructor lazy and re-evaluates it at every application: every matrix
\* and vector built here is forced to an explicit value (TLCEval), row by row.
Vec(n, F(_)) == TLCEval([i \in 1 .. n |-> F(i)])
Mat(n, m, F(_, _)) == TLCEval([i \in 1 .. n |-> TLCEval([j \in 1 .. m |-> F(i, j)])])
MRows(A) == Len(A)
MCols(A) == Len(A[1])
MCol(A, j) == LET e(i) == A[i][j] IN Vec(Len(A), e)
MT(A) == LET e(j, i) == A[i][j] IN Mat(MCols(A), MRows(A), e)
MMul(A, B) == LET e(i, j) == RSumSeq(Vec(MCols(A), LAMBDA k : RMul(A[i][k], B[k][j]))) IN Mat(MRows(A), MCols(B), e)
MId(n) == LET e(i, j) == IF i = j THEN ROne ELSE RZero IN Mat(n, n, e)
MDiag(d) == LET e(i, j) == IF i = j THEN d[i] ELSE RZero IN Mat(Len(d), Len(d), e)
MScale(s, A) == LET e(i, j) == RMul(s, A[i][j]) IN Mat(MRows(A), MCols(A), e)
MLeftCols(A, k) == LET e(i, j) == A[i][j] IN Mat(MRows(A), k, e)
MTrace(A) == RSumSeq([i \in 1 .. Len(A) |-> A[i][i]])
IsSym(A) == MRows(A) = MCols(A) /\ \A i, j \in 1 .. Len(A) : A[i][j] = A[j][i]
Minor(A, r, cc) == LET e(i, j) == A[IF i < r THEN i ELSE i + 1][IF j < cc THEN j ELSE j + 1] IN Mat(Len(A) - 1, Len(A) - 1, e)
RECURSIVE Det(_)
Det(A) == IF Len(A) = 1 THEN A[1][1]
          ELSE RSumSeq(Vec(Len(A), LAMBDA j :
                   RMul(RMul(RInt(IF j % 2 = 1 THEN 1 ELSE -1), A[1][j]), Det(Minor(A, 1, j)))))
Lead(A, m) == MLeftCols(Vec(m, LAMBDA i : A[i]), m)
IsOrthonormalCols(V) == MMul(MT(V), V) = MId(MCols(V))

(************ weighted covariance of rational columns (domain W > 1) **********)
RWMean(x, w) == RDiv(RSumSeq(Vec(Len(x), LAMBDA i : RMul(RInt(w[i]), x[i]))), RInt(WSum(w)))
\*   sum_i w_i (x_i - mx)(y_i - my)
Scatter(x, y, w) == LET mx == TLCEval(RWMean(x, w))  my == TLCEval(RWMean(y, w)) IN
                    RSumSeq(Vec(Len(x), LAMBDA i : RMul(RInt(w[i]), RMul(RSub(x[i], mx), RSub(y[i], my)))))
\*   the sample covariance of Descriptive.tla:  scatter / (W - 1)
CovR(x, y, w) == RDiv(Scatter(x, y, w), RInt(WSum(w) - 1))
ScatterMat(X, Y, w) == LET cx == MT(X)  cy == MT(Y)  e(i, j) == Scatter(cx[i], cy[j], w) IN Mat(MCols(X), MCols(Y), e)
CovMat(X, w) == LET cx == MT(X)  e(i, j) == CovR(cx[i], cx[j], w) IN Mat(MCols(X), MCols(X), e)
\* on integer columns this is Covariance of Descriptive.tla (checked by TLC: ThmCovLink)
IntCol(x) == Vec(Len(x), LAMBDA i : x[i][1])
IsIntMat(X) == \A i \in 1 .. MRows(X), j \in 1 .. MCols(X) : X[i][j][2] = 1

(**************************** principal components ****************************)
\* stat.PC: "PrincipalComponents centers the variables but does not scale the variance";
\* VectorsTo: "the component direction vectors ... in the columns of a d x min(n, d) matrix";
\* VarsTo: "the column variances of the principal component scores, b * vecs, where b is a
\* matrix with centered columns.  Variances are returned in descending order."
\* With C the (weighted) sample covariance matrix of the columns of X: the directions are
\* orthonormal eigenvectors of C, the variance of the scores along v is v' C v = its
\* eigenvalue, in descending order, and they are the LARGEST min(n, d) eigenvalues: since
\* C is positive semi-definite and its trace is the sum of all eigenvalues, the listed ones
\* are the largest as soon as they sum to the trace (all others are then zero, which is the
\* case because the centred data has rank <= n - 1).
IsPCA(X, w, lam, V) ==
    LET n == MRows(X)  d == MCols(X)  k == Min2(n, d)  C == CovMat(X, w) IN
    /\ Len(lam) = k /\ MRows(V) = d /\ MCols(V) = k
    /\ IsOrthonormalCols(V)
    /\ MMul(C, V) = MMul(V, MDiag(lam))
    /\ \A i \in 1 .. k - 1 : RLe(lam[i + 1], lam[i])
    /\ RLe(RZero, lam[k])
    /\ RSumSeq(lam) = MTrace(C)
\* component i is determined up to sign iff its eigenvalue is simple among all d eigenvalues
\* (the d - k unlisted ones are zero)
PCUnique(lam, d, i) == (\A j \in Idx(lam) \ {i} : lam[j] # lam[i]) /\ (d > Len(lam) => lam[i] # RZero)

(*************************** canonical correlations ***************************)
\* stat.CC: with Sx, Sy the sample covariance matrices within x and y and Sxy the one between
\* them, "the canonical correlation matrix [is] Sx^{-1/2} Sxy Sy^{-1/2}" where "S^{-1/2} is
\* taken to be E D^{-1/2} E'" (the symmetric positive definite inverse square root).  CorrsTo are its singular values, LeftTo / RightTo
\* (spheredSpace) its left / right singular vectors, and with spheredSpace = false these
\* "back-transformed to the original data space": Sx^{-1/2} L and Sy^{-1/2} Rt.
\*
\* The common factor 1 / (W - 1) is irrational under the square root, so the predicate is
\* stated with the scatter matrices A = (W - 1) S:  if Rx = Ax^{-1/2} then
\* Sx^{-1/2} = sqrt(W - 1) Rx, hence  Sx^{-1/2} Sxy Sy^{-1/2} = Rx Axy Ry  and the
\* back-transformed vectors are sqrt(W - 1) Rx L  (stated through sign and square).
\* R = S^{-1/2} in the sense of the doc comment: S = E D E' (E orthogonal, D diagonal positive) and
\* R = E D^{-1/2} E'; the certificate is E and h = the diagonal of D^{-1/2}
IsInvSqrt(Rm, A, E, h) ==
    /\ MRows(E) = Len(A) /\ MCols(E) = Len(A) /\ Len(h) = Len(A) /\ IsOrthonormalCols(E)
    /\ \A i \in Idx(h) : h[i][1] > 0
    /\ A = MMul(MMul(E, MDiag(Vec(Len(h), LAMBDA i : RInv(RMul(h[i], h[i]))))), MT(E))
    /\ Rm = MMul(MMul(E, MDiag(h)), MT(E))
CCMatrix(X, Y, w, Rx, Ry) == MMul(MMul(Rx, ScatterMat(X, Y, w)), Ry)
\* cert = [Ex, hx, Ey, hy]: the eigen-decompositions behind Rx and Ry
IsCCA(X, Y, w, Rx, Ry, cert, D, L, Rt) ==
    LET p == MCols(X)  q == MCols(Y) IN
    /\ p >= q /\ Len(D) = q
    /\ IsInvSqrt(Rx, ScatterMat(X, X, w), cert.Ex, cert.hx) /\ IsInvSqrt(Ry, ScatterMat(Y, Y, w), cert.Ey, cert.hy)
    /\ MRows(L) = p /\ MCols(L) = q /\ MRows(Rt) = q /\ MCols(Rt) = q
    /\ IsOrthonormalCols(L) /\ IsOrthonormalCols(Rt)
    /\ CCMatrix(X, Y, w, Rx, Ry) = MMul(MMul(L, MDiag(D)), MT(Rt))
    /\ \A i \in 1 .. q - 1 : RLe(D[i + 1], D[i])
    /\ RLe(RZero, D[q]) /\ RLe(D[1], ROne)
\* right vector i is determined up to sign iff D_i is a simple singular value; left vector i iff
\* moreover it is not in the (p - q)-dimensional null space's company (D_i = 0 with p > q)
CCUniqueR(D, i) == \A j \in Idx(D) \ {i} : D[j] # D[i]
CCUniqueL(D, p, i) == CCUniqueR(D, i) /\ (p > Len(D) => D[i] # RZero)

(******************************** Mahalanobis *********************************)
\* D = sqrt((x - y)' S^-1 (x - y)) for a symmetric positive definite S (Sylvester's criterion),
\* stated through its square; the inverse is the adjugate over the determinant.
IsPosDef(A) == IsSym(A) /\ \A m \in 1 .. Len(A) : Det(Lead(A, m))[1] > 0
MInv(A) == IF Len(A) = 1 THEN Mat(1, 1, LAMBDA i, j : RInv(A[1][1]))
           ELSE LET dt == TLCEval(Det(A))
                    e(i, j) == RDiv(RMul(RInt(IF (i + j) % 2 = 0 THEN 1 ELSE -1), Det(Minor(A, j, i))), dt)
                IN Mat(Len(A), Len(A), e)
MahalanobisSq(x, y, S) == LET d == Vec(Len(x), LAMBDA i : RSub(x[i], y[i]))  Si == MInv(S) IN
                          RSumSeq(Vec(Len(x), LAMBDA i : RSumSeq(Vec(Len(x), LAMBDA j : RMul(RMul(d[i], Si[i][j]), d[j])))))
=============================================================================
