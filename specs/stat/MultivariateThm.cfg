SPECIFICATION ThmSpec
CONSTANTS
  Family = "@FAMILY@"
  Shard = @SHARD@
  NShards = @NSHARDS@
INVARIANTS ThmDesigns ThmCovLink ThmPcaRepl ThmCcaRepl ThmPlant ThmMaha
CHECK_DEADLOCK FALSE
