---------------------------- MODULE DescriptiveAff ----------------------------
(* Affine families of the generator: the expected value is stated on a SMALL   *)
(* integer sample by the definitions of Descriptive.tla and carried to the     *)
(* data  x' = 2^s x + 2^k c  by the affine-equivariance theorems checked by TLC *)
(* in DescriptiveThm.tla (AffineEquivariant, AffineEquivariantB):               *)
(*   location statistics map like the data, degree-d scale statistics by 2^(sd),*)
(*   Correlation, Skew, ExKurtosis, Kendall, CDF, quantile ranks and histogram  *)
(*   counts (with mapped dividers) are invariant (the scale 2^s is positive).   *)
(* The harness applies the same exact dyadic map to the operands (and verifies  *)
(* with math/big that no operand was rounded) before calling gonum.  This is    *)
(* how "extreme magnitudes" - a huge common offset relative to the spread -     *)
(* reach the real code while the oracle stays in small exact rationals.         *)
(*                                                                              *)
(* Numbers: a factor is <<n, d, e>> = n/d * 2^e.  Every result carries its own  *)
(* tolerance "tol" (an ev), derived below from a rounding-error analysis of     *)
(* what ANY algorithm of the documented kind can deliver, with u = 2^-53:       *)
(*  Write the data in units of a = 2^s:  z_i = x_i + B,  B = c 2^D, D = k - s,  *)
(*  X = |B| + M >= max|z_i|.  A computed (weighted) mean of n <= 8 entries has   *)
(*  |mean_fl - mean| <= (n+2) u X <= 16 u X =: E  (n products, n-1 additions,     *)
(*  one division).  E is the only place where the offset enters:                 *)
(*  - Mean: tol = 2E.                                                            *)
(*  - Variance, PopVariance, Covariance, Correlation, regression slope use the    *)
(*    corrected two-pass form  sum w d_i d'_i - (sum w d_i)(sum w d'_i)/W  with    *)
(*    d_i = z_i - mean_fl = (x_i - mean) - eps exactly (Sterbenz); the correction  *)
(*    removes eps algebraically, leaving rounding errors of relative size u on     *)
(*    terms bounded by (2M + E)^2:  tol = G (2M + E)^2 with G = 2^-40 (= 8192 u,    *)
(*    two orders above the (n+4) u of the analysis).  StdDev divides by sigma,     *)
(*    Correlation by min(Sxx, Syy), the slope by var(x).                           *)
(*  - Moment(k), Skew, ExKurtosis, CovarianceMatrix use UNcorrected deviations     *)
(*    d_i - eps (documented: "no correction" / "doesn't use the additional          *)
(*    floating point error correction"), so eps enters at first order:             *)
(*    tol(Moment k) = (2M+1+E)^k - (2M+1)^k <= k E (2M+2)^(k-1) for E <= 1, etc.       *)
(*    They are checked only while E is small (stated per quantity).               *)
(*  - MomentAbout with the exactly mapped mu forms exact differences: tol = G(2M+1)^k.*)
EXTENDS DescriptiveGen

SVals == {-20, 0, 20}
KVals == {0, 30, 44, 52}
CVals == {-1, 1, 3}
\* 2^s v + 2^k c is a float64 for every |v| <= 2^20 (sufficient condition, integers only)
Representable(s, k, cc) ==
    IF cc = 0 \/ k <= s THEN TRUE
    ELSE \/ k - s <= 22
         \/ k - s <= 52 /\ Abs(cc) + 1 <= Pow(2, Min2(53 - (k - s), 30))
Transforms == {[s |-> s, k |-> 0, c |-> 0] : s \in SVals}
              \cup {t \in [s : SVals, k : KVals, c : CVals] : Representable(t.s, t.k, t.c)}
TKey(t) == ((t.s + 20) \div 20) * 13 + t.k + t.c + 1
Pick(t, x, w) == NShards = 1 \/ (TKey(t) + Sum([i \in Idx(x) |-> (i + 1) * (x[i] + Off) + 7 * i * w[i]]) + Shard) % NShards = 0

(******************************* number helpers ******************************)
F3(q, e) == <<q[1], q[2], e>>
Two(e) == <<1, 1, e>>
Dp(t) == IF t.c = 0 THEN 0 ELSE Max2(t.k - t.s, 0)
\* E = 16 u X <= (|c| + mag) 2^(Dp - 49), in units of 2^s
Eb(t, mag) == <<Abs(t.c) + mag, 1, Dp(t) - 49>>
\* E <= 2^-j
ESmall(t, mag, j) == 49 - Dp(t) - j >= 0 /\ Abs(t.c) + mag <= Pow(2, Min2(49 - Dp(t) - j, 30))
MulTerms(A, B) == [i \in 1 .. Len(A) * Len(B) |-> A[((i - 1) \div Len(B)) + 1] \o B[((i - 1) % Len(B)) + 1]]
TimesAll(A, fs) == [i \in Idx(A) |-> A[i] \o fs]
P(t, mag) == << <<<<2 * mag, 1, 0>>>>, <<Eb(t, mag)>> >>                \* the sum 2 mag + E
EvT(ts) == [sg |-> 1, root |-> 1, terms |-> ts]
Base == << <<Two(-33)>> >>
\* a q + b
AffTerms(q, t) == << <<F3(q, t.s)>>, <<<<t.c, 1, t.k>>>> >>
ScaleEv(e, s) == [sg |-> e.sg, root |-> e.root,                         \* e * 2^s (root 2: inner * 2^(2s))
                  terms |-> TimesAll(e.terms, <<Two(IF e.root = 2 THEN 2 * s ELSE s)>>)]
ResT(f, a, alts, tol) == [f |-> f, a |-> a, alts |-> alts, sc |-> 1, tol |-> EvT(tol)]
MaxInv(q) == IF RLe(<<1, 1>>, q) THEN <<1, 1, 0>> ELSE F3(RInv(q), 0)      \* max(1, 1/q), q > 0
TMax(t1, t2) == IF Dp(t1) >= Dp(t2) THEN [t1 EXCEPT !.c = Max2(Abs(t1.c), Abs(t2.c))]
                ELSE [t2 EXCEPT !.c = Max2(Abs(t1.c), Abs(t2.c))]

(******************************* family "affuni" *****************************)
AffSamples == IF Family \in {"affuni", "afford"} THEN SampleSpace ELSE {}
WithT(k) == {[x |-> k.x, w |-> k.w, nilw |-> k.nilw, t |-> t] : t \in {u \in Transforms : Pick(u, k.x, k.w)}}
AffUniCases == IF Family # "affuni" THEN {} ELSE UNION {WithT(k) : k \in AffSamples}
VarTol(t, deg) == TimesAll(MulTerms(P(t, M), P(t, M)), <<Two(-40 + deg * t.s)>>)
AffUniRes(x, w, t) ==
    LET W == WSum(w) s == t.s E == Eb(t, M)
        var == IF W > 1 THEN Variance(x, w) ELSE <<0, 1>>
        pv == PopVariance(x, w)
        MomTol(k) == << <<<<k * Pow(2 * M + 2, k - 1), 1, k * s>>, E>>, <<<<Pow(2 * M + 2, k), 1, -40 + k * s>>>> >>
        small == ESmall(t, M, 2)
        tiny == Dp(t) <= 30
        sk == SkewAlts(x, w)
        ku == KurtAlts(x, w)
    IN
    << ResT("Mean", <<>>, <<EvT(AffTerms(Mean(x, w), t))>>, << <<<<2, 1, s>>, E>> >>),
       ResT("PopVariance", <<>>, <<ScaleEv(EvR(pv), 2 * s)>>, VarTol(t, 2)),
       ResT("Variance", <<>>, IF W > 1 THEN <<ScaleEv(EvR(var), 2 * s)>> ELSE <<>>, VarTol(t, 2)),
       ResT("PopStdDev", <<>>, IF pv[1] > 0 THEN <<ScaleEv(EvSqrt(1, <<pv>>), s)>> ELSE <<>>,
            IF pv[1] > 0 THEN TimesAll(VarTol(t, 1), <<MaxInv(pv)>>) ELSE Base),
       ResT("StdDev", <<>>, IF W > 1 /\ var[1] > 0 THEN <<ScaleEv(EvSqrt(1, <<var>>), s)>> ELSE <<>>,
            IF W > 1 /\ var[1] > 0 THEN TimesAll(VarTol(t, 1), <<MaxInv(var)>>) ELSE Base),
       ResT("Moment", <<1>>, <<EvR(<<0, 1>>)>>, << <<<<2, 1, s>>, E>> >>),
       ResT("Moment", <<2>>, IF small THEN <<ScaleEv(EvR(Moment(2, x, w)), 2 * s)>> ELSE <<>>, MomTol(2)),
       ResT("Moment", <<3>>, IF small THEN <<ScaleEv(EvR(Moment(3, x, w)), 3 * s)>> ELSE <<>>, MomTol(3)),
       ResT("Moment", <<4>>, IF small THEN <<ScaleEv(EvR(Moment(4, x, w)), 4 * s)>> ELSE <<>>, MomTol(4)),
       \* the harness maps mu with the data: (2^s x + b) - (2^s mu + b) = 2^s (x - mu) exactly
       ResT("MomentAbout", <<2, 1>>, <<ScaleEv(EvR(MomentAbout(2, x, 1, w)), 2 * s)>>, << <<<<Pow(2 * M + 1, 2), 1, -40 + 2 * s>>>> >>),
       ResT("MomentAbout", <<3, 1>>, <<ScaleEv(EvR(MomentAbout(3, x, 1, w)), 3 * s)>>, << <<<<Pow(2 * M + 1, 3), 1, -40 + 3 * s>>>> >>),
       \* Skew / ExKurtosis (invariant): sum w ((d - eps)^3 - d^3) <= 3 W E (2M+1)^2, over sigma^3 >= min(1, var^2),
       \* times the sample correction <= 2 (W >= 3), resp. 4 W E (2M+1)^3 / var^2 times <= 10/3 (W >= 4)
       ResT("Skew", <<>>, IF tiny /\ W > 2 THEN sk ELSE <<>>,
            IF tiny /\ W > 2 /\ Len(sk) > 0
            THEN << <<<<6 * W * Pow(2 * M + 1, 2), 1, 0>>, E, MaxInv(var), MaxInv(var)>>, <<Two(-29)>> >> ELSE Base),
       ResT("ExKurtosis", <<>>, IF tiny /\ W > 3 THEN ku ELSE <<>>,
            IF tiny /\ W > 3 /\ Len(ku) > 0
            THEN << <<<<16 * W * Pow(2 * M + 1, 3), 1, 0>>, E, MaxInv(var), MaxInv(var)>>, <<Two(-29)>> >> ELSE Base) >>
AffUniRec(k) == [fam |-> "affuni", x |-> k.x, w |-> k.w, nilw |-> k.nilw, t |-> k.t,
                 res |-> AffUniRes(k.x, k.w, k.t)]

(******************************* family "affbi" ******************************)
\* x mapped by t; y mapped by t (ty = 1) or, for the large offsets, left as it is (ty = 0): the
\* two slices then have different offsets and scales
Ident == [s |-> 0, k |-> 0, c |-> 0]
AffBiSpace == IF Family \notin {"affbi", "affmat"} THEN {} ELSE
              UNION {{[x |-> x, y |-> y, w |-> v.w, nilw |-> v.nilw] : x \in SortedSeqs(n), y \in AllSeqs(n), v \in WVariants(n)}
                     : n \in MinN .. MaxN}
WithTB(k) == LET ts == {u \in Transforms : Pick(u, k.x \o k.y, k.w \o k.w)} IN
             {[x |-> k.x, y |-> k.y, w |-> k.w, nilw |-> k.nilw, t |-> t, ty |-> 1] : t \in ts} \cup
             {[x |-> k.x, y |-> k.y, w |-> k.w, nilw |-> k.nilw, t |-> t, ty |-> 0] : t \in {u \in ts : u.k >= 44}}
AffBiCases == IF Family # "affbi" THEN {} ELSE UNION {WithTB(k) : k \in AffBiSpace}
AffBiRes(x, y, w, t, u) ==
    LET W == WSum(w) nxx == CentralN(x, w, 2) nyy == CentralN(y, w, 2)
        tm == TMax(t, u)
        PP == MulTerms(P(tm, M), P(tm, M))
        beta == RegBeta(x, y, w)
        dom == nxx > 0 /\ W > 1
        varx == Variance(x, w)
        BetaTol == TimesAll(PP, <<F3(RAdd(<<1, 1>>, RAbs(beta)), 0), F3(RInv(varx), 0), Two(-40 + u.s - t.s)>>)
    IN
    << ResT("Covariance", <<>>, IF W > 1 THEN <<ScaleEv(EvR(Covariance(x, y, w)), t.s + u.s)>> ELSE <<>>,
            TimesAll(PP, <<Two(-40 + t.s + u.s)>>)),
       \* delta r <= 2 T / min(Sxx, Syy), T = G W (2M+E)^2, Sxx = Nxx / W^2
       ResT("Correlation", <<>>, IF nxx > 0 /\ nyy > 0 THEN <<EvSqrt(CorrSign(x, y, w), CorrSqFactors(x, y, w))>> ELSE <<>>,
            IF nxx > 0 /\ nyy > 0 THEN TimesAll(PP, <<<<2 * W * W * W, Min2(nxx, nyy), -40>>>>) ELSE Base),
       ResT("LinearRegression.beta", <<>>, IF dom THEN <<ScaleEv(EvR(beta), u.s - t.s)>> ELSE <<>>,
            IF dom THEN BetaTol ELSE Base),
       \* alpha' = a_y my + b_y - beta' (a_x mx + b_x);  tol = 2 (|beta'| E_x a_x + E_y a_y) + X_x a_x tol(beta')
       ResT("LinearRegression.alpha", <<>>,
            IF dom /\ Dp(tm) <= 30
            THEN <<EvT(<< <<F3(Mean(y, w), u.s)>>, <<<<u.c, 1, u.k>>>>,
                          <<F3(RNeg(beta), u.s - t.s), F3(Mean(x, w), t.s)>>,
                          <<F3(RNeg(beta), u.s - t.s), <<t.c, 1, t.k>> >> >>)>>
            ELSE <<>>,
            IF dom /\ Dp(tm) <= 30
            THEN << <<<<2, 1, 0>>, F3(RAbs(beta), u.s - t.s), Eb(t, M), Two(t.s)>>, <<<<2, 1, 0>>, Eb(u, M), Two(u.s)>> >>
                 \o TimesAll(BetaTol, <<<<Abs(t.c) + M, 1, Dp(t) + t.s>>>>)
            ELSE Base),
       ResT("Kendall", <<>>, IF NoTies(x) /\ NoTies(y) /\ Len(x) > 1 /\ (\A i \in Idx(w) : w[i] > 0)
                            THEN <<EvR(Kendall(x, y, w))>> ELSE <<>>, Base) >>
AffBiRec(k) == LET u == IF k.ty = 1 THEN k.t ELSE Ident IN
               [fam |-> "affbi", x |-> k.x, y |-> k.y, w |-> k.w, nilw |-> k.nilw, t |-> k.t, u |-> u,
                res |-> AffBiRes(k.x, k.y, k.w, k.t, u)]

(******************************* family "affmat" *****************************)
\* all three columns (x, y, x*y; magnitudes up to M^2) mapped by t.  CovarianceMatrix is documented as
\* the plain two-pass form: entry error <= 2 E^2 + G (2 M^2 + E)^2; checked while E <= 1/4.
\* The data matrix is abstract (see family "mat" in DescriptiveGen.tla): the replay passes it as a
\* compact Dense and in one other representation (window / transpose / user type) drawn per case.
WithTM(k) == {[x |-> k.x, y |-> k.y, w |-> k.w, nilw |-> k.nilw, t |-> t]
              : t \in {u \in Transforms : ESmall(u, M * M, 2) /\ Pick(u, k.x \o k.y, k.w \o k.w)}}
AffMatCases == IF Family # "affmat" THEN {} ELSE UNION {WithTM(k) : k \in AffBiSpace}
AffMatRec(k) ==
    LET cols == MatCols(k) w == k.w W == WSum(w) t == k.t mag == M * M
        E == Eb(t, mag)
        CovTol == << <<<<2, 1, 2 * t.s>>, E, E>> >> \o TimesAll(MulTerms(P(t, mag), P(t, mag)), <<Two(-40 + 2 * t.s)>>)
        CovTol0 == << <<<<2, 1, 0>>, E, E>> >> \o TimesAll(MulTerms(P(t, mag), P(t, mag)), <<Two(-40)>>)
        vars == [i \in 1 .. 3 |-> IF W > 1 THEN Variance(cols[i], w) ELSE <<0, 1>>]
        minv(i, j) == IF RLe(vars[i], vars[j]) THEN vars[i] ELSE vars[j]
    IN
    [fam |-> "affmat", cols |-> cols, w |-> w, nilw |-> k.nilw, t |-> t,
     cov |-> IF W > 1 THEN [i \in 1 .. 3 |-> [j \in 1 .. 3 |-> ScaleEv(EvR(Covariance(cols[i], cols[j], w)), 2 * t.s)]] ELSE <<>>,
     covtol |-> EvT(CovTol),
     corr |-> IF W > 1 /\ \A i \in 1 .. 3 : CentralN(cols[i], w, 2) > 0
              THEN [i \in 1 .. 3 |-> [j \in 1 .. 3 |->
                      EvSqrt(CorrSign(cols[i], cols[j], w), CorrSqFactors(cols[i], cols[j], w))]]
              ELSE <<>>,
     \* delta r_ij <= 2 tol(cov) / min(var_i, var_j)
     corrtol |-> IF W > 1 /\ \A i \in 1 .. 3 : CentralN(cols[i], w, 2) > 0
                 THEN [i \in 1 .. 3 |-> [j \in 1 .. 3 |-> EvT(TimesAll(CovTol0, <<<<2, 1, 0>>, F3(RInv(minv(i, j)), 0)>>))]]
                 ELSE <<>>]

(******************************* family "afford" *****************************)
\* order statistics of the mapped (still sorted) sample: the empirical quantile is the mapped
\* small quantile exactly, the CDF at mapped integer probes and the histogram counts with mapped
\* dividers are unchanged; LinInterp forms t x_{i-1} + (1 - t) x_i: error <= 4 u X
AffOrdCases == IF Family # "afford" THEN {} ELSE UNION {WithT(k) : k \in AffSamples}
AffOrdRec(k) ==
    LET x == k.x w == k.w t == k.t
        pr == [j \in 1 .. x[Len(x)] - x[1] + 3 |-> x[1] - 2 + j]
        divs == {d \in DivSeqs : Len(d) <= 3 /\ HistDomain(d, x)}
    IN
    [fam |-> "afford", x |-> x, w |-> w, nilw |-> k.nilw, t |-> t, pgrid |-> PGrid,
     qe |-> [j \in 1 .. PGrid + 1 |-> QuantileEmpLegal(R(j - 1, PGrid), x, w)],
     ql |-> [j \in 1 .. PGrid + 1 |-> EvT(AffTerms(QuantileLin(R(j - 1, PGrid), x, w), t))],
     qltol |-> EvT(<< <<<<4 * (Abs(t.c) + M), 1, Dp(t) - 53 + t.s>>>>, <<<<M, 1, -33 + t.s>>>> >>),
     cdf |-> [j \in Idx(pr) |-> [q |-> pr[j], v |-> CDF(RInt(pr[j]), x, w)]],
     hist |-> {[d |-> d, count |-> Histogram(d, x, w)] : d \in divs}]

(********************************* driver ***********************************)
AffCases == CASE Family = "affuni" -> AffUniCases
              [] Family = "affbi"  -> AffBiCases
              [] Family = "affmat" -> AffMatCases
              [] Family = "afford" -> AffOrdCases
              [] OTHER -> {}
AffRec(k) == CASE Family = "affuni" -> AffUniRec(k)
               [] Family = "affbi"  -> AffBiRec(k)
               [] Family = "affmat" -> AffMatRec(k)
               [] Family = "afford" -> AffOrdRec(k)
AffInit == c \in AffCases
AffSpec == AffInit /\ [][Next]_c
AffEmit == PrintT(ToJson(AffRec(c)))
=============================================================================
