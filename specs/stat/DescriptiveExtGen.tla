--------------------------- MODULE DescriptiveExtGen ---------------------------
(* Generator (R2) and theorems (R1) for DescriptiveExt.tla.                    *)
(*                                                                            *)
(* A state is one sample (or pair of probability vectors, or contract row);   *)
(* the invariant EmitCase prints one JSON line per state holding the calls to *)
(* make and, for each call, what the definitions of DescriptiveExt.tla say    *)
(* about it.  The invariants Thm* are the identities that relate the          *)
(* quantities (run without EmitCase by DescriptiveExtThm.cfg).                *)
(*                                                                            *)
(* Line format                                                                *)
(*   [fam |-> "call", grp, nt (non-trivial), calls |-> << call, ... >>]       *)
(* call                                                                       *)
(*   [f      function of package stat                                         *)
(*    sl     slice arguments in the order of the Go signature, each           *)
(*           [nil |-> BOOLEAN, v |-> sequence of numbers]                     *)
(*    sc     scalar arguments in the order of the Go signature (numbers)      *)
(*    perm   TRUE: the value is invariant under one permutation applied to    *)
(*           all slices (theorems Thm..), the harness may apply one          *)
(*    out    "value" | "posinf" | "panic" | "nopanic"                         *)
(*    alts   expected values (any one): ev = [sg, root, terms],               *)
(*           value = sg * (sum_t prod_f terms[t][f]) ^ (1/root)               *)
(*    unit   "one" | "ln2" | "pi": the value is  ev * unit                    *)
(*    tol    absolute tolerance (product of numbers), in the same unit ]      *)
(* A number is <<n, d, e>> = n / d * 2^e.  For CircularMean the entries of    *)
(* the first slice are angles in quarter turns (k stands for k * pi/2).       *)
EXTENDS DescriptiveExt, Json

CONSTANTS Family,      \* "hm" | "score" | "info" | "circ" | "arg" | "all"
          MaxN,        \* largest sample size
          WVals,       \* integer weights of explicit weight vectors
          Den          \* "info": probabilities are k / Den (vectors up to length MaxN),
                       \*         and k / 4 for length MaxN + 1
VARIABLE c
On(f) == Family = f \/ Family = "all"       \* "all": every family (the theorem run)

Q3(r) == <<r[1], r[2], 0>>
QI(a) == <<a, 1, 0>>
SlR(x) == [nil |-> FALSE, v |-> [i \in Idx(x) |-> Q3(x[i])]]
SlI(x) == [nil |-> FALSE, v |-> [i \in Idx(x) |-> QI(x[i])]]
SlQ(x) == [nil |-> FALSE, v |-> x]
SlNil == [nil |-> TRUE, v |-> <<>>]
SlW(w, nilw) == IF nilw THEN SlNil ELSE SlI(w)

EvR(q)        == [sg |-> 1, root |-> 1, terms |-> << <<Q3(q)>> >>]
EvProd(fs)    == [sg |-> 1, root |-> 1, terms |-> <<fs>>]
EvSqrt(s, fs) == [sg |-> s, root |-> 2, terms |-> <<fs>>]
\* 2^-33 = c n eps with c = 2^16, n = 8 (the tolerance of DescriptiveGen.tla), times a magnitude
Tol(fs) == <<<<1, 1, -33>>>> \o fs
Call(f, sl, sc, perm, out, alts, unit, tol) ==
    [f |-> f, sl |-> sl, sc |-> sc, perm |-> perm, out |-> out, alts |-> alts, unit |-> unit, tol |-> tol]
Value(f, sl, sc, alts, unit, tol) == Call(f, sl, sc, TRUE, "value", alts, unit, tol)
Line(grp, nt, calls) == [fam |-> "call", grp |-> grp, nt |-> nt, calls |-> calls]

WSeqs(n) == {w \in [1 .. n -> WVals] : TRUE}
WVariants(n) == {[nilw |-> TRUE, w |-> Ones(n)]} \cup {[nilw |-> FALSE, w |-> w] : w \in WSeqs(n)}
RIsSorted(s) == \A i \in 1 .. Len(s) - 1 : RLe(s[i], s[i + 1])
Distinct(s) == Cardinality(Rng(s))

(******************************* family "hm" *********************************)
\* positive samples over a small alphabet of dyadic and integer values, every weight
\* variant; HarmonicMean of every sample, GeometricMean where it is rational; and both
\* again on the scaled sample c * x (c drawn by a hash of the sample), where the
\* equivariance theorems ThmHm / ThmGm give  f(c x) = c f(x).
XA == {<<1, 2>>, <<1, 1>>, <<2, 1>>, <<3, 1>>, <<4, 1>>, <<8, 1>>}
HmCases == IF ~On("hm") THEN {} ELSE
           UNION {{[fam |-> "hm", x |-> x, w |-> v.w, nilw |-> v.nilw] :
                     x \in {s \in [1 .. n -> XA] : RIsSorted(s)}, v \in {u \in WVariants(n) : WSum(u.w) <= 6}}
                  : n \in 1 .. MaxN}
\* candidates for a rational geometric mean: between min and max, numerator <= 16, denominator <= 2
GAll == {R(a, b) : a \in 1 .. 16, b \in {1, 2}}
GeoMeans(x, w) == {g \in GAll : RLe(RSeqMin(x), g) /\ RLe(g, RSeqMax(x)) /\ IsGeometricMean(g, x, w)}
Scales == << <<1, 1, 20>>, <<1, 1, -20>>, <<3, 1, 0>>, <<1, 1, 40>>, <<5, 1, -3>> >>
HmHash(k) == Sum([i \in Idx(k.x) |-> (i + 1) * (k.x[i][1] + 3 * k.x[i][2]) + 7 * i * k.w[i]]) + (IF k.nilw THEN 1 ELSE 0)
ScaleSeq(cq, x) == [i \in Idx(x) |-> <<cq[1] * x[i][1], cq[2] * x[i][2], cq[3]>>]
HmCalls(k) ==
    LET x == k.x  w == k.w  mx == RSeqMax(x)
        cq == Scales[1 + (HmHash(k) % Len(Scales))]
        hm == HarmonicMean(x, w)
        gs == GeoMeans(x, w)
        one == <<1, 1, 0>>
        calls(s) ==     \* s: the scale as a number
            <<Value("HarmonicMean", <<SlQ(ScaleSeq(s, x)), SlW(w, k.nilw)>>, <<>>,
                    <<EvProd(<<Q3(hm), s>>)>>, "one", Tol(<<Q3(mx), s>>))>>
            \o (IF gs = {} THEN <<>> ELSE
                LET g == CHOOSE e \in gs : TRUE IN
                <<Value("GeometricMean", <<SlQ(ScaleSeq(s, x)), SlW(w, k.nilw)>>, <<>>,
                        <<EvProd(<<Q3(g), s>>)>>, "one", Tol(<<Q3(mx), s>>))>>)
    IN calls(one) \o calls(cq)
HmLine(k) == Line("hm", Distinct(k.x) > 1, HmCalls(k))

\* theorems: HarmonicMean is scale equivariant, permutation invariant, integer weights are
\* replication, it lies between min and max; the geometric mean is unique, scale equivariant,
\* lies between the harmonic mean and max (HM <= GM), and weights are replication
RRepl(x, w) == LET RECURSIVE rp(_)
                   rp(i) == IF i > Len(x) THEN <<>> ELSE [j \in 1 .. w[i] |-> x[i]] \o rp(i + 1)
               IN rp(1)
ThmHm == c.fam = "hm" =>
    LET x == c.x  w == c.w  n == Len(x)  hm == HarmonicMean(x, w) IN
    /\ \A s \in {<<3, 1>>, <<1, 4>>, <<5, 2>>} : HarmonicMean(RScale(s, x), w) = RMul(s, hm)
    /\ \A pi \in Perms(n) : HarmonicMean(Permute(x, pi), Permute(w, pi)) = hm
    /\ HarmonicMean(RRepl(x, w), Ones(WSum(w))) = hm
    /\ RLe(RSeqMin(x), hm) /\ RLe(hm, RSeqMax(x))
    /\ (Distinct(x) = 1 => hm = x[1])
ThmGm == c.fam = "hm" =>
    LET x == c.x  w == c.w  n == Len(x)  gs == GeoMeans(x, w) IN
    /\ Cardinality(gs) <= 1
    /\ \A g \in gs :
         /\ \A s \in {<<3, 1>>, <<1, 4>>} : IsGeometricMean(RMul(s, g), RScale(s, x), w)
         /\ \A pi \in Perms(n) : IsGeometricMean(g, Permute(x, pi), Permute(w, pi))
         /\ IsGeometricMean(g, RRepl(x, w), Ones(WSum(w)))
         /\ RLe(HarmonicMean(x, w), g)
    /\ (Distinct(x) = 1 => gs = {x[1]})

(****************************** family "score" *******************************)
ScoreStd == {<<-1, 1>>, <<0, 1>>, <<1, 2>>, <<1, 1>>, <<3, 2>>, <<2, 1>>, <<3, 1>>, <<5, 1>>}
ScoreN == {<<1, 4>>, <<1, 1>>, <<2, 1>>, <<3, 1>>, <<4, 1>>, <<9, 1>>, <<16, 1>>, <<25, 1>>}
ScoreX == {<<-3, 1>>, <<0, 1>>, <<1, 1>>, <<5, 2>>}
ScoreCases == IF ~On("score") THEN {} ELSE
              {[fam |-> "score", kind |-> "err", a |-> s, b |-> n, d |-> ROne] : s \in ScoreStd, n \in ScoreN}
              \cup {[fam |-> "score", kind |-> "z", a |-> x, b |-> m, d |-> s] : x \in ScoreX, m \in ScoreX, s \in ScoreStd \ {RZero}}
ScoreLine(k) ==
    IF k.kind = "err"
    THEN Line("score", k.a[1] # 0,
              <<Call("StdErr", <<>>, <<Q3(k.a), Q3(k.b)>>, FALSE, "value",
                     <<EvSqrt(StdErrSign(k.a), <<Q3(StdErrSq(k.a, k.b))>>)>>, "one", Tol(<<QI(8)>>))>>)
    ELSE Line("score", k.a # k.b,
              <<Call("StdScore", <<>>, <<Q3(k.a), Q3(k.b), Q3(k.d)>>, FALSE, "value",
                     <<EvR(StdScore(k.a, k.b, k.d))>>, "one", Tol(<<QI(16)>>))>>)
ThmScore == c.fam = "score" =>
    IF c.kind = "err"
    THEN \* (std / sqrt n)^2 * n = std^2, and the standard error of n = 1 is std
         /\ RMul(StdErrSq(c.a, c.b), c.b) = RMul(c.a, c.a)
         /\ StdErrSq(c.a, ROne) = RMul(c.a, c.a)
    ELSE \* x = mean + z std, the score of the mean is 0
         /\ RAdd(c.b, RMul(StdScore(c.a, c.b, c.d), c.d)) = c.a
         /\ StdScore(c.b, c.b, c.d) = RZero

(******************************* family "info" *******************************)
ProbVecs(n, den) == {p \in [1 .. n -> {R(k, den) : k \in 0 .. den}] : RSumSeq(p) = ROne}
\* (TLC evaluates constant definitions eagerly at start-up: the case space is guarded by the family)
InfoCases == IF ~On("info") THEN {} ELSE
             UNION ({{[fam |-> "info", p |-> p, q |-> q] : p \in ProbVecs(n, Den), q \in ProbVecs(n, Den)} : n \in 1 .. MaxN}
                    \cup {{[fam |-> "info", p |-> p, q |-> q] : p \in ProbVecs(MaxN + 1, 4), q \in ProbVecs(MaxN + 1, 4)}})
BitsCall(f, sl, bits) == Value(f, sl, <<>>, <<EvR(bits)>>, "ln2", Tol(<<QI(8)>>))
InfoCalls(k) ==
    LET p == k.p  q == k.q  pq == <<SlR(p), SlR(q)>> IN
    (IF p = q /\ HasEntropy(p) THEN <<BitsCall("Entropy", <<SlR(p)>>, EntropyBits(p))>> ELSE <<>>)
    \o (IF HasCrossEntropy(p, q) THEN <<BitsCall("CrossEntropy", pq, CrossEntropyBits(p, q))>> ELSE <<>>)
    \o (IF HasKL(p, q) THEN <<BitsCall("KullbackLeibler", pq, KLBits(p, q))>> ELSE <<>>)
    \o (IF HasJS(p, q) THEN <<BitsCall("JensenShannon", pq, JSBits(p, q))>> ELSE <<>>)
    \o (IF HasBC(p, q)
        THEN <<Value("Hellinger", pq, <<>>, <<EvSqrt(1, <<Q3(HellingerSq(p, q))>>)>>, "one", Tol(<<QI(8)>>))>>
             \o (IF BC(p, q) = RZero
                 THEN <<Call("Bhattacharyya", pq, <<>>, TRUE, "posinf", <<>>, "one", Tol(<<QI(1)>>))>>
                 ELSE IF HasBhattBits(p, q) THEN <<BitsCall("Bhattacharyya", pq, RInt(BhattBits(p, q)))>> ELSE <<>>)
        ELSE <<>>)
InfoLine(k) == Line("info", k.p # k.q, InfoCalls(k))

Disjoint(p, q) == Supp(p) \cap Supp(q) = {}
ThmInfo == c.fam = "info" =>
    LET p == c.p  q == c.q  n == Len(p) IN
    /\ IsProb(p) /\ IsProb(q)
    \* self-distances vanish
    /\ HasKL(p, p) /\ KLBits(p, p) = RZero
    /\ HasJS(p, p) /\ JSBits(p, p) = RZero
    /\ HasBC(p, p) /\ BC(p, p) = ROne /\ HellingerSq(p, p) = RZero /\ BhattBits(p, p) = 0
    \* Gibbs: KL >= 0 with equality only for p = q; CrossEntropy = Entropy + KL
    /\ (HasKL(p, q) => RLe(RZero, KLBits(p, q)) /\ (KLBits(p, q) = RZero <=> p = q))
    /\ ((HasKL(p, q) /\ HasEntropy(p) /\ HasCrossEntropy(p, q)) =>
            CrossEntropyBits(p, q) = RAdd(EntropyBits(p), KLBits(p, q)))
    \* entropy is between 0 and log2 of the support size, maximal exactly for the uniform vector
    /\ (HasEntropy(p) => /\ RLe(RZero, EntropyBits(p))
                         /\ (IsPow2(Cardinality(Supp(p))) => RLe(EntropyBits(p), RInt(Log2Int(Cardinality(Supp(p)))))))
    \* Jensen-Shannon is symmetric, within [0, 1] bit, 1 bit exactly for disjoint supports
    /\ (HasJS(p, q) <=> HasJS(q, p))
    /\ (HasJS(p, q) => /\ JSBits(p, q) = JSBits(q, p)
                       /\ RLe(RZero, JSBits(p, q)) /\ RLe(JSBits(p, q), ROne)
                       /\ (JSBits(p, q) = ROne <=> Disjoint(p, q)))
    \* Bhattacharyya coefficient: symmetric, in [0, 1], 0 exactly for disjoint supports, 1 exactly for p = q
    /\ (HasBC(p, q) => /\ BC(p, q) = BC(q, p)
                       /\ RLe(RZero, BC(p, q)) /\ RLe(BC(p, q), ROne)
                       /\ (BC(p, q) = RZero <=> Disjoint(p, q))
                       /\ (BC(p, q) = ROne <=> p = q)
                       /\ (HellingerSq(p, q) = ROne <=> Disjoint(p, q)))
    \* every quantity is invariant under a joint permutation of p and q
    /\ \A pi \in Perms(n) :
         LET pp == Permute(p, pi)  qq == Permute(q, pi) IN
         /\ (HasKL(p, q) => HasKL(pp, qq) /\ KLBits(pp, qq) = KLBits(p, q))
         /\ (HasBC(p, q) => HasBC(pp, qq) /\ BC(pp, qq) = BC(p, q))
         /\ (HasCrossEntropy(p, q) => HasCrossEntropy(pp, qq) /\ CrossEntropyBits(pp, qq) = CrossEntropyBits(p, q))

(******************************* family "circ" *******************************)
\* angles k * pi/2 over an alphabet that leaves [0, 2 pi), every weight variant
KA == {-3, -1, 0, 1, 2, 3, 4, 6}
CircCases == IF ~On("circ") THEN {} ELSE
             UNION {{[fam |-> "circ", k |-> k, w |-> v.w, nilw |-> v.nilw] : k \in {s \in [1 .. n -> KA] : IsSorted(s)}, v \in WVariants(n)}
                    : n \in 1 .. MaxN}
PiOver4(e) == [sg |-> 1, root |-> 1, terms |-> << <<<<e, 4, 0>>>> >>]
CircCalls(k) ==
    LET s == CircS(k.k, k.w)  cs == CircC(k.k, k.w)  sl == <<SlI(k.k), SlW(k.w, k.nilw)>>
        tol == Tol(<<QI(64)>>) IN
    IF HasAtan2Eighths(s, cs)
    THEN LET e == Atan2Eighths(s, cs) IN
         \* the direction pi is the direction -pi: atan2 returns either, depending on the sign of a zero
         <<Value("CircularMean", sl, <<>>, IF e = 4 THEN <<PiOver4(4), PiOver4(-4)>> ELSE <<PiOver4(e)>>, "pi", tol)>>
    ELSE <<Call("CircularMean", sl, <<>>, TRUE, "nopanic", <<>>, "pi", tol)>>
CircLine(k) == Line("circ", HasAtan2Eighths(CircS(k.k, k.w), CircC(k.k, k.w)) /\ Len(k.k) > 1, CircCalls(k))

\* theorems: a quarter turn of every angle turns the mean by a quarter turn, full turns change
\* nothing, integer weights are replication, joint permutations change nothing
Wrap8(e) == LET m == (((e + 3) % 8) + 8) % 8 IN m - 3                 \* into -3 .. 4
ThmCirc == c.fam = "circ" =>
    LET k == c.k  w == c.w  n == Len(k)  s == CircS(k, w)  cs == CircC(k, w)
        turn(j) == [i \in 1 .. n |-> k[i] + j] IN
    /\ \A j \in {1, 2, 4, -4} :
         LET s2 == CircS(turn(j), w)  c2 == CircC(turn(j), w) IN
         /\ HasAtan2Eighths(s2, c2) <=> HasAtan2Eighths(s, cs)
         /\ (HasAtan2Eighths(s, cs) => Atan2Eighths(s2, c2) = Wrap8(Atan2Eighths(s, cs) + 2 * j))
    /\ CircS(Replicate(k, w), Ones(WSum(w))) = s /\ CircC(Replicate(k, w), Ones(WSum(w))) = cs
    /\ \A pi \in Perms(n) : CircS(Permute(k, pi), Permute(w, pi)) = s /\ CircC(Permute(k, pi), Permute(w, pi)) = cs
    /\ (n = 1 /\ k[1] \in -1 .. 2 => Atan2Eighths(s, cs) = 2 * k[1])

(******************************* family "arg" ********************************)
\* contract rows: slice contents are 1, 2, 3 (sorted, positive, distinct), lengths 2 or 3 or nil
Base(l) == [i \in 1 .. l |-> QI(i)]
Sl(l) == IF l = -1 THEN SlNil ELSE SlQ(Base(l))
ArgScalars(f) == CASE f = "Moment" -> <<QI(2)>>
                   [] f = "MomentAbout" -> <<QI(2), QI(1)>>
                   [] f = "Quantile" -> <<<<1, 2, 0>>, QI(1)>>          \* p, kind (1 = Empirical)
                   [] f = "CDF" -> <<QI(2), QI(1)>>                      \* q, kind
                   [] f = "RSquared" -> <<QI(0), QI(1)>>
                   [] f = "RNoughtSquared" -> <<QI(1)>>
                   [] f = "BivariateMoment" -> <<QI(1), QI(1)>>
                   [] f = "LinearRegression" -> <<QI(0)>>                \* origin = false
                   [] OTHER -> <<>>
LenChoices(f) == {l \in [1 .. Contract[f].k -> {-1, 2, 3}] : \A i \in 1 .. Contract[f].k : l[i] = -1 => i \in Contract[f].opt}
\* "implied" rows: only when the first slice of a violated pair is the longer one
ImpliedOk(f, l) == Contract[f].kind = "doc" \/ \E e \in Contract[f].eq : l[e[1]] > l[e[2]] /\ l[e[2]] # -1
LenRows == UNION {{[fam |-> "arg", kind |-> "len", f |-> f, lens |-> l, sc |-> ArgScalars(f)] :
                     l \in {m \in LenChoices(f) : ~LenOk(f, m) /\ ImpliedOk(f, m)}}
                  : f \in DOMAIN Contract \ {"Histogram", "ROC"}}
\* Histogram(count, dividers, x, weights): dividers 0, 2, 4 (3 of them); count nil or of length 1, 2, 3
\* ROC(cutoffs, y, classes, weights): cutoffs nil or 1, 2
HistRows == {[fam |-> "arg", kind |-> "hist", f |-> "Histogram", lens |-> <<lc, 3, lx, lw>>, sc |-> <<>>] :
               lc \in {-1, 1, 2, 3}, lx \in {2, 3}, lw \in {-1, 2, 3}}
RocRows == {[fam |-> "arg", kind |-> "roc", f |-> "ROC", lens |-> <<lc, ly, lcl, lw>>, sc |-> <<>>] :
              lc \in {-1, 2}, ly \in {2, 3}, lcl \in {2, 3}, lw \in {-1, 2, 3}}
\* scalar and ordering requirements: p in [0, 1]; a supported CumulantKind (1 and 4 for Quantile, 1 for
\* CDF; 0 and 10 are outside the R nomenclature the constants follow); sorted data
Unsorted == SlQ(<<QI(2), QI(1), QI(3)>>)
Sorted3 == SlQ(Base(3))
DomRows == {[fam |-> "arg", kind |-> "dom", f |-> "Quantile", sl |-> <<Sorted3, w>>, sc |-> <<p, QI(kd)>>, bad |-> TRUE] :
              w \in {SlNil, Sorted3}, p \in {<<-1, 8, 0>>, <<9, 8, 0>>}, kd \in {1, 4}}
           \cup {[fam |-> "arg", kind |-> "dom", f |-> f, sl |-> <<Sorted3, w>>, sc |-> <<<<3, 2, 0>>, QI(kd)>>, bad |-> TRUE] :
              f \in {"Quantile", "CDF"}, w \in {SlNil, Sorted3}, kd \in {0, 10}}
           \cup {[fam |-> "arg", kind |-> "dom", f |-> "Quantile", sl |-> <<Unsorted, w>>, sc |-> <<<<1, 2, 0>>, QI(kd)>>, bad |-> TRUE] :
              w \in {SlNil, Sorted3}, kd \in {1, 4}}
           \cup {[fam |-> "arg", kind |-> "dom", f |-> "CDF", sl |-> <<Unsorted, w>>, sc |-> <<<<3, 2, 0>>, QI(1)>>, bad |-> TRUE] :
              w \in {SlNil, Sorted3}}
           \cup {[fam |-> "arg", kind |-> "dom", f |-> "KolmogorovSmirnov", sl |-> <<x, SlNil, y, SlNil>>, sc |-> <<>>,
                  bad |-> x = Unsorted \/ y = Unsorted] : x \in {Sorted3, Unsorted}, y \in {Sorted3, Unsorted}}
           \cup {[fam |-> "arg", kind |-> "dom", f |-> "ROC", sl |-> <<cut, y, Sorted3, SlNil>>, sc |-> <<>>,
                  bad |-> y = Unsorted \/ cut = Unsorted] : cut \in {SlNil, Sorted3, Unsorted}, y \in {Sorted3, Unsorted}}
ArgCases == IF ~On("arg") THEN {} ELSE LenRows \cup HistRows \cup RocRows \cup DomRows
ArgBad(k) == CASE k.kind = "len" -> TRUE
               [] k.kind = "hist" -> ~(k.lens[1] \in {-1, 2}) \/ ~LenOk("Histogram", k.lens)
               [] k.kind = "roc" -> ~LenOk("ROC", k.lens)
               [] OTHER -> k.bad
ArgLine(k) ==
    LET sl == IF k.kind = "dom" THEN k.sl
              ELSE IF k.kind = "hist" THEN <<Sl(k.lens[1]), SlQ(<<QI(0), QI(2), QI(4)>>), Sl(k.lens[3]), Sl(k.lens[4])>>
              ELSE [i \in Idx(k.lens) |-> Sl(k.lens[i])]
    IN Line("arg", TRUE, <<Call(k.f, sl, k.sc, FALSE, IF ArgBad(k) THEN "panic" ELSE "nopanic", <<>>, "one", Tol(<<QI(1)>>))>>)
\* the contract table is well formed
ThmArg == c.fam = "arg" =>
    \A f \in DOMAIN Contract : /\ \A e \in Contract[f].eq : e[1] \in 1 .. Contract[f].k /\ e[2] \in 1 .. Contract[f].k /\ e[1] < e[2]
                               /\ Contract[f].opt \subseteq 1 .. Contract[f].k
                               /\ LenOk(f, [i \in 1 .. Contract[f].k |-> 2])
                               /\ LenOk(f, [i \in 1 .. Contract[f].k |-> IF i \in Contract[f].opt THEN -1 ELSE 3])

(********************************* driver ************************************)
Cases == HmCases \cup ScoreCases \cup InfoCases \cup CircCases \cup ArgCases
LineOf(k) == CASE k.fam = "hm" -> HmLine(k)
               [] k.fam = "score" -> ScoreLine(k)
               [] k.fam = "info" -> InfoLine(k)
               [] k.fam = "circ" -> CircLine(k)
               [] k.fam = "arg" -> ArgLine(k)
Init == c \in Cases
Next == UNCHANGED c
Spec == Init /\ [][Next]_c
EmitCase == LET l == LineOf(c) IN l.calls = <<>> \/ PrintT(ToJson(l))
=============================================================================
