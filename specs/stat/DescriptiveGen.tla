---------------------------- MODULE DescriptiveGen ----------------------------
(* Generator role (R2) of Descriptive.tla: Init ranges over a bounded family  *)
(* of weighted integer samples, the invariant EmitCase prints one JSON line   *)
(* per case with the expected value of every statistic of the family, as      *)
(* computed by the definitions in Descriptive.tla.  The Go harness replays    *)
(* each line into gonum's stat package and compares.                          *)
(*                                                                            *)
(* Number format of an expected value ("ev"):                                 *)
(*     [sg, root, terms]   value = sg * (sum_t prod_f terms[t][f]) ^ (1/root) *)
(* with rational factors <<n, d>>; root is 1 or 2 (quantities that involve a  *)
(* square root are stated through their square and their sign).  Writing a    *)
(* value as a sum of products only avoids 32-bit overflow in TLC.             *)
(* An expectation is a sequence "alts" of evs: the statistic must equal one   *)
(* of them (more than one where the documentation admits two readings); an    *)
(* empty alts means the input is outside the documented domain (not checked). *)
EXTENDS Descriptive, Json

CONSTANTS Family,   \* "uni" | "ord" | "hist" | "ks" | "bi" | "mat" | "roc" | "sort" | "chi"
          AlphaEnc, \* set of naturals; the data alphabet is {a - Off : a \in AlphaEnc}
          Off,
          MinN, MaxN,   \* sample sizes
          WVals,    \* integer weights used for explicit weight vectors
          PGrid,    \* quantile probabilities k / PGrid, k = 0 .. PGrid
          Shard, NShards

VARIABLE c
Vals == {a - Off : a \in AlphaEnc}
M == SetMax({1} \cup {Abs(v) : v \in Vals})          \* magnitude of the data

SortedSeqs(n) == {s \in [1 .. n -> Vals] : IsSorted(s)}
AllSeqs(n) == [1 .. n -> Vals]
WSeqs(n) == {w \in [1 .. n -> WVals] : Sum(w) > 0}
\* weight variants of a sample of size n: nil (= all ones) and every explicit vector
WVariants(n) == {[nilw |-> TRUE, w |-> Ones(n)]} \cup {[nilw |-> FALSE, w |-> w] : w \in WSeqs(n)}
Hash(x, w) == (Sum([i \in Idx(x) |-> (i + 1) * (x[i] + Off) + 7 * i * w[i]])) % NShards
InShard(x, w) == NShards = 1 \/ Hash(x, w) = Shard

(***************************** ev constructors ******************************)
EvR(q)        == [sg |-> 1, root |-> 1, terms |-> << <<q>> >>]
EvProd(fs)    == [sg |-> 1, root |-> 1, terms |-> <<fs>>]
EvSum(ts)     == [sg |-> 1, root |-> 1, terms |-> ts]
EvSqrt(s, fs) == [sg |-> s, root |-> 2, terms |-> <<fs>>]
Res(f, a, alts, sc) == [f |-> f, a |-> a, alts |-> alts, sc |-> sc]
Deg(k) == Pow(2 * M, k)                               \* scale of a degree-k quantity

(****************************** family "uni" ********************************)
\* (TLC evaluates constant definitions eagerly at start-up: every case space is guarded by Family)
SampleSpace == UNION {{[x |-> x, w |-> v.w, nilw |-> v.nilw] : x \in SortedSeqs(n), v \in WVariants(n)}
                   : n \in MinN .. MaxN}
UniCases == IF Family \in {"uni", "ord", "hist", "ks", "roc"} THEN SampleSpace ELSE {}

SkewAlts(x, w) ==
    LET W == WSum(w) N2 == CentralN(x, w, 2) N3 == CentralN(x, w, 3) IN
    IF N2 = 0 THEN <<>>
    ELSE LET pv == RInv(PopVariance(x, w))
             pop == EvSqrt(Sgn(N3), <<R(Abs(N3), Pow(W, 4)), R(Abs(N3), Pow(W, 4)), pv, pv, pv>>)
         IN IF W <= 2 THEN <<>>      \* the sample-corrected form is undefined: outside the domain
            ELSE LET iv == RInv(Variance(x, w))
                     a == R(Abs(N3), Pow(W, 3))
                     k == R(W, (W - 1) * (W - 2))
                 IN <<EvSqrt(Sgn(N3), <<a, a, iv, iv, iv, k, k>>), pop>>

KurtAlts(x, w) ==
    LET W == WSum(w) N2 == CentralN(x, w, 2) N4 == CentralN(x, w, 4) IN
    IF N2 = 0 THEN <<>>
    ELSE LET pv == RInv(PopVariance(x, w))
             pop == EvSum(<< <<R(N4, Pow(W, 5)), pv, pv>>, <<RInt(-3)>> >>)
         IN IF W <= 3 THEN <<>>
            ELSE LET iv == RInv(Variance(x, w)) IN
                 <<EvSum(<< <<R(N4, Pow(W, 4)), iv, iv, R(W + 1, W - 1), R(W, W - 2), R(1, W - 3)>>,
                            <<RInt(-3), R(W - 1, W - 2), R(W - 1, W - 3)>> >>), pop>>

UniRes(x, w) ==
    LET W == WSum(w) IN
    << Res("Mean", <<>>, <<EvR(Mean(x, w))>>, Deg(1)),
       Res("PopVariance", <<>>, <<EvR(PopVariance(x, w))>>, Deg(2)),
       Res("PopStdDev", <<>>, <<EvSqrt(1, <<PopVariance(x, w)>>)>>, Deg(1)),
       Res("Variance", <<>>, IF W > 1 THEN <<EvR(Variance(x, w))>> ELSE <<>>, Deg(2)),
       Res("StdDev", <<>>, IF W > 1 THEN <<EvSqrt(1, <<Variance(x, w)>>)>> ELSE <<>>, Deg(1)),
       Res("Moment", <<1>>, <<EvR(Moment(1, x, w))>>, Deg(1)),
       Res("Moment", <<2>>, <<EvR(Moment(2, x, w))>>, Deg(2)),
       Res("Moment", <<3>>, <<EvR(Moment(3, x, w))>>, Deg(3)),
       Res("Moment", <<4>>, <<EvR(Moment(4, x, w))>>, Deg(4)),
       Res("MomentAbout", <<1, 0>>, <<EvR(MomentAbout(1, x, 0, w))>>, Deg(1)),
       Res("MomentAbout", <<2, 1>>, <<EvR(MomentAbout(2, x, 1, w))>>, Deg(2)),
       Res("MomentAbout", <<3, 1>>, <<EvR(MomentAbout(3, x, 1, w))>>, Deg(3)),
       Res("Skew", <<>>, SkewAlts(x, w), 16),
       Res("ExKurtosis", <<>>, KurtAlts(x, w), 64) >>

UniRec(k) == [fam |-> "uni", x |-> k.x, w |-> k.w, nilw |-> k.nilw,
              res |-> UniRes(k.x, k.w), modes |-> Modes(k.x, k.w), mcount |-> ModeCount(k.x, k.w)]

(****************************** family "ord" ********************************)
\* sorted samples; Quantile (both kinds) at p = k / PGrid, CDF at every half-integer
\* probe from below the minimum to above the maximum
OrdCases == UniCases
Probes(x) == LET lo == 2 * x[1] - 3  hi == 2 * x[Len(x)] + 3 IN [j \in 1 .. hi - lo + 1 |-> lo + j - 1]
OrdRec(k) ==
    LET x == k.x w == k.w pr == Probes(x) IN
    [fam |-> "ord", x |-> x, w |-> w, nilw |-> k.nilw, pgrid |-> PGrid, sc |-> M,
     qe |-> [j \in 1 .. PGrid + 1 |-> QuantileEmpLegal(R(j - 1, PGrid), x, w)],
     ql |-> [j \in 1 .. PGrid + 1 |-> QuantileLin(R(j - 1, PGrid), x, w)],
     cdf |-> [j \in Idx(pr) |-> [q2 |-> pr[j], v |-> CDF(R(pr[j], 2), x, w)]]]

(****************************** family "hist" *******************************)
\* sorted x; every divider sequence (sorted or not) of length 2..4 over the
\* alphabet extended by one value above the maximum
DivVals == Vals \cup {SetMax(Vals) + 1}
\* every sorted divider sequence of length 2..4 (repeated dividers included) and,
\* for the "dividers are not sorted" row, every unsorted one of length 2..3
DivSeqs == UNION {{d \in [1 .. m -> DivVals] : IsSorted(d) \/ m <= 3} : m \in 2 .. 4}
HistCases == IF Family # "hist" THEN {} ELSE
             {[x |-> k.x, w |-> k.w, nilw |-> k.nilw, d |-> d] : k \in UniCases, d \in DivSeqs}
HistRec(k) ==
    LET ok == HistDomain(k.d, k.x) IN
    [fam |-> "hist", x |-> k.x, w |-> k.w, nilw |-> k.nilw, d |-> k.d,
     out |-> IF ok THEN "ok" ELSE "panic",
     count |-> IF ok THEN Histogram(k.d, k.x, k.w) ELSE <<>>,
     total |-> WSum(k.w)]

(******************************* family "ks" ********************************)
KsCases == IF Family # "ks" THEN {} ELSE
           {[x |-> a.x, wx |-> a.w, nilx |-> a.nilw, y |-> b.x, wy |-> b.w, nily |-> b.nilw] : a \in UniCases, b \in UniCases}
KsRec(k) == [fam |-> "ks", x |-> k.x, wx |-> k.wx, nilx |-> k.nilx, y |-> k.y, wy |-> k.wy, nily |-> k.nily,
             ks |-> KS(k.x, k.wx, k.y, k.wy)]

(******************************* family "bi" ********************************)
\* pairs (x_i, y_i): x sorted (a joint permutation is applied by the harness), y arbitrary
BiCases == IF Family \notin {"bi", "mat"} THEN {} ELSE
           UNION {{[x |-> x, y |-> y, w |-> v.w, nilw |-> v.nilw] : x \in SortedSeqs(n), y \in AllSeqs(n), v \in WVariants(n)}
                  : n \in MinN .. MaxN}
BiRes(x, y, w) ==
    LET W == WSum(w) nxx == CentralN(x, w, 2) nyy == CentralN(y, w, 2)
        swxx == Sum([i \in Idx(x) |-> w[i] * x[i] * x[i]])
        swyy == Sum([i \in Idx(x) |-> w[i] * y[i] * y[i]])
    IN
    << Res("Covariance", <<>>, IF W > 1 THEN <<EvR(Covariance(x, y, w))>> ELSE <<>>, Deg(2)),
       Res("Correlation", <<>>, IF nxx > 0 /\ nyy > 0 THEN <<EvSqrt(CorrSign(x, y, w), CorrSqFactors(x, y, w))>> ELSE <<>>, 16),
       Res("LinearRegression.alpha", <<>>, IF nxx > 0 /\ W > 1 THEN <<EvSum(<< <<Mean(y, w)>>, <<RNeg(RegBeta(x, y, w)), Mean(x, w)>> >>)>> ELSE <<>>, Deg(2)),
       Res("LinearRegression.beta", <<>>, IF nxx > 0 /\ W > 1 THEN <<EvR(RegBeta(x, y, w))>> ELSE <<>>, Deg(2)),
       Res("LinearRegression.origin", <<>>, IF swxx > 0 THEN <<EvR(RegBetaOrigin(x, y, w))>> ELSE <<>>, Deg(2)),
       Res("RSquared", <<1, 2>>, IF nyy > 0 THEN <<EvR(RSquared(x, y, w, 1, 2))>> ELSE <<>>, Deg(4)),
       Res("RSquared", <<0, -1>>, IF nyy > 0 THEN <<EvR(RSquared(x, y, w, 0, -1))>> ELSE <<>>, Deg(4)),
       Res("RSquaredFrom", <<>>, IF nyy > 0 THEN <<EvR(RSquared(x, y, w, 0, 1))>> ELSE <<>>, Deg(4)),
       Res("RNoughtSquared", <<2>>, IF swyy > 0 THEN <<EvR(RNoughtSquared(x, y, w, 2))>> ELSE <<>>, Deg(4)),
       Res("BivariateMoment", <<1, 1>>, <<EvR(BivariateMoment(1, 1, x, y, w))>>, Deg(2)),
       Res("BivariateMoment", <<2, 1>>, <<EvR(BivariateMoment(2, 1, x, y, w))>>, Deg(3)),
       Res("BivariateMoment", <<1, 2>>, <<EvR(BivariateMoment(1, 2, x, y, w))>>, Deg(3)),
       Res("BivariateMoment", <<2, 2>>, <<EvR(BivariateMoment(2, 2, x, y, w))>>, Deg(4)),
       Res("Kendall", <<>>, IF NoTies(x) /\ NoTies(y) /\ Len(x) > 1 /\ (\A i \in Idx(w) : w[i] > 0)
                            THEN <<EvR(Kendall(x, y, w))>> ELSE <<>>, 4) >>
BiRec(k) == [fam |-> "bi", x |-> k.x, y |-> k.y, w |-> k.w, nilw |-> k.nilw, res |-> BiRes(k.x, k.y, k.w)]

(******************************* family "mat" *******************************)
\* data matrix with columns x, y, z (z_i = x_i * y_i): every entry of CovarianceMatrix /
\* CorrelationMatrix is the pairwise scalar quantity of the two columns.
\* The data matrix is an ABSTRACT matrix (cols[j][i] = element (i, j)): gonum receives it through
\* the mat.Matrix interface, and EVERY Go representation of it - a compact Dense, a window of a
\* larger matrix (stride > columns, offsets), the transpose x.T() of a matrix holding the transposed
\* data, a user type with only Dims / At / T - must give the values printed here, into every kind
\* of destination (empty, pre-sized, a window of a larger symmetric matrix).  The replay runs each
\* case in all of them (property C04's statement, applied to package stat; harness reps.go).
MatCols(k) == <<k.x, k.y, [i \in Idx(k.x) |-> k.x[i] * k.y[i]]>>
MatRec(k) ==
    LET cols == MatCols(k) w == k.w W == WSum(w) IN
    [fam |-> "mat", cols |-> cols, w |-> w, nilw |-> k.nilw, sc |-> Pow(M, 4) * 4,
     cov |-> IF W > 1 THEN [i \in 1 .. 3 |-> [j \in 1 .. 3 |-> EvR(Covariance(cols[i], cols[j], w))]] ELSE <<>>,
     corr |-> IF W > 1 /\ \A i \in 1 .. 3 : CentralN(cols[i], w, 2) > 0
              THEN [i \in 1 .. 3 |-> [j \in 1 .. 3 |->
                      EvSqrt(CorrSign(cols[i], cols[j], w), CorrSqFactors(cols[i], cols[j], w))]]
              ELSE <<>>]

(******************************* family "roc" *******************************)
\* y sorted, classes with positive weight on both sides; cutoffs nil (all distinct
\* values of y, and +Inf) or explicit sorted cutoffs on the half-integer grid.
\* Numbers with a "2" suffix are doubled (so half-integers are integers); Inf2 is +Inf.
Inf2 == 1000000
Grid2(y) == LET lo == 2 * y[1] - 1  hi == 2 * y[Len(y)] + 1 IN [j \in 1 .. hi - lo + 1 |-> lo + j - 1]
SelSeq(s, P(_)) == LET RECURSIVE f(_)
                       f(i) == IF i > Len(s) THEN <<>> ELSE (IF P(s[i]) THEN <<s[i]>> ELSE <<>>) \o f(i + 1)
                   IN f(1)
CutVariants(y) == LET g == Grid2(y) odd(v) == v % 2 = 1  even(v) == v % 2 = 0 IN
                  {[nilcut |-> TRUE, cut2 |-> <<>>], [nilcut |-> FALSE, cut2 |-> g],
                   [nilcut |-> FALSE, cut2 |-> SelSeq(g, odd)], [nilcut |-> FALSE, cut2 |-> SelSeq(g, even)]}
                  \cup {[nilcut |-> FALSE, cut2 |-> <<g[j]>>] : j \in Idx(g)}
RocCases == IF Family # "roc" THEN {} ELSE
            UNION {{[y |-> k.x, w |-> k.w, nilw |-> k.nilw, cl |-> cl, nilcut |-> cv.nilcut, cut2 |-> cv.cut2]
                    : cl \in {b \in [Idx(k.x) -> BOOLEAN] : PosW(b, k.w) > 0 /\ NegW(b, k.w) > 0}, cv \in CutVariants(k.x)}
                   : k \in UniCases}
Rev(s) == [i \in Idx(s) |-> s[Len(s) + 1 - i]]
Distinct(y) == SelSeq([i \in Idx(y) |-> IF i = 1 \/ y[i] # y[i - 1] THEN 2 * y[i] ELSE Inf2], LAMBDA v : v # Inf2)
RocRec(k) ==
    LET y == k.y cl == k.cl w == k.w
        asc2 == IF k.nilcut THEN Distinct(y) \o <<Inf2>> ELSE k.cut2
        thr2 == Rev(asc2)
        ge == [tpr |-> [i \in Idx(thr2) |-> IF thr2[i] = Inf2 THEN <<0, 1>> ELSE TprGe(R(thr2[i], 2), y, cl, w)],
               fpr |-> [i \in Idx(thr2) |-> IF thr2[i] = Inf2 THEN <<0, 1>> ELSE FprGe(R(thr2[i], 2), y, cl, w)]]
        gt == [tpr |-> [i \in Idx(thr2) |-> IF thr2[i] = Inf2 THEN <<0, 1>> ELSE TprGt(R(thr2[i], 2), y, cl, w)],
               fpr |-> [i \in Idx(thr2) |-> IF thr2[i] = Inf2 THEN <<0, 1>> ELSE FprGt(R(thr2[i], 2), y, cl, w)]]
    IN [fam |-> "roc", y |-> y, cl |-> cl, w |-> w, nilw |-> k.nilw, nilcut |-> k.nilcut, cut2 |-> k.cut2,
        thr2 |-> thr2,
        \* with explicit cutoffs the doc comment states both "y >= thresh" and "greater than the cutoff"
        alts |-> IF k.nilcut THEN <<ge>> ELSE <<ge, gt>>,
        tocmin |-> [i \in 1 .. Len(y) + 1 |-> TocMin(cl, w, i - 1)],
        tocntp |-> [i \in 1 .. Len(y) + 1 |-> TocNtp(cl, w, i - 1)],
        tocmax |-> [i \in 1 .. Len(y) + 1 |-> TocMax(cl, w, i - 1)]]

(******************************* family "sort" ******************************)
\* unsorted x; the weights are identity tags 11, 12, ... so that the bag of
\* (x, w, label) triples determines the rearrangement up to the order of ties
SortCases == IF Family # "sort" THEN {} ELSE
             UNION {{[x |-> x, nilw |-> a, nill |-> b, pat |-> pt] : x \in AllSeqs(n), a \in BOOLEAN, b \in BOOLEAN, pt \in {2, 3}}
                    : n \in MinN .. MaxN}
SortRec(k) ==
    LET x == k.x w == [i \in Idx(x) |-> 10 + i] l == [i \in Idx(x) |-> IF i % k.pat = 1 THEN 1 ELSE 0] IN
    [fam |-> "sort", x |-> x, w |-> w, l |-> l, nilw |-> k.nilw, nill |-> k.nill,
     sx |-> SortedOf(x),
     \* the bag of (x, weight tag, label) triples, listed in input order (compared as a bag)
     triples |-> [i \in Idx(x) |-> <<x[i], IF k.nilw THEN 0 ELSE w[i], IF k.nill THEN 0 ELSE l[i]>>]]

(******************************* family "chi" *******************************)
ChiCases == IF Family # "chi" THEN {} ELSE
            UNION {{k \in [ob : [1 .. n -> AlphaEnc], ex : [1 .. n -> AlphaEnc]] : \A i \in 1 .. n : k.ex[i] > 0 \/ k.ob[i] = 0}
                   : n \in MinN .. MaxN}
ChiRec(k) == [fam |-> "chi", ob |-> k.ob, ex |-> k.ex, chi |-> ChiSquare(k.ob, k.ex), sc |-> Pow(SetMax(AlphaEnc) + 1, 2)]

(******************************* family "dom" *******************************)
\* decision-table rows for the documented behaviour on empty inputs:
\*   Quantile and CDF panic if len(x) = 0; KolmogorovSmirnov is 0 for two empty samples
\*   and 1 for exactly one empty sample; Histogram of no data is all zeros (or panics
\*   when the dividers violate the documented conditions)
DomShape(f, k, d, p8) == [f |-> f, x |-> k.x, w |-> k.w, nilw |-> k.nilw, d |-> d, p8 |-> p8]
EmptySamples == {[x |-> <<>>, w |-> <<>>, nilw |-> b] : b \in BOOLEAN}
DomCases == IF Family # "dom" THEN {} ELSE
            {DomShape(f, e, <<>>, p8) : f \in {"QuantileEmp", "QuantileLin", "CDF"}, e \in EmptySamples, p8 \in {0, 3, 8}}
            \cup {DomShape(f, k, <<>>, 0) : f \in {"KS.xempty", "KS.yempty"}, k \in SampleSpace \cup EmptySamples}
            \cup {DomShape("Histogram", e, d, 0) : e \in EmptySamples, d \in DivSeqs}
DomRec(k) ==
    LET e == <<>> IN
    [fam |-> "dom", f |-> k.f, x |-> k.x, w |-> k.w, nilw |-> k.nilw, d |-> k.d, p8 |-> k.p8,
     out |-> CASE k.f \in {"QuantileEmp", "QuantileLin", "CDF"} -> IF Len(k.x) = 0 THEN "panic" ELSE "value"
               [] k.f = "Histogram" -> IF HistDomain(k.d, k.x) THEN "count" ELSE "panic"
               [] OTHER -> "value",
     v |-> CASE k.f = "KS.xempty" -> KS(e, e, k.x, k.w)
             [] k.f = "KS.yempty" -> KS(k.x, k.w, e, e)
             [] OTHER -> <<0, 1>>,
     count |-> IF k.f = "Histogram" /\ HistDomain(k.d, k.x) THEN Histogram(k.d, k.x, k.w) ELSE <<>>]

(********************************* driver ***********************************)
Cases == CASE Family = "uni"  -> {k \in UniCases : InShard(k.x, k.w)}
           [] Family = "ord"  -> {k \in OrdCases : InShard(k.x, k.w)}
           [] Family = "hist" -> {k \in HistCases : InShard(k.x \o k.d, k.w \o k.d)}
           [] Family = "ks"   -> {k \in KsCases : InShard(k.x \o k.y, k.wx \o k.wy)}
           [] Family = "bi"   -> {k \in BiCases : InShard(k.x \o k.y, k.w \o k.w)}
           [] Family = "mat"  -> {k \in BiCases : InShard(k.x \o k.y, k.w \o k.w)}
           [] Family = "roc"  -> {k \in RocCases : InShard(k.y, k.w)}
           [] Family = "sort" -> SortCases
           [] Family = "chi"  -> ChiCases
           [] Family = "dom"  -> DomCases
           [] OTHER -> {}                      \* families of DescriptiveAff.tla

Rec(k) == CASE Family = "uni"  -> UniRec(k)
            [] Family = "ord"  -> OrdRec(k)
            [] Family = "hist" -> HistRec(k)
            [] Family = "ks"   -> KsRec(k)
            [] Family = "bi"   -> BiRec(k)
            [] Family = "mat"  -> MatRec(k)
            [] Family = "roc"  -> RocRec(k)
            [] Family = "sort" -> SortRec(k)
            [] Family = "chi"  -> ChiRec(k)
            [] Family = "dom"  -> DomRec(k)
            [] OTHER -> k

Init == c \in Cases
Next == UNCHANGED c
Spec == Init /\ [][Next]_c
EmitCase == PrintT(ToJson(Rec(c)))
=============================================================================
