--------------------------- MODULE DescriptiveTrace ---------------------------
(* R3 (code->spec): accepts an ndjson log of real executions of gonum's stat  *)
(* package on weighted integer samples of up to 200 entries iff every logged   *)
(* result is the value the definitions of Descriptive.tla give for the logged  *)
(* sample.  One event = one sample with: the empirical quantiles at k/16, the   *)
(* CDF numerators at half-integer probes, Mean*W, PopVariance*W^2, the mode,    *)
(* a histogram, the TOC curves, the KS numerator against a second sample and    *)
(* the result of SortWeighted on a shuffled copy.  Events are independent; the  *)
(* cursor l only walks the file.                                               *)
EXTENDS Descriptive, Json, TLCExt

TraceLog == ndJsonDeserialize("trace.ndjson")
VARIABLE l
Ev == TraceLog[l]

\* characterisation of the empirical quantile (theorem QuantileCoherent of
\* DescriptiveThm.tla: the least data value whose CDF reaches p)
IsQuantileEmp(v, p, x, w) ==
    /\ v \in Rng(x)
    /\ RLe(p, CDF(RInt(v), x, w))
    /\ \A u \in Rng(x) : u < v => RLt(CDF(RInt(u), x, w), p)
QuantileOk(v, p, x, w) ==
    \/ IsQuantileEmp(v, p, x, w)
    \/ p[1] = 0 /\ v = SetMin({x[i] : i \in {j \in Idx(x) : w[j] > 0}})   \* zero-weight leading entries
SameBag(ax, aw, bx, bw) ==
    /\ Len(ax) = Len(bx) /\ Len(aw) = Len(bw)
    /\ \A v \in Rng(ax) \cup Rng(bx) : \A u \in Rng(aw) \cup Rng(bw) :
         Cardinality({i \in Idx(ax) : ax[i] = v /\ aw[i] = u}) = Cardinality({i \in Idx(bx) : bx[i] = v /\ bw[i] = u})

Conforms(e) ==
    LET x == e.x  w == e.w  W == WSum(w)  S == WXSum(x, w)
        cl == [i \in Idx(x) |-> e.cl[i] = 1] IN
    /\ e.ok
    /\ IsSorted(x) /\ Len(w) = Len(x) /\ W > 0
    /\ Len(e.qe) = 17 /\ \A k \in 0 .. 16 : QuantileOk(e.qe[k + 1], R(k, 16), x, w)
    /\ \A j \in Idx(e.cq2) : CdfCount(R(e.cq2[j], 2), x, w) = e.cn[j]
    /\ S = e.meanw
    \* PopVariance * W^2 = W * sum w x^2 - (sum w x)^2   (theorem VarianceIdentity of DescriptiveThm.tla)
    /\ W * Sum([i \in Idx(x) |-> w[i] * x[i] * x[i]]) - S * S = e.pvw2
    /\ e.modev \in Modes(x, w) /\ e.modec = ModeCount(x, w)
    /\ HistDomain(e.hd, x) /\ Histogram(e.hd, x, w) = e.hc
    /\ Len(e.tocntp) = Len(x) + 1 /\ Len(e.tocmin) = Len(x) + 1 /\ Len(e.tocmax) = Len(x) + 1
    /\ \A i \in 0 .. Len(x) : /\ e.tocntp[i + 1] = TocNtp(cl, w, i)
                              /\ e.tocmin[i + 1] = TocMin(cl, w, i)
                              /\ e.tocmax[i + 1] = TocMax(cl, w, i)
    /\ KS(x, w, e.y, e.wy) = R(e.ksn, W * WSum(e.wy))
    /\ IsSorted(e.sx) /\ SameBag(e.sx, e.sw, e.ux, e.uw)

Step == /\ l <= Len(TraceLog)
        /\ Conforms(Ev)
        /\ l' = l + 1
TraceInit == l = 1
TraceSpec == TraceInit /\ [][Step]_l

Accepted ==
    LET d == TLCGet("stats").diameter IN
    IF d - 1 = Len(TraceLog) THEN PrintT("TRACE-ACCEPTED " \o ToString(Len(TraceLog)))
    ELSE /\ PrintT("TRACE-REJECTED at event " \o ToString(d) \o ": " \o ToString(TraceLog[d].note))
         /\ FALSE
=============================================================================
