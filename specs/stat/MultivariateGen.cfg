SPECIFICATION Spec
CONSTANTS
  Family = "@FAMILY@"
  Shard = @SHARD@
  NShards = @NSHARDS@
INVARIANTS EmitCase
CHECK_DEADLOCK FALSE
