SPECIFICATION Spec
CONSTANTS
  AlphaEnc = @ALPHA@
  Off = @OFF@
  MaxN = @MAXN@
  BMaxN = @BMAXN@
  WVals = @WVALS@
  PGrid = 8
INVARIANTS Replication ReplicationB PermInvariant PermInvariantB AffineEquivariant AffineEquivariantB
  QuantileCoherent VarianceIdentity HistogramConserves KSDistance CorrelationBounded NormalEquations RocMonotone
CHECK_DEADLOCK FALSE
