SPECIFICATION Spec
CONSTANTS
  Family = "@FAMILY@"
  MaxN = @MAXN@
  WVals = @WVALS@
  Den = @DEN@
INVARIANTS EmitCase
CHECK_DEADLOCK FALSE
