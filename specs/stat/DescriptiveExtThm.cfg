SPECIFICATION Spec
CONSTANTS
  Family = "@FAMILY@"
  MaxN = @MAXN@
  WVals = @WVALS@
  Den = @DEN@
INVARIANTS ThmHm ThmGm ThmScore ThmInfo ThmCirc ThmArg
CHECK_DEADLOCK FALSE
