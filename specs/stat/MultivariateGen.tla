---------------------------- MODULE MultivariateGen ----------------------------
(* Generator (R2) and theorems (R1) for Multivariate.tla: planted data matrices   *)
(* whose principal components / canonical correlations are rational.              *)
(*                                                                                *)
(* Plant.  A design is a weight vector w and integer columns u_1 .. u_m that are  *)
(* w-centred (sum_i w_i u_a[i] = 0) and w-orthogonal, N_a = sum_i w_i u_a[i]^2.   *)
(*   PCA:  X = 1 m' + sum_a t_a u_a v_a'   with v_a the columns of a rational      *)
(*         orthogonal matrix V (signed permutations, a Pythagorean rotation,      *)
(*         (1/3)[[1,2,2],[2,1,-2],[2,-2,1]], Hadamard/2): the weighted scatter is  *)
(*         sum_a t_a^2 N_a v_a v_a', so the variances are t_a^2 N_a / (W - 1).     *)
(*   CCA:  designs with square N_a; x spans e_1 .. e_p (e_a = u_a / sqrt N_a),    *)
(*         y spans g_j = rho_j e_j + sigma_j e_(p+..) with (rho, sigma) in        *)
(*         {(1,0), (4/5,3/5), (3/5,4/5), (0,1)} (Pythagorean mixing), both        *)
(*         rotated by rational orthogonal Vx, Vy and scaled by distinct t: the    *)
(*         canonical correlations are the rho_j.                                  *)
(* The plant is only a way to find instances: every printed case is first checked *)
(* against the definitions IsPCA / IsCCA of Multivariate.tla (Assert), which see  *)
(* nothing but the final integer matrices, the weights and the claimed result.    *)
(*                                                                                *)
(* Receiver objects.  stat.PC and stat.CC are objects: an analysis stores its     *)
(* result in the receiver and the accessors read the result of the LAST           *)
(* successful analysis.  Every line is a history of two analyses on one receiver  *)
(* (the second drawn from a small set by a hash of the first), with the expected  *)
(* accessor results after each, and the receiver-argument decision table          *)
(* (nil / empty / correctly sized / wrongly sized destinations).                  *)
EXTENDS Multivariate, Json

CONSTANTS Family,     \* "pca" | "cca" | "marg" | "maha" | "all"
          Shard, NShards   \* the theorem run of the quick tier takes the cases with hash % NShards = Shard
VARIABLE c
On(f) == Family = f \/ Family = "all"

(********************************** designs **********************************)
H2 == <<1, 1, -1, -1>>
H3 == <<1, -1, 1, -1>>
H4 == <<1, -1, -1, 1>>
Z1(s) == s \o <<0>>
Z4(s) == s \o <<0, 0, 0, 0>>
ZZ(s) == <<0, 0, 0, 0>> \o s
Des(id, w, U) == [id |-> id, w |-> w, U |-> U]
Blocks8 == <<Z4(H2), Z4(H3), Z4(H4), ZZ(H2), ZZ(H3), ZZ(H4)>>
SquareDesigns ==       \* every N_a is a perfect square (CCA needs it; PCA uses them too)
    {Des("d4", <<1, 1, 1, 1>>, <<H2, H3, H4>>),
     Des("d5", <<1, 1, 1, 1, 1>>, <<Z1(H2), Z1(H3), Z1(H4)>>),
     Des("d5w", <<1, 1, 1, 1, 3>>, <<Z1(H2), Z1(H3), Z1(H4)>>),
     Des("d8", <<1, 1, 1, 1, 1, 1, 1, 1>>, Blocks8),
     Des("d8w", <<1, 1, 1, 1, 4, 4, 4, 4>>, Blocks8)}
OtherDesigns ==
    {Des("d2", <<1, 1>>, <<<<1, -1>>>>),
     Des("d2w", <<3, 1>>, <<<<1, -3>>>>),
     Des("d3w", <<1, 1, 2>>, <<<<1, 1, -1>>, <<1, -1, 0>>>>),
     Des("d6", <<1, 1, 1, 1, 1, 1>>, <<<<1, 1, 1, -1, -1, -1>>, <<1, -1, 0, 1, -1, 0>>, <<1, 1, -2, 1, 1, -2>>>>)}
DN(des, a) == Sum([i \in Idx(des.w) |-> des.w[i] * des.U[a][i] * des.U[a][i]])
DesignOk(des) ==
    /\ \A a \in Idx(des.U) : Len(des.U[a]) = Len(des.w) /\ Sum([i \in Idx(des.w) |-> des.w[i] * des.U[a][i]]) = 0
    /\ \A a, b \in Idx(des.U) : a # b => Sum([i \in Idx(des.w) |-> des.w[i] * des.U[a][i] * des.U[b][i]]) = 0
AllOnes(w) == \A i \in Idx(w) : w[i] = 1
NilVariants(des) == IF AllOnes(des.w) THEN {TRUE, FALSE} ELSE {FALSE}

(*************************** rational orthogonal V ****************************)
\* V[j][a] = component j of the a-th direction; m clears the denominators
IM(rows) == LET e(i, j) == RInt(rows[i][j]) IN Mat(Len(rows), Len(rows[1]), e)
VC(id, V, m) == [id |-> id, V |-> V, m |-> m]
P35 == <<3, 5>>
P45 == <<4, 5>>
N45 == <<-4, 5>>
VChoices(d) ==
    CASE d = 1 -> {VC("i1", IM(<<<<1>>>>), 1), VC("n1", IM(<<<<-1>>>>), 1)}
      [] d = 2 -> {VC("i2", IM(<<<<1, 0>>, <<0, 1>>>>), 1),
                   VC("s2", IM(<<<<0, -1>>, <<1, 0>>>>), 1),
                   VC("p2", <<<<P35, N45>>, <<P45, P35>>>>, 5)}
      [] d = 3 -> {VC("s3", IM(<<<<0, 0, 1>>, <<1, 0, 0>>, <<0, -1, 0>>>>), 1),
                   VC("t3", MScale(<<1, 3>>, IM(<<<<1, 2, 2>>, <<2, 1, -2>>, <<2, -2, 1>>>>)), 3),
                   VC("p3", <<<<P35, RZero, N45>>, <<RZero, ROne, RZero>>, <<P45, RZero, P35>>>>, 5)}
      [] d = 4 -> {VC("s4", IM(<<<<0, 1, 0, 0>>, <<0, 0, 0, -1>>, <<1, 0, 0, 0>>, <<0, 0, 1, 0>>>>), 1),
                   VC("h4", MScale(<<1, 2>>, IM(<<<<1, 1, 1, 1>>, <<1, -1, 1, -1>>, <<1, 1, -1, -1>>, <<1, -1, -1, 1>>>>)), 2)}
MeanVec(flag, d) == Vec(d, LAMBDA j : IF flag THEN <<1, -2, 3, -1>>[j] ELSE 0)

(*********************************** PCA *************************************)
STuples(r) == CASE r = 1 -> {<<1>>, <<3>>}
                [] r = 2 -> {<<2, 1>>, <<3, 1>>, <<1, 1>>, <<1, 2>>}
                [] r = 3 -> {<<3, 2, 1>>, <<2, 2, 1>>, <<4, 2, 1>>, <<2, 1, 1>>}
                [] r = 4 -> {<<4, 3, 2, 1>>, <<3, 2, 2, 1>>}
PcaParams == IF ~On("pca") THEN {} ELSE
    UNION {UNION {UNION {{[fam |-> "pca", des |-> des, vc |-> vc, r |-> r, s |-> s, mf |-> mf, nilw |-> nw] :
                            s \in STuples(r), mf \in BOOLEAN, nw \in NilVariants(des)}
                         : r \in {rr \in {Min2(d, Len(des.U)), Min2(d, Len(des.U)) - 1} : rr >= 1}}
                  : vc \in VChoices(d)}
           : des \in SquareDesigns \cup OtherDesigns, d \in 1 .. 4}
PcaProblem(k) ==
    LET des == k.des  n == Len(des.w)  d == Len(k.vc.V)  r == k.r
        t == Vec(r, LAMBDA a : k.vc.m * k.s[a])
        m == MeanVec(k.mf, d)
        xe(i, j) == RAdd(RInt(m[j]), RSumSeq(Vec(r, LAMBDA a : RMul(RInt(t[a] * des.U[a][i]), k.vc.V[j][a]))))
        X == Mat(n, d, xe)
        kk == Min2(n, d)
        lam == Vec(kk, LAMBDA a : IF a <= r THEN R(t[a] * t[a] * DN(des, a), WSum(des.w) - 1) ELSE RZero)
    IN [X |-> X, w |-> des.w, nilw |-> k.nilw, lam |-> lam, V |-> MLeftCols(k.vc.V, kk),
        tag |-> des.id \o "/" \o k.vc.id]
Descending(lam) == \A i \in 1 .. Len(lam) - 1 : RLe(lam[i + 1], lam[i])

RSetMin(S) == CHOOSE m \in S : \A e \in S : RLe(m, e)
PcaGaps(lam, d) ==
    LET U == {i \in Idx(lam) : PCUnique(lam, d, i)} IN
    ({RAbs(RSub(lam[i], lam[j])) : i \in U, j \in Idx(lam)} \ {RZero})
    \cup (IF d > Len(lam) THEN {lam[i] : i \in U} ELSE {})
Q3(r) == <<r[1], r[2], 0>>
QI(a) == <<a, 1, 0>>
IntRows(X) == Vec(MRows(X), LAMBDA i : IntCol(X[i]))
VRecv(k) == <<[len |-> -1, out |-> "ok"], [len |-> k, out |-> "ok"], [len |-> k + 1, out |-> "panic"],
              [len |-> k - 1, out |-> "panic"]>>
MRecv(r, cc) == <<[r |-> 0, c |-> 0, out |-> "ok"], [r |-> r, c |-> cc, out |-> "ok"],
                  [r |-> r, c |-> cc + 1, out |-> "panic"], [r |-> r + 1, c |-> cc, out |-> "panic"]>>
PcaStep(pr) ==
    LET n == MRows(pr.X)  d == MCols(pr.X)  k == Min2(n, d)
        gaps == PcaGaps(pr.lam, d)
        cond == IF gaps = {} \/ pr.lam[1] = RZero THEN ROne ELSE RDiv(pr.lam[1], RSetMin(gaps)) IN
    [X |-> IntRows(pr.X), w |-> pr.w, nilw |-> pr.nilw, n |-> n, d |-> d, k |-> k,
     lam |-> pr.lam, V |-> pr.V, uniq |-> [i \in 1 .. k |-> PCUnique(pr.lam, d, i)],
     \* 2^-30 * (largest variance + 1);  2^-30 * (largest variance / smallest gap of a unique component)
     tolvar |-> <<<<1, 1, -30>>, Q3(RAdd(pr.lam[1], ROne))>>,
     tolvec |-> <<<<1, 1, -30>>, Q3(cond)>>,
     vrecv |-> VRecv(k), mrecv |-> MRecv(d, k), tag |-> pr.tag,
     wtag |-> IF pr.nilw THEN "nil" ELSE "weighted"]
\* the follow-up analyses on the same receiver: other shapes, with and without weights
PcaFollowSet == <<[fam |-> "pca", des |-> Des("d2w", <<3, 1>>, <<<<1, -3>>>>), vc |-> VC("s2", IM(<<<<0, -1>>, <<1, 0>>>>), 1),
                   r |-> 1, s |-> <<1>>, mf |-> TRUE, nilw |-> FALSE],
                  [fam |-> "pca", des |-> Des("d4", <<1, 1, 1, 1>>, <<H2, H3, H4>>),
                   vc |-> VC("t3", MScale(<<1, 3>>, IM(<<<<1, 2, 2>>, <<2, 1, -2>>, <<2, -2, 1>>>>)), 3),
                   r |-> 3, s |-> <<3, 2, 1>>, mf |-> FALSE, nilw |-> TRUE],
                  [fam |-> "pca", des |-> Des("d5w", <<1, 1, 1, 1, 3>>, <<Z1(H2), Z1(H3), Z1(H4)>>), vc |-> VC("n1", IM(<<<<-1>>>>), 1),
                   r |-> 1, s |-> <<3>>, mf |-> TRUE, nilw |-> FALSE],
                  [fam |-> "pca", des |-> Des("d5", <<1, 1, 1, 1, 1>>, <<Z1(H2), Z1(H3), Z1(H4)>>),
                   vc |-> VC("p2", <<<<P35, N45>>, <<P45, P35>>>>, 5),
                   r |-> 2, s |-> <<2, 1>>, mf |-> TRUE, nilw |-> TRUE]>>
PcaHash(k) == Len(k.des.w) + 3 * Len(k.vc.V) + 5 * k.r + 7 * Sum(k.s) + (IF k.mf THEN 1 ELSE 0) + (IF k.nilw THEN 2 ELSE 0)
PcaChecked(k) == LET pr == PcaProblem(k) IN
                 IF Assert(IsPCA(pr.X, pr.w, pr.lam, pr.V), <<"planted PCA rejected by the definition", k>>) THEN PcaStep(pr) ELSE PcaStep(pr)
PcaFollowSteps == IF ~On("pca") THEN <<>> ELSE TLCEval([i \in 1 .. Len(PcaFollowSet) |-> PcaChecked(PcaFollowSet[i])])
PcaLine(k) == [fam |-> "pca", steps |-> <<PcaChecked(k), PcaFollowSteps[1 + (PcaHash(k) % Len(PcaFollowSet))]>>]

(*********************************** CCA *************************************)
RhoVals == <<<<ROne, RZero>>, <<P45, P35>>, <<P35, P45>>, <<RZero, ROne>>>>      \* (rho, sigma), descending rho
RhoTuples(q) == {t \in [1 .. q -> 1 .. 4] : \A j \in 1 .. q - 1 : t[j] <= t[j + 1]}
NExtra(t) == Cardinality({j \in Idx(t) : t[j] # 1})
CcaVChoices(d) == {vc \in VChoices(d) : vc.id \in {"n1", "s2", "p2", "s3", "t3"}}
CcaParams == IF ~On("cca") THEN {} ELSE
    UNION {UNION {{[fam |-> "cca", des |-> des, p |-> pq[1], q |-> pq[2], rho |-> t, vx |-> vx, vy |-> vy, nilw |-> nw] :
                     t \in {u \in RhoTuples(pq[2]) : pq[1] + NExtra(u) <= Len(des.U)},
                     vx \in CcaVChoices(pq[1]), vy \in CcaVChoices(pq[2]), nw \in NilVariants(des)}
                  : pq \in {<<1, 1>>, <<2, 1>>, <<2, 2>>, <<3, 1>>, <<3, 2>>, <<3, 3>>}}
           : des \in SquareDesigns}
Lcm(a, b) == (a \div Gcd(a, b)) * b
RECURSIVE LcmSeq(_, _)
LcmSeq(f, n) == IF n = 0 THEN 1 ELSE Lcm(f[n], LcmSeq(f, n - 1))
LCD(X) == LcmSeq(Vec(MRows(X), LAMBDA i : LcmSeq(Vec(MCols(X), LAMBDA j : X[i][j][2]), MCols(X))), MRows(X))
CcaProblem(k) ==
    LET des == k.des  n == Len(des.w)  p == k.p  q == k.q
        E(a, i) == R(des.U[a][i], ISqrt(DN(des, a)))                  \* w-orthonormal design columns
        rho(j) == RhoVals[k.rho[j]][1]
        sig(j) == RhoVals[k.rho[j]][2]
        ext(j) == p + Cardinality({j2 \in 1 .. j : k.rho[j2] # 1})
        G(j, i) == IF sig(j) = RZero THEN RMul(rho(j), E(j, i))
                   ELSE RAdd(RMul(rho(j), E(j, i)), RMul(sig(j), E(ext(j), i)))
        sx == Vec(p, LAMBDA b : p + 1 - b + (IF b = 1 THEN 1 ELSE 0))   \* e.g. 4, 2, 1
        sy == Vec(q, LAMBDA b : b)                                       \* 1, 2, 3
        mx == MeanVec(TRUE, p)
        my == Vec(q, LAMBDA j : 2 - j)
        x0(i, a) == RAdd(RInt(mx[a]), RSumSeq(Vec(p, LAMBDA b : RMul(RMul(RInt(sx[b]), E(b, i)), k.vx.V[a][b]))))
        y0(i, a) == RAdd(RInt(my[a]), RSumSeq(Vec(q, LAMBDA b : RMul(RMul(RInt(sy[b]), G(b, i)), k.vy.V[a][b]))))
        X0 == Mat(n, p, x0)
        Y0 == Mat(n, q, y0)
        cx == TLCEval(LCD(X0))  cy == TLCEval(LCD(Y0))
        hx == Vec(p, LAMBDA b : R(1, cx * sx[b]))
        hy == Vec(q, LAMBDA b : R(1, cy * sy[b]))
        Rx == MMul(MMul(k.vx.V, MDiag(hx)), MT(k.vx.V))
        Ry == MMul(MMul(k.vy.V, MDiag(hy)), MT(k.vy.V))
    IN [X |-> MScale(RInt(cx), X0), Y |-> MScale(RInt(cy), Y0), w |-> des.w, nilw |-> k.nilw,
        Rx |-> Rx, Ry |-> Ry,
        cert |-> [Ex |-> k.vx.V, hx |-> hx, Ey |-> k.vy.V, hy |-> hy],
        D |-> Vec(q, LAMBDA j : rho(j)), L |-> MLeftCols(k.vx.V, q), Rt |-> k.vy.V,
        cond |-> cx * sx[1] + cy * sy[q],
        tag |-> des.id \o "/" \o k.vx.id \o "/" \o k.vy.id]

CcaGaps(D, p) ==
    LET U == {i \in Idx(D) : CCUniqueR(D, i)} IN
    ({RAbs(RSub(D[i], D[j])) : i \in U, j \in Idx(D)} \ {RZero})
    \cup (IF p > Len(D) THEN {D[i] : i \in U} \ {RZero} ELSE {})
\* sqrt(W - 1) * r  as  sign(r) * sqrt((W - 1) r^2)
BackEv(W, r) == [sg |-> RSgn(r), root |-> 2, terms |-> << <<QI(W - 1), Q3(RAbs(r)), Q3(RAbs(r))>> >>]
CcaStep(pr) ==
    LET n == MRows(pr.X)  p == MCols(pr.X)  q == MCols(pr.Y)  W == WSum(pr.w)
        gaps == CcaGaps(pr.D, p)
        cond == IF gaps = {} THEN ROne ELSE RInv(RSetMin(gaps))
        BL == MMul(pr.Rx, pr.L)  BR == MMul(pr.Ry, pr.Rt) IN
    [X |-> IntRows(pr.X), Y |-> IntRows(pr.Y), w |-> pr.w, nilw |-> pr.nilw, n |-> n, p |-> p, q |-> q,
     D |-> pr.D, L |-> pr.L, R |-> pr.Rt,
     LB |-> [i \in 1 .. p |-> [j \in 1 .. q |-> BackEv(W, BL[i][j])]],
     RB |-> [i \in 1 .. q |-> [j \in 1 .. q |-> BackEv(W, BR[i][j])]],
     uniqL |-> [i \in 1 .. q |-> CCUniqueL(pr.D, p, i)], uniqR |-> [i \in 1 .. q |-> CCUniqueR(pr.D, i)],
     tolcorr |-> <<<<1, 1, -30>>, QI(pr.cond)>>,
     tolvec |-> <<<<1, 1, -30>>, QI(pr.cond), Q3(cond)>>,
     tolback |-> <<<<1, 1, -30>>, QI(pr.cond), Q3(cond), QI(W)>>,
     crecv |-> VRecv(q), lrecv |-> MRecv(p, q), rrecv |-> MRecv(q, q), tag |-> pr.tag,
     \* "nil": no weights; "w=n": weights that sum to the number of rows; "w#n": any other weights
     wtag |-> IF pr.nilw THEN "nil" ELSE IF W = n THEN "w=n" ELSE "w#n"]
CcaChecked(k) == LET pr == CcaProblem(k) IN
                 IF Assert(IsIntMat(pr.X) /\ IsIntMat(pr.Y) /\ IsCCA(pr.X, pr.Y, pr.w, pr.Rx, pr.Ry, pr.cert, pr.D, pr.L, pr.Rt),
                           <<"planted CCA rejected by the definition", k>>) THEN CcaStep(pr) ELSE CcaStep(pr)
CcaFollowSet ==
    <<[fam |-> "cca", des |-> Des("d5w", <<1, 1, 1, 1, 3>>, <<Z1(H2), Z1(H3), Z1(H4)>>), p |-> 2, q |-> 1, rho |-> <<2>>,
       vx |-> VC("p2", <<<<P35, N45>>, <<P45, P35>>>>, 5), vy |-> VC("n1", IM(<<<<-1>>>>), 1), nilw |-> FALSE],
      [fam |-> "cca", des |-> Des("d8", <<1, 1, 1, 1, 1, 1, 1, 1>>, Blocks8), p |-> 3, q |-> 2, rho |-> <<1, 3>>,
       vx |-> VC("t3", MScale(<<1, 3>>, IM(<<<<1, 2, 2>>, <<2, 1, -2>>, <<2, -2, 1>>>>)), 3),
       vy |-> VC("s2", IM(<<<<0, -1>>, <<1, 0>>>>), 1), nilw |-> TRUE],
      [fam |-> "cca", des |-> Des("d4", <<1, 1, 1, 1>>, <<H2, H3, H4>>), p |-> 1, q |-> 1, rho |-> <<3>>,
       vx |-> VC("n1", IM(<<<<-1>>>>), 1), vy |-> VC("n1", IM(<<<<-1>>>>), 1), nilw |-> TRUE]>>
CcaHash(k) == Len(k.des.w) + 3 * k.p + 5 * k.q + 7 * Sum(k.rho) + Len(k.vx.id) + (IF k.nilw THEN 2 ELSE 0)
CcaFollowSteps == IF ~On("cca") THEN <<>> ELSE TLCEval([i \in 1 .. Len(CcaFollowSet) |-> CcaChecked(CcaFollowSet[i])])
CcaLine(k) == [fam |-> "cca", steps |-> <<CcaChecked(k), CcaFollowSteps[1 + (CcaHash(k) % Len(CcaFollowSet))]>>]

(***************************** argument contract ******************************)
\* rows for the documented panics of the matrix functions; X0 is a fixed 3 x 2 data matrix
\*   CovarianceMatrix / CorrelationMatrix: "weights must have length equal to the number of rows ... and
\*     must not contain negative elements.  The dst matrix must either be empty or have the same number
\*     of columns as the input data matrix."
\*   PrincipalComponents: "the length of weights must match the number of observations or [it] will panic"
\*   CanonicalCorrelations: "will panic if the inputs x and y do not have the same number of rows";
\*     "the length of weights must match the number of observations ... or [it] will panic"
\*   accessors "panic if the receiver does not contain a successful" analysis (zero-value receivers)
MargX == <<<<1, 2>>, <<2, 1>>, <<3, 5>>>>
MargY == <<<<1>>, <<0>>, <<2>>>>
MargY2 == <<<<1>>, <<0>>>>
MRow(f, w, nilw, dr, out) == [fam |-> "marg", f |-> f, X |-> MargX, Y |-> MargY, w |-> w, nilw |-> nilw, dr |-> dr, out |-> out]
MargCases == IF ~On("marg") THEN {} ELSE
    UNION {{MRow(f, <<>>, TRUE, 0, "ok"), MRow(f, <<1, 2, 1>>, FALSE, 0, "ok"), MRow(f, <<1, 2, 1>>, FALSE, 2, "ok"),
            MRow(f, <<1, 2>>, FALSE, 0, "panic"), MRow(f, <<1, 2, 1, 1>>, FALSE, 0, "panic"),
            MRow(f, <<1, -2, 3>>, FALSE, 0, "panic"),
            MRow(f, <<>>, TRUE, 3, "panic"), MRow(f, <<>>, TRUE, 1, "panic"), MRow(f, <<1, 2, 1>>, FALSE, 3, "panic")}
           : f \in {"CovarianceMatrix", "CorrelationMatrix"}}
    \cup {MRow("PrincipalComponents", <<1, 2>>, FALSE, 0, "panic"), MRow("PrincipalComponents", <<1, 2, 1, 1>>, FALSE, 0, "panic"),
          MRow("PrincipalComponents", <<1, 2, 1>>, FALSE, 0, "ok"),
          MRow("CanonicalCorrelations", <<1, 2>>, FALSE, 0, "panic"), MRow("CanonicalCorrelations", <<1, 2, 1, 1>>, FALSE, 0, "panic"),
          MRow("CanonicalCorrelations", <<1, 2, 1>>, FALSE, 0, "ok"),
          [MRow("CanonicalCorrelations", <<>>, TRUE, 0, "panic") EXCEPT !.Y = MargY2],
          MRow("PC.VarsTo.zero", <<>>, TRUE, 0, "panic"), MRow("PC.VectorsTo.zero", <<>>, TRUE, 0, "panic"),
          MRow("CC.CorrsTo.zero", <<>>, TRUE, 0, "panic"), MRow("CC.LeftTo.zero", <<>>, TRUE, 0, "panic"),
          MRow("CC.RightTo.zero", <<>>, TRUE, 0, "panic")}

(******************************** Mahalanobis *********************************)
MahaSigmas == {IM(<<<<4>>>>), IM(<<<<2, 1>>, <<1, 2>>>>), IM(<<<<4, 2>>, <<2, 3>>>>), IM(<<<<1, 0>>, <<0, 4>>>>),
               IM(<<<<2, 1, 0>>, <<1, 2, 1>>, <<0, 1, 2>>>>), IM(<<<<1, 0, 0>>, <<0, 4, 0>>, <<0, 0, 9>>>>),
               IM(<<<<4, 2, 2>>, <<2, 5, 3>>, <<2, 3, 6>>>>)}
MahaVecs(d) == [1 .. d -> {-1, 0, 2}]
MahaCases == IF ~On("maha") THEN {} ELSE
    UNION {{k \in {[fam |-> "maha", S |-> S, x |-> x, y |-> y] : x \in MahaVecs(Len(S)), y \in MahaVecs(Len(S))} :
              Len(S) < 3 \/ (Sum(k.x) + Sum(k.y)) % 3 = 0}
           : S \in MahaSigmas}
MahaLine(k) ==
    LET rx == Vec(Len(k.x), LAMBDA i : RInt(k.x[i]))  ry == Vec(Len(k.y), LAMBDA i : RInt(k.y[i]))
        ok == Assert(IsPosDef(k.S) /\ MMul(k.S, MInv(k.S)) = MId(Len(k.S)), <<"not an SPD matrix with its inverse", k.S>>)
        d2 == MahalanobisSq(rx, ry, k.S) IN
    [fam |-> "maha", S |-> IntRows(k.S), x |-> k.x, y |-> k.y, ok |-> ok,
     alts |-> <<[sg |-> 1, root |-> 2, terms |-> << <<Q3(d2)>> >>]>>, tol |-> <<<<1, 1, -33>>, QI(16)>>]
\* a distance: zero exactly for x = y, symmetric
ThmMaha == c.fam = "maha" =>
    LET rx == Vec(Len(c.x), LAMBDA i : RInt(c.x[i]))  ry == Vec(Len(c.y), LAMBDA i : RInt(c.y[i])) IN
    /\ MahalanobisSq(rx, ry, c.S) = MahalanobisSq(ry, rx, c.S)
    /\ RLe(RZero, MahalanobisSq(rx, ry, c.S))
    /\ (MahalanobisSq(rx, ry, c.S) = RZero <=> c.x = c.y)

(********************************* theorems ***********************************)
\* the designs and the V matrices are what the plant assumes
ThmDesigns == /\ \A des \in SquareDesigns \cup OtherDesigns : DesignOk(des)
              /\ \A des \in SquareDesigns : \A a \in Idx(des.U) : HasISqrt(DN(des, a))
              /\ \A d \in 1 .. 4 : \A vc \in VChoices(d) : IsOrthonormalCols(vc.V) /\ MRows(vc.V) = d /\ IsIntMat(MScale(RInt(vc.m), vc.V))
\* the rational covariance of Multivariate.tla is the Covariance of Descriptive.tla, and the
\* covariance matrix is symmetric positive semi-definite (leading minors >= 0 up to 2 columns)
ThmCovLink == c.fam = "pca" =>
    LET pr == PcaProblem(c)  X == pr.X  w == pr.w  d == MCols(X)  C == CovMat(X, w) IN
    /\ \A i, j \in 1 .. d : C[i][j] = Covariance(IntCol(MCol(X, i)), IntCol(MCol(X, j)), w)
    /\ IsSym(C)
    /\ \A m \in 1 .. Min2(d, 2) : Det(Lead(C, m))[1] >= 0
\* integer weights are replication: the analysis of the replicated rows (no weights) is the same
ReplRows(X, w) == LET RECURSIVE rp(_)
                      rp(i) == IF i > Len(X) THEN <<>> ELSE [j \in 1 .. w[i] |-> X[i]] \o rp(i + 1)
                  IN TLCEval(rp(1))
ThmPcaRepl == c.fam = "pca" =>
    LET pr == PcaProblem(c)  RX == ReplRows(pr.X, pr.w) IN
    Min2(MRows(RX), MCols(RX)) = Len(pr.lam) => IsPCA(RX, Ones(MRows(RX)), pr.lam, pr.V)
ThmCcaRepl == c.fam = "cca" =>
    LET pr == CcaProblem(c)  RX == ReplRows(pr.X, pr.w)  RY == ReplRows(pr.Y, pr.w) IN
    IsCCA(RX, RY, Ones(MRows(RX)), pr.Rx, pr.Ry, pr.cert, pr.D, pr.L, pr.Rt)
\* the definitions accept the plant (the same check the generator makes before printing), and
\* reject a perturbed claim: swapped variances / a negated correlation
ThmPlant == /\ c.fam = "pca" => LET pr == PcaProblem(c) IN
                /\ IsPCA(pr.X, pr.w, pr.lam, pr.V)
                /\ (Len(pr.lam) > 1 /\ pr.lam[1] # pr.lam[2] =>
                        ~IsPCA(pr.X, pr.w, [pr.lam EXCEPT ![1] = pr.lam[2], ![2] = pr.lam[1]], pr.V))
                /\ ~IsPCA(pr.X, pr.w, [pr.lam EXCEPT ![1] = RAdd(pr.lam[1], ROne)], pr.V)
            /\ c.fam = "cca" => LET pr == CcaProblem(c) IN
                /\ IsCCA(pr.X, pr.Y, pr.w, pr.Rx, pr.Ry, pr.cert, pr.D, pr.L, pr.Rt)
                /\ (pr.D[1] # RZero => ~IsCCA(pr.X, pr.Y, pr.w, pr.Rx, pr.Ry, pr.cert, [pr.D EXCEPT ![1] = RNeg(pr.D[1])], pr.L, pr.Rt))
                /\ ~IsCCA(pr.X, pr.Y, pr.w, MScale(<<2, 1>>, pr.Rx), pr.Ry, pr.cert, pr.D, pr.L, pr.Rt)

(********************************** driver ************************************)
KHash(k) == IF k.fam = "pca" THEN PcaHash(k) + Len(k.des.U) ELSE IF k.fam = "cca" THEN CcaHash(k) + Len(k.vy.id) ELSE 0
InShard(k) == NShards = 1 \/ k.fam \in {"marg", "maha"} \/ KHash(k) % NShards = Shard
PcaValid(k) == LET pr == PcaProblem(k) IN IsIntMat(pr.X) /\ Descending(pr.lam)
Cases == {k \in PcaParams : InShard(k) /\ PcaValid(k)} \cup {k \in CcaParams : InShard(k)} \cup MargCases \cup MahaCases
LineOf(k) == CASE k.fam = "pca" -> PcaLine(k)
               [] k.fam = "cca" -> CcaLine(k)
               [] k.fam = "marg" -> k
               [] k.fam = "maha" -> MahaLine(k)
\* theorem run: the initial states are NParts part numbers and the cases of a part are its
\* successors, so that several TLC workers share the work (initial states are computed by one)
NParts == 16
InPart(k, i) == (KHash(k) \div NShards) % NParts = i
Part(i) == {k \in PcaParams : InShard(k) /\ InPart(k, i) /\ PcaValid(k)} \cup {k \in CcaParams : InShard(k) /\ InPart(k, i)}
           \cup (IF i = 0 THEN MahaCases ELSE {})
ThmInit == c \in {[fam |-> "part", i |-> i] : i \in 0 .. NParts - 1}
ThmNext == c.fam = "part" /\ c' \in Part(c.i)
ThmSpec == ThmInit /\ [][ThmNext]_c
Init == c \in Cases
Next == UNCHANGED c
Spec == Init /\ [][Next]_c
EmitCase == PrintT(ToJson(LineOf(c)))
=============================================================================
