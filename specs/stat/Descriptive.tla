----------------------------- MODULE Descriptive -----------------------------
(* Defining formulas of gonum's descriptive statistics (package stat) over   *)
(* samples of small integers with integer weights, in exact rational          *)
(* arithmetic.  This module is the oracle: it shares nothing with gonum and   *)
(* states each quantity by its textbook definition (sums over the index set,  *)
(* set comprehensions), not by gonum's algorithm (two-pass corrected sums,    *)
(* running cumulative weights, single sweeps).                                *)
(*                                                                            *)
(* A sample is a sequence x of integers with a sequence w of integer weights  *)
(* of the same length ("nil weights" is by definition w = all ones).          *)
(* Rationals are pairs <<n, d>> with d > 0 in lowest terms.  TLC integers are *)
(* 32 bit and TLC raises an error on overflow, so a too large instance makes  *)
(* the generator fail (exit 2), never produce a wrong expected value.         *)
EXTENDS Integers, Sequences, FiniteSets, TLC

(******************************* integers ***********************************)
Abs(a) == IF a < 0 THEN -a ELSE a
Sgn(a) == IF a < 0 THEN -1 ELSE IF a = 0 THEN 0 ELSE 1
Max2(a, b) == IF a >= b THEN a ELSE b
Min2(a, b) == IF a <= b THEN a ELSE b
RECURSIVE Gcd(_, _)
Gcd(a, b) == IF b = 0 THEN a ELSE Gcd(b, a % b)
RECURSIVE Pow(_, _)
Pow(a, k) == IF k = 0 THEN 1 ELSE a * Pow(a, k - 1)

RECURSIVE SumTo(_, _)
SumTo(f, n) == IF n = 0 THEN 0 ELSE f[n] + SumTo(f, n - 1)
Sum(f) == SumTo(f, Len(f))                 \* f: sequence of integers
Idx(s) == 1 .. Len(s)
Rng(s) == {s[i] : i \in DOMAIN s}
RECURSIVE SetMax(_)
SetMax(S) == LET a == CHOOSE e \in S : TRUE IN
             IF S = {a} THEN a ELSE Max2(a, SetMax(S \ {a}))
RECURSIVE SetMin(_)
SetMin(S) == LET a == CHOOSE e \in S : TRUE IN
             IF S = {a} THEN a ELSE Min2(a, SetMin(S \ {a}))

(******************************* rationals **********************************)
R(n, d) == LET g == Gcd(Abs(n), Abs(d))               \* d # 0
               s == IF d < 0 THEN -1 ELSE 1
           IN <<s * (n \div g), s * (d \div g)>>
RInt(a) == <<a, 1>>
RNeg(p) == <<-p[1], p[2]>>
RAdd(p, q) == LET g == Gcd(p[2], q[2]) IN
              R(p[1] * (q[2] \div g) + q[1] * (p[2] \div g), (p[2] \div g) * q[2])
RSub(p, q) == RAdd(p, RNeg(q))
RMul(p, q) == LET a == R(p[1], q[2]) b == R(q[1], p[2]) IN <<a[1] * b[1], a[2] * b[2]>>
RInv(p) == IF p[1] < 0 THEN <<-p[2], -p[1]>> ELSE <<p[2], p[1]>>     \* p # 0
RDiv(p, q) == RMul(p, RInv(q))
RLe(p, q) == p[1] * q[2] <= q[1] * p[2]
RLt(p, q) == p[1] * q[2] < q[1] * p[2]
REq(p, q) == p[1] * q[2] = q[1] * p[2]
RAbs(p) == <<Abs(p[1]), p[2]>>
RSgn(p) == Sgn(p[1])
RMax(p, q) == IF RLe(p, q) THEN q ELSE p
IsRat(p) == p[2] > 0 /\ Gcd(Abs(p[1]), p[2]) = 1

(************************** weighted power sums *****************************)
Ones(n) == [i \in 1 .. n |-> 1]
WSum(w) == Sum(w)                                        \* W = sum_i w_i
WXSum(x, w) == Sum([i \in Idx(x) |-> w[i] * x[i]])       \* sum_i w_i x_i
\* W * (x_i - mean) is the integer  W x_i - sum_j w_j x_j
Dev(x, w, i) == WSum(w) * x[i] - WXSum(x, w)
\* N_k = sum_i w_i (W (x_i - mean))^k  =  W^k * sum_i w_i (x_i - mean)^k
CentralN(x, w, k) == Sum([i \in Idx(x) |-> w[i] * Pow(Dev(x, w, i), k)])
CrossN(x, y, w, r, s) == Sum([i \in Idx(x) |-> w[i] * Pow(Dev(x, w, i), r) * Pow(Dev(y, w, i), s)])

(************************ moments (domain: W > 0) ***************************)
\*   Mean          sum_i w_i x_i / W
Mean(x, w) == R(WXSum(x, w), WSum(w))
\*   Moment(k)     sum_i w_i (x_i - mean)^k / W               (no dof correction)
Moment(k, x, w) == R(CentralN(x, w, k), Pow(WSum(w), k + 1))
\*   MomentAbout   sum_i w_i (x_i - mu)^k / W                 (mu an integer)
MomentAbout(k, x, mu, w) == R(Sum([i \in Idx(x) |-> w[i] * Pow(x[i] - mu, k)]), WSum(w))
\*   PopVariance   sum_i w_i (x_i - mean)^2 / W
PopVariance(x, w) == Moment(2, x, w)
\*   Variance      sum_i w_i (x_i - mean)^2 / (W - 1)         (domain: W > 1)
Variance(x, w) == LET W == WSum(w) IN R(CentralN(x, w, 2), W * W * (W - 1))
\*   Covariance    sum_i w_i (x_i - mx)(y_i - my) / (W - 1)   (domain: W > 1)
Covariance(x, y, w) == LET W == WSum(w) IN R(CrossN(x, y, w, 1, 1), W * W * (W - 1))
\*   BivariateMoment(r, s)  sum_i w_i (x_i - mx)^r (y_i - my)^s / W
BivariateMoment(r, s, x, y, w) == R(CrossN(x, y, w, r, s), Pow(WSum(w), r + s + 1))

\* The weighted mode: the set of values of maximal total weight and that weight.
WeightOf(x, w, v) == Sum([i \in Idx(x) |-> IF x[i] = v THEN w[i] ELSE 0])
ModeCount(x, w) == SetMax({WeightOf(x, w, v) : v \in Rng(x)})
Modes(x, w) == {v \in Rng(x) : WeightOf(x, w, v) = ModeCount(x, w)}

(*********************** order statistics (x sorted) ************************)
IsSorted(s) == \A i \in 1 .. Len(s) - 1 : s[i] <= s[i + 1]
Cum(w, i) == SumTo(w, i)                                  \* C_i = w_1 + .. + w_i
\* Empirical CDF: the fraction of the (weighted) sample that is <= q.
\* q is a rational so that probes between data values can be stated.
CdfCount(q, x, w) == Sum([i \in Idx(x) |-> IF RLe(RInt(x[i]), q) THEN w[i] ELSE 0])
CDF(q, x, w) == R(CdfCount(q, x, w), WSum(w))
\* Empirical quantile: "the lowest value q for which q is greater than or equal
\* to the fraction p of samples": the least data value whose CDF reaches p.
QuantileEmp(p, x, w) == SetMin({x[i] : i \in {j \in Idx(x) : RLe(p, CDF(RInt(x[j]), x, w))}})
\* When leading entries have weight zero and p = 0 the doc comment does not say
\* whether a zero-weight entry is a "sample"; both readings are legal.
QuantileEmpLegal(p, x, w) ==
    {QuantileEmp(p, x, w)} \cup
    (IF p[1] = 0 THEN {SetMin({x[i] : i \in {j \in Idx(x) : w[j] > 0}})} ELSE {})
\* LinInterp quantile: the piecewise linear interpolant of the knots
\* (C_i / W, x_i), constant x_1 to the left of the first knot.
QuantileLin(p, x, w) ==
    LET W == WSum(w)
        t == RMul(p, RInt(W))                             \* target cumulative weight
        i == SetMin({j \in Idx(x) : RLe(t, RInt(Cum(w, j)))})
    IN IF i = 1 THEN RInt(x[1])
       ELSE \* between knot i-1 (at C_{i-1}) and knot i (at C_i = C_{i-1} + w_i, w_i > 0)
            LET lam == RDiv(RSub(t, RInt(Cum(w, i - 1))), RInt(w[i]))     \* in (0, 1]
            IN RAdd(RInt(x[i - 1]), RMul(lam, RInt(x[i] - x[i - 1])))

(******************************* histogram **********************************)
\* count[j] = total weight of the x_i with dividers[j] <= x_i < dividers[j+1]
HistCount(j, d, x, w) == Sum([i \in Idx(x) |-> IF d[j] <= x[i] /\ x[i] < d[j + 1] THEN w[i] ELSE 0])
Histogram(d, x, w) == [j \in 1 .. Len(d) - 1 |-> HistCount(j, d, x, w)]
\* the documented conditions on the inputs (violations panic)
HistDomain(d, x) == /\ Len(d) >= 2 /\ IsSorted(d) /\ IsSorted(x)
                    /\ (Len(x) > 0 => d[1] <= x[1] /\ x[Len(x)] < d[Len(d)])

(*************************** Kolmogorov-Smirnov *****************************)
\* sup_t |F_x(t) - F_y(t)| over the weighted empirical CDFs; the supremum of two
\* right-continuous step functions is attained at a data point.
KS(x, wx, y, wy) ==
    IF Len(x) = 0 /\ Len(y) = 0 THEN <<0, 1>>
    ELSE IF Len(x) = 0 \/ Len(y) = 0 THEN <<1, 1>>
    ELSE LET D(t) == RAbs(RSub(CDF(RInt(t), x, wx), CDF(RInt(t), y, wy)))
             T == Rng(x) \cup Rng(y)
             RECURSIVE mx(_)
             mx(S) == IF S = {} THEN <<0, 1>>
                      ELSE LET a == CHOOSE e \in S : TRUE IN RMax(D(a), mx(S \ {a}))
         IN mx(T)

(********************************* ROC / TOC *********************************)
\* For a threshold c: y_i >= c is classified positive.
\*   tpr(c) = weight of positives with y_i >= c / weight of positives
\*   fpr(c) = weight of negatives with y_i >= c / weight of negatives
PosW(cl, w) == Sum([i \in Idx(cl) |-> IF cl[i] THEN w[i] ELSE 0])
NegW(cl, w) == Sum([i \in Idx(cl) |-> IF cl[i] THEN 0 ELSE w[i]])
TprGe(c, y, cl, w) == R(Sum([i \in Idx(y) |-> IF cl[i] /\ RLe(c, RInt(y[i])) THEN w[i] ELSE 0]), PosW(cl, w))
FprGe(c, y, cl, w) == R(Sum([i \in Idx(y) |-> IF ~cl[i] /\ RLe(c, RInt(y[i])) THEN w[i] ELSE 0]), NegW(cl, w))
\* the other reading of the doc comment: y_i > c is classified positive
TprGt(c, y, cl, w) == R(Sum([i \in Idx(y) |-> IF cl[i] /\ RLt(c, RInt(y[i])) THEN w[i] ELSE 0]), PosW(cl, w))
FprGt(c, y, cl, w) == R(Sum([i \in Idx(y) |-> IF ~cl[i] /\ RLt(c, RInt(y[i])) THEN w[i] ELSE 0]), NegW(cl, w))

\* TOC over ranks i = 0..n: the top i entries (highest y, i.e. the last i of the
\* sorted sample) are assigned class true.
TopW(w, i) == Sum([j \in Idx(w) |-> IF j > Len(w) - i THEN w[j] ELSE 0])
TocNtp(cl, w, i) == Sum([j \in Idx(w) |-> IF j > Len(w) - i /\ cl[j] THEN w[j] ELSE 0])
TocMax(cl, w, i) == Min2(PosW(cl, w), TopW(w, i))
TocMin(cl, w, i) == Max2(0, PosW(cl, w) - (WSum(w) - TopW(w, i)))

(******************************* chi square *********************************)
\* sum_i (obs_i - exp_i)^2 / exp_i, terms with obs_i = exp_i = 0 skipped
RECURSIVE RSumTo(_, _)
RSumTo(f, n) == IF n = 0 THEN <<0, 1>> ELSE RAdd(f[n], RSumTo(f, n - 1))
ChiSquare(ob, ex) == RSumTo([i \in Idx(ob) |-> IF ob[i] = 0 /\ ex[i] = 0 THEN <<0, 1>>
                                             ELSE R((ob[i] - ex[i]) * (ob[i] - ex[i]), ex[i])], Len(ob))

(************************ regression and correlation ************************)
\* Correlation = sum_i w_i (x_i - mx)(y_i - my) / sqrt(sum_i w_i (x_i - mx)^2 * sum_i w_i (y_i - my)^2);
\* stated through its sign and its square  r^2 = Nxy^2 / (Nxx Nyy)   (domain: Nxx, Nyy > 0)
CorrSign(x, y, w) == Sgn(CrossN(x, y, w, 1, 1))
CorrSqFactors(x, y, w) == LET nxy == Abs(CrossN(x, y, w, 1, 1)) IN
                          <<R(nxy, CentralN(x, w, 2)), R(nxy, CentralN(y, w, 2))>>
\* least squares line y = alpha + beta x, minimising sum_i w_i (y_i - alpha - beta x_i)^2:
\*   beta = cov(x, y) / var(x),  alpha = my - beta mx           (domain: Nxx > 0)
RegBeta(x, y, w) == R(CrossN(x, y, w, 1, 1), CentralN(x, w, 2))
RegAlpha(x, y, w) == RSub(Mean(y, w), RMul(RegBeta(x, y, w), Mean(x, w)))
\* through the origin: beta = sum w x y / sum w x^2            (domain: sum w x^2 > 0)
RegBetaOrigin(x, y, w) == R(Sum([i \in Idx(x) |-> w[i] * x[i] * y[i]]), Sum([i \in Idx(x) |-> w[i] * x[i] * x[i]]))
\* the weighted residual sum of squares of a line with rational coefficients
Rss(x, y, w, a, b) == RSumTo([i \in Idx(x) |->
                         LET e == RSub(RInt(y[i]), RAdd(a, RMul(b, RInt(x[i])))) IN RMul(RInt(w[i]), RMul(e, e))], Len(x))
\* R^2 = 1 - sum w (y - a - b x)^2 / sum w (y - my)^2   for integer a, b   (domain: Nyy > 0)
RSquared(x, y, w, a, b) == LET W == WSum(w) IN
    RSub(<<1, 1>>, R(Sum([i \in Idx(x) |-> w[i] * Pow(y[i] - a - b * x[i], 2)]) * W * W, CentralN(y, w, 2)))
\* R0^2 = sum w (b x)^2 / sum w y^2                              (domain: sum w y^2 > 0)
RNoughtSquared(x, y, w, b) == R(Sum([i \in Idx(x) |-> w[i] * b * b * x[i] * x[i]]), Sum([i \in Idx(x) |-> w[i] * y[i] * y[i]]))
\* Kendall tau-a over pairs i < j weighted by w_i w_j, stated only for samples without
\* ties (the documentation does not say how ties are counted)
NoTies(x) == \A i, j \in Idx(x) : i # j => x[i] # x[j]
PairSum(x, F(_, _)) == Sum([i \in Idx(x) |-> Sum([j \in Idx(x) |-> IF i < j THEN F(i, j) ELSE 0])])
Kendall(x, y, w) == LET num(i, j) == w[i] * w[j] * Sgn(x[j] - x[i]) * Sgn(y[j] - y[i])
                        den(i, j) == w[i] * w[j]
                    IN R(PairSum(x, num), PairSum(x, den))

(********************************* sorting **********************************)
\* the sorted rearrangement of a sequence (the unique non-decreasing sequence
\* with the same number of occurrences of every value)
Occ(s, v) == Cardinality({i \in Idx(s) : s[i] = v})
SortedOf(s) == CHOOSE t \in [Idx(s) -> Rng(s)] : IsSorted(t) /\ \A v \in Rng(s) : Occ(t, v) = Occ(s, v)

(***************************** sequence helpers *****************************)
\* replication of a weighted sample: x_i repeated w_i times
RECURSIVE Repl(_, _, _)
Repl(x, w, i) == IF i > Len(x) THEN <<>>
                 ELSE [j \in 1 .. w[i] |-> x[i]] \o Repl(x, w, i + 1)
Replicate(x, w) == Repl(x, w, 1)
Permute(s, pi) == [i \in Idx(s) |-> s[pi[i]]]
Perms(n) == {f \in [1 .. n -> 1 .. n] : \A i, j \in 1 .. n : i # j => f[i] # f[j]}
Affine(a, b, x) == [i \in Idx(x) |-> a * x[i] + b]
=============================================================================
