SPECIFICATION AffSpec
CONSTANTS
  Family = "@FAMILY@"
  AlphaEnc = @ALPHA@
  Off = @OFF@
  MinN = @MINN@
  MaxN = @MAXN@
  WVals = @WVALS@
  PGrid = @PGRID@
  Shard = @SHARD@
  NShards = @NSHARDS@
INVARIANTS AffEmit
CHECK_DEADLOCK FALSE
