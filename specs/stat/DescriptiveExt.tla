---------------------------- MODULE DescriptiveExt ----------------------------
(* Defining formulas of the remaining scalar statistics of gonum's package    *)
(* stat, on the exact domains where their value is a rational number, a       *)
(* rational multiple of ln 2, a rational multiple of pi, or the square root   *)
(* of a rational:                                                             *)
(*   HarmonicMean, GeometricMean, StdErr, StdScore,                           *)
(*   Entropy, CrossEntropy, KullbackLeibler, JensenShannon, Hellinger,        *)
(*   Bhattacharyya, CircularMean,                                             *)
(* and the argument contract of the package (which slice lengths must agree,  *)
(* which inputs must be sorted, which scalars are restricted).                *)
(*                                                                            *)
(* Samples here are sequences of RATIONALS <<n, d>> (Descriptive.tla uses     *)
(* integers) so that dyadic data such as 1/2, 1/8 can be stated.              *)
(*                                                                            *)
(* Logarithms.  TLA+ has no reals.  The only logarithms stated are those of   *)
(* powers of two: Lg(2^k) = k ("bits"), and a quantity measured in nats is    *)
(* stated as  bits * ln 2  with the unit "ln2" left symbolic; the harness     *)
(* multiplies by the one constant math.Ln2.  Every definition below carries   *)
(* its exact domain (Has...): outside it the value is not a rational number   *)
(* of bits and nothing is stated.                                             *)
EXTENDS Descriptive

(***************************** rational helpers ******************************)
RECURSIVE RPow(_, _)
RPow(p, k) == IF k = 0 THEN <<1, 1>> ELSE RMul(p, RPow(p, k - 1))
RSumSeq(f) == RSumTo(f, Len(f))
RZero == <<0, 1>>
ROne == <<1, 1>>
RHalf == <<1, 2>>
RSeqMin(x) == LET RECURSIVE mn(_)
                  mn(i) == IF i = 1 THEN x[1] ELSE LET r == mn(i - 1) IN IF RLe(x[i], r) THEN x[i] ELSE r
              IN mn(Len(x))
RSeqMax(x) == LET RECURSIVE mx(_)
                  mx(i) == IF i = 1 THEN x[1] ELSE RMax(x[i], mx(i - 1))
              IN mx(Len(x))
RScale(c, x) == [i \in Idx(x) |-> RMul(c, x[i])]

(****************** HarmonicMean (domain: x_i > 0, w_i > 0) ******************)
\*   sum_i w_i / (sum_i w_i / x_i)
HarmonicMean(x, w) == RDiv(RInt(WSum(w)), RSumSeq([i \in Idx(x) |-> RDiv(RInt(w[i]), x[i])]))

(***************** GeometricMean (domain: x_i > 0, w_i > 0) ******************)
\*   prod_i x_i ^ (w_i / W): the unique positive real g with  g^W = prod_i x_i^(w_i).
\* It is stated as a predicate; g is a rational only when the weighted product is a
\* perfect W-th power (e.g. x_i = 2^(a_i) with W | sum_i w_i a_i).
RECURSIVE WProdTo(_, _, _)
WProdTo(x, w, n) == IF n = 0 THEN ROne ELSE RMul(RPow(x[n], w[n]), WProdTo(x, w, n - 1))
WProd(x, w) == WProdTo(x, w, Len(x))
IsGeometricMean(g, x, w) == g[1] > 0 /\ RPow(g, WSum(w)) = WProd(x, w)

(************************** StdErr and StdScore ******************************)
\*   StdErr(std, n) = std / sqrt(n)   stated through its sign and its square std^2 / n   (n > 0)
StdErrSign(std) == RSgn(std)
StdErrSq(std, n) == RDiv(RMul(std, std), n)
\*   StdScore(x, mean, std) = (x - mean) / std                                          (std # 0)
StdScore(x, mean, std) == RDiv(RSub(x, mean), std)

(****************************** powers of two ********************************)
RECURSIVE IsPow2(_)
IsPow2(n) == n >= 1 /\ (n = 1 \/ (n % 2 = 0 /\ IsPow2(n \div 2)))
RECURSIVE Log2Int(_)
Log2Int(n) == IF n = 1 THEN 0 ELSE 1 + Log2Int(n \div 2)          \* n a power of two
HasLg(p) == p[1] > 0 /\ IsPow2(p[1]) /\ IsPow2(p[2])
Lg(p) == Log2Int(p[1]) - Log2Int(p[2])                             \* log2 of p = 2^k
\* exact square roots of rationals
ISqrtBound == 64
HasISqrt(n) == \E s \in 0 .. ISqrtBound : s * s = n
ISqrt(n) == CHOOSE s \in 0 .. ISqrtBound : s * s = n
HasRSqrt(p) == p[1] >= 0 /\ HasISqrt(p[1]) /\ HasISqrt(p[2])
RSqrt(p) == <<ISqrt(p[1]), ISqrt(p[2])>>

(********* entropies and divergences of probability vectors, in bits *********)
\* A probability vector is a sequence of rationals >= 0 that sums to 1.  By the usual
\* convention (and gonum's comment "Entropy needs 0 * log(0) == 0") a term with p_i = 0
\* contributes nothing.
IsProb(p) == (\A i \in Idx(p) : p[i][1] >= 0) /\ RSumSeq(p) = ROne
Supp(p) == {i \in Idx(p) : p[i][1] # 0}
Term0(p, i, t) == IF p[i][1] = 0 THEN RZero ELSE t

\*   Entropy(p) = - sum_i p_i ln p_i
HasEntropy(p) == \A i \in Supp(p) : HasLg(p[i])
EntropyBits(p) == RNeg(RSumSeq([i \in Idx(p) |-> Term0(p, i, RMul(p[i], RInt(Lg(p[i]))))]))
\*   CrossEntropy(p, q) = - sum_i p_i ln q_i
HasCrossEntropy(p, q) == \A i \in Supp(p) : HasLg(q[i])
CrossEntropyBits(p, q) == RNeg(RSumSeq([i \in Idx(p) |-> Term0(p, i, RMul(p[i], RInt(Lg(q[i]))))]))
\*   KullbackLeibler(p, q) = sum_i p_i ln(p_i / q_i)
HasKL(p, q) == \A i \in Supp(p) : q[i][1] > 0 /\ HasLg(RDiv(p[i], q[i]))
KLBits(p, q) == RSumSeq([i \in Idx(p) |-> Term0(p, i, RMul(p[i], RInt(Lg(RDiv(p[i], q[i])))))])
\*   JensenShannon(p, q) = (KL(p, m) + KL(q, m)) / 2,   m = (p + q) / 2
Mid(p, q) == [i \in Idx(p) |-> RMul(RHalf, RAdd(p[i], q[i]))]
HasJS(p, q) == HasKL(p, Mid(p, q)) /\ HasKL(q, Mid(p, q))
JSBits(p, q) == RMul(RHalf, RAdd(KLBits(p, Mid(p, q)), KLBits(q, Mid(p, q))))
\*   Bhattacharyya coefficient  BC = sum_i sqrt(p_i q_i)
HasBC(p, q) == \A i \in Idx(p) : HasRSqrt(RMul(p[i], q[i]))
BC(p, q) == RSumSeq([i \in Idx(p) |-> RSqrt(RMul(p[i], q[i]))])
\*   Hellinger(p, q) = sqrt(1 - BC)            stated through its square
HellingerSq(p, q) == RSub(ROne, BC(p, q))
\*   Bhattacharyya(p, q) = - ln BC             (+infinity when BC = 0: disjoint supports)
HasBhattBits(p, q) == HasBC(p, q) /\ HasLg(BC(p, q))
BhattBits(p, q) == -Lg(BC(p, q))

(************ CircularMean of angles that are multiples of pi/2 **************)
\*   atan2(sum_i w_i sin a_i, sum_i w_i cos a_i),   a_i = k_i * pi/2  (k_i an integer)
Mod4(k) == ((k % 4) + 4) % 4
CosQ(k) == CASE Mod4(k) = 0 -> 1 [] Mod4(k) = 2 -> -1 [] OTHER -> 0
SinQ(k) == CASE Mod4(k) = 1 -> 1 [] Mod4(k) = 3 -> -1 [] OTHER -> 0
CircS(k, w) == Sum([i \in Idx(k) |-> w[i] * SinQ(k[i])])
CircC(k, w) == Sum([i \in Idx(k) |-> w[i] * CosQ(k[i])])
\* atan2(s, c) in units of pi/4 for the eight principal directions (the only ones where it
\* is a rational multiple of pi for integer s, c); the mean direction of a sample whose
\* resultant vanishes (antipodal cancellation, s = c = 0) is undefined.
HasAtan2Eighths(s, c) == (s # 0 \/ c # 0) /\ (s = 0 \/ c = 0 \/ Abs(s) = Abs(c))
Atan2Eighths(s, c) == CASE s = 0 /\ c > 0 -> 0
                        [] s > 0 /\ c > 0 -> 1
                        [] s > 0 /\ c = 0 -> 2
                        [] s > 0 /\ c < 0 -> 3
                        [] s = 0 /\ c < 0 -> 4          \* pi (the same direction as -pi)
                        [] s < 0 /\ c < 0 -> -3
                        [] s < 0 /\ c = 0 -> -2
                        [] OTHER -> -1                   \* s < 0 /\ c > 0

(***************************** argument contract *****************************)
\* For every function: the number of slice arguments, the set of index pairs whose lengths
\* "must be equal" according to the doc comment, and the indices that may be nil (nil never
\* mismatches).  kind "doc": the requirement is written in the doc comment; kind "implied":
\* the comment is silent, but the formula reads element i of both slices, so a call whose
\* first slice is the longer one (all entries non-zero) cannot be evaluated.
XW == [k |-> 2, eq |-> {<<1, 2>>}, opt |-> {2}, kind |-> "doc"]
XYW == [k |-> 3, eq |-> {<<1, 2>>, <<1, 3>>}, opt |-> {3}, kind |-> "doc"]
PQ == [k |-> 2, eq |-> {<<1, 2>>}, opt |-> {}, kind |-> "doc"]
PQImplied == [k |-> 2, eq |-> {<<1, 2>>}, opt |-> {}, kind |-> "implied"]
Contract ==
    [f \in {"Mean", "Variance", "PopVariance", "MeanVariance", "PopMeanVariance", "Moment", "MomentAbout",
            "Skew", "ExKurtosis", "GeometricMean", "HarmonicMean", "CircularMean", "SortWeighted",
            "Quantile", "CDF", "TOC"} |-> XW]
    @@ [f \in {"Covariance", "Correlation", "Kendall", "LinearRegression", "RSquared", "RSquaredFrom",
               "RNoughtSquared", "BivariateMoment", "SortWeightedLabeled"} |-> XYW]
    @@ [f \in {"Bhattacharyya", "Hellinger", "ChiSquare"} |-> PQ]
    @@ [f \in {"CrossEntropy", "KullbackLeibler", "JensenShannon"} |-> PQImplied]
    @@ [f \in {"Mode"} |-> [k |-> 2, eq |-> {<<1, 2>>}, opt |-> {2}, kind |-> "implied"]]
    \* KolmogorovSmirnov(x, xWeights, y, yWeights); Histogram(count, dividers, x, weights): len(count) =
    \* len(dividers) - 1 is a separate row; ROC(cutoffs, y, classes, weights)
    @@ [f \in {"KolmogorovSmirnov"} |-> [k |-> 4, eq |-> {<<1, 2>>, <<3, 4>>}, opt |-> {2, 4}, kind |-> "doc"]]
    @@ [f \in {"Histogram"} |-> [k |-> 4, eq |-> {<<3, 4>>}, opt |-> {1, 4}, kind |-> "doc"]]
    @@ [f \in {"ROC"} |-> [k |-> 4, eq |-> {<<2, 3>>, <<2, 4>>}, opt |-> {1, 4}, kind |-> "doc"]]
\* lens[i] = -1 stands for a nil slice
LenOk(f, lens) == \A e \in Contract[f].eq : lens[e[1]] = -1 \/ lens[e[2]] = -1 \/ lens[e[1]] = lens[e[2]]
=============================================================================
