---------------------------- MODULE DescriptiveThm ----------------------------
(* R1: the relations that property C10 states between the statistics are      *)
(* theorems of the definitions in Descriptive.tla.  TLC checks them for every *)
(* weighted sample over a 4-value alphabet up to size MaxN (weights in WVals, *)
(* zero included), so the expected values the generator prints - and the      *)
(* real code that reproduces them - inherit these relations:                  *)
(*   integer weights == replication, invariance under a joint permutation of  *)
(*   data and weights, affine equivariance of location / scale / order        *)
(*   statistics, Quantile monotone in p and within the data range,            *)
(*   CDF(Quantile(p)) >= p, histograms conserve the total weight, KS is a     *)
(*   distance in [0, 1], |correlation| <= 1 and the covariance matrix is      *)
(*   symmetric (and PSD for two columns), the regression line satisfies the   *)
(*   normal equations, ROC curves are monotone, TOC lies within its bounds.   *)
(* States: one "shard" state per (size, first element) whose successors are   *)
(* the samples of the shard (so that several TLC workers share the work);     *)
(* every invariant is an implication on the sample kind.                      *)
EXTENDS Descriptive

CONSTANTS AlphaEnc, Off, MaxN, BMaxN, WVals, PGrid   \* BMaxN: largest size of the bivariate samples
VARIABLE c
Vals == {a - Off : a \in AlphaEnc}

SortedSeqs(n) == {s \in [1 .. n -> Vals] : IsSorted(s)}
WSeqs(n) == {w \in [1 .. n -> WVals] : Sum(w) > 0}
UCases(n, a) == {[kind |-> "u", x |-> x, y |-> x, w |-> w] : x \in {s \in SortedSeqs(n) : s[1] = a}, w \in WSeqs(n)}
BCases(n, a) == {[kind |-> "b", x |-> x, y |-> y, w |-> w] : x \in {s \in SortedSeqs(n) : s[1] = a},
                                                             y \in [1 .. n -> Vals], w \in WSeqs(n)}
Init == c \in [kind : {"shard"}, n : 1 .. MaxN, a : Vals]
Next == /\ c.kind = "shard"
        /\ c' \in UCases(c.n, c.a) \cup (IF c.n <= BMaxN THEN BCases(c.n, c.a) ELSE {})
Spec == Init /\ [][Next]_c

IsU == c.kind = "u"
IsB == c.kind = "b"
X == c.x
Y == c.y
V == c.w
N == Len(c.x)
TW == WSum(c.w)
PS == {R(k, PGrid) : k \in 0 .. PGrid}
Probes == {R(q2, 2) : q2 \in 2 * SetMin(Vals) - 3 .. 2 * SetMax(Vals) + 3}
\* consecutive pairs (monotonicity along a chain is monotonicity)
PSNext == {<<R(k, PGrid), R(k + 1, PGrid)>> : k \in 0 .. PGrid - 1}
ProbesNext == {<<R(q2, 2), R(q2 + 1, 2)>> : q2 \in 2 * SetMin(Vals) - 3 .. 2 * SetMax(Vals) + 2}
Divs == UNION {{d \in [1 .. m -> Vals \cup {SetMax(Vals) + 1}] : IsSorted(d)} : m \in 2 .. 3}

(***************** integer weights are equivalent to replication **************)
Replication == IsU =>
    LET rx == Replicate(X, V)  o == Ones(Len(rx)) IN
    /\ Len(rx) = TW
    /\ Mean(X, V) = Mean(rx, o)
    /\ \A k \in 2 .. 4 : Moment(k, X, V) = Moment(k, rx, o)
    /\ MomentAbout(3, X, 1, V) = MomentAbout(3, rx, 1, o)
    /\ (TW > 1 => Variance(X, V) = Variance(rx, o))
    /\ Modes(X, V) = Modes(rx, o) /\ ModeCount(X, V) = ModeCount(rx, o)
    /\ \A q \in Probes : CDF(q, X, V) = CDF(q, rx, o)
    /\ \A p \in PS : (p[1] > 0 \/ V[1] > 0) => QuantileEmp(p, X, V) = QuantileEmp(p, rx, o)
    /\ \A d \in Divs : Histogram(d, X, V) = Histogram(d, rx, o)
ReplicationB == IsB =>
    LET rx == Replicate(X, V)  ry == Replicate(Y, V)  o == Ones(Len(rx)) IN
    /\ (TW > 1 => Covariance(X, Y, V) = Covariance(rx, ry, o))
    /\ BivariateMoment(1, 2, X, Y, V) = BivariateMoment(1, 2, rx, ry, o)
    /\ (CentralN(X, V, 2) > 0 => RegBeta(X, Y, V) = RegBeta(rx, ry, o) /\ RegAlpha(X, Y, V) = RegAlpha(rx, ry, o))
    \* second sample: Y with unit weights
    /\ KS(X, V, Y, Ones(N)) = KS(rx, o, Y, Ones(N))

(********** invariance under a joint permutation of data and weights **********)
PermInvariant == IsU => \A pi \in Perms(N) :
    LET px == Permute(X, pi)  pw == Permute(V, pi) IN
    /\ Mean(px, pw) = Mean(X, V)
    /\ \A k \in 2 .. 4 : Moment(k, px, pw) = Moment(k, X, V)
    /\ MomentAbout(2, px, 1, pw) = MomentAbout(2, X, 1, V)
    /\ (TW > 1 => Variance(px, pw) = Variance(X, V))
    /\ Modes(px, pw) = Modes(X, V) /\ ModeCount(px, pw) = ModeCount(X, V)
PermInvariantB == IsB => \A pi \in Perms(N) :
    LET px == Permute(X, pi)  py == Permute(Y, pi)  pw == Permute(V, pi) IN
    /\ \A r, s \in 1 .. 2 : CrossN(px, py, pw, r, s) = CrossN(X, Y, V, r, s)
    /\ (CentralN(X, V, 2) > 0 => RegBeta(px, py, pw) = RegBeta(X, Y, V) /\ RegAlpha(px, py, pw) = RegAlpha(X, Y, V))
    /\ ((NoTies(X) /\ NoTies(Y) /\ N > 1 /\ \A i \in 1 .. N : V[i] > 0) => Kendall(px, py, pw) = Kendall(X, Y, V))

(**************************** affine equivariance ****************************)
AffineEquivariant == IsU => \A a \in {-1, 2, 3}, b \in {-1, 0, 2} :
    LET ax == Affine(a, b, X)
        Aff(q) == RAdd(RMul(RInt(a), q), RInt(b)) IN
    /\ Mean(ax, V) = Aff(Mean(X, V))
    /\ \A k \in 2 .. 4 : Moment(k, ax, V) = RMul(RInt(Pow(a, k)), Moment(k, X, V))
    /\ (TW > 1 => Variance(ax, V) = RMul(RInt(a * a), Variance(X, V)))
    /\ Modes(ax, V) = {a * m + b : m \in Modes(X, V)}
    /\ (a > 0 => /\ \A p \in PS : /\ QuantileEmp(p, ax, V) = a * QuantileEmp(p, X, V) + b
                                  /\ QuantileLin(p, ax, V) = Aff(QuantileLin(p, X, V))
                 /\ \A q \in Probes : CDF(Aff(q), ax, V) = CDF(q, X, V))
AffineEquivariantB == IsB => \A a \in {-1, 2}, b \in {-1, 2} :
    LET ax == Affine(a, b, X) IN
    /\ (TW > 1 => Covariance(ax, Y, V) = RMul(RInt(a), Covariance(X, Y, V)))
    /\ ((CentralN(X, V, 2) > 0 /\ CentralN(Y, V, 2) > 0) =>
          /\ CorrSign(ax, Y, V) = Sgn(a) * CorrSign(X, Y, V)
          /\ REq(RMul(CorrSqFactors(ax, Y, V)[1], CorrSqFactors(ax, Y, V)[2]),
                 RMul(CorrSqFactors(X, Y, V)[1], CorrSqFactors(X, Y, V)[2])))

(****************************** order statistics *****************************)
QuantileCoherent == IsU =>
    /\ \A p \in PS :
         /\ QuantileEmp(p, X, V) \in Rng(X)
         /\ RLe(p, CDF(RInt(QuantileEmp(p, X, V)), X, V))                   \* CDF(Quantile(p)) >= p
         /\ RLe(RInt(X[1]), QuantileLin(p, X, V)) /\ RLe(QuantileLin(p, X, V), RInt(X[N]))
         /\ RLe(QuantileLin(p, X, V), RInt(QuantileEmp(p, X, V)))           \* the interpolant lies below the step
    /\ \A pq \in PSNext : /\ QuantileEmp(pq[1], X, V) <= QuantileEmp(pq[2], X, V)
                          /\ RLe(QuantileLin(pq[1], X, V), QuantileLin(pq[2], X, V))
    /\ \A pq \in ProbesNext : RLe(CDF(pq[1], X, V), CDF(pq[2], X, V))
    /\ CDF(RInt(X[N]), X, V) = <<1, 1>> /\ CDF(R(2 * X[1] - 1, 2), X, V) = <<0, 1>>
    \* least value whose CDF reaches p: no smaller data value does
    /\ \A p \in PS : \A v \in Rng(X) : v < QuantileEmp(p, X, V) => RLt(CDF(RInt(v), X, V), p)

\* used by DescriptiveTrace.tla to keep numbers small on samples of 200 entries
VarianceIdentity == IsU =>
    LET S == WXSum(X, V) Q == Sum([i \in 1 .. N |-> V[i] * X[i] * X[i]]) IN
    /\ CentralN(X, V, 2) = TW * (TW * Q - S * S)
    /\ PopVariance(X, V) = R(TW * Q - S * S, TW * TW)

HistogramConserves == IsU => \A d \in Divs : HistDomain(d, X) =>
    /\ Sum(Histogram(d, X, V)) = TW
    /\ \A j \in 1 .. Len(d) - 1 : Histogram(d, X, V)[j] >= 0

(************************************ KS *************************************)
KSDistance == IsB =>
    LET sy == SortedOf(Y)  o == Ones(N) IN
    /\ RLe(<<0, 1>>, KS(X, V, sy, o)) /\ RLe(KS(X, V, sy, o), <<1, 1>>)
    /\ KS(X, V, sy, o) = KS(sy, o, X, V)
    /\ KS(X, V, X, V) = <<0, 1>>
    /\ (KS(X, V, sy, o) = <<0, 1>> <=> \A q \in Probes : CDF(q, X, V) = CDF(q, sy, o))

(************************ correlation and regression *************************)
CorrelationBounded == IsB =>
    LET nxy == CrossN(X, Y, V, 1, 1)  nxx == CentralN(X, V, 2)  nyy == CentralN(Y, V, 2) IN
    /\ nxy * nxy <= nxx * nyy                       \* |r| <= 1; the 2x2 covariance matrix is PSD
    /\ nxx >= 0 /\ nyy >= 0
    /\ CrossN(Y, X, V, 1, 1) = nxy                  \* the covariance matrix is symmetric
    /\ (TW > 1 => Covariance(X, X, V) = Variance(X, V))
NormalEquations == IsB =>
    /\ CentralN(X, V, 2) > 0 =>
         LET a == RegAlpha(X, Y, V)  b == RegBeta(X, Y, V)
             e(i) == RSub(RInt(Y[i]), RAdd(a, RMul(b, RInt(X[i])))) IN
         /\ RSumTo([i \in 1 .. N |-> RMul(RInt(V[i]), e(i))], N) = <<0, 1>>
         /\ RSumTo([i \in 1 .. N |-> RMul(RInt(V[i] * X[i]), e(i))], N) = <<0, 1>>
         /\ \A da, db \in {-1, 0, 1} :
               RLe(Rss(X, Y, V, a, b), Rss(X, Y, V, RAdd(a, RInt(da)), RAdd(b, RInt(db))))
    /\ Sum([i \in 1 .. N |-> V[i] * X[i] * X[i]]) > 0 =>
         LET b == RegBetaOrigin(X, Y, V) IN
         RSumTo([i \in 1 .. N |-> RMul(RInt(V[i] * X[i]), RSub(RInt(Y[i]), RMul(b, RInt(X[i]))))], N) = <<0, 1>>

(********************************* ROC / TOC *********************************)
\* classes are read off Y: class true iff y_i is above the middle of the alphabet
RocMonotone == IsB =>
    LET mid == (SetMin(Vals) + SetMax(Vals)) \div 2
        cl == [i \in 1 .. N |-> Y[i] > mid] IN
    /\ (PosW(cl, V) > 0 /\ NegW(cl, V) > 0) =>
         \A pq \in ProbesNext : LET p == pq[1] q == pq[2] IN
             /\ RLe(TprGe(q, X, cl, V), TprGe(p, X, cl, V)) /\ RLe(FprGe(q, X, cl, V), FprGe(p, X, cl, V))
             /\ RLe(TprGt(q, X, cl, V), TprGe(q, X, cl, V))
             /\ RLe(<<0, 1>>, TprGe(p, X, cl, V)) /\ RLe(TprGe(p, X, cl, V), <<1, 1>>)
    /\ \A i \in 0 .. N : TocMin(cl, V, i) <= TocNtp(cl, V, i) /\ TocNtp(cl, V, i) <= TocMax(cl, V, i)
    /\ TocNtp(cl, V, 0) = 0 /\ TocNtp(cl, V, N) = PosW(cl, V)
    /\ \A i \in 1 .. N : TocNtp(cl, V, i - 1) <= TocNtp(cl, V, i)
=============================================================================
