------------------------------- MODULE LpDefs -------------------------------
(* Exact reference semantics of linear programming over small integer data   *)
(* (property C19, LP clause).  Nothing here is floating point: determinants  *)
(* are integers (cofactor expansion), basic solutions, costs, reduced costs  *)
(* and edge directions are Cramer quotients whose SIGNS and RATIOS are       *)
(* decided in integer arithmetic.  The module shares no code and no          *)
(* algorithm with gonum's simplex: a program is classified by enumerating    *)
(* ALL bases, not by pivoting.                                               *)
(*                                                                           *)
(* Standard form:   minimise c.x   subject to   A x = b,  x >= 0             *)
(*   A : sequence of m rows, each a sequence of n integers; b : m integers;  *)
(*   c : n integers.  A basis is a strictly increasing sequence of m column  *)
(*   indices (1-based).                                                      *)
EXTENDS Integers, Sequences, FiniteSets

Abs(a) == IF a < 0 THEN -a ELSE a
Sign(a) == IF a < 0 THEN -1 ELSE IF a > 0 THEN 1 ELSE 0

RECURSIVE GCDn(_, _)
GCDn(a, b) == IF b = 0 THEN a ELSE GCDn(b, a % b)       \* a, b >= 0
GCD(a, b) == GCDn(Abs(a), Abs(b))

\* sum of f[1..k]
RECURSIVE SumTo(_, _)
SumTo(f, k) == IF k = 0 THEN 0 ELSE f[k] + SumTo(f, k - 1)

\* <<F(1), ..., F(k)>> as an explicit tuple (TLC evaluates it once; a function constructor
\* [i \in 1..k |-> F(i)] would be re-evaluated at every application)
RECURSIVE Tuple(_, _)
Tuple(F(_), k) == IF k = 0 THEN <<>> ELSE Append(Tuple(F, k - 1), F(k))

(****************************** determinants *******************************)
\* Mx: square matrix as a sequence of rows.  Laplace expansion along row 1.
Minor1(Mx, j) == LET row(i) == LET e(k) == Mx[i + 1][IF k < j THEN k ELSE k + 1] IN Tuple(e, Len(Mx) - 1)
                 IN Tuple(row, Len(Mx) - 1)
RECURSIVE Det(_)
Det(Mx) ==
    CASE Len(Mx) = 0 -> 1
      [] Len(Mx) = 1 -> Mx[1][1]
      [] Len(Mx) = 2 -> Mx[1][1] * Mx[2][2] - Mx[1][2] * Mx[2][1]
      [] Len(Mx) = 3 -> Mx[1][1] * (Mx[2][2] * Mx[3][3] - Mx[2][3] * Mx[3][2])
                        - Mx[1][2] * (Mx[2][1] * Mx[3][3] - Mx[2][3] * Mx[3][1])
                        + Mx[1][3] * (Mx[2][1] * Mx[3][2] - Mx[2][2] * Mx[3][1])
      [] OTHER -> SumTo([j \in 1 .. Len(Mx) |->
                           (IF j % 2 = 1 THEN 1 ELSE -1) * Mx[1][j] * Det(Minor1(Mx, j))], Len(Mx))

\* columns B (sequence of column indices) of the m x n matrix A, as an m x |B| matrix
ColsOf(A, B) == LET row(i) == LET e(k) == A[i][B[k]] IN Tuple(e, Len(B)) IN Tuple(row, Len(A))
\* column j of A as a vector
ColOf(A, j) == LET e(i) == A[i][j] IN Tuple(e, Len(A))
\* Mx with column k replaced by the vector v
ReplaceCol(Mx, k, v) == LET row(i) == LET e(j) == IF j = k THEN v[i] ELSE Mx[i][j] IN Tuple(e, Len(Mx[i]))
                        IN Tuple(row, Len(Mx))

\* strictly increasing sequences of length m over 1..n
IncSeqs(n, m) == {s \in [1 .. m -> 1 .. n] : \A i \in 1 .. m - 1 : s[i] < s[i + 1]}
Range(s) == {s[i] : i \in 1 .. Len(s)}

(******************************** rationals ********************************)
\* <<num, den>> with den > 0, lowest terms
Rat(num, den) == LET g == GCD(num, den)
                     s == IF den < 0 THEN -1 ELSE 1
                 IN <<s * (num \div g), s * (den \div g)>>
RLess(p, q) == p[1] * q[2] < q[1] * p[2]
RLeq(p, q) == p[1] * q[2] <= q[1] * p[2]
RMin(S) == CHOOSE p \in S : \A q \in S : RLeq(p, q)

(************************* one basis of one program ************************)
\* Everything the classification needs to know about basis B of program P.
\*   det      determinant of the basis matrix
\*   xs[k]    det * (value of basic variable B[k])            (Cramer)
\*   feas     the basic solution exists and is non-negative
\*   degen    some basic variable is zero
\*   cnum     det * (cost of the basic solution)
\*   optcert  B is primal and dual feasible (all reduced costs >= 0)
\*   ray      B is feasible and some column j has r_j < 0 and B^-1 A_j <= 0
BasisInfo(P, B) ==
    LET m == Len(P.A)
        n == Len(P.c)
        MB == ColsOf(P.A, B)
        d == Det(MB)
        \* Cramer numerators of the solution y of  MB y = v :  d * y[k]
        Cramer(v) == LET num(k) == Det(ReplaceCol(MB, k, v)) IN Tuple(num, m)
        xs == Cramer(P.b)
        feas == d # 0 /\ \A k \in 1 .. m : Sign(xs[k]) * Sign(d) >= 0
        \* per column j:  dn = d * B^-1 A_j,  rn = d * (reduced cost of j)
        column(j) == LET dn == Cramer(ColOf(P.A, j))
                     IN [dn |-> dn, rn |-> P.c[j] * d - SumTo([k \in 1 .. m |-> P.c[B[k]] * dn[k]], m)]
        cols == Tuple(column, n)
        \* reduced costs all >= 0  (the basis is dual feasible)
        dual == d # 0 /\ \A j \in 1 .. n : Sign(cols[j].rn) * Sign(d) >= 0
    IN [B |-> B, det |-> d, xs |-> xs,
        feas |-> feas,
        degen |-> \E k \in 1 .. m : xs[k] = 0,
        cnum |-> SumTo([k \in 1 .. m |-> P.c[B[k]] * xs[k]], m),
        \* primal and dual feasible: an optimality certificate
        optcert |-> feas /\ dual,
        \* an improving unbounded edge leaves this basic feasible solution: r_j < 0 and B^-1 A_j <= 0
        ray |-> feas /\ \E j \in (1 .. n) \ Range(B) :
                    /\ Sign(cols[j].rn) * Sign(d) < 0
                    /\ \A k \in 1 .. m : Sign(cols[j].dn[k]) * Sign(d) <= 0]

\* dual feasibility of an arbitrary (not necessarily primal feasible) basis; used by theorem WeakDuality only
DualFeasible(P, B) ==
    LET m == Len(P.A)
        MB == ColsOf(P.A, B)
        d == Det(MB)
        rn(j) == P.c[j] * d - SumTo([k \in 1 .. m |-> P.c[B[k]] * Det(ReplaceCol(MB, k, ColOf(P.A, j)))], m)
    IN d # 0 /\ \A j \in 1 .. Len(P.c) : Sign(rn(j)) * Sign(d) >= 0

(************************ bounded spaces of integer data *********************)
\* rad: sequence of radices; a case index k is turned into Len(rad) digits, digit i in 0 .. rad[i]-1.
RECURSIVE SpaceSize(_, _)
SpaceSize(rad, i) == IF i > Len(rad) THEN 1 ELSE rad[i] * SpaceSize(rad, i + 1)
\* exhaustive spaces: the mixed-radix digits of k (k in 0 .. SpaceSize-1 covers every digit vector once)
RECURSIVE Digits(_, _, _)
Digits(k, rad, i) == IF i > Len(rad) THEN <<>> ELSE <<k % rad[i]>> \o Digits(k \div rad[i], rad, i + 1)
\* sampled spaces: Lehmer generator x' = 16807 x mod (2^31 - 1), by Schrage's decomposition so that
\* no intermediate leaves the 32-bit range of TLC integers
NextR(x) == LET t == 16807 * (x % 127773) - 2836 * (x \div 127773)
            IN IF t > 0 THEN t ELSE t + 2147483647
RECURSIVE Stream(_, _, _)
Stream(x, rad, i) == IF i > Len(rad) THEN <<>> ELSE <<x % rad[i]>> \o Stream(NextR(x), rad, i + 1)
StreamStart(seed, k) == NextR(NextR(NextR(1 + (seed % 2000) * 1000003 + k)))

(***************************** classification ******************************)
\* inputs the documentation of lp.Simplex excludes
ZeroRow(P) == \E i \in 1 .. Len(P.A) : \A j \in 1 .. Len(P.c) : P.A[i][j] = 0
ZeroCol(P) == \E j \in 1 .. Len(P.c) : \A i \in 1 .. Len(P.A) : P.A[i][j] = 0

\* infos: the set of BasisInfo records of ALL bases of P.
\* The four classes are stated independently of each other (TLC checks that exactly one holds):
IsSingular(infos)   == \A I \in infos : I.det = 0                       \* rank A < m
IsInfeasible(infos) == (\E I \in infos : I.det # 0) /\ (\A I \in infos : ~I.feas)
IsUnbounded(infos)  == \E I \in infos : I.ray                  \* a feasible vertex with an improving ray
IsOptimal(infos)    == \E I \in infos : I.optcert             \* a primal and dual feasible basis

Costs(infos) == {Rat(I.cnum, I.det) : I \in {J \in infos : J.feas}}
\* the true optimum of a program that is not unbounded: the least cost over ALL feasible bases
MinCost(infos) == RMin(Costs(infos))

Class(infos) == IF IsSingular(infos) THEN "singular"
                ELSE IF IsInfeasible(infos) THEN "infeasible"
                ELSE IF IsUnbounded(infos) THEN "unbounded"
                ELSE "optimal"
=============================================================================
