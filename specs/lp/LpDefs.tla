------------------------------- MODULE LpDefs -------------------------------
(* Exact reference semantics of linear programming over small integer data   *)
(* (property C19, LP clause).  Nothing here is floating point: determinants  *)
(* are integers (cofactor expansion), basic solutions, costs, reduced costs  *)
(* and edge directions are Cramer quotients whose SIGNS and RATIOS are       *)
(* decided in integer arithmetic.  The module shares no code and no          *)
(* algorithm with gonum's simplex: a program is classified by enumerating    *)
(* ALL bases, not by pivoting.                                               *)
(*                                                                           *)
(* Standard form:   minimise c.x   subject to   A x = b,  x >= 0             *)
(*   A : sequence of m rows, each a sequence of n integers; b : m integers;  *)
(*   c : n integers.  A basis is a strictly increasing sequence of m column  *)
(*   indices (1-based).                                                      *)
EXTENDS Integers, Sequences, FiniteSets

Abs(a) == IF a < 0 THEN -a ELSE a
Sign(a) == IF a < 0 THEN -1 ELSE IF a > 0 THEN 1 ELSE 0

RECURSIVE GCDn(_, _)
GCDn(a, b) == IF b = 0 THEN a ELSE GCDn(b, a % b)       \* a, b >= 0
GCD(a, b) == GCDn(Abs(a), Abs(b))

\* sum of f[1..k]
RECURSIVE SumTo(_, _)
SumTo(f, k) == IF k = 0 THEN 0 ELSE f[k] + SumTo(f, k - 1)

(****************************** determinants *******************************)
\* Mx: square matrix as a sequence of rows.  Laplace expansion along row 1.
Minor1(Mx, j) == [i \in 1 .. Len(Mx) - 1 |->
                    [k \in 1 .. Len(Mx) - 1 |-> Mx[i + 1][IF k < j THEN k ELSE k + 1]]]
RECURSIVE Det(_)
Det(Mx) ==
    CASE Len(Mx) = 0 -> 1
      [] Len(Mx) = 1 -> Mx[1][1]
      [] Len(Mx) = 2 -> Mx[1][1] * Mx[2][2] - Mx[1][2] * Mx[2][1]
      [] OTHER -> SumTo([j \in 1 .. Len(Mx) |->
                           (IF j % 2 = 1 THEN 1 ELSE -1) * Mx[1][j] * Det(Minor1(Mx, j))], Len(Mx))

\* columns B (sequence of column indices) of the m x n matrix A, as an m x |B| matrix
ColsOf(A, B) == [i \in 1 .. Len(A) |-> [k \in 1 .. Len(B) |-> A[i][B[k]]]]
\* column j of A as a vector
ColOf(A, j) == [i \in 1 .. Len(A) |-> A[i][j]]
\* Mx with column k replaced by the vector v
ReplaceCol(Mx, k, v) == [i \in 1 .. Len(Mx) |-> [j \in 1 .. Len(Mx[i]) |-> IF j = k THEN v[i] ELSE Mx[i][j]]]

\* strictly increasing sequences of length m over 1..n
IncSeqs(n, m) == {s \in [1 .. m -> 1 .. n] : \A i \in 1 .. m - 1 : s[i] < s[i + 1]}
Range(s) == {s[i] : i \in 1 .. Len(s)}

(******************************** rationals ********************************)
\* <<num, den>> with den > 0, lowest terms
Rat(num, den) == LET g == GCD(num, den)
                     s == IF den < 0 THEN -1 ELSE 1
                 IN <<s * (num \div g), s * (den \div g)>>
RLess(p, q) == p[1] * q[2] < q[1] * p[2]
RLeq(p, q) == p[1] * q[2] <= q[1] * p[2]
RMin(S) == CHOOSE p \in S : \A q \in S : RLeq(p, q)

(************************* one basis of one program ************************)
\* Everything the classification needs to know about basis B of program P.
\*   det      determinant of the basis matrix
\*   xs[k]    det * (value of basic variable B[k])            (Cramer)
\*   feas     the basic solution exists and is non-negative
\*   degen    some basic variable is zero
\*   cnum     det * (cost of the basic solution)
\*   rn[j]    det * (reduced cost of column j)   ( = 0 for basic j )
\*   dn[j][k] det * (k-th component of  B^-1 A_j)
BasisInfo(P, B) ==
    LET m == Len(P.A)
        n == Len(P.c)
        MB == ColsOf(P.A, B)
        d == Det(MB)
        xs == [k \in 1 .. m |-> Det(ReplaceCol(MB, k, P.b))]
        dn == [j \in 1 .. n |-> [k \in 1 .. m |-> Det(ReplaceCol(MB, k, ColOf(P.A, j)))]]
        rn == [j \in 1 .. n |-> P.c[j] * d - SumTo([k \in 1 .. m |-> P.c[B[k]] * dn[j][k]], m)]
    IN [B |-> B, det |-> d, xs |-> xs,
        feas |-> d # 0 /\ \A k \in 1 .. m : Sign(xs[k]) * Sign(d) >= 0,
        degen |-> \E k \in 1 .. m : xs[k] = 0,
        cnum |-> SumTo([k \in 1 .. m |-> P.c[B[k]] * xs[k]], m),
        \* reduced costs all >= 0  (the basis is dual feasible)
        dualfeas |-> d # 0 /\ \A j \in 1 .. n : Sign(rn[j]) * Sign(d) >= 0,
        \* an improving unbounded edge leaves this basic solution: r_j < 0 and B^-1 A_j <= 0
        ray |-> d # 0 /\ \E j \in (1 .. n) \ Range(B) :
                    /\ Sign(rn[j]) * Sign(d) < 0
                    /\ \A k \in 1 .. m : Sign(dn[j][k]) * Sign(d) <= 0]

(************************ bounded spaces of integer data *********************)
\* rad: sequence of radices; a case index k is turned into Len(rad) digits, digit i in 0 .. rad[i]-1.
RECURSIVE SpaceSize(_, _)
SpaceSize(rad, i) == IF i > Len(rad) THEN 1 ELSE rad[i] * SpaceSize(rad, i + 1)
\* exhaustive spaces: the mixed-radix digits of k (k in 0 .. SpaceSize-1 covers every digit vector once)
RECURSIVE Digits(_, _, _)
Digits(k, rad, i) == IF i > Len(rad) THEN <<>> ELSE <<k % rad[i]>> \o Digits(k \div rad[i], rad, i + 1)
\* sampled spaces: Lehmer generator x' = 16807 x mod (2^31 - 1), by Schrage's decomposition so that
\* no intermediate leaves the 32-bit range of TLC integers
NextR(x) == LET t == 16807 * (x % 127773) - 2836 * (x \div 127773)
            IN IF t > 0 THEN t ELSE t + 2147483647
RECURSIVE Stream(_, _, _)
Stream(x, rad, i) == IF i > Len(rad) THEN <<>> ELSE <<x % rad[i]>> \o Stream(NextR(x), rad, i + 1)
StreamStart(seed, k) == NextR(NextR(NextR(1 + (seed % 2000) * 1000003 + k)))

(***************************** classification ******************************)
\* inputs the documentation of lp.Simplex excludes
ZeroRow(P) == \E i \in 1 .. Len(P.A) : \A j \in 1 .. Len(P.c) : P.A[i][j] = 0
ZeroCol(P) == \E j \in 1 .. Len(P.c) : \A i \in 1 .. Len(P.A) : P.A[i][j] = 0

\* infos: the set of BasisInfo records of ALL bases of P.
\* The four classes are stated independently of each other (TLC checks that exactly one holds):
IsSingular(infos)   == \A I \in infos : I.det = 0                       \* rank A < m
IsInfeasible(infos) == (\E I \in infos : I.det # 0) /\ (\A I \in infos : ~I.feas)
IsUnbounded(infos)  == \E I \in infos : I.feas /\ I.ray                  \* a feasible vertex with an improving ray
IsOptimal(infos)    == \E I \in infos : I.feas /\ I.dualfeas             \* a primal and dual feasible basis

Costs(infos) == {Rat(I.cnum, I.det) : I \in {J \in infos : J.feas}}
\* the true optimum of a program that is not unbounded: the least cost over ALL feasible bases
MinCost(infos) == RMin(Costs(infos))

Class(infos) == IF IsSingular(infos) THEN "singular"
                ELSE IF IsInfeasible(infos) THEN "infeasible"
                ELSE IF IsUnbounded(infos) THEN "unbounded"
                ELSE "optimal"
=============================================================================
