------------------------------ MODULE LpConvert ------------------------------
(* General-form linear programs                                               *)
(*        minimise c.x   subject to   G x <= h,   A x = b      (x free)       *)
(* with small integer data, classified ON THE GENERAL FORM by enumeration of   *)
(* the vertices of the polyhedron and of the extreme rays of its recession     *)
(* cone (exact integer arithmetic, Cramer / generalised cross product).        *)
(* Only programs whose polyhedron is pointed (rank [G;A] = number of           *)
(* variables) are generated: exactly then "non-empty" means "has a vertex" and *)
(* a finite optimum is attained at a vertex.                                   *)
(*                                                                             *)
(* Theorem checked by TLC on every generated program (ConvertPreserves): the   *)
(* textbook standard form  [G -G I; A -A 0] xt = [h; b], xt >= 0 with cost     *)
(* [c; -c; 0]  has, under the standard-form classification of LpDefs (all      *)
(* bases), the same class and the same optimum as the general form.  The two   *)
(* definitions share only the determinant operator.                            *)
(*                                                                             *)
(* Generator: prints the general-form program with its class and optimum; the  *)
(* harness runs lp.Convert and lp.Simplex on it.                               *)
EXTENDS LpDefs, TLC, Json

CONSTANTS Mode,             \* "exh" | "rnd"
          NV, NI, NE,       \* variables, inequality rows, equality rows
          DNeg, DPos,       \* entries of G, A, c range over -DNeg .. DPos
          HNeg, HPos,       \* entries of h, b
          Count, Seed, Shard, NShards, Emit,
          CheckStd          \* TRUE: also classify the textbook standard form by all its bases and check ConvertPreserves

L == (NI + NE) * NV + NI + NE + NV
NR == NI + NE                          \* all constraint rows: 1..NI inequalities, NI+1..NR equalities
Rad(i) == IF i <= NR * NV THEN DNeg + DPos + 1 ELSE IF i <= NR * NV + NR THEN HNeg + HPos + 1 ELSE DNeg + DPos + 1
Low(i) == IF i <= NR * NV THEN -DNeg ELSE IF i <= NR * NV + NR THEN -HNeg ELSE -DNeg
Radices == [i \in 1 .. L |-> Rad(i)]
ASSUME Mode = "exh" => Count = SpaceSize(Radices, 1)
ASSUME NV >= 1 /\ NI >= 0 /\ NE >= 0 /\ Shard \in 0 .. NShards - 1

\* a program as one table of rows R (first NI inequalities, then NE equalities) with right-hand sides q
Program(k) ==
    LET raw == IF Mode = "exh" THEN Digits(k, Radices, 1) ELSE Stream(StreamStart(Seed, k), Radices, 1)
        v(i) == Low(i) + raw[i]
    IN [R |-> [r \in 1 .. NR |-> [j \in 1 .. NV |-> v((r - 1) * NV + j)]],
        q |-> [r \in 1 .. NR |-> v(NR * NV + r)],
        c |-> [j \in 1 .. NV |-> v(NR * NV + NR + j)]]

Dot(u, w) == SumTo([j \in 1 .. Len(u) |-> u[j] * w[j]], Len(u))
RowsOf(P, S) == LET row(i) == P.R[S[i]] IN Tuple(row, Len(S))

(*************************** general-form semantics ****************************)
\* the polyhedron contains no line
Pointed(P) == \E S \in IncSeqs(NR, NV) : Det(RowsOf(P, S)) # 0
\* the equality rows are linearly independent (lp.Simplex demands full row rank of its input)
EqIndependent(P) == NE = 0 \/ \E T \in IncSeqs(NV, NE) :
                       Det([i \in 1 .. NE |-> [k \in 1 .. NE |-> P.R[NI + i][T[k]]]]) # 0

\* candidate vertex: the unique solution of NV independent constraints taken as equalities.
\*   d = det, xn[j] = d * x_j
Vertex(P, S) ==
    LET MS == RowsOf(P, S)
        d == Det(MS)
        rhs == [i \in 1 .. NV |-> P.q[S[i]]]
        num(j) == Det(ReplaceCol(MS, j, rhs))
        xn == Tuple(num, NV)
        \* sign-normalised: s * xn / |d|
        s == Sign(d)
    IN [d |-> d, xn |-> xn,
        ok |-> /\ d # 0
               /\ \A r \in 1 .. NI : s * Dot(P.R[r], xn) <= P.q[r] * Abs(d)
               /\ \A e \in NI + 1 .. NR : s * Dot(P.R[e], xn) = P.q[e] * Abs(d),
        cnum |-> Dot(P.c, xn)]
Vertices(P) == {V \in {Vertex(P, S) : S \in IncSeqs(NR, NV)} : V.ok}

\* generalised cross product of NV-1 rows: a vector orthogonal to all of them (zero iff they are dependent)
Cross(rows) == [j \in 1 .. NV |->
                  (IF j % 2 = 1 THEN 1 ELSE -1) *
                  Det([i \in 1 .. NV - 1 |-> [k \in 1 .. NV - 1 |-> rows[i][IF k < j THEN k ELSE k + 1]]])]
InCone(P, w) == /\ \A r \in 1 .. NI : Dot(P.R[r], w) <= 0
                /\ \A e \in NI + 1 .. NR : Dot(P.R[e], w) = 0
\* an extreme ray of the recession cone along which the cost decreases
ImprovingRay(P) ==
    \E T \in IncSeqs(NR, NV - 1) :
        LET w == Cross(RowsOf(P, T)) IN
        \E sg \in {-1, 1} :
            LET ws == [j \in 1 .. NV |-> sg * w[j]] IN
            InCone(P, ws) /\ Dot(P.c, ws) < 0

GenClass(P) == LET VS == Vertices(P) IN
               IF VS = {} THEN "infeasible"
               ELSE IF ImprovingRay(P) THEN "unbounded"
               ELSE "optimal"
GenValue(P) == RMin({Rat(V.cnum, V.d) : V \in Vertices(P)})

(*************************** the textbook standard form ************************)
StdOf(P) ==
    LET n == 2 * NV + NI IN
    [A |-> [r \in 1 .. NR |-> [j \in 1 .. n |->
                IF j <= NV THEN P.R[r][j]
                ELSE IF j <= 2 * NV THEN -P.R[r][j - NV]
                ELSE IF j - 2 * NV = r THEN 1 ELSE 0]],
     b |-> P.q,
     c |-> [j \in 1 .. n |-> IF j <= NV THEN P.c[j] ELSE IF j <= 2 * NV THEN -P.c[j - NV] ELSE 0]]
StdBases == IncSeqs(2 * NV + NI, NR)

Analyse(k, P) ==
    LET cls == GenClass(P)
        val == IF cls = "optimal" THEN GenValue(P) ELSE <<0, 1>>
        Q == StdOf(P)
        infos == IF CheckStd THEN {BasisInfo(Q, B) : B \in StdBases} ELSE {}
        scls == IF CheckStd THEN Class(infos) ELSE "unchecked"
        sval == IF scls = "optimal" THEN MinCost(infos) ELSE <<0, 1>>
        feas == {I \in infos : I.feas}
    IN [form |-> "gen", id |-> k, m |-> NR, n |-> NV,
        G |-> [r \in 1 .. NI |-> P.R[r]], h |-> [r \in 1 .. NI |-> P.q[r]],
        A |-> [r \in 1 .. NE |-> P.R[NI + r]], b |-> [r \in 1 .. NE |-> P.q[NI + r]],
        c |-> P.c,
        cls |-> cls, num |-> val[1], den |-> val[2],
        excl |-> ~EqIndependent(P),               \* the converted program violates Simplex's rank requirement
        nvert |-> Cardinality({[j \in 1 .. NV |-> Rat(V.xn[j], V.d)] : V \in Vertices(P)}),   \* distinct points
        \* facts about the converted standard form (counts for the evidence, degeneracy for signatures)
        ncost |-> Cardinality({Rat(V.cnum, V.d) : V \in Vertices(P)}),   \* distinct vertex costs
        \* degeneracy of the CONVERTED program (it has basic solutions with xp_k = xn_k = 0 that are not
        \* vertices of the general form, so this is a fact about the standard form); unknown => TRUE
        degen |-> IF CheckStd THEN \E I \in feas : I.degen ELSE TRUE,
        std |-> [cls |-> scls, val |-> sval, nfb |-> Cardinality(feas), degen |-> \E I \in feas : I.degen]]

Indices == {Shard + NShards * t : t \in 0 .. ((Count - 1 - Shard) \div NShards)}

VARIABLE st
Init == \E k \in Indices : LET P == Program(k) IN Pointed(P) /\ st = Analyse(k, P)
Next == UNCHANGED st
Spec == Init /\ [][Next]_st

(********************************* theorems ************************************)
\* conversion to standard form preserves class and optimum; dependent equality rows show as "singular"
ConvertPreserves ==
    IF ~CheckStd THEN TRUE
    ELSE IF st.excl THEN st.std.cls = "singular"
    ELSE /\ st.std.cls = st.cls /\ st.std.val = <<st.num, st.den>>
         /\ st.std.nfb >= st.nvert                  \* every vertex is represented by a basic solution
Shape == st.den > 0 /\ ((st.cls = "infeasible") = (st.nvert = 0))

Out == [form |-> st.form, id |-> st.id, m |-> st.m, n |-> st.n, G |-> st.G, h |-> st.h, A |-> st.A, b |-> st.b,
        c |-> st.c, cls |-> st.cls, excl |-> st.excl, num |-> st.num, den |-> st.den, nfb |-> st.nvert,
        ncost |-> st.ncost, degen |-> st.degen, fb |-> <<>>, ob |-> <<>>]
EmitCase == IF Emit THEN PrintT(ToJson(Out)) ELSE TRUE
=============================================================================
