SPECIFICATION Spec
CONSTANTS
  Mode = "@MODE@"
  NV = @NV@
  NI = @NI@
  NE = @NE@
  DNeg = @DNEG@
  DPos = @DPOS@
  HNeg = @HNEG@
  HPos = @HPOS@
  Count = @COUNT@
  Seed = @SEED@
  Shard = @SHARD@
  NShards = @NSHARDS@
  Emit = @EMIT@
  CheckStd = @CHECKSTD@
INVARIANTS ConvertPreserves Shape EmitCase
CHECK_DEADLOCK FALSE
