---------------------------------- MODULE Lp ----------------------------------
(* Standard-form linear programs with small integer data: bounded generator,  *)
(* exact classification by enumeration of ALL bases (LpDefs), and the         *)
(* theorems TLC checks about the classification itself.                       *)
(*                                                                            *)
(* R1 (theorems, checked on every generated program):                         *)
(*   Exclusive    exactly one of singular / infeasible / unbounded / optimal  *)
(*                holds, the four being stated independently (rank, existence *)
(*                of a feasible basis, a feasible basis with an improving     *)
(*                ray, a primal-and-dual feasible basis) - the fundamental    *)
(*                theorem of LP on the bounded space;                         *)
(*   CertValue    every primal-and-dual feasible basis has the least cost     *)
(*                over all feasible bases (so "optimal value" is well         *)
(*                defined by either characterisation);                        *)
(*   WeakDuality  a dual feasible basis (feasible or not) excludes            *)
(*                unboundedness;                                              *)
(*   Invariance   (cfg Lp_inv) class and optimum are invariant under every    *)
(*                column permutation, positive row scaling, row negation      *)
(*                and row order.                                              *)
(* R2 (generator): one JSON line per program with the class, the exact        *)
(*   rational optimum and every feasible basis (0-based, usable as            *)
(*   initialBasic of lp.Simplex).                                             *)
EXTENDS LpDefs, TLC, Json

CONSTANTS Mode,            \* "exh": every program of the bounded space; "rnd": Count pseudo-random ones;
                           \* "slack": pseudo-random [R | I] x = b with cost [cR | 0] (what Convert produces from
                           \* R x <= b, x >= 0; with b >= 0 the slack basis is feasible); "named": classics
          M, N,            \* rows, columns  (M <= N)
          ANeg, APos,      \* entries of A range over -ANeg .. APos
          BNeg, BPos,      \* entries of b
          CNeg, CPos,      \* entries of c
          Count,           \* number of programs in the space (exh: must equal the size of the space)
          Seed,            \* rnd: stream selector
          Shard, NShards,  \* this run handles indices k with k % NShards = Shard
          Emit             \* TRUE: print the cases

L == M * N + M + N
Rad(i) == IF i <= M * N THEN ANeg + APos + 1 ELSE IF i <= M * N + M THEN BNeg + BPos + 1 ELSE CNeg + CPos + 1
Low(i) == IF i <= M * N THEN -ANeg ELSE IF i <= M * N + M THEN -BNeg ELSE -CNeg

ASSUME M >= 1 /\ N >= M /\ Shard \in 0 .. NShards - 1

\* index -> raw digits: LpDefs!Digits (exhaustive, mixed radix) or LpDefs!Stream (pseudo-random)
Radices == [i \in 1 .. L |-> Rad(i)]
Start(k) == StreamStart(Seed, k)
ASSUME Mode = "exh" => Count = SpaceSize(Radices, 1)

(******************************* named classics ********************************)
\* Degenerate programs on which textbook pivoting rules cycle.  Rows are scaled to integers (the slack of a
\* scaled row is rescaled with it, so the slack columns stay unit vectors); slack columns last.  The spec
\* computes their optimum like that of any other program; nothing about them is assumed.
\*  1 Chvatal (1983):  max 10x1-57x2-9x3-24x4 ; .5x1-5.5x2-2.5x3+9x4 <= 0 ; .5x1-1.5x2-.5x3+x4 <= 0 ; x1 <= 1
\*  2 Beale (1955):    min -3/4x1+20x2-1/2x3+6x4 ; 1/4x1-8x2-x3+9x4 <= 0 ; 1/2x1-12x2-1/2x3+3x4 <= 0 ; x3 <= 1
\*  3 Kuhn:            min -2x1-3x2+x3+12x4 ; -2x1-9x2+x3+9x4 <= 0 ; 1/3x1+x2-1/3x3-2x4 <= 0 ; 2x1+3x2-x3-12x4 <= 2
Named == <<
   [A |-> << <<1, -11, -5, 18, 1, 0, 0>>, <<1, -3, -1, 2, 0, 1, 0>>, <<1, 0, 0, 0, 0, 0, 1>> >>,
    b |-> <<0, 0, 1>>, c |-> <<-10, 57, 9, 24, 0, 0, 0>>],
   \* Beale: rows 1, 2 multiplied by 4 and 2, cost multiplied by 4
   [A |-> << <<1, -32, -4, 36, 1, 0, 0>>, <<1, -24, -1, 6, 0, 1, 0>>, <<0, 0, 1, 0, 0, 0, 1>> >>,
    b |-> <<0, 0, 1>>, c |-> <<-3, 80, -2, 24, 0, 0, 0>>],
   \* Kuhn: row 2 multiplied by 3
   [A |-> << <<-2, -9, 1, 9, 1, 0, 0>>, <<1, 3, -1, -6, 0, 1, 0>>, <<2, 3, -1, -12, 0, 0, 1>> >>,
    b |-> <<0, 0, 2>>, c |-> <<-2, -3, 1, 12, 0, 0, 0>>]
   >>
\* all orders of the four structural columns of a named program (slack columns stay last)
Perms4 == {p \in [1 .. 4 -> 1 .. 4] : \A i, j \in 1 .. 4 : i # j => p[i] # p[j]}
\* lay = 1: slack columns last (as written above); lay = 2: slack columns first
NamedProgram(q, p, lay) ==
    LET P == Named[q]
        col(j) == IF lay = 1 THEN (IF j <= 4 THEN p[j] ELSE j) ELSE (IF j <= 3 THEN j + 4 ELSE p[j - 3])
    IN [A |-> [i \in 1 .. 3 |-> [j \in 1 .. 7 |-> P.A[i][col(j)]]], b |-> P.b,
        c |-> [j \in 1 .. 7 |-> P.c[col(j)]]]
ASSUME Mode = "named" => (M = 3 /\ N = 7 /\ Count = 48 * Len(Named))

(********************************* programs ************************************)
Program(k) ==
    LET raw == IF Mode = "exh" THEN Digits(k, Radices, 1) ELSE Stream(Start(k), Radices, 1)
        v(i) == Low(i) + raw[i]
        slack(j) == Mode = "slack" /\ j > N - M
    IN [A |-> [i \in 1 .. M |-> [j \in 1 .. N |-> IF slack(j) THEN (IF j - (N - M) = i THEN 1 ELSE 0)
                                                   ELSE v((i - 1) * N + j)]],
        b |-> [i \in 1 .. M |-> v(M * N + i)],
        c |-> [j \in 1 .. N |-> IF slack(j) THEN 0 ELSE v(M * N + M + j)]]

Bases == IncSeqs(N, M)

Zero(B) == [k \in 1 .. Len(B) |-> B[k] - 1]      \* 0-based column indices for the harness

Analyse(k, P) ==
    LET infos == {BasisInfo(P, B) : B \in Bases}
        feas == {I \in infos : I.feas}
        cls == Class(infos)
        val == IF cls = "optimal" THEN MinCost(infos) ELSE <<0, 1>>
    IN [id |-> k, m |-> M, n |-> N, A |-> P.A, b |-> P.b, c |-> P.c,
        cls |-> cls,
        excl |-> ZeroRow(P) \/ ZeroCol(P),       \* input excluded by the documentation of lp.Simplex
        num |-> val[1], den |-> val[2],
        fb |-> {Zero(I.B) : I \in feas},          \* all feasible bases
        ob |-> {Zero(I.B) : I \in {J \in feas : J.optcert}},   \* the optimal ones among them
        nfb |-> Cardinality(feas),
        ncost |-> Cardinality(Costs(infos)),      \* distinct vertex costs
        degen |-> \E I \in feas : I.degen,
        \* for the theorems only (not used by the harness)
        th |-> [sing |-> IsSingular(infos), infeas |-> IsInfeasible(infos),
                unb |-> IsUnbounded(infos), opt |-> IsOptimal(infos),
                certcosts |-> {Rat(I.cnum, I.det) : I \in {J \in feas : J.optcert}},
                anydual |-> \E B \in Bases : DualFeasible(P, B)]]

Indices == {Shard + NShards * t : t \in 0 .. ((Count - 1 - Shard) \div NShards)}

VARIABLE st
Init == IF Mode = "named"
        THEN \E q \in 1 .. Len(Named), p \in Perms4, lay \in 1 .. 2 :
                st = Analyse(lay * 100000 + q * 10000 + p[1] * 1000 + p[2] * 100 + p[3] * 10 + p[4], NamedProgram(q, p, lay))
        ELSE \E k \in Indices : st = Analyse(k, Program(k))
Next == UNCHANGED st
Spec == Init /\ [][Next]_st

(***************************** theorems (R1) ***********************************)
B2N(x) == IF x THEN 1 ELSE 0
Exclusive == B2N(st.th.sing) + B2N(st.th.infeas) + B2N(st.th.unb) + B2N(st.th.opt) = 1
ClassAgrees == /\ (st.cls = "singular") = st.th.sing
               /\ (st.cls = "infeasible") = st.th.infeas
               /\ (st.cls = "unbounded") = st.th.unb
               /\ (st.cls = "optimal") = st.th.opt
CertValue == st.th.opt => st.th.certcosts = {<<st.num, st.den>>}
WeakDuality == st.th.anydual => ~st.th.unb
Shape == /\ st.den > 0
         /\ (st.cls = "optimal") => (st.nfb >= 1 /\ st.ob # {})
         /\ (st.cls \in {"singular", "infeasible"}) => st.nfb = 0

\* --- invariance of the answer under re-presentation of the same program ---
Summary(P) == LET infos == {BasisInfo(P, B) : B \in Bases}
                  cls == Class(infos)
              IN <<cls, IF cls = "optimal" THEN MinCost(infos) ELSE <<0, 1>>>>
ColPerms == {p \in [1 .. N -> 1 .. N] : \A i, j \in 1 .. N : i # j => p[i] # p[j]}
RowPerms == {p \in [1 .. M -> 1 .. M] : \A i, j \in 1 .. M : i # j => p[i] # p[j]}
PermCols(P, p) == [A |-> [i \in 1 .. M |-> [j \in 1 .. N |-> P.A[i][p[j]]]], b |-> P.b, c |-> [j \in 1 .. N |-> P.c[p[j]]]]
PermRows(P, p) == [A |-> [i \in 1 .. M |-> P.A[p[i]]], b |-> [i \in 1 .. M |-> P.b[p[i]]], c |-> P.c]
ScaleRow(P, r, f) == [A |-> [i \in 1 .. M |-> [j \in 1 .. N |-> IF i = r THEN f * P.A[i][j] ELSE P.A[i][j]]],
                      b |-> [i \in 1 .. M |-> IF i = r THEN f * P.b[i] ELSE P.b[i]], c |-> P.c]
Invariance ==
    LET P == [A |-> st.A, b |-> st.b, c |-> st.c]
        s == <<st.cls, <<st.num, st.den>>>>
    IN /\ \A p \in ColPerms : Summary(PermCols(P, p)) = s
       /\ \A p \in RowPerms : Summary(PermRows(P, p)) = s
       /\ \A r \in 1 .. M : \A f \in {-1, 2, 3} : Summary(ScaleRow(P, r, f)) = s

(******************************* generator (R2) ********************************)
Out == [id |-> st.id, m |-> st.m, n |-> st.n, A |-> st.A, b |-> st.b, c |-> st.c, cls |-> st.cls,
        excl |-> st.excl, num |-> st.num, den |-> st.den, fb |-> st.fb, ob |-> st.ob, nfb |-> st.nfb,
        ncost |-> st.ncost, degen |-> st.degen]
EmitCase == IF Emit THEN PrintT(ToJson(Out)) ELSE TRUE
=============================================================================
