SPECIFICATION Spec
CONSTANTS
  Mode = "@MODE@"
  M = @M@
  N = @N@
  ANeg = @ANEG@
  APos = @APOS@
  BNeg = @BNEG@
  BPos = @BPOS@
  CNeg = @CNEG@
  CPos = @CPOS@
  Count = @COUNT@
  Seed = @SEED@
  Shard = @SHARD@
  NShards = @NSHARDS@
  Emit = @EMIT@
INVARIANTS Exclusive ClassAgrees CertValue WeakDuality Shape @EXTRA@ EmitCase
CHECK_DEADLOCK FALSE
