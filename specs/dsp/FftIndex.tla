------------------------------ MODULE FftIndex ------------------------------
(* Index helpers of gonum's dsp/fourier as integer functions.                 *)
(*                                                                            *)
(* Frequencies.  Coefficient j of a length-n complex transform belongs to     *)
(* the frequency j/n cycles per sample, where j is only defined modulo n; the *)
(* "relative frequency centre" is its representative of least magnitude:      *)
(* SF(n,j)/n with SF in -n/2 .. n/2.  For even n the Nyquist coefficient      *)
(* j = n/2 has two representatives of equal magnitude, +1/2 and -1/2; the     *)
(* documentation does not choose, so both conventions are legal - but one     *)
(* convention must be used by Freq, ShiftIdx and UnshiftIdx together:         *)
(*   conv "neg":  Nyquist is -1/2 and comes first in the centred order        *)
(*   conv "pos":  Nyquist is +1/2 and comes last                              *)
(* ShiftIdx(i) is defined abstractly: the index of the coefficient of rank i  *)
(* when coefficients are ordered by their signed frequency ("zero frequency   *)
(* at the centre"), UnshiftIdx is its inverse.  The closed forms (rotations)  *)
(* are theorems checked by TLC against that definition.  For the real FFT     *)
(* Freq(i) = i/n.  All three panic exactly for i outside 0..n-1.              *)
(*                                                                            *)
(* Pad / Trim.  PadRadix2/4 extend to the least power of 2 (4) that is >= the *)
(* length with zeros (returning the argument itself when nothing is added);   *)
(* TrimRadix2/4 split at the greatest power of 2 (4) that is <= the length.   *)
EXTENDS Integers, Sequences, FiniteSets, TLC, Json

CONSTANTS NLo, NHi,  \* lengths generated
          RankMax,   \* the rank definition is evaluated for n <= RankMax (O(n^2)), closed forms beyond
          Emit

VARIABLE c
vars == <<c>>

Convs(n) == IF n % 2 = 0 THEN {"neg", "pos"} ELSE {"neg"}
\* numerator of the signed relative frequency of coefficient j
SF(n, j, conv) == IF 2 * j < n THEN j
                  ELSE IF 2 * j = n THEN (IF conv = "neg" THEN -j ELSE j)
                  ELSE j - n
\* definition: the coefficient index whose signed frequency has rank i
Rank(n, j, conv) == Cardinality({k \in 0 .. n - 1 : SF(n, k, conv) < SF(n, j, conv)})
ShiftDef(n, i, conv) == CHOOSE j \in 0 .. n - 1 : Rank(n, j, conv) = i
UnshiftDef(n, j, conv) == Rank(n, j, conv)
\* closed forms: rotation by the number of negative frequencies
Neg(n, conv) == IF n % 2 = 0 /\ conv = "pos" THEN n \div 2 - 1 ELSE n \div 2
Shift(n, i, conv) == (i + n - Neg(n, conv)) % n
Unshift(n, j, conv) == (j + Neg(n, conv)) % n

ClosedFormsAreDefinitions(n) ==
    \A conv \in Convs(n) : \A i \in 0 .. n - 1 :
       /\ Shift(n, i, conv) = ShiftDef(n, i, conv)
       /\ Unshift(n, i, conv) = UnshiftDef(n, i, conv)
MutuallyInverse(n) ==
    \A conv \in Convs(n) : \A i \in 0 .. n - 1 :
       /\ Unshift(n, Shift(n, i, conv), conv) = i
       /\ Shift(n, Unshift(n, i, conv), conv) = i
       /\ Shift(n, i, conv) \in 0 .. n - 1
\* the shifted order is ascending in frequency, the zero frequency sits at the centre
Centred(n) ==
    \A conv \in Convs(n) :
       /\ \A i \in 0 .. n - 2 : SF(n, Shift(n, i, conv), conv) < SF(n, Shift(n, i + 1, conv), conv)
       /\ Shift(n, Neg(n, conv), conv) = 0
       /\ Neg(n, conv) \in {(n - 1) \div 2, n \div 2}
\* signed frequencies are the least-magnitude representatives
LeastMagnitude(n) ==
    \A conv \in Convs(n) : \A j \in 0 .. n - 1 :
       /\ (SF(n, j, conv) - j) % n = 0
       /\ 2 * SF(n, j, conv) <= n /\ 2 * SF(n, j, conv) >= -n

Pow(b) == {b ^ k : k \in 0 .. (IF b = 2 THEN 13 ELSE 7)}
CeilPow(b, L) == IF L = 0 THEN 0 ELSE CHOOSE p \in Pow(b) : p >= L /\ \A q \in Pow(b) : q >= L => p <= q
FloorPow(b, L) == IF L = 0 THEN 0 ELSE CHOOSE p \in Pow(b) : p <= L /\ \A q \in Pow(b) : q <= L => q <= p
PadTrimSound(L) ==
    \A b \in {2, 4} :
       /\ FloorPow(b, L) <= L /\ L <= CeilPow(b, L)
       /\ L > 0 => (CeilPow(b, L) < b * L /\ b * FloorPow(b, L) > L)
       /\ (CeilPow(b, L) = L) = (FloorPow(b, L) = L)

Seq0(n, f(_)) == [q \in 1 .. n |-> f(q - 1)]

Alt(n, conv) ==
    [conv |-> conv,
     shift |-> Seq0(n, LAMBDA i : Shift(n, i, conv)),
     unshift |-> Seq0(n, LAMBDA i : Unshift(n, i, conv)),
     cfreq |-> Seq0(n, LAMBDA i : SF(n, i, conv))]      \* numerators over n (CmplxFFT.Freq)
IndexCase(n) ==
    [k |-> "cidx", n |-> n,
     alts |-> IF n % 2 = 0 THEN <<Alt(n, "neg"), Alt(n, "pos")>> ELSE <<Alt(n, "neg")>>,
     rfreq |-> Seq0(n, LAMBDA i : i),                   \* numerators over n (FFT.Freq)
     bad |-> <<-1, n, n + 1, -n>>,                      \* arguments that must panic
     relexp |-> 51]                                     \* |Freq - num/n| <= 2^-relexp * |num/n| (two roundings)
PadCase(L) ==
    [k |-> "pad", n |-> L, pad2 |-> CeilPow(2, L), trim2 |-> FloorPow(2, L),
     pad4 |-> CeilPow(4, L), trim4 |-> FloorPow(4, L)]

Init == c \in NLo .. NHi
Next == UNCHANGED c
Spec == Init /\ [][Next]_vars

Theorems ==
    /\ c >= 1 => /\ MutuallyInverse(c) /\ Centred(c) /\ LeastMagnitude(c)
                 /\ c <= RankMax => ClosedFormsAreDefinitions(c)
    /\ PadTrimSound(c)

EmitCases ==
    Emit =>
      /\ c >= 1 => PrintT(ToJson(IndexCase(c)))
      /\ PrintT(ToJson(PadCase(c)))
=============================================================================
