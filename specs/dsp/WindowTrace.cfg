SPECIFICATION TraceSpec
CONSTANTS
  MulUlps = @MULULPS@
POSTCONDITION Accepted
CHECK_DEADLOCK FALSE
