----------------------------- MODULE FourierObj -----------------------------
(* Object-history model of gonum's dsp/fourier transform objects (FFT,        *)
(* CmplxFFT, DCT, DST, QuarterWaveFFT) and of dsp/transform's Hilbert.        *)
(*                                                                            *)
(* The property clause modelled here: "a transform object gives the same      *)
(* answer regardless of what lengths or data it was previously used or Reset  *)
(* with and whether dst aliases src".  Abstractly an object is nothing but    *)
(* its current length n; the answer of a transform call is a value of an      *)
(* (uninterpreted) function F[kind, n, input].  F is not known to the         *)
(* specification: it is fixed lazily - the first time a key <<kind,n,input>>  *)
(* is seen the returned token is remembered in memo, and every later call     *)
(* with the same key, on whatever object, after whatever history and with     *)
(* whatever destination mode, must return the identical token.  The           *)
(* argument contract (which calls must panic and that a panicking call        *)
(* changes nothing) and Len are part of the same state machine, so a stale    *)
(* length after Reset is visible as a wrong panic/accept decision.            *)
(*                                                                            *)
(*   R1  TLC explores every history within the bounds of FourierObj_model.cfg *)
(*       and checks that the lazy memo mechanism is equivalent to the raw     *)
(*       statement of history independence on the log of all calls.           *)
(*   R3  FourierObjTrace.tla reuses the actions to accept or reject recorded  *)
(*       histories of the real objects.                                       *)
EXTENDS Integers, Sequences, FiniteSets, TLC

CONSTANTS Objs,      \* object identifiers
          MTypes,    \* R1 only: object types explored
          Lens,      \* R1 only: lengths explored
          Inputs,    \* R1 only: input identifiers
          Tokens,    \* R1 only: result tokens
          MaxSteps   \* R1 only: history length bound

VARIABLES typ,   \* typ[o]: type of object o, "none" before the first successful New
          len,   \* len[o]: current length of object o
          memo,  \* the part of F fixed so far: <<kind, n, input>> -> token
          last,  \* outcome of the last call
          log    \* R1 only: raw history of successful transform calls, <<key, token>>
vars == <<typ, len, memo, last, log>>

Types == {"FFT", "CmplxFFT", "DCT", "DST", "QW", "Hilbert"}
KindsOf(t) == CASE t = "FFT"      -> {"FFT.coef", "FFT.seq"}
                [] t = "CmplxFFT" -> {"CmplxFFT.coef", "CmplxFFT.seq"}
                [] t = "DCT"      -> {"DCT.t"}
                [] t = "DST"      -> {"DST.t"}
                [] t = "QW"       -> {"QW.cosc", "QW.coss", "QW.sinc", "QW.sins"}
                [] t = "Hilbert"  -> {"Hilbert.as"}   \* dsp/transform: AnalyticSignal (real -> complex; no Reset)
                [] OTHER          -> {}
\* NewDCT / DCT.Reset are documented to panic unless n > 1
MinLen(t) == IF t = "DCT" THEN 2 ELSE 1
\* FFT packs the spectrum of a real sequence of length n into n/2+1 coefficients
SrcLen(kind, n) == IF kind = "FFT.seq"  THEN n \div 2 + 1 ELSE n
DstLen(kind, n) == IF kind = "FFT.coef" THEN n \div 2 + 1 ELSE n
\* dst and src have the same element type (dst = src is documented as safe)
CanAlias(kind) == kind \notin {"FFT.coef", "FFT.seq", "Hilbert.as"}
Modes == {"nil", "fresh", "same"}

NoRes == [out |-> "ok", tok |-> "", n |-> 0, retdst |-> FALSE]
Panic == last' = [NoRes EXCEPT !.out = "panic"] /\ UNCHANGED <<typ, len, memo>>

Init == /\ typ = [o \in Objs |-> "none"]
        /\ len = [o \in Objs |-> 0]
        /\ memo = <<>>
        /\ last = NoRes
        /\ log = <<>>

\* NewT(n): a fresh object replaces o
New(o, t, m) ==
    IF m < MinLen(t) THEN Panic
    ELSE /\ typ' = [typ EXCEPT ![o] = t]
         /\ len' = [len EXCEPT ![o] = m]
         /\ last' = NoRes /\ UNCHANGED memo

Reset(o, m) ==
    /\ typ[o] \notin {"none", "Hilbert"}
    /\ IF m < MinLen(typ[o]) THEN Panic
       ELSE /\ len' = [len EXCEPT ![o] = m]
            /\ last' = NoRes /\ UNCHANGED <<typ, memo>>

LenOf(o) ==
    /\ typ[o] # "none"
    /\ last' = [NoRes EXCEPT !.n = len[o]]
    /\ UNCHANGED <<typ, len, memo>>

\* A transform call: src of length sl (pool entry inp), destination according
\* to mode (nil: allocate; fresh: a distinct slice of length dl; same: dst is
\* src).  tok is the token of the returned data.
Transform(o, kind, sl, dl, inp, mode, tok) ==
    /\ kind \in KindsOf(typ[o])
    /\ mode \in Modes
    /\ mode = "same" => CanAlias(kind) /\ dl = sl
    /\ LET n   == len[o]
           key == <<kind, n, inp>>
       IN IF sl # SrcLen(kind, n) \/ (mode # "nil" /\ dl # DstLen(kind, n))
          THEN Panic
          ELSE /\ key \in DOMAIN memo => tok = memo[key]
               /\ memo' = IF key \in DOMAIN memo THEN memo ELSE memo @@ (key :> tok)
               /\ last' = [out |-> "ok", tok |-> tok, n |-> 0, retdst |-> (mode # "nil")]
               /\ UNCHANGED <<typ, len>>

(******************************* R1 model ***********************************)
MLens == Lens \cup {l \div 2 + 1 : l \in Lens}
Next ==
    /\ Len(log) < MaxSteps
    /\ \/ \E o \in Objs, t \in MTypes, m \in Lens : New(o, t, m) /\ UNCHANGED log
       \/ \E o \in Objs, m \in Lens : Reset(o, m) /\ UNCHANGED log
       \/ \E o \in Objs : LenOf(o) /\ UNCHANGED log
       \/ \E o \in Objs, kind \in UNION {KindsOf(t) : t \in MTypes}, sl \in MLens, dl \in MLens,
             inp \in Inputs, mode \in Modes, tok \in Tokens :
            /\ mode = "nil" => dl = sl     \* dl is irrelevant for nil: one representative
            /\ Transform(o, kind, sl, dl, inp, mode, tok)
            /\ log' = IF last'.out = "ok"
                      THEN Append(log, <<<<kind, len[o], inp>>, tok>>) ELSE log

Spec == Init /\ [][Next]_vars

TypeOK == /\ \A o \in Objs : typ[o] \in Types \cup {"none"}
          /\ \A o \in Objs : typ[o] # "none" => len[o] >= MinLen(typ[o])
          /\ last.out \in {"ok", "panic"}

\* history independence stated on the raw history: equal keys, equal answers
Functional == \A i, j \in DOMAIN log : log[i][1] = log[j][1] => log[i][2] = log[j][2]
\* the lazy memo is exactly the function the raw history defines
MemoIsLog == /\ DOMAIN memo = {log[i][1] : i \in DOMAIN log}
             /\ \A i \in DOMAIN log : memo[log[i][1]] = log[i][2]
\* a panicking call leaves the object (and what is known of F) unchanged
PanicLeavesUnchanged == [][last'.out = "panic" => UNCHANGED <<typ, len, memo>>]_vars
\* what was fixed of F is never revised
MemoMonotone == [][\A k \in DOMAIN memo : k \in DOMAIN memo' /\ memo'[k] = memo[k]]_vars
=============================================================================
