SPECIFICATION Spec
CONSTANTS
  Kinds = @KINDS@
  NLo = @NLO@
  NHi = @NHI@
  Seed = @SEED@
  Fams = @FAMS@
  Emit = @EMIT@
INVARIANTS TablesOK ImpulseAlways InversionLemma CombOK EmitCases
CHECK_DEADLOCK FALSE
