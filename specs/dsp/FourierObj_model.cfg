SPECIFICATION Spec
CONSTANTS
  Objs = @OBJS@
  MTypes = @TYPES@
  Lens = @LENS@
  Inputs = @INPUTS@
  Tokens = @TOKENS@
  MaxSteps = @MAXSTEPS@
INVARIANTS TypeOK Functional MemoIsLog
PROPERTIES PanicLeavesUnchanged MemoMonotone
CHECK_DEADLOCK FALSE
