SPECIFICATION TraceSpec
CONSTANTS
  Objs = {0, 1}
  MTypes = {}
  Lens = {}
  Inputs = {}
  Tokens = {}
  MaxSteps = 0
INVARIANTS TraceInv
POSTCONDITION Accepted
CHECK_DEADLOCK FALSE
