SPECIFICATION Spec
CONSTANTS
  NLo = @NLO@
  NHi = @NHI@
  RankMax = @RANKMAX@
  Emit = @EMIT@
INVARIANTS Theorems EmitCases
CHECK_DEADLOCK FALSE
