----------------------------- MODULE WindowTrace -----------------------------
(* Window functions of gonum's dsp/window, judged without real arithmetic.    *)
(*                                                                            *)
(* The weight vector w[kind, param, n] of a window is an UNINTERPRETED        *)
(* function: it is fixed the first time it is seen in the log (some entry     *)
(* point applied to a vector of ones) and everything else is stated in terms  *)
(* of it.  Floats are exact records: z (1 zero, 2 NaN/Inf, 0 otherwise),      *)
(* sign s, exponent e, the 53-bit mantissa as two integers h,l; d is the      *)
(* value rounded to 9 decimals (units of 10^-9).                              *)
(*                                                                            *)
(*  W  every entry point (Kind, KindComplex real and imaginary part,          *)
(*     NewValues(Kind,n).Transform / TransformTo / TransformComplex /         *)
(*     TransformComplexTo, Gaussian{}/Tukey{} methods) must deliver the SAME  *)
(*     weights bit for bit; the weights are finite, symmetric                 *)
(*     (w[i] = w[n-1-i] to 4e-9: every closed form in the package             *)
(*     documentation is symmetric about (N-1)/2; bitwise symmetry is not      *)
(*     required since cos(x) and cos(2 pi - x) are rounded separately),       *)
(*     within [0,1] where the closed form is, equal to 1 for Rectangular, and *)
(*     equal to the documented closed form at every index where the closed    *)
(*     form is rational (cosine-sum windows at angles that are multiples of   *)
(*     pi/2 or pi/3 - end points, centre, quarter points ...; Triangular and  *)
(*     Bartlett-Hann's linear part everywhere; Tukey's plateau exactly 1).    *)
(*  X  an entry point applied to data whose elements are 0 or +-2^k returns   *)
(*     exactly the weights with sign and exponent shifted (one multiplication *)
(*     per element: scaling by a power of two is exact), for the real and,    *)
(*     independently, the imaginary parts.                                    *)
(*  P  on general data the result is the single IEEE product weight*input     *)
(*     in every element (distance in ulps logged by the driver from values    *)
(*     the real code produced; the spec says it must be <= MulUlps).          *)
(* A failing event does not stop validation: its signature is collected in    *)
(* bad and the whole set is reported at the end.                              *)
EXTENDS Integers, Sequences, FiniteSets, TLC, TLCExt, Json

CONSTANTS MulUlps   \* allowed distance (ulps) between result and weight*input on general data

TraceLog == ndJsonDeserialize("trace.ndjson")

VARIABLES memo, bad, l
vars == <<memo, bad, l>>

Ev == TraceLog[l]

(***************************** partial trig tables **************************)
\* (as in ExactDft.tla) 2cos(e pi/N) and 2sin(e pi/N) where rational
KnownC(N, e) == (2 * e) % N = 0 \/ (3 * e) % N = 0
TwoCos(N, e) ==
    IF (2 * e) % N = 0
    THEN LET q == ((2 * e) \div N) % 4 IN CASE q = 0 -> 2 [] q = 2 -> -2 [] OTHER -> 0
    ELSE LET q == ((3 * e) \div N) % 6 IN
         CASE q = 0 -> 2 [] q = 1 -> 1 [] q = 2 -> -1 [] q = 3 -> -2 [] q = 4 -> -1 [] OTHER -> 1
KnownS(N, e) == (2 * e) % N = 0 \/ ((6 * e) % N = 0 /\ ((6 * e) \div N) % 2 = 1)
TwoSin(N, e) ==
    IF (2 * e) % N = 0
    THEN LET q == ((2 * e) \div N) % 4 IN CASE q = 1 -> 2 [] q = 3 -> -2 [] OTHER -> 0
    ELSE LET q == ((6 * e) \div N) % 12 IN
         CASE q = 1 -> 1 [] q = 5 -> 1 [] q = 7 -> -1 [] q = 11 -> -1 [] OTHER -> 0

(************************ documented closed forms ***************************)
\* generalised cosine windows  w[k] = sum_j (-1)^j a_j cos(2 pi j k/(N-1)); a_j in units of 10^-9
Coef(kind) ==
    CASE kind = "Hann"            -> <<500000000, 500000000>>
      [] kind = "Hamming"         -> <<540000000, 460000000>>
      [] kind = "Blackman"        -> <<420000000, 500000000, 80000000>>
      [] kind = "BlackmanHarris"  -> <<358750000, 488290000, 141280000, 11680000>>
      [] kind = "Nuttall"         -> <<355768000, 487396000, 144232000, 12604000>>
      [] kind = "BlackmanNuttall" -> <<363581900, 489177500, 136599500, 10641100>>
      [] kind = "FlatTop"         -> <<215578950, 416631580, 277263158, 83578947, 6947368>>
      [] OTHER -> <<>>
CosSum(kind) == Len(Coef(kind)) > 0
Abs(v) == IF v < 0 THEN -v ELSE v

\* Is the closed form rational at index k (0-based) of a length-n window, and what is it (units 10^-9) ?
\* M = n-1.  Returns <<known, value, tolerance>>.
Tukey01(p) == p > 0 /\ p < 100
Closed(kind, p, n, k) ==
    LET M == n - 1 IN
    CASE CosSum(kind) ->
           LET c == Coef(kind)
               known == \A j \in 1 .. Len(c) - 1 : KnownC(M, 2 * j * k)
               \* twice the value: 2 a_0 + sum_j (-1)^j a_j * 2cos(.)
               two == 2 * c[1] + (IF Len(c) > 1 THEN -c[2] * TwoCos(M, 2 * k) ELSE 0)
                               + (IF Len(c) > 2 THEN c[3] * TwoCos(M, 4 * k) ELSE 0)
                               + (IF Len(c) > 3 THEN -c[4] * TwoCos(M, 6 * k) ELSE 0)
                               + (IF Len(c) > 4 THEN c[5] * TwoCos(M, 8 * k) ELSE 0)
           IN IF known THEN <<TRUE, two \div 2, 4>> ELSE <<FALSE, 0, 0>>
      [] kind = "Sine" -> IF KnownS(M, k) THEN <<TRUE, 500000000 * TwoSin(M, k), 4>> ELSE <<FALSE, 0, 0>>
      [] kind = "Lanczos" -> IF k = 0 \/ k = M THEN <<TRUE, 0, 4>>
                             ELSE IF 2 * k = M THEN <<TRUE, 1000000000, 4>> ELSE <<FALSE, 0, 0>>
      [] kind = "Triangular" -> <<TRUE, 1000000000 - (1000000000 \div M) * Abs(2 * k - M), 200>>
      [] kind = "BartlettHann" ->      \* 0.62 - 0.48 |k/M - 1/2| - 0.38 cos(2 pi k/M)
           IF KnownC(M, 2 * k)
           THEN <<TRUE, 620000000 - (240000000 \div M) * Abs(2 * k - M) - 190000000 * TwoCos(M, 2 * k), 200>>
           ELSE <<FALSE, 0, 0>>
      [] kind = "Gaussian" -> IF 2 * k = M THEN <<TRUE, 1000000000, 4>> ELSE <<FALSE, 0, 0>>
      [] kind = "Tukey" /\ Tukey01(p) ->
           \* taper fraction alpha = p/100 (alpha = 0 rectangular, alpha = 1 Hann, as in the cited article):
           \* w = 1/2 (1 - cos(2 pi k'/(alpha M))) for k' = min(k, M-k) < alpha M/2, else 1
           LET kk == IF k <= M - k THEN k ELSE M - k IN
           IF 200 * kk >= p * M THEN <<TRUE, 1000000000, 0>>
           ELSE IF KnownC(p * M, 200 * kk) THEN <<TRUE, 500000000 - 250000000 * TwoCos(p * M, 200 * kk), 4>>
           ELSE <<FALSE, 0, 0>>
      [] OTHER -> <<FALSE, 0, 0>>

\* closed forms with values in [0,1]
UnitRange(kind) == kind \in {"Rectangular", "Sine", "Lanczos", "Triangular", "Hann", "BartlettHann", "Hamming",
                             "Blackman", "BlackmanHarris", "Nuttall", "BlackmanNuttall", "Gaussian", "Tukey"}

\* Tukey with alpha <= 0 is the rectangular window, with alpha >= 1 the Hann window (documented in the code
\* and by the closed form): they share the weight function
Key(kind, p, n) == IF kind = "Tukey" /\ p <= 0 THEN <<"Rectangular", 0, n>>
                   ELSE IF kind = "Tukey" /\ p >= 100 THEN <<"Hann", 0, n>> ELSE <<kind, p, n>>

(********************************* judging **********************************)
Sig(e, why) == "dsp:window." \o e.kind \o "." \o e.var \o ":" \o why
IsOne(v, i) == v.z[i] = 0 /\ v.s[i] = 0 /\ v.e[i] = 1 /\ v.h[i] = 33554432 /\ v.l[i] = 0

\* the defects of a weight vector (as a set of reasons)
WeightDefects(kind, p, n, v) ==
    LET finite == \A i \in 1 .. n : v.z[i] # 2 IN
    IF ~finite THEN {IF n = 1 THEN "nonfinite-n1" ELSE "nonfinite"}
    ELSE   {"asymmetric" : x \in {1} \cap {y \in {1} : \E i \in 1 .. n : Abs(v.d[i] - v.d[n + 1 - i]) > 4}}
      \cup {"range" : x \in {1} \cap {y \in {1} : UnitRange(kind) /\ \E i \in 1 .. n : v.d[i] < -4 \/ v.d[i] > 1000000004}}
      \cup {"not-one" : x \in {1} \cap {y \in {1} : kind = "Rectangular" /\ \E i \in 1 .. n : ~IsOne(v, i)}}
      \cup {"closed-form" : x \in {1} \cap {y \in {1} : n >= 2 /\ \E i \in 1 .. n :
                LET c == Closed(kind, p, n, i - 1) IN
                c[1] /\ (IF c[3] = 0 THEN ~IsOne(v, i) ELSE Abs(v.d[i] - c[2]) > c[3])}}

\* weight w scaled by (-1)^sg 2^k, exactly; k = 1000 stands for the input element 0
ScaledOK(w, r, sg, k, n) ==
    \A i \in 1 .. n :
       IF k[i] = 1000 \/ w.z[i] = 1 THEN r.z[i] = 1
       ELSE /\ r.z[i] = 0 /\ w.z[i] = 0
            /\ r.s[i] = (w.s[i] + sg[i]) % 2 /\ r.e[i] = w.e[i] + k[i] /\ r.h[i] = w.h[i] /\ r.l[i] = w.l[i]

More == l <= Len(TraceLog)
key == Key(Ev.kind, Ev.param, Ev.n)

TW == /\ More /\ Ev.op = "W" /\ Ev.out = "ok"
      /\ IF key \in DOMAIN memo
         THEN /\ UNCHANGED memo
              /\ bad' = IF Ev.w = memo[key] THEN bad ELSE bad \cup {Sig(Ev, "differs-from-first-entry-point")}
         ELSE /\ memo' = memo @@ (key :> Ev.w)
              /\ bad' = bad \cup {Sig(Ev, why) : why \in WeightDefects(Ev.kind, Ev.param, Ev.n, Ev.w)}
      /\ l' = l + 1

TX == /\ More /\ Ev.op = "X" /\ Ev.out = "ok"
      /\ LET ok == /\ key \in DOMAIN memo
                   /\ \/ \E i \in 1 .. Ev.n : memo[key].z[i] = 2     \* non-finite weights were reported at W
                      \/ /\ ScaledOK(memo[key], Ev.w, Ev.sg, Ev.k, Ev.n)
                         /\ Ev.cplx => ScaledOK(memo[key], Ev.wi, Ev.sgi, Ev.ki, Ev.n)
         IN bad' = IF ok THEN bad ELSE bad \cup {Sig(Ev, "scaling")}
      /\ UNCHANGED memo /\ l' = l + 1

TP == /\ More /\ Ev.op = "P" /\ Ev.out = "ok"
      /\ LET nonfin == key \in DOMAIN memo /\ \E i \in 1 .. Ev.n : memo[key].z[i] = 2
         IN bad' = IF nonfin \/ Ev.ulp <= MulUlps THEN bad ELSE bad \cup {Sig(Ev, "product")}
      /\ UNCHANGED memo /\ l' = l + 1

TPanic == /\ More /\ Ev.out = "panic"
          /\ bad' = bad \cup {Sig(Ev, "panic")}
          /\ UNCHANGED memo /\ l' = l + 1

TClear == /\ More /\ Ev.op = "Clear"
          /\ memo' = <<>> /\ UNCHANGED bad /\ l' = l + 1

\* (register 1 carries the collected signatures to the postcondition; single worker)
TraceInit == memo = <<>> /\ bad = {} /\ l = 1 /\ TLCSet(1, {})
TraceNext == (TW \/ TX \/ TP \/ TPanic \/ TClear) /\ TLCSet(1, bad')
TraceSpec == TraceInit /\ [][TraceNext]_vars

\* bad is only ever reported, never an invariant: every event is consumed
View == l

Accepted ==
    LET d == TLCGet("stats").diameter IN
    IF d - 1 # Len(TraceLog)
    THEN /\ PrintT("TRACE-REJECTED stuck at event " \o ToString(d)) /\ FALSE
    ELSE IF TLCGet(1) # {}
    THEN /\ PrintT("TRACE-REJECTED " \o ToString(Cardinality(TLCGet(1))) \o " signatures: " \o ToJson(TLCGet(1))) /\ FALSE
    ELSE PrintT("TRACE-ACCEPTED " \o ToString(Len(TraceLog)))
=============================================================================
