-------------------------- MODULE FourierObjTrace --------------------------
(* R3: accepts an ndjson log of real histories of dsp/fourier transform       *)
(* objects iff it is a behaviour of FourierObj, i.e. iff one function         *)
(* F[kind, n, input] explains every answer in the history (object 0 lives     *)
(* through Reset / re-New / transforms of other lengths and data, object 1    *)
(* is created fresh for the mirrored call; both must agree with the same F),  *)
(* every call that the contract says must panic did panic and no other, Len   *)
(* always reports the model's length, a non-nil dst is the slice returned,    *)
(* and src is bit-identical after the call unless dst was src.  Histories of  *)
(* several objects are concatenated with Clear events.                        *)
EXTENDS FourierObj, Json, TLCExt

TraceLog == ndJsonDeserialize("trace.ndjson")

VARIABLE l
tvars == <<typ, len, memo, last, log, l>>

Ev == TraceLog[l]
More == l <= Len(TraceLog)

TNew == /\ More /\ Ev.op = "New"
        /\ New(Ev.obj, Ev.type, Ev.n)
        /\ last'.out = Ev.out
        /\ UNCHANGED log /\ l' = l + 1

TReset == /\ More /\ Ev.op = "Reset"
          /\ typ[Ev.obj] = Ev.type
          /\ Reset(Ev.obj, Ev.n)
          /\ last'.out = Ev.out
          /\ UNCHANGED log /\ l' = l + 1

TLen == /\ More /\ Ev.op = "Len"
        /\ LenOf(Ev.obj)
        /\ last'.n = Ev.n
        /\ UNCHANGED log /\ l' = l + 1

\* "The analytic signal has the input as its real part": a logging-boundary predicate.  The log carries
\* dev = max_i |Re(result[i]) - input[i]| in units of 2^-52 * |input|_1 (rounded up), computed from the values
\* the real code was given and returned; the specification states the bound: rounding of one forward and one
\* inverse complex FFT of length n, for which FFTPACK's passes lose O(eps) per factor 2,3,4,5 and about
\* 0.2 p^2 eps for a prime factor p > 5 (measured, see ExactDft.tla) - 1024 n + 8 P(n)^2 with P the largest
\* prime factor leaves a factor > 16 over the measured errors; a wrong bin, scale or stale buffer is O(1).
SmallDivs(m) == {d \in 2 .. 101 : d * d <= m /\ m % d = 0}
RECURSIVE LPF(_)
LPF(m) == IF SmallDivs(m) = {} THEN m
          ELSE LPF(m \div (CHOOSE d \in SmallDivs(m) : \A e \in SmallDivs(m) : d <= e))
RealPartTol(n) == 1024 * n + 8 * LPF(n) * LPF(n)

TTransform ==
        /\ More /\ Ev.op = "T"
        /\ Transform(Ev.obj, Ev.kind, Ev.sl, Ev.dl, Ev.inp, Ev.mode, Ev.tok)
        /\ last'.out = Ev.out
        /\ last'.out = "ok" =>
             /\ last'.retdst = Ev.retdst          \* dst, when given, is what is returned
             /\ Ev.mode # "same" => Ev.srcok      \* the input is not modified
             /\ Ev.kind = "Hilbert.as" => Ev.dev <= RealPartTol(len[Ev.obj])
        /\ UNCHANGED log /\ l' = l + 1

\* a new group of histories: forget the objects and what was learnt of F
TClear == /\ More /\ Ev.op = "Clear"
          /\ typ' = [o \in Objs |-> "none"] /\ len' = [o \in Objs |-> 0]
          /\ memo' = <<>> /\ last' = NoRes
          /\ UNCHANGED log /\ l' = l + 1

TraceInit == Init /\ l = 1
TraceNext == TNew \/ TReset \/ TLen \/ TTransform \/ TClear
TraceSpec == TraceInit /\ [][TraceNext]_tvars

TraceInv == \A o \in Objs : typ[o] # "none" => len[o] >= MinLen(typ[o])

Accepted ==
    LET d == TLCGet("stats").diameter IN
    IF d - 1 = Len(TraceLog) THEN PrintT("TRACE-ACCEPTED " \o ToString(Len(TraceLog)))
    ELSE /\ PrintT("TRACE-REJECTED at event " \o ToString(d) \o ": " \o ToString(TraceLog[d]))
         /\ FALSE
=============================================================================
