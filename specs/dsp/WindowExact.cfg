SPECIFICATION Spec
CONSTANTS
  NLo = @NLO@
  NHi = @NHI@
  Kinds = @KINDS@
  Seed = @SEED@
  Emit = @EMIT@
INVARIANTS ExprOK
CHECK_DEADLOCK FALSE
