----------------------------- MODULE WindowExact -----------------------------
(* The weights of every window of gonum's dsp/window, at EVERY index of every *)
(* length NLo .. NHi (odd and even), as exact expressions.                    *)
(*                                                                            *)
(* TLA+ has no real numbers, but every documented closed form is a rational   *)
(* linear combination of ONE elementary function evaluated at RATIONAL points:*)
(*                                                                            *)
(*     w[k] = sum_t  coef_t / 10^9  *  F_t(num_t / den_t)                     *)
(*                                                                            *)
(* with F in  rat (identity), cospi (x -> cos(pi x)), sinpi, sincpi           *)
(* (x -> sin(pi x)/(pi x), 1 at 0) and exp.  The specification does all the   *)
(* arithmetic that decides WHICH points these are - the centre (N-1)/2 for    *)
(* odd and even N, the reduction of the angle modulo 2 pi and its folding     *)
(* into [0, pi], the taper / plateau split of Tukey, the argument             *)
(* -(k-M)^2 / (2 sigma^2 M^2) of the Gaussian as a reduced fraction - and     *)
(* replaces the function by its value wherever that is rational               *)
(* (cos at multiples of pi/2 and pi/3, sin at multiples of pi/2 and pi/6,     *)
(* sinc at 0 and 1, exp at 0).  The harness contributes only cos / sin / exp  *)
(* of the printed fraction; the tolerance (units of 2^-52, absolute) is       *)
(* printed as well.  Structural clauses are printed as flags:                 *)
(*    x = 1   the weight is exactly 1.0 (Rectangular; the integer centre of   *)
(*            the Gaussian: exp(0); Tukey strictly inside the plateau)        *)
(*    mono    the weights do not decrease towards the centre                  *)
(*                                                                            *)
(*   R1  ExprOK: the printed expressions are symmetric (index k and N-1-k     *)
(*       give the identical expression), the Gaussian exponent is 0 exactly   *)
(*       at 2k = N-1 and strictly decreases with |2k - (N-1)| (so the window  *)
(*       is monotone), first-harmonic windows have an angle increasing in k   *)
(*       within [0, pi] on the first half, end points and odd centres have    *)
(*       the documented rational values (Hann 0 / 1, Hamming 0.08 / 1, ...).  *)
(*   R2  one record per (window, parameter, length) with input data.          *)
(* Coefficients are those of the implementation's constants, which are the    *)
(* documented ones except: Hamming (documentation 25/46, 21/46; constants     *)
(* 0.54, 0.46 as in the cited article), FlatTop's last harmonic (8 pi), and   *)
(* Tukey, for which alpha is the taper fraction (see WindowTrace.tla).        *)
EXTENDS Integers, Sequences, FiniteSets, TLC, Json

CONSTANTS NLo, NHi,   \* lengths
          Kinds,      \* window kinds of this run
          Seed,       \* salt of the input data and of the extra parameters
          Emit

VARIABLES done
vars == <<done>>

Abs(v) == IF v < 0 THEN 0 - v ELSE v
RECURSIVE Gcd(_, _)
Gcd(a, b) == IF b = 0 THEN a ELSE Gcd(b, a % b)
Min(a, b) == IF a < b THEN a ELSE b

Unit == 1000000000          \* coefficients in units of 10^-9

(******************************* parameters ***********************************)
\* sigma * 100 and alpha * 100: the documented table values, the border cases and one seed-chosen value each
GaussPs == {30, 50, 120, 20 + ((Seed * 37) % 180)}
TukeyPs == {0, 25, 30, 50, 70, 90, 100, 1 + ((Seed * 29) % 98)}
Params(kind) == IF kind = "Gaussian" THEN GaussPs ELSE IF kind = "Tukey" THEN TukeyPs ELSE {0}

\* generalised cosine windows  w[k] = sum_j (-1)^j a_j cos(2 pi j k/(N-1)); a_j in units of 10^-9
Coef(kind) ==
    CASE kind = "Hann"            -> <<500000000, 500000000>>
      [] kind = "Hamming"         -> <<540000000, 460000000>>
      [] kind = "Blackman"        -> <<420000000, 500000000, 80000000>>
      [] kind = "BlackmanHarris"  -> <<358750000, 488290000, 141280000, 11680000>>
      [] kind = "Nuttall"         -> <<355768000, 487396000, 144232000, 12604000>>
      [] kind = "BlackmanNuttall" -> <<363581900, 489177500, 136599500, 10641100>>
      [] kind = "FlatTop"         -> <<215578950, 416631580, 277263158, 83578947, 6947368>>
      [] OTHER -> <<>>
CosSum(kind) == Len(Coef(kind)) > 0

(********************************* terms ***************************************)
\* a term is <<F, coef, num, den>>, value coef/10^9 * F(num/den); fractions are reduced, den > 0
Rat(c, a, b) == LET g == Gcd(Abs(a), b) IN IF a = 0 THEN <<"rat", 0, 0, 1>> ELSE <<"rat", c, a \div g, b \div g>>

\* c * cos(pi a/b), a >= 0, b > 0: reduce modulo 2, fold into [0,1], rational values at multiples of 1/2 and 1/3
CosPi(c, a, b) ==
    LET m == a % (2 * b)
        f == IF m > b THEN 2 * b - m ELSE m                       \* cos(pi (2 - x)) = cos(pi x)
        g == Gcd(f, b)
        p == IF f = 0 THEN 0 ELSE f \div g
        q == IF f = 0 THEN 1 ELSE b \div g
    IN  CASE p = 0          -> Rat(c, 1, 1)
          [] p = 1 /\ q = 1 -> Rat(c, 0 - 1, 1)
          [] p = 1 /\ q = 2 -> Rat(c, 0, 1)
          [] p = 1 /\ q = 3 -> Rat(c, 1, 2)
          [] p = 2 /\ q = 3 -> Rat(c, 0 - 1, 2)
          [] OTHER          -> <<"cospi", c, p, q>>
\* c * sin(pi a/b), 0 <= a <= b: fold into [0,1/2]
SinPi(c, a, b) ==
    LET f == IF 2 * a > b THEN b - a ELSE a                       \* sin(pi (1 - x)) = sin(pi x)
        g == Gcd(f, b)
        p == IF f = 0 THEN 0 ELSE f \div g
        q == IF f = 0 THEN 1 ELSE b \div g
    IN  CASE p = 0          -> Rat(c, 0, 1)
          [] p = 1 /\ q = 2 -> Rat(c, 1, 1)
          [] p = 1 /\ q = 6 -> Rat(c, 1, 2)
          [] OTHER          -> <<"sinpi", c, p, q>>
\* c * sinc(a/b) = c * sin(pi a/b) / (pi a/b), 0 <= a <= b
SincPi(c, a, b) ==
    LET g == Gcd(a, b) IN
    IF a = 0 THEN Rat(c, 1, 1) ELSE IF a = b THEN Rat(c, 0, 1) ELSE <<"sincpi", c, a \div g, b \div g>>
\* c * exp(-a/b), a >= 0
ExpNeg(c, a, b) == LET g == Gcd(a, b) IN IF a = 0 THEN Rat(c, 1, 1) ELSE <<"exp", c, 0 - (a \div g), b \div g>>

(********************** the documented closed forms ****************************)
\* index k (0-based) of a window of length n >= 2;  M = n - 1  (so the centre is M/2)
Sq(x) == x * x
Terms(kind, p, n, k) ==
    LET M == n - 1
        D == Abs(2 * k - M)                 \* twice the distance from the centre
    IN
    CASE kind = "Rectangular" \/ (kind = "Tukey" /\ p <= 0) -> <<Rat(Unit, 1, 1)>>
      [] CosSum(kind) \/ (kind = "Tukey" /\ p >= 100) ->
           LET c == IF kind = "Tukey" THEN Coef("Hann") ELSE Coef(kind) IN
           [j \in 1 .. Len(c) |-> IF j = 1 THEN Rat(c[1], 1, 1)
                                  ELSE CosPi(IF j % 2 = 0 THEN 0 - c[j] ELSE c[j], 2 * (j - 1) * k, M)]
      [] kind = "Sine" -> <<SinPi(Unit, k, M)>>
      [] kind = "Lanczos" -> <<SincPi(Unit, D, M)>>                      \* sinc(2k/M - 1), sinc is even
      [] kind = "Triangular" -> <<Rat(Unit, M - D, M)>>                  \* 1 - |k/A - 1|, A = M/2
      [] kind = "BartlettHann" ->                                        \* 0.62 - 0.48 |k/M - 1/2| - 0.38 cos(2 pi k/M)
           <<Rat(620000000, 1, 1), Rat(0 - 480000000, D, 2 * M), CosPi(0 - 380000000, 2 * k, M)>>
      [] kind = "Gaussian" ->                                            \* exp(-1/2 ((k - M/2)/(sigma M/2))^2), sigma = p/100
           LET g == Gcd(100 * D, p * M) a == (100 * D) \div g b == (p * M) \div g
           IN <<ExpNeg(Unit, Sq(a), 2 * Sq(b))>>
      [] kind = "Tukey" ->                                               \* taper fraction alpha = p/100, 0 < alpha < 1
           LET kk == Min(k, M - k) IN
           IF 200 * kk >= p * M THEN <<Rat(Unit, 1, 1)>>
           ELSE <<Rat(500000000, 1, 1), CosPi(0 - 500000000, 200 * kk, p * M)>>

\* the weight is exactly 1.0 in IEEE arithmetic: no factor is applied, or the factor is exp(0)
ExactOne(kind, p, n, k) ==
    LET M == n - 1 IN
    \/ kind = "Rectangular" \/ (kind = "Tukey" /\ p <= 0)
    \/ kind = "Gaussian" /\ 2 * k = M
    \/ kind = "Tukey" /\ p > 0 /\ p < 100 /\ 200 * Min(k, M - k) > p * M

\* windows whose weights do not decrease towards the centre, by an argument TLC checks below
MonoKinds == {"Rectangular", "Sine", "Lanczos", "Triangular", "Hann", "Hamming", "Gaussian", "Tukey"}

\* absolute tolerance in units of 2^-52.  The implementation forms the angle 2 pi j k/(N-1) <= 8 pi with two or
\* three roundings (error <= 25 * 3 * 2^-53 per harmonic, times a coefficient <= 1/2) and the Gaussian exponent
\* x with four (relative 4 * 2^-53, i.e. |x| e^x * 4 * 2^-53 <= 2^-53 * 1.5 in the weight); the harness's own
\* evaluation of the folded angle is below 4 units.  256 units (5.7e-14) leave a factor > 10.
Tol == 256

(******************************* input data ************************************)
DataRe(n, k) == ((k * 7 + Seed * 3 + n) % 19) - 9
DataIm(n, k) == ((k * 5 + Seed + 2 * n) % 17) - 8

(********************************** R1 *****************************************)
Defs == {<<kind, p>> \in Kinds \X (0 .. 200) : p \in Params(kind)}
Lens(kind, p) == {n \in NLo .. NHi : n >= 2 \/ kind = "Rectangular" \/ (kind = "Tukey" /\ p <= 0)}

\* value of an all-rational expression in units of 10^-9 (only where the divisions are exact)
RECURSIVE RatVal(_)
RatVal(ts) == IF ts = <<>> THEN 0 ELSE (Head(ts)[2] * Head(ts)[3]) \div Head(ts)[4] + RatVal(Tail(ts))
AllRat(ts) == \A i \in 1 .. Len(ts) : ts[i][1] = "rat" /\ (ts[i][2] * ts[i][3]) % ts[i][4] = 0
EndValue(kind, p) ==          \* documented value at k = 0 and k = N-1
    CASE kind = "Rectangular" \/ (kind = "Tukey" /\ p <= 0) -> Unit
      [] kind = "Hamming" -> 80000000
      [] kind = "BlackmanHarris" -> 60000
      [] kind = "Nuttall" -> 0
      [] kind = "BlackmanNuttall" -> 362800
      [] kind = "FlatTop" -> 0 - 421051
      [] kind = "Gaussian" -> 0 - 1                   \* irrational
      [] OTHER -> 0
CentreValue(kind) == IF kind = "FlatTop" THEN 1000000003 ELSE Unit      \* documented value at k = (N-1)/2, N odd

ExprOK ==
  /\ done \in BOOLEAN
  /\ \A d \in Defs : \A n \in Lens(d[1], d[2]) \ {1} : LET kind == d[1] p == d[2] M == n - 1 IN
        \* symmetry of the expression itself
        /\ \A k \in 0 .. M : /\ Terms(kind, p, n, k) = Terms(kind, p, n, M - k)
                             /\ ExactOne(kind, p, n, k) = ExactOne(kind, p, n, M - k)
                             /\ ExactOne(kind, p, n, k) => Terms(kind, p, n, k) = <<Rat(Unit, 1, 1)>>
                             /\ \A i \in 1 .. Len(Terms(kind, p, n, k)) : LET t == Terms(kind, p, n, k)[i] IN
                                   /\ t[4] > 0 /\ (t[1] = "exp" => t[3] < 0) /\ (t[1] # "exp" /\ t[1] # "rat" => t[3] > 0 /\ t[3] < t[4])
        \* end points and (odd n) the centre are rational and have the documented values
        /\ EndValue(kind, p) >= 0 => (AllRat(Terms(kind, p, n, 0)) /\ RatVal(Terms(kind, p, n, 0)) = EndValue(kind, p))
        /\ kind = "FlatTop" => RatVal(Terms(kind, p, n, 0)) = EndValue(kind, p)
        /\ M % 2 = 0 => (AllRat(Terms(kind, p, n, M \div 2)) /\ RatVal(Terms(kind, p, n, M \div 2)) = CentreValue(kind))
        \* Gaussian: exponent 0 exactly at the integer centre, strictly decreasing away from it
        /\ kind = "Gaussian" =>
               \A k \in 0 .. M : LET t == Terms(kind, p, n, k)[1] IN
                  /\ (t[1] = "rat") = (2 * k = M)
                  \* |x| = (100 D)^2 / (2 (p M)^2) is ordered like 100 D / (p M), D = |2k - M|: strictly smaller
                  \* one step closer to the centre (compared before squaring: 32-bit integers)
                  /\ (2 * (k + 1) <= M) => 100 * Abs(2 * k - M) * (p * M) > 100 * Abs(2 * (k + 1) - M) * (p * M)
                  /\ t[1] = "exp" => LET g == Gcd(100 * Abs(2 * k - M), p * M) IN
                        /\ t[3] = 0 - Sq((100 * Abs(2 * k - M)) \div g) \div Gcd(Sq((100 * Abs(2 * k - M)) \div g), 2 * Sq((p * M) \div g))
                        /\ t[3] < 0 /\ t[4] > 0 /\ Gcd(0 - t[3], t[4]) = 1
        \* windows with one trigonometric term (-c cos, c sin, c sinc): on the first half the folded angle moves
        \* strictly towards the maximum of the function (cos decreases on [0, pi], sin increases on [0, pi/2], sinc
        \* decreases on [0, 1]), so the weights increase towards the centre; Tukey: once on the plateau, always
        /\ kind \in {"Hann", "Hamming", "Sine", "Lanczos", "Tukey"} =>
               \A k \in 0 .. M : 2 * (k + 1) <= M =>
                   LET tk == Terms(kind, p, n, k) tu == Terms(kind, p, n, k + 1)
                       t == tk[Len(tk)] u == tu[Len(tu)] IN
                   /\ (t[1] = u[1] /\ t[1] = "cospi") => (t[2] < 0 /\ u[2] = t[2] /\ t[3] * u[4] < u[3] * t[4])
                   /\ (t[1] = u[1] /\ t[1] = "sinpi") => (t[2] > 0 /\ u[2] = t[2] /\ t[3] * u[4] < u[3] * t[4])
                   /\ (t[1] = u[1] /\ t[1] = "sincpi") => (t[2] > 0 /\ u[2] = t[2] /\ t[3] * u[4] > u[3] * t[4])
                   /\ tk = <<Rat(Unit, 1, 1)>> => tu = <<Rat(Unit, 1, 1)>>
        /\ kind = "Triangular" =>
               \A k \in 0 .. M : 2 * (k + 1) <= M =>
                   LET t == Terms(kind, p, n, k)[1] u == Terms(kind, p, n, k + 1)[1] IN t[3] * u[4] < u[3] * t[4]
  \* data stay small integers
  /\ \A n \in NLo .. NHi : \A k \in 0 .. n - 1 : DataRe(n, k) \in (0 - 9) .. 9 /\ DataIm(n, k) \in (0 - 8) .. 8

(********************************** R2 *****************************************)
Case(kind, p, n) ==
    [kind |-> kind, param |-> p, n |-> n, tol |-> Tol,
     mono |-> kind \in MonoKinds,
     idx |-> [i \in 1 .. n |-> IF n = 1 THEN [t |-> <<Rat(Unit, 1, 1)>>, x |-> 1]
                               ELSE [t |-> Terms(kind, p, n, i - 1), x |-> IF ExactOne(kind, p, n, i - 1) THEN 1 ELSE 0]],
     re |-> [i \in 1 .. n |-> DataRe(n, i - 1)],
     im |-> [i \in 1 .. n |-> DataIm(n, i - 1)]]

EmitAll(flag) == \A d \in Defs : \A n \in Lens(d[1], d[2]) : PrintT(ToJson(Case(d[1], d[2], n)))

Init == done = FALSE
Next == /\ ~done /\ done' = TRUE
        /\ Emit => EmitAll(done)
Spec == Init /\ [][Next]_vars
=============================================================================
