------------------------------ MODULE ExactDft ------------------------------
(* The defining sums of the Fourier-family transforms of gonum's dsp/fourier, *)
(* evaluated exactly wherever every trigonometric factor that is needed is    *)
(* rational.                                                                  *)
(*                                                                            *)
(* TLA+ has no reals, so cos and sin exist here only as PARTIAL tables:       *)
(*   W(n,e)      = exp(-2 pi i e/n)   defined iff the angle is a multiple of pi/2 *)
(*   TwoCos(N,e) = 2 cos(e pi/N)      defined iff the angle is a multiple of pi/2 or pi/3 *)
(*   TwoSin(N,e) = 2 sin(e pi/N)      defined iff the angle is a multiple of pi/2 or an odd multiple of pi/6 *)
(* (values in {0,+-1,+-2} resp. {+-1,+-i}).  A transform output is "known"     *)
(* iff every non-zero input element meets a defined table entry; then it is   *)
(* an integer (Gaussian integer) computed by the documented O(n^2) sum.  This *)
(* gives, for EVERY length n: impulses at the positions whose angles are      *)
(* rational (position 0 always: impulse -> constant), all of n in {1,2,4}     *)
(* (DCT: n-1 in {1,2,3}) for arbitrary data, and some outputs for impulses    *)
(* anywhere.  Dense inputs are obtained as the exact transforms of those      *)
(* sparse vectors and are fed to the inverse transform, whose expected        *)
(* output is the documented scale times the sparse vector (inversion          *)
(* theorem, checked by TLC below where the dense sum itself is known).        *)
(* One more exactly computable class exists for every composite n, odd ones   *)
(* included: combs.  The sum of a full cycle of r-th roots of unity is r or   *)
(* 0, hence the transform of the comb with step s | n is n/s times the comb   *)
(* with step n/s (family 20; the closed form is checked against the table-    *)
(* based sum wherever that is computable, i.e. n/s in {1,2,4}).               *)
(*                                                                            *)
(* The sums are those documented for FFTPACK (1-based there, 0-based here):   *)
(*   C.coef   X[i] = sum_k x[k] exp(-2 pi i k i/n)      C.seq: conjugate kernel, scale n *)
(*   FFT.coef the first n/2+1 of C.coef of a real sequence; FFT.seq its inverse from the    *)
(*            packed Hermitian half, scale n                                                 *)
(*   DCT.t    X[i] = x[0] + (-1)^i x[n-1] + sum_{0<k<n-1} 2 x[k] cos(k i pi/(n-1)), self-inverse, scale 2(n-1) *)
(*   DST.t    X[i] = sum_k 2 x[k] sin((k+1)(i+1) pi/(n+1)),                self-inverse, scale 2(n+1) *)
(*   QW.cosc  X[i] = x[0] + sum_{k>0} 2 x[k] cos((2i+1) k pi/(2n))          inverse QW.coss, scale 4n *)
(*   QW.coss  X[i] = sum_k 4 x[k] cos((2k+1) i pi/(2n))                                              *)
(*   QW.sinc  X[i] = (-1)^i x[n-1] + sum_{k<n-1} 2 x[k] sin((2i+1)(k+1) pi/(2n))  inverse QW.sins, scale 4n *)
(*   QW.sins  X[i] = sum_k 4 x[k] sin((2k+1)(i+1) pi/(2n))                                           *)
(*   R2.*, R4.* = C.* for n a power of 2 resp. 4 (CoefficientsRadix2/4, SequenceRadix2/4)          *)
EXTENDS Integers, Sequences, FiniteSets, TLC, Json

CONSTANTS Kinds,    \* kinds generated in this run
          NLo, NHi, \* lengths generated in this run
          Seed,     \* data salt
          Fams,     \* case families generated: subset of 0..8 (see Families)
          Emit      \* BOOLEAN: print the cases

VARIABLE cs
vars == <<cs>>

(***************************** partial trig tables **************************)
KnownW(n, e) == (4 * e) % n = 0
W(n, e) == LET q == ((4 * e) \div n) % 4 IN
           CASE q = 0 -> <<1, 0>> [] q = 1 -> <<0, -1>> [] q = 2 -> <<-1, 0>> [] OTHER -> <<0, 1>>
Conj(z) == <<z[1], -z[2]>>
Mul(a, b) == <<a[1] * b[1] - a[2] * b[2], a[1] * b[2] + a[2] * b[1]>>

KnownC(N, e) == (2 * e) % N = 0 \/ (3 * e) % N = 0
TwoCos(N, e) ==
    IF (2 * e) % N = 0
    THEN LET q == ((2 * e) \div N) % 4 IN CASE q = 0 -> 2 [] q = 2 -> -2 [] OTHER -> 0
    ELSE LET q == ((3 * e) \div N) % 6 IN
         CASE q = 0 -> 2 [] q = 1 -> 1 [] q = 2 -> -1 [] q = 3 -> -2 [] q = 4 -> -1 [] OTHER -> 1

KnownS(N, e) == (2 * e) % N = 0 \/ ((6 * e) % N = 0 /\ ((6 * e) \div N) % 2 = 1)
TwoSin(N, e) ==
    IF (2 * e) % N = 0
    THEN LET q == ((2 * e) \div N) % 4 IN CASE q = 1 -> 2 [] q = 3 -> -2 [] OTHER -> 0
    ELSE LET q == ((6 * e) \div N) % 12 IN
         CASE q = 1 -> 1 [] q = 5 -> 1 [] q = 7 -> -1 [] q = 11 -> -1 [] OTHER -> 0

\* The tables are pinned down by cos 0 = 1, cos(pi/3) = 1/2 and the identities of the circle:
\* Pythagoras, the addition theorems, symmetry and periodicity, on every defined entry.
TrigTablesSound ==
    \A N \in 1 .. 24 : \A a \in 0 .. 4 * N :
      /\ TwoCos(N, 0) = 2 /\ TwoCos(N, N) = -2 /\ TwoSin(N, 0) = 0
      /\ (N % 3 = 0) => TwoCos(N, N \div 3) = 1
      /\ (N % 2 = 0) => TwoSin(N, N \div 2) = 2
      /\ (KnownC(N, a) /\ KnownS(N, a)) => TwoCos(N, a) * TwoCos(N, a) + TwoSin(N, a) * TwoSin(N, a) = 4
      /\ KnownC(N, a) => /\ TwoCos(N, a + 2 * N) = TwoCos(N, a)
                         /\ a <= 2 * N => (KnownC(N, 2 * N - a) /\ TwoCos(N, 2 * N - a) = TwoCos(N, a))
      /\ KnownS(N, a) => /\ TwoSin(N, a + 2 * N) = TwoSin(N, a)
                         /\ a <= 2 * N => (KnownS(N, 2 * N - a) /\ TwoSin(N, 2 * N - a) = -TwoSin(N, a))
      /\ \A b \in 0 .. 2 * N :
           (KnownC(N, a) /\ KnownC(N, b) /\ KnownS(N, a) /\ KnownS(N, b) /\ KnownC(N, a + b) /\ KnownS(N, a + b)) =>
             /\ 2 * TwoCos(N, a + b) = TwoCos(N, a) * TwoCos(N, b) - TwoSin(N, a) * TwoSin(N, b)
             /\ 2 * TwoSin(N, a + b) = TwoSin(N, a) * TwoCos(N, b) + TwoCos(N, a) * TwoSin(N, b)
      /\ KnownW(N, a) => /\ KnownC(N, 2 * a) /\ KnownS(N, 2 * a)
                         /\ 2 * W(N, a)[1] = TwoCos(N, 2 * a) /\ 2 * W(N, a)[2] = -TwoSin(N, 2 * a)

(********************************* kinds ************************************)
AllKinds == {"C.coef", "C.seq", "FFT.coef", "FFT.seq", "DCT.t", "DST.t", "QW.cosc", "QW.coss", "QW.sinc", "QW.sins",
             "R2.coef", "R2.seq", "R4.coef", "R4.seq"}
IsPow(b, n) == \E k \in 0 .. 12 : b ^ k = n
ValidN(kind, n) == CASE kind = "DCT.t" -> n >= 2
                     [] kind \in {"R2.coef", "R2.seq"} -> IsPow(2, n)
                     [] kind \in {"R4.coef", "R4.seq"} -> IsPow(4, n)
                     [] OTHER -> n >= 1
H(n) == n \div 2
InLen(kind, n)  == IF kind = "FFT.seq"  THEN H(n) + 1 ELSE n
OutLen(kind, n) == IF kind = "FFT.coef" THEN H(n) + 1 ELSE n
CplxIn(kind)  == kind \in {"C.coef", "C.seq", "FFT.seq", "R2.coef", "R2.seq", "R4.coef", "R4.seq"}
CplxOut(kind) == kind \in {"C.coef", "C.seq", "FFT.coef", "R2.coef", "R2.seq", "R4.coef", "R4.seq"}
Inv(kind) == CASE kind = "C.coef" -> "C.seq" [] kind = "C.seq" -> "C.coef"
               [] kind = "FFT.coef" -> "FFT.seq" [] kind = "FFT.seq" -> "FFT.coef"
               [] kind = "QW.cosc" -> "QW.coss" [] kind = "QW.coss" -> "QW.cosc"
               [] kind = "QW.sinc" -> "QW.sins" [] kind = "QW.sins" -> "QW.sinc"
               [] kind = "R2.coef" -> "R2.seq" [] kind = "R2.seq" -> "R2.coef"
               [] kind = "R4.coef" -> "R4.seq" [] kind = "R4.seq" -> "R4.coef"
               [] OTHER -> kind
Scale(kind, n) == CASE kind = "DCT.t" -> 2 * (n - 1) [] kind = "DST.t" -> 2 * (n + 1)
                    [] kind \in {"QW.cosc", "QW.coss", "QW.sinc", "QW.sins"} -> 4 * n
                    [] OTHER -> n
Fwd(kind) == kind \in {"C.coef", "FFT.coef", "R2.coef", "R4.coef"}
Bwd(kind) == kind \in {"C.seq", "R2.seq", "R4.seq"}

\* is the contribution of input element k to output element i computable ?
TermKnown(kind, n, k, i) ==
    CASE Fwd(kind) \/ Bwd(kind) \/ kind = "FFT.seq" -> KnownW(n, (k * i) % n)
      [] kind = "DCT.t"   -> k = 0 \/ k = n - 1 \/ KnownC(n - 1, k * i)
      [] kind = "DST.t"   -> KnownS(n + 1, (k + 1) * (i + 1))
      [] kind = "QW.cosc" -> k = 0 \/ KnownC(2 * n, (2 * i + 1) * k)
      [] kind = "QW.coss" -> KnownC(2 * n, (2 * k + 1) * i)
      [] kind = "QW.sinc" -> k = n - 1 \/ KnownS(2 * n, (2 * i + 1) * (k + 1))
      [] kind = "QW.sins" -> KnownS(2 * n, (2 * k + 1) * (i + 1))

Sgn(i) == IF i % 2 = 0 THEN 1 ELSE -1
\* the contribution itself; z = <<re, im>> is the input element (im = 0 for real kinds)
Term(kind, n, k, z, i) ==
    CASE Fwd(kind) -> Mul(z, W(n, (k * i) % n))
      [] Bwd(kind) -> Mul(z, Conj(W(n, (k * i) % n)))
      [] kind = "FFT.seq" -> \* c[k] e^{+} + conj(c[k]) e^{-} for 0 < k < n/2: twice the real part
            LET t == Mul(z, Conj(W(n, (k * i) % n))) IN
            IF k = 0 \/ 2 * k = n THEN <<t[1], 0>> ELSE <<2 * t[1], 0>>
      [] kind = "DCT.t"   -> IF k = 0 THEN <<z[1], 0>> ELSE IF k = n - 1 THEN <<Sgn(i) * z[1], 0>>
                             ELSE <<z[1] * TwoCos(n - 1, k * i), 0>>
      [] kind = "DST.t"   -> <<z[1] * TwoSin(n + 1, (k + 1) * (i + 1)), 0>>
      [] kind = "QW.cosc" -> IF k = 0 THEN <<z[1], 0>> ELSE <<z[1] * TwoCos(2 * n, (2 * i + 1) * k), 0>>
      [] kind = "QW.coss" -> <<2 * z[1] * TwoCos(2 * n, (2 * k + 1) * i), 0>>
      [] kind = "QW.sinc" -> IF k = n - 1 THEN <<Sgn(i) * z[1], 0>> ELSE <<z[1] * TwoSin(2 * n, (2 * i + 1) * (k + 1)), 0>>
      [] kind = "QW.sins" -> <<2 * z[1] * TwoSin(2 * n, (2 * k + 1) * (i + 1)), 0>>

\* a sparse vector is a sequence of <<position, re, im>>
RECURSIVE SumTerms(_, _, _, _, _)
SumTerms(kind, n, sp, i, j) ==
    IF j > Len(sp) THEN <<0, 0>>
    ELSE LET t == Term(kind, n, sp[j][1], <<sp[j][2], sp[j][3]>>, i)
             r == SumTerms(kind, n, sp, i, j + 1)
         IN <<t[1] + r[1], t[2] + r[2]>>
OutKnown(kind, n, sp, i) == \A j \in 1 .. Len(sp) : TermKnown(kind, n, sp[j][1], i)
Out(kind, n, sp, i) == SumTerms(kind, n, sp, i, 1)
FullyKnown(kind, n, sp) == \A i \in 0 .. OutLen(kind, n) - 1 : OutKnown(kind, n, sp, i)

(******************************** data **************************************)
Val(n, p, s) == LET v == ((n * 7 + p * 13 + Seed * 5 + s * 3) % 19) - 9 IN IF v = 0 THEN 5 ELSE v
\* FFT.seq: the spectrum of a real sequence has real elements at 0 and (n even) n/2
ImAllowed(kind, n, p) == CplxIn(kind) /\ ~(kind = "FFT.seq" /\ (p = 0 \/ 2 * p = n))
Elem(kind, n, p, s) == <<p, Val(n, p, s), IF ImAllowed(kind, n, p) THEN Val(n, p, s + 1) ELSE 0>>

\* positions whose impulse has a fully known transform (prefiltered on three outputs)
Pre(kind, n, p) == \A i \in {0, 1 % OutLen(kind, n), 2 % OutLen(kind, n), 3 % OutLen(kind, n)} : TermKnown(kind, n, p, i)
FullPos(kind, n) == {p \in 0 .. InLen(kind, n) - 1 :
                        Pre(kind, n, p) /\ \A i \in 0 .. OutLen(kind, n) - 1 : TermKnown(kind, n, p, i)}
RECURSIVE SetToSeq(_)
SetToSeq(S) == IF S = {} THEN <<>> ELSE LET m == CHOOSE x \in S : \A y \in S : x <= y IN <<m>> \o SetToSeq(S \ {m})

(* Families (cs.fam):
   0      all fully-known impulse positions at once, distinct coefficients
   1..4   the j-th fully-known position alone
   5, 6   an impulse at a seed-chosen position (only some outputs known: masked)
   7..19  n <= 4: a dense seed-chosen vector
   20     weighted sum of the combs of all steps s | n (complex / real FFT and radix kinds) *)
Sparse(kind, n, fam) ==
    IF kind = "H.as" THEN <<>> ELSE
    LET fp == SetToSeq(FullPos(kind, n))
        L  == InLen(kind, n)
    IN CASE fam = 0 -> [j \in 1 .. Len(fp) |-> Elem(kind, n, fp[j], j)]
         [] fam \in 1 .. 4 -> IF fam <= Len(fp) THEN <<Elem(kind, n, fp[fam], 7)>> ELSE <<>>
         [] fam \in 5 .. 6 -> LET p == (Seed * 31 + n * 17 + fam * 101) % L IN
                              IF p \in FullPos(kind, n) THEN <<>> ELSE <<Elem(kind, n, p, fam)>>
         [] fam = 20 -> <<>>
         [] OTHER -> IF n <= 4 THEN [j \in 1 .. L |-> Elem(kind, n, j - 1, fam + j)] ELSE <<>>

Abs(v) == IF v < 0 THEN -v ELSE v
\* |v|_1 of a flat vector of known length (the length is passed: v may be an unevaluated function)
RECURSIVE L1(_, _, _)
L1(v, lo, hi) == \* (divide and conquer: TLC evaluates deep linear recursion in quadratic time)
    IF lo > hi THEN 0 ELSE IF lo = hi THEN Abs(v[lo])
    ELSE LET m == (lo + hi) \div 2 IN L1(v, lo, m) + L1(v, m + 1, hi)
FlatIn(kind, n)  == IF CplxIn(kind)  THEN 2 * InLen(kind, n)  ELSE InLen(kind, n)
FlatOut(kind, n) == IF CplxOut(kind) THEN 2 * OutLen(kind, n) ELSE OutLen(kind, n)

\* dense flat vectors (complex: re, im interleaved)
DenseOf(sp, L, cplx) ==
    LET at(p) == LET S == {j \in 1 .. Len(sp) : sp[j][1] = p} IN
                 IF S = {} THEN <<0, 0>> ELSE LET j == CHOOSE j \in S : TRUE IN <<sp[j][2], sp[j][3]>>
    IN IF cplx THEN [q \in 1 .. 2 * L |-> at((q - 1) \div 2)[1 + ((q - 1) % 2)]]
       ELSE [q \in 1 .. L |-> at(q - 1)[1]]
OutVec(kind, n, sp) ==
    LET L == OutLen(kind, n)
        o == [i \in 0 .. L - 1 |-> IF OutKnown(kind, n, sp, i) THEN Out(kind, n, sp, i) ELSE <<0, 0>>]
    IN IF CplxOut(kind) THEN [q \in 1 .. 2 * L |-> o[(q - 1) \div 2][1 + ((q - 1) % 2)]]
       ELSE [q \in 1 .. L |-> o[q - 1][1]]
MaskVec(kind, n, sp) == [i \in 1 .. OutLen(kind, n) |-> IF OutKnown(kind, n, sp, i - 1) THEN 1 ELSE 0]
ScaleVec(v, s, L) == [q \in 1 .. L |-> s * v[q]]

\* Tolerance of the comparison in units of 2^-52 * |input|_1.  "To rounding" for these algorithms: FFTPACK's
\* passes for the factors 2,3,4,5 lose O(eps) per pass, but its general-radix pass (prime factors p > 5)
\* builds twiddles by recurrences and sums p terms with them; measured on the unchanged library the error
\* for prime lengths is about 0.2 p^2 eps |x|_1 (p = 331: 4e3 eps, p = 7027: 7e6 eps relative to |x|_1), for
\* smooth lengths below 64 n eps |x|_1; the radix-2/4 routines document accumulation in their successively
\* multiplied twiddles.  DCT, DST and the quarter-wave transforms run real FFTs of length n-1, n+1 and n, so
\* the largest prime factor G of those three lengths is used.  The bound leaves a factor >= 16 (smooth) and
\* about 40 (prime) over the measured errors and is still 6 (p = 10^4) to 10 orders of magnitude below the
\* effect of an index, sign, scale, stride or aliasing error, which is O(|x|_1).
SmallDivs(m) == {d \in 2 .. 101 : d * d <= m /\ m % d = 0}
RECURSIVE LPF(_)   \* largest prime factor, m <= 101^2
LPF(m) == IF SmallDivs(m) = {} THEN m
          ELSE LPF(m \div (CHOOSE d \in SmallDivs(m) : \A e \in SmallDivs(m) : d <= e))
Max3(a, b, c) == IF a >= b /\ a >= c THEN a ELSE IF b >= c THEN b ELSE c
G(n) == Max3(LPF(n), LPF(n + 1), IF n > 1 THEN LPF(n - 1) ELSE 1)
TolK(kind, n) == 1024 * n + 8 * G(n) * G(n)
LpfSound == \A m \in 1 .. 60 :
              /\ m % LPF(m) = 0
              /\ \A d \in 2 .. LPF(m) - 1 : LPF(m) % d # 0
              /\ \A q \in LPF(m) + 1 .. m : m % q = 0 => \E d \in 2 .. q - 1 : q % d = 0

CaseA(kind, n, fam, sp) ==
    LET x == DenseOf(sp, InLen(kind, n), CplxIn(kind)) IN
    [k |-> kind, n |-> n, fam |-> fam, dir |-> "A", x |-> x, want |-> OutVec(kind, n, sp),
     mask |-> IF FullyKnown(kind, n, sp) THEN <<>> ELSE MaskVec(kind, n, sp),
     l1 |-> L1(x, 1, FlatIn(kind, n)), tolk |-> TolK(kind, n)]
\* the exact transform of sp, fed to the inverse transform
CaseB(kind, n, fam, sp) ==
    LET x == OutVec(kind, n, sp) IN
    [k |-> Inv(kind), n |-> n, fam |-> fam, dir |-> "B", x |-> x,
     want |-> ScaleVec(DenseOf(sp, InLen(kind, n), CplxIn(kind)), Scale(kind, n), FlatIn(kind, n)),
     mask |-> <<>>, l1 |-> L1(x, 1, FlatOut(kind, n)), tolk |-> TolK(kind, n)]


(********************************** combs ***********************************)
CombKinds == {"C.coef", "C.seq", "FFT.coef", "FFT.seq", "R2.coef", "R2.seq", "R4.coef", "R4.seq"}
Divs(n) == {s \in 1 .. n : n % s = 0}
\* weight of the comb of step s: Gaussian for complex input, real for the real FFT (both directions:
\* the spectrum of a real comb is a real comb)
CombW(kind, n, s) == <<Val(n, s, 0), IF kind \in {"FFT.coef", "FFT.seq"} THEN 0 ELSE Val(n, s, 1)>>
RECURSIVE SumW(_, _, _, _)
SumW(kind, n, S, part) == IF S = {} THEN 0
                          ELSE LET s == CHOOSE t \in S : TRUE IN CombW(kind, n, s)[part] + SumW(kind, n, S \ {s}, part)
RECURSIVE SumWS(_, _, _, _)
SumWS(kind, n, S, part) == IF S = {} THEN 0
                           ELSE LET s == CHOOSE t \in S : TRUE IN (n \div s) * CombW(kind, n, s)[part] + SumWS(kind, n, S \ {s}, part)
\* x[m] = sum of the weights of the steps dividing m;  X[k] = sum over steps s with (n/s) | k of (n/s) * weight
\* (D = Divs(n), passed so that it is computed once)
CombIn(kind, n, D, m, part)  == SumW(kind, n, {s \in D : m % s = 0}, part)
CombOut(kind, n, D, k, part) == SumWS(kind, n, {s \in D : k % (n \div s) = 0}, part)
CombCase(kind, n) ==
    LET LI == InLen(kind, n)
        LO == OutLen(kind, n)
        D  == Divs(n)
        x  == IF CplxIn(kind) THEN [q \in 1 .. 2 * LI |-> CombIn(kind, n, D, (q - 1) \div 2, 1 + ((q - 1) % 2))]
              ELSE [q \in 1 .. LI |-> CombIn(kind, n, D, q - 1, 1)]
        w  == IF CplxOut(kind) THEN [q \in 1 .. 2 * LO |-> CombOut(kind, n, D, (q - 1) \div 2, 1 + ((q - 1) % 2))]
              ELSE [q \in 1 .. LO |-> CombOut(kind, n, D, q - 1, 1)]
    IN [k |-> kind, n |-> n, fam |-> 20, dir |-> "A", x |-> x, want |-> w, mask |-> <<>>,
        l1 |-> L1(x, 1, FlatIn(kind, n)), tolk |-> TolK(kind, n)]
\* the closed form against the table-based defining sum, for every step whose cycle length n/s is 1, 2 or 4
CombTheorem(kind, n) ==
    \A s \in Divs(n) : (n \div s) \in {1, 2, 4} /\ (kind # "FFT.seq" \/ s = n) =>
        LET r  == n \div s
            sp == [j \in 1 .. r |-> <<(j - 1) * s, 1, 0>>]
        IN /\ FullyKnown(kind, n, sp)
           /\ \A k \in 0 .. OutLen(kind, n) - 1 : Out(kind, n, sp, k) = <<IF k % r = 0 THEN r ELSE 0, 0>>


(***************************** analytic signal ******************************)
(* transform.Hilbert.AnalyticSignal: z = IDFT(h .* DFT(x)) / n with h[0] = 1, h[k] = 2 for 0 < k < n/2,     *)
(* h[n/2] = 1 (n even), h[k] = 0 above.  Exactly statable: (30) a constant c gives c + 0i everywhere (the   *)
(* spectrum of a constant is n c at k = 0: comb theorem); (31) for ANY real x the real part is x - the       *)
(* clause "the analytic signal has the input as its real part" - imaginary parts masked; (33) n in {1,2,4}:  *)
(* both sums are computable for arbitrary data, the result is emitted as numerators over den = n.            *)
HW(n, k) == IF k = 0 THEN 1 ELSE IF 2 * k < n THEN 2 ELSE IF 2 * k = n THEN 1 ELSE 0
HData(n, fam) == [j \in 1 .. n |-> Val(n, j - 1, fam)]
HilbertCase(n, fam) ==
    LET x == IF fam = 30 THEN [j \in 1 .. n |-> Val(n, 0, 30)] ELSE HData(n, fam)
        base == [k |-> "H.as", n |-> n, fam |-> fam, dir |-> "A", x |-> x, l1 |-> L1(x, 1, n),
                 tolk |-> TolK("C.coef", n)]
    IN CASE fam = 30 -> base @@ [want |-> [q \in 1 .. 2 * n |-> IF q % 2 = 1 THEN x[1] ELSE 0], mask |-> <<>>, den |-> 1]
         [] fam = 31 -> base @@ [want |-> [q \in 1 .. 2 * n |-> IF q % 2 = 1 THEN x[(q + 1) \div 2] ELSE 0],
                                 mask |-> [q \in 1 .. 2 * n |-> q % 2], den |-> 1]
         [] OTHER ->   \* n in {1,2,4}: two computable sums
              LET sp == [j \in 1 .. n |-> <<j - 1, x[j], 0>>]
                  Y  == [j \in 1 .. n |-> LET X == Out("C.coef", n, sp, j - 1) IN
                                           <<j - 1, HW(n, j - 1) * X[1], HW(n, j - 1) * X[2]>>]
              IN base @@ [want |-> OutVec("C.seq", n, Y), mask |-> <<>>, den |-> n]
HilbertOK(n, fam) == fam \in {30, 31} \/ (fam = 33 /\ n \in {1, 2, 4})
\* for n in {1,2,4} the real-part clause and the constant case are theorems of the two sums
HilbertTheorem ==
    \A n \in {1, 2, 4} :
       LET c == HilbertCase(n, 33) IN
       \A j \in 1 .. n : c.want[2 * j - 1] = n * c.x[j]

(****************************** state space *********************************)
\* (the sparse vector of the case is part of the state so that it is evaluated once)
Init == cs \in {[kind |-> c[1], n |-> c[2], fam |-> c[3], sp |-> Sparse(c[1], c[2], c[3])] :
                  c \in {d \in Kinds \X (NLo .. NHi) \X Fams : ValidN(d[1], d[2])}}
Next == UNCHANGED cs
Spec == Init /\ [][Next]_vars

SP == cs.sp
HasCase == Len(SP) > 0 /\ \E i \in 0 .. OutLen(cs.kind, cs.n) - 1 : OutKnown(cs.kind, cs.n, SP, i)

\* FFT.seq of a Hermitian half spectrum is real by construction of Term; the complex kinds
\* need no such side condition.  The tables are checked once (in the state n = NLo, fam = least).
TablesOK == (cs.n = NLo /\ \A f \in Fams : cs.fam <= f) => (TrigTablesSound /\ LpfSound /\ HilbertTheorem)

\* position 0 is always fully known for the kinds whose sum has a constant term in k = 0
ImpulseAlways == (cs.kind \in {"C.coef", "C.seq", "FFT.coef", "FFT.seq", "DCT.t", "QW.cosc", "R2.coef", "R2.seq", "R4.coef", "R4.seq"})
                    => 0 \in FullPos(cs.kind, cs.n)

\* Inversion theorem, checked wherever the dense sum of the inverse transform is itself known
\* (all of n in {1,2,4}, DCT n in {2,3,4}, ...): Inv(T)(T(x)) = Scale * x.
DenseSp(v, cplx) == IF cplx THEN [j \in 1 .. Len(v) \div 2 |-> <<j - 1, v[2 * j - 1], v[2 * j]>>]
                    ELSE [j \in 1 .. Len(v) |-> <<j - 1, v[j], 0>>]
NonZero(sp) == SelectSeq(sp, LAMBDA e : e[2] # 0 \/ e[3] # 0)
InversionLemma ==
    (cs.n <= 12 /\ HasCase /\ FullyKnown(cs.kind, cs.n, SP)) =>
      LET ik == Inv(cs.kind)
          y  == NonZero(DenseSp(OutVec(cs.kind, cs.n, SP), CplxOut(cs.kind)))
      IN FullyKnown(ik, cs.n, y) =>
           OutVec(ik, cs.n, y) = ScaleVec(DenseOf(SP, InLen(cs.kind, cs.n), CplxIn(cs.kind)), Scale(cs.kind, cs.n), FlatIn(cs.kind, cs.n))

CombOK == (cs.fam = 20 /\ cs.kind \in CombKinds /\ cs.n <= 64) => CombTheorem(cs.kind, cs.n)

EmitCases ==
    /\ (Emit /\ HasCase) =>
         /\ PrintT(ToJson(CaseA(cs.kind, cs.n, cs.fam, SP)))
         /\ FullyKnown(cs.kind, cs.n, SP) => PrintT(ToJson(CaseB(cs.kind, cs.n, cs.fam, SP)))
    /\ (Emit /\ cs.fam = 20 /\ cs.kind \in CombKinds /\ cs.n > 1) => PrintT(ToJson(CombCase(cs.kind, cs.n)))
    /\ (Emit /\ cs.kind = "H.as" /\ HilbertOK(cs.n, cs.fam)) => PrintT(ToJson(HilbertCase(cs.n, cs.fam)))
=============================================================================
