------------------------------- MODULE BlasConv -------------------------------
(* The From conversions of the wrapper packages between a row-major struct      *)
(* (General, Triangular, Symmetric, Hermitian, Band, TriangularBand,            *)
(* SymmetricBand, HermitianBand) and its column-major twin (...Cols):           *)
(*                                                                              *)
(*   "From fills the receiver with elements from a.  The receiver must have     *)
(*    the same dimensions (bandwidth, uplo, diag) as a and have adequate        *)
(*    backing data storage."                                                    *)
(*                                                                              *)
(* Meaning, stated through the storage maps of BlasAddr.tla: source and         *)
(* destination describe the same matrix (one descriptor, two strides); for      *)
(* every cell (i, j) that has a slot in the layout the destination slot of      *)
(* (i, j) receives the value of the source slot of (i, j); every other slot of  *)
(* the destination backing array (stride padding, the other triangle, band      *)
(* corners, the tail) and the whole source keep their values.  The strides of   *)
(* the two sides are independent.  For a Unit triangular matrix the diagonal    *)
(* is not part of the matrix: both "copied" and "left alone" are accepted.      *)
(*                                                                              *)
(* R2 generator: every kind x direction x shape x bandwidth x triangle x        *)
(* diagonal x (source stride extra, destination stride extra) x slack in the    *)
(* bound; TLC checks on every case that the expected destination restricted to  *)
(* the cells is the source restricted to the cells (same abstract matrix) and   *)
(* that nothing else changed, and prints the complete arrays.                   *)
EXTENDS BlasAddr, BlasWrap, TLC, Json

CONSTANTS Cx,        \* BOOLEAN: Gaussian-integer values (cblas64 / cblas128), else integers (blas32 / blas64)
          Seed,
          Dims,      \* rows, columns, n
          Bands,     \* kl, ku, k
          LdExtra,   \* extras over the minimum stride, independently for source and destination
          Slacks     \* extras over the minimum slice length

VARIABLE g
Flags2 == {0, 1}

Kinds == {"ge", "tr", "sy", "gb", "tb", "sb"} \cup (IF Cx THEN {"he", "hb"} ELSE {})

\* logical descriptors (stride filled in per side)
Shapes(kd) ==
    CASE kd = "ge" -> {Desc("ge", r, c, 0, 0, 0, 0, 0) : r \in Dims, c \in Dims}
      [] kd = "gb" -> {Desc("gb", r, c, 0, 0, 0, kl, ku) : r \in Dims, c \in Dims, kl \in Bands, ku \in Bands}
      [] kd = "tr" -> {Desc("tr", n, n, 0, ul, dg, 0, 0) : n \in Dims, ul \in Flags2, dg \in Flags2}
      [] kd \in {"sy", "he"} -> {Desc(kd, n, n, 0, ul, 0, 0, 0) : n \in Dims, ul \in Flags2}
      [] kd = "tb" -> {TriBand("tb", n, k, 0, ul, dg) : n \in Dims, k \in Bands, ul \in Flags2, dg \in Flags2}
      [] kd \in {"sb", "hb"} -> {TriBand(kd, n, k, 0, ul, 0) : n \in Dims, k \in Bands, ul \in Flags2}

Grid == UNION {[d : Shapes(kd), toCols : BOOLEAN, es : LdExtra, ed : LdExtra, sl : Slacks] : kd \in Kinds}

(********************************* layout ************************************)
\* every cell that has a slot (the diagonal of a Unit triangular matrix included)
Full(d) == [d EXCEPT !.dg = NonUnit]
\* side descriptors: rowMajor tells which map applies
SideDesc(d, rowMajor, extra) == [d EXCEPT !.ld = (IF rowMajor THEN MinLd(d) ELSE ColMinLd(d)) + extra]
SideNeed(d, rowMajor)  == IF rowMajor THEN Need(d) ELSE ColNeed(d)
SideSlot(d, rowMajor, i, j) == IF rowMajor THEN Slot(d, i, j) ELSE ColSlot(d, i, j)
SideCell(d, rowMajor, s) == IF rowMajor THEN CellAt(Full(d), s) ELSE ColCellAt(Full(d), s)

(********************************** data *************************************)
PoisonBase == 900000
Poi(rule) == IF Cx THEN <<PoisonBase + rule, PoisonBase + rule>> ELSE PoisonBase + rule
PadNum(s) == IF Cx THEN <<700000 + (s % 50), 700100 + (s % 50)>> ELSE 700000 + (s % 50)
Garb(s)   == IF Cx THEN <<700200 + (s % 50), 700300 + (s % 50)>> ELSE 700200 + (s % 50)
\* distinct values on distinct source slots (|v| < 2^12, exact in float32)
SrcVal(s) == LET v == ((s * 7 + Seed) % 13) - 6 + 16 * (s + 1)
             IN IF Cx THEN <<v, -v - 5>> ELSE v

Src(c) ==
    LET rm == c.toCols
        ds == SideDesc(c.d, rm, c.es)
    IN [q \in 1 .. SideNeed(ds, rm) + c.sl |->
          IF SideCell(ds, rm, q - 1)[1] >= 0 THEN SrcVal(q - 1)
          ELSE IF (q + Seed) % 2 = 0 THEN Poi(1) ELSE PadNum(q - 1)]
Dst(c) ==
    LET rm == ~c.toCols
        dd == SideDesc(c.d, rm, c.ed)
    IN [q \in 1 .. SideNeed(dd, rm) + c.sl |->
          IF SideCell(dd, rm, q - 1)[1] >= 0 THEN Garb(q - 1)
          ELSE IF (q + Seed) % 2 = 1 THEN Poi(2) ELSE PadNum(q - 1)]

\* the destination after From; copyDiag: is the diagonal of a Unit triangular matrix copied?
After(c, copyDiag) ==
    LET ds == SideDesc(c.d, c.toCols, c.es)
        dd == SideDesc(c.d, ~c.toCols, c.ed)
        src == Src(c)
        dst == Dst(c)
    IN [q \in 1 .. Len(dst) |->
          LET ij == SideCell(dd, ~c.toCols, q - 1)
          IN IF ij[1] < 0 THEN dst[q]
             ELSE IF ~copyDiag /\ ij[1] = ij[2] /\ c.d.dg = Unit /\ c.d.kind \in TriKinds THEN dst[q]
             ELSE src[SideSlot(ds, c.toCols, ij[1], ij[2]) + 1]]

Case(c) ==
    LET ds == SideDesc(c.d, c.toCols, c.es)
        dd == SideDesc(c.d, ~c.toCols, c.ed)
    IN [kind |-> "conv", cx |-> Cx, type |-> TypeName(c.d.kind), toCols |-> c.toCols,
        sw |-> StructOf(ds), dw |-> StructOf(dd),
        src |-> Src(c), dst |-> Dst(c), out |-> After(c, TRUE), alt |-> After(c, FALSE),
        samestride |-> (ds.ld = dd.ld)]

(***************************** theorems per case *****************************)
\* source and destination hold the same abstract matrix afterwards, nothing else moved
SameMatrix(c) ==
    LET ds == SideDesc(c.d, c.toCols, c.es)
        dd == SideDesc(c.d, ~c.toCols, c.ed)
        out == After(c, TRUE)
    IN /\ \A ij \in Cells(Full(c.d)) :
            out[SideSlot(dd, ~c.toCols, ij[1], ij[2]) + 1] = Src(c)[SideSlot(ds, c.toCols, ij[1], ij[2]) + 1]
       /\ \A q \in 1 .. Len(out) : SideCell(dd, ~c.toCols, q - 1)[1] < 0 => out[q] = Dst(c)[q]
       /\ Len(out) = Len(Dst(c))
       \* the destination slice is exactly as long as the documented extent plus the slack
       /\ \A ij \in Cells(Full(c.d)) : SideSlot(dd, ~c.toCols, ij[1], ij[2]) < SideNeed(dd, ~c.toCols)

Init == g = [start |-> TRUE]
Next == "start" \in DOMAIN g /\ g' \in Grid
Spec == Init /\ [][Next]_g

CaseOK == ("start" \in DOMAIN g) \/ (SameMatrix(g) /\ PrintT(ToJson(Case(g))))
=============================================================================
