------------------------------- MODULE BlasWrap -------------------------------
(* The typed wrapper packages blas64, blas32, cblas128 and cblas64: how a      *)
(* call of a wrapper function, whose operands are structs (Vector{N, Inc,      *)
(* Data}, General{Rows, Cols, Stride, Data}, Band{Rows, Cols, KL, KU, Stride,   *)
(* Data}, Triangular{N, Stride, Data, Uplo, Diag}, TriangularBand{N, K, ...},   *)
(* TriangularPacked{N, Data, Uplo, Diag}, Symmetric / Hermitian{N, Stride,      *)
(* Data, Uplo}, ...Band{N, K, ...}, ...Packed{N, Data, Uplo}), maps onto the    *)
(* call of the BLAS routine it forwards to.                                     *)
(*                                                                              *)
(* A struct IS an operand descriptor of BlasAddr.tla plus the backing slice:   *)
(* StructOf gives the struct that describes an operand, Forward gives the       *)
(* routine parameters a wrapper derives from its structs (the documented rule   *)
(* of every wrapper: "A is an m x n matrix", Gemm takes m and k from a and n    *)
(* from b according to tA and tB, Symm takes m or n from a.N according to the   *)
(* side, Syrk takes n and k from a according to t and the triangle from c, ...),*)
(* and WrapPanics the documented panics of the Level 1 wrappers.  Theorem       *)
(* WrapFaithful (checked by TLC on every generated case): forwarding the        *)
(* structs that describe the operands of a routine call yields that call.       *)
EXTENDS BlasOperands

Pkgs == {"blas32", "blas64", "cblas64", "cblas128"}
PkgOf(prec) == CASE prec = "S" -> "blas32" [] prec = "D" -> "blas64" [] prec = "C" -> "cblas64" [] prec = "Z" -> "cblas128"

(********************************* structs ***********************************)
TypeName(kind) ==
    CASE kind = "ge" -> "General"          [] kind = "gb" -> "Band"
      [] kind = "sy" -> "Symmetric"        [] kind = "he" -> "Hermitian"
      [] kind = "tr" -> "Triangular"       [] kind = "sb" -> "SymmetricBand"
      [] kind = "hb" -> "HermitianBand"    [] kind = "tb" -> "TriangularBand"
      [] kind = "sp" -> "SymmetricPacked"  [] kind = "hp" -> "HermitianPacked"
      [] kind = "tp" -> "TriangularPacked"

\* every struct is printed with the same fields; a field the Go type does not have is 0
WS(t, rows, cols, n, k, kl, ku, stride, inc, uplo, diag) ==
    [t |-> t, rows |-> rows, cols |-> cols, n |-> n, k |-> k, kl |-> kl, ku |-> ku,
     stride |-> stride, inc |-> inc, uplo |-> uplo, diag |-> diag]

VectorOf(n, inc) == WS("Vector", 0, 0, n, 0, 0, 0, 0, inc, 0, 0)

\* the struct whose fields are the descriptor d (General and Band have Rows and Cols, every other
\* type is square with N; the band types with one triangle stored have K = the number of off-diagonals)
StructOf(d) ==
    IF d.kind \in {"ge", "gb"}
    THEN WS(TypeName(d.kind), d.r, d.c, 0, 0, d.kl, d.ku, d.ld, 0, 0, 0)
    ELSE WS(TypeName(d.kind), 0, 0, d.c, IF d.ul = Upper THEN d.ku ELSE d.kl, 0, 0,
            IF d.kind \in PackedKinds THEN 0 ELSE d.ld, 0, d.ul, IF d.kind \in TriKinds THEN d.dg ELSE 0)

\* and back: the descriptor a struct stands for
DescOf(kind, w) ==
    IF kind \in {"ge", "gb"} THEN Desc(kind, w.rows, w.cols, w.stride, 0, 0, w.kl, w.ku)
    ELSE IF kind \in {"sb", "hb", "tb"} THEN TriBand(kind, w.n, w.k, w.stride, w.uplo, w.diag)
    ELSE Desc(kind, w.n, w.n, w.stride, w.uplo, w.diag, 0, 0)

(* the structs of a wrapper call that expresses routine call (r, p); dx: the    *)
(* x struct claims dx more elements than the call has (0 in every valid call)   *)
WrapArgs(r, p, dx) ==
    [o \in Uses(r) |->
        CASE o = "a" -> StructOf(DescA(r, p))
          [] o = "b" -> StructOf(DescB(r, p))
          [] o = "c" -> StructOf(DescC(r, p))
          [] o = "x" -> VectorOf(LenX(r, p) + dx, p.incx)
          [] o = "y" -> VectorOf(LenY(r, p), p.incy)]

(****************************** wrapper names ********************************)
\* the wrapper function of a routine family (the same name in every package that has it)
WrapFn(r) ==
    CASE r = "dsdot" -> "DDot" [] r = "sdsdot" -> "SDDot" [] r = "rscal" -> "Dscal"
      [] r = "swap" -> "Swap" [] r = "copy" -> "Copy" [] r = "axpy" -> "Axpy" [] r = "scal" -> "Scal"
      [] r = "dot" -> "Dot" [] r = "dotu" -> "Dotu" [] r = "dotc" -> "Dotc" [] r = "asum" -> "Asum"
      [] r = "iamax" -> "Iamax" [] r = "rot" -> "Rot" [] r = "rotm" -> "Rotm" [] r = "nrm2" -> "Nrm2"
      [] r = "gemv" -> "Gemv" [] r = "gbmv" -> "Gbmv" [] r = "symv" -> "Symv" [] r = "hemv" -> "Hemv"
      [] r = "sbmv" -> "Sbmv" [] r = "hbmv" -> "Hbmv" [] r = "spmv" -> "Spmv" [] r = "hpmv" -> "Hpmv"
      [] r = "trmv" -> "Trmv" [] r = "tbmv" -> "Tbmv" [] r = "tpmv" -> "Tpmv" [] r = "trsv" -> "Trsv"
      [] r = "tbsv" -> "Tbsv" [] r = "tpsv" -> "Tpsv" [] r = "ger" -> "Ger" [] r = "geru" -> "Geru"
      [] r = "gerc" -> "Gerc" [] r = "syr" -> "Syr" [] r = "her" -> "Her" [] r = "spr" -> "Spr"
      [] r = "hpr" -> "Hpr" [] r = "syr2" -> "Syr2" [] r = "her2" -> "Her2" [] r = "spr2" -> "Spr2"
      [] r = "hpr2" -> "Hpr2" [] r = "gemm" -> "Gemm" [] r = "symm" -> "Symm" [] r = "hemm" -> "Hemm"
      [] r = "syrk" -> "Syrk" [] r = "herk" -> "Herk" [] r = "syr2k" -> "Syr2k" [] r = "her2k" -> "Her2k"
      [] r = "trmm" -> "Trmm" [] r = "trsm" -> "Trsm"

\* blas32.Rot and blas32.Rotm take the number of points as an explicit argument and do not look
\* at the N fields; in every other package and function n is x.N
ExplicitN(pkg, r) == pkg = "blas32" /\ r \in {"rot", "rotm"}

(******************************* forwarding **********************************)
(* The parameters of the routine call that wrapper r makes for flags fl (the    *)
(* record of flag arguments the wrapper itself takes: tA, tB, sd) and structs   *)
(* w; nexp is the explicit n of blas32.Rot / Rotm.  Fields that the routine     *)
(* does not have keep the neutral values of P0 in BlasGen.tla.                  *)
Forward(pkg, r, fl, w, nexp) ==
    LET z == [tA |-> fl.tA, tB |-> fl.tB, ul |-> 0, dg |-> 0, sd |-> fl.sd, m |-> 0, n |-> 0, k |-> 0,
              kl |-> 0, ku |-> 0, lda |-> 1, ldb |-> 1, ldc |-> 1, incx |-> 1, incy |-> 1]
        vx == IF "x" \in Uses(r) THEN [z EXCEPT !.incx = w.x.inc] ELSE z
        v  == IF "y" \in Uses(r) THEN [vx EXCEPT !.incy = w.y.inc] ELSE vx
        sq(q, a) == [q EXCEPT !.n = a.n, !.ul = a.uplo, !.lda = a.stride]
    IN
    CASE r \in L1Two \cup L1One -> [v EXCEPT !.n = IF ExplicitN(pkg, r) THEN nexp ELSE w.x.n]
      [] r \in {"gemv"} \cup Rank1 -> [v EXCEPT !.m = w.a.rows, !.n = w.a.cols, !.lda = w.a.stride]
      [] r = "gbmv" -> [v EXCEPT !.m = w.a.rows, !.n = w.a.cols, !.kl = w.a.kl, !.ku = w.a.ku, !.lda = w.a.stride]
      [] r \in {"symv", "hemv", "spmv", "hpmv", "syr", "her", "spr", "hpr", "syr2", "her2", "spr2", "hpr2"} -> sq(v, w.a)
      [] r \in {"sbmv", "hbmv"} -> [sq(v, w.a) EXCEPT !.k = w.a.k]
      [] r \in {"trmv", "trsv", "tpmv", "tpsv"} -> [sq(v, w.a) EXCEPT !.dg = w.a.diag]
      [] r \in {"tbmv", "tbsv"} -> [sq(v, w.a) EXCEPT !.dg = w.a.diag, !.k = w.a.k]
      [] r = "gemm" ->
           [v EXCEPT !.m = IF fl.tA = NoTrans THEN w.a.rows ELSE w.a.cols,
                     !.k = IF fl.tA = NoTrans THEN w.a.cols ELSE w.a.rows,
                     !.n = IF fl.tB = NoTrans THEN w.b.cols ELSE w.b.rows,
                     !.lda = w.a.stride, !.ldb = w.b.stride, !.ldc = w.c.stride]
      [] r \in {"symm", "hemm"} ->
           [v EXCEPT !.m = IF fl.sd = Left THEN w.a.n ELSE w.b.rows,
                     !.n = IF fl.sd = Left THEN w.b.cols ELSE w.a.n,
                     !.ul = w.a.uplo, !.lda = w.a.stride, !.ldb = w.b.stride, !.ldc = w.c.stride]
      [] r \in RankK \cup Rank2K ->
           [v EXCEPT !.n = IF fl.tA = NoTrans THEN w.a.rows ELSE w.a.cols,
                     !.k = IF fl.tA = NoTrans THEN w.a.cols ELSE w.a.rows,
                     !.ul = w.c.uplo, !.lda = w.a.stride,
                     !.ldb = IF r \in Rank2K THEN w.b.stride ELSE 1, !.ldc = w.c.stride]
      [] r \in TrMM ->
           [v EXCEPT !.m = w.b.rows, !.n = w.b.cols, !.ul = w.a.uplo, !.dg = w.a.diag,
                     !.lda = w.a.stride, !.ldb = w.b.stride]

\* Nrm2 (reference semantics in BlasNorm.tla) forwards n = x.N and incX = x.Inc
ForwardVec1(w) == [n |-> w.x.n, incx |-> w.x.inc]

(* The documented panics of the wrappers: the two-vector Level 1 functions       *)
(* panic if the lengths of x and y do not match, the one-vector ones (Nrm2,      *)
(* Asum, Iamax, Scal, Dscal) if the increment is negative.  "" = no panic.       *)
WrapPanics(pkg, r, w) ==
    IF r \in L1Two /\ ~ExplicitN(pkg, r) /\ w.x.n # w.y.n THEN "length"
    ELSE IF r \in L1One \cup {"nrm2"} /\ w.x.inc < 0 THEN "neginc"
    ELSE ""

(******************************** theorem ************************************)
\* the fields of the parameter record that routine r has as arguments
PackedFam == {"spmv", "hpmv", "tpmv", "tpsv", "spr", "hpr", "spr2", "hpr2"}
ArgFields(r) ==
    (IF "x" \in Uses(r) THEN {"incx"} ELSE {}) \cup (IF "y" \in Uses(r) THEN {"incy"} ELSE {})
    \cup (IF "a" \in Uses(r) /\ r \notin PackedFam THEN {"lda"} ELSE {})
    \cup (IF "b" \in Uses(r) THEN {"ldb"} ELSE {}) \cup (IF "c" \in Uses(r) THEN {"ldc"} ELSE {})
    \cup {"n"}
    \cup (IF r \in GeMV \cup Rank1 \cup L3Mul \cup TrMM THEN {"m"} ELSE {})
    \cup (IF r \in {"gemm", "sbmv", "hbmv", "tbmv", "tbsv"} \cup RankK \cup Rank2K THEN {"k"} ELSE {})
    \cup (IF r = "gbmv" THEN {"kl", "ku"} ELSE {})
    \cup (IF r \in GeMV \cup TrMV \cup TrSV \cup {"gemm"} \cup RankK \cup Rank2K \cup TrMM THEN {"tA"} ELSE {})
    \cup (IF r = "gemm" THEN {"tB"} ELSE {})
    \cup (IF r \in SyMV \cup TrMV \cup TrSV \cup SyR \cup SyR2 \cup {"symm", "hemm"} \cup RankK \cup Rank2K \cup TrMM
          THEN {"ul"} ELSE {})
    \cup (IF r \in TrMV \cup TrSV \cup TrMM THEN {"dg"} ELSE {})
    \cup (IF r \in {"symm", "hemm"} \cup TrMM THEN {"sd"} ELSE {})

\* forwarding the structs that describe the operands of call (r, p) makes exactly that call, and
\* each struct stands for the descriptor of its operand
WrapFaithful(pkg, r, p) ==
    LET w == WrapArgs(r, p, 0)
        f == Forward(pkg, r, p, w, p.n)
    IN /\ \A fld \in ArgFields(r) : f[fld] = p[fld]
       /\ "a" \in Uses(r) => DescOf(DescA(r, p).kind, w.a) = DescA(r, p)
       /\ "b" \in Uses(r) => DescOf("ge", w.b) = DescB(r, p)
       /\ "c" \in Uses(r) => DescOf(DescC(r, p).kind, w.c) = DescC(r, p)
=============================================================================
