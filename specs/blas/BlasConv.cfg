SPECIFICATION Spec
CONSTANTS
  Cx = @CX@
  Seed = @SEED@
  Dims = @DIMS@
  Bands = @BANDS@
  LdExtra = @LDEXTRA@
  Slacks = @SLACKS@
INVARIANTS CaseOK
CHECK_DEADLOCK FALSE
