------------------------------- MODULE BlasNorm -------------------------------
(* Reference semantics of the Level 1 routines whose results are not integers:  *)
(* nrm2 (Snrm2, Dnrm2, Scnrm2, Dznrm2), rotg (Srotg, Drotg) and rotmg (Srotmg,  *)
(* Drotmg), on data where the exact result is a rational number that TLC can    *)
(* compute, together with their wrappers Nrm2 / Rotg / Rotmg of the typed       *)
(* packages.  Every expected value is printed as an exact rational              *)
(* <<num, den, e>> = (num / den) * 2^e with a tolerance in units of the machine *)
(* epsilon of the precision (the property's "standard rounding bound"); the     *)
(* harness compares with math/big and has no formula of its own.                *)
(*                                                                              *)
(* nrm2   vectors whose sum of squares is a perfect square (all vectors of      *)
(*        length <= MaxLen over -K..K with that property, plus the classic      *)
(*        triples), repeated q^2 times (norm q * r; lengths up to 64 reach the   *)
(*        unrolled kernels and their tails), increments, and all elements       *)
(*        scaled by 2^+E or 2^-E where E is so large that the squares overflow  *)
(*        / underflow while the norm itself is representable.  A negative       *)
(*        increment returns 0 (documented); the wrapper panics.                 *)
(* rotg   all integer pairs (a, b) in -R..R with a^2 + b^2 a perfect square     *)
(*        (the axes, (0, 0), the Pythagorean pairs and all their sign           *)
(*        combinations), also scaled by 2^+-E: r = sigma * h with the           *)
(*        documented sign rule, c = a / r, s = b / r, z by the documented rule. *)
(* rotmg  the modified Givens construction as defined by the reference BLAS     *)
(*        (the documentation refers to it) over dyadic inputs, with the         *)
(*        rescaling window [gam^-2, gam^2], gam = 4096; outcomes with every     *)
(*        flag value -2, -1, 0, 1 and the error outcome.                        *)
(* Lemmas checked by TLC on every case guard the oracle: the rotg values        *)
(* satisfy c a + s b = r, c b - s a = 0, c^2 + s^2 = 1, c >= 0 when |a| > |b|,  *)
(* and (c, s) can be reconstructed from z by the documented rule; the rotmg     *)
(* values satisfy H (x1, y1)^T = (rx1, 0)^T (in the scaled sense) and           *)
(* H^T diag(rd1, rd2) H = diag(d1, d2), i.e. D'^(1/2) H D^(-1/2) is orthogonal. *)
EXTENDS BlasAddr, BlasWrap, FiniteSets, TLC, Json

CONSTANTS Seed,
          K, MaxLen,     \* nrm2 base vectors: length 0..MaxLen over -K..K
          Reps,          \* repetition counts (perfect squares)
          NrmIncs,       \* positive increments of the nrm2 cases
          NrmNeg,        \* magnitudes of the negative increments of the nrm2 cases
          R,             \* rotg pairs range over -R..R
          Stride,        \* keep one nrm2 case in Stride (1: all); rotg cases are all kept
          StrideG        \* keep one rotmg case in StrideG

VARIABLE g

(******************************* integers ************************************)
RECURSIVE Pow2(_)
Pow2(k) == IF k = 0 THEN 1 ELSE 2 * Pow2(k - 1)
RECURSIVE GCD(_, _)
GCD(a, b) == IF b = 0 THEN a ELSE GCD(b, a % b)
IsSq(s) == \E r \in 0 .. s : r * r = s
Root(s) == CHOOSE r \in 0 .. s : r * r = s
Sgn(v)  == IF v > 0 THEN 1 ELSE IF v < 0 THEN -1 ELSE 0
RECURSIVE SumSq(_)
SumSq(v) == IF v = <<>> THEN 0 ELSE v[1] * v[1] + SumSq(Tail(v))

(**************************** exact rationals ********************************)
(* <<n, d, e>> = (n / d) * 2^e, d > 0, n and d odd and coprime (n = 0: <<0,1,0>>) *)
RECURSIVE Twos(_)
Twos(n) == IF n % 2 # 0 THEN 0 ELSE 1 + Twos(n \div 2)        \* n # 0
QLimit == 16384
QNorm(n, d, e) ==
    IF n = 0 THEN <<0, 1, 0>>
    ELSE LET s  == IF d < 0 THEN -1 ELSE 1
             gg == GCD(Abs(n), Abs(d))
             n1 == (s * n) \div gg
             d1 == Abs(d) \div gg
             tn == Twos(n1)
             td == Twos(d1)
             q  == <<n1 \div Pow2(tn), d1 \div Pow2(td), e + tn - td>>
         IN IF Abs(q[1]) < QLimit /\ q[2] < QLimit THEN q
            ELSE Assert(FALSE, <<"rational outside the arithmetic bound", n, d, e>>)
Q(n)        == QNorm(n, 1, 0)
QD(n, e)    == QNorm(n, 1, e)                 \* the dyadic n * 2^e
QZero       == <<0, 1, 0>>
QOne        == <<1, 1, 0>>
QMul(a, b)  == QNorm(a[1] * b[1], a[2] * b[2], a[3] + b[3])
QNeg(a)     == <<-a[1], a[2], a[3]>>
QInv(a)     == QNorm(Sgn(a[1]) * a[2], Abs(a[1]), -a[3])          \* a # 0
QDiv(a, b)  == QMul(a, QInv(b))
QSign(a)    == Sgn(a[1])
QAbs(a)     == <<Abs(a[1]), a[2], a[3]>>
QAdd(a, b)  ==
    IF a[1] = 0 THEN b ELSE IF b[1] = 0 THEN a
    ELSE LET e == Min(a[3], b[3])
         IN IF a[3] - e > 14 \/ b[3] - e > 14 THEN Assert(FALSE, <<"sum outside the arithmetic bound", a, b>>)
            ELSE QNorm(a[1] * b[2] * Pow2(a[3] - e) + b[1] * a[2] * Pow2(b[3] - e), a[2] * b[2], e)
\* |a| > |b| for non-zero a, b: A * 2^ga > B  <=>  A > B div 2^ga
QAbsGt(a, b) ==
    IF a[1] = 0 THEN FALSE ELSE IF b[1] = 0 THEN TRUE
    ELSE LET ga == a[3] - b[3]
             A  == Abs(a[1]) * b[2]
             B  == Abs(b[1]) * a[2]
         IN IF ga > 28 THEN TRUE ELSE IF ga < -28 THEN FALSE
            ELSE IF ga >= 0 THEN A > B \div Pow2(ga)
            ELSE LET P == Pow2(-ga) IN A \div P > B \/ (A \div P = B /\ A % P > 0)
QEq(a, b) == a = b

(********************************* nrm2 **************************************)
Classic == {<<5, 12>>, <<-12, 5>>, <<8, -15>>, <<15, 8>>, <<9, 12, 20>>, <<2, 3, 6>>, <<1, 4, 8>>, <<4, -4, 7>>,
            <<2, 6, 9>>, <<6, 6, 7>>, <<1, 2, 2, 4>>, <<2, 4, 5, 6>>, <<1, 1, 3, 5>>, <<-7>>, <<0, 0, 5>>,
            <<1, 1, 1, 1, 2, 2, 2, 2, 4>>, <<3, 4, 12, 84>>}
Bases == {v \in UNION {[1 .. l -> -K .. K] : l \in 0 .. MaxLen} : IsSq(SumSq(v))} \cup Classic

\* scale classes: 0 none, 1 up, 2 down.  The exponent is per precision: squares of the scaled
\* elements are not representable (overflow / underflow to zero), the norm is.
ScaleExp == [S |-> 80, D |-> 600]

NrmGrid == [v : Bases, rep : Reps, inc : NrmIncs \cup {-i : i \in NrmNeg}, sc : {0, 1, 2}, sl : {0, 2}, cx : BOOLEAN]
HP == 46337
NrmHash(c) == ((Len(c.v) * 31 + SumSq(c.v) * 17 + c.rep * 7 + (c.inc + 5) * 131 + c.sc * 1009 + c.sl * 37
               + (IF c.cx THEN 5 ELSE 0) + (IF c.v = <<>> THEN 0 ELSE (c.v[1] + 50) * 211) + Seed * 7919) % HP)
NrmCases == {c \in NrmGrid : (~c.cx \/ Len(c.v) % 2 = 0) /\ NrmHash(c) % Stride = 0}

PoisonBase == 900000
NrmCase(c) ==
    LET lv  == Len(c.v)
        nr  == lv * c.rep                               \* real components
        el(i) == c.v[(i % lv) + 1]                      \* component i, 0-based
        n   == IF c.cx THEN nr \div 2 ELSE nr           \* elements
        len == VecNeed(n, c.inc) + c.sl
        q   == Root(c.rep)
        x   == [s \in 1 .. len |->
                  LET i == VecElem(n, c.inc, s - 1)
                  IN IF i < 0 THEN (IF c.cx THEN <<PoisonBase + 1, PoisonBase + 1>> ELSE PoisonBase + 1)
                     ELSE IF c.cx THEN <<el(2 * i), el(2 * i + 1)>> ELSE el(i)]
        w   == [x |-> VectorOf(n, c.inc)]
    IN [kind |-> "nrm2", cx |-> c.cx, n |-> n, inc |-> c.inc, sc |-> c.sc, scexp |-> ScaleExp, x |-> x,
        \* a negative increment returns 0 (documented)
        ret |-> IF c.inc < 0 THEN 0 ELSE q * Root(SumSq(c.v)),
        tolk |-> 2 * nr + 8,
        fn |-> WrapFn("nrm2"), w |-> w, fwd |-> ForwardVec1(w),
        wpanic |-> WrapPanics("any", "nrm2", w)]
NrmOK(c) == IsSq(c.rep) /\ (c.v # <<>> => SumSq([i \in 1 .. Len(c.v) * c.rep |-> c.v[((i - 1) % Len(c.v)) + 1]])
                                              = (Root(c.rep) * Root(SumSq(c.v))) * (Root(c.rep) * Root(SumSq(c.v))))

(********************************* rotg **************************************)
RotgPairs == {ab \in (-R .. R) \X (-R .. R) : IsSq(ab[1] * ab[1] + ab[2] * ab[2])}
RotgGrid == [ab : RotgPairs, sc : {0, 1, 2}]

\* the documented definition
RotgRef(a, b) ==
    LET h     == Root(a * a + b * b)
        sigma == IF Abs(a) > Abs(b) THEN Sgn(a) ELSE Sgn(b)
        r     == sigma * h
        c     == IF r = 0 THEN QOne ELSE QNorm(a, r, 0)
        s     == IF r = 0 THEN QZero ELSE QNorm(b, r, 0)
        z     == IF Abs(a) > Abs(b) THEN s ELSE IF c # QZero THEN QInv(c) ELSE QOne
    IN [r |-> r, c |-> c, s |-> s, z |-> z]
RotgCase(c) ==
    LET a == c.ab[1]
        b == c.ab[2]
        ref == RotgRef(a, b)
    IN [kind |-> "rotg", a |-> a, b |-> b, sc |-> c.sc, scexp |-> ScaleExp,
        r |-> ref.r, c |-> ref.c, s |-> ref.s, z |-> ref.z,
        \* a = b = 0: the rule gives z = 1 / c = 1 read literally, the reference BLAS returns 0; both accepted
        zalt |-> IF a = 0 /\ b = 0 THEN QZero ELSE ref.z,
        tolk |-> 8]
\* lemmas: the defining equations, the sign convention, and reconstruction of (c, s) from z
RotgOK(c) ==
    LET a == c.ab[1]
        b == c.ab[2]
        ref == RotgRef(a, b)
        cc == ref.c   ss == ref.s   z == ref.z
        sq(v) == QMul(v, v)
    IN /\ QAdd(QMul(cc, Q(a)), QMul(ss, Q(b))) = Q(ref.r)
       /\ QAdd(QMul(cc, Q(b)), QNeg(QMul(ss, Q(a)))) = QZero
       /\ QAdd(sq(cc), sq(ss)) = QOne
       /\ ref.r * ref.r = a * a + b * b
       /\ Abs(a) > Abs(b) => QSign(cc) > 0
       /\ (a # 0 \/ b # 0) =>
            IF z = QOne THEN cc = QZero /\ ss = QOne
            ELSE IF QAbsGt(QOne, z) THEN ss = z /\ QSign(cc) >= 0 /\ sq(cc) = QAdd(QOne, QNeg(sq(z)))
            ELSE cc = QInv(z) /\ QSign(ss) >= 0 /\ sq(ss) = QAdd(QOne, QNeg(sq(cc)))

(********************************* rotmg *************************************)
GamE == 12                                   \* gam = 2^12 = 4096, gam^2 = 2^24
GamSq == QD(1, 2 * GamE)
RGamSq == QD(1, -2 * GamE)
QLe(a, b) == ~QAbsGt(a, b)                   \* for non-negative a, b
ScaleBy(a, k) == IF a[1] = 0 THEN a ELSE <<a[1], a[2], a[3] + k>>

\* dyadic inputs <<mantissa, exponent>>
Mant1 == {0, 1, 3}            \* d1 (a negative d1 is the error outcome: one representative)
MantD == {0, 1, 3, -1, -3}
ExpD  == {-37, -26, -13, -1, 0, 1, 2, 13, 25, 37}
ValsX == {<<0, 0>>, <<1, 0>>, <<-1, 0>>, <<1, 1>>, <<3, 0>>, <<-3, -1>>, <<1, -1>>, <<1, 7>>, <<-1, -6>>}
DVals(M) == {<<m, IF m = 0 THEN 0 ELSE e>> : m \in M, e \in ExpD}
RotmgGrid == [d1 : DVals(Mant1) \cup {<<-1, 0>>, <<-3, 13>>}, d2 : DVals(MantD), x1 : ValsX, y1 : ValsX]

\* one outcome: flag, H = <<h11, h21, h12, h22>> (column-major, as in DrotmParams.H), which entries of H
\* are defined for the flag, and the updated d1, d2, x1
Outcome(flag, h, mask, d1, d2, x1) == [flag |-> flag, h |-> h, mask |-> mask, rd1 |-> d1, rd2 |-> d2, rx1 |-> x1]
ErrorOutcome == Outcome(-1, <<QZero, QZero, QZero, QZero>>, <<TRUE, TRUE, TRUE, TRUE>>, QZero, QZero, QZero)

\* rescaling of one of d1 / d2 into the window; st = [d, a, b, x, n]: the d, the two entries of H that
\* scale with it, x1 (only for d1) and the number of rescalings; hit: a test met the upper edge exactly
RECURSIVE Rescale(_, _)
Rescale(st, withX) ==
    IF st.d[1] = 0 THEN st
    ELSE IF QLe(QAbs(st.d), RGamSq)
         THEN Rescale([st EXCEPT !.d = ScaleBy(st.d, 2 * GamE), !.a = ScaleBy(st.a, -GamE), !.b = ScaleBy(st.b, -GamE),
                                 !.x = IF withX THEN ScaleBy(st.x, -GamE) ELSE st.x, !.n = st.n + 1], withX)
    ELSE IF QAbs(st.d) = GamSq THEN [st EXCEPT !.hit = TRUE]
    ELSE IF QAbsGt(st.d, GamSq)
         THEN Rescale([st EXCEPT !.d = ScaleBy(st.d, -2 * GamE), !.a = ScaleBy(st.a, GamE), !.b = ScaleBy(st.b, GamE),
                                 !.x = IF withX THEN ScaleBy(st.x, GamE) ELSE st.x, !.n = st.n + 1], withX)
    ELSE st

\* the construction (reference BLAS drotmg); h22free: in the corner d1 = 0, x1 # 0 the entry h22 multiplies a
\* zero weight, and x1 / y1 (reference) and 0 (Hopkins' variant, which gonum follows) are both legal
RotmgRef(d1, d2, x1, y1, h22zero) ==
    IF QSign(d1) < 0 THEN [out |-> ErrorOutcome, hit |-> FALSE]
    ELSE LET p2 == QMul(d2, y1) IN
    IF p2 = QZero THEN [out |-> Outcome(-2, <<QZero, QZero, QZero, QZero>>, <<FALSE, FALSE, FALSE, FALSE>>, d1, d2, x1),
                        hit |-> FALSE]
    ELSE LET p1 == QMul(d1, x1)
             q2 == QMul(p2, y1)
             q1 == QMul(p1, x1)
         IN
         IF ~QAbsGt(q1, q2) /\ QSign(q2) < 0 THEN [out |-> ErrorOutcome, hit |-> FALSE]
         ELSE LET off == QAbsGt(q1, q2)
                  \* flag 0: H = (1 h12; h21 1);  flag 1: H = (h11 1; -1 h22)
                  h11 == IF off THEN QOne ELSE QDiv(p1, p2)
                  h22 == IF off THEN QOne ELSE IF h22zero THEN QZero ELSE QDiv(x1, y1)
                  h21 == IF off THEN QNeg(QDiv(y1, x1)) ELSE QNeg(QOne)
                  h12 == IF off THEN QDiv(p2, p1) ELSE QOne
                  u   == IF off THEN QAdd(QOne, QNeg(QMul(h12, h21))) ELSE QAdd(QOne, QMul(QDiv(p1, p2), QDiv(x1, y1)))
                  nd1 == IF off THEN QDiv(d1, u) ELSE QDiv(d2, u)
                  nd2 == IF off THEN QDiv(d2, u) ELSE QDiv(d1, u)
                  nx1 == IF off THEN QMul(x1, u) ELSE QMul(y1, u)
                  s1  == Rescale([d |-> nd1, a |-> h11, b |-> h12, x |-> nx1, n |-> 0, hit |-> FALSE], TRUE)
                  s2  == Rescale([d |-> nd2, a |-> h21, b |-> h22, x |-> QZero, n |-> 0, hit |-> FALSE], FALSE)
                  scaled == s1.n + s2.n > 0
                  flag == IF scaled THEN -1 ELSE IF off THEN 0 ELSE 1
                  mask == IF scaled THEN <<TRUE, TRUE, TRUE, TRUE>>
                          ELSE IF off THEN <<FALSE, TRUE, TRUE, FALSE>> ELSE <<TRUE, FALSE, FALSE, TRUE>>
              IN [out |-> Outcome(flag, <<s1.a, s2.a, s1.b, s2.b>>, mask, s1.d, s2.d, s1.x),
                  hit |-> s1.hit \/ s2.hit]

In(c) == [d1 |-> QD(c.d1[1], c.d1[2]), d2 |-> QD(c.d2[1], c.d2[2]), x1 |-> QD(c.x1[1], c.x1[2]), y1 |-> QD(c.y1[1], c.y1[2])]
\* keep the arithmetic small: the two weights q1, q2 are within 2^6 of each other (or one is zero)
Tame(c) ==
    LET i == In(c)
        q1 == QMul(QMul(i.d1, i.x1), i.x1)
        q2 == QMul(QMul(i.d2, i.y1), i.y1)
    IN q1 = QZero \/ q2 = QZero \/ Abs(q1[3] - q2[3]) <= 6
Corner(c) == c.d1[1] = 0 /\ c.x1[1] # 0 /\ c.d2[1] > 0 /\ c.y1[1] # 0
GHash(c) == ((c.d1[1] + 5) * 7 + (c.d1[2] + 40) * 131 + (c.d2[1] + 5) * 1009 + (c.d2[2] + 40) * 37 + (c.x1[1] + 5) * 211
             + (c.x1[2] + 10) * 17 + (c.y1[1] + 5) * 3001 + (c.y1[2] + 10) * 613 + Seed * 7919) % HP
RotmgCases == {c \in RotmgGrid : GHash(c) % StrideG = 0 /\ Tame(c) /\ ~RotmgRef(In(c).d1, In(c).d2, In(c).x1, In(c).y1, FALSE).hit}
RotmgCase(c) ==
    LET i == In(c)
        o1 == RotmgRef(i.d1, i.d2, i.x1, i.y1, FALSE).out
        o2 == RotmgRef(i.d1, i.d2, i.x1, i.y1, TRUE).out
    IN [kind |-> "rotmg", d1 |-> c.d1, d2 |-> c.d2, x1 |-> c.x1, y1 |-> c.y1,
        outs |-> IF Corner(c) /\ o1 # o2 THEN <<o1, o2>> ELSE <<o1>>, tolk |-> 16]

\* lemma: every non-error outcome is a modified Givens transformation
HEntry(o, k) ==     \* the entry of H, implied values filled in
    IF o.mask[k] THEN o.h[k]
    ELSE IF o.flag = -2 THEN (IF k \in {1, 4} THEN QOne ELSE QZero)
    ELSE IF o.flag = 0 THEN QOne                                    \* h11 = h22 = 1
    ELSE IF k = 2 THEN QNeg(QOne) ELSE QOne                          \* flag 1: h21 = -1, h12 = 1
IsGivens(c, o) ==
    LET i == In(c)
        h11 == HEntry(o, 1)   h21 == HEntry(o, 2)   h12 == HEntry(o, 3)   h22 == HEntry(o, 4)
        T3(a, b, w) == QMul(QMul(a, b), w)
    IN \/ o = ErrorOutcome
       \/ /\ QAdd(QMul(h11, i.x1), QMul(h12, i.y1)) = o.rx1
          /\ o.rd2 = QZero \/ QAdd(QMul(h21, i.x1), QMul(h22, i.y1)) = QZero
          /\ QAdd(T3(h11, h11, o.rd1), T3(h21, h21, o.rd2)) = i.d1
          /\ QAdd(T3(h11, h12, o.rd1), T3(h21, h22, o.rd2)) = QZero
          /\ QAdd(T3(h12, h12, o.rd1), T3(h22, h22, o.rd2)) = i.d2
          \* the window
          /\ o.flag # -2 => /\ o.rd1 = QZero \/ (QAbsGt(o.rd1, RGamSq) /\ QAbsGt(GamSq, o.rd1))
                            /\ o.rd2 = QZero \/ (QAbsGt(o.rd2, RGamSq) /\ QAbsGt(GamSq, o.rd2))
RotmgOK(c) ==
    LET cs == RotmgCase(c) IN \A k \in 1 .. Len(cs.outs) : IsGivens(c, cs.outs[k])

(******************************** generator **********************************)
Init == g = [start |-> TRUE]
Next == "start" \in DOMAIN g /\
          \/ \E c \in NrmCases : g' = [k |-> "nrm2", c |-> c]
          \/ \E c \in RotgGrid : g' = [k |-> "rotg", c |-> c]
          \/ \E c \in RotmgCases : g' = [k |-> "rotmg", c |-> c]
Spec == Init /\ [][Next]_g

CaseOK ==
    \/ "start" \in DOMAIN g
    \/ g.k = "nrm2"  /\ NrmOK(g.c)   /\ PrintT(ToJson(NrmCase(g.c)))
    \/ g.k = "rotg"  /\ RotgOK(g.c)  /\ PrintT(ToJson(RotgCase(g.c)))
    \/ g.k = "rotmg" /\ RotmgOK(g.c) /\ PrintT(ToJson(RotmgCase(g.c)))
=============================================================================
