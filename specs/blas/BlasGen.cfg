SPECIFICATION Spec
CONSTANTS
  Cx = @CX@
  Routines = @ROUTINES@
  Seed = @SEED@
  Dims = @DIMS@
  Dims3 = @DIMS3@
  Ray = @RAY@
  RayBase = @RAYBASE@
  Bands = @BANDS@
  IncMax = @INCMAX@
  LdExtra = @LDEXTRA@
  Slacks = @SLACKS@
  Target = @TARGET@
  Checks = @CHECKS@
INVARIANTS TypeOK CaseOK
CHECK_DEADLOCK FALSE
