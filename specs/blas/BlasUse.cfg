SPECIFICATION Spec
CONSTANTS
  MaxLen = @MAXLEN@
  Calls = @CALLS@
INVARIANTS TypeOK CurIsLastUse ObsAreCurrent Emit
CHECK_DEADLOCK FALSE
