------------------------------ MODULE BlasAddr ------------------------------
(* Storage and addressing of BLAS operands as gonum documents them            *)
(* (blas/gonum/doc.go): row-major dense storage with a stride, strided        *)
(* vectors with positive or negative increments, band storage ("remove the    *)
(* zeros in the rows and align the diagonals"), packed triangles.             *)
(*                                                                            *)
(* This module is pure index arithmetic: it knows nothing about element       *)
(* values.  It is shared by the reference semantics (BlasRef.tla, property    *)
(* C01) and is meant to be extended by the argument-contract specification    *)
(* (property C07), which needs exactly these maps and the minimum slice       *)
(* lengths Need.. defined here.                                               *)
(*                                                                            *)
(* Conventions: element indices i, j and slots are 0-based (slot s of a Go    *)
(* slice is element s+1 of the TLA+ sequence that models it).                 *)
EXTENDS Integers, FiniteSets, Sequences

Abs(v) == IF v < 0 THEN -v ELSE v
Min(a, b) == IF a <= b THEN a ELSE b
Max(a, b) == IF a >= b THEN a ELSE b

(* flag encodings shared with the Go harness *)
NoTrans == 0   Trans == 1   ConjTrans == 2
Upper == 0     Lower == 1
NonUnit == 0   Unit == 1
Left == 0      Right == 1

(********************************* vectors *********************************)
\* slot of element i of an n-vector with increment inc # 0
\* ("if the increment is negative, s[0] is the last element")
VecIdx(n, inc, i) == IF inc > 0 THEN i * inc ELSE (i - (n - 1)) * inc
VecSlots(n, inc) == {VecIdx(n, inc, i) : i \in 0 .. n - 1}
\* minimum slice length
VecNeed(n, inc) == IF n = 0 THEN 0 ELSE (n - 1) * Abs(inc) + 1
\* inverse map: the element stored at slot s, or -1 when s is a skipped slot
VecElem(n, inc, s) ==
    LET a == Abs(inc) IN
    IF s >= 0 /\ s % a = 0 /\ s \div a < n
    THEN (IF inc > 0 THEN s \div a ELSE n - 1 - s \div a)
    ELSE -1

(**************************** matrix descriptors ***************************)
(* A descriptor is a record                                                  *)
(*   [kind, r, c, ld, ul, dg, kl, ku]                                        *)
(* kind: "ge" general, "sy"/"he" symmetric/Hermitian (one triangle stored),  *)
(*       "tr" triangular, "gb" general band, "sb"/"hb" symmetric/Hermitian   *)
(*       band, "tb" triangular band, "sp"/"hp"/"tp" packed.                  *)
(* r, c: rows and columns (r = c for everything but ge, gb); ld: stride      *)
(* (ignored for packed); ul, dg: triangle and diagonal flags; kl, ku: sub-   *)
(* and super-diagonals.  For sb/hb/tb with k off-diagonals the stored band   *)
(* is (kl, ku) = (0, k) for Upper and (k, 0) for Lower: use BandOf.          *)
Desc(kind, r, c, ld, ul, dg, kl, ku) ==
    [kind |-> kind, r |-> r, c |-> c, ld |-> ld, ul |-> ul, dg |-> dg, kl |-> kl, ku |-> ku]
TriBand(kind, n, k, ld, ul, dg) ==
    Desc(kind, n, n, ld, ul, dg, IF ul = Upper THEN 0 ELSE k, IF ul = Upper THEN k ELSE 0)

DenseKinds  == {"ge", "sy", "he", "tr"}
BandKinds   == {"gb", "sb", "hb", "tb"}
PackedKinds == {"sp", "hp", "tp"}
TriKinds    == {"tr", "tb", "tp"}           \* triangular matrices
HalfKinds   == {"sy", "he", "tr", "sb", "hb", "tb", "sp", "hp", "tp"}  \* one triangle stored
HermKinds   == {"he", "hb", "hp"}

InMat(d, i, j)  == i \in 0 .. d.r - 1 /\ j \in 0 .. d.c - 1
InTri(ul, i, j) == IF ul = Upper THEN i <= j ELSE j <= i
InBand(d, i, j) == j - i <= d.ku /\ i - j <= d.kl

\* (i, j) has a storage slot in the layout (the unit diagonal included)
HasSlot(d, i, j) ==
    /\ InMat(d, i, j)
    /\ d.kind \in HalfKinds => InTri(d.ul, i, j)
    /\ d.kind \in BandKinds => InBand(d, i, j)

\* (i, j) is referenced by a routine: it has a slot and is not an implicit unit diagonal
Stored(d, i, j) ==
    /\ HasSlot(d, i, j)
    /\ ~(d.kind \in TriKinds /\ d.dg = Unit /\ i = j)

Slot(d, i, j) ==
    CASE d.kind \in DenseKinds -> i * d.ld + j
      [] d.kind \in BandKinds  -> i * d.ld + d.kl + j - i
      [] d.kind \in PackedKinds ->
           IF d.ul = Upper THEN i * d.c - (i * (i - 1)) \div 2 + (j - i)
                           ELSE (i * (i + 1)) \div 2 + j

Cells(d) == {ij \in (0 .. d.r - 1) \X (0 .. d.c - 1) : Stored(d, ij[1], ij[2])}
SlotSet(d) == {Slot(d, ij[1], ij[2]) : ij \in Cells(d)}

\* minimum legal stride
MinLd(d) ==
    CASE d.kind \in DenseKinds  -> Max(1, d.c)
      [] d.kind \in BandKinds   -> d.kl + d.ku + 1
      [] d.kind \in PackedKinds -> 0

\* minimum slice length (the standard storage extent).  For dense storage it is
\* (r-1)*ld + c whenever there is at least one row: with c = 0 and r > 0 nothing is
\* addressed, but the extent of the r-1 full strides is still the documented minimum.
Need(d) ==
    IF d.r = 0 THEN 0
    ELSE CASE d.kind \in DenseKinds  -> (d.r - 1) * d.ld + d.c
           [] d.kind \in BandKinds   -> IF d.c = 0 THEN 0 ELSE (d.r - 1) * d.ld + d.kl + d.ku + 1
           [] d.kind \in PackedKinds -> (d.c * (d.c + 1)) \div 2

\* inverse map for the dense layouts: the cell whose slot is s, or <<-1,-1>>
DenseCell(d, s) ==
    LET i == s \div d.ld
        j == s % d.ld
    IN IF s >= 0 /\ Stored(d, i, j) THEN <<i, j>> ELSE <<-1, -1>>
\* inverse map for band layouts
BandCell(d, s) ==
    LET i == s \div d.ld
        j == (s % d.ld) - d.kl + i
    IN IF s >= 0 /\ s % d.ld <= d.kl + d.ku /\ Stored(d, i, j) THEN <<i, j>> ELSE <<-1, -1>>
\* inverse map for packed layouts: row i occupies the slots RowStart(i) .. RowStart(i+1)-1
PackedRowStart(d, i) == IF d.ul = Upper THEN i * d.c - (i * (i - 1)) \div 2 ELSE (i * (i + 1)) \div 2
PackedCell(d, s) ==
    IF s < 0 \/ s >= (d.c * (d.c + 1)) \div 2 THEN <<-1, -1>>
    ELSE LET i == CHOOSE ii \in 0 .. d.c - 1 :
                    PackedRowStart(d, ii) <= s /\ (ii = d.c - 1 \/ PackedRowStart(d, ii + 1) > s)
             j == IF d.ul = Upper THEN i + (s - PackedRowStart(d, i)) ELSE s - PackedRowStart(d, i)
         IN IF Stored(d, i, j) THEN <<i, j>> ELSE <<-1, -1>>
CellAt(d, s) ==
    CASE d.kind \in DenseKinds  -> DenseCell(d, s)
      [] d.kind \in BandKinds   -> BandCell(d, s)
      [] d.kind \in PackedKinds -> PackedCell(d, s)

(************************* column-major twins *******************************)
(* The typed wrapper packages (blas64, blas32, cblas128, cblas64) also define *)
(* column-major twins of the dense and band layouts (GeneralCols,            *)
(* TriangularCols, SymmetricCols, HermitianCols, BandCols, TriangularBand-   *)
(* Cols, SymmetricBandCols, HermitianBandCols): the columns are contiguous,  *)
(* element (i, j) of a dense matrix is at i + j*ld, and column j of a band   *)
(* matrix holds its ku super-diagonal entries, the diagonal, and its kl      *)
(* sub-diagonal entries in that order ("diagonals aligned").  Same           *)
(* descriptor record as above; ld is the distance between columns.           *)
ColSlot(d, i, j) ==
    CASE d.kind \in DenseKinds -> i + j * d.ld
      [] d.kind \in BandKinds  -> d.ku + i - j + j * d.ld
ColMinLd(d) ==
    CASE d.kind \in DenseKinds -> Max(1, d.r)
      [] d.kind \in BandKinds  -> d.kl + d.ku + 1
ColNeed(d) ==
    IF d.c = 0 THEN 0
    ELSE CASE d.kind \in DenseKinds -> (d.c - 1) * d.ld + d.r
           [] d.kind \in BandKinds  -> IF d.r = 0 THEN 0 ELSE (d.c - 1) * d.ld + d.kl + d.ku + 1
ColSlotSet(d) == {ColSlot(d, ij[1], ij[2]) : ij \in Cells(d)}
\* the descriptor of the transposed matrix: column-major storage of A is row-major storage of A^T
TrDesc(d) == [d EXCEPT !.r = d.c, !.c = d.r, !.kl = d.ku, !.ku = d.kl, !.ul = 1 - d.ul]
\* inverse map: the cell stored at slot s of the column-major layout, or <<-1,-1>>
ColCellAt(d, s) == LET c == CellAt(TrDesc(d), s) IN <<c[2], c[1]>>

(***************************** theorems (R1) ********************************)
(* Checked by TLC over a bounded descriptor grid in BlasAddrCheck.tla.       *)
ColDual(d) ==
    d.kind \in DenseKinds \cup BandKinds =>
      /\ Cells(TrDesc(d)) = {<<ij[2], ij[1]>> : ij \in Cells(d)}
      /\ \A ij \in Cells(d) : ColSlot(d, ij[1], ij[2]) = Slot(TrDesc(d), ij[2], ij[1])
      /\ ColNeed(d) = Need(TrDesc(d)) /\ ColMinLd(d) = MinLd(TrDesc(d))
ColInRange(d) ==
    d.kind \in DenseKinds \cup BandKinds =>
      \A ij \in Cells(d) : ColSlot(d, ij[1], ij[2]) \in 0 .. ColNeed(d) - 1
ColInjective(d) ==
    d.kind \in DenseKinds \cup BandKinds =>
      \A p, q \in Cells(d) : ColSlot(d, p[1], p[2]) = ColSlot(d, q[1], q[2]) => p = q
ColInverseOK(d) ==
    d.kind \in DenseKinds \cup BandKinds =>
      /\ \A ij \in Cells(d) : ColCellAt(d, ColSlot(d, ij[1], ij[2])) = ij
      /\ \A s \in 0 .. ColNeed(d) + 1 : s \notin ColSlotSet(d) => ColCellAt(d, s) = <<-1, -1>>

AddrInRange(d)      == \A ij \in Cells(d) : Slot(d, ij[1], ij[2]) \in 0 .. Need(d) - 1
StorageInjective(d) == \A p, q \in Cells(d) : Slot(d, p[1], p[2]) = Slot(d, q[1], q[2]) => p = q
\* the minimum length is attained (not for band storage, whose documented extent is the
\* whole last band row, nor when the last diagonal element is an implicit unit)
AddrTight(d) ==
    (d.kind \notin BandKinds /\ Cells(d) # {} /\ ~(d.kind \in TriKinds /\ d.dg = Unit))
        => Need(d) - 1 \in SlotSet(d)
\* band rows do not spill into the next row
BandRowFits(d) == d.kind \in BandKinds =>
    \A ij \in Cells(d) : Slot(d, ij[1], ij[2]) - ij[1] * d.ld \in 0 .. d.kl + d.ku
InverseOK(d) ==
    /\ \A ij \in Cells(d) : CellAt(d, Slot(d, ij[1], ij[2])) = ij
    /\ \A s \in 0 .. Need(d) + 1 : s \notin SlotSet(d) => CellAt(d, s) = <<-1, -1>>

VecInRange(n, inc)   == \A i \in 0 .. n - 1 : VecIdx(n, inc, i) \in 0 .. VecNeed(n, inc) - 1
VecTight(n, inc)     == n > 0 => VecNeed(n, inc) - 1 \in VecSlots(n, inc)
VecInjective(n, inc) == Cardinality(VecSlots(n, inc)) = n
VecInverseOK(n, inc) ==
    /\ \A i \in 0 .. n - 1 : VecElem(n, inc, VecIdx(n, inc, i)) = i
    /\ \A s \in 0 .. VecNeed(n, inc) + 2 : s \notin VecSlots(n, inc) => VecElem(n, inc, s) = -1
\* a negative increment addresses the same slots in reverse order (doc.go)
VecReverse(n, inc)   == \A i \in 0 .. n - 1 : VecIdx(n, -inc, i) = VecIdx(n, inc, n - 1 - i)
=============================================================================
