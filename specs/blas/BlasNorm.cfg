SPECIFICATION Spec
CONSTANTS
  Seed = @SEED@
  K = @K@
  MaxLen = @MAXLEN@
  Reps = @REPS@
  NrmIncs = @NRMINCS@
  NrmNeg = @NRMNEG@
  R = @R@
  Stride = @STRIDE@
  StrideG = @STRIDEG@
INVARIANTS CaseOK
CHECK_DEADLOCK FALSE
