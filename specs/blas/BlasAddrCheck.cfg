SPECIFICATION Spec
CONSTANTS
  MaxDim = @MAXDIM@
  MaxK = @MAXK@
  MaxInc = @MAXINC@
  LdExtra = @LDEXTRA@
INVARIANTS LdLegal InRange Injective Tight RowFits Inverse Reverse UnitDiagonal
CHECK_DEADLOCK FALSE
