SPECIFICATION Spec
CONSTANTS
  MaxDim = @MAXDIM@
  MaxK = @MAXK@
  MaxInc = @MAXINC@
  LdExtra = @LDEXTRA@
INVARIANTS LdLegal InRange Injective Tight RowFits Inverse Reverse UnitDiagonal ColDuality ColRange ColInject ColInverse
CHECK_DEADLOCK FALSE
