--------------------------- MODULE BlasAddrCheck ---------------------------
(* R1: TLC checks the storage theorems of BlasAddr.tla over every operand   *)
(* descriptor and every vector geometry within the bound.                    *)
EXTENDS BlasAddr, TLC

CONSTANTS MaxDim,   \* rows, columns, vector lengths range over 0..MaxDim
          MaxK,     \* kl, ku, k range over 0..MaxK
          MaxInc,   \* increments range over -MaxInc..MaxInc except 0
          LdExtra   \* set of extras added to the minimum stride

VARIABLE d
Flags == {0, 1}

GeDescs == {Desc("ge", r, c, Max(1, c) + e, 0, 0, 0, 0) : r \in 0 .. MaxDim, c \in 0 .. MaxDim, e \in LdExtra}
SqDescs == {Desc(kd, n, n, Max(1, n) + e, ul, dg, 0, 0) :
              kd \in {"sy", "he", "tr"}, n \in 0 .. MaxDim, e \in LdExtra, ul \in Flags, dg \in Flags}
GbDescs == {Desc("gb", r, c, kl + ku + 1 + e, 0, 0, kl, ku) :
              r \in 0 .. MaxDim, c \in 0 .. MaxDim, e \in LdExtra, kl \in 0 .. MaxK, ku \in 0 .. MaxK}
TbDescs == {TriBand(kd, n, k, k + 1 + e, ul, dg) :
              kd \in {"sb", "hb", "tb"}, n \in 0 .. MaxDim, k \in 0 .. MaxK, e \in LdExtra, ul \in Flags, dg \in Flags}
PkDescs == {Desc(kd, n, n, 0, ul, dg, 0, 0) : kd \in PackedKinds, n \in 0 .. MaxDim, ul \in Flags, dg \in Flags}
VecGeoms == {[kind |-> "vec", n |-> n, inc |-> inc] : n \in 0 .. MaxDim + 4, inc \in (-MaxInc .. MaxInc) \ {0}}

Init == d \in GeDescs \cup SqDescs \cup GbDescs \cup TbDescs \cup PkDescs \cup VecGeoms
Next == UNCHANGED d
Spec == Init /\ [][Next]_d

IsVec == d.kind = "vec"
LdLegal      == ~IsVec => d.ld >= MinLd(d)
InRange      == IF IsVec THEN VecInRange(d.n, d.inc) ELSE AddrInRange(d)
Injective    == IF IsVec THEN VecInjective(d.n, d.inc) ELSE StorageInjective(d)
Tight        == IF IsVec THEN VecTight(d.n, d.inc) ELSE AddrTight(d)
RowFits      == ~IsVec => BandRowFits(d)
Inverse      == IF IsVec THEN VecInverseOK(d.n, d.inc) ELSE InverseOK(d)
Reverse      == IsVec => VecReverse(d.n, d.inc)
\* a unit-diagonal descriptor references exactly the off-diagonal cells of its non-unit twin
UnitDiagonal == (~IsVec /\ d.kind \in TriKinds /\ d.dg = Unit) =>
                   Cells(d) = {ij \in Cells([d EXCEPT !.dg = NonUnit]) : ij[1] # ij[2]}
\* column-major twins (dense and band kinds): same extra over the minimum column distance
HasCols == ~IsVec /\ d.kind \in DenseKinds \cup BandKinds
dc      == [d EXCEPT !.ld = ColMinLd(d) + (d.ld - MinLd(d))]
ColDuality  == HasCols => ColDual(dc)
ColRange    == HasCols => ColInRange(dc)
ColInject   == HasCols => ColInjective(dc)
ColInverse  == HasCols => ColInverseOK(dc)
=============================================================================
