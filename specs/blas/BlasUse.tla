-------------------------------- MODULE BlasUse --------------------------------
(* Use and Implementation of a wrapper package (blas64, blas32, cblas128,       *)
(* cblas64) as a state machine:                                                 *)
(*                                                                              *)
(*   "Use sets the BLAS implementation to be used by subsequent BLAS calls.     *)
(*    The default implementation is gonum.org/v1/gonum/blas/gonum.              *)
(*    Implementation."   "Implementation returns the current implementation."   *)
(*                                                                              *)
(* The state is the current implementation.  Actions: Use(i) for the default    *)
(* implementation and two distinguishable recording implementations,            *)
(* Implementation() (observation: which implementation is returned) and a       *)
(* wrapper call (observation: which implementation received the forwarded       *)
(* call).  R1: the invariants below; R2: every action sequence up to MaxLen is  *)
(* printed with the expected observation of every step and replayed into the    *)
(* four packages (the harness restores the default after each history).         *)
EXTENDS Integers, Sequences, TLC, Json

CONSTANTS MaxLen,     \* length of the histories
          Calls       \* wrapper functions a history may call (names of BlasWrap!WrapFn)

Impls == {"gonum", "probe1", "probe2"}
Default == "gonum"

VARIABLES cur,    \* the implementation the package forwards to
          hist    \* the steps so far, each with its expected observation

Step(op, arg, obs) == [op |-> op, arg |-> arg, obs |-> obs]

Init == cur = Default /\ hist = <<>>
Use(i)  == cur' = i /\ hist' = Append(hist, Step("Use", i, ""))
Get     == cur' = cur /\ hist' = Append(hist, Step("Implementation", "", cur))
Call(f) == cur' = cur /\ hist' = Append(hist, Step("Call", f, cur))
Next == Len(hist) < MaxLen /\ ((\E i \in Impls : Use(i)) \/ Get \/ (\E f \in Calls : Call(f)))
Spec == Init /\ [][Next]_<<cur, hist>>

\* the last Use decides (the default before any Use)
LastUse(h) == LET idx == {k \in 1 .. Len(h) : h[k].op = "Use"}
              IN IF idx = {} THEN Default ELSE h[CHOOSE k \in idx : \A l \in idx : l <= k].arg
CurIsLastUse == cur = LastUse(hist)
ObsAreCurrent == \A k \in 1 .. Len(hist) : hist[k].op # "Use" => hist[k].obs = LastUse(SubSeq(hist, 1, k - 1))
TypeOK == cur \in Impls

Emit == Len(hist) < MaxLen \/ PrintT(ToJson([kind |-> "use", steps |-> hist]))
=============================================================================
