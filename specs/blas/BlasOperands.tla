---------------------------- MODULE BlasOperands ----------------------------
(* Which operands each BLAS routine family takes, how they are stored and how  *)
(* long their slices must be: routine sets, the operands a routine uses and    *)
(* may write, the descriptor (BlasAddr.tla) of each matrix operand as a        *)
(* function of the call parameters, vector lengths, and the minimum slice      *)
(* length of every operand.  Pure index/shape knowledge, no element values:    *)
(* shared by the reference semantics (BlasRef.tla, property C01) and meant to  *)
(* be reused by the argument-contract specification (property C07).            *)
EXTENDS BlasAddr

(******************************** routines **********************************)
L1Two  == {"swap", "copy", "axpy", "dot", "dotu", "dotc", "dsdot", "sdsdot", "rot", "rotm"}
L1One  == {"scal", "rscal", "asum", "iamax"}
GeMV   == {"gemv", "gbmv"}
SyMV   == {"symv", "hemv", "sbmv", "hbmv", "spmv", "hpmv"}
TrMV   == {"trmv", "tbmv", "tpmv"}
TrSV   == {"trsv", "tbsv", "tpsv"}
Rank1  == {"ger", "geru", "gerc"}
SyR    == {"syr", "her", "spr", "hpr"}
SyR2   == {"syr2", "her2", "spr2", "hpr2"}
L3Mul  == {"gemm", "symm", "hemm"}
RankK  == {"syrk", "herk"}
Rank2K == {"syr2k", "her2k"}
TrMM   == {"trmm", "trsm"}
Level1 == L1Two \cup L1One
Level2 == GeMV \cup SyMV \cup TrMV \cup TrSV \cup Rank1 \cup SyR \cup SyR2
Level3 == L3Mul \cup RankK \cup Rank2K \cup TrMM
AllRoutines == Level1 \cup Level2 \cup Level3
RealOnly    == {"dot", "dsdot", "sdsdot", "rot", "rotm", "symv", "sbmv", "spmv", "ger", "syr", "spr", "syr2", "spr2"}
ComplexOnly == {"dotu", "dotc", "rscal", "hemv", "hbmv", "hpmv", "geru", "gerc", "her", "hpr", "her2", "hpr2",
                "hemm", "herk", "her2k"}
Solves      == TrSV \cup {"trsm"}
HermOut     == {"her", "hpr", "her2", "hpr2", "herk", "her2k"}   \* Hermitian result operand

\* which operands a routine takes, and which of them it may write
Uses(r) ==
    CASE r \in L1Two -> {"x", "y"}
      [] r \in L1One -> {"x"}
      [] r \in GeMV \cup SyMV \cup Rank1 \cup SyR2 -> {"a", "x", "y"}
      [] r \in TrMV \cup TrSV \cup SyR -> {"a", "x"}
      [] r \in L3Mul \cup Rank2K -> {"a", "b", "c"}
      [] r \in RankK -> {"a", "c"}
      [] r \in TrMM -> {"a", "b"}
Writes(r) ==
    CASE r \in {"swap", "rot", "rotm"} -> {"x", "y"}
      [] r \in {"copy", "axpy"} \cup GeMV \cup SyMV -> {"y"}
      [] r \in {"scal", "rscal"} \cup TrMV \cup TrSV -> {"x"}
      [] r \in {"dot", "dotu", "dotc", "dsdot", "sdsdot", "asum", "iamax"} -> {}
      [] r \in Rank1 \cup SyR \cup SyR2 -> {"a"}
      [] r \in L3Mul \cup RankK \cup Rank2K -> {"c"}
      [] r \in TrMM -> {"b"}

(* p: parameter record [tA, tB, ul, dg, sd, m, n, k, kl, ku, lda, ldb, ldc, incx, incy] *)
SqN(r, p) == IF r \in {"symm", "hemm"} \cup TrMM THEN (IF p.sd = Left THEN p.m ELSE p.n) ELSE p.n

DescA(r, p) ==
    CASE r \in {"gemv"} \cup Rank1 -> Desc("ge", p.m, p.n, p.lda, 0, 0, 0, 0)
      [] r = "gbmv" -> Desc("gb", p.m, p.n, p.lda, 0, 0, p.kl, p.ku)
      [] r \in {"symv", "syr", "syr2", "symm"} -> Desc("sy", SqN(r, p), SqN(r, p), p.lda, p.ul, 0, 0, 0)
      [] r \in {"hemv", "her", "her2", "hemm"} -> Desc("he", SqN(r, p), SqN(r, p), p.lda, p.ul, 0, 0, 0)
      [] r = "sbmv" -> TriBand("sb", p.n, p.k, p.lda, p.ul, 0)
      [] r = "hbmv" -> TriBand("hb", p.n, p.k, p.lda, p.ul, 0)
      [] r \in {"spmv", "spr", "spr2"} -> Desc("sp", p.n, p.n, 0, p.ul, 0, 0, 0)
      [] r \in {"hpmv", "hpr", "hpr2"} -> Desc("hp", p.n, p.n, 0, p.ul, 0, 0, 0)
      [] r \in {"trmv", "trsv", "trmm", "trsm"} -> Desc("tr", SqN(r, p), SqN(r, p), p.lda, p.ul, p.dg, 0, 0)
      [] r \in {"tbmv", "tbsv"} -> TriBand("tb", p.n, p.k, p.lda, p.ul, p.dg)
      [] r \in {"tpmv", "tpsv"} -> Desc("tp", p.n, p.n, 0, p.ul, p.dg, 0, 0)
      [] r = "gemm" -> IF p.tA = NoTrans THEN Desc("ge", p.m, p.k, p.lda, 0, 0, 0, 0)
                                         ELSE Desc("ge", p.k, p.m, p.lda, 0, 0, 0, 0)
      [] r \in RankK \cup Rank2K -> IF p.tA = NoTrans THEN Desc("ge", p.n, p.k, p.lda, 0, 0, 0, 0)
                                                      ELSE Desc("ge", p.k, p.n, p.lda, 0, 0, 0, 0)
DescB(r, p) ==
    CASE r = "gemm" -> IF p.tB = NoTrans THEN Desc("ge", p.k, p.n, p.ldb, 0, 0, 0, 0)
                                         ELSE Desc("ge", p.n, p.k, p.ldb, 0, 0, 0, 0)
      [] r \in {"symm", "hemm"} \cup TrMM -> Desc("ge", p.m, p.n, p.ldb, 0, 0, 0, 0)
      [] r \in Rank2K -> IF p.tA = NoTrans THEN Desc("ge", p.n, p.k, p.ldb, 0, 0, 0, 0)
                                           ELSE Desc("ge", p.k, p.n, p.ldb, 0, 0, 0, 0)
DescC(r, p) ==
    CASE r \in L3Mul -> Desc("ge", p.m, p.n, p.ldc, 0, 0, 0, 0)
      [] r \in {"syrk", "syr2k"} -> Desc("sy", p.n, p.n, p.ldc, p.ul, 0, 0, 0)
      [] r \in {"herk", "her2k"} -> Desc("he", p.n, p.n, p.ldc, p.ul, 0, 0, 0)

LenX(r, p) == IF r \in GeMV THEN (IF p.tA = NoTrans THEN p.n ELSE p.m)
              ELSE IF r \in Rank1 THEN p.m ELSE p.n
LenY(r, p) == IF r \in GeMV THEN (IF p.tA = NoTrans THEN p.m ELSE p.n) ELSE p.n

\* minimum slice length of each operand the routine takes
NeedOf(r, p, o) ==
    CASE o = "a" -> Need(DescA(r, p))
      [] o = "b" -> Need(DescB(r, p))
      [] o = "c" -> Need(DescC(r, p))
      [] o = "x" -> VecNeed(LenX(r, p), p.incx)
      [] o = "y" -> VecNeed(LenY(r, p), p.incy)
=============================================================================
