------------------------------- MODULE BlasGen -------------------------------
(* R2 generator for property C01: TLC enumerates a bounded grid of calls      *)
(* (routine x flags x shapes x strides x increments x scalars x slack),       *)
(* builds the complete backing array of every operand, evaluates the          *)
(* reference semantics of BlasRef.tla and prints one JSON case per grid       *)
(* point: the inputs, the complete expected backing array of every operand    *)
(* the routine may write, and the returned value.  While doing so it checks   *)
(* the theorems that make the expectation meaningful (write footprint,        *)
(* poison independence, exactness, defining property of the solves).          *)
EXTENDS BlasRef, BlasWrap, TLC, Json

CONSTANTS Routines,   \* routine families to enumerate (subset of AllRoutines)
          Seed,       \* data salt and sample selector
          Dims,       \* exhaustive dimension set, e.g. 0..5
          Dims3,      \* exhaustive dimension set of the Level 3 routines
          Ray,        \* one-dimension-at-a-time sizes (unroll residues, block edges)
          RayBase,    \* value of the other dimensions on a ray
          Bands,      \* kl, ku, k of band operands
          IncMax,     \* increments range over -IncMax..IncMax except 0
          LdExtra,    \* extras over the minimum stride
          Slacks,     \* extras over the minimum slice length
          Target,     \* number of grid points sampled per routine (0: the whole grid)
          Checks      \* BOOLEAN: also evaluate the (costly) independence theorems

VARIABLE g
Flags2 == {0, 1}
Flags3 == {0, 1, 2}

(******************************* scalars ***********************************)
Scalars == IF Cx THEN << <<0, 0>>, <<1, 0>>, <<-1, 0>>, <<2, 0>>, <<0, 1>>, <<1, -2>> >>
                 ELSE <<0, 1, -1, 2>>
RealScalarIdx == 1 .. 4                     \* these are real in both domains
AllScalarIdx  == 1 .. Len(Scalars)

(************************ per-routine field domains *************************)
HasM(r)  == r \in GeMV \cup Rank1 \cup L3Mul \cup TrMM
HasK(r)  == r \in {"gemm"} \cup RankK \cup Rank2K
HasBand(r) == r \in {"sbmv", "hbmv", "tbmv", "tbsv"}
DimsOf(r) == IF r \in Level3 THEN Dims3 ELSE Dims
TA(r) == IF r \in GeMV \cup TrMV \cup TrSV \cup {"gemm"} \cup TrMM THEN Flags3
         ELSE IF r \in {"syrk", "syr2k"} THEN (IF Cx THEN {NoTrans, Trans} ELSE Flags3)
         ELSE IF r \in {"herk", "her2k"} THEN {NoTrans, ConjTrans} ELSE {0}
TB(r) == IF r = "gemm" THEN Flags3 ELSE {0}
UL(r) == IF r \in SyMV \cup TrMV \cup TrSV \cup SyR \cup SyR2 \cup {"symm", "hemm"} \cup RankK \cup Rank2K \cup TrMM
         THEN Flags2 ELSE {0}
DG(r) == IF r \in TrMV \cup TrSV \cup TrMM THEN Flags2 ELSE {0}
SD(r) == IF r \in {"symm", "hemm"} \cup TrMM THEN Flags2 ELSE {0}
KB(r) == IF HasBand(r) THEN Bands ELSE IF r = "rotm" THEN 0 .. 3 ELSE {0}   \* rotm: flag = k - 2
KLU(r) == IF r = "gbmv" THEN Bands ELSE {0}
Packed(r) == r \in {"spmv", "hpmv", "tpmv", "tpsv", "spr", "hpr", "spr2", "hpr2"}
EA(r) == IF "a" \in Uses(r) /\ ~Packed(r) THEN LdExtra ELSE {0}
EB(r) == IF "b" \in Uses(r) THEN LdExtra ELSE {0}
EC(r) == IF "c" \in Uses(r) THEN LdExtra ELSE {0}
Incs  == (-IncMax .. IncMax) \ {0}
IX(r) == IF "x" \in Uses(r) THEN Incs ELSE {1}     \* L1One with a negative increment: documented no-ops
\* the x struct of the wrapper call claims WDN(r) more elements than y (documented panic)
WDN(r) == IF r \in L1Two THEN {0, 1} ELSE {0}
IY(r) == IF "y" \in Uses(r) THEN Incs ELSE {1}
AL(r) == IF r \in {"her", "hpr", "herk", "rscal", "rot", "sdsdot"} THEN RealScalarIdx
         ELSE IF r \in {"axpy", "scal"} \cup GeMV \cup SyMV \cup Rank1 \cup SyR \cup SyR2 \cup Level3 THEN AllScalarIdx
         ELSE {2}
BE(r) == IF r \in {"herk", "her2k", "rot"} THEN RealScalarIdx
         ELSE IF r \in GeMV \cup SyMV \cup L3Mul \cup RankK \cup Rank2K THEN AllScalarIdx
         ELSE {2}

GridWith(r, M, N, K) ==
    [r : {r}, tA : TA(r), tB : TB(r), ul : UL(r), dg : DG(r), sd : SD(r),
     m : M, n : N, k : K, kl : KLU(r), ku : KLU(r), ea : EA(r), eb : EB(r), ec : EC(r),
     incx : IX(r), incy : IY(r), sl : Slacks, al : AL(r), be : BE(r), wdn : WDN(r)]

\* the solves double the magnitude of their result with every row: keep their rays short
RayOf(r) == IF r \in Solves THEN {v \in Ray : v <= 9} ELSE Ray
Grid(r) ==
    LET D  == DimsOf(r)
        M0 == IF HasM(r) THEN D ELSE {0}
        K0 == IF HasK(r) THEN D ELSE KB(r)
        MB == IF HasM(r) THEN {RayBase} ELSE {0}
        KR == IF HasK(r) THEN {RayBase} ELSE KB(r)
    IN GridWith(r, M0, D, K0)
       \cup GridWith(r, MB, RayOf(r), KR)
       \cup (IF HasM(r) THEN GridWith(r, RayOf(r), {RayBase}, KR) ELSE {})
       \cup (IF HasK(r) THEN GridWith(r, MB, {RayBase}, RayOf(r)) ELSE {})

Card(S) == Cardinality(S)

(* Sampling.  Target = 0: the whole grid.  Otherwise Target pseudo-random grid  *)
(* points per routine: point number i draws every field independently from its *)
(* domain with a scrambled hash of (Seed, routine, i, field); half of the       *)
(* points take their dimensions from the exhaustive set, the other half lie on  *)
(* a ray (one dimension from Ray, the others RayBase).                          *)
HP == 46337                                   \* prime, HP^2 < 2^31
Scr(hh, j) == (hh * hh + 7 * hh + j + 1) % HP
RECURSIVE HS(_, _, _)
HS(f0, i, j) == IF j = 0 THEN ((i * 7919) + ((Seed % 1000) * 4729) + f0) % HP ELSE Scr(HS(f0, i, j - 1), j)
Nth(S, kk) == CHOOSE v \in S : Card({w \in S : w < v}) = kk % Card(S)
FamSeq == <<"swap", "copy", "axpy", "scal", "rscal", "dot", "dotu", "dotc", "dsdot", "sdsdot", "asum", "iamax",
            "rot", "rotm", "gemv", "gbmv", "symv", "hemv", "sbmv", "hbmv", "spmv", "hpmv", "trmv", "tbmv", "tpmv",
            "trsv", "tbsv", "tpsv", "ger", "geru", "gerc", "syr", "her", "spr", "hpr", "syr2", "her2", "spr2", "hpr2",
            "gemm", "symm", "hemm", "syrk", "herk", "syr2k", "her2k", "trmm", "trsm">>
FamIdx(r) == CHOOSE kk \in 1 .. Len(FamSeq) : FamSeq[kk] = r
Sample(r, f0, i) ==
    LET H(j) == HS(f0, i, j) \div 3
        D  == DimsOf(r)
        dimsel == H(1) % 2                       \* 0: exhaustive set, 1: a ray
        rayseq == IF HasM(r) THEN (IF HasK(r) THEN <<"m", "n", "k">> ELSE <<"m", "n">>)
                             ELSE (IF HasK(r) THEN <<"n", "k">> ELSE <<"n">>)
        ray == IF dimsel = 0 \/ RayOf(r) = {} THEN "none" ELSE rayseq[(H(2) % Len(rayseq)) + 1]
        dim(nm, has, hj) == IF ~has THEN 0
                            ELSE IF ray = "none" THEN Nth(D, H(hj))
                            ELSE IF ray = nm THEN Nth(RayOf(r), H(hj)) ELSE RayBase
    IN [r |-> r, tA |-> Nth(TA(r), H(3)), tB |-> Nth(TB(r), H(4)), ul |-> Nth(UL(r), H(5)),
        dg |-> Nth(DG(r), H(6)), sd |-> Nth(SD(r), H(7)),
        m |-> dim("m", HasM(r), 8), n |-> dim("n", TRUE, 9),
        k |-> IF HasK(r) THEN dim("k", TRUE, 10) ELSE Nth(KB(r), H(10)),
        kl |-> Nth(KLU(r), H(11)), ku |-> Nth(KLU(r), H(12)),
        ea |-> Nth(EA(r), H(13)), eb |-> Nth(EB(r), H(14)), ec |-> Nth(EC(r), H(15)),
        incx |-> Nth(IX(r), H(16)), incy |-> Nth(IY(r), H(17)), sl |-> Nth(Slacks, H(18)),
        al |-> Nth(AL(r), H(19)), be |-> Nth(BE(r), H(20)),
        wdn |-> IF H(21) % 4 = 0 THEN Nth(WDN(r), 1) ELSE 0]

(****************************** parameters *********************************)
\* the parameter record of BlasRef (strides computed from the minimum plus the extra)
P0(c) == [tA |-> c.tA, tB |-> c.tB, ul |-> c.ul, dg |-> c.dg, sd |-> c.sd, m |-> c.m, n |-> c.n,
          k |-> c.k, kl |-> c.kl, ku |-> c.ku, lda |-> 1, ldb |-> 1, ldc |-> 1, incx |-> c.incx, incy |-> c.incy]
P(c) == LET p0 == P0(c)
            r == c.r
        IN [p0 EXCEPT !.lda = IF "a" \in Uses(r) THEN MinLd(DescA(r, p0)) + c.ea ELSE 1,
                      !.ldb = IF "b" \in Uses(r) THEN MinLd(DescB(r, p0)) + c.eb ELSE 1,
                      !.ldc = IF "c" \in Uses(r) THEN MinLd(DescC(r, p0)) + c.ec ELSE 1]
Alpha(c) == Scalars[c.al]
Beta(c)  == Scalars[c.be]

(******************************* operand data ********************************)
(* Values are small integers so that every sum any algorithm forms is exact   *)
(* in float32.  Slots that the documentation says are never accessed (stride   *)
(* gaps, row padding, the other triangle, band corners, an implicit unit       *)
(* diagonal, the slack tail) hold a poison code (PoisonBase + rule); the       *)
(* harness turns a poison code into a NaN carrying the rule as payload and     *)
(* requires it back bit for bit.  Slots whose VALUE must not matter but which  *)
(* an implementation may touch arithmetically (the result operand when         *)
(* beta = 0, the imaginary part of a Hermitian diagonal: gonum leaves the      *)
(* treatment of NaN unspecified, so only finite garbage is legitimate there)   *)
(* hold a large finite garbage value.  pz selects the poison code and the      *)
(* garbage so that independence of the result can be checked.                  *)
PoisonBase == 900000
RulePad == 1     \* never addressed: stride gap, row padding, slack tail
RuleTri == 2     \* the triangle that is not referenced / band corners
RuleUnit == 3    \* implicit unit diagonal
Poi(pz, rule) == IF Cx THEN <<pz + rule, pz + rule>> ELSE pz + rule

Salt(t) == CASE t = "a" -> 3 [] t = "b" -> 5 [] t = "c" -> 4 [] t = "x" -> 2 [] t = "y" -> 6
V7(t, s, hh) == ((s * Salt(t) + hh * 5 + Salt(t) + Seed) % 7) - 3          \* -3..3
V3(t, s, hh) == ((s * Salt(t) + hh + Seed) % 3) - 1                          \* -1..1
Val(t, s, small) == IF Cx THEN (IF small THEN <<V3(t, s, 0), V3(t, s, 1)>> ELSE <<V7(t, s, 0), V7(t, s, 1)>>)
                    ELSE (IF small THEN V3(t, s, 0) ELSE V7(t, s, 0))
UnitVal(t, s) == LET q == (s * Salt(t) + Seed) % 4
                 IN IF Cx THEN (CASE q = 0 -> <<1, 0>> [] q = 1 -> <<-1, 0>> [] q = 2 -> <<0, 1>> [] q = 3 -> <<0, -1>>)
                    ELSE (IF q % 2 = 0 THEN 1 ELSE -1)
\* every value in a slot that no routine may write is >= MarkerBase (ordinary pads below
\* PoisonBase, poison codes above); every value in an addressed slot is smaller in magnitude
MarkerBase == 600000
PadNum(s) == IF Cx THEN <<700000 + (s % 50), 700100 + (s % 50)>> ELSE 700000 + (s % 50)
Pad(pz, s) == IF (s + Seed) % 2 = 0 THEN Poi(pz, RulePad) ELSE PadNum(s)
\* finite garbage (>= MarkerBase, < PoisonBase, different for different pz)
Garb1(pz, s) == 700200 + (s % 50) + (pz - PoisonBase) \div 1000
Garb(pz, s) == IF Cx THEN <<Garb1(pz, s), Garb1(pz, s) + 100>> ELSE Garb1(pz, s)

InLayoutRect(d, s) ==
    CASE d.kind \in DenseKinds  -> s \div d.ld < d.r /\ s % d.ld < d.c
      [] d.kind \in BandKinds   -> s \div d.ld < d.r /\ s % d.ld <= d.kl + d.ku
      [] d.kind \in PackedKinds -> FALSE
Unref(pz, d, s) ==
    IF d.r = 0 \/ d.c = 0 THEN Pad(pz, s)
    ELSE IF CellAt([d EXCEPT !.dg = NonUnit], s)[1] >= 0 THEN Poi(pz, RuleUnit)
    ELSE IF InLayoutRect(d, s) THEN Poi(pz, RuleTri)
    ELSE Pad(pz, s)

\* mode: "data" ordinary operand, "solve" unit-modulus diagonal and small entries,
\*       "beta0" result operand that must not be read
FillM(pz, t, d, len, mode) ==
    [q \in 1 .. len |->
        LET s == q - 1
            c == CellAt(d, s)
        IN IF c[1] < 0 THEN Unref(pz, d, s)
           ELSE IF mode = "beta0" THEN Garb(pz, s)
           ELSE IF c[1] = c[2] /\ d.kind \in HermKinds THEN <<V7(t, s, 0), Garb1(pz, s)>>
           ELSE IF mode = "solve" /\ c[1] = c[2] THEN UnitVal(t, s)
           ELSE Val(t, s, mode = "solve")]
FillV(pz, t, n, inc, len, mode) ==
    [q \in 1 .. len |->
        IF VecElem(n, inc, q - 1) < 0 THEN Pad(pz, q - 1)
        ELSE IF mode = "beta0" THEN Garb(pz, q - 1)
        ELSE Val(t, q - 1, mode = "solve")]

Inputs(c, pz) ==
    LET r == c.r
        p == P(c)
        beta0(o) == o \in Writes(r) /\ Beta(c) = Zero /\ r \in GeMV \cup SyMV \cup L3Mul \cup RankK \cup Rank2K
        md(o) == IF beta0(o) THEN "beta0" ELSE IF r \in Solves THEN "solve" ELSE "data"
        len(o) == NeedOf(r, p, o) + c.sl
    IN [o \in Uses(r) |->
          CASE o = "a" -> FillM(pz, "a", DescA(r, p), len(o), md(o))
            [] o = "b" -> FillM(pz, "b", DescB(r, p), len(o), md(o))
            [] o = "c" -> FillM(pz, "c", DescC(r, p), len(o), md(o))
            [] o = "x" -> FillV(pz, "x", LenX(r, p), p.incx, len(o), md(o))
            [] o = "y" -> FillV(pz, "y", LenY(r, p), p.incy, len(o), md(o))]

RotmH(c) == <<c.k - 2, V7("a", 1, 0), V7("a", 2, 0), V7("a", 3, 0), V7("a", 4, 0)>>

Res(c, pz) == Result(c.r, P(c), Alpha(c), Beta(c), RotmH(c), Inputs(c, pz))

(********************************* emission *********************************)
PkgsOfDomain == IF Cx THEN {"cblas64", "cblas128"} ELSE {"blas32", "blas64"}
Case(c) ==
    LET r   == c.r
        p   == P(c)
        in  == Inputs(c, PoisonBase)
        res == Result(r, p, Alpha(c), Beta(c), RotmH(c), in)
    IN [r |-> r, cx |-> Cx, p |-> p, al |-> Alpha(c), be |-> Beta(c), h |-> RotmH(c),
        in |-> in,
        out |-> [o \in Writes(r) |-> res[o]],
        hasret |-> "ret" \in DOMAIN res,
        ret |-> IF "ret" \in DOMAIN res THEN res.ret ELSE 0,
        alt |-> QuickReturnLegal(r, p, Alpha(c), Beta(c)),
        need |-> [o \in Uses(r) |-> NeedOf(r, p, o)],
        \* the same call through the typed wrapper packages (BlasWrap.tla): function, structs,
        \* the call each package forwards, and its documented panic ("" = none)
        fn |-> WrapFn(r),
        w |-> WrapArgs(r, p, c.wdn),
        fwd |-> [pk \in PkgsOfDomain |-> Forward(pk, r, p, WrapArgs(r, p, c.wdn), p.n)],
        wpanic |-> [pk \in PkgsOfDomain |-> WrapPanics(pk, r, WrapArgs(r, p, c.wdn))],
        \* gonum documents the result of a negative increment for Izamax / Icamax only
        skipimpl |-> (r = "iamax" /\ ~Cx /\ p.incx < 0)]

(* Start states (family, chunk); the successors of a start state are grid     *)
(* points of that family, so that TLC workers evaluate them in parallel.       *)
NChunks == 4
Points(f, ch) ==
    IF Target = 0 THEN (IF ch = 0 THEN Grid(f) ELSE {})
    ELSE {Sample(f, FamIdx(f), i) : i \in {ii \in 1 .. Target : ii % NChunks = ch}}
Init == g \in {[r |-> "start", fam |-> f, ch |-> ch] : f \in Routines, ch \in 0 .. NChunks - 1}
Next == g.r = "start" /\ g' \in Points(g.fam, g.ch)
Spec == Init /\ [][Next]_g
TypeOK == Routines \subseteq (IF Cx THEN AllRoutines \ RealOnly ELSE AllRoutines \ ComplexOnly)

(**************************** theorems on each case **************************)
IsPoison(v, pz) == IF Cx THEN (v[1] >= pz \/ v[2] >= pz) ELSE v >= pz
Part(v, hh) == IF Cx THEN v[hh] ELSE v
Parts == IF Cx THEN {1, 2} ELSE {1}

\* every expected value is an integer that float32 represents exactly, with headroom for
\* the partial sums of any summation order (2^19; 2^18 for the solves)
Exact(cs) ==
    LET lim == IF cs.r \in Solves THEN 262144 ELSE 524288
    IN /\ \A o \in DOMAIN cs.out : \A q \in DOMAIN cs.out[o] : \A hh \in Parts :
             Part(cs.out[o][q], hh) >= MarkerBase \/ Abs(Part(cs.out[o][q], hh)) < lim
       /\ cs.hasret => (IF cs.r \in {"asum", "iamax"} THEN cs.ret < lim ELSE MaxAbs(cs.ret) < lim)

\* the routine writes only addressed slots (anything else keeps its value, poison included),
\* neither poison nor garbage reaches an addressed slot, and unaddressed slots hold marker values that no
\* result can take (so that a clobber, by zeroing or otherwise, cannot go unnoticed)
WriteFootprint(cs) ==
    LET r == cs.r
        p == cs.p
        addressed(o, s) ==
            CASE o = "x" -> VecElem(LenX(r, p), p.incx, s) >= 0
              [] o = "y" -> VecElem(LenY(r, p), p.incy, s) >= 0
              [] o = "a" -> CellAt(DescA(r, p), s)[1] >= 0
              [] o = "b" -> CellAt(DescB(r, p), s)[1] >= 0
              [] o = "c" -> CellAt(DescC(r, p), s)[1] >= 0
    IN \A o \in DOMAIN cs.out :
         /\ Len(cs.out[o]) = Len(cs.in[o])
         /\ \A q \in DOMAIN cs.in[o] :
              IF addressed(o, q - 1)
              THEN (\A hh \in Parts : Abs(Part(cs.out[o][q], hh)) < MarkerBase) /\ q <= cs.need[o]
              ELSE cs.out[o][q] = cs.in[o][q] /\ (\A hh \in Parts : Part(cs.in[o][q], hh) >= MarkerBase)

\* the expected result does not depend on what the poisoned slots hold
PoisonIndependent(cs, c) ==
    LET r2 == Res(c, PoisonBase + 50000)
    IN /\ \A o \in DOMAIN cs.out : \A q \in DOMAIN cs.out[o] :
            (\E hh \in Parts : Part(cs.out[o][q], hh) >= MarkerBase) \/ cs.out[o][q] = r2[o][q]
       /\ cs.hasret => cs.ret = r2.ret

\* the solves return the vector/matrix that satisfies the defining equation
SolveDefining(cs) ==
    cs.r \in Solves =>
      LET r  == cs.r
          p  == cs.p
          in == cs.in
          dA == DescA(r, p)
          dB == DescB(r, p)
          A(i, j) == El(dA, in.a, i, j)
          OpA(i, j) == IF p.tA = NoTrans THEN A(i, j) ELSE IF p.tA = Trans THEN A(j, i) ELSE Conj(A(j, i))
      IN IF r \in TrSV
         THEN LET z == [i \in 0 .. p.n - 1 |-> cs.out.x[VecIdx(p.n, p.incx, i) + 1]]
              IN SolveOK(OpA, LAMBDA i : in.x[VecIdx(p.n, p.incx, i) + 1], z, p.n)
         ELSE LET Z(i, j) == cs.out.b[Slot(dB, i, j) + 1]
                  B(i, j) == in.b[Slot(dB, i, j) + 1]
              IN \A i \in 0 .. p.m - 1 : \A j \in 0 .. p.n - 1 :
                   IF p.sd = Left
                   THEN Sum(LAMBDA l : Mul(OpA(i, l), Z(l, j)), 0, p.m - 1) = Mul(cs.al, B(i, j))
                   ELSE Sum(LAMBDA l : Mul(Z(i, l), OpA(l, j)), 0, p.n - 1) = Mul(cs.al, B(i, j))

\* the single invariant: the theorems hold for the case, and the case is printed
CaseOK ==
    g.r = "start" \/
      LET cs == Case(g)
      IN /\ Exact(cs)
         /\ WriteFootprint(cs)
         /\ \A pk \in PkgsOfDomain : WrapFaithful(pk, cs.r, cs.p)
         /\ Checks => (PoisonIndependent(cs, g) /\ SolveDefining(cs))
         /\ PrintT(ToJson(cs))
=============================================================================
