------------------------------- MODULE BlasRef -------------------------------
(* Reference semantics of the BLAS Level 1-3 routines over exact numbers.     *)
(*                                                                            *)
(* Numbers are integers (Cx = FALSE: the S and D routines) or Gaussian        *)
(* integers <<re, im>> (Cx = TRUE: the C and Z routines).  Every routine is   *)
(* its defining formula over abstract vectors and matrices; operands are the  *)
(* WHOLE backing arrays (sequences), read and written through the storage     *)
(* maps of BlasAddr.tla (operand shapes per routine: BlasOperands.tla), so "nothing outside the addressed region changes"    *)
(* is literally out[q] = in[q].                                               *)
(*                                                                            *)
(* The module shares no code with gonum and knows nothing about loops,        *)
(* blocking or kernels: a sum is a sum over an index range.                   *)
EXTENDS BlasOperands

CONSTANT Cx      \* BOOLEAN: complex (Gaussian integer) domain

(******************************** numbers **********************************)
Zero == IF Cx THEN <<0, 0>> ELSE 0
One  == IF Cx THEN <<1, 0>> ELSE 1
Lift(v) == IF Cx THEN <<v, 0>> ELSE v            \* embed an integer
Add(a, b) == IF Cx THEN <<a[1] + b[1], a[2] + b[2]>> ELSE a + b
Sub(a, b) == IF Cx THEN <<a[1] - b[1], a[2] - b[2]>> ELSE a - b
Mul(a, b) == IF Cx THEN <<a[1] * b[1] - a[2] * b[2], a[1] * b[2] + a[2] * b[1]>> ELSE a * b
Neg(a)    == Sub(Zero, a)
Conj(a)   == IF Cx THEN <<a[1], -a[2]>> ELSE a
RePart(a) == IF Cx THEN <<a[1], 0>> ELSE a       \* "imaginary part assumed to be zero"
Abs1(a)   == IF Cx THEN Abs(a[1]) + Abs(a[2]) ELSE Abs(a)   \* |re| + |im|, the BLAS "absolute value"
IsUnit(a) == IF Cx THEN a[1] * a[1] + a[2] * a[2] = 1 ELSE a * a = 1
DivUnit(a, u) == Mul(a, Conj(u))                 \* a / u for a unit u (1/u = conj u)
MaxAbs(a) == IF Cx THEN Max(Abs(a[1]), Abs(a[2])) ELSE Abs(a)

\* sum of F(t) for t in lo..hi (empty sum = Zero)
Sum(F(_), lo, hi) ==
    LET S[t \in (lo - 1) .. Max(hi, lo - 1)] == IF t < lo THEN Zero ELSE Add(S[t - 1], F(t))
    IN S[Max(hi, lo - 1)]

(***************************** abstract matrices *****************************)
\* raw stored element, Zero where the layout has no slot (outside the band)
Raw(d, st, i, j) == IF HasSlot(d, i, j) THEN st[Slot(d, i, j) + 1] ELSE Zero

\* element (i, j) of the abstract matrix that descriptor d and store st represent
El(d, st, i, j) ==
    CASE d.kind \in {"ge", "gb"} -> Raw(d, st, i, j)
      [] d.kind \in {"sy", "sb", "sp"} ->
           IF InTri(d.ul, i, j) THEN Raw(d, st, i, j) ELSE Raw(d, st, j, i)
      [] d.kind \in HermKinds ->
           IF i = j THEN RePart(Raw(d, st, i, i))
           ELSE IF InTri(d.ul, i, j) THEN Raw(d, st, i, j) ELSE Conj(Raw(d, st, j, i))
      [] d.kind \in TriKinds ->
           IF i = j /\ d.dg = Unit THEN One
           ELSE IF InTri(d.ul, i, j) THEN Raw(d, st, i, j) ELSE Zero

\* new store: referenced cells get F(i, j), every other slot keeps its value
UpdM(d, st, F(_, _)) ==
    [q \in 1 .. Len(st) |-> LET c == CellAt(d, q - 1) IN IF c[1] >= 0 THEN F(c[1], c[2]) ELSE st[q]]
\* new vector store: elements get F(i), skipped slots and the tail keep their value
UpdV(n, inc, st, F(_)) ==
    [q \in 1 .. Len(st) |-> LET e == VecElem(n, inc, q - 1) IN IF e >= 0 THEN F(e) ELSE st[q]]

\* z with T z = rhs for a triangular T with unit-modulus diagonal (substitution order is
\* forced by triangularity; SolveOK below states the defining property)
SolveVec(T(_, _), rhs(_), n, lower) ==
    LET z[i \in 0 .. n - 1] ==
          LET acc == IF lower THEN Sum(LAMBDA j : Mul(T(i, j), z[j]), 0, i - 1)
                              ELSE Sum(LAMBDA j : Mul(T(i, j), z[j]), i + 1, n - 1)
          IN DivUnit(Sub(rhs(i), acc), T(i, i))
    IN z
SolveOK(T(_, _), rhs(_), z, n) ==
    \A i \in 0 .. n - 1 : Sum(LAMBDA j : Mul(T(i, j), z[j]), 0, n - 1) = rhs(i)

(* The result of routine r: a record with the new store of every written      *)
(* operand and, for the functions, the returned value "ret".                   *)
(* al, be: scalars (Drot: c, s).  h: <<flag, h11, h21, h12, h22>> for rotm.    *)
Result(r, p, al, be, h, in) ==
    LET m == p.m   n == p.n   k == p.k
        dA == DescA(r, p)   dB == DescB(r, p)   dC == DescC(r, p)
        A(i, j) == El(dA, in.a, i, j)
        B(i, j) == El(dB, in.b, i, j)
        C(i, j) == El(dC, in.c, i, j)
        Op(t, M(_, _), i, j) == IF t = NoTrans THEN M(i, j) ELSE IF t = Trans THEN M(j, i) ELSE Conj(M(j, i))
        OpA(i, j) == Op(p.tA, A, i, j)
        OpB(i, j) == Op(p.tB, B, i, j)
        nx == LenX(r, p)   ny == LenY(r, p)
        X(i) == in.x[VecIdx(nx, p.incx, i) + 1]
        Y(i) == in.y[VecIdx(ny, p.incy, i) + 1]
        NewX(F(_)) == UpdV(nx, p.incx, in.x, F)
        NewY(F(_)) == UpdV(ny, p.incy, in.y, F)
        \* beta * v where v is not read at all when beta = 0
        Scaled(v) == IF be = Zero THEN Zero ELSE Mul(be, v)
        sq == SqN(r, p)
        lowerT == (p.ul = Lower) = (p.tA = NoTrans)     \* op(A) is lower triangular
        \* Hermitian results: the diagonal is real by construction (El drops the imaginary
        \* part of the stored diagonal and the update term is real)
    IN
    \* the one-vector Level 1 routines with a negative increment: "has no effect" (scal),
    \* "returns 0" (asum), "returns -1" (iamax; documented for the complex routines)
    IF r \in L1One /\ p.incx < 0
    THEN (CASE r \in {"scal", "rscal"} -> [x |-> in.x] [] r = "asum" -> [ret |-> 0] [] r = "iamax" -> [ret |-> -1])
    ELSE
    CASE r = "swap" -> [x |-> NewX(Y), y |-> NewY(X)]
      [] r = "copy" -> [y |-> NewY(X)]
      [] r = "axpy" -> [y |-> NewY(LAMBDA i : Add(Mul(al, X(i)), Y(i)))]
      [] r \in {"scal", "rscal"} -> [x |-> NewX(LAMBDA i : Mul(al, X(i)))]
      [] r \in {"dot", "dotu", "dsdot"} -> [ret |-> Sum(LAMBDA i : Mul(X(i), Y(i)), 0, n - 1)]
      [] r = "sdsdot" -> [ret |-> Add(al, Sum(LAMBDA i : Mul(X(i), Y(i)), 0, n - 1))]
      [] r = "dotc" -> [ret |-> Sum(LAMBDA i : Mul(Conj(X(i)), Y(i)), 0, n - 1)]
      [] r = "asum" -> [ret |-> LET S[t \in -1 .. n - 1] == IF t < 0 THEN 0 ELSE S[t - 1] + Abs1(X(t)) IN S[n - 1]]
      [] r = "iamax" -> [ret |-> IF n = 0 THEN -1
                                 ELSE CHOOSE i \in 0 .. n - 1 :
                                        /\ \A j \in 0 .. n - 1 : Abs1(X(j)) <= Abs1(X(i))
                                        /\ \A j \in 0 .. i - 1 : Abs1(X(j)) < Abs1(X(i))]
      [] r = "rot" -> [x |-> NewX(LAMBDA i : Add(Mul(al, X(i)), Mul(be, Y(i)))),
                       y |-> NewY(LAMBDA i : Sub(Mul(al, Y(i)), Mul(be, X(i))))]
      [] r = "rotm" ->
           LET fl == h[1]
               H11 == IF fl = -1 THEN h[2] ELSE IF fl = 0 THEN 1 ELSE IF fl = 1 THEN h[2] ELSE 1
               H21 == IF fl = -1 THEN h[3] ELSE IF fl = 0 THEN h[3] ELSE IF fl = 1 THEN -1 ELSE 0
               H12 == IF fl = -1 THEN h[4] ELSE IF fl = 0 THEN h[4] ELSE IF fl = 1 THEN 1 ELSE 0
               H22 == IF fl = -1 THEN h[5] ELSE IF fl = 0 THEN 1 ELSE IF fl = 1 THEN h[5] ELSE 1
           IN [x |-> NewX(LAMBDA i : H11 * X(i) + H12 * Y(i)),
               y |-> NewY(LAMBDA i : H21 * X(i) + H22 * Y(i))]
      [] r \in GeMV ->
           [y |-> NewY(LAMBDA i : Add(Mul(al, Sum(LAMBDA l : Mul(OpA(i, l), X(l)), 0, nx - 1)), Scaled(Y(i))))]
      [] r \in SyMV ->
           [y |-> NewY(LAMBDA i : Add(Mul(al, Sum(LAMBDA l : Mul(A(i, l), X(l)), 0, n - 1)), Scaled(Y(i))))]
      [] r \in TrMV -> [x |-> NewX(LAMBDA i : Sum(LAMBDA l : Mul(OpA(i, l), X(l)), 0, n - 1))]
      [] r \in TrSV -> LET z == SolveVec(OpA, X, n, lowerT) IN [x |-> NewX(LAMBDA i : z[i])]
      [] r \in {"ger", "geru"} ->
           [a |-> UpdM(dA, in.a, LAMBDA i, j : Add(Mul(al, Mul(X(i), Y(j))), A(i, j)))]
      [] r = "gerc" ->
           [a |-> UpdM(dA, in.a, LAMBDA i, j : Add(Mul(al, Mul(X(i), Conj(Y(j)))), A(i, j)))]
      [] r \in {"syr", "spr"} ->
           [a |-> UpdM(dA, in.a, LAMBDA i, j : Add(Mul(al, Mul(X(i), X(j))), A(i, j)))]
      [] r \in {"her", "hpr"} ->
           [a |-> UpdM(dA, in.a, LAMBDA i, j : Add(Mul(al, Mul(X(i), Conj(X(j)))), A(i, j)))]
      [] r \in {"syr2", "spr2"} ->
           [a |-> UpdM(dA, in.a, LAMBDA i, j :
                     Add(Add(Mul(al, Mul(X(i), Y(j))), Mul(al, Mul(Y(i), X(j)))), A(i, j)))]
      [] r \in {"her2", "hpr2"} ->
           [a |-> UpdM(dA, in.a, LAMBDA i, j :
                     Add(Add(Mul(al, Mul(X(i), Conj(Y(j)))), Mul(Conj(al), Mul(Y(i), Conj(X(j))))), A(i, j)))]
      [] r = "gemm" ->
           [c |-> UpdM(dC, in.c, LAMBDA i, j :
                     Add(Mul(al, Sum(LAMBDA l : Mul(OpA(i, l), OpB(l, j)), 0, k - 1)), Scaled(C(i, j))))]
      [] r \in {"symm", "hemm"} ->
           [c |-> UpdM(dC, in.c, LAMBDA i, j :
                     Add(Mul(al, IF p.sd = Left THEN Sum(LAMBDA l : Mul(A(i, l), B(l, j)), 0, m - 1)
                                                ELSE Sum(LAMBDA l : Mul(B(i, l), A(l, j)), 0, n - 1)),
                         Scaled(C(i, j))))]
      [] r = "syrk" ->      \* C = alpha op(A) op(A)^T + beta C
           [c |-> UpdM(dC, in.c, LAMBDA i, j :
                     Add(Mul(al, IF p.tA = NoTrans THEN Sum(LAMBDA l : Mul(A(i, l), A(j, l)), 0, k - 1)
                                                   ELSE Sum(LAMBDA l : Mul(A(l, i), A(l, j)), 0, k - 1)),
                         Scaled(C(i, j))))]
      [] r = "herk" ->      \* C = alpha op(A) op(A)^H + beta C, alpha and beta real
           [c |-> UpdM(dC, in.c, LAMBDA i, j :
                     Add(Mul(al, IF p.tA = NoTrans THEN Sum(LAMBDA l : Mul(A(i, l), Conj(A(j, l))), 0, k - 1)
                                                   ELSE Sum(LAMBDA l : Mul(Conj(A(l, i)), A(l, j)), 0, k - 1)),
                         Scaled(C(i, j))))]
      [] r = "syr2k" ->
           [c |-> UpdM(dC, in.c, LAMBDA i, j :
                     Add(Mul(al, IF p.tA = NoTrans
                                 THEN Sum(LAMBDA l : Add(Mul(A(i, l), B(j, l)), Mul(B(i, l), A(j, l))), 0, k - 1)
                                 ELSE Sum(LAMBDA l : Add(Mul(A(l, i), B(l, j)), Mul(B(l, i), A(l, j))), 0, k - 1)),
                         Scaled(C(i, j))))]
      [] r = "her2k" ->     \* C = alpha A B^H + conj(alpha) B A^H + beta C  (or A^H B ... for ConjTrans)
           [c |-> UpdM(dC, in.c, LAMBDA i, j :
                     Add(IF p.tA = NoTrans
                         THEN Add(Mul(al, Sum(LAMBDA l : Mul(A(i, l), Conj(B(j, l))), 0, k - 1)),
                                  Mul(Conj(al), Sum(LAMBDA l : Mul(B(i, l), Conj(A(j, l))), 0, k - 1)))
                         ELSE Add(Mul(al, Sum(LAMBDA l : Mul(Conj(A(l, i)), B(l, j)), 0, k - 1)),
                                  Mul(Conj(al), Sum(LAMBDA l : Mul(Conj(B(l, i)), A(l, j)), 0, k - 1))),
                         Scaled(C(i, j))))]
      [] r = "trmm" ->
           [b |-> UpdM(dB, in.b, LAMBDA i, j :
                     Mul(al, IF p.sd = Left THEN Sum(LAMBDA l : Mul(OpA(i, l), B(l, j)), 0, m - 1)
                                            ELSE Sum(LAMBDA l : Mul(B(i, l), OpA(l, j)), 0, n - 1)))]
      [] r = "trsm" ->
           \* Left:  op(A) Z = alpha B, column by column; Right: Z op(A) = alpha B, row by row
           IF p.sd = Left
           THEN LET Z == [j \in 0 .. n - 1 |-> SolveVec(OpA, LAMBDA i : Mul(al, B(i, j)), m, lowerT)]
                IN [b |-> UpdM(dB, in.b, LAMBDA i, j : Z[j][i])]
           ELSE LET OpAT(i, j) == OpA(j, i)
                    Z == [i \in 0 .. m - 1 |-> SolveVec(OpAT, LAMBDA j : Mul(al, B(i, j)), n, ~lowerT)]
                IN [b |-> UpdM(dB, in.b, LAMBDA i, j : Z[i][j])]

(* Reference BLAS returns at once, leaving every operand as it is, in a few    *)
(* degenerate situations where the formula above would still scale or clean    *)
(* the result operand; both outcomes are accepted there (and only there).      *)
QuickReturnLegal(r, p, al, be) ==
    \/ r \in GeMV /\ (p.m = 0 \/ p.n = 0)
    \/ r \in {"her", "hpr", "her2", "hpr2"} /\ al = Zero
    \/ r \in {"herk", "her2k"} /\ (al = Zero \/ p.k = 0) /\ be = One
=============================================================================
