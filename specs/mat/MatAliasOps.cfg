SPECIFICATION OpsSpec
CONSTANTS
  Family = "@FAMILY@"
  R1 = 0
  C1 = 0
  R2 = 0
  C2 = 0
  BackLen = 0
  Shard = @SHARD@
  NShards = @NSHARDS@
  MaxN = @MAXN@
  MaxExp = @MAXEXP@
  Seed = @SEED@
INVARIANTS PowAlg TriAlg ClassSound ValueSound FrameSound @EMIT@
CHECK_DEADLOCK FALSE
