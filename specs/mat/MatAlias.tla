------------------------------- MODULE MatAlias -------------------------------
(* Aliasing geometry of gonum/mat (property C05).                              *)
(*                                                                             *)
(* Abstract layer: a window of a backing array is the SET of element indices   *)
(* it addresses; two windows are disjoint, identical or partially overlapping  *)
(* by set intersection.  Expect(..) states, from the property and mat/doc.go,  *)
(* what a receiver-taking method must do for each relation.                    *)
(*                                                                             *)
(* Implementation-shaped layer: a literal transcription of mat/shadow.go       *)
(* (checkOverlap, rectanglesOverlap, VecDense.checkOverlap).  TLC proves    *)
(* that for windows of one matrix (equal strides / equal increments) the       *)
(* transcription says "overlap" exactly when the index sets intersect.         *)
(*                                                                             *)
(* Generator: every ordered pair of windows in the bounded geometry is printed *)
(* with its relation and expectation; the Go harness builds both views on one  *)
(* real backing slice and runs every applicable method on them.                *)
EXTENDS Integers, FiniteSets, Sequences, TLC, Json

CONSTANTS Family,   \* "mat" | "matdiff" | "vec" | "sym" (diagonal blocks: SymDense.SliceSym, TriDense.SliceTri)
                    \* | "matvec" (a Dense window and a column / row VIEW of the same parent as a VecDense)
          R1, C1,   \* shape of the first parent matrix laid over the backing (vec: max n, max inc)
          R2, C2,   \* shape of the second parent (matdiff only)
          BackLen,  \* vec: length of the backing array
          Shard, NShards

Min(a, b) == IF a < b THEN a ELSE b
Abs(a) == IF a < 0 THEN -a ELSE a

(****************************** matrix windows ******************************)
\* a window of an R x C parent: rows i..k-1, columns j..l-1  (Dense.Slice(i,k,j,l))
MatWindows(R, C) == {[off |-> i * C + j, r |-> k - i, c |-> l - j, st |-> C, i |-> i, k |-> k, j |-> j, l |-> l, R |-> R, C |-> C] :
                       i \in 0 .. R - 1, k \in 1 .. R, j \in 0 .. C - 1, l \in 1 .. C} 
MatWin(R, C) == {w \in MatWindows(R, C) : w.k > w.i /\ w.l > w.j}
\* diagonal blocks of an R x R parent: the windows SliceSym(i,k) / SliceTri(i,k) address
DiagWin(R) == {w \in MatWin(R, R) : w.i = w.j /\ w.k = w.l}
Cells(w) == {w.off + a * w.st + b : a \in 0 .. w.r - 1, b \in 0 .. w.c - 1}
DataLen(w) == (w.r - 1) * w.st + w.c

(****************************** vector windows ******************************)
VecWin(maxN, maxInc, len) ==
    {[off |-> o, n |-> n, inc |-> inc] : o \in 0 .. len - 1, n \in 1 .. maxN, inc \in 1 .. maxInc}
VecWinOK(maxN, maxInc, len) == {v \in VecWin(maxN, maxInc, len) : v.off + (v.n - 1) * v.inc < len}
VCells(v) == {v.off + a * v.inc : a \in 0 .. v.n - 1}
VDataLen(v) == (v.n - 1) * v.inc + 1

(************************ abstract layer: the property ***********************)
RelSets(s1, s2, same) == IF s1 \cap s2 = {} THEN "disjoint" ELSE IF same THEN "identical" ELSE "partial"

\* what a call recv.Op(.., a, ..) must do when recv and a are DISTINCT Go values
\* viewing one backing array.  "equal": must return the unaliased result and leave
\* every cell outside the receiver unchanged; "panic": must panic with a
\* "mat: bad region" message and leave every cell unchanged; "either": may panic
\* (region message) or return, but a returned result must be the unaliased one.
Expect(rel, sameStride) ==
    CASE rel = "partial"   -> "panic"
      [] rel = "identical" -> "either"   \* mat/doc.go: identity means the same Go value
      [] rel = "disjoint"  -> IF sameStride THEN "equal" ELSE "either"

\* Methods gonum computes through storage of their own before anything is written to the
\* receiver (mat/qr.go: "Do not need to worry about overlap between m and b because x has its
\* own independent storage"; Solve factorizes a copy of a; Product works in pooled
\* workspaces and copy the result at the end).  gonum deliberately does not panic for them when
\* receiver and operand overlap partially; the requirement is then the property's last sentence:
\* the call may panic (region message, nothing written) or return, and a returned result must be
\* exactly the unaliased one.  For every other method partial overlap must panic.
Isolated == <<"Solve(A,f)", "Solve(fLS,A)", "Product(A,f,f)", "Product(f,f,A)", "Product(f,A,f)",
              "SolveVec(fLS,A)">>
ExpectIso(rel, sameStride) == IF rel = "partial" THEN "either" ELSE Expect(rel, sameStride)
\* the class table is printed once so that the harness can check its own flags against it
ASSUME PrintT(ToJson([fam |-> "header", isolated |-> Isolated]))

(************* implementation-shaped layer: mat/shadow.go, literally *********)
RectanglesOverlap(off, aCols, bCols, stride) ==
    IF stride = 1 THEN TRUE
    ELSE LET bFrom == off % stride
             bTo == (bFrom + bCols) % stride
         IN IF bTo = 0 \/ bFrom < bTo THEN bFrom < aCols ELSE TRUE

\* checkOverlap(a, b blas64.General): "none" (returns false) or the panic raised
AlgMat(a, b) ==
    LET off == b.off - a.off IN
    IF off = 0 THEN (IF a.c = b.c /\ a.r = b.r /\ a.st = b.st THEN "identical" ELSE "overlap")
    ELSE IF off > 0 /\ DataLen(a) <= off THEN "none"
    ELSE IF off < 0 /\ DataLen(b) <= -off THEN "none"
    ELSE IF a.st # b.st /\ a.st # 1 /\ b.st # 1 THEN "strides"
    ELSE LET o == Abs(off)
             ac == IF off < 0 THEN b.c ELSE a.c
             bc == IF off < 0 THEN a.c ELSE b.c
         IN IF RectanglesOverlap(o, ac, bc, Min(a.st, b.st)) THEN "overlap" ELSE "none"

\* VecDense.checkOverlap(a blas64.Vector)
AlgVec(v, a) ==
    LET off == a.off - v.off IN
    IF off = 0 THEN (IF v.inc = a.inc /\ VDataLen(v) = VDataLen(a) THEN "identical" ELSE "overlap")
    ELSE IF off > 0 /\ VDataLen(v) <= off THEN "none"
    ELSE IF off < 0 /\ VDataLen(a) <= -off THEN "none"
    ELSE IF v.inc # a.inc /\ v.inc # 1 /\ a.inc # 1 THEN "strides"
    ELSE LET inc == Min(v.inc, a.inc)
         IN IF inc = 1 \/ off % inc = 0 THEN "overlap" ELSE "none"

(********************************* cases ************************************)
MatCase(w1, w2) ==
    LET rel == RelSets(Cells(w1), Cells(w2), w1 = w2)
        same == w1.st = w2.st
    IN [fam |-> Family, w1 |-> w1, w2 |-> w2, rel |-> rel, expect |-> Expect(rel, same), expectIso |-> ExpectIso(rel, same),
        alg |-> AlgMat(w1, w2)]
VecCase(v1, v2) ==
    LET rel == RelSets(VCells(v1), VCells(v2), v1 = v2)
        same == v1.inc = v2.inc
    IN [fam |-> Family, w1 |-> v1, w2 |-> v2, rel |-> rel, expect |-> Expect(rel, same), expectIso |-> ExpectIso(rel, same),
        alg |-> AlgVec(v1, v2)]

\* column and row views of an R x C parent as vectors (Dense.ColView / RowView, then SliceVec):
\* a column view has increment C (the parent's stride), a row view increment 1
ColViews(R, C) == {[off |-> i * C + j, n |-> k - i, inc |-> C] : i \in 0 .. R - 1, k \in 1 .. R, j \in 0 .. C - 1}
RowViews(R, C) == {[off |-> i * C + j, n |-> l - j, inc |-> 1] : i \in 0 .. R - 1, j \in 0 .. C - 1, l \in 1 .. C}
ViewsOf(R, C) == {v \in ColViews(R, C) \cup RowViews(R, C) : v.n > 0}
\* mat treats a vector operand as the n x 1 matrix with stride inc (generalFromVector)
AsGeneral(v) == [off |-> v.off, r |-> v.n, c |-> 1, st |-> v.inc]
\* receiver = matrix window, operand = vector view (and the other way round: "vecmat" below).
\* "Same stride" in the property's sense: the view steps by the parent's stride (column views);
\* a row view steps by 1, for which the detection arithmetic is documented to be conservative.
MatVecCase(w, v) ==
    LET rel == RelSets(Cells(w), VCells(v), Cells(w) = VCells(v))
        same == v.inc = w.st
    IN [fam |-> Family, w1 |-> w, w2 |-> v, rel |-> rel, expect |-> Expect(rel, same), expectIso |-> ExpectIso(rel, same),
        alg |-> AlgMat(w, AsGeneral(v))]

InShard(w) == (w.off % NShards) = Shard

\* the receiver itself (the same Go value), or its implicit transpose, as an operand:
\* mat/doc.go allows it and the result must be the unaliased one
SelfCase(w, rel) == [fam |-> Family, w1 |-> w, w2 |-> w, rel |-> rel, expect |-> "equal", expectIso |-> "equal", alg |-> "self"]
MatSelf == {SelfCase(w, "self") : w \in {x \in MatWin(R1, C1) : InShard(x)}}
           \cup {SelfCase(w, "selfT") : w \in {x \in MatWin(R1, C1) : InShard(x) /\ x.r = x.c}}
VecSelf == {SelfCase(v, "self") : v \in {x \in VecWinOK(R1, C1, BackLen) : InShard(x)}}

Cases == CASE Family = "mat"     -> MatSelf \cup {MatCase(w1, w2) : w1 \in {w \in MatWin(R1, C1) : InShard(w)}, w2 \in MatWin(R1, C1)}
           [] Family = "matdiff" -> {MatCase(w1, w2) : w1 \in {w \in MatWin(R1, C1) : InShard(w)},
                                                       w2 \in {w \in MatWin(R2, C2) : TRUE}}
                                    \cup {MatCase(w2, w1) : w1 \in {w \in MatWin(R1, C1) : InShard(w)},
                                                            w2 \in {w \in MatWin(R2, C2) : TRUE}}
           [] Family = "sym"     -> {SelfCase(w, "self") : w \in {x \in DiagWin(R1) : InShard(x)}}
                                    \cup {MatCase(w1, w2) : w1 \in {w \in DiagWin(R1) : InShard(w)}, w2 \in DiagWin(R1)}
           [] Family = "matvec"  -> {MatVecCase(w, v) : w \in {x \in MatWin(R1, C1) : InShard(x)}, v \in ViewsOf(R1, C1)}
           [] Family = "vec"     -> VecSelf \cup {VecCase(v1, v2) : v1 \in {v \in VecWinOK(R1, C1, BackLen) : InShard(v)},
                                                       v2 \in VecWinOK(R1, C1, BackLen)}

VARIABLE c
Init == c \in Cases
Next == UNCHANGED c
Spec == Init /\ [][Next]_c

(************************** theorems TLC checks (R1) *************************)
\* the detection algorithm is exact on windows of one parent (equal strides / increments)
AlgExact ==
    (Family = "vec" /\ c.w1.inc # c.w2.inc) \/ (Family = "matvec" /\ c.w1.st # c.w2.inc)
    \/ (Family \notin {"vec", "matvec"} /\ c.w1.st # c.w2.st)
    \/ (c.alg = "none") = (c.rel = "disjoint")
\* with different strides/increments the algorithm may be conservative but never misses an overlap
AlgSafe == c.rel # "disjoint" => c.alg # "none"
\* and it reports "identical" only for the identical window
AlgIdent == (c.alg = "identical") => (c.rel = "identical")
\* the expectation table is total and never demands a return on shared cells
ExpectSound == /\ c.expect \in {"equal", "panic", "either"} /\ c.expectIso \in {"equal", "either"} \cup {c.expect}
               /\ (c.expectIso = "equal") => (c.expect = "equal")
               /\ (c.expect = "equal") => (c.rel \in {"disjoint", "self", "selfT"})

Emit == PrintT(ToJson(c))
=============================================================================
