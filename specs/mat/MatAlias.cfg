SPECIFICATION Spec
CONSTANTS
  Family = "@FAMILY@"
  R1 = @R1@
  C1 = @C1@
  R2 = @R2@
  C2 = @C2@
  BackLen = @BACKLEN@
  Shard = @SHARD@
  NShards = @NSHARDS@
INVARIANTS AlgExact AlgSafe AlgIdent ExpectSound @EMIT@
CHECK_DEADLOCK FALSE
