---------------------------- MODULE OverlapProofMC ----------------------------
(* TLC cross-check of the STATEMENTS proved in OverlapProof.tla on small      *)
(* parents (no proof content):                                                *)
(*   SameCells  Cells(w) = CellsN(w): the one step of OverlapExact that no    *)
(*              tlapm back end can handle (two-variable set constructor)      *)
(*   HypMet     the hypothesis IsWin(w, st, i, j) is met by every window      *)
(*              record MatAlias.tla builds (MatWin(R, st)), so the theorem is  *)
(*              not vacuous for them                                          *)
(*   Exact      the conclusion of OverlapExact, evaluated with the original   *)
(*              Cells, on every ordered pair of windows                       *)
(*   Pos        the statement of the key lemma PosCase (column criterion      *)
(*              modulo the stride + first exit) on every parameter tuple      *)
(* Run:  tlc -config OverlapProofMC.cfg OverlapProofMC.tla                    *)
EXTENDS OverlapProof, TLC, FiniteSets

CONSTANTS MaxSt, MaxR

\* the windows MatAlias.tla's MatWin(R, C) produces (fields AlgMat/Cells read),
\* for a parent with MaxR + MaxR rows so that windows may start in any of the
\* first MaxR rows and have up to MaxR rows
Wins(st) == {[off |-> i * st + j, r |-> k - i, c |-> l - j, st |-> st, i |-> i, j |-> j] :
               i \in 0 .. MaxR - 1, k \in 1 .. 2 * MaxR, j \in 0 .. st - 1, l \in 1 .. st}
Win(st) == {w \in Wins(st) : w.r >= 1 /\ w.r <= MaxR /\ w.c >= 1}

ASSUME SameCells == \A st \in 1 .. MaxSt : \A w \in Win(st) : Cells(w) = CellsN(w)

ASSUME HypMet == \A st \in 1 .. MaxSt : \A w \in Win(st) : IsWin(w, st, w.i, w.j)

ASSUME Exact ==
    \A st \in 1 .. MaxSt : \A w1, w2 \in Win(st) :
        /\ (AlgMat(w1, w2) = "none") <=> (Cells(w1) \cap Cells(w2) = {})
        /\ AlgMat(w1, w2) # "strides"
        /\ AlgMat(w1, w2) = "identical" => w1.off = w2.off /\ w1.r = w2.r /\ w1.c = w2.c
        /\ (Cells(w1) \cap Cells(w2) # {}) <=> (Meet(w1.i, w1.r, w2.i, w2.r) /\ Meet(w1.j, w1.c, w2.j, w2.c))

ASSUME Pos ==
    \A st \in 1 .. MaxSt : \A iA, iB \in 0 .. MaxR - 1 : \A rA, rB \in 1 .. MaxR :
    \A jA, jB \in 0 .. st - 1 : \A cA, cB \in 1 .. st :
        PosStmt(st, iA, jA, rA, cA, iB, jB, rB, cB, (iB * st + jB) - (iA * st + jA))

ASSUME PrintT(<<"OverlapProofMC", "strides", MaxSt, "windows", [st \in 1 .. MaxSt |-> Cardinality(Win(st))]>>)
=============================================================================
