------------------------------ MODULE MatAliasOps ------------------------------
(* Value-carrying aliasing families of property C05.                            *)
(*                                                                              *)
(* MatAlias.tla states the aliasing contract on index sets and leaves "the      *)
(* unaliased result" to a second run of the same gonum method on private        *)
(* copies.  That reading cannot see a method that is wrong in the same way with *)
(* and without aliasing, nor one whose aliased and unaliased runs take the same *)
(* wrong path.  The families of this module carry VALUES: the specification     *)
(* lays small integer matrices into one junk-filled parent backing array,       *)
(* computes the exact result of the call over the integers (matrix power,       *)
(* scaling, an index-dependent map, the inverse of a unimodular matrix, a       *)
(* product of triangular matrices) and prints the WHOLE backing array demanded  *)
(* after a return.  The relation of receiver and operand is the set-theoretic   *)
(* one of MatAlias (Cells, RelSets), the outcome class comes from its Expect    *)
(* table, and the transcription of mat/shadow.go (AlgMat) is checked against    *)
(* the relation on every generated case.                                        *)
(*                                                                              *)
(* Family "pow"     methods of Dense that compute a function of ONE square      *)
(*                  matrix into the receiver: Pow(a, k), Scale(f, a),           *)
(*                  Apply(fn, a), Inverse(a).  Receiver: zero value, pre-sized  *)
(*                  with its own storage, every n x n window of the parent      *)
(*                  (disjoint, identical or partially overlapping window), the  *)
(*                  argument itself, the argument itself with the argument      *)
(*                  passed as its implicit transpose.                           *)
(* Family "triprod" TriDense.MulTri(a, b) with the factors in every Triangular  *)
(*                  representation: windows of the parent (SliceTri), the       *)
(*                  receiver itself, a triangular matrix of the other kind      *)
(*                  under TTri, DiagDense, the DiagView of a window, the        *)
(*                  receiver's own DiagView, TriBandDense.                      *)
EXTENDS MatAlias

CONSTANTS MaxN,      \* sizes n = 1 .. MaxN
          MaxExp,    \* Pow exponents 0 .. MaxExp
          Seed       \* data salt (VERIF_SEED)

(***************************** exact matrix algebra *****************************)
\* a matrix is a sequence of rows; function values are forced (TLCEval) because they are applied often
Mk(r, cc, f(_, _)) == TLCEval([i \in 1 .. r |-> [j \in 1 .. cc |-> f(i, j)]])
SumF(f(_), n) == LET S[k \in 0 .. n] == IF k = 0 THEN 0 ELSE S[k - 1] + f(k) IN S[n]
Dim(A) == Len(A)
\* (the operands are bound through singleton sets: TLC then evaluates each of them once; handed over as
\* operator arguments they were re-evaluated at every application, exponentially in the depth of a power)
MMul(A, B) == CHOOSE M \in {LET f(i, j) == LET g(k) == AA[i][k] * BB[k][j] IN SumF(g, Dim(AA)) IN Mk(Dim(AA), Dim(AA), f)
                               : AA \in {A}, BB \in {B}} : TRUE
Ident(n) == LET f(i, j) == IF i = j THEN 1 ELSE 0 IN Mk(n, n, f)
TransposeM(A) == LET f(i, j) == A[j][i] IN Mk(Dim(A), Dim(A), f)
RECURSIVE MPow(_, _)
MPow(A, k) == IF k = 0 THEN Ident(Dim(A)) ELSE MMul(MPow(A, k - 1), A)
MScale(a, A) == LET f(i, j) == a * A[i][j] IN Mk(Dim(A), Dim(A), f)
\* the function handed to Apply: fn(i, j, v) = 3 i - j + 2 v on 0-based indices
MApply(A) == LET f(i, j) == 3 * (i - 1) - (j - 1) + 2 * A[i][j] IN Mk(Dim(A), Dim(A), f)
\* determinant by Laplace expansion; inverse of a unimodular matrix by the adjugate
Minor(A, p, q) == LET f(i, j) == A[IF i < p THEN i ELSE i + 1][IF j < q THEN j ELSE j + 1] IN Mk(Dim(A) - 1, Dim(A) - 1, f)
RECURSIVE DetOf(_)
DetOf(A) == IF Dim(A) = 1 THEN A[1][1]
            ELSE LET f(j) == (IF j % 2 = 1 THEN 1 ELSE 0 - 1) * A[1][j] * DetOf(Minor(A, 1, j)) IN SumF(f, Dim(A))
Cofactor(A, i, j) == IF Dim(A) = 1 THEN 1 ELSE (IF (i + j) % 2 = 0 THEN 1 ELSE 0 - 1) * DetOf(Minor(A, i, j))
InvUni(A) == LET d == DetOf(A)  f(i, j) == d * Cofactor(A, j, i) IN Mk(Dim(A), Dim(A), f)
Flat(M) == [s \in 1 .. Dim(M) * Dim(M) |-> M[((s - 1) \div Dim(M)) + 1][((s - 1) % Dim(M)) + 1]]

(************************************ data **************************************)
\* small integers: every power up to MaxExp of an n x n matrix stays far inside 32 bits (TLC) and 53 bits
\* (float64), so the floating point result of any algorithm is the exact integer result
Mag == IF MaxExp <= 6 THEN 2 ELSE 1
Fill(salt, i, j) == ((3 * i + 5 * j + i * j + 7 * salt) % (2 * Mag + 1)) - Mag
Fill2(salt, i, j) == ((3 * i + 5 * j + i * j + 7 * salt) % 5) - 2
\* unit triangular (upper for an even salt, lower for an odd one) with off-diagonal entries in -1 .. 1:
\* unimodular, and Gaussian elimination on it divides by 1 only
UnitTri(salt, i, j) == IF i = j THEN 1
                       ELSE IF (salt % 2 = 0) = (i < j) THEN ((i + 2 * j + salt) % 3) - 1 ELSE 0
Junk(z) == 50 + z

(******************************** family "pow" **********************************)
PR(n) == n + 2
PC(n) == n + 3
SqWin(n) == {w \in MatWin(PR(n), PC(n)) : w.r = n /\ w.c = n}

\* the parent's backing array (slot z = s - 1, 0-based as in Go): the argument's window holds the data,
\* every other slot junk
PBack(n, a, unit) ==
    [s \in 1 .. PR(n) * PC(n) |->
        LET z == s - 1  ri == z \div a.st  cj == z % a.st IN
        IF ri >= a.i /\ ri < a.k /\ cj >= a.j /\ cj < a.l
        THEN (IF unit THEN UnitTri(Seed + n + a.off, ri - a.i + 1, cj - a.j + 1) ELSE Fill(Seed + n, ri - a.i + 1, cj - a.j + 1))
        ELSE Junk(z)]
AbsWin(back, w) == LET f(i, j) == back[w.off + (i - 1) * w.st + (j - 1) + 1] IN Mk(w.r, w.c, f)
\* the backing array after matrix M was stored into window w and nothing else was touched
WriteWin(back, w, M) ==
    [s \in 1 .. Len(back) |->
        LET d == (s - 1) - w.off  ri == d \div w.st  cj == d % w.st IN
        IF d >= 0 /\ ri < w.r /\ cj < w.c THEN M[ri + 1][cj + 1] ELSE back[s]]

FnOps == {[op |-> "Pow", k |-> e] : e \in 0 .. MaxExp}
         \cup {[op |-> "Scale", k |-> a] : a \in {0, 2, 0 - 1}}
         \cup {[op |-> "Apply", k |-> 0], [op |-> "Inverse", k |-> 0]}
FnValue(o, X) == CASE o.op = "Pow" -> MPow(X, o.k)
                   [] o.op = "Scale" -> MScale(o.k, X)
                   [] o.op = "Apply" -> MApply(X)
                   [] o.op = "Inverse" -> InvUni(X)

\* Outcome class for a receiver that is a DISTINCT window of the argument's parent.  The Expect table of
\* MatAlias applies literally to all four methods: a partial overlap must panic with nothing written (the
\* property: "a receiver whose storage partially overlaps an operand's elements panics instead of returning").
\* Pow used to be accepted either way (class Isolated), because gonum checked no overlap for k # 2: it
\* returned the exact power but overwrote the overlapped part of a, an operand that is not the receiver.
\* That was a genuine defect (finding C05-Fpowovl, repaired: Pow now checks the overlap like Scale / Apply),
\* so the class is empty again.
IsolatedFn == {}
ExpectFn(o, rel) == IF o.op \in IsolatedFn THEN ExpectIso(rel, TRUE) ELSE Expect(rel, TRUE)

\* rk: "fresh" zero value | "sized" own storage | "win" window w1 of the parent, a distinct Go value |
\*     "self" the argument itself | "selfT" the argument itself, the argument passed as recv.T()
PowCase(n, o, rk, w1, w2, argT) ==
    LET back == PBack(n, w2, o.op = "Inverse")
        A == AbsWin(back, w2)
        X == IF argT THEN TransposeM(A) ELSE A
        res == FnValue(o, X)
        rel == IF rk = "win" THEN RelSets(Cells(w1), Cells(w2), w1 = w2)
               ELSE IF rk \in {"self", "selfT"} THEN rk ELSE "disjoint"
        rback == IF rk = "sized" THEN [s \in 1 .. n * n |-> Junk(100 + s)] ELSE <<>>
    IN [fam |-> "pow", op |-> o.op, k |-> o.k, n |-> n, rk |-> rk, w1 |-> w1, w2 |-> w2, argT |-> argT,
        back |-> back, rback |-> rback, rel |-> rel,
        expect |-> IF rk = "win" THEN ExpectFn(o, rel) ELSE "equal",
        alg |-> IF rk = "win" THEN AlgMat(w1, w2) ELSE "self",
        x |-> X, res |-> res,
        want |-> IF rk \in {"win", "self", "selfT"} THEN WriteWin(back, w1, res) ELSE back,
        rwant |-> IF rk = "sized" THEN Flat(res) ELSE <<>>]

PowCases ==
    UNION {UNION {UNION {
        {PowCase(n, o, "win", w1, w2, t) : w1 \in SqWin(n), t \in BOOLEAN}
        \cup {PowCase(n, o, rk, w2, w2, t) : rk \in {"fresh", "sized"}, t \in BOOLEAN}
        \cup {PowCase(n, o, "self", w2, w2, FALSE), PowCase(n, o, "selfT", w2, w2, TRUE)}
      : w2 \in {w \in SqWin(n) : InShard(w)}} : o \in FnOps} : n \in 1 .. MaxN}

(******************************* family "triprod" *******************************)
TN(n) == n + 2
InTri(up, i, j) == IF up THEN i <= j ELSE i >= j
\* diagonal blocks of size n of the (n+2) x (n+2) triangular parent: SliceTri(p, p + n)
DiagBlock(N, p, n) == [off |-> p * N + p, r |-> n, c |-> n, st |-> N, i |-> p, k |-> p + n, j |-> p, l |-> p + n, R |-> N, C |-> N]
TWin(n, p) == DiagBlock(TN(n), p, n)
\* (written out for speed; it is the window of MatAlias's geometry)
ASSUME \A n \in 1 .. MaxN, p \in 0 .. 2 : TWin(n, p) \in DiagWin(TN(n))
\* backing array of a triangular parent of kind up: its triangle holds data, the other triangle junk
TBackOf(N, up, salt) ==
    [s \in 1 .. N * N |-> LET z == s - 1  ri == z \div N  cj == z % N IN
                          IF InTri(up, ri, cj) THEN Fill2(salt, ri + 1, cj + 1) ELSE Junk(z)]
TriAbs(back, w, up) == LET f(i, j) == IF InTri(up, i, j) THEN back[w.off + (i - 1) * w.st + (j - 1) + 1] ELSE 0 IN Mk(w.r, w.r, f)
TriPart(M, up) == LET f(i, j) == IF InTri(up, i, j) THEN M[i][j] ELSE 0 IN Mk(Dim(M), Dim(M), f)
\* a DiagDense obtained from TriDense.DiagView addresses the diagonal cells of the window with increment stride + 1
DiagCells(w) == {w.off + t * (w.st + 1) : t \in 0 .. w.r - 1}
DiagAbs(back, w) == LET f(i, j) == IF i = j THEN back[w.off + (i - 1) * (w.st + 1) + 1] ELSE 0 IN Mk(w.r, w.r, f)
\* what mat/shadow.go sees of it (generalFromSymmetricBand of RawSymBand: N x 1, stride = increment)
DiagGeneral(w) == [off |-> w.off, r |-> w.r, c |-> 1, st |-> w.st + 1]
\* TriBandDense, bandwidth kb: row i of the band storage holds (i, i .. i + kb) resp. (i, i - kb .. i)
BandK(n) == IF n = 1 THEN 0 ELSE 1
BandSlot(n, up, i, j) == LET kb == BandK(n) IN
    IF up THEN (IF i <= j /\ j - i <= kb THEN (i - 1) * (kb + 1) + (j - i) + 1 ELSE 0)
    ELSE (IF j <= i /\ i - j <= kb THEN (i - 1) * (kb + 1) + kb + j - i + 1 ELSE 0)
BandStore(n, up, salt) ==
    [s \in 1 .. n * (BandK(n) + 1) |->
        IF \E i \in 1 .. n, j \in 1 .. n : BandSlot(n, up, i, j) = s
        THEN LET ij == CHOOSE ij \in (1 .. n) \X (1 .. n) : BandSlot(n, up, ij[1], ij[2]) = s IN Fill2(salt, ij[1], ij[2])
        ELSE Junk(200 + s)]
BandAbs(n, up, st) == LET f(i, j) == IF BandSlot(n, up, i, j) = 0 THEN 0 ELSE st[BandSlot(n, up, i, j)] IN Mk(n, n, f)

\* factor descriptors.  kind:
\*   "win"      parent.SliceTri(p, p + n)                       (a distinct Go value)
\*   "self"     the receiver itself
\*   "winT"     a window of a SECOND parent of the other kind, handed over as x.TTri()
\*   "diag"     a DiagDense with its own storage
\*   "diagwin"  parent.SliceTri(p, p + n).DiagView()
\*   "selfdiag" recv.DiagView()
\*   "band"     a TriBandDense with its own storage
\* Diagonal matrices report Upper: into a Lower product they are handed over as d.TTri() (tt).
FKinds(rk) == {[kind |-> "win", p |-> p] : p \in 0 .. 2} \cup {[kind |-> "diagwin", p |-> p] : p \in 0 .. 2}
              \cup {[kind |-> k, p |-> 0] : k \in {"winT", "diag", "band"}}
              \cup (IF rk = "win" THEN {[kind |-> k, p |-> 0] : k \in {"self", "selfdiag"}} ELSE {})
FWin(n, f, w1) == IF f.kind \in {"self", "selfdiag"} THEN w1 ELSE TWin(n, f.p)
FStore(n, up, f, pos) ==
    CASE f.kind = "winT" -> TBackOf(n + 1, ~up, Seed + 17 + pos)
      [] f.kind = "diag" -> [s \in 1 .. n |-> Fill2(Seed + 11 + pos, s, s + 1)]
      [] f.kind = "band" -> BandStore(n, up, Seed + 23 + pos)
      [] OTHER -> <<>>
\* window SliceTri(1, n + 1) of the second parent
W2nd(n) == DiagBlock(n + 1, 1, n)
ASSUME \A n \in 1 .. MaxN : W2nd(n) \in DiagWin(n + 1)
FAbs(n, up, f, pos, back, w1) ==
    CASE f.kind \in {"win", "self"} -> TriAbs(back, FWin(n, f, w1), up)
      [] f.kind \in {"diagwin", "selfdiag"} -> DiagAbs(back, FWin(n, f, w1))
      [] f.kind = "winT" -> TransposeM(TriAbs(FStore(n, up, f, pos), W2nd(n), ~up))
      [] f.kind = "diag" -> LET st == FStore(n, up, f, pos)  g(i, j) == IF i = j THEN st[i] ELSE 0 IN Mk(n, n, g)
      [] f.kind = "band" -> BandAbs(n, up, FStore(n, up, f, pos))
FTT(up, f) == f.kind = "winT" \/ (~up /\ f.kind \in {"diag", "diagwin", "selfdiag"})
\* relation of the receiver window w1 with the factor's cells, and what shadow.go's arithmetic says
FRel(n, f, w1) ==
    CASE f.kind = "self" -> "self"
      [] f.kind = "win" -> RelSets(Cells(w1), Cells(TWin(n, f.p)), w1 = TWin(n, f.p))
      [] f.kind \in {"diagwin", "selfdiag"} -> RelSets(Cells(w1), DiagCells(FWin(n, f, w1)), FALSE)
      [] OTHER -> "disjoint"
FSame(f) == f.kind \notin {"diagwin", "selfdiag"}
FAlg(n, f, w1) ==
    CASE f.kind = "self" -> "self"
      [] f.kind = "win" -> AlgMat(w1, TWin(n, f.p))
      [] f.kind \in {"diagwin", "selfdiag"} -> AlgMat(w1, DiagGeneral(FWin(n, f, w1)))
      [] OTHER -> "none"
FExpect(n, f, w1) == IF f.kind = "self" THEN "equal" ELSE Expect(FRel(n, f, w1), FSame(f))
\* both factors: one demanded panic decides; otherwise one "either" leaves the choice
Both(e1, e2) == IF "panic" \in {e1, e2} THEN "panic" ELSE IF "either" \in {e1, e2} THEN "either" ELSE "equal"

\* the backing array after the product P was stored into the triangle of window w
WriteTri(back, w, up, P) ==
    [s \in 1 .. Len(back) |->
        LET d == (s - 1) - w.off  ri == d \div w.st  cj == d % w.st IN
        IF d >= 0 /\ ri < w.r /\ cj < w.r /\ InTri(up, ri, cj) THEN P[ri + 1][cj + 1] ELSE back[s]]

TriCase(n, up, rk, i, fa, fb) ==
    LET back == TBackOf(TN(n), up, Seed + 3 + n)
        w1 == TWin(n, i)
        Xa == FAbs(n, up, fa, 1, back, w1)
        Xb == FAbs(n, up, fb, 2, back, w1)
        P == MMul(Xa, Xb)
        inpar == rk = "win"
        rback == IF rk = "sized" THEN [s \in 1 .. n * n |-> Junk(100 + s)] ELSE <<>>
        w0 == [off |-> 0, r |-> n, c |-> n, st |-> n]
        fac(f, pos) == [kind |-> f.kind, p |-> f.p, tt |-> FTT(up, f), store |-> FStore(n, up, f, pos),
                        rel |-> IF inpar THEN FRel(n, f, w1) ELSE "disjoint",
                        same |-> FSame(f),
                        alg |-> IF inpar THEN FAlg(n, f, w1) ELSE "none",
                        x |-> IF pos = 1 THEN Xa ELSE Xb]
    IN [fam |-> "triprod", op |-> "MulTri", n |-> n, up |-> up, rk |-> rk, i |-> i, pn |-> TN(n),
        a |-> fac(fa, 1), b |-> fac(fb, 2), back |-> back, rback |-> rback,
        expect |-> IF inpar THEN Both(FExpect(n, fa, w1), FExpect(n, fb, w1)) ELSE "equal",
        res |-> P,
        want |-> IF inpar THEN WriteTri(back, w1, up, P) ELSE back,
        rwant |-> IF rk = "sized" THEN WriteTri(rback, w0, up, P) ELSE <<>>]

TriCases ==
    UNION {UNION {
        {TriCase(n, up, "win", i, fa, fb) : i \in {ii \in 0 .. 2 : (ii + n) % NShards = Shard}, fa \in FKinds("win"), fb \in FKinds("win")}
        \cup UNION {{TriCase(n, up, rk, 0, fa, fb) : fa \in FKinds(rk), fb \in FKinds(rk)}
                       : rk \in {rr \in {"fresh", "sized"} : (n + (IF rr = "fresh" THEN 0 ELSE 1)) % NShards = Shard}}
      : up \in BOOLEAN} : n \in 1 .. MaxN}

(************************************ cases *************************************)
OpsCases == CASE Family = "pow" -> PowCases [] Family = "triprod" -> TriCases

OpsInit == c \in OpsCases
OpsSpec == OpsInit /\ [][Next]_c

(************************** theorems TLC checks (R1) ****************************)
\* the transcription of mat/shadow.go agrees with the set-theoretic relation on every generated case
PowAlg == c.fam = "pow" /\ c.rk = "win" =>
            /\ (c.alg = "none") = (c.rel = "disjoint")
            /\ (c.alg = "identical") = (c.rel = "identical")
TriAlg == c.fam = "triprod" /\ c.rk = "win" =>
            \A f \in {c.a, c.b} : /\ f.rel \notin {"disjoint", "self"} => f.alg \notin {"none", "self"}
                                  /\ f.same => ((f.alg = "none") = (f.rel = "disjoint"))
                                  /\ (f.alg = "identical") => (f.rel = "identical")
\* the demanded class never asks for a return value over shared cells
ClassSound == /\ c.expect \in {"equal", "panic", "either"}
              /\ c.fam = "pow" /\ c.expect = "equal" => c.rel \in {"disjoint", "self", "selfT"}
              /\ c.fam = "triprod" /\ c.expect = "equal" => \A f \in {c.a, c.b} : f.rel \in {"disjoint", "self"}
\* the demanded values are what the definitions say, by a second route: left and right powers agree, the
\* inverse is a two-sided inverse, a product of triangular matrices of one kind is of that kind
ValueSound ==
    /\ c.fam = "pow" /\ c.op = "Pow" /\ c.k > 0 => c.res = MMul(c.x, MPow(c.x, c.k - 1))
    /\ c.fam = "pow" /\ c.op = "Inverse" => MMul(c.x, c.res) = Ident(c.n) /\ MMul(c.res, c.x) = Ident(c.n)
    /\ c.fam = "triprod" => c.res = TriPart(c.res, c.up)
\* nothing outside the receiver's window is demanded to change, and a receiver with storage of its own
\* leaves the parent alone
FrameSound ==
    /\ Len(c.want) = Len(c.back)
    /\ c.rk \in {"fresh", "sized"} => c.want = c.back
    /\ c.fam = "pow" /\ c.rk \notin {"fresh", "sized"} =>
          \A s \in 1 .. Len(c.back) : (s - 1) \notin Cells(c.w1) => c.want[s] = c.back[s]
    /\ c.fam = "triprod" /\ c.rk = "win" =>
          \A s \in 1 .. Len(c.back) : (s - 1) \notin Cells(TWin(c.n, c.i)) => c.want[s] = c.back[s]

EmitOps == PrintT(ToJson(c))
=============================================================================
