CONSTANTS
  MaxSt = 6
  MaxR = 4
