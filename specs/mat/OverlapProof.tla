----------------------------- MODULE OverlapProof -----------------------------
(* TLAPS proof of the overlap lemma of gonum/mat for windows of one parent    *)
(* (equal strides), for ALL sizes.  MatAlias.tla (property C05) establishes   *)
(* the same statement (its invariant AlgExact) by TLC enumeration of the      *)
(* windows of a 3x4 (quick) / 5x5 (thorough) parent only.                     *)
(*                                                                            *)
(*   THEOREM OverlapExact                                                     *)
(*     for every stride st >= 1 and all windows w1, w2 with                   *)
(*       w.off = i*st + j,  i, j >= 0,  w.r >= 1,  w.c >= 1,  j + w.c <= st,   *)
(*       w.st = st                                                            *)
(*     (that is: every Dense.Slice(i,k,j,l) view of every row-major parent    *)
(*     with st columns and any number of rows; the two windows may even come  *)
(*     from parents with different row counts)                                *)
(*       AlgMat(w1, w2) = "none"   <=>   CellsN(w1) \cap CellsN(w2) = {}      *)
(*     and AlgMat(w1, w2) is never "strides", and it is "identical" only if    *)
(*     offset, rows and columns agree.                                        *)
(*   LEMMA Geometry    cells intersect <=> row intervals meet and column      *)
(*                     intervals meet (uniqueness of Euclidean division)      *)
(*   LEMMA PosCase     for off > 0: "len(a.Data) <= off or rectanglesOverlap   *)
(*                     says false"  <=>  rows or columns miss; contains the    *)
(*                     column-interval criterion modulo the stride            *)
(*                                                                            *)
(* AlgMat / RectanglesOverlap are the transcription of mat/shadow.go          *)
(* (checkOverlap, rectanglesOverlap), Cells is the set of backing-array       *)
(* indices a window addresses.  The definitions between the two marker lines  *)
(* are copied VERBATIM from MatAlias.tla; tools/proofs compares the text.     *)
(* CellsN is Cells with the two-variable set constructor unfolded, see below: *)
(* that one equation is not machine-proved.                                   *)
(*                                                                            *)
(* Trusted base: tlapm f14d233 and its SMT translation, Z3 4.8.9 (all 462     *)
(* obligations are discharged by the SMT back end; the arithmetic of * \div % *)
(* on integers is the solver's, used only in section 1).  The module has no   *)
(* ASSUME, AXIOM, OMITTED or proof-less theorem.  Run with the solver in its  *)
(* default configuration:                                                     *)
(*   tlapm --threads 8 --solver 'z3 -smt2 "$file"' OverlapProof.tla           *)
(* (tlapm's built-in Z3 flags AUTO_CONFIG=false smt.MBQI=true time out on     *)
(* several of the linear obligations).                                        *)
EXTENDS Integers

\* BEGIN verbatim MatAlias.tla
Min(a, b) == IF a < b THEN a ELSE b
Abs(a) == IF a < 0 THEN -a ELSE a
Cells(w) == {w.off + a * w.st + b : a \in 0 .. w.r - 1, b \in 0 .. w.c - 1}
DataLen(w) == (w.r - 1) * w.st + w.c
RectanglesOverlap(off, aCols, bCols, stride) ==
    IF stride = 1 THEN TRUE
    ELSE LET bFrom == off % stride
             bTo == (bFrom + bCols) % stride
         IN IF bTo = 0 \/ bFrom < bTo THEN bFrom < aCols ELSE TRUE
AlgMat(a, b) ==
    LET off == b.off - a.off IN
    IF off = 0 THEN (IF a.c = b.c /\ a.r = b.r /\ a.st = b.st THEN "identical" ELSE "overlap")
    ELSE IF off > 0 /\ DataLen(a) <= off THEN "none"
    ELSE IF off < 0 /\ DataLen(b) <= -off THEN "none"
    ELSE IF a.st # b.st /\ a.st # 1 /\ b.st # 1 THEN "strides"
    ELSE LET o == Abs(off)
             ac == IF off < 0 THEN b.c ELSE a.c
             bc == IF off < 0 THEN a.c ELSE b.c
         IN IF RectanglesOverlap(o, ac, bc, Min(a.st, b.st)) THEN "overlap" ELSE "none"
\* END verbatim MatAlias.tla


\* Cells(w) with its two-variable set constructor written as a union of rows.
\* No tlapm back end supports {e : a \in S, b \in T} (Zenon, Isabelle and SMT all
\* answer "unsupported operator SetOf (multiple declared constants)"), so the
\* proof is carried out for CellsN.  Cells(w) = CellsN(w) is the meaning of the
\* constructor (Specifying Systems, 16.1.6) and is the one step NOT machine-
\* proved here; TLC evaluates it, together with the statement of OverlapExact,
\* on every window pair of small parents (OverlapProofMC.tla).
CellsN(w) == UNION {{w.off + a * w.st + b : b \in 0 .. w.c - 1} : a \in 0 .. w.r - 1}

\* w is the window with top-left corner (row i, column j) of a parent of stride st
IsWin(w, st, i, j) == /\ i \in Nat /\ j \in Nat
                      /\ w.off = i * st + j
                      /\ w.r \in Nat /\ w.r >= 1 /\ w.c \in Nat /\ w.c >= 1
                      /\ w.st = st
                      /\ j + w.c <= st

\* the half-open integer intervals [a, a+m) and [b, b+n) meet
Meet(a, m, b, n) == a < b + n /\ b < a + m

(***************************************************************************)
(* 1. Integer arithmetic with a symbolic stride.  The solver proves these   *)
(* small nonlinear facts directly; everything after this section uses       *)
(* products only through them.                                              *)
(***************************************************************************)
LEMMA MulInt == \A a, b \in Int : a * b \in Int
  OBVIOUS
LEMMA MulPos == \A st \in Nat, k \in Int : st >= 1 /\ k >= 1 => k * st >= st
  OBVIOUS
LEMMA MulNeg == \A st \in Nat, k \in Int : st >= 1 /\ k <= -1 => k * st <= -st
  OBVIOUS
LEMMA DistrM == \A a, b, c \in Int : (a - b) * c = a * c - b * c
  OBVIOUS
LEMMA DistrP == \A a, b, c \in Int : (a + b) * c = a * c + b * c
  OBVIOUS
LEMMA MulMono == \A st \in Nat, a, b \in Int : st >= 1 /\ a <= b => a * st <= b * st
  OBVIOUS
LEMMA MulUnit == \A a \in Int : 1 * a = a /\ 0 * a = 0
  OBVIOUS
LEMMA DivModAx == \A st \in Nat, x \in Int : st >= 1 =>
                     /\ x = (x \div st) * st + (x % st)
                     /\ x % st \in Nat /\ x % st < st /\ x \div st \in Int
  OBVIOUS

(***************************************************************************)
(* The same facts with the product wrapped in an operator whose definition  *)
(* stays hidden in section 3: there the solver sees Mul as an uninterpreted *)
(* function and the remaining reasoning is linear (with the nonlinear       *)
(* hypothesis o = iB*st + jB - (iA*st + jA) in scope Z3 4.8.9 times out     *)
(* even on purely linear goals).                                            *)
(***************************************************************************)
Mul(a, b) == a * b
LEMMA MMulInt == \A a, b \in Int : Mul(a, b) \in Int
  BY MulInt DEF Mul
LEMMA MMulPos == \A st \in Nat, k \in Int : st >= 1 /\ k >= 1 => Mul(k, st) >= st
  BY MulPos DEF Mul
LEMMA MMulNeg == \A st \in Nat, k \in Int : st >= 1 /\ k <= -1 => Mul(k, st) <= -st
  BY MulNeg DEF Mul
LEMMA MDistrM == \A a, b, c \in Int : Mul(a - b, c) = Mul(a, c) - Mul(b, c)
  BY DistrM DEF Mul
LEMMA MDistrP == \A a, b, c \in Int : Mul(a + b, c) = Mul(a, c) + Mul(b, c)
  BY DistrP DEF Mul
LEMMA MMulMono == \A st \in Nat, a, b \in Int : st >= 1 /\ a <= b => Mul(a, st) <= Mul(b, st)
  BY MulMono DEF Mul
LEMMA MMulUnit == \A a \in Int : Mul(1, a) = a /\ Mul(0, a) = 0
  BY MulUnit DEF Mul
LEMMA MDivModAx == \A st \in Nat, x \in Int : st >= 1 =>
                     /\ x = Mul(x \div st, st) + (x % st)
                     /\ x % st \in Nat /\ x % st < st /\ x \div st \in Int
  BY DivModAx DEF Mul

\* uniqueness of Euclidean division
LEMMA DivUnique ==
  ASSUME NEW st \in Nat, st >= 1, NEW q1 \in Int, NEW q2 \in Int, NEW r1 \in Nat, NEW r2 \in Nat,
         r1 < st, r2 < st, Mul(q1, st) + r1 = Mul(q2, st) + r2
  PROVE  q1 = q2 /\ r1 = r2
<1> DEFINE d == q1 - q2
<1>0. Mul(q1, st) \in Int /\ Mul(q2, st) \in Int /\ Mul(d, st) \in Int /\ d \in Int
  BY MMulInt
<1>1. Mul(d, st) = r2 - r1
  BY MDistrM, <1>0
<1>2. d = 0
  <2>1. CASE d >= 1
    <3>1. Mul(d, st) >= st
      BY <2>1, <1>0, MMulPos
    <3>2. r2 - r1 < st
      OBVIOUS
    <3> QED BY <3>1, <3>2, <1>1
  <2>2. CASE d <= -1
    <3>1. Mul(d, st) <= -st
      BY <2>2, <1>0, MMulNeg
    <3>2. r2 - r1 > -st
      OBVIOUS
    <3> QED BY <3>1, <3>2, <1>1
  <2> QED BY <2>1, <2>2, <1>0
<1>3. q1 = q2
  BY <1>2
<1> QED
  BY <1>3, <1>0

\* the column-interval criterion works modulo the stride because of this
LEMMA ModOf ==
  ASSUME NEW st \in Nat, st >= 1, NEW q \in Int, NEW r \in Nat, r < st
  PROVE (Mul(q, st) + r) % st = r
<1> DEFINE x == Mul(q, st) + r
<1>0. x \in Int /\ Mul(q, st) \in Int
  BY MMulInt
<1> DEFINE q2 == x \div st
<1> DEFINE r2 == x % st
<1>1. x = Mul(q2, st) + r2 /\ r2 \in Nat /\ r2 < st /\ q2 \in Int
  <2> HIDE DEF x
  <2> QED BY <1>0, MDivModAx
<1>2. Mul(q, st) + r = Mul(q2, st) + r2
  BY <1>1
<1> HIDE DEF q2, r2, x
<1>3. r = r2
  BY <1>1, <1>2, DivUnique
<1> QED
  BY <1>3 DEF r2, x

\* the two instances RectanglesOverlap needs: a value below the stride is its
\* own remainder; a value in [st, 2st) wraps once
LEMMA ModSmall == ASSUME NEW st \in Nat, st >= 1, NEW r \in Nat, r < st PROVE r % st = r
<1>1. (Mul(0, st) + r) % st = r
  BY ModOf
<1>2. Mul(0, st) + r = r
  BY MMulUnit
<1> QED BY <1>1, <1>2
LEMMA ModWrap == ASSUME NEW st \in Nat, st >= 1, NEW r \in Nat, r < st PROVE (st + r) % st = r
<1>1. (Mul(1, st) + r) % st = r
  BY ModOf
<1>2. Mul(1, st) + r = st + r
  BY MMulUnit
<1> QED BY <1>1, <1>2

(***************************************************************************)
(* 2. Geometry: the cells of two windows of one parent intersect iff their  *)
(* row intervals meet and their column intervals meet.                      *)
(***************************************************************************)
LEMMA CellsChar ==
  ASSUME NEW st \in Nat, st >= 1, NEW w, NEW i \in Nat, NEW j \in Nat, IsWin(w, st, i, j), NEW x
  PROVE  x \in CellsN(w) <=> \E p \in i .. i + w.r - 1, q \in j .. j + w.c - 1 : x = Mul(p, st) + q
<1>0. w.r \in Nat /\ w.c \in Nat /\ w.st = st /\ w.off = Mul(i, st) + j /\ Mul(i, st) \in Int
  <2>1. w.off = Mul(i, st) + j
    BY DEF IsWin, Mul
  <2> QED BY <2>1, MMulInt DEF IsWin
<1>1. ASSUME x \in CellsN(w) PROVE \E p \in i .. i + w.r - 1, q \in j .. j + w.c - 1 : x = Mul(p, st) + q
  <2>1. PICK a \in 0 .. w.r - 1, b \in 0 .. w.c - 1 : x = w.off + a * w.st + b
    BY <1>1 DEF CellsN
  <2>2. Mul(i + a, st) = Mul(i, st) + Mul(a, st) /\ Mul(a, st) \in Int
    BY MDistrP, MMulInt
  <2>3. x = Mul(i + a, st) + (j + b)
    <3>1. a * w.st = Mul(a, st)
      BY <1>0 DEF Mul
    <3> QED BY <2>1, <2>2, <3>1, <1>0
  <2>4. i + a \in i .. i + w.r - 1 /\ j + b \in j .. j + w.c - 1
    BY <1>0
  <2> QED BY <2>3, <2>4
<1>2. ASSUME NEW p \in i .. i + w.r - 1, NEW q \in j .. j + w.c - 1, x = Mul(p, st) + q PROVE x \in CellsN(w)
  <2> DEFINE a == p - i
  <2> DEFINE b == q - j
  <2>1. a \in 0 .. w.r - 1 /\ b \in 0 .. w.c - 1
    BY <1>0
  <2>2. Mul(a, st) = Mul(p, st) - Mul(i, st) /\ Mul(p, st) \in Int
    BY MDistrM, MMulInt
  <2>3. x = w.off + a * w.st + b
    <3>1. a * w.st = Mul(a, st)
      BY <1>0 DEF Mul
    <3> QED BY <1>2, <2>2, <3>1, <1>0
  <2> QED BY <2>1, <2>3 DEF CellsN
<1> QED BY <1>1, <1>2

LEMMA Geometry ==
  ASSUME NEW st \in Nat, st >= 1,
         NEW w1, NEW i1 \in Nat, NEW j1 \in Nat, IsWin(w1, st, i1, j1),
         NEW w2, NEW i2 \in Nat, NEW j2 \in Nat, IsWin(w2, st, i2, j2)
  PROVE  (CellsN(w1) \cap CellsN(w2) # {}) <=> (Meet(i1, w1.r, i2, w2.r) /\ Meet(j1, w1.c, j2, w2.c))
<1>0. /\ w1.r \in Nat /\ w1.r >= 1 /\ w1.c \in Nat /\ w1.c >= 1 /\ j1 + w1.c <= st
      /\ w2.r \in Nat /\ w2.r >= 1 /\ w2.c \in Nat /\ w2.c >= 1 /\ j2 + w2.c <= st
  BY DEF IsWin
<1>1. ASSUME CellsN(w1) \cap CellsN(w2) # {} PROVE Meet(i1, w1.r, i2, w2.r) /\ Meet(j1, w1.c, j2, w2.c)
  <2>1. PICK x : x \in CellsN(w1) /\ x \in CellsN(w2)
    BY <1>1
  <2>a. x \in CellsN(w1) <=> \E p \in i1 .. i1 + w1.r - 1, q \in j1 .. j1 + w1.c - 1 : x = Mul(p, st) + q
    BY CellsChar
  <2>b. x \in CellsN(w2) <=> \E p \in i2 .. i2 + w2.r - 1, q \in j2 .. j2 + w2.c - 1 : x = Mul(p, st) + q
    BY CellsChar
  <2>2. PICK p1 \in i1 .. i1 + w1.r - 1, q1 \in j1 .. j1 + w1.c - 1 : x = Mul(p1, st) + q1
    BY <2>1, <2>a
  <2>3. PICK p2 \in i2 .. i2 + w2.r - 1, q2 \in j2 .. j2 + w2.c - 1 : x = Mul(p2, st) + q2
    BY <2>1, <2>b
  <2>4. q1 \in Nat /\ q1 < st /\ q2 \in Nat /\ q2 < st /\ p1 \in Int /\ p2 \in Int
    BY <1>0
  <2>5. p1 = p2 /\ q1 = q2
    BY <2>2, <2>3, <2>4, DivUnique
  <2> QED BY <2>5, <1>0 DEF Meet
<1>2. ASSUME Meet(i1, w1.r, i2, w2.r), Meet(j1, w1.c, j2, w2.c) PROVE CellsN(w1) \cap CellsN(w2) # {}
  <2> DEFINE p == IF i1 < i2 THEN i2 ELSE i1
  <2> DEFINE q == IF j1 < j2 THEN j2 ELSE j1
  <2> DEFINE x == Mul(p, st) + q
  <2>1. p \in i1 .. i1 + w1.r - 1 /\ q \in j1 .. j1 + w1.c - 1
    BY <1>2, <1>0 DEF Meet
  <2>2. p \in i2 .. i2 + w2.r - 1 /\ q \in j2 .. j2 + w2.c - 1
    BY <1>2, <1>0 DEF Meet
  <2> HIDE DEF p, q
  <2>3. x \in CellsN(w1)
    BY <2>1, CellsChar
  <2>4. x \in CellsN(w2)
    BY <2>2, CellsChar
  <2> QED BY <2>3, <2>4
<1> QED BY <1>1, <1>2

(***************************************************************************)
(* 3. The algorithm on the ordered pair: A starts strictly before B.        *)
(* checkOverlap normalises to this case by negating off and swapping the    *)
(* column counts.  "Says none" is the disjunction of its two "return false" *)
(* exits reachable with off > 0.                                            *)
(***************************************************************************)
PosStmt(st, iA, jA, rA, cA, iB, jB, rB, cB, o) ==
    (/\ st \in Nat /\ st >= 1
     /\ iA \in Nat /\ jA \in Nat /\ rA \in Nat /\ rA >= 1 /\ cA \in Nat /\ cA >= 1 /\ jA + cA <= st
     /\ iB \in Nat /\ jB \in Nat /\ rB \in Nat /\ rB >= 1 /\ cB \in Nat /\ cB >= 1 /\ jB + cB <= st
     /\ o \in Int /\ o = (Mul(iB, st) + jB) - (Mul(iA, st) + jA) /\ o > 0)
    => ((Mul(rA - 1, st) + cA <= o \/ ~RectanglesOverlap(o, cA, cB, st))
          <=> ~(Meet(iA, rA, iB, rB) /\ Meet(jA, cA, jB, cB)))

\* (stated with an operator so that its two uses below are instantiated by
\* matching PosStmt(..) instead of by search over ten quantified variables)
LEMMA PosCase == \A st, iA, jA, rA, cA, iB, jB, rB, cB, o : PosStmt(st, iA, jA, rA, cA, iB, jB, rB, cB, o)
<1> TAKE st, iA, jA, rA, cA, iB, jB, rB, cB, o
<1> SUFFICES
      ASSUME st \in Nat, st >= 1,
             iA \in Nat, jA \in Nat, rA \in Nat, rA >= 1, cA \in Nat, cA >= 1, jA + cA <= st,
             iB \in Nat, jB \in Nat, rB \in Nat, rB >= 1, cB \in Nat, cB >= 1, jB + cB <= st,
             o \in Int, o = (Mul(iB, st) + jB) - (Mul(iA, st) + jA), o > 0
      PROVE  (Mul(rA - 1, st) + cA <= o \/ ~RectanglesOverlap(o, cA, cB, st))
             <=> ~(Meet(iA, rA, iB, rB) /\ Meet(jA, cA, jB, cB))
  BY DEF PosStmt
<1> DEFINE k == iB - iA
<1> DEFINE len == Mul(rA - 1, st) + cA
<1>0. /\ k \in Int /\ Mul(k, st) \in Int /\ Mul(iA, st) \in Int /\ Mul(iB, st) \in Int
      /\ Mul(rA - 1, st) \in Int /\ Mul(rA, st) \in Int
  BY MMulInt
<1>1. o = Mul(k, st) + (jB - jA)
  BY MDistrM, <1>0
<1>2. k >= 0
  <2>1. CASE k <= -1
    <3>1. Mul(k, st) <= -st
      BY <2>1, <1>0, MMulNeg
    <3> QED BY <3>1, <1>1, <1>0
  <2> QED BY <2>1, <1>0
<1>3. Mul(rA, st) = Mul(rA - 1, st) + st
  <2>1. Mul((rA - 1) + 1, st) = Mul(rA - 1, st) + Mul(1, st)
    BY MDistrP
  <2> QED BY <2>1, MMulUnit, <1>0
\* rows: if B starts rA or more rows below A, the data slice of A ends before B
<1>4. ASSUME ~(k <= rA - 1) PROVE len + (st - cA) + (jB - jA) <= o
  <2>1. rA <= k
    BY <1>4, <1>0
  <2>2. Mul(rA, st) <= Mul(k, st)
    BY <2>1, <1>0, MMulMono
  <2> QED BY <2>2, <1>3, <1>1, <1>0
\* rows: if B starts within A's rows, then o < len as soon as the columns allow
<1>5. ASSUME k <= rA - 1 PROVE o <= Mul(rA - 1, st) + (jB - jA)
  <2>1. Mul(k, st) <= Mul(rA - 1, st)
    BY <1>5, <1>0, MMulMono
  <2> QED BY <2>1, <1>1, <1>0
<1>6. len \in Int
  BY <1>0
<1> DEFINE E1 == len <= o                         \* first exit taken
<1> DEFINE RO == RectanglesOverlap(o, cA, cB, st)
<1> DEFINE MR == Meet(iA, rA, iB, rB)
<1> DEFINE MC == Meet(jA, cA, jB, cB)
<1>7. MR <=> k <= rA - 1
  BY <1>2 DEF Meet
\* first exit: A's data slice ends before B starts, so rows or columns miss
<1>A. E1 => ~(MR /\ MC)
  <2> SUFFICES ASSUME E1, k <= rA - 1, MC PROVE FALSE
    BY <1>7
  <2>1. o <= Mul(rA - 1, st) + (jB - jA)
    BY <1>5
  <2>2. jB < jA + cA
    BY DEF Meet
  <2> HIDE DEF MC, MR, RO
  <2> QED BY <2>1, <2>2, <1>0
\* first exit not taken: B starts within A's rows
<1>B. ~E1 => MR
  <2> SUFFICES ASSUME ~E1, ~(k <= rA - 1) PROVE FALSE
    BY <1>7
  <2>1. len + (st - cA) + (jB - jA) <= o
    BY <1>4
  <2>2. (st - cA) + (jB - jA) >= 0
    OBVIOUS
  <2> HIDE DEF len, MC, MR, RO, k
  <2> QED BY <2>1, <2>2, <1>6
\* the column test of rectanglesOverlap is exact
<1>C. RO <=> MC
  <2>1. CASE st = 1
    <3>1. jA = 0 /\ jB = 0 /\ cA = 1 /\ cB = 1
      BY <2>1
    <3>2. RO
      BY <2>1 DEF RectanglesOverlap
    <3>3. MC
      BY <3>1 DEF Meet
    <3> QED BY <3>2, <3>3
  <2>2. CASE st # 1 /\ jB >= jA
    \* B's first column is at or right of A's: no wrap, compare directly
    <3> DEFINE bFrom == jB - jA
    <3>1. bFrom \in Nat /\ bFrom < st /\ bFrom + cB <= st
      BY <2>2
    <3>2. o % st = bFrom
      BY <1>1, <3>1, <1>0, ModOf
    <3>3. (bFrom + cB) % st = 0 \/ bFrom < (bFrom + cB) % st
      <4>1. CASE bFrom + cB = st
        <5>1. (st + 0) % st = 0
          BY ModWrap
        <5> QED BY <5>1, <4>1
      <4>2. CASE bFrom + cB < st
        <5>1. (bFrom + cB) % st = bFrom + cB
          BY <4>2, <3>1, ModSmall
        <5> QED BY <5>1
      <4> QED BY <4>1, <4>2, <3>1
    <3>4. RO <=> bFrom < cA
      BY <3>2, <3>3, <2>2 DEF RectanglesOverlap
    <3>5. MC <=> bFrom < cA
      BY <2>2 DEF Meet
    <3> HIDE DEF bFrom, RO, MC
    <3> QED BY <3>4, <3>5
  <2>3. CASE st # 1 /\ jB < jA
    \* B's first column is left of A's: B starts in a later row, bFrom wraps
    <3> DEFINE bFrom == st + jB - jA
    <3>1. bFrom \in Nat /\ bFrom < st /\ bFrom > 0
      BY <2>3
    <3>2. k >= 1
      <4>1. CASE k = 0
        <5>1. o = jB - jA
          BY <4>1, <1>1, MMulUnit
        <5> QED BY <5>1, <2>3
      <4> QED BY <4>1, <1>2, <1>0
    <3>3. o = Mul(k - 1, st) + bFrom
      <4>1. Mul(k - 1, st) = Mul(k, st) - Mul(1, st) /\ Mul(1, st) = st
        BY MDistrM, MMulUnit, <1>0
      <4> QED BY <4>1, <1>1, <1>0
    <3>4. o % st = bFrom
      BY <3>3, <3>1, <1>0, ModOf
    <3>5. CASE jB + cB <= jA
      \* B ends left of A: not wrapped, and bFrom >= cA
      <4>1. (bFrom + cB) % st = 0 \/ bFrom < (bFrom + cB) % st
        <5>1. CASE bFrom + cB = st
          <6>1. (st + 0) % st = 0
            BY ModWrap
          <6> QED BY <6>1, <5>1
        <5>2. CASE bFrom + cB < st
          <6>1. (bFrom + cB) % st = bFrom + cB
            BY <5>2, <3>1, ModSmall
          <6> QED BY <6>1
        <5> QED BY <5>1, <5>2, <3>5, <3>1
      <4>2. ~(bFrom < cA)
        BY <2>3
      <4>3. ~RO
        BY <3>4, <4>1, <4>2, <2>3 DEF RectanglesOverlap
      <4>4. ~MC
        BY <3>5 DEF Meet
      <4> QED BY <4>3, <4>4
    <3>6. CASE jB + cB > jA
      \* B reaches into A's columns: b strictly wraps, the code returns true
      <4> DEFINE t == jB + cB - jA
      <4>1. t \in Nat /\ t < st /\ t > 0 /\ bFrom + cB = st + t
        BY <3>6, <2>3
      <4>2. (bFrom + cB) % st = t
        <5>1. (st + t) % st = t
          BY <4>1, ModWrap
        <5> QED BY <5>1, <4>1
      <4>3. ~(t = 0 \/ bFrom < t)
        BY <4>1, <2>3
      <4>4. RO
        BY <3>4, <4>2, <4>3, <2>3 DEF RectanglesOverlap
      <4>5. MC
        BY <3>6, <2>3 DEF Meet
      <4> QED BY <4>4, <4>5
    <3> QED BY <3>5, <3>6
  <2> QED BY <2>1, <2>2, <2>3
<1> HIDE DEF E1, RO, MR, MC
<1> QED BY <1>A, <1>B, <1>C DEF E1, RO, MR, MC

(***************************************************************************)
(* 4. checkOverlap itself, both orders and the off = 0 exit.                *)
(***************************************************************************)
THEOREM OverlapAlg ==
  ASSUME NEW st \in Nat, st >= 1,
         NEW w1, NEW i1 \in Nat, NEW j1 \in Nat, IsWin(w1, st, i1, j1),
         NEW w2, NEW i2 \in Nat, NEW j2 \in Nat, IsWin(w2, st, i2, j2)
  PROVE  /\ (AlgMat(w1, w2) = "none") <=> ~(Meet(i1, w1.r, i2, w2.r) /\ Meet(j1, w1.c, j2, w2.c))
         /\ AlgMat(w1, w2) \in {"none", "overlap", "identical"}
         /\ AlgMat(w1, w2) = "identical" => w1.off = w2.off /\ w1.r = w2.r /\ w1.c = w2.c
<1> DEFINE off == w2.off - w1.off
<1>0. /\ w1.r \in Nat /\ w1.r >= 1 /\ w1.c \in Nat /\ w1.c >= 1 /\ j1 + w1.c <= st /\ w1.st = st
      /\ w2.r \in Nat /\ w2.r >= 1 /\ w2.c \in Nat /\ w2.c >= 1 /\ j2 + w2.c <= st /\ w2.st = st
  BY DEF IsWin
<1>1. w1.off = Mul(i1, st) + j1 /\ w2.off = Mul(i2, st) + j2
  BY DEF IsWin, Mul
<1>2. /\ Mul(i1, st) \in Int /\ Mul(i2, st) \in Int
      /\ Mul(w1.r - 1, st) \in Int /\ Mul(w2.r - 1, st) \in Int
  BY <1>0, MMulInt
<1>3. off \in Int /\ w1.off \in Int /\ w2.off \in Int
  BY <1>1, <1>2
<1>4. DataLen(w1) = Mul(w1.r - 1, st) + w1.c /\ DataLen(w2) = Mul(w2.r - 1, st) + w2.c
  BY <1>0 DEF DataLen, Mul
<1> DEFINE M == Meet(i1, w1.r, i2, w2.r) /\ Meet(j1, w1.c, j2, w2.c)
<1>5. CASE off = 0
  <2>1. i1 = i2 /\ j1 = j2
    <3>1. j1 < st /\ j2 < st
      BY <1>0
    <3>2. Mul(i1, st) + j1 = Mul(i2, st) + j2
      BY <1>5, <1>1, <1>2, <1>3
    <3> QED BY <3>1, <3>2, DivUnique
  <2>2. M
    BY <2>1, <1>0 DEF Meet
  <2>3. AlgMat(w1, w2) \in {"overlap", "identical"}
    BY <1>5 DEF AlgMat
  <2>4. AlgMat(w1, w2) = "identical" => w1.off = w2.off /\ w1.r = w2.r /\ w1.c = w2.c
    BY <1>5, <1>3 DEF AlgMat
  <2> QED BY <2>2, <2>3, <2>4
<1>6. CASE off > 0
  <2> DEFINE says == Mul(w1.r - 1, st) + w1.c <= off \/ ~RectanglesOverlap(off, w1.c, w2.c, st)
  <2>1. says <=> ~M
    <3>1. off = (Mul(i2, st) + j2) - (Mul(i1, st) + j1)
      BY <1>1
    <3>2. PosStmt(st, i1, j1, w1.r, w1.c, i2, j2, w2.r, w2.c, off)
      BY PosCase
    <3> HIDE DEF off
    <3> QED BY <3>1, <3>2, <1>6, <1>0, <1>3 DEF PosStmt
  <2>2. AlgMat(w1, w2) = IF says THEN "none" ELSE "overlap"
    <3>1. Abs(off) = off /\ Min(st, st) = st
      BY <1>6, <1>3 DEF Abs, Min
    <3>2. ~(off = 0) /\ ~(off < 0)
      BY <1>6, <1>3
    <3> HIDE DEF off
    <3> QED BY <3>1, <3>2, <1>6, <1>0, <1>4 DEF AlgMat, off
  <2> HIDE DEF says
  <2> QED BY <2>1, <2>2
<1>7. CASE off < 0
  <2> DEFINE o == -off
  <2> DEFINE says == Mul(w2.r - 1, st) + w2.c <= o \/ ~RectanglesOverlap(o, w2.c, w1.c, st)
  <2>1. says <=> ~(Meet(i2, w2.r, i1, w1.r) /\ Meet(j2, w2.c, j1, w1.c))
    <3>1. o = (Mul(i1, st) + j1) - (Mul(i2, st) + j2) /\ o > 0 /\ o \in Int
      BY <1>7, <1>1, <1>2, <1>3
    <3>2. PosStmt(st, i2, j2, w2.r, w2.c, i1, j1, w1.r, w1.c, o)
      BY PosCase
    <3> HIDE DEF o, off
    <3> QED BY <3>1, <3>2, <1>0 DEF PosStmt
  <2>2. (Meet(i2, w2.r, i1, w1.r) /\ Meet(j2, w2.c, j1, w1.c)) <=> M
    BY DEF Meet
  <2>3. AlgMat(w1, w2) = IF says THEN "none" ELSE "overlap"
    <3>1. Abs(off) = o /\ Min(st, st) = st
      BY <1>7, <1>3 DEF Abs, Min
    <3>2. ~(off = 0) /\ ~(off > 0)
      BY <1>7, <1>3
    <3> HIDE DEF off, o
    <3> QED BY <3>1, <3>2, <1>7, <1>0, <1>4 DEF AlgMat, off, o
  <2> HIDE DEF says
  <2> QED BY <2>1, <2>2, <2>3
<1> HIDE DEF M
<1> QED BY <1>5, <1>6, <1>7, <1>3 DEF M

THEOREM OverlapExact ==
  ASSUME NEW st \in Nat, st >= 1,
         NEW w1, NEW i1 \in Nat, NEW j1 \in Nat, IsWin(w1, st, i1, j1),
         NEW w2, NEW i2 \in Nat, NEW j2 \in Nat, IsWin(w2, st, i2, j2)
  PROVE  /\ (AlgMat(w1, w2) = "none") <=> (CellsN(w1) \cap CellsN(w2) = {})
         /\ AlgMat(w1, w2) # "strides"
         /\ AlgMat(w1, w2) = "identical" => w1.off = w2.off /\ w1.r = w2.r /\ w1.c = w2.c
<1>1. (CellsN(w1) \cap CellsN(w2) # {}) <=> (Meet(i1, w1.r, i2, w2.r) /\ Meet(j1, w1.c, j2, w2.c))
  BY Geometry
<1>2. /\ (AlgMat(w1, w2) = "none") <=> ~(Meet(i1, w1.r, i2, w2.r) /\ Meet(j1, w1.c, j2, w2.c))
      /\ AlgMat(w1, w2) \in {"none", "overlap", "identical"}
      /\ AlgMat(w1, w2) = "identical" => w1.off = w2.off /\ w1.r = w2.r /\ w1.c = w2.c
  BY OverlapAlg
<1> QED BY <1>1, <1>2

\* the form MatAlias.tla's invariant AlgExact has: windows given without their corner
COROLLARY OverlapExactWin ==
  ASSUME NEW st \in Nat, st >= 1, NEW w1, NEW w2,
         \E i \in Nat, j \in Nat : IsWin(w1, st, i, j),
         \E i \in Nat, j \in Nat : IsWin(w2, st, i, j)
  PROVE  (AlgMat(w1, w2) = "none") <=> (CellsN(w1) \cap CellsN(w2) = {})
<1>1. PICK i1 \in Nat, j1 \in Nat : IsWin(w1, st, i1, j1)
  OBVIOUS
<1>2. PICK i2 \in Nat, j2 \in Nat : IsWin(w2, st, i2, j2)
  OBVIOUS
<1> QED BY <1>1, <1>2, OverlapExact
=============================================================================
