SPECIFICATION BigSpec
CONSTANTS
  MaxN = @MAXN@
  MaxPN = @MAXPN@
  MaxPCount = @MAXPCOUNT@
  MaxBinN = 33
  DimVals = @DIMVALS@
  MaxDimLen = @MAXDIMLEN@
  Family = "@FAMILY@"
  Emit = @EMIT@
  MaxBigN = @MAXBIGN@
  BigPermNs = @PERMNS@
  BigPermKMin = @PERMKMIN@
  BigCombNs = @COMBNS@
  BigCombKs = @COMBKS@
  NRandom = @NRANDOM@
  Salt = @SALT@
INVARIANTS TypeOK @INVS@
CHECK_DEADLOCK FALSE
