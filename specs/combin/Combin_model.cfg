SPECIFICATION Spec
CONSTANTS
  MaxN = @MAXN@
  MaxPN = @MAXPN@
  MaxPCount = @MAXPCOUNT@
  MaxBinN = @MAXBINN@
  DimVals = @DIMVALS@
  MaxDimLen = @MAXDIMLEN@
  Family = "@FAMILY@"
  Emit = @EMIT@
INVARIANTS TypeOK @INVS@
CHECK_DEADLOCK FALSE
