------------------------------ MODULE CombinWide ------------------------------
(* stat/combin on WIDE ground sets: the index maps of combinations and        *)
(* permutations (and the mixed radix maps over [n]^k) for n far beyond the    *)
(* word size of a bit mask - n in WideNs, e.g. {63, 64, 65, 66, 100, 130,     *)
(* 1000} - with k in 1 .. 3.  For these k every count fits TLC's native       *)
(* integers (1000 * 999 * 998 < 2^31; n^3 <= 10^9), so the index formulas are *)
(* stated on native integers:                                                 *)
(*                                                                            *)
(*   WCombIdx     number of lexicographically smaller k-subsets: those that   *)
(*                agree with c before position i and have a smaller i-th      *)
(*                element v; the other k-i elements are any of v+1 .. n-1;    *)
(*   WPermIdx     index of the underlying set, then the arrangement's number  *)
(*                in the factorial number system (Horner's rule);             *)
(*   WCombUnrank / WPermUnrank  the inverses, by walking the same sums.       *)
(*                                                                            *)
(*   R1  WideRankOK   the native closed forms give exactly the POSITION in    *)
(*                    Combin.tla's explicit enumerations LexCombs / LexPerms  *)
(*                    for every object of every small (n,k), and agree with   *)
(*                    CombinBig.tla's digit-sequence forms on its chosen      *)
(*                    objects for n in BigCombNs (k <= 3);                    *)
(*       WideCasesOK  on the printed wide cases: every object is a legal one, *)
(*                    index < count, unrank(rank(x)) = x, rank strictly       *)
(*                    monotone for the documented order, last object <->      *)
(*                    count - 1, and every family really contains elements    *)
(*                    >= 64 when n > 64; every "bad" argument is outside the  *)
(*                    documented domain for exactly the stated reason.        *)
(*   R2  the cases are printed in the record shape of CombinBig.tla (counts   *)
(*       and indices as base-2^15 digit sequences) plus the documented-panic  *)
(*       arguments at these sizes and the tail of the generators' sequences.  *)
EXTENDS CombinBig

CONSTANTS WideNs,     \* ground set sizes
          WideKs      \* subset of 1 .. 3

ASSUME WideKs \subseteq 1 .. 3
ASSUME \A n \in WideNs : n >= 4 /\ n <= 1290          \* Falling(n, 3) and n^3 below 2^31

(****************************** native closed forms ****************************)
\* C(m, j) for j <= 3, m <= 1290 (Combin.tla's multiplicative form; intermediates below 2^31)
WB(m, j) == IF j < 0 \/ m < j THEN 0 ELSE Binom(m, j)

\* The defining sum: the k-subsets smaller than c agree with c before some position i and have a smaller
\* i-th element v; the other k-i elements are any of v+1 .. n-1 (as in CombinBig.tla).
RECURSIVE WSumB(_, _, _, _)
WSumB(n, j, lo, hi) == IF lo > hi THEN 0 ELSE WB(n - 1 - lo, j) + WSumB(n, j, lo + 1, hi)
RECURSIVE WCombIdxSumR(_, _, _, _)
WCombIdxSumR(c, n, k, i) == IF i > k THEN 0
                            ELSE WSumB(n, k - i, IF i = 1 THEN 0 ELSE c[i - 1] + 1, c[i] - 1) + WCombIdxSumR(c, n, k, i + 1)
WCombIdxSum(c, n, k) == WCombIdxSumR(c, n, k, 1)
\* The same without the inner loop (sum_{v=lo}^{hi} C(n-1-v, j) = C(n-lo, j+1) - C(n-1-hi, j+1), the hockey stick
\* identity; recursions of depth n = 1000 cost TLC minutes).  WideRankOK / WideCasesOK check it against the sum form.
RECURSIVE WCombIdxR(_, _, _, _)
WCombIdxR(c, n, k, i) == IF i > k THEN 0
                         ELSE WB(n - (IF i = 1 THEN 0 ELSE c[i - 1] + 1), k - i + 1) - WB(n - c[i], k - i + 1)
                              + WCombIdxR(c, n, k, i + 1)
WCombIdx(c, n, k) == WCombIdxR(c, n, k, 1)

\* inverse.  Before(m, k, v) = number of k-subsets of 0 .. m-1 whose least element is below v
Before(m, k, v) == WB(m, k) - WB(m - v, k)
RECURSIVE WUn(_, _, _)
WUn(idx, m, k) == IF k = 0 THEN <<>>
                  ELSE LET v == CHOOSE w \in 0 .. m - k : Before(m, k, w) <= idx /\ idx < Before(m, k, w + 1)
                           rest == WUn(idx - Before(m, k, v), m - v - 1, k - 1)
                       IN  <<v>> \o [i \in 1 .. k - 1 |-> rest[i] + v + 1]
WCombUnrank(idx, n, k) == WUn(idx, n, k)

RECURSIVE WHornerR(_, _, _, _)
WHornerR(p, k, i, acc) == IF i > k THEN acc ELSE WHornerR(p, k, i + 1, acc * (k - i + 1) + Smaller(p, i))
WPermIdx(p, n, k) == WHornerR(p, k, 1, WCombIdx(IncSeq(Range(p)), n, k))

RECURSIVE WDigitsR(_, _, _)
WDigitsR(q, k, j) == IF j > k THEN [q |-> q, ds |-> <<>>]
                     ELSE LET rest == WDigitsR(q \div j, k, j + 1) IN [q |-> rest.q, ds |-> Append(rest.ds, q % j)]
WPermUnrank(idx, n, k) == LET l == WDigitsR(idx, k, 1) IN Arrange(WCombUnrank(l.q, n, k), l.ds)

RECURSIVE WPow(_, _)
WPow(n, k) == IF k = 0 THEN 1 ELSE n * WPow(n, k - 1)

(********************************* the cases ***********************************)
WNKs == {<<n, k>> \in WideNs \X WideKs : k <= n}

\* objects living at the top of the range (elements >= 64 as soon as n > 64 + k), at the bottom,
\* straddling both, and pseudo random ones
WCombCases(n, k) ==
  LET first == [i \in 1 .. k |-> i - 1]
      last == [i \in 1 .. k |-> n - k + i - 1]
      cnt == WB(n, k)
  IN  {[why |-> "first", p |-> first], [why |-> "last", p |-> last]}
      \cup {[why |-> "first-bump", p |-> [i \in 1 .. k |-> IF i >= j THEN i ELSE i - 1]] : j \in 1 .. k}
      \cup {[why |-> "last-drop", p |-> [i \in 1 .. k |-> IF i <= j THEN n - k + i - 2 ELSE n - k + i - 1]] : j \in 1 .. k}
      \cup {[why |-> "straddle", p |-> [i \in 1 .. k |-> IF i = k THEN n - 1 ELSE i - 1]]}
      \cup {[why |-> "around-64", p |-> [i \in 1 .. k |-> 62 + i]] : x \in {1} \cap {y \in {1} : n >= 63 + k}}
      \cup {[why |-> "random", p |-> IncSeq(Range(RandPerm(n, k, r)))] : r \in 1 .. NRandom}
      \cup {[why |-> "index", p |-> WCombUnrank(x, n, k)] :
              x \in {y \in {1, 2, cnt - 2, cnt - 1, cnt \div 2, cnt \div 3, (2 * (cnt \div 3)) + 1} : y >= 0 /\ y < cnt}}

WPermCases(n, k) ==
  LET first == [i \in 1 .. k |-> i - 1]
      last == [i \in 1 .. k |-> n - i]
      cnt == Falling(n, k)
  IN  {[why |-> "first", p |-> first], [why |-> "last", p |-> last],
       [why |-> "reversal", p |-> [i \in 1 .. k |-> k - i]],
       [why |-> "last-set-increasing", p |-> [i \in 1 .. k |-> n - k + i - 1]],
       [why |-> "straddle", p |-> [i \in 1 .. k |-> IF i = 1 THEN n - 1 ELSE i - 2]]}
      \cup {[why |-> "first-swap", p |-> Swap(first, j)] : j \in 1 .. k - 1}
      \cup {[why |-> "last-swap", p |-> Swap(last, j)] : j \in 1 .. k - 1}
      \cup {[why |-> "around-64", p |-> [i \in 1 .. k |-> 63 + k - i]] : x \in {1} \cap {y \in {1} : n >= 63 + k}}
      \cup {[why |-> "random", p |-> RandPerm(n, k, r)] : r \in 1 .. NRandom}
      \cup {[why |-> "index", p |-> WPermUnrank(x, n, k)] :
              x \in {y \in {1, 2, cnt - 2, cnt - 1, cnt \div 2, cnt \div 3, Fact(k) - 1, Fact(k)} : y >= 0 /\ y < cnt}}

\* arguments outside the documented domain ("panics if comb is not a sorted combination of the first [0,n)
\* integers" / "if perm is not a permutation of k of the first [0,n) integers"), at the top of the range
WBadCombs(n, k) ==
    {[why |-> "element-eq-n", c |-> [i \in 1 .. k |-> IF i = k THEN n ELSE n - k + i - 2]],
     [why |-> "element-negative", c |-> [i \in 1 .. k |-> IF i = 1 THEN 0 - 1 ELSE n - k + i - 1]],
     [why |-> "too-long", c |-> [i \in 1 .. k + 1 |-> n - k + i - 2]]}
    \cup (IF k >= 2 THEN {[why |-> "too-short", c |-> [i \in 1 .. k - 1 |-> n - k + i]],
                          [why |-> "not-sorted", c |-> Swap([i \in 1 .. k |-> n - k + i - 1], k - 1)],
                          [why |-> "repeated-top-element", c |-> [i \in 1 .. k |-> IF i = k THEN n - 1 ELSE n - k + i]],
                          [why |-> "repeated-bottom-element", c |-> [i \in 1 .. k |-> IF i = 1 THEN 0 ELSE i - 2]]}
          ELSE {})
WBadPerms(n, k) ==
    {[why |-> "element-eq-n", c |-> [i \in 1 .. k |-> IF i = 1 THEN n ELSE n - i]],
     [why |-> "element-negative", c |-> [i \in 1 .. k |-> IF i = k THEN 0 - 1 ELSE n - i]],
     [why |-> "too-long", c |-> [i \in 1 .. k + 1 |-> n - i]]}
    \cup (IF k >= 2 THEN {[why |-> "too-short", c |-> [i \in 1 .. k - 1 |-> n - i]],
                          [why |-> "repeated-top-element", c |-> [i \in 1 .. k |-> IF i = 1 THEN n - 1 ELSE n - i + 1]],
                          [why |-> "repeated-bottom-element", c |-> [i \in 1 .. k |-> IF i = k THEN 0 ELSE i - 1]]}
          ELSE {})

IsComb(c, n, k) == /\ Len(c) = k /\ \A i \in 1 .. k : c[i] \in 0 .. n - 1
                   /\ \A i \in 1 .. k - 1 : c[i] < c[i + 1]
IsPerm(p, n, k) == /\ Len(p) = k /\ \A i \in 1 .. k : p[i] \in 0 .. n - 1
                   /\ \A i, j \in 1 .. k : i # j => p[i] # p[j]

\* the generators are walked to their end when the count is small: the spec prints the last objects
WalkMax == 20000
WTail(cnt, Un(_)) == IF cnt <= WalkMax THEN [i \in 1 .. (IF cnt < 3 THEN cnt ELSE 3) |-> Un(cnt - i)] ELSE <<>>

\* mixed radix over [n]^k
WDims(n, k) == [i \in 1 .. k |-> n]

(********************************** R1 *****************************************)
WideRankOK ==
  /\ done \in BOOLEAN
  /\ \A nk \in NKs : LET n == nk[1] k == nk[2] L == LexCombs(n, k) IN
        k <= 3 => \A i \in 1 .. Len(L) : /\ WCombIdx(L[i], n, k) = i - 1 /\ WCombIdxSum(L[i], n, k) = i - 1
                                         /\ WCombUnrank(i - 1, n, k) = L[i]
  /\ \A nk \in PNKs : LET n == nk[1] k == nk[2] L == LexPerms(n, k) IN
        k <= 3 => \A i \in 1 .. Len(L) : /\ WPermIdx(L[i], n, k) = i - 1
                                         /\ WPermUnrank(i - 1, n, k) = L[i]
  \* the native forms against the digit-sequence forms of CombinBig.tla (table of binomials by Pascal's rule)
  /\ \A n \in BigCombNs : \A k \in WideKs :
        /\ BFromInt(WB(n, k)) = CB(n, k)
        /\ \A c \in WCombCases(n, k) : BFromInt(WCombIdx(c.p, n, k)) = CombIdxBig(c.p, n, k)
        /\ \A c \in WPermCases(n, k) : BFromInt(WPermIdx(c.p, n, k)) = PermIdxBig(c.p, n, k)

WCasesOK(cs, cnt, Less(_, _)) ==
  /\ \A c \in cs : c.idx >= 0 /\ c.idx < cnt
  /\ \A c, e \in cs : /\ Less(c.p, e.p) => c.idx < e.idx
                      /\ c.p = e.p <=> c.idx = e.idx
WWithIdx(cases, Idx(_)) == {[why |-> c.why, p |-> c.p, idx |-> Idx(c.p)] : c \in cases}

WideCasesOK ==
  /\ done \in BOOLEAN
  /\ \A nk \in WNKs : LET n == nk[1] k == nk[2] IN
        /\ WB(n, k) > 0 /\ Falling(n, k) = WB(n, k) * Fact(k) /\ WPow(n, k) >= Falling(n, k)
        /\ k = 1 => WB(n, k) = n
        /\ k = 2 => 2 * WB(n, k) = n * (n - 1)
        /\ k = 3 => WB(n, k) = WB(n - 1, 3) + WB(n - 1, 2)                       \* Pascal
        /\ WCasesOK(WWithIdx(WCombCases(n, k), LAMBDA p : WCombIdx(p, n, k)), WB(n, k), LexLess)
        /\ \A c \in WCombCases(n, k) : /\ IsComb(c.p, n, k)
                                       /\ WCombUnrank(WCombIdx(c.p, n, k), n, k) = c.p
        /\ WCombIdx([i \in 1 .. k |-> n - k + i - 1], n, k) = WB(n, k) - 1
        /\ n <= 130 => \A c \in WCombCases(n, k) : WCombIdx(c.p, n, k) = WCombIdxSum(c.p, n, k)
        /\ WCombIdx([i \in 1 .. k |-> i - 1], n, k) = 0
        /\ WCasesOK(WWithIdx(WPermCases(n, k), LAMBDA p : WPermIdx(p, n, k)), Falling(n, k), PLess)
        /\ \A c \in WPermCases(n, k) : /\ IsPerm(c.p, n, k)
                                       /\ WPermUnrank(WPermIdx(c.p, n, k), n, k) = c.p
        /\ WPermIdx([i \in 1 .. k |-> n - i], n, k) = Falling(n, k) - 1
        /\ WPermIdx([i \in 1 .. k |-> i - 1], n, k) = 0
        \* the point of the family: elements beyond a 64-bit mask
        /\ n > 64 => /\ \E c \in WCombCases(n, k) : \A i \in 1 .. k : c.p[i] >= 64 \/ k > n - 64
                     /\ \E c \in WCombCases(n, k) : \E i \in 1 .. k : c.p[i] >= 64
                     /\ \E c \in WPermCases(n, k) : \E i \in 1 .. k : c.p[i] >= 64
        \* bad arguments are outside the domain
        /\ \A b \in WBadCombs(n, k) : ~IsComb(b.c, n, k)
        /\ \A b \in WBadPerms(n, k) : ~IsPerm(b.c, n, k)
        \* mixed radix over [n]^k
        /\ BProd(WDims(n, k)) = BFromInt(WPow(n, k))
        /\ CartIdxBig([i \in 1 .. k |-> n - 1], WDims(n, k)) = BFromInt(WPow(n, k) - 1)

(********************************** R2 *****************************************)
BigIdx(cases, Idx(_)) == {[why |-> c.why, p |-> c.p, idx |-> BFromInt(Idx(c.p))] : c \in cases}

WideEmitAll(flag) ==
  CASE Family = "widecomb" ->
         \A nk \in WNKs : LET n == nk[1] k == nk[2] IN
           PrintT(ToJson([k |-> "widecomb", n |-> n, kk |-> k, count |-> BFromInt(WB(n, k)),
             cases |-> BigIdx(WCombCases(n, k), LAMBDA p : WCombIdx(p, n, k)),
             bad |-> WBadCombs(n, k),
             tail |-> WTail(WB(n, k), LAMBDA x : WCombUnrank(x, n, k))]))
    [] Family = "wideperm" ->
         \A nk \in WNKs : LET n == nk[1] k == nk[2] IN
           PrintT(ToJson([k |-> "wideperm", n |-> n, kk |-> k, count |-> BFromInt(Falling(n, k)),
             cases |-> BigIdx(WPermCases(n, k), LAMBDA p : WPermIdx(p, n, k)),
             bad |-> WBadPerms(n, k),
             tail |-> WTail(Falling(n, k), LAMBDA x : WPermUnrank(x, n, k))]))
    [] Family = "widecart" ->
         \A nk \in WNKs : LET d == WDims(nk[1], nk[2]) IN
           PrintT(ToJson([k |-> "bigcart", dims |-> d, count |-> BProd(d),
             first |-> CartFirst([i \in 1 .. Len(d) |-> 0], d, NFirst(d)),
             cases |-> WithIdx(CartCases(d), LAMBDA s : CartIdxBig(s, d)),
             bad |-> BadSubs(d)]))

WideNext == /\ ~done /\ done' = TRUE /\ UNCHANGED <<bn, row>>
            /\ Emit => WideEmitAll(done)
WideSpec == Init /\ [][WideNext]_vars
=============================================================================
