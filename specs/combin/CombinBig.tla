------------------------------ MODULE CombinBig ------------------------------
(* stat/combin beyond 32 bits: the counts and index maps of Combin.tla for    *)
(* n up to 20 (permutations, 20! < 2^63) and n up to 67 (binomials; index     *)
(* maps of combinations up to n = 62), and mixed radix maps whose product of   *)
(* radices approaches 2^62 / 2^63.                                             *)
(*                                                                            *)
(* TLC integers are 32 bit, so the module carries its own arithmetic: a        *)
(* non-negative integer is the sequence of its base-2^15 digits, least         *)
(* significant first, without leading zeros (0 = <<>>).                        *)
(*                                                                            *)
(*   R1  BigLawsOK      the arithmetic agrees with TLC's native integers on    *)
(*                      every value both can hold, and obeys the ring / order  *)
(*                      laws on values only the digit sequences can hold;      *)
(*       BigPascalOK    the table of binomials (Pascal's rule, additions only) *)
(*                      agrees with Combin.tla's native one, is symmetric,     *)
(*                      its rows add up to 2^n and satisfy k C(n,k) = n C(n-1,k-1);*)
(*       BigRankOK      the closed index formulas (sum of binomials; Horner's  *)
(*                      rule over the factorial number system) and their       *)
(*                      inverses give exactly the POSITION in Combin.tla's     *)
(*                      explicit enumerations LexCombs / LexPerms / CartList,  *)
(*                      for every object of every (n,k) in the small bound -   *)
(*                      the large values below are carried by these formulas;  *)
(*       BigCasesOK     on the large cases that are printed: index < count,    *)
(*                      unrank(rank(x)) = x, rank is strictly monotone for the  *)
(*                      documented order relation (PLess / LexLess): distinct  *)
(*                      objects have distinct indices.                         *)
(*   R2  the cases are printed with their big values as digit sequences; the   *)
(*       harness decodes the digits (mechanically) and compares stat/combin.   *)
EXTENDS Combin

CONSTANTS MaxBigN,    \* binomial table rows 0 .. MaxBigN
          BigPermNs,  \* permutation index maps: n in BigPermNs, k in BigPermKMin .. n
          BigPermKMin,
          BigCombNs,  \* combination index maps: n in BigCombNs, k in BigCombKs (k <= n)
          BigCombKs,
          NRandom,    \* pseudo random objects per (n,k) / dims vector
          Salt        \* seed of the pseudo random choices

(*************************** arithmetic on digit sequences ********************)
B == 32768
BOne == <<1>>
IsBig(a) == /\ \A i \in 1 .. Len(a) : a[i] \in 0 .. B - 1
            /\ Len(a) > 0 => a[Len(a)] # 0
RECURSIVE BFromInt(_), BToInt(_)
BFromInt(n) == IF n = 0 THEN <<>> ELSE <<n % B>> \o BFromInt(n \div B)
BToInt(a) == IF a = <<>> THEN 0 ELSE a[1] + B * BToInt(Tail(a))        \* only for values below 2^31

Dg(a, i) == IF i <= Len(a) THEN a[i] ELSE 0
RECURSIVE BStrip(_)
BStrip(a) == IF a # <<>> /\ a[Len(a)] = 0 THEN BStrip(SubSeq(a, 1, Len(a) - 1)) ELSE a

RECURSIVE BAddR(_, _, _, _)
BAddR(a, b, i, c) == IF i > Len(a) /\ i > Len(b) THEN (IF c = 0 THEN <<>> ELSE <<c>>)
                     ELSE LET s == Dg(a, i) + Dg(b, i) + c IN <<s % B>> \o BAddR(a, b, i + 1, s \div B)
BAdd(a, b) == BAddR(a, b, 1, 0)

\* a - b for a >= b
RECURSIVE BSubR(_, _, _, _)
BSubR(a, b, i, br) == IF i > Len(a) THEN <<>>
                      ELSE LET s == a[i] - Dg(b, i) - br IN
                           IF s < 0 THEN <<s + B>> \o BSubR(a, b, i + 1, 1) ELSE <<s>> \o BSubR(a, b, i + 1, 0)
BSub(a, b) == BStrip(BSubR(a, b, 1, 0))

\* a * m for a native 0 <= m <= B  (digit * m + carry < 2^30)
RECURSIVE BMulSR(_, _, _, _)
BMulSR(a, m, i, c) == IF i > Len(a) THEN (IF c = 0 THEN <<>> ELSE <<c>>)
                      ELSE LET s == a[i] * m + c IN <<s % B>> \o BMulSR(a, m, i + 1, s \div B)
BMulSmall(a, m) == IF m = 0 THEN <<>> ELSE BMulSR(a, m, 1, 0)

\* schoolbook product
ShiftL(a, k) == IF a = <<>> THEN <<>> ELSE [i \in 1 .. k |-> 0] \o a
RECURSIVE BMulR(_, _, _)
BMulR(a, b, i) == IF i > Len(b) THEN <<>> ELSE BAdd(ShiftL(BMulSmall(a, b[i]), i - 1), BMulR(a, b, i + 1))
BMul(a, b) == BMulR(a, b, 1)

RECURSIVE BCmpR(_, _, _)
BCmpR(a, b, i) == IF i = 0 THEN 0 ELSE IF a[i] < b[i] THEN 0 - 1 ELSE IF a[i] > b[i] THEN 1 ELSE BCmpR(a, b, i - 1)
BCmp(a, b) == IF Len(a) < Len(b) THEN 0 - 1 ELSE IF Len(a) > Len(b) THEN 1 ELSE BCmpR(a, b, Len(a))
BLess(a, b) == BCmp(a, b) < 0
BLeq(a, b) == BCmp(a, b) <= 0

\* quotient and remainder by a native 1 <= m <= B (long division from the top digit)
RECURSIVE BDivR(_, _, _)
BDivR(a, m, i) == IF i > Len(a) THEN [q |-> <<>>, r |-> 0]
                  ELSE LET hi == BDivR(a, m, i + 1)
                           cur == hi.r * B + a[i]
                       IN  [q |-> <<cur \div m>> \o hi.q, r |-> cur % m]
BDivMod(a, m) == LET d == BDivR(a, m, 1) IN [q |-> BStrip(d.q), r |-> d.r]

RECURSIVE BPow2(_)
BPow2(e) == IF e = 0 THEN BOne ELSE LET h == BPow2(e - 1) IN BAdd(h, h)
MaxI64 == BSub(BPow2(63), BOne)         \* the largest value of a Go int on the 64-bit platforms
FitsI64(a) == BLeq(a, MaxI64)

(******************************** binomials ***********************************)
\* Pascal's rule, additions only; row n is PascalTab[n + 1], C(n,k) = PascalTab[n + 1][k + 1]
NextRowBig(r) == TLCEval([i \in 1 .. Len(r) + 1 |->
                    BAdd(IF i = 1 THEN <<>> ELSE r[i - 1], IF i = Len(r) + 1 THEN <<>> ELSE r[i])])
RECURSIVE RowsFrom(_, _)
RowsFrom(acc, n) == IF n > MaxBigN THEN acc ELSE RowsFrom(Append(acc, NextRowBig(acc[Len(acc)])), n + 1)
PascalTab == RowsFrom(<< <<BOne>> >>, 1)
CB(n, k) == IF n < 0 \/ k < 0 \/ k > n THEN <<>> ELSE PascalTab[n + 1][k + 1]

\* Binomial is documented with "No check is made for overflow".  A value that fits an int is
\* expected unconditionally only if the products of the multiplicative recurrences
\* C(m,i) = C(m-1,i-1) m / i  and  C(n,i) = C(n,i-1) (n-i+1) / i  fit as well: their largest
\* intermediate is min(k,n-k) C(n,k).  Representable values beyond that are printed with
\* safe = FALSE and only observed.
Min2k(a, b) == IF a < b THEN a ELSE b
BinSafe(n, k) == FitsI64(BMulSmall(CB(n, k), Min2k(k, n - k)))
\* the index maps of (n,k) may evaluate any C(m,j), m <= n, j <= k
IdxSafe(n, k) == \A m \in 0 .. n : \A j \in 0 .. Min2k(k, m) : BinSafe(m, j)

RECURSIVE BFalling(_, _)
BFalling(n, k) == IF k = 0 THEN BOne ELSE BMulSmall(BFalling(n, k - 1), n - k + 1)     \* n (n-1) ... (n-k+1)

(*************************** index maps, closed forms *************************)
\* Combinations in lexicographic order (Combin.tla LexCombs / LexLess).  The k-subsets smaller
\* than the increasing sequence c are those that agree with c before some position i and have a
\* smaller i-th element v (c[i-1] < v < c[i]); the other k-i elements are any of v+1 .. n-1.
RECURSIVE SumCB(_, _, _, _)
SumCB(n, j, lo, hi) == IF lo > hi THEN <<>> ELSE BAdd(CB(n - 1 - lo, j), SumCB(n, j, lo + 1, hi))
RECURSIVE CombIdxR(_, _, _, _)
CombIdxR(c, n, k, i) == IF i > k THEN <<>>
                        ELSE BAdd(SumCB(n, k - i, IF i = 1 THEN 0 ELSE c[i - 1] + 1, c[i] - 1), CombIdxR(c, n, k, i + 1))
CombIdxBig(c, n, k) == CombIdxR(c, n, k, 1)
\* inverse, for idx < C(n,k): walk the same sum
RECURSIVE CombUnR(_, _, _, _, _)
CombUnR(idx, n, k, i, v) == IF i > k THEN <<>>
                            ELSE LET c == CB(n - 1 - v, k - i) IN
                                 IF BLess(idx, c) THEN <<v>> \o CombUnR(idx, n, k, i + 1, v + 1)
                                 ELSE CombUnR(BSub(idx, c), n, k, i, v + 1)
CombUnrankBig(idx, n, k) == CombUnR(idx, n, k, 1, 0)

\* Permutations in the documented order (Combin.tla PLess): first by the underlying set, then
\* by the arrangement, lexicographically.  The arrangement's rank is its number in the factorial
\* number system (digit i = how many later elements are smaller), evaluated by Horner's rule
\* starting from the index of the set:  ((idxset * k + d1) * (k-1) + d2) * (k-2) + ... + dk.
Smaller(p, i) == Cardinality({j \in i + 1 .. Len(p) : p[j] < p[i]})
RECURSIVE HornerR(_, _, _, _)
HornerR(p, k, i, acc) == IF i > k THEN acc
                         ELSE HornerR(p, k, i + 1, BAdd(BMulSmall(acc, k - i + 1), BFromInt(Smaller(p, i))))
PermIdxBig(p, n, k) == HornerR(p, k, 1, CombIdxBig(IncSeq(Range(p)), n, k))
\* inverse: peel the digits off by divisions by 1, 2, .., k; what remains is the index of the set
RECURSIVE DigitsR(_, _, _)
DigitsR(q, k, j) == IF j > k THEN [q |-> q, ds |-> <<>>]
                    ELSE LET d == BDivMod(q, j) rest == DigitsR(d.q, k, j + 1) IN [q |-> rest.q, ds |-> Append(rest.ds, d.r)]
RECURSIVE Arrange(_, _)
Arrange(rem, ds) == IF ds = <<>> THEN <<>>
                    ELSE LET x == rem[Head(ds) + 1] IN <<x>> \o Arrange(SelectSeq(rem, LAMBDA y : y # x), Tail(ds))
PermUnrankBig(idx, n, k) == LET l == DigitsR(idx, k, 1) IN Arrange(CombUnrankBig(l.q, n, k), l.ds)

\* Mixed radix, row major (Combin.tla IdxFor): Horner's rule over the radices
RECURSIVE CartIdxR(_, _, _, _)
CartIdxR(s, d, i, acc) == IF i > Len(d) THEN acc
                          ELSE CartIdxR(s, d, i + 1, BAdd(BMul(acc, BFromInt(d[i])), BFromInt(s[i])))
CartIdxBig(s, d) == CartIdxR(s, d, 1, <<>>)
RECURSIVE BProd(_)
BProd(d) == IF d = <<>> THEN BOne ELSE BMul(BFromInt(Head(d)), BProd(Tail(d)))
\* the successor in the order of Cartesian (odometer; the last subscript runs fastest)
RECURSIVE CartSuccR(_, _, _)
CartSuccR(s, d, i) == IF i = 0 THEN s        \* (wrapped around: s was the last one)
                      ELSE IF s[i] + 1 < d[i] THEN [s EXCEPT ![i] = s[i] + 1]
                      ELSE CartSuccR([s EXCEPT ![i] = 0], d, i - 1)
CartSucc(s, d) == CartSuccR(s, d, Len(d))

(****************************** R1: the arithmetic ****************************)
Two30 == 1073741824
MaxNat == 2147483647
TInts == {0, 1, 2, 3, 7, 181, 32767, 32768, 32769, 65535, 65536, 1000003, Two30 - 1, Two30, Two30 + 1, MaxNat - 1, MaxNat}
TSmall == {1, 2, 3, 13, 181, 32767, 32768}
Sign(x) == IF x < 0 THEN 0 - 1 ELSE IF x > 0 THEN 1 ELSE 0
\* values no native integer holds (up to ~ 2^124)
TBig == LET base == {BFromInt(a) : a \in {0, 1, 32768, MaxNat, 1000003}} IN
        base \cup {BMul(x, y) : x, y \in base} \cup {BMul(BMul(x, y), BMul(x, y)) : x, y \in base}

BigLawsOK ==
  /\ done \in BOOLEAN
  /\ IsBig(MaxI64) /\ MaxI64 = <<B - 1, B - 1, B - 1, B - 1, 7>>          \* 2^63 - 1 = 7 * 2^60 + (2^60 - 1)
  /\ \A a \in TInts : /\ IsBig(BFromInt(a)) /\ BToInt(BFromInt(a)) = a
  /\ \A a, b \in TInts :
        /\ BCmp(BFromInt(a), BFromInt(b)) = Sign(a - b)
        /\ a <= MaxNat - b => BAdd(BFromInt(a), BFromInt(b)) = BFromInt(a + b)
        /\ a >= b => BSub(BFromInt(a), BFromInt(b)) = BFromInt(a - b)
        /\ (b = 0 \/ a <= MaxNat \div b) => BMul(BFromInt(a), BFromInt(b)) = BFromInt(a * b)
  /\ \A a \in TInts : \A m \in TSmall :
        /\ a <= MaxNat \div m => BMulSmall(BFromInt(a), m) = BFromInt(a * m)
        /\ BDivMod(BFromInt(a), m) = [q |-> BFromInt(a \div m), r |-> a % m]
  /\ \A x \in TBig : IsBig(x) /\ BAdd(x, <<>>) = x /\ BMul(x, BOne) = x /\ BMul(x, <<>>) = <<>> /\ BSub(x, x) = <<>>
  /\ \A x, y \in TBig :
        /\ IsBig(BAdd(x, y)) /\ IsBig(BMul(x, y))
        /\ BAdd(x, y) = BAdd(y, x) /\ BMul(x, y) = BMul(y, x)
        /\ BSub(BAdd(x, y), y) = x
        /\ BCmp(x, y) = 0 - BCmp(y, x) /\ (BCmp(x, y) = 0 <=> x = y)
        /\ y # <<>> => BLess(x, BAdd(x, y))
        /\ \A m \in TSmall : /\ BMulSmall(x, m) = BMul(x, BFromInt(m))
                             /\ \A r \in {0, m - 1} : BDivMod(BAdd(BMulSmall(x, m), BFromInt(r)), m) = [q |-> x, r |-> r]
  /\ \A x, y, z \in {w \in TBig : Len(w) <= 5} :
        /\ BAdd(BAdd(x, y), z) = BAdd(x, BAdd(y, z))
        /\ BMul(x, BAdd(y, z)) = BAdd(BMul(x, y), BMul(x, z))
        /\ (BLess(x, y) /\ BLess(y, z)) => BLess(x, z)
        /\ BLess(x, y) => BLess(BAdd(x, z), BAdd(y, z))

BigPascalOK ==
  /\ done \in BOOLEAN
  /\ Len(PascalTab) = MaxBigN + 1
  /\ \A n \in 0 .. MaxBigN :
        /\ Len(PascalTab[n + 1]) = n + 1 /\ CB(n, 0) = BOne
        /\ \A k \in 0 .. n : IsBig(CB(n, k)) /\ CB(n, k) = CB(n, n - k)
        /\ \A k \in 1 .. n : BMulSmall(CB(n, k), k) = BMulSmall(CB(n - 1, k - 1), n)        \* absorption
        /\ n <= 28 => \A k \in 0 .. n : BToInt(CB(n, k)) = Binom(n, k)                       \* Combin.tla, native
        /\ LET RECURSIVE S(_)
               S(k) == IF k < 0 THEN <<>> ELSE BAdd(CB(n, k), S(k - 1))
           IN S(n) = BPow2(n)
  /\ \A n \in 0 .. 12 : \A k \in 0 .. n : BToInt(BFalling(n, k)) = Falling(n, k)
  /\ \A n \in 0 .. 25 : \A k \in 0 .. n : /\ BMul(BFalling(n, k), BFalling(n - k, n - k)) = BFalling(n, n)
                                         /\ BMul(CB(n, k), BFalling(k, k)) = BFalling(n, k)
  \* the bound the module is used under: every count of the index-map cases is an int64
  /\ \A n \in BigPermNs : FitsI64(BFalling(n, n))
  /\ ~FitsI64(BFalling(21, 21))
  /\ MaxBigN >= 67 => (FitsI64(CB(66, 33)) /\ ~FitsI64(CB(67, 33)) /\ BinSafe(61, 30) /\ ~BinSafe(62, 31))

(*************** R1: the closed forms are the positions in the enumerations ***)
BigRankOK ==
  /\ done \in BOOLEAN
  /\ \A nk \in NKs : LET n == nk[1] k == nk[2] L == LexCombs(n, k) IN
        \A i \in 1 .. Len(L) : /\ BToInt(CombIdxBig(L[i], n, k)) = i - 1
                               /\ CombUnrankBig(BFromInt(i - 1), n, k) = L[i]
  /\ \A nk \in PNKs : LET n == nk[1] k == nk[2] L == LexPerms(n, k) IN
        \A i \in 1 .. Len(L) : /\ BToInt(PermIdxBig(L[i], n, k)) = i - 1
                               /\ PermUnrankBig(BFromInt(i - 1), n, k) = L[i]
  /\ \A d \in DimVecs : LET L == CartList(d) IN
        /\ BToInt(BProd(d)) = Len(L)
        /\ \A i \in 1 .. Len(L) : /\ BToInt(CartIdxBig(L[i], d)) = i - 1
                                  /\ CartSucc(L[i], d) = (IF i < Len(L) THEN L[i + 1] ELSE L[1])

(************************* the large cases (generator) ************************)
\* pseudo random numbers: x -> 75 x + 74 mod 65537, x in 0 .. 65536
Lcg(x) == (75 * x + 74) % 65537
Seed(a, b, c) == Lcg(Lcg((Salt * 7919 + a * 1009 + b * 101 + c * 13 + 1) % 65537))
\* Fisher-Yates over 0 .. n-1, the first k places
RECURSIVE ShuffleR(_, _, _, _)
ShuffleR(s, x, i, k) == IF i > k THEN SubSeq(s, 1, k)
                        ELSE LET j == i + (x % (Len(s) - i + 1)) IN
                             ShuffleR([s EXCEPT ![i] = s[j], ![j] = s[i]], Lcg(x), i + 1, k)
RandPerm(n, k, r) == ShuffleR([i \in 1 .. n |-> i - 1], Seed(n, k, r), 1, k)
Swap(p, j) == [p EXCEPT ![j] = p[j + 1], ![j + 1] = p[j]]

PermCases(n, k) ==
  LET first == [i \in 1 .. k |-> i - 1]
      last == [i \in 1 .. k |-> n - i]
      cnt == BFalling(n, k)
  IN  {[why |-> "first", p |-> first], [why |-> "last", p |-> last],
       [why |-> "reversal", p |-> [i \in 1 .. k |-> k - i]],
       [why |-> "last-set-increasing", p |-> [i \in 1 .. k |-> n - k + i - 1]]}
      \cup {[why |-> "first-swap", p |-> Swap(first, j)] : j \in 1 .. k - 1}
      \cup {[why |-> "last-swap", p |-> Swap(last, j)] : j \in 1 .. k - 1}
      \cup {[why |-> "random", p |-> RandPerm(n, k, r)] : r \in 1 .. NRandom}
      \cup {[why |-> "random-set-sorted", p |-> IncSeq(Range(RandPerm(n, k, r)))] : r \in 1 .. NRandom}
      \cup {[why |-> "index", p |-> PermUnrankBig(x, n, k)] :
              x \in {y \in {BOne, <<2>>, <<0, 1>>, BSub(cnt, <<2>>), BSub(BFalling(k, k), BOne), BFalling(k, k)} : BLess(y, cnt)}}
PermNKs == {<<n, k>> \in BigPermNs \X (1 .. 64) : BigPermKMin <= k /\ k <= n}

CombCases(n, k) ==
  LET first == [i \in 1 .. k |-> i - 1]
      last == [i \in 1 .. k |-> n - k + i - 1]
      cnt == CB(n, k)
  IN  {[why |-> "first", p |-> first], [why |-> "last", p |-> last]}
      \cup {[why |-> "first-bump", p |-> [i \in 1 .. k |-> IF i >= j THEN i ELSE i - 1]] : j \in (IF n > k THEN 1 .. k ELSE {})}
      \cup {[why |-> "last-drop", p |-> [i \in 1 .. k |-> IF i <= j THEN n - k + i - 2 ELSE n - k + i - 1]] : j \in (IF n > k THEN 1 .. k ELSE {})}
      \cup {[why |-> "random", p |-> IncSeq(Range(RandPerm(n, k, r)))] : r \in 1 .. NRandom}
      \cup {[why |-> "index", p |-> CombUnrankBig(x, n, k)] :
              x \in {y \in {BOne, <<2>>, <<0, 1>>, <<0, 0, 1>>, BSub(cnt, BOne), BDivMod(cnt, 2).q, BDivMod(cnt, 3).q} : BLess(y, cnt)}}
CombNKs == {<<n, k>> \in BigCombNs \X BigCombKs : k <= n /\ IdxSafe(n, k)}

\* radices: products just below 2^62 and 2^63 (MaxNat = 2^31 - 1 is the largest radix TLC can write)
RECURSIVE RandDims(_, _)
RandDims(x, d) == LET r == 1 + ((x * 32749 + Lcg(x)) % MaxNat)     \* 1 .. 2^31 - 1, both halves random
                      e == Append(d, IF (Len(d) % 3) = 2 THEN 1 + (x % 5) ELSE r)
                  IN  IF Len(d) >= 7 \/ ~FitsI64(BProd(e)) THEN d ELSE RandDims(Lcg(Lcg(x)), e)
FixedDims == {<<MaxNat, MaxNat>>, <<MaxNat, 2, MaxNat>>, <<2, MaxNat, MaxNat>>, <<65536, 65536, 65536, 16383>>,
              <<32768, 32768, 32768, 32768, 4>>, <<4, 32768, 32768, 32768, 32768>>, <<3, 1, 1000003, 1, 999983, 1021, 7>>,
              <<MaxNat>>, <<1, MaxNat, 1>>, [i \in 1 .. 62 |-> 2], [i \in 1 .. 39 |-> 3], <<46341, 46341, 46341, 46341>>,
              <<2097152, 2097152, 2097151>>, <<1518500249, 2, 1518500249, 2>>}
BigDims == {d \in FixedDims \cup {RandDims(Seed(r, 3, 5), <<>>) : r \in 1 .. NRandom} : d # <<>> /\ FitsI64(BProd(d))}
RECURSIVE RandSubR(_, _, _)
RandSubR(d, x, i) == IF i > Len(d) THEN <<>> ELSE <<(x * 32749 + Lcg(x)) % d[i]>> \o RandSubR(d, Lcg(Lcg(x)), i + 1)
CartCases(d) ==
  LET zero == [i \in 1 .. Len(d) |-> 0]
      top == [i \in 1 .. Len(d) |-> d[i] - 1]
  IN  {[why |-> "zero", p |-> zero], [why |-> "top", p |-> top]}
      \cup {[why |-> "unit", p |-> [zero EXCEPT ![j] = 1]] : j \in {i \in 1 .. Len(d) : d[i] > 1}}      \* the strides
      \cup {[why |-> "one-top", p |-> [zero EXCEPT ![j] = d[j] - 1]] : j \in 1 .. Len(d)}
      \cup {[why |-> "one-zero", p |-> [top EXCEPT ![j] = 0]] : j \in 1 .. Len(d)}
      \cup {[why |-> "random", p |-> RandSubR(d, Seed(Len(d), r, 7), 1)] : r \in 1 .. NRandom}
\* the first subscripts in the order of Cartesian / CartesianGenerator
RECURSIVE CartFirst(_, _, _)
CartFirst(s, d, m) == IF m = 0 THEN <<>> ELSE <<s>> \o CartFirst(CartSucc(s, d), d, m - 1)
NFirst(d) == IF BLess(BProd(d), <<5>>) THEN BToInt(BProd(d)) ELSE 5

WithIdx(cases, Idx(_)) == {[why |-> c.why, p |-> c.p, idx |-> Idx(c.p)] : c \in cases}
\* what every printed family must satisfy; Less is the documented order relation
CasesOK(cs, cnt, Less(_, _)) ==
  /\ FitsI64(cnt)
  /\ \A c \in cs : IsBig(c.idx) /\ BLess(c.idx, cnt)
  /\ \A c, e \in cs : /\ Less(c.p, e.p) => BLess(c.idx, e.idx)
                      /\ c.p = e.p <=> c.idx = e.idx

BigCasesOK ==
  /\ done \in BOOLEAN
  /\ \A nk \in PermNKs : LET n == nk[1] k == nk[2] IN
        /\ CasesOK(WithIdx(PermCases(n, k), LAMBDA p : PermIdxBig(p, n, k)), BFalling(n, k), PLess)
        /\ \A c \in PermCases(n, k) : /\ c.p \in [1 .. k -> 0 .. n - 1] /\ Cardinality(Range(c.p)) = k
                                      /\ PermUnrankBig(PermIdxBig(c.p, n, k), n, k) = c.p
        /\ PermIdxBig([i \in 1 .. k |-> n - i], n, k) = BSub(BFalling(n, k), BOne)
        /\ PermIdxBig([i \in 1 .. k |-> n - k + i - 1], n, k) = BMul(BSub(CB(n, k), BOne), BFalling(k, k))
  /\ \A nk \in CombNKs : LET n == nk[1] k == nk[2] IN
        /\ CasesOK(WithIdx(CombCases(n, k), LAMBDA p : CombIdxBig(p, n, k)), CB(n, k), LexLess)
        /\ \A c \in CombCases(n, k) : /\ c.p \in [1 .. k -> 0 .. n - 1] /\ \A i \in 1 .. k - 1 : c.p[i] < c.p[i + 1]
                                      /\ CombUnrankBig(CombIdxBig(c.p, n, k), n, k) = c.p
        /\ CombIdxBig([i \in 1 .. k |-> n - k + i - 1], n, k) = BSub(CB(n, k), BOne)
  /\ \A d \in BigDims :
        /\ CasesOK(WithIdx(CartCases(d), LAMBDA s : CartIdxBig(s, d)), BProd(d), LexLess)
        /\ \A c \in CartCases(d) : \A i \in 1 .. Len(d) : c.p[i] \in 0 .. d[i] - 1
        /\ CartIdxBig([i \in 1 .. Len(d) |-> d[i] - 1], d) = BSub(BProd(d), BOne)
        /\ LET F == CartFirst([i \in 1 .. Len(d) |-> 0], d, NFirst(d)) IN \A i \in 1 .. Len(F) : CartIdxBig(F[i], d) = BFromInt(i - 1)
  /\ Cardinality(BigDims) >= Cardinality(FixedDims)

(**************************** generator role (R2) *****************************)
\* LogGeneralizedBinomial / GeneralizedBinomial: Gamma(n+1) / (Gamma(k+1) Gamma(n-k+1)).  No logarithm of a
\* rational other than 1 is rational; the only exact values are those with k = 0 or k = n, where the quotient
\* is Gamma(n+1) / (Gamma(1) Gamma(n+1)) = 1 and its logarithm 0.  Arguments are printed as twice their value.
GenBinomCases == {[n2 |-> n2, k2 |-> k2] : n2 \in {0, 1, 2, 3, 5, 9, 40, 41, 133, 341, 2000001}, k2 \in {0}}
                 \cup {[n2 |-> n2, k2 |-> n2] : n2 \in {0, 1, 2, 3, 5, 9, 40, 41, 133, 341, 2000001}}
GenBinomBad == {[why |-> "n-negative", n2 |-> 0 - 1, k2 |-> 0], [why |-> "k-negative", n2 |-> 4, k2 |-> 0 - 1],
                [why |-> "n-less-than-k", n2 |-> 4, k2 |-> 5], [why |-> "n-less-than-k", n2 |-> 0, k2 |-> 1]}

BigEmitAll(flag) ==
  CASE Family = "bigbinom" ->
         \A n \in 0 .. MaxBigN : PrintT(ToJson([k |-> "bigbinom", n |-> n,
             row |-> [j \in 1 .. n + 1 |-> [fits |-> FitsI64(CB(n, j - 1)), safe |-> BinSafe(n, j - 1),
                                            v |-> IF FitsI64(CB(n, j - 1)) THEN CB(n, j - 1) ELSE <<>>]]]))
    [] Family = "bignperm" ->
         \A n \in 0 .. 20 : PrintT(ToJson([k |-> "bignperm", n |-> n, row |-> [j \in 1 .. n + 1 |-> BFalling(n, j - 1)]]))
    [] Family = "bigperm" ->
         \A nk \in PermNKs : PrintT(ToJson([k |-> "bigperm", n |-> nk[1], kk |-> nk[2], count |-> BFalling(nk[1], nk[2]),
             cases |-> WithIdx(PermCases(nk[1], nk[2]), LAMBDA p : PermIdxBig(p, nk[1], nk[2]))]))
    [] Family = "bigcomb" ->
         \A nk \in CombNKs : PrintT(ToJson([k |-> "bigcomb", n |-> nk[1], kk |-> nk[2], count |-> CB(nk[1], nk[2]),
             cases |-> WithIdx(CombCases(nk[1], nk[2]), LAMBDA p : CombIdxBig(p, nk[1], nk[2]))]))
    [] Family = "bigcart" ->
         \A d \in BigDims : PrintT(ToJson([k |-> "bigcart", dims |-> d, count |-> BProd(d),
             first |-> CartFirst([i \in 1 .. Len(d) |-> 0], d, NFirst(d)),
             cases |-> WithIdx(CartCases(d), LAMBDA s : CartIdxBig(s, d)),
             bad |-> BadSubs(d)]))
    [] Family = "genbinom" ->
         PrintT(ToJson([k |-> "genbinom", cases |-> GenBinomCases, bad |-> GenBinomBad]))

BigNext == /\ ~done /\ done' = TRUE /\ UNCHANGED <<bn, row>>
           /\ Emit => BigEmitAll(done)
BigSpec == Init /\ [][BigNext]_vars
=============================================================================
