SPECIFICATION WideSpec
CONSTANTS
  MaxN = @MAXN@
  MaxPN = @MAXPN@
  MaxPCount = @MAXPCOUNT@
  MaxBinN = 33
  DimVals = {1,2}
  MaxDimLen = 1
  Family = "@FAMILY@"
  Emit = @EMIT@
  MaxBigN = 67
  BigPermNs = {13}
  BigPermKMin = 13
  BigCombNs = @COMBNS@
  BigCombKs = {1,2,3}
  NRandom = @NRANDOM@
  Salt = @SALT@
  WideNs = @WIDENS@
  WideKs = @WIDEKS@
INVARIANTS TypeOK @INVS@
CHECK_DEADLOCK FALSE
