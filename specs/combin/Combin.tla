------------------------------- MODULE Combin -------------------------------
(* Reference semantics of stat/combin: binomial coefficients, k-subsets,     *)
(* k-permutations and mixed-radix (Cartesian) index maps over 0..n-1.        *)
(*                                                                            *)
(* Each family is defined twice: DECLARATIVELY (the set of objects and the    *)
(* order relation the documentation shows) and CONSTRUCTIVELY (a recursive    *)
(* enumeration used as generator).                                            *)
(*   R1  TLC checks, for every (n,k) in the bound, that the constructive      *)
(*       enumeration lists exactly the declarative set, each object once, in  *)
(*       strictly increasing order, that rank and unrank are mutually inverse *)
(*       and order preserving, and Pascal's rule against the factorial form.  *)
(*   R2  the enumerations are printed; the Go harness compares                *)
(*       Combinations/IndexToCombination/CombinationIndex/generators etc.     *)
(*       of the real package with them.                                       *)
EXTENDS Integers, Sequences, FiniteSets, TLC, Json

CONSTANTS MaxN,      \* combinations for all 0 <= k <= n <= MaxN
          MaxPN,     \* permutations for n <= MaxPN ...
          MaxPCount, \* ... with at most this many permutations per (n,k)
          MaxBinN,   \* Pascal rows 0..MaxBinN (<= 33: 32-bit TLC integers)
          DimVals,   \* Cartesian: every dims vector over DimVals ...
          MaxDimLen, \* ... of length 1..MaxDimLen
          Family,    \* which family this run enumerates: "binom" "comb" "perm" "cart"
          Emit

VARIABLES done, bn, row
vars == <<done, bn, row>>

Range(s) == {s[i] : i \in DOMAIN s}

(******************************* binomials ***********************************)
\* Pascal's rule builds row n+1 from row n; the rows are carried in the STATE (variable
\* `row`), one TLC step per row, so every row is computed once from its predecessor.
NextRow(r) == [i \in 1 .. Len(r) + 1 |-> (IF i = 1 THEN 0 ELSE r[i - 1]) + (IF i = Len(r) + 1 THEN 0 ELSE r[i])]
\* multiplicative form C(n,k) = C(n-1,k-1) * n / k, used for the small counts of the
\* enumerations and compared with the Pascal rows in PascalOK
RECURSIVE Binom(_, _)
Binom(n, k) == IF k = 0 THEN 1 ELSE (Binom(n - 1, k - 1) * n) \div k
RECURSIVE Fact(_)
Fact(n) == IF n = 0 THEN 1 ELSE n * Fact(n - 1)
RECURSIVE Falling(_, _)
Falling(n, k) == IF k = 0 THEN 1 ELSE n * Falling(n - 1, k - 1)     \* n (n-1) ... (n-k+1)

(***************************** order relations *******************************)
LexLess(s, t) == \E i \in 1 .. Len(s) : s[i] < t[i] /\ \A j \in 1 .. i - 1 : s[j] = t[j]
RECURSIVE IncSeq(_)
IncSeq(S) == IF S = {} THEN <<>>
             ELSE LET m == CHOOSE x \in S : \A y \in S : x <= y IN <<m>> \o IncSeq(S \ {m})
StrictlyInc(L, Less(_, _)) == \A i \in 1 .. Len(L) - 1 : Less(L[i], L[i + 1])

RECURSIVE Flatten(_)
Flatten(ss) == IF ss = <<>> THEN <<>> ELSE Head(ss) \o Flatten(Tail(ss))

(****************************** combinations *********************************)
\* declarative: the k-subsets of 0..n-1, each written as an increasing sequence
KSubsets(n, k) == {IncSeq(S) : S \in {T \in SUBSET (0 .. n - 1) : Cardinality(T) = k}}
\* constructive: lexicographic enumeration
RECURSIVE CombsFrom(_, _, _)
CombsFrom(lo, n, k) ==
    IF k = 0 THEN << <<>> >>
    ELSE Flatten([j \in 1 .. (n - k - lo + 1) |->
            LET a == lo + j - 1 c == CombsFrom(a + 1, n, k - 1) IN [i \in 1 .. Len(c) |-> <<a>> \o c[i]]])
LexCombs(n, k) == CombsFrom(0, n, k)
\* rank of a combination = number of lexicographically smaller ones (declarative)
CombRank(c, n, k) == Cardinality({d \in KSubsets(n, k) : LexLess(d, c)})

(****************************** permutations *********************************)
\* declarative: injective k-sequences over 0..n-1
KPerms(n, k) == {s \in [1 .. k -> 0 .. n - 1] : \A i, j \in 1 .. k : i # j => s[i] # s[j]}
\* documented order (examples of the package): first by the underlying set
\* (as increasing sequence, lexicographic), then by the arrangement (lexicographic)
PLess(s, t) == LET a == IncSeq(Range(s)) b == IncSeq(Range(t)) IN
               LexLess(a, b) \/ (a = b /\ LexLess(s, t))
RECURSIVE PermsOf(_)
PermsOf(S) == IF S = {} THEN << <<>> >>
              ELSE LET inc == IncSeq(S) IN
                   Flatten([j \in 1 .. Len(inc) |->
                      LET p == PermsOf(S \ {inc[j]}) IN [i \in 1 .. Len(p) |-> <<inc[j]>> \o p[i]]])
LexPerms(n, k) == LET cs == LexCombs(n, k) IN
                  Flatten([j \in 1 .. Len(cs) |-> PermsOf(Range(cs[j]))])
PermRank(p, n, k) == Cardinality({d \in KPerms(n, k) : PLess(d, p)})

(************************** mixed radix index maps ***************************)
RECURSIVE Prod(_)
Prod(d) == IF d = <<>> THEN 1 ELSE Head(d) * Prod(Tail(d))
Subs(dims) == {s \in [1 .. Len(dims) -> 0 .. 63] : \A i \in 1 .. Len(dims) : s[i] < dims[i]}
\* declarative: row major, the last subscript is contiguous
IdxFor(sub, dims) == LET RECURSIVE Go(_)
                         Go(i) == IF i = 0 THEN 0 ELSE sub[i] * Prod(SubSeq(dims, i + 1, Len(dims))) + Go(i - 1)
                     IN Go(Len(dims))
\* constructive inverse: mixed radix digits
SubFor(idx, dims) == [i \in 1 .. Len(dims) |-> (idx \div Prod(SubSeq(dims, i + 1, Len(dims)))) % dims[i]]
CartList(dims) == [i \in 1 .. Prod(dims) |-> SubFor(i - 1, dims)]

(***************************** theorems (R1) **********************************)
\* (each mentions the variable `done` only so that TLC treats it as a state predicate,
\* checked as an invariant, instead of evaluating it while loading the module in every run)
NKs == {<<n, k>> \in (0 .. MaxN) \X (0 .. MaxN) : k <= n}
PNKs == {<<n, k>> \in (0 .. MaxPN) \X (0 .. MaxPN) : k <= n /\ Falling(n, k) <= MaxPCount}
DimVecs == UNION {[1 .. m -> DimVals] : m \in 1 .. MaxDimLen}

BinomOK == done \in BOOLEAN /\ \A m \in 0 .. 12 : \A k \in 0 .. m : Binom(m, k) * Fact(k) * Fact(m - k) = Fact(m)
RECURSIVE SumSeq(_), Pow2(_)
SumSeq(r) == IF r = <<>> THEN 0 ELSE Head(r) + SumSeq(Tail(r))
Pow2(m) == IF m = 0 THEN 1 ELSE 2 * Pow2(m - 1)
PascalOK == /\ Len(row) = bn + 1 /\ row[1] = 1
            /\ \A i \in 1 .. bn + 1 : row[i] = row[bn + 2 - i] /\ row[i] >= 1
            /\ bn <= 30 => SumSeq(row) = Pow2(bn)
            /\ bn <= 28 => \A k \in 0 .. bn : row[k + 1] = Binom(bn, k)
CombOK == done \in BOOLEAN /\ \A nk \in NKs : LET n == nk[1] k == nk[2] L == LexCombs(n, k) IN
            /\ Len(L) = Binom(n, k)
            /\ Range(L) = KSubsets(n, k)
            /\ StrictlyInc(L, LexLess)
            /\ \A i \in 1 .. Len(L) : CombRank(L[i], n, k) = i - 1       \* rank o unrank = id, order preserving
PermOK == done \in BOOLEAN /\ \A nk \in PNKs : LET n == nk[1] k == nk[2] L == LexPerms(n, k) IN
            /\ Len(L) = Falling(n, k)
            /\ Range(L) = KPerms(n, k)
            /\ StrictlyInc(L, PLess)
PermRankOK == done \in BOOLEAN /\ \A nk \in {x \in PNKs : x[1] <= 5} : LET n == nk[1] k == nk[2] L == LexPerms(n, k) IN
            \A i \in 1 .. Len(L) : PermRank(L[i], n, k) = i - 1
CartOK == done \in BOOLEAN /\ \A d \in DimVecs : LET L == CartList(d) IN
            /\ Range(L) = Subs(d)
            /\ \A i \in 1 .. Len(L) : IdxFor(L[i], d) = i - 1
            /\ StrictlyInc(L, LexLess)

(**************************** generator role (R2) *****************************)
\* out-of-domain arguments (the documentation promises a panic): described by
\* the spec from the domains above
BadCombs(n, k) ==      \* not an increasing sequence of k distinct elements of 0..n-1
    (IF k >= 1 THEN {[why |-> "element-out-of-range", c |-> [i \in 1 .. k |-> IF i = k THEN n ELSE i - 1]]} ELSE {})
    \cup (IF k >= 2 THEN {[why |-> "not-sorted", c |-> [i \in 1 .. k |-> IF i = 1 THEN 1 ELSE IF i = 2 THEN 0 ELSE i - 1]]} ELSE {})
    \cup (IF k >= 2 /\ n > k THEN {[why |-> "repeated-element", c |-> [i \in 1 .. k |-> IF i = 1 THEN 0 ELSE i - 2]]} ELSE {})

BadIdx(count) == {[why |-> "idx-negative", i |-> 0 - 1], [why |-> "idx-eq-count", i |-> count],
                  [why |-> "idx-gt-count", i |-> count + 1]}     \* the index maps are defined on exactly 0 .. count-1
BadSubs(d) == {[why |-> "subscript-eq-dim", c |-> [i \in 1 .. Len(d) |-> IF i = j THEN d[i] ELSE 0]] : j \in 1 .. Len(d)}   \* one subscript = its dimension

\* (the parameter keeps TLC from evaluating this constant-level operator while loading the module)
EmitAll(flag) ==
  CASE Family = "comb" ->
         \A nk \in NKs : PrintT(ToJson([k |-> "comb", n |-> nk[1], kk |-> nk[2],
                                        count |-> Binom(nk[1], nk[2]), list |-> LexCombs(nk[1], nk[2]),
                                        bad |-> BadCombs(nk[1], nk[2]),
                                        badidx |-> BadIdx(Binom(nk[1], nk[2]))]))
    [] Family = "perm" ->
         \A nk \in PNKs : PrintT(ToJson([k |-> "perm", n |-> nk[1], kk |-> nk[2],
                                         count |-> Falling(nk[1], nk[2]), list |-> LexPerms(nk[1], nk[2]),
                                         badidx |-> BadIdx(Falling(nk[1], nk[2]))]))
    [] Family = "cart" ->
         \A d \in DimVecs : PrintT(ToJson([k |-> "cart", dims |-> d, count |-> Prod(d), list |-> CartList(d),
                                           badidx |-> BadIdx(Prod(d)), bad |-> BadSubs(d)]))

EmitRow == (Emit /\ Family = "binom") => PrintT(ToJson([k |-> "binom", n |-> bn, row |-> row]))

TypeOK == done \in BOOLEAN /\ bn \in 0 .. MaxBinN /\ Len(row) = bn + 1

Init == done = FALSE /\ bn = 0 /\ row = <<1>>
Next == IF Family = "binom"
        THEN /\ bn < MaxBinN /\ bn' = bn + 1 /\ row' = NextRow(row) /\ UNCHANGED done
        ELSE /\ ~done /\ done' = TRUE /\ UNCHANGED <<bn, row>>
             /\ Emit => EmitAll(done)
Spec == Init /\ [][Next]_vars
=============================================================================
