package main

// one blank import per area package; each registers its drivers in init().
import (
	_ "verif/harness/internal/graphs"
)
