package main

// one blank import per area package; each registers its drivers in init().
import (
	_ "gonum.org/v1/gonum/verifharness/internal/graphs"
)
