// Command harness is the Go side of the conformance checks: it replays
// TLC-generated behaviours into gonum (replay) and records executions of gonum
// for validation by TLC (record). It contains no oracle of its own: expected
// values come from the specification's output.
package main

import (
	"encoding/json"
	"flag"
	"fmt"
	"os"

	"gonum.org/v1/gonum/verifharness/internal/core"
)

func main() {
	if len(os.Args) < 3 {
		r, c := core.Areas()
		fmt.Fprintf(os.Stderr, "usage: harness replay|record <area> [flags]\nreplay areas: %v\nrecord areas: %v\n", r, c)
		os.Exit(2)
	}
	mode, area := os.Args[1], os.Args[2]
	fs := flag.NewFlagSet(mode, flag.ExitOnError)
	in := fs.String("in", "", "ndjson file of spec-generated cases (replay)")
	out := fs.String("out", "", "ndjson trace file to write (record)")
	seed := fs.Int64("seed", 1, "seed")
	fs.Parse(os.Args[3:])
	sum := &core.Summary{Extra: map[string]any{}, Failures: []core.Failure{}, Samples: []any{}}
	var err error
	switch mode {
	case "replay":
		f := core.Replay(area)
		if f == nil {
			fmt.Fprintln(os.Stderr, "unknown replay area", area)
			os.Exit(2)
		}
		var l *core.Lines
		if l, err = core.OpenLines(*in); err == nil {
			err = f(l, fs.Args(), *seed, sum)
			l.Close()
		}
	case "record":
		f := core.Record(area)
		if f == nil {
			fmt.Fprintln(os.Stderr, "unknown record area", area)
			os.Exit(2)
		}
		var o *core.Out
		if o, err = core.CreateOut(*out); err == nil {
			err = f(o, fs.Args(), *seed, sum)
			sum.Events = o.N
			o.Close()
		}
	default:
		err = fmt.Errorf("unknown mode %q", mode)
	}
	if err != nil {
		fmt.Fprintln(os.Stderr, "harness error:", err)
		os.Exit(2)
	}
	b, _ := json.Marshal(sum)
	fmt.Println(string(b))
}
