package main

import _ "gonum.org/v1/gonum/verifharness/internal/dist"
