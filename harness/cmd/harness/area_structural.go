package main

import _ "verif/harness/internal/structural"
