module gonum.org/v1/gonum/verifharness

go 1.23.0

require gonum.org/v1/gonum v0.0.0

replace gonum.org/v1/gonum => /repo
