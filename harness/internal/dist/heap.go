package dist

import (
	"encoding/json"
	"fmt"
	"math"
	"math/rand"

	"gonum.org/v1/gonum/stat/distuv"
	"gonum.org/v1/gonum/stat/sampleuv"

	"gonum.org/v1/gonum/verifharness/internal/core"
)

func init() { core.RegisterReplay("dist-heap", replayHeap) }

// ---- the specification's output (WeightedHeap.tla) ---------------------------

type obsT struct {
	Total  int64   `json:"total"`
	Draws  []int   `json:"draws"` // expected code index for the variate (2r+1)/(2 total), r = 0..total-1
	Probn  []int64 `json:"probn"` // numerators (denominator total) of Prob at x = (j-3)/2 - 1/2 ..., see xOf
	Cdfn   []int64 `json:"cdfn"`
	Meann  int64   `json:"meann"`
	Lp     []int   `json:"lp"` // 0: LogProb = 0, 1: -Inf, 2: not covered
	Single bool    `json:"single"`
	// boundary variates u = rho/total (total a power of two): [rho, legal indices...]
	Bd [][]int `json:"bd"`
}

type callT struct {
	Op string   `json:"op"`
	I  int      `json:"i"`
	W  []int64  `json:"w"`
	U  [2]int64 `json:"u"`
}

type outT struct {
	Ok    bool `json:"ok"`
	Idx   int  `json:"idx"`
	Panic bool `json:"panic"`
}

type drainStep struct {
	R     int64 `json:"r"`
	Total int64 `json:"total"`
	Ok    bool  `json:"ok"`
	Idx   int   `json:"idx"`
}

// hcall is one concrete API call; a failing case carries the calls made on the
// live object before it so that it can be replayed alone.
type hcall struct {
	Op string    `json:"op"` // new | rw | rwall | draw
	I  int       `json:"i"`
	W  []float64 `json:"w"`
	K  uint64    `json:"k"`
}

type heapCase struct {
	K     string      `json:"k"` // t: transition, n: constructor + observation (+ drain), nz: constructor must panic
	Kind  string      `json:"kind"`
	S     []int64     `json:"s"`
	Call  callT       `json:"call"`
	Out   outT        `json:"out"`
	T     []int64     `json:"t"`
	Obs   obsT        `json:"obs"`
	Drain []drainStep `json:"drain"`
	Hist  []hcall     `json:"hist,omitempty"`
	Cur   []int64     `json:"cur,omitempty"` // state of the live object after Hist
}

// x value of grid point j (0-based) of probn / cdfn: x2 = j - 3 in half units (XGrid of the spec is 1-based: X2(j) = j - 4)
func xOf(j int) float64 { return float64(j-3) / 2 }

// ---- the live object -----------------------------------------------------------

type live struct {
	kind string
	w    sampleuv.Weighted
	c    distuv.Categorical
	src  *script
	hist []hcall
	ok   bool
}

type drawRes struct {
	idx int
	ok  bool
	val float64
}

// do executes one API call on the live object, always through a fresh copy of the struct (the
// methods have value receivers and the copies share the slices).
func (l *live) do(h hcall) (core.Outcome, drawRes) {
	l.hist = append(l.hist, h)
	var res drawRes
	o := core.Call(func() {
		switch h.Op {
		case "new":
			l.src = &script{}
			if l.kind == "weighted" {
				l.w = sampleuv.NewWeighted(h.W, l.src)
			} else {
				l.c = distuv.NewCategorical(h.W, l.src)
			}
			l.ok = true
		case "rw":
			if l.kind == "weighted" {
				w := l.w // a copy of the struct: copies share the slices
				w.Reweight(h.I, h.W[0])
			} else {
				c := l.c
				c.Reweight(h.I, h.W[0])
			}
		case "rwall":
			if l.kind == "weighted" {
				w := l.w
				w.ReweightAll(h.W)
			} else {
				c := l.c
				c.ReweightAll(h.W)
			}
		case "draw":
			l.src.set(h.K)
			if l.kind == "weighted" {
				w := l.w
				res.idx, res.ok = w.Take()
				res.val = float64(res.idx)
			} else {
				c := l.c
				res.val = c.Rand()
				res.idx = int(res.val)
				res.ok = true
			}
		default:
			panic("harness: unknown call " + h.Op)
		}
	})
	return o, res
}

func (l *live) length() int {
	if l.kind == "weighted" {
		return l.w.Len()
	}
	return l.c.Len()
}

// ---- replay ----------------------------------------------------------------------

type heapRun struct {
	sum  *core.Summary
	rng  *rand.Rand
	lv   map[string]*live   // one live object per kind and length
	cur  map[string][]int64 // its abstract state according to the specification (nil: unknown)
	c    *heapCase
	pre  []hcall // calls on the live object before the current case
	pcur []int64
}

func key(kind string, n int) string { return fmt.Sprintf("%s/%d", kind, n) }

func (r *heapRun) fail(kind, msg string) {
	c := *r.c
	c.Hist = append([]hcall(nil), r.pre...)
	c.Cur = r.pcur
	if len(c.Hist) == 0 {
		c.Hist = nil
		c.Cur = nil
	}
	r.sum.Fail("dist:"+kind, msg, c)
}

func typeName(kind string) string {
	if kind == "weighted" {
		return "sampleuv.Weighted"
	}
	return "distuv.Categorical"
}

func drawName(kind string) string {
	if kind == "weighted" {
		return "sampleuv.Weighted.Take"
	}
	return "distuv.Categorical.Rand"
}

func eqVec(a, b []int64) bool {
	if len(a) != len(b) {
		return false
	}
	for i := range a {
		if a[i] != b[i] {
			return false
		}
	}
	return true
}

// reach brings a live object of the case's kind into abstract state s through real API calls
// (a fresh constructor, a constructor followed by Reweight calls, a ReweightAll, or - on the object
// left by the previous case - Reweight calls for the entries that differ).  It returns nil if a call
// panicked (reported).
func (r *heapRun) reach(kind string, s []int64) *live {
	k := key(kind, len(s))
	l := r.lv[k]
	cur := r.cur[k]
	if l != nil && len(l.hist) > 400 {
		l, cur = nil, nil
	}
	route := r.rng.Intn(4)
	if l == nil || cur == nil || route == 0 {
		l = &live{kind: kind}
		r.lv[k] = l
		switch r.rng.Intn(3) {
		case 0:
			if o, _ := l.do(hcall{Op: "new", W: floats(s)}); o.Panicked {
				r.fail(typeName(kind)+".New:panic", "constructor panicked on valid weights: "+o.Text)
				return nil
			}
			r.cur[k] = s
			r.pre = append([]hcall(nil), l.hist...)
			r.pcur = s
			return l
		default:
			v := make([]int64, len(s))
			for i := range v {
				v[i] = int64(r.rng.Intn(4))
			}
			v[r.rng.Intn(len(v))] = 1 + int64(r.rng.Intn(3))
			if o, _ := l.do(hcall{Op: "new", W: floats(v)}); o.Panicked {
				r.fail(typeName(kind)+".New:panic", "constructor panicked on valid weights: "+o.Text)
				return nil
			}
			cur = v
		}
	}
	if route == 1 {
		if o, _ := l.do(hcall{Op: "rwall", W: floats(s)}); o.Panicked {
			r.fail(typeName(kind)+".ReweightAll:panic", "ReweightAll panicked on valid weights: "+o.Text)
			r.lv[k], r.cur[k] = nil, nil
			return nil
		}
	} else {
		// increases first, then decreases: the total never passes through zero (Categorical's precondition)
		var up, down []int
		for i := range s {
			if s[i] > cur[i] {
				up = append(up, i)
			} else if s[i] < cur[i] {
				down = append(down, i)
			}
		}
		r.rng.Shuffle(len(up), func(i, j int) { up[i], up[j] = up[j], up[i] })
		r.rng.Shuffle(len(down), func(i, j int) { down[i], down[j] = down[j], down[i] })
		for _, i := range append(up, down...) {
			if o, _ := l.do(hcall{Op: "rw", I: i, W: []float64{float64(s[i])}}); o.Panicked {
				r.fail(typeName(kind)+".Reweight:panic", "Reweight panicked on a valid weight: "+o.Text)
				r.lv[k], r.cur[k] = nil, nil
				return nil
			}
		}
	}
	r.cur[k] = s
	r.pre = append([]hcall(nil), l.hist...)
	r.pcur = s
	return l
}

// probe compares every observation of the live object with the table the specification printed
// for abstract state t.  The verdict is taken at the abstract level: the number of grid variates
// mapped to index i must be exactly t[i] (P(i) = t[i]/total, never an index of weight zero); a
// different but equally measure preserving assignment of variates to indices is only counted as
// model drift.  A Take is undone by Reweight(idx, t[idx]).
func (r *heapRun) probe(l *live, t []int64, obs *obsT) bool {
	kind := l.kind
	if n := l.length(); n != len(t) {
		r.fail(typeName(kind)+".Len", fmt.Sprintf("Len() = %d, want %d", n, len(t)))
		return false
	}
	T := obs.Total
	hist := make([]int64, len(t))
	order := r.rng.Perm(int(T))
	drift := 0
	for _, ri := range order {
		o, d := l.do(hcall{Op: "draw", K: variate(2*int64(ri)+1, 2*T)})
		if o.Panicked {
			if _, ex := o.Val.(scriptExhausted); ex {
				r.sum.Count("variate_protocol_drift", 1)
				return false
			}
			r.fail(drawName(kind)+":panic", fmt.Sprintf("state %v variate %d/%d: panic %s", t, 2*ri+1, 2*T, o.Text))
			return false
		}
		if !d.ok {
			r.fail(drawName(kind)+":ok", fmt.Sprintf("state %v (total %d): ok = false", t, T))
			return false
		}
		if kind == "categorical" && d.val != math.Trunc(d.val) {
			r.fail(drawName(kind)+":support", fmt.Sprintf("state %v: Rand() = %v is not an integer", t, d.val))
			return false
		}
		if d.idx < 0 || d.idx >= len(t) || t[d.idx] == 0 {
			r.fail(drawName(kind)+":zero-weight-index", fmt.Sprintf("state %v variate %d/%d: returned index %d has weight zero or is out of range", t, 2*ri+1, 2*T, d.idx))
			return false
		}
		hist[d.idx]++
		if d.idx != obs.Draws[ri] {
			drift++
		}
		if kind == "weighted" {
			// Take zeroed the item: every further variate must avoid it until it is restored
			if o, _ := l.do(hcall{Op: "rw", I: d.idx, W: []float64{float64(t[d.idx])}}); o.Panicked {
				r.fail(typeName(kind)+".Reweight:panic", "Reweight panicked on a valid weight: "+o.Text)
				return false
			}
		}
	}
	if !eqVec(hist, t) {
		r.fail(drawName(kind)+":measure", fmt.Sprintf("state %v: over the %d grid variates (2r+1)/(2*%d) index i was drawn %v times, want exactly the weights (P(i) = w_i/total)", t, T, T, hist))
		return false
	}
	if drift > 0 {
		r.sum.Count("model_drift_descent", drift)
	}
	if kind == "weighted" {
		if T == 0 {
			o, d := l.do(hcall{Op: "draw", K: variate(1, 2)})
			if o.Panicked || d.ok {
				r.fail(drawName(kind)+":ok", fmt.Sprintf("state %v (total 0): Take must return ok = false, got idx=%d ok=%v panic=%v", t, d.idx, d.ok, o.Panicked))
				return false
			}
		}
		return r.probeBoundary(l, t, obs)
	}
	ok := r.probeLaw(l, t, obs)
	return r.probeBoundary(l, t, obs) && ok
}

// probeBoundary feeds the variates u = q/total that fall exactly on a cell boundary.
func (r *heapRun) probeBoundary(l *live, t []int64, obs *obsT) bool {
	kind := l.kind
	T := obs.Total
	good := true
	// boundary variates u = q/total (exact): the index of either adjacent cell is legal, nothing else
	for _, b := range obs.Bd {
		q, a1, a2 := int64(b[0]), b[1], b[2]
		o, d := l.do(hcall{Op: "draw", K: variate(q, T)})
		if _, ex := o.Val.(scriptExhausted); ex {
			r.sum.Count("variate_protocol_drift", 1)
			return false
		}
		r.sum.Count("boundary_variates", 1)
		if o.Panicked || !d.ok || (d.idx != a1 && d.idx != a2) {
			sig := drawName(kind) + ":boundary"
			if kind == "categorical" && q == 0 && !o.Panicked && d.idx == 0 && t[0] == 0 {
				// Categorical.Rand with the variate 0 and weights[0] == 0 (one specific code path)
				sig = drawName(kind) + ":zero-variate-zero-weight"
			}
			r.fail(sig, fmt.Sprintf("state %v variate %d/%d (u*total = %d exactly): returned index %d ok=%v panic=%v(%s), legal are %d or %d (an index of weight zero is outside the support)", t, q, T, q, d.idx, d.ok, o.Panicked, o.Text, a1, a2))
			if kind == "weighted" || o.Panicked {
				return false
			}
			good = false // Categorical.Rand does not change the object: keep probing
			continue
		}
		if kind == "weighted" {
			if o, _ := l.do(hcall{Op: "rw", I: d.idx, W: []float64{float64(t[d.idx])}}); o.Panicked {
				r.fail(typeName(kind)+".Reweight:panic", "Reweight panicked on a valid weight: "+o.Text)
				return false
			}
		}
	}
	return good
}

// probeLaw compares Categorical's Prob / CDF / Mean / LogProb / Entropy with the exact rationals.
func (r *heapRun) probeLaw(l *live, t []int64, obs *obsT) bool {
	c := l.c
	T := obs.Total
	ok := true
	for j := range obs.Probn {
		x := xOf(j)
		if got, want := c.Prob(x), ratOf(obs.Probn[j], T); !nearUlp(got, want, 4) {
			r.fail("distuv.Categorical.Prob", fmt.Sprintf("weights %v: Prob(%v) = %v, want %s", t, x, got, ratStr(want)))
			ok = false
		}
		if got, want := c.CDF(x), ratOf(obs.Cdfn[j], T); !nearUlp(got, want, 4) {
			r.fail("distuv.Categorical.CDF", fmt.Sprintf("weights %v: CDF(%v) = %v, want %s", t, x, got, ratStr(want)))
			ok = false
		}
	}
	for _, x := range []float64{-1e9, math.Inf(-1)} {
		if got := c.CDF(x); got != 0 {
			r.fail("distuv.Categorical.CDF", fmt.Sprintf("weights %v: CDF(%v) = %v, want 0", t, x, got))
			ok = false
		}
		if got := c.Prob(x); got != 0 {
			r.fail("distuv.Categorical.Prob", fmt.Sprintf("weights %v: Prob(%v) = %v, want 0", t, x, got))
			ok = false
		}
	}
	for _, x := range []float64{1e9, math.Inf(1)} {
		if got := c.CDF(x); got != 1 {
			r.fail("distuv.Categorical.CDF", fmt.Sprintf("weights %v: CDF(%v) = %v, want 1", t, x, got))
			ok = false
		}
	}
	if got, want := c.Mean(), ratOf(obs.Meann, T); !nearUlp(got, want, 4) {
		r.fail("distuv.Categorical.Mean", fmt.Sprintf("weights %v: Mean() = %v, want %s", t, got, ratStr(want)))
		ok = false
	}
	for i, code := range obs.Lp {
		got := c.LogProb(float64(i))
		switch code {
		case 0:
			if got != 0 {
				r.fail("distuv.Categorical.LogProb", fmt.Sprintf("weights %v: LogProb(%d) = %v, want 0 (Prob = 1)", t, i, got))
				ok = false
			}
		case 1:
			if !math.IsInf(got, -1) {
				r.fail("distuv.Categorical.LogProb", fmt.Sprintf("weights %v: LogProb(%d) = %v, want -Inf (Prob = 0)", t, i, got))
				ok = false
			}
		}
	}
	if obs.Single {
		if got := c.Entropy(); got != 0 {
			r.fail("distuv.Categorical.Entropy", fmt.Sprintf("weights %v: Entropy() = %v, want 0 for a single outcome", t, got))
			ok = false
		}
	}
	return ok
}

func (r *heapRun) transition(c *heapCase) {
	k := key(c.Kind, len(c.S))
	var l *live
	if len(c.Hist) > 0 {
		// a failure case replayed alone: rebuild the live object by its recorded calls
		l = &live{kind: c.Kind}
		for _, h := range c.Hist {
			l.do(h)
		}
		r.lv[k], r.cur[k] = l, c.Cur
		r.pre, r.pcur = append([]hcall(nil), c.Hist...), c.Cur
		if !eqVec(c.Cur, c.S) {
			l = r.reach(c.Kind, c.S)
		}
	} else {
		l = r.reach(c.Kind, c.S)
	}
	if l == nil {
		return
	}
	var h hcall
	name := typeName(c.Kind) + "." + c.Call.Op
	switch c.Call.Op {
	case "Reweight":
		h = hcall{Op: "rw", I: c.Call.I, W: floats(c.Call.W)}
	case "ReweightAll":
		h = hcall{Op: "rwall", W: floats(c.Call.W)}
	case "Take":
		h = hcall{Op: "draw", K: variate(c.Call.U[0], c.Call.U[1])}
	}
	o, d := l.do(h)
	if _, ex := o.Val.(scriptExhausted); ex {
		r.sum.Count("variate_protocol_drift", 1)
		r.lv[k], r.cur[k] = nil, nil
		return
	}
	if o.Panicked != c.Out.Panic {
		r.fail(name+":panic", fmt.Sprintf("state %v call %+v: panicked = %v (%s), specification says %v", c.S, c.Call, o.Panicked, o.Text, c.Out.Panic))
		r.lv[k], r.cur[k] = nil, nil
		return
	}
	if o.Panicked {
		if o.Runtime {
			r.fail(name+":runtime-panic", fmt.Sprintf("state %v call %+v: runtime error instead of the documented panic: %s", c.S, c.Call, o.Text))
		}
		// the documentation does not say what state a rejected call leaves behind: drop the object
		r.lv[k], r.cur[k] = nil, nil
		return
	}
	if c.Call.Op == "Take" {
		if d.ok != c.Out.Ok {
			r.fail(name+":ok", fmt.Sprintf("state %v: Take() ok = %v, want %v (total %d)", c.S, d.ok, c.Out.Ok, sumOf(c.S)))
			r.lv[k], r.cur[k] = nil, nil
			return
		}
		if d.ok {
			if d.idx < 0 || d.idx >= len(c.S) || c.S[d.idx] == 0 {
				r.fail(name+":zero-weight-index", fmt.Sprintf("state %v variate %d/%d: Take() returned index %d of weight zero or out of range", c.S, c.Call.U[0], c.Call.U[1], d.idx))
				r.lv[k], r.cur[k] = nil, nil
				return
			}
			if d.idx != c.Out.Idx {
				// legal under the abstract law (judged over the whole grid by probe); the post-state
				// the specification printed belongs to another index, so it cannot be compared
				r.sum.Count("model_drift_descent", 1)
				r.lv[k], r.cur[k] = nil, nil
				return
			}
		}
	}
	if r.probe(l, c.T, &c.Obs) {
		r.cur[k] = c.T
	} else {
		r.lv[k], r.cur[k] = nil, nil
	}
}

func sumOf(v []int64) (s int64) {
	for _, x := range v {
		s += x
	}
	return
}

func (r *heapRun) constructor(c *heapCase) {
	k := key(c.Kind, len(c.S))
	r.pre, r.pcur = nil, nil
	l := &live{kind: c.Kind}
	o, _ := l.do(hcall{Op: "new", W: floats(c.S)})
	if c.K == "nz" {
		if !o.Panicked {
			r.fail("distuv.NewCategorical:panic", fmt.Sprintf("NewCategorical(%v) did not panic (at least one weight must be positive)", c.S))
		}
		return
	}
	if o.Panicked {
		r.fail(typeName(c.Kind)+".New:panic", fmt.Sprintf("constructor panicked on valid weights %v: %s", c.S, o.Text))
		return
	}
	if !r.probe(l, c.S, &c.Obs) {
		return
	}
	if len(c.Drain) > 0 {
		// a full drain on a second object, then reuse after ReweightAll
		l2 := &live{kind: c.Kind}
		l2.do(hcall{Op: "new", W: floats(c.S)})
		seen := map[int]bool{}
		for i, st := range c.Drain {
			kv := variate(1, 2)
			if st.Total > 0 {
				kv = variate(2*st.R+1, 2*st.Total)
			}
			o, d := l2.do(hcall{Op: "draw", K: kv})
			if _, ex := o.Val.(scriptExhausted); ex {
				r.sum.Count("variate_protocol_drift", 1)
				return
			}
			if o.Panicked {
				r.fail("sampleuv.Weighted.Take:panic", fmt.Sprintf("weights %v drain step %d: %s", c.S, i, o.Text))
				return
			}
			if d.ok != st.Ok {
				r.fail("sampleuv.Weighted.Take:drain-count", fmt.Sprintf("weights %v drain step %d: ok = %v, want %v (exactly |support| successful takes)", c.S, i, d.ok, st.Ok))
				return
			}
			if !d.ok {
				break
			}
			if d.idx < 0 || d.idx >= len(c.S) || c.S[d.idx] == 0 || seen[d.idx] {
				r.fail("sampleuv.Weighted.Take:drain-repeat", fmt.Sprintf("weights %v drain step %d: index %d has weight zero, is out of range or was already taken", c.S, i, d.idx))
				return
			}
			seen[d.idx] = true
			if d.idx != st.Idx {
				r.sum.Count("model_drift_descent", 1)
				return
			}
		}
		if o, _ := l2.do(hcall{Op: "rwall", W: floats(c.S)}); o.Panicked {
			r.fail("sampleuv.Weighted.ReweightAll:panic", "ReweightAll panicked on valid weights: "+o.Text)
			return
		}
		r.pre = append([]hcall(nil), l2.hist...)
		if !r.probe(l2, c.S, &c.Obs) {
			return
		}
	}
	r.lv[k], r.cur[k] = l, c.S
}

func replayHeap(in *core.Lines, args []string, seed int64, sum *core.Summary) error {
	r := &heapRun{sum: sum, rng: rand.New(rand.NewSource(seed)), lv: map[string]*live{}, cur: map[string][]int64{}}
	for {
		b, ok := in.Next()
		if !ok {
			break
		}
		var c heapCase
		if err := json.Unmarshal(b, &c); err != nil {
			return fmt.Errorf("line %d: %v", in.N, err)
		}
		r.c = &c
		sum.Cases++
		switch c.K {
		case "t":
			if c.Out.Panic || c.Call.Op == "Take" || !eqVec(c.S, c.T) {
				sum.Nontrivial++
			}
			r.transition(&c)
		case "n", "nz":
			sum.Nontrivial++
			r.constructor(&c)
		default:
			return fmt.Errorf("line %d: unknown case kind %q", in.N, c.K)
		}
		if in.N%997 == 1 {
			sum.Sample(json.RawMessage(append([]byte(nil), b...)))
		}
	}
	return nil
}
