// Package dist binds specs/dist/*.tla (the exact-closed and state-machine part
// of property C11) to gonum's stat/sampleuv, stat/samplemv, stat/distuv,
// stat/distmv and stat/distmat.
//
// spec->code only: every ndjson line was printed by TLC.  The drivers build
// operands (float64 weights, scripted uniform variates for a fake
// math/rand/v2 Source, test doubles for targets and proposals), call gonum
// and compare with what the specification printed.  They contain no
// probability theory of their own: the only arithmetic is decoding the
// specification's exact rationals with math/big, the encoding of a scripted
// variate into the 53 bits rand.Rand.Float64 keeps, and the tolerance test.
package dist

import (
	"fmt"
	"math"
	"math/big"
	"time"
)

// watchdog bounds every sampler call (a scripted Source panics when it runs dry, so a sampler
// that never fills its batch ends with that panic rather than hanging).
const watchdog = 20 * time.Second

// script is a fake math/rand/v2 Source that plays back a queue of values.
// rand.Rand.Float64 is float64(src.Uint64()<<11>>11) / (1<<53) (Go 1.22+), so a
// queued value k < 2^53 yields the variate k / 2^53 exactly.
type script struct {
	q    []uint64
	used int
	over int // calls made after the queue was exhausted
}

type scriptExhausted struct{}

func (s *script) Uint64() uint64 {
	if s.used >= len(s.q) {
		s.over++
		panic(scriptExhausted{})
	}
	v := s.q[s.used]
	s.used++
	return v
}

func (s *script) set(v ...uint64) { s.q = append(s.q[:0], v...); s.used = 0; s.over = 0 }
func (s *script) left() int       { return len(s.q) - s.used }

var two53 = new(big.Int).Lsh(big.NewInt(1), 53)

// variate encodes the uniform variate num/den in [0,1) as the Source value k
// with k/2^53 = floor(num/den * 2^53) / 2^53 (exact when den is a power of two
// not larger than 2^53).
func variate(num, den int64) uint64 {
	if den <= 0 || num < 0 || num >= den {
		panic(fmt.Sprintf("harness: variate %d/%d outside [0,1)", num, den))
	}
	k := new(big.Int).Mul(big.NewInt(num), two53)
	k.Quo(k, big.NewInt(den))
	return k.Uint64()
}

// floatOfVariate is the float64 that rand.Rand.Float64 returns for the scripted value.
func floatOfVariate(k uint64) float64 { return float64(k<<11>>11) / (1 << 53) }

func ratOf(num, den int64) *big.Rat { return big.NewRat(num, den) }

// nearUlp reports whether got is within `ulps` units in the last place of the
// exact rational want (the ulp is that of want rounded to float64).
func nearUlp(got float64, want *big.Rat, ulps int64) bool {
	if math.IsNaN(got) || math.IsInf(got, 0) {
		return false
	}
	w, _ := want.Float64()
	if w == 0 {
		return got == 0
	}
	a := math.Abs(w)
	u := math.Nextafter(a, math.Inf(1)) - a
	lim := new(big.Rat).SetFloat64(u)
	lim.Mul(lim, big.NewRat(ulps, 1))
	d := new(big.Rat).SetFloat64(got)
	d.Sub(d, want)
	d.Abs(d)
	return d.Cmp(lim) <= 0
}

// nearRel reports |got - want| <= rel*|want| (got == 0 required when want == 0).
func nearRel(got float64, want *big.Rat, rel *big.Rat) bool {
	if math.IsNaN(got) || math.IsInf(got, 0) {
		return false
	}
	if want.Sign() == 0 {
		return got == 0
	}
	d := new(big.Rat).SetFloat64(got)
	d.Sub(d, want)
	d.Abs(d)
	lim := new(big.Rat).Abs(want)
	lim.Mul(lim, rel)
	return d.Cmp(lim) <= 0
}

func exactEq(got float64, want *big.Rat) bool {
	if math.IsNaN(got) || math.IsInf(got, 0) {
		return false
	}
	return new(big.Rat).SetFloat64(got).Cmp(want) == 0
}

func ratStr(r *big.Rat) string {
	f, _ := r.Float64()
	return fmt.Sprintf("%s~%.17g", r.RatString(), f)
}

func floats(w []int64) []float64 {
	f := make([]float64, len(w))
	for i, v := range w {
		f[i] = float64(v)
	}
	return f
}
