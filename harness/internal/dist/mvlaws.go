package dist

import (
	"encoding/json"
	"fmt"
	"math"
	"math/big"
	"math/rand/v2"

	"gonum.org/v1/gonum/mat"
	"gonum.org/v1/gonum/spatial/r1"
	"gonum.org/v1/gonum/stat/distmat"
	"gonum.org/v1/gonum/stat/distmv"
	"gonum.org/v1/gonum/stat/distuv"
	"gonum.org/v1/gonum/stat/samplemv"

	"gonum.org/v1/gonum/verifharness/internal/core"
)

// dist-mv: replays the tables of specs/dist/MvLaws.tla into stat/distmv.  A case gives the
// integer parameters of a law; a check names an operation, its index / vector arguments and the
// exact rational vector / matrix / scalar the operation must produce.  The driver builds the
// object, performs the operation and compares element by element (math/big) within the
// tolerance class of the check; it computes nothing itself.
func init() { core.RegisterReplay("dist-mv", replayMv) }

type mvCheck struct {
	Op  string       `json:"op"`
	I   []int        `json:"i"`
	X   [][3]int64   `json:"x"`
	Y   [][3]int64   `json:"y"`
	V   [][3]int64   `json:"v"`
	M   [][][3]int64 `json:"m"`
	R   [3]int64     `json:"r"`
	Tol string       `json:"tol"`
}

type mvCase struct {
	Kind   string     `json:"kind"`
	Ctor   string     `json:"ctor,omitempty"` // normal: "" = NewNormal | "chol" = NewNormalChol | "prec" = NewNormalPrecision
	Prec   [][]int64  `json:"prec,omitempty"` // the integer inverse of Sigma (ctor = prec)
	Mu     []int64    `json:"mu"`
	Sigma  [][]int64  `json:"sigma"`
	Nu     int64      `json:"nu"`
	Box    [][2]int64 `json:"box"`
	Checks []mvCheck  `json:"checks"`
}

func vecOf(v [][3]int64) []float64 {
	f := make([]float64, len(v))
	for i, x := range v {
		f[i] = floatOf(x[0], x[1], x[2])
	}
	return f
}

func symOf(s [][]int64) *mat.SymDense {
	n := len(s)
	m := mat.NewSymDense(n, nil)
	for i := 0; i < n; i++ {
		for j := i; j < n; j++ {
			m.SetSym(i, j, float64(s[i][j]))
		}
	}
	return m
}

// near compares got with the exact rational want in the tolerance class; ref is an extra
// reference magnitude (the largest entry of the compared vector / matrix).
func near(got float64, want *big.Rat, cls string, ref float64, st *ratStats, what string) (bool, string) {
	if math.IsNaN(got) || math.IsInf(got, 0) {
		return false, fmt.Sprintf("= %v, want %s", got, ratStr(want))
	}
	diff := new(big.Rat).SetFloat64(got)
	diff.Sub(diff, want)
	diff.Abs(diff)
	st.n[cls]++
	if cls == "exact" {
		if diff.Sign() != 0 {
			return false, fmt.Sprintf("= %.17g, want exactly %s", got, ratStr(want))
		}
		return true, ""
	}
	cl, ok := tolClass[cls]
	if !ok {
		panic(evalErr{"harness: unknown tolerance class " + cls})
	}
	wf, _ := new(big.Rat).Abs(want).Float64()
	tol := cl[0]*math.Max(wf, ref) + cl[1]
	if tol == 0 {
		tol = 8 * 0x1p-1074
	}
	df, _ := diff.Float64()
	if r := df / tol; r <= 1 && r > st.maxRatio[cls] {
		st.maxRatio[cls] = r
		st.worst[cls] = fmt.Sprintf("%s = %.17g want %s", what, got, ratStr(want))
	}
	if diff.Cmp(new(big.Rat).SetFloat64(tol)) > 0 {
		return false, fmt.Sprintf("= %.17g, want %s within %.3g (class %s)", got, ratStr(want), tol, cls)
	}
	return true, ""
}

func maxAbs(v [][3]int64) float64 {
	m := 0.0
	for _, x := range v {
		f, _ := new(big.Rat).Abs(valueOf(x)).Float64()
		m = math.Max(m, f)
	}
	return m
}

// dataScale is the largest magnitude among the parameters of the case and the arguments of the
// check: a rounding error of an operation on these data is measured against it (a conditional
// mean that is exactly 0 is the sum of terms of this size).
func dataScale(c *mvCase, ck *mvCheck) float64 {
	m := math.Max(maxAbs(ck.X), maxAbs(ck.Y))
	for _, v := range c.Mu {
		m = math.Max(m, math.Abs(float64(v)))
	}
	for _, r := range c.Sigma {
		for _, v := range r {
			m = math.Max(m, math.Abs(float64(v)))
		}
	}
	for _, b := range c.Box {
		m = math.Max(m, math.Max(math.Abs(float64(b[0])), math.Abs(float64(b[1]))))
	}
	return m
}

var curScale float64 // dataScale of the check being evaluated

func cmpVec(got []float64, want [][3]int64, cls string, st *ratStats, what string) (bool, string) {
	if len(got) != len(want) {
		return false, fmt.Sprintf("has length %d, want %d", len(got), len(want))
	}
	ref := math.Max(maxAbs(want), curScale)
	for i := range got {
		if ok, msg := near(got[i], valueOf(want[i]), cls, ref, st, fmt.Sprintf("%s[%d]", what, i)); !ok {
			return false, fmt.Sprintf("[%d] %s (whole result %v)", i, msg, got)
		}
	}
	return true, ""
}

func cmpSym(got mat.Symmetric, want [][][3]int64, cls string, st *ratStats, what string) (bool, string) {
	n := got.SymmetricDim()
	if n != len(want) {
		return false, fmt.Sprintf("has dimension %d, want %d", n, len(want))
	}
	ref := curScale
	for _, r := range want {
		ref = math.Max(ref, maxAbs(r))
	}
	for i := 0; i < n; i++ {
		for j := 0; j < n; j++ {
			if ok, msg := near(got.At(i, j), valueOf(want[i][j]), cls, ref, st, fmt.Sprintf("%s[%d,%d]", what, i, j)); !ok {
				return false, fmt.Sprintf("[%d,%d] %s (whole result %v)", i, j, msg, mat.Formatted(got, mat.Squeeze()))
			}
		}
	}
	return true, ""
}

// mvObj is what the operations of a case are performed on.
type mvObj struct {
	normal *distmv.Normal
	t      *distmv.StudentsT
	unif   *distmv.Uniform
	dir    *distmv.Dirichlet
	wish   *distmat.Wishart
	eigen  *mat.EigenSym // kind "eigen": the decomposition of the (possibly indefinite) printed matrix
}

func buildMv(c *mvCase) (o mvObj, err error) {
	switch c.Kind {
	case "normal":
		switch c.Ctor {
		case "":
			n, ok := distmv.NewNormal(floats(c.Mu), symOf(c.Sigma), nil)
			if !ok {
				return o, fmt.Errorf("NewNormal reports that the covariance %v = L*L^T is not positive definite", c.Sigma)
			}
			o.normal = n
		case "chol":
			var ch mat.Cholesky
			if !ch.Factorize(symOf(c.Sigma)) {
				panic(evalErr{"harness: the printed covariance has no Cholesky factorization"})
			}
			o.normal = distmv.NewNormalChol(floats(c.Mu), &ch, nil)
		case "prec":
			n, ok := distmv.NewNormalPrecision(floats(c.Mu), symOf(c.Prec), nil)
			if !ok {
				return o, fmt.Errorf("NewNormalPrecision reports that the precision matrix %v is not positive definite", c.Prec)
			}
			o.normal = n
		default:
			panic(evalErr{"harness: unknown constructor " + c.Ctor})
		}
	case "studentst":
		t, ok := distmv.NewStudentsT(floats(c.Mu), symOf(c.Sigma), float64(c.Nu), nil)
		if !ok {
			return o, fmt.Errorf("NewStudentsT reports that the covariance %v = L*L^T is not positive definite", c.Sigma)
		}
		o.t = t
	case "uniform":
		b := make([]r1.Interval, len(c.Box))
		for i, iv := range c.Box {
			b[i] = r1.Interval{Min: float64(iv[0]), Max: float64(iv[1])}
		}
		o.unif = distmv.NewUniform(b, nil)
	case "dirichlet":
		o.dir = distmv.NewDirichlet(floats(c.Mu), nil)
	case "eigen":
		var es mat.EigenSym
		if !es.Factorize(symOf(c.Sigma), true) {
			return o, fmt.Errorf("EigenSym.Factorize fails on %v", c.Sigma)
		}
		o.eigen = &es
	case "wishart":
		w, ok := distmat.NewWishart(symOf(c.Sigma), float64(c.Nu), nil)
		if !ok {
			return o, fmt.Errorf("NewWishart reports that the scale matrix %v = L*L^T is not positive definite", c.Sigma)
		}
		o.wish = w
	default:
		panic(evalErr{"harness: unknown multivariate kind " + c.Kind})
	}
	return o, nil
}

type meanCover interface {
	Mean([]float64) []float64
}

func (ck *mvCheck) run(c *mvCase, o mvObj, st *ratStats) (ok bool, msg string) {
	what := c.Kind + "." + ck.Op
	x, y := vecOf(ck.X), vecOf(ck.Y)
	curScale = 0
	if ck.Op == "Condition" || ck.Op == "Marginal" || ck.Op == "ScoreInput" {
		curScale = dataScale(c, ck)
	}
	scalar := func(got float64) (bool, string) {
		return near(got, valueOf(ck.R), ck.Tol, 0, st, what)
	}
	// mean and covariance of a (derived) law
	law := func(m meanCover, cov func(*mat.SymDense)) (bool, string) {
		if ok, msg := cmpVec(m.Mean(nil), ck.V, ck.Tol, st, what+":mean"); !ok {
			return false, "mean " + msg
		}
		var s mat.SymDense
		cov(&s)
		if ok, msg := cmpSym(&s, ck.M, ck.Tol, st, what+":cov"); !ok {
			return false, "covariance " + msg
		}
		return true, ""
	}
	switch ck.Op {
	case "Mean":
		var m meanCover
		switch {
		case o.normal != nil:
			m = o.normal
		case o.t != nil:
			m = o.t
		case o.unif != nil:
			m = o.unif
		default:
			m = o.dir
		}
		// into a destination and into nil
		dst := make([]float64, len(ck.V))
		if ok, msg := cmpVec(m.Mean(dst), ck.V, ck.Tol, st, what); !ok {
			return false, msg
		}
		return cmpVec(m.Mean(nil), ck.V, ck.Tol, st, what)
	case "Cov":
		var s mat.SymDense
		switch {
		case o.normal != nil:
			o.normal.CovarianceMatrix(&s)
		case o.t != nil:
			o.t.CovarianceMatrix(&s)
		default:
			o.dir.CovarianceMatrix(&s)
		}
		return cmpSym(&s, ck.M, ck.Tol, st, what)
	case "Nu":
		return scalar(o.t.Nu())
	case "Marginal":
		if o.normal != nil {
			m, ok := o.normal.MarginalNormal(ck.I, nil)
			if !ok {
				return false, "reports failure"
			}
			return law(m, m.CovarianceMatrix)
		}
		m, ok := o.t.MarginalStudentsT(ck.I, nil)
		if !ok {
			return false, "reports failure"
		}
		if ok, msg := scalar(m.Nu()); !ok {
			return false, "Nu " + msg
		}
		return law(m, m.CovarianceMatrix)
	case "MarginalSingle":
		var mu, sigma float64
		if o.normal != nil {
			u := o.normal.MarginalNormalSingle(ck.I[0], nil)
			mu, sigma = u.Mu, u.Sigma
		} else {
			u := o.t.MarginalStudentsTSingle(ck.I[0], nil)
			mu, sigma = u.Mu, u.Sigma
			if u.Nu != float64(c.Nu) {
				return false, fmt.Sprintf("Nu = %v, want %d", u.Nu, c.Nu)
			}
		}
		if ok, msg := cmpVec([]float64{mu}, ck.V, "exact", st, what+":Mu"); !ok {
			return false, "Mu " + msg
		}
		// the specification states the variance: the returned scale is compared through its square
		return near(sigma*sigma, valueOf(ck.R), "special", 0, st, what+":Sigma^2")
	case "Condition":
		if o.normal != nil {
			m, ok := o.normal.ConditionNormal(ck.I, x, nil)
			if !ok {
				return false, "reports failure"
			}
			return law(m, m.CovarianceMatrix)
		}
		m, ok := o.t.ConditionStudentsT(ck.I, x, nil)
		if !ok {
			return false, "reports failure"
		}
		if ok, msg := scalar(m.Nu()); !ok {
			return false, "Nu " + msg
		}
		return law(m, m.CovarianceMatrix)
	case "ScoreInput":
		return cmpVec(o.normal.ScoreInput(nil, x), ck.V, ck.Tol, st, what)
	case "LogProbDiff":
		a, b := o.normal.LogProb(x), o.normal.LogProb(y)
		return near(a-b, valueOf(ck.R), ck.Tol, math.Max(math.Abs(a), math.Abs(b)), st, what)
	case "ProbRatioSq":
		q := o.t.Prob(x) / o.t.Prob(y)
		return scalar(q * q)
	case "EigenPosPart":
		pp := distmv.NewPositivePartEigenSym(o.eigen)
		if ok, msg := cmpVec(pp.RawValues(), ck.V, ck.Tol, st, what+":RawValues"); !ok {
			return false, "RawValues " + msg
		}
		if r, cdim := pp.Dims(); float64(r) != floatOf(ck.R[0], ck.R[1], ck.R[2]) || r != cdim || pp.SymmetricDim() != r {
			return false, fmt.Sprintf("Dims = %d, %d, SymmetricDim = %d", r, cdim, pp.SymmetricDim())
		}
		if ok, msg := cmpSym(pp, ck.M, ck.Tol, st, what+":At"); !ok {
			return false, "At " + msg
		}
		n := len(ck.M)
		for i := 0; i < n; i++ {
			for j := 0; j < n; j++ {
				if ok, msg := near(pp.T().At(i, j), valueOf(ck.M[j][i]), ck.Tol, 1, st, what+":T"); !ok {
					return false, fmt.Sprintf("T().At(%d,%d) %s", i, j, msg)
				}
			}
		}
		if pp.RawQ() != o.eigen.RawQ() {
			return false, "RawQ is not the wrapped decomposition's"
		}
		return true, ""
	case "EigenRandCov":
		// x = c (a vector), y = the mean, v = [c . mean] when the draws must lie in the hyperplane c . (x - mean) = 0
		src := rand.NewPCG(11, 13)
		raw := core.Call(func() { distmv.NormalRandCov(nil, y, o.eigen, src) })
		if ck.R[0] == 1 {
			if !raw.Panicked || raw.Runtime {
				return false, "NormalRandCov accepts an EigenSym with a negative eigenvalue (the documentation says it panics)"
			}
		} else if ck.R[0] == 0 && raw.Panicked {
			return false, "NormalRandCov panicked on a positive semi-definite EigenSym: " + raw.Text
		}
		pp := distmv.NewPositivePartEigenSym(o.eigen)
		for k := 0; k < 50; k++ {
			d := distmv.NormalRandCov(nil, y, pp, src)
			dot := 0.0
			for i, v := range d {
				if math.IsNaN(v) || math.IsInf(v, 0) {
					return false, fmt.Sprintf("draw %v is not finite", d)
				}
				dot += x[i] * v
			}
			if len(ck.V) == 1 {
				if ok, msg := near(dot, valueOf(ck.V[0]), ck.Tol, 10, st, what); !ok {
					return false, fmt.Sprintf("draw %v: c . x with c = %v %s", d, x, msg)
				}
			}
		}
		return true, ""
	case "ProposalLogProbDiff":
		pn, ok := samplemv.NewProposalNormal(symOf(c.Sigma), nil)
		if !ok {
			return false, "NewProposalNormal reports failure"
		}
		a, b := pn.ConditionalLogProb(x, y), pn.ConditionalLogProb(y, y)
		if ok, msg := near(a-b, valueOf(ck.R), ck.Tol, math.Max(math.Abs(a), math.Abs(b)), st, what); !ok {
			return false, msg
		}
		if rev := pn.ConditionalLogProb(y, x); math.Abs(rev-a) > 1e-10*math.Max(1, math.Abs(a)) {
			return false, fmt.Sprintf("log p(x | y) = %v but log p(y | x) = %v", a, rev)
		}
		return true, ""
	case "WishartLogProbDiff":
		// through LogProbSym and through LogProbSymChol of the Cholesky factorizations
		n := len(c.Sigma)
		xs, ys := symFlat(n, x), symFlat(n, y)
		a, b := o.wish.LogProbSym(xs), o.wish.LogProbSym(ys)
		if ok, msg := near(a-b, valueOf(ck.R), ck.Tol, math.Max(math.Abs(a), math.Abs(b)), st, what); !ok {
			return false, "LogProbSym: " + msg
		}
		var cx, cy mat.Cholesky
		if !cx.Factorize(xs) || !cy.Factorize(ys) {
			panic(evalErr{"harness: the printed matrices have no Cholesky factorization"})
		}
		a, b = o.wish.LogProbSymChol(&cx), o.wish.LogProbSymChol(&cy)
		if ok, msg := near(a-b, valueOf(ck.R), ck.Tol, math.Max(math.Abs(a), math.Abs(b)), st, what); !ok {
			return false, "LogProbSymChol: " + msg
		}
		return true, ""
	case "WishartProbMinusExp":
		xs := symFlat(len(c.Sigma), x)
		p, e := o.wish.ProbSym(xs), math.Exp(o.wish.LogProbSym(xs))
		return near(p-e, valueOf(ck.R), ck.Tol, math.Max(p, e), st, what)
	case "WishartNotPD":
		xs := symFlat(len(c.Sigma), x)
		if p := o.wish.ProbSym(xs); p != 0 {
			return false, fmt.Sprintf("ProbSym = %v, want 0", p)
		}
		if lp := o.wish.LogProbSym(xs); !math.IsInf(lp, -1) {
			return false, fmt.Sprintf("LogProbSym = %v, want -Inf", lp)
		}
		return true, ""
	case "WishartProb1":
		xs := symFlat(1, x)
		return scalar(o.wish.ProbSym(xs) / math.Exp(y[0]))
	case "WishartMean":
		var m mat.SymDense
		o.wish.MeanSymTo(&m)
		return cmpSym(&m, ck.M, ck.Tol, st, what)
	case "ExpEntropy":
		return scalar(math.Exp(o.unif.Entropy()))
	case "Dim":
		switch {
		case o.normal != nil:
			return scalar(float64(o.normal.Dim()))
		case o.t != nil:
			return scalar(float64(o.t.Dim()))
		case o.unif != nil:
			return scalar(float64(o.unif.Dim()))
		}
		return scalar(float64(o.dir.Dim()))
	case "EntropyPlusLogProbMean":
		h, lp := o.normal.Entropy(), o.normal.LogProb(o.normal.Mean(nil))
		return near(h+lp, valueOf(ck.R), ck.Tol, math.Max(math.Abs(h), math.Abs(lp)), st, what)
	case "ExpEntropyVsUnit":
		// the standard normal law of the same dimension
		n := len(c.Mu)
		id := mat.NewSymDense(n, nil)
		for i := 0; i < n; i++ {
			id.SetSym(i, i, 1)
		}
		unit, _ := distmv.NewNormal(make([]float64, n), id, nil)
		return scalar(math.Exp(o.normal.Entropy() - unit.Entropy()))
	case "ProbMinusExpLogProb":
		p, e := o.normal.Prob(x), math.Exp(o.normal.LogProb(x))
		return near(p-e, valueOf(ck.R), ck.Tol, math.Max(p, e), st, what)
	case "NormalLogProbDiff":
		var ch mat.Cholesky
		if !ch.Factorize(symOf(c.Sigma)) {
			panic(evalErr{"harness: the printed covariance has no Cholesky factorization"})
		}
		a, b := distmv.NormalLogProb(x, floats(c.Mu), &ch), distmv.NormalLogProb(y, floats(c.Mu), &ch)
		return near(a-b, valueOf(ck.R), ck.Tol, math.Max(math.Abs(a), math.Abs(b)), st, what)
	case "TransformNormal":
		curScale = dataScale(c, ck)
		// into nil, into a destination, in place
		if ok, msg := cmpVec(o.normal.TransformNormal(nil, x), ck.V, ck.Tol, st, what); !ok {
			return false, "(dst = nil) " + msg
		}
		dst := make([]float64, len(x))
		for i := range dst {
			dst[i] = 77
		}
		if ok, msg := cmpVec(o.normal.TransformNormal(dst, x), ck.V, ck.Tol, st, what); !ok {
			return false, "(into a destination) " + msg
		}
		z := append([]float64(nil), x...)
		o.normal.TransformNormal(z, z)
		if ok, msg := cmpVec(z, ck.V, ck.Tol, st, what); !ok {
			return false, "(in place) " + msg
		}
		return true, ""
	case "QuantileIsTransform":
		z := make([]float64, len(x))
		for i, p := range x {
			z[i] = distuv.UnitNormal.Quantile(p)
		}
		q, t := o.normal.Quantile(nil, x), o.normal.TransformNormal(nil, z)
		curScale = dataScale(c, ck)
		for i := range q {
			if ok, msg := near(q[i]-t[i], new(big.Rat), ck.Tol, math.Max(curScale, math.Max(math.Abs(q[i]), math.Abs(t[i]))), st, what); !ok {
				return false, fmt.Sprintf("Quantile(p)[%d] = %v, TransformNormal(standard normal quantiles of p)[%d] = %v: difference %s", i, q[i], i, t[i], msg)
			}
		}
		return true, ""
	case "SetMeanLogProbDiff":
		o.normal.SetMean(x)
		if ok, msg := cmpVec(o.normal.Mean(nil), ck.V, "exact", st, what+":Mean"); !ok {
			return false, "Mean after SetMean " + msg
		}
		a, b := o.normal.LogProb(y), o.normal.LogProb(x)
		return near(a-b, valueOf(ck.R), ck.Tol, math.Max(math.Abs(a), math.Abs(b)), st, what)
	case "CDF":
		return cmpVec(o.unif.CDF(nil, x), ck.V, ck.Tol, st, what)
	case "Quantile":
		if o.normal != nil {
			return cmpVec(o.normal.Quantile(nil, x), ck.V, ck.Tol, st, what)
		}
		return cmpVec(o.unif.Quantile(nil, x), ck.V, ck.Tol, st, what)
	case "Prob":
		if o.unif != nil {
			return scalar(o.unif.Prob(x))
		}
		return scalar(o.dir.Prob(x))
	case "ExpLogProb":
		return scalar(math.Exp(o.dir.LogProb(x)))
	case "LogProbNInf":
		if got := o.unif.LogProb(x); !math.IsInf(got, -1) {
			return false, fmt.Sprintf("= %v, want -Inf", got)
		}
		return true, ""
	}
	panic(evalErr{"harness: unknown multivariate operation " + ck.Op})
}

func replayMv(in *core.Lines, args []string, seed int64, sum *core.Summary) error {
	st := newRatStats()
	for {
		b, ok := in.Next()
		if !ok {
			break
		}
		var c mvCase
		if err := json.Unmarshal(b, &c); err != nil {
			return fmt.Errorf("line %d: %v", in.N, err)
		}
		sum.Cases++
		if len(c.Checks) > 0 {
			sum.Nontrivial++
		}
		if in.N%29 == 1 {
			small := c
			if len(small.Checks) > 3 {
				small.Checks = small.Checks[:3]
			}
			sum.Sample(small)
		}
		where := fmt.Sprintf("distmv %s mu=%v sigma=%v nu=%d box=%v", c.Kind, c.Mu, c.Sigma, c.Nu, c.Box)
		if c.Ctor != "" {
			where += " built by " + map[string]string{"chol": "NewNormalChol", "prec": "NewNormalPrecision"}[c.Ctor]
		}
		one := func(ck *mvCheck) mvCase {
			d := c
			d.Checks = []mvCheck{*ck}
			return d
		}
		var herr error
		for i := range c.Checks {
			ck := &c.Checks[i]
			sum.Count("checks", 1)
			wantPanic := ck.Op == "QuantilePanics" || ck.Op == "NewPanics"
			var ok bool
			var msg string
			o := core.Call(func() {
				switch ck.Op {
				case "NewPanics":
					distmv.NewDirichlet(vecOf(ck.X), nil)
				case "QuantilePanics":
					obj, err := buildMv(&c)
					if err != nil {
						panic(evalErr{err.Error()})
					}
					if obj.normal != nil {
						obj.normal.Quantile(nil, vecOf(ck.X))
					} else {
						obj.unif.Quantile(nil, vecOf(ck.X))
					}
				default:
					// every check works on a fresh object: the operations must not depend on earlier calls
					obj, err := buildMv(&c)
					if err != nil {
						ok, msg = false, err.Error()
						return
					}
					ok, msg = ck.run(&c, obj, st)
				}
			})
			if o.Panicked {
				if e, isHarness := o.Val.(evalErr); isHarness {
					herr = fmt.Errorf("line %d: %s", in.N, e.msg)
					break
				}
				if wantPanic && !o.Runtime {
					continue
				}
				ok, msg = false, "panicked: "+o.Text
			} else if wantPanic {
				ok, msg = false, "returned, the documentation says it panics"
			}
			ctorName := map[string]string{"": "", "chol": "NewNormalChol.", "prec": "NewNormalPrecision."}[c.Ctor]
			if sig := "dist:distmv." + c.Kind + "." + ctorName + ck.Op; !ok && st.seen[sig] {
				sum.Count("failed_checks", 1)
			} else if !ok {
				st.seen[sig] = true
				sum.Count("failed_checks", 1)
				sum.Fail(sig, fmt.Sprintf("%s: %s(i=%v x=%v y=%v) %s", where, ck.Op, ck.I, vecOf(ck.X), vecOf(ck.Y), msg), one(ck))
			}
		}
		if herr != nil {
			return herr
		}
	}
	for k, n := range st.n {
		sum.Extra["checks_"+k] = n
		if k != "exact" {
			sum.Extra["max_error_over_tolerance_"+k] = sig3(st.maxRatio[k])
			sum.Extra["worst_"+k] = st.worst[k]
		}
	}
	return nil
}
