package dist

import (
	"fmt"
	"math"
	"math/rand/v2"
	"sort"

	"gonum.org/v1/gonum/mat"
	"gonum.org/v1/gonum/stat/distmv"
	"gonum.org/v1/gonum/stat/samplemv"
	"gonum.org/v1/gonum/stat/sampleuv"

	"gonum.org/v1/gonum/verifharness/internal/core"
)

// ---- Halton (SamplerProtocol.tla, proto "halton") -----------------------------------------------

type haltonLevel struct {
	Cells int `json:"cells"` // b^k strata
	Each  int `json:"each"`  // samples per stratum
}

type haltonDim struct {
	Base   int           `json:"base"`
	Levels []haltonLevel `json:"levels"`
}

// halton: n Owen-scrambled Halton points in the unit cube of dimension d under a seeded source
// (the stratification holds for every choice of the scrambling permutations): every coordinate
// lies in [0, 1) and every stratum the specification lists receives exactly its share.  The
// quantiler is distmv.NewUnitUniform, the batch is zeroed as the sampler adds into it.
func (r *sampRun) halton(seed int64) {
	c := r.c
	for rep := int64(0); rep < 3; rep++ {
		batch := mat.NewDense(c.N, c.D, nil)
		o := core.CallTimeout(watchdog, func() {
			samplemv.Halton{Kind: samplemv.Owen, Q: distmv.NewUnitUniform(c.D, nil), Src: rand.NewPCG(uint64(seed), uint64(1000*rep+int64(c.N)))}.Sample(batch)
		})
		if o.Panicked || o.Hung {
			r.fail("samplemv.Halton.Sample:panic", fmt.Sprintf("n=%d d=%d: %s", c.N, c.D, o.Text))
			return
		}
		for j, dim := range c.Dims {
			for i := 0; i < c.N; i++ {
				if x := batch.At(i, j); !(x >= 0 && x < 1) {
					r.fail("samplemv.Halton.Sample:range", fmt.Sprintf("n=%d d=%d: sample %d coordinate %d = %v is outside [0, 1)", c.N, c.D, i, j, x))
					return
				}
			}
			for _, lv := range dim.Levels {
				count := make([]int, lv.Cells)
				for i := 0; i < c.N; i++ {
					count[int(math.Floor(batch.At(i, j)*float64(lv.Cells)))]++
				}
				for m, k := range count {
					if k != lv.Each {
						r.fail("samplemv.Halton.Sample:stratum", fmt.Sprintf("n=%d d=%d (PCG stream %d): coordinate %d (base %d): stratum %d of %d holds %d samples, want %d (column %v)",
							c.N, c.D, 1000*rep+int64(c.N), j, dim.Base, m, lv.Cells, k, lv.Each, mat.Col(nil, j, batch)))
						return
					}
				}
			}
		}
	}
	// documented: an unrecognized kind panics
	if c.N == 1 && c.D == 1 {
		o := core.Call(func() {
			samplemv.Halton{Kind: 0, Q: distmv.NewUnitUniform(1, nil), Src: rand.NewPCG(1, 1)}.Sample(mat.NewDense(1, 1, nil))
		})
		if !o.Panicked || o.Runtime {
			r.fail("samplemv.Halton.Sample:unknown-kind", "no (or a runtime) panic for an unrecognized HaltonKind")
		}
	}
}

// ---- WithoutReplacement (SamplerProtocol.tla, proto "wor") ----------------------------------------

type worScript struct {
	Choices [][2]int `json:"choices"` // (m, j): an integer below m is requested, j is delivered
	Idxs    []int    `json:"idxs"`
}

// wor: sampleuv.WithoutReplacement(idxs of length k, n, src) for every script of uniform choices.
// Verdict at the abstract level: k distinct integers of 0..n-1, and over all scripts of the case
// every ordered k-tuple equally often (the specification proves that of its own transcription);
// a result that differs from the transcribed algorithm's is model drift, a different consumption
// of the source protocol drift.
func (r *sampRun) wor() {
	c := r.c
	hist := map[string]int{}
	drift := false
	for _, sc := range c.Scripts {
		var q []uint64
		for _, mj := range sc.Choices {
			q = append(q, permChoice(mj[1], mj[0]))
		}
		src := &script{}
		src.set(q...)
		idxs := make([]int, c.K)
		for i := range idxs {
			idxs[i] = -7
		}
		o := core.CallTimeout(watchdog, func() { sampleuv.WithoutReplacement(idxs, c.N, src) })
		if r.protocolDrift(o, src) {
			drift = true
			continue
		}
		if o.Panicked || o.Hung {
			r.fail("sampleuv.WithoutReplacement:panic", fmt.Sprintf("n=%d k=%d choices %v: %s", c.N, c.K, sc.Choices, o.Text))
			return
		}
		seen := map[int]bool{}
		for _, v := range idxs {
			if v < 0 || v >= c.N || seen[v] {
				r.fail("sampleuv.WithoutReplacement:not-distinct", fmt.Sprintf("n=%d k=%d choices %v: idxs = %v are not %d distinct integers of [0, %d)", c.N, c.K, sc.Choices, idxs, c.K, c.N))
				return
			}
			seen[v] = true
		}
		hist[fmt.Sprint(idxs)]++
		for i := range idxs {
			if idxs[i] != sc.Idxs[i] {
				r.sum.Count("wor_model_drift", 1)
				break
			}
		}
	}
	if drift {
		return
	}
	// uniformity over the whole grid of scripts
	want := 1
	for i := 0; i < c.K; i++ {
		want *= c.N - i
	}
	keys := make([]string, 0, len(hist))
	for k := range hist {
		keys = append(keys, k)
	}
	sort.Strings(keys)
	if len(hist) != want {
		r.fail("sampleuv.WithoutReplacement:not-uniform", fmt.Sprintf("n=%d k=%d: %d of the %d ordered tuples are ever produced over the %d scripts: %v", c.N, c.K, len(hist), want, len(c.Scripts), keys))
		return
	}
	for _, k := range keys {
		if hist[k]*want != len(c.Scripts) {
			r.fail("sampleuv.WithoutReplacement:not-uniform", fmt.Sprintf("n=%d k=%d: tuple %s is produced by %d of %d scripts, want %d", c.N, c.K, k, hist[k], len(c.Scripts), len(c.Scripts)/want))
			return
		}
	}
	// a seeded source: the abstract verdict again (the scripted words above reach only the words the transcription chose)
	for rep := uint64(0); rep < 300; rep++ {
		idxs := make([]int, c.K)
		o := core.CallTimeout(watchdog, func() { sampleuv.WithoutReplacement(idxs, c.N, rand.NewPCG(rep, uint64(7*c.N+c.K))) })
		if o.Panicked || o.Hung {
			r.fail("sampleuv.WithoutReplacement:panic", fmt.Sprintf("n=%d k=%d PCG(%d, %d): %s", c.N, c.K, rep, 7*c.N+c.K, o.Text))
			return
		}
		seen := map[int]bool{}
		for _, v := range idxs {
			if v < 0 || v >= c.N || seen[v] {
				r.fail("sampleuv.WithoutReplacement:not-distinct", fmt.Sprintf("n=%d k=%d PCG(%d, %d): idxs = %v are not %d distinct integers of [0, %d)", c.N, c.K, rep, 7*c.N+c.K, idxs, c.K, c.N))
				return
			}
			seen[v] = true
		}
	}
	// documented: more indices than integers panics
	if c.K == c.N {
		o := core.Call(func() { sampleuv.WithoutReplacement(make([]int, c.N+1), c.N, rand.NewPCG(1, 1)) })
		if !o.Panicked || o.Runtime {
			r.fail("sampleuv.WithoutReplacement:too-many", "no (or a runtime) panic for len(idxs) > n")
		}
	}
}
