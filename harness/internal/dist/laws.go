package dist

import (
	"encoding/json"
	"fmt"
	"math"
	"math/big"

	"gonum.org/v1/gonum/stat/distuv"

	"gonum.org/v1/gonum/verifharness/internal/core"
)

func init() { core.RegisterReplay("dist-laws", replayLaws) }

// check is one row of the table DiscreteLaws.tla prints for a parameter setting.
type check struct {
	F   string   `json:"f"`
	A   [2]int64 `json:"a"`
	K   string   `json:"k"` // rat | sqrt | range | ninf | panic
	V   [2]int64 `json:"v"`
	W   [2]int64 `json:"w"`
	Sg  int      `json:"sg"`
	Tol int64    `json:"tol"` // rat: 0 exact, n > 0: n ulps (of max(|want|,1)), -1: 1e-12 relative
}

type randHist struct {
	Nvar int        `json:"nvar"`
	Den  int64      `json:"den"`
	Hist [][2]int64 `json:"hist"` // [value, number of grid vectors mapped to it]
}

type lawCase struct {
	Law    string   `json:"law"`
	Par    []int64  `json:"par"`
	Checks []check  `json:"checks"`
	Rand   randHist `json:"rand"`
}

var rel1e12 = big.NewRat(1, 1000000000000)

// methods returns the named methods of the real distribution for a parameter setting; every
// closure takes one float64 (ignored by the nullary methods).  newPanics reports that the
// constructor panicked.
func methods(law string, par []int64, src *script) (m map[string]func(float64) float64, o core.Outcome) {
	withU := func(rnd func() float64) func(float64) float64 {
		return func(u float64) float64 {
			// u is a dyadic variate k/2^53 passed as a float64: recover k exactly
			src.set(uint64(u * (1 << 53)))
			return rnd()
		}
	}
	o = core.Call(func() {
		switch law {
		case "bernoulli":
			d := distuv.Bernoulli{P: float64(par[0]) / float64(par[1]), Src: src}
			m = map[string]func(float64) float64{
				"Prob": d.Prob, "CDF": d.CDF, "Survival": d.Survival, "LogProb": d.LogProb, "Quantile": d.Quantile,
				"Mean": func(float64) float64 { return d.Mean() }, "Variance": func(float64) float64 { return d.Variance() },
				"StdDev": func(float64) float64 { return d.StdDev() }, "Median": func(float64) float64 { return d.Median() },
				"Entropy": func(float64) float64 { return d.Entropy() }, "ExKurtosis": func(float64) float64 { return d.ExKurtosis() },
				"Skewness": func(float64) float64 { return d.Skewness() }, "Rand": withU(d.Rand),
				"RandRaw": func(float64) float64 { return d.Rand() },
			}
		case "uniform":
			d := distuv.Uniform{Min: float64(par[0]), Max: float64(par[1]), Src: src}
			rnd := withU(d.Rand)
			m = map[string]func(float64) float64{
				"Prob": d.Prob, "CDF": d.CDF, "Survival": d.Survival, "LogProb": d.LogProb, "Quantile": d.Quantile,
				"Mean": func(float64) float64 { return d.Mean() }, "Variance": func(float64) float64 { return d.Variance() },
				"StdDev": func(float64) float64 { return d.StdDev() }, "Median": func(float64) float64 { return d.Median() },
				"Entropy": func(float64) float64 { return d.Entropy() }, "ExKurtosis": func(float64) float64 { return d.ExKurtosis() },
				"Skewness": func(float64) float64 { return d.Skewness() }, "Rand": rnd,
				"RandRaw":       func(float64) float64 { return d.Rand() },
				"CDFofQuantile": func(p float64) float64 { return d.CDF(d.Quantile(p)) },
				"CDFofRand":     func(u float64) float64 { return d.CDF(rnd(u)) },
			}
		case "triangle":
			d := distuv.NewTriangle(float64(par[0]), float64(par[1]), float64(par[2]), src)
			m = map[string]func(float64) float64{
				"Prob": d.Prob, "CDF": d.CDF, "Survival": d.Survival, "LogProb": d.LogProb, "Quantile": d.Quantile,
				"Mean": func(float64) float64 { return d.Mean() }, "Variance": func(float64) float64 { return d.Variance() },
				"StdDev": func(float64) float64 { return d.StdDev() }, "Median": func(float64) float64 { return d.Median() },
				"Mode": func(float64) float64 { return d.Mode() }, "ExKurtosis": func(float64) float64 { return d.ExKurtosis() },
				"Rand":    withU(d.Rand),
				"RandRaw": func(float64) float64 { return d.Rand() },
			}
		case "binomial":
			d := distuv.Binomial{N: float64(par[0]), P: float64(par[1]) / float64(par[2]), Src: src}
			m = map[string]func(float64) float64{
				"Prob": d.Prob, "CDF": d.CDF, "Survival": d.Survival, "LogProb": d.LogProb,
				"Mean": func(float64) float64 { return d.Mean() }, "Variance": func(float64) float64 { return d.Variance() },
				"StdDev": func(float64) float64 { return d.StdDev() }, "ExKurtosis": func(float64) float64 { return d.ExKurtosis() },
				"Skewness": func(float64) float64 { return d.Skewness() }, "RandRaw": func(float64) float64 { return d.Rand() },
			}
		default:
			panic("harness: unknown law " + law)
		}
	})
	return m, o
}

// nearAbs1 reports |got - want| <= ulps * ulp(max(|want|, 1)).
func nearAbs1(got float64, want *big.Rat, ulps int64) bool {
	if math.IsNaN(got) || math.IsInf(got, 0) {
		return false
	}
	w, _ := want.Float64()
	a := math.Max(math.Abs(w), 1)
	u := math.Nextafter(a, math.Inf(1)) - a
	lim := new(big.Rat).SetFloat64(u)
	lim.Mul(lim, big.NewRat(ulps, 1))
	d := new(big.Rat).SetFloat64(got)
	d.Sub(d, want)
	d.Abs(d)
	return d.Cmp(lim) <= 0
}

var sqrtRel = big.NewRat(1, 1<<44) // 256 ulps, relative, on the square

func (c *check) verdict(got float64, o core.Outcome) (bool, string) {
	if c.K == "panic" {
		if !o.Panicked {
			return false, fmt.Sprintf("returned %v, the documentation says it panics", got)
		}
		if o.Runtime {
			return false, "runtime error instead of the documented panic: " + o.Text
		}
		return true, ""
	}
	if o.Panicked {
		return false, "panicked: " + o.Text
	}
	switch c.K {
	case "rat":
		want := ratOf(c.V[0], c.V[1])
		var ok bool
		switch {
		case c.Tol == 0:
			ok = exactEq(got, want)
		case c.Tol < 0:
			ok = nearRel(got, want, rel1e12)
		default:
			ok = nearAbs1(got, want, c.Tol)
		}
		if !ok {
			return false, fmt.Sprintf("= %.17g, want %s (tol %d)", got, ratStr(want), c.Tol)
		}
	case "sqrt":
		// got = w + sg*sqrt(v): sign of (got - w) and its square
		if math.IsNaN(got) || math.IsInf(got, 0) {
			return false, fmt.Sprintf("= %v", got)
		}
		w, v := ratOf(c.W[0], c.W[1]), ratOf(c.V[0], c.V[1])
		d := new(big.Rat).SetFloat64(got)
		d.Sub(d, w)
		if d.Sign()*c.Sg < 0 {
			return false, fmt.Sprintf("= %.17g, want %s %+d*sqrt(%s): wrong side", got, w.RatString(), c.Sg, v.RatString())
		}
		sq := new(big.Rat).Mul(d, d)
		diff := new(big.Rat).Sub(sq, v)
		diff.Abs(diff)
		lim := new(big.Rat).Mul(v, sqrtRel)
		if diff.Cmp(lim) > 0 {
			return false, fmt.Sprintf("= %.17g, want %s %+d*sqrt(%s)", got, w.RatString(), c.Sg, v.RatString())
		}
	case "range":
		if math.IsNaN(got) {
			return false, "= NaN"
		}
		g := new(big.Rat).SetFloat64(got)
		if g.Cmp(ratOf(c.V[0], c.V[1])) < 0 || g.Cmp(ratOf(c.W[0], c.W[1])) > 0 {
			return false, fmt.Sprintf("= %.17g, want a value in [%s, %s]", got, ratOf(c.V[0], c.V[1]).RatString(), ratOf(c.W[0], c.W[1]).RatString())
		}
	case "ninf":
		if !math.IsInf(got, -1) {
			return false, fmt.Sprintf("= %v, want -Inf", got)
		}
	default:
		return false, "harness: unknown check kind " + c.K
	}
	return true, ""
}

func typeOfLaw(law string) string {
	return map[string]string{"bernoulli": "distuv.Bernoulli", "uniform": "distuv.Uniform", "triangle": "distuv.Triangle", "binomial": "distuv.Binomial"}[law]
}

func replayLaws(in *core.Lines, args []string, seed int64, sum *core.Summary) error {
	for {
		b, ok := in.Next()
		if !ok {
			break
		}
		var c lawCase
		if err := json.Unmarshal(b, &c); err != nil {
			return fmt.Errorf("line %d: %v", in.N, err)
		}
		sum.Cases++
		if len(c.Checks) > 1 {
			sum.Nontrivial++
		}
		if in.N%17 == 1 {
			small := c
			if len(small.Checks) > 6 {
				small.Checks = small.Checks[:6]
			}
			sum.Sample(small)
		}
		src := &script{}
		m, o := methods(c.Law, c.Par, src)
		tn := typeOfLaw(c.Law)
		fail := func(f, msg string, ck *check) {
			one := lawCase{Law: c.Law, Par: c.Par, Rand: randHist{Hist: [][2]int64{}}}
			if ck != nil {
				one.Checks = []check{*ck}
			} else {
				one.Checks = []check{}
				one.Rand = c.Rand
			}
			sum.Fail("dist:"+tn+"."+f, fmt.Sprintf("%s%v: %s", tn, c.Par, msg), one)
		}
		if len(c.Checks) == 1 && c.Checks[0].F == "New" {
			if ok, msg := c.Checks[0].verdict(0, o); !ok {
				fail("New", "constructor "+msg, &c.Checks[0])
			}
			sum.Count("checks", 1)
			continue
		}
		if o.Panicked {
			fail("New", "constructor panicked on valid parameters: "+o.Text, nil)
			continue
		}
		for i := range c.Checks {
			ck := &c.Checks[i]
			f := m[ck.F]
			if f == nil {
				return fmt.Errorf("line %d: no method %q for law %s", in.N, ck.F, c.Law)
			}
			x := float64(ck.A[0]) / float64(ck.A[1])
			var got float64
			oc := core.Call(func() { got = f(x) })
			sum.Count("checks", 1)
			if ok, msg := ck.verdict(got, oc); !ok {
				if c.Law == "binomial" && (c.Par[1] == 0 || c.Par[1] == c.Par[2]) && (ck.F == "Prob" || ck.F == "LogProb") && math.IsNaN(got) {
					// Binomial{P: 0 or 1}: 0*log(0) in LogProb (one specific code path)
					fail(ck.F+":degenerate-p-nan", fmt.Sprintf("%s(%s) %s", ck.F, ratOf(ck.A[0], ck.A[1]).RatString(), msg), ck)
					continue
				}
				fail(ck.F, fmt.Sprintf("%s(%s) %s", ck.F, ratOf(ck.A[0], ck.A[1]).RatString(), msg), ck)
			}
		}
		if c.Rand.Nvar > 0 {
			// push-forward of the uniform grid {(2r+1)/(2 den)}^nvar under Rand
			rnd := m["RandRaw"]
			want := map[float64]int64{}
			for _, h := range c.Rand.Hist {
				want[float64(h[0])] += h[1]
			}
			got := map[float64]int64{}
			r := make([]int64, c.Rand.Nvar)
			q := make([]uint64, c.Rand.Nvar)
			bad := ""
			for done := false; !done && bad == ""; {
				for i, ri := range r {
					q[i] = variate(2*ri+1, 2*c.Rand.Den)
				}
				var v float64
				oc := core.Call(func() {
					src.set(q...)
					v = rnd(0)
				})
				if oc.Panicked {
					if _, ex := oc.Val.(scriptExhausted); ex {
						sum.Count("variate_protocol_drift", 1)
						bad = "-"
						break
					}
					bad = fmt.Sprintf("Rand panicked for grid vector %v: %s", r, oc.Text)
					break
				}
				if src.left() != 0 {
					sum.Count("variate_protocol_drift", 1)
					bad = "-"
					break
				}
				got[v]++
				sum.Count("rand_grid_vectors", 1)
				// next grid vector
				i := 0
				for ; i < len(r); i++ {
					r[i]++
					if r[i] < c.Rand.Den {
						break
					}
					r[i] = 0
				}
				done = i == len(r)
			}
			if bad == "" {
				for v, n := range got {
					if want[v] != n {
						bad = fmt.Sprintf("over the uniform grid {(2r+1)/(2*%d)}^%d the value %v was drawn %d times, want %d (push-forward must be the law: %v)", c.Rand.Den, c.Rand.Nvar, v, n, want[v], c.Rand.Hist)
						break
					}
				}
				for v, n := range want {
					if bad == "" && got[v] != n {
						bad = fmt.Sprintf("over the uniform grid {(2r+1)/(2*%d)}^%d the value %v was drawn %d times, want %d", c.Rand.Den, c.Rand.Nvar, v, got[v], n)
					}
				}
			}
			if bad != "" && bad != "-" {
				fail("Rand:measure", bad, nil)
			}
		}
	}
	return nil
}
