package dist

import (
	"encoding/json"
	"fmt"
	"math"
	"math/big"
	"math/rand/v2"

	"gonum.org/v1/gonum/mat"
	"gonum.org/v1/gonum/stat/distmat"
	"gonum.org/v1/gonum/stat/samplemv"
	"gonum.org/v1/gonum/stat/sampleuv"

	"gonum.org/v1/gonum/verifharness/internal/core"
)

func init() { core.RegisterReplay("dist-samplers", replaySamplers) }

const neg = 99 // the specification's encoding of log density -Inf

// ---- test doubles: scripted targets and proposals over integer tokens -------------
// A token k is the k-th value a proposal returns.  Log densities are e*ln2 with the
// integer e taken from the script; an argument that is not a token of the script gets -Inf.

func lg(e int) float64 {
	if e == neg {
		return math.Inf(-1)
	}
	return float64(e) * math.Ln2
}

type table struct {
	lp    map[int]float64 // log density per token
	next  int             // tokens handed out so far (Rand)
	limit int             // tokens in the script
}

func tok(x float64) (int, bool) {
	if math.IsNaN(x) || math.IsInf(x, 0) || x != math.Trunc(x) || math.Abs(x) > 1e6 {
		return 0, false
	}
	return int(x), true
}

func tokv(x []float64) (int, bool) {
	if len(x) != 2 || x[1] != -x[0] {
		return 0, false
	}
	return tok(x[0])
}

func (t *table) at(k int, ok bool) float64 {
	if v, in := t.lp[k]; ok && in {
		return v
	}
	return math.Inf(-1)
}

type uvDist struct{ *table }

func (d uvDist) LogProb(x float64) float64 { k, ok := tok(x); return d.at(k, ok) }
func (d uvDist) Rand() float64             { d.next++; return float64(d.next) }

type mvDist struct{ *table }

func (d mvDist) LogProb(x []float64) float64 { k, ok := tokv(x); return d.at(k, ok) }
func (d mvDist) Rand(x []float64) []float64 {
	d.next++
	if x == nil {
		x = make([]float64, 2)
	}
	x[0], x[1] = float64(d.next), -float64(d.next)
	return x
}

// Metropolis-Hastings proposal double: conditional log densities from the script's matrix
type mhTab struct {
	cc   [][]int
	next int
}

func (p *mhTab) c(x, y int, okx, oky bool) float64 {
	if !okx || !oky || x < 0 || y < 0 || x >= len(p.cc) || y >= len(p.cc[x]) {
		return math.Inf(-1)
	}
	return lg(p.cc[x][y])
}

type uvMH struct{ *mhTab }

func (p uvMH) ConditionalLogProb(x, y float64) float64 {
	a, oa := tok(x)
	b, ob := tok(y)
	return p.c(a, b, oa, ob)
}
func (p uvMH) ConditionalRand(y float64) float64 { p.next++; return float64(p.next) }

type mvMH struct{ *mhTab }

func (p mvMH) ConditionalLogProb(x, y []float64) float64 {
	a, oa := tokv(x)
	b, ob := tokv(y)
	return p.c(a, b, oa, ob)
}
func (p mvMH) ConditionalRand(x, y []float64) []float64 {
	p.next++
	if x == nil {
		x = make([]float64, 2)
	}
	x[0], x[1] = float64(p.next), -float64(p.next)
	return x
}

type identQ struct{}

func (identQ) Quantile(p float64) float64 { return p }

type identQmv struct{}

func (identQmv) Quantile(x, p []float64) []float64 {
	if x == nil {
		x = make([]float64, len(p))
	}
	copy(x, p)
	return x
}

// ---- the specification's scripts (SamplerProtocol.tla) ---------------------------

type step struct {
	X int      `json:"x"`
	E int      `json:"e"`
	U [2]int64 `json:"u"`
}

type lhcCol struct {
	Js   [][2]int   `json:"js"` // Fisher-Yates choices (i, j_i) in the order they are consumed
	Perm []int      `json:"perm"`
	Us   [][2]int64 `json:"us"`
}

type lhcCell struct {
	Num     int64 `json:"num"`
	Den     int64 `json:"den"`
	Stratum int   `json:"stratum"`
}

type script1 struct {
	Proto    string      `json:"proto"`
	N        int         `json:"n"`
	C        int         `json:"c"`
	Steps    []step      `json:"steps"`
	Ok       bool        `json:"ok"`
	Batch    []int       `json:"batch"`
	Proposed int         `json:"proposed"`
	Burn     int         `json:"burn"`
	Rate     int         `json:"rate"`
	Tt       []int       `json:"tt"`
	Cc       [][]int     `json:"cc"`
	Nsteps   int         `json:"nsteps"`
	D        int         `json:"d"`
	Cols     []lhcCol    `json:"cols"`
	Cells    [][]lhcCell `json:"cells"`
	Es       []int       `json:"es"`
	Weights  [][2]int64  `json:"weights"`
	// halton
	Dims []haltonDim `json:"dims"`
	// wor (WithoutReplacement)
	K       int         `json:"k"`
	Perm    bool        `json:"perm"`
	Scripts []worScript `json:"scripts"`
}

type sampRun struct {
	sum *core.Summary
	c   *script1
	raw json.RawMessage
}

func (r *sampRun) fail(sig, msg string) { r.sum.Fail("dist:"+sig, msg, r.raw) }

const sentinel = -7 // prefilled into every batch: not a token

func fill(n int) []float64 {
	b := make([]float64, n)
	for i := range b {
		b[i] = sentinel
	}
	return b
}

func fillM(n, d int) *mat.Dense {
	m := mat.NewDense(n, d, nil)
	for i := 0; i < n; i++ {
		for j := 0; j < d; j++ {
			m.Set(i, j, sentinel)
		}
	}
	return m
}

func col0(m *mat.Dense) []float64 {
	n, _ := m.Dims()
	b := make([]float64, n)
	for i := range b {
		b[i] = m.At(i, 0)
		if m.At(i, 1) != -b[i] && !(math.IsNaN(b[i]) && math.IsNaN(m.At(i, 1))) {
			b[i] = math.Inf(1) // a row that is not a token vector
		}
	}
	return b
}

func eqTokens(got []float64, want []int) bool {
	if len(got) != len(want) {
		return false
	}
	for i := range got {
		if got[i] != float64(want[i]) {
			return false
		}
	}
	return true
}

func allNaN(b []float64) bool {
	for _, v := range b {
		if !math.IsNaN(v) {
			return false
		}
	}
	return true
}

func usOf(steps []step) []uint64 {
	q := make([]uint64, len(steps))
	for i, s := range steps {
		q[i] = variate(s.U[0], s.U[1])
	}
	return q
}

// ---- rejection -------------------------------------------------------------------

func (r *sampRun) rejection() {
	c := r.c
	for _, mv := range []bool{false, true} {
		name := "sampleuv.Rejection"
		if mv {
			name = "samplemv.Rejection"
		}
		tgt := &table{lp: map[int]float64{}}
		prp := &table{lp: map[int]float64{}}
		for _, s := range c.Steps {
			sx := s.X % 3
			prp.lp[s.X] = lg(-sx)
			if s.E == neg {
				tgt.lp[s.X] = math.Inf(-1)
			} else {
				tgt.lp[s.X] = lg(s.E - sx)
			}
		}
		src := &script{}
		var uv *sampleuv.Rejection
		var mvr *samplemv.Rejection
		if mv {
			mvr = &samplemv.Rejection{C: float64(c.C), Target: mvDist{tgt}, Proposal: mvDist{prp}, Src: src}
		} else {
			uv = &sampleuv.Rejection{C: float64(c.C), Target: uvDist{tgt}, Proposal: uvDist{prp}, Src: src}
		}
		// the same object is used twice: Err and Proposed describe the last call only
		for round := 0; round < 2; round++ {
			src.set(usOf(c.Steps)...)
			prp.next = 0
			var batch []float64
			var err error
			var proposed int
			o := core.CallTimeout(watchdog, func() {
				if mv {
					m := fillM(c.N, 2)
					mvr.Sample(m)
					batch, err, proposed = col0(m), mvr.Err(), mvr.Proposed()
				} else {
					batch = fill(c.N)
					uv.Sample(batch)
					err, proposed = uv.Err(), uv.Proposed()
				}
			})
			if r.protocolDrift(o, src) {
				break
			}
			if o.Panicked || o.Hung {
				r.fail(name+".Sample:panic", fmt.Sprintf("script %v: %s", c.Steps, o.Text))
				break
			}
			if (err == nil) != c.Ok {
				r.fail(name+".Sample:err", fmt.Sprintf("n=%d C=%d script %v: Err() = %v, want ok = %v", c.N, c.C, c.Steps, err, c.Ok))
				break
			}
			if proposed != c.Proposed {
				r.fail(name+".Sample:proposed", fmt.Sprintf("n=%d C=%d script %v: Proposed() = %d, want %d (every proposal counted)", c.N, c.C, c.Steps, proposed, c.Proposed))
				break
			}
			if c.Ok && !eqTokens(batch, c.Batch) {
				r.fail(name+".Sample:batch", fmt.Sprintf("n=%d C=%d script %v: batch = %v, want the accepted proposals in order %v", c.N, c.C, c.Steps, batch, c.Batch))
				break
			}
			if !c.Ok && !allNaN(batch) {
				r.fail(name+".Sample:batch", fmt.Sprintf("n=%d C=%d script %v: batch = %v after a failed call, want all NaN", c.N, c.C, c.Steps, batch))
				break
			}
		}
	}
}

// protocolDrift reports (and counts) a run in which the sampler asked for more variates than the
// script holds: the scripted experiment does not apply to such an implementation.
func (r *sampRun) protocolDrift(o core.Outcome, src *script) bool {
	if _, ex := o.Val.(scriptExhausted); ex || src.over > 0 {
		r.sum.Count("variate_protocol_drift", 1)
		return true
	}
	return false
}

// ---- Metropolis-Hastings ---------------------------------------------------------

func (r *sampRun) mh() {
	c := r.c
	for _, mv := range []bool{false, true} {
		name := "sampleuv.MetropolisHastings"
		if mv {
			name = "samplemv.MetropolisHastingser"
		}
		tgt := &table{lp: map[int]float64{}}
		for x, e := range c.Tt {
			tgt.lp[x] = lg(e)
		}
		prp := &mhTab{cc: c.Cc}
		src := &script{}
		src.set(usOf(c.Steps)...)
		var batch []float64
		o := core.CallTimeout(watchdog, func() {
			if mv {
				m := fillM(c.N, 2)
				samplemv.MetropolisHastingser{Initial: []float64{0, 0}, Target: mvDist{tgt}, Proposal: mvMH{prp}, Src: src,
					BurnIn: c.Burn, Rate: c.Rate}.Sample(m)
				batch = col0(m)
			} else {
				batch = fill(c.N)
				sampleuv.MetropolisHastings{Initial: 0, Target: uvDist{tgt}, Proposal: uvMH{prp}, Src: src,
					BurnIn: c.Burn, Rate: c.Rate}.Sample(batch)
			}
		})
		kind := ""
		if c.Burn > 0 {
			kind = "-burnin"
		}
		if o.Panicked || o.Hung {
			if _, ex := o.Val.(scriptExhausted); !ex {
				r.fail(name+".Sample:panic"+kind, fmt.Sprintf("n=%d BurnIn=%d Rate=%d: %s", c.N, c.Burn, c.Rate, o.Text))
				continue
			}
		}
		if !eqTokens(batch, c.Batch) {
			r.fail(name+".Sample:batch"+kind, fmt.Sprintf("n=%d BurnIn=%d Rate=%d script %v (T=%v): batch = %v, want the chain states %v (state after step BurnIn+1+i*Rate; %d proposals made, chain needs %d)",
				c.N, c.Burn, c.Rate, c.Steps, c.Tt, batch, c.Batch, prp.next, c.Nsteps))
			continue
		}
		if prp.next != c.Nsteps || src.left() != 0 || src.over > 0 {
			// the stored states are right; extra or fewer proposals are not excluded by the documentation
			r.sum.Count("mh_step_count_differs", 1)
		}
	}
}

// ---- Latin hypercube -------------------------------------------------------------

var two63 = new(big.Int).Lsh(big.NewInt(1), 63)

// permChoice encodes the Fisher-Yates choice j in [0, m) as the Source value for which
// rand.Rand.uint64n(m) returns j: a mask for powers of two, else the high word of x*m.
func permChoice(j, m int) uint64 {
	if m&(m-1) == 0 {
		return uint64(j)
	}
	x := new(big.Int).Mul(big.NewInt(int64(2*j+1)), two63)
	x.Quo(x, big.NewInt(int64(m)))
	return x.Uint64()
}

func (r *sampRun) lhc() {
	c := r.c
	var q []uint64
	encOK := true
	for _, col := range c.Cols {
		var pq []uint64
		for _, ij := range col.Js {
			pq = append(pq, permChoice(ij[1], ij[0]+1))
		}
		// the encoding of Perm is checked against math/rand/v2 itself before it is used
		got := rand.New(&script{q: append([]uint64(nil), pq...)}).Perm(c.N)
		for i := range got {
			if got[i] != col.Perm[i] {
				encOK = false
			}
		}
		q = append(q, pq...)
		for _, u := range col.Us {
			q = append(q, variate(u[0], u[1]))
		}
	}
	if !encOK {
		r.sum.Count("perm_encoding_drift", 1)
		return
	}
	check := func(name string, at func(i, k int) float64) {
		for i := 0; i < c.N; i++ {
			for k := 0; k < c.D; k++ {
				w := c.Cells[i][k]
				if got := at(i, k); !nearAbs1(got, ratOf(w.Num, w.Den), 2) {
					r.fail(name+".Sample:cell", fmt.Sprintf("n=%d d=%d perms/variates %+v: sample %d dimension %d = %.17g, want %s (stratum %d of %d)",
						c.N, c.D, c.Cols, i, k, got, ratStr(ratOf(w.Num, w.Den)), w.Stratum, c.N))
					return
				}
			}
		}
	}
	if c.D == 1 {
		src := &script{}
		src.set(q...)
		batch := fill(c.N)
		o := core.CallTimeout(watchdog, func() { sampleuv.LatinHypercube{Q: identQ{}, Src: src}.Sample(batch) })
		if !r.protocolDrift(o, src) {
			if o.Panicked || o.Hung {
				r.fail("sampleuv.LatinHypercube.Sample:panic", o.Text)
			} else {
				check("sampleuv.LatinHypercube", func(i, k int) float64 { return batch[i] })
			}
		}
	}
	if c.D == 1 {
		r.permTo(c.Cols[0], q)
	}
	src := &script{}
	src.set(q...)
	m := fillM(c.N, c.D)
	o := core.CallTimeout(watchdog, func() { samplemv.LatinHypercube{Q: identQmv{}, Src: src}.Sample(m) })
	if r.protocolDrift(o, src) {
		return
	}
	if o.Panicked || o.Hung {
		r.fail("samplemv.LatinHypercube.Sample:panic", o.Text)
		return
	}
	check("samplemv.LatinHypercube", func(i, k int) float64 { return m.At(i, k) })
}

// permTo: distmat.UniformPermutation.PermTo on a zeroed matrix with the scripted Fisher-Yates
// choices must produce the permutation matrix of the permutation the specification derived
// (dst[i][perm[i]] = 1); a second call (the generator keeps shuffling its index slice) must again
// produce a permutation matrix; a non-square destination panics.
func (r *sampRun) permTo(col lhcCol, q []uint64) {
	n := len(col.Perm)
	src := &script{}
	src.set(q...)
	var up *distmat.UniformPermutation
	dst := mat.NewDense(n, n, nil)
	o := core.Call(func() {
		up = distmat.NewUniformPermutation(src)
		up.PermTo(dst)
	})
	if r.protocolDrift(o, src) {
		return
	}
	if o.Panicked {
		r.fail("distmat.UniformPermutation.PermTo:panic", o.Text)
		return
	}
	for i := 0; i < n; i++ {
		for j := 0; j < n; j++ {
			want := 0.0
			if col.Perm[i] == j {
				want = 1
			}
			if dst.At(i, j) != want {
				r.fail("distmat.UniformPermutation.PermTo:matrix", fmt.Sprintf("n=%d Fisher-Yates choices %v: dst = %v, want the permutation matrix of %v", n, col.Js, mat.Formatted(dst), col.Perm))
				return
			}
		}
	}
	// second call with the same choices again
	src.set(q...)
	dst2 := mat.NewDense(n, n, nil)
	if o := core.Call(func() { up.PermTo(dst2) }); o.Panicked {
		if !r.protocolDrift(o, src) {
			r.fail("distmat.UniformPermutation.PermTo:panic", "second call: "+o.Text)
		}
		return
	}
	for i := 0; i < n; i++ {
		rs, cs, bad := 0.0, 0.0, false
		for j := 0; j < n; j++ {
			if v := dst2.At(i, j); v != 0 && v != 1 {
				bad = true
			}
			rs += dst2.At(i, j)
			cs += dst2.At(j, i)
		}
		if bad || rs != 1 || cs != 1 {
			r.fail("distmat.UniformPermutation.PermTo:not-a-permutation", fmt.Sprintf("n=%d second call: dst = %v is not a permutation matrix", n, mat.Formatted(dst2)))
			return
		}
	}
	if o := core.Call(func() { up.PermTo(mat.NewDense(n, n+1, nil)) }); !o.Panicked || o.Runtime {
		r.fail("distmat.UniformPermutation.PermTo:shape-panic", "no (or a runtime) panic for a non-square destination")
	}
}

// ---- Importance, IID, SampleUniformWeighted ----------------------------------------

func (r *sampRun) simple() {
	c := r.c
	mk := func() (*table, *table) {
		tgt := &table{lp: map[int]float64{}}
		prp := &table{lp: map[int]float64{}}
		for i, e := range c.Es {
			x := i + 1
			sx := x % 3
			prp.lp[x] = lg(-sx)
			if e == neg {
				tgt.lp[x] = math.Inf(-1)
			} else {
				tgt.lp[x] = lg(e - sx)
			}
		}
		return tgt, prp
	}
	weightsOK := func(name string, w []float64) {
		for i, v := range w {
			want := ratOf(c.Weights[i][0], c.Weights[i][1])
			ok := nearUlp(v, want, 4)
			if c.Es[i] == 0 || c.Es[i] == neg {
				ok = exactEq(v, want)
			}
			if !ok {
				r.fail(name+".SampleWeighted:weights", fmt.Sprintf("log2 ratios %v: weights = %v, want p/q = %v", c.Es, w, c.Weights))
				return
			}
		}
	}
	ones := func(w []float64) bool {
		for _, v := range w {
			if v != 1 {
				return false
			}
		}
		return true
	}
	// univariate
	{
		tgt, prp := mk()
		batch, w := fill(c.N), fill(c.N)
		o := core.Call(func() { sampleuv.Importance{Target: uvDist{tgt}, Proposal: uvDist{prp}}.SampleWeighted(batch, w) })
		if o.Panicked {
			r.fail("sampleuv.Importance.SampleWeighted:panic", o.Text)
		} else if !eqTokens(batch, c.Batch) {
			r.fail("sampleuv.Importance.SampleWeighted:batch", fmt.Sprintf("batch = %v, want successive proposal draws %v", batch, c.Batch))
		} else {
			weightsOK("sampleuv.Importance", w)
		}
		if o := core.Call(func() {
			sampleuv.Importance{Target: uvDist{tgt}, Proposal: uvDist{prp}}.SampleWeighted(fill(c.N), fill(c.N+1))
		}); !o.Panicked || o.Runtime {
			r.fail("sampleuv.Importance.SampleWeighted:length-panic", "no (or a runtime) panic for len(batch) != len(weights)")
		}
		_, p2 := mk()
		batch = fill(c.N)
		if o := core.Call(func() { sampleuv.IIDer{Dist: uvDist{p2}}.Sample(batch) }); o.Panicked || !eqTokens(batch, c.Batch) {
			r.fail("sampleuv.IIDer.Sample:batch", fmt.Sprintf("batch = %v (%s), want successive Rand() values %v", batch, o.Text, c.Batch))
		}
		_, p3 := mk()
		batch, w = fill(c.N), fill(c.N)
		if o := core.Call(func() {
			sampleuv.SampleUniformWeighted{Sampler: sampleuv.IIDer{Dist: uvDist{p3}}}.SampleWeighted(batch, w)
		}); o.Panicked || !eqTokens(batch, c.Batch) || !ones(w) {
			r.fail("sampleuv.SampleUniformWeighted.SampleWeighted", fmt.Sprintf("batch = %v weights = %v (%s), want %v and all ones", batch, w, o.Text, c.Batch))
		}
		if o := core.Call(func() {
			sampleuv.SampleUniformWeighted{Sampler: sampleuv.IIDer{Dist: uvDist{p3}}}.SampleWeighted(fill(c.N), fill(c.N+1))
		}); !o.Panicked || o.Runtime {
			r.fail("sampleuv.SampleUniformWeighted.SampleWeighted:length-panic", "no (or a runtime) panic for len(batch) != len(weights)")
		}
	}
	// multivariate
	{
		tgt, prp := mk()
		m, w := fillM(c.N, 2), fill(c.N)
		o := core.Call(func() { samplemv.Importance{Target: mvDist{tgt}, Proposal: mvDist{prp}}.SampleWeighted(m, w) })
		if o.Panicked {
			r.fail("samplemv.Importance.SampleWeighted:panic", o.Text)
		} else if !eqTokens(col0(m), c.Batch) {
			r.fail("samplemv.Importance.SampleWeighted:batch", fmt.Sprintf("batch = %v, want successive proposal draws %v", col0(m), c.Batch))
		} else {
			weightsOK("samplemv.Importance", w)
		}
		if o := core.Call(func() {
			samplemv.Importance{Target: mvDist{tgt}, Proposal: mvDist{prp}}.SampleWeighted(fillM(c.N, 2), fill(c.N+1))
		}); !o.Panicked || o.Runtime {
			r.fail("samplemv.Importance.SampleWeighted:length-panic", "no (or a runtime) panic for rows(batch) != len(weights)")
		}
		_, p2 := mk()
		m = fillM(c.N, 2)
		if o := core.Call(func() { samplemv.IID{Dist: mvDist{p2}}.Sample(m) }); o.Panicked || !eqTokens(col0(m), c.Batch) {
			r.fail("samplemv.IID.Sample:batch", fmt.Sprintf("batch = %v (%s), want successive Rand() values %v", col0(m), o.Text, c.Batch))
		}
		_, p3 := mk()
		m, w = fillM(c.N, 2), fill(c.N)
		if o := core.Call(func() { samplemv.SampleUniformWeighted{Sampler: samplemv.IID{Dist: mvDist{p3}}}.SampleWeighted(m, w) }); o.Panicked || !eqTokens(col0(m), c.Batch) || !ones(w) {
			r.fail("samplemv.SampleUniformWeighted.SampleWeighted", fmt.Sprintf("batch = %v weights = %v (%s), want %v and all ones", col0(m), w, o.Text, c.Batch))
		}
		if o := core.Call(func() {
			samplemv.SampleUniformWeighted{Sampler: samplemv.IID{Dist: mvDist{p3}}}.SampleWeighted(fillM(c.N, 2), fill(c.N+1))
		}); !o.Panicked || o.Runtime {
			r.fail("samplemv.SampleUniformWeighted.SampleWeighted:length-panic", "no (or a runtime) panic for rows(batch) != len(weights)")
		}
	}
}

func replaySamplers(in *core.Lines, args []string, seed int64, sum *core.Summary) error {
	for {
		b, ok := in.Next()
		if !ok {
			break
		}
		var c script1
		if err := json.Unmarshal(b, &c); err != nil {
			return fmt.Errorf("line %d: %v", in.N, err)
		}
		r := &sampRun{sum: sum, c: &c, raw: append(json.RawMessage(nil), b...)}
		sum.Cases++
		switch c.Proto {
		case "rejection":
			if len(c.Steps) > 1 || !c.Ok {
				sum.Nontrivial++
			}
			r.rejection()
		case "mh":
			if len(c.Steps) > 1 {
				sum.Nontrivial++
			}
			r.mh()
		case "lhc":
			if c.N > 1 {
				sum.Nontrivial++
			}
			r.lhc()
		case "simple":
			sum.Nontrivial++
			r.simple()
		case "halton":
			if c.N > 1 {
				sum.Nontrivial++
			}
			r.halton(seed)
		case "wor":
			sum.Nontrivial++
			r.wor()
		default:
			return fmt.Errorf("line %d: unknown protocol %q", in.N, c.Proto)
		}
		if in.N%499 == 1 {
			sum.Sample(r.raw)
		}
	}
	return nil
}
