package dist

import (
	"encoding/json"
	"fmt"
	"math"
	"math/rand/v2"
	"reflect"
	"time"

	"gonum.org/v1/gonum/verifharness/internal/core"
)

// Steps of a dist-rat case (printed by specs/dist/FitScoreLaws.tla and RandLaws.tla): a small
// program that is run on the case's object before its checks are evaluated.  A step names what
// to call; the interpreter knows no law and no estimator.
//
//	let    env[name] = the printed values
//	call   obj.Fn(args...) by reflection; an argument is ["vec", name] (the environment vector
//	       itself: the callee may write into it), ["nil"] (a nil slice) or an expression; the
//	       result (float64, int or []float64) is stored in env[out] when out is not empty
//	rand   the object is rebuilt with a scripted Source that delivers the printed 64-bit words;
//	       env["draw"] = obj.Rand(); env["var"] = the variate math/rand/v2 itself derives from
//	       the same words (Float64, ExpFloat64 or NormFloat64 as the step's kind says).  When the
//	       two consume a different number of words the case is protocol drift, not a verdict.
//	sample the object is rebuilt with a seeded PCG source; env["draws"] = n values of obj.Rand()
//	samplemv the same for the multivariate / matrix samplers of mvsamp.go: env["draws"] = one
//	       coordinate of n draws, env["sum"], env["sumsq"], env["finite"], env["spd"] per draw
type ratStep struct {
	Op    string            `json:"op"`
	Name  string            `json:"name,omitempty"`
	Vals  [][3]int64        `json:"vals,omitempty"`
	Fn    string            `json:"fn,omitempty"`
	Args  []json.RawMessage `json:"args,omitempty"`
	Out   string            `json:"out,omitempty"`
	Words [][2]int64        `json:"words,omitempty"`
	Kind  string            `json:"kind,omitempty"`
	N     int               `json:"n,omitempty"`
	Salt  int64             `json:"salt,omitempty"`
	// samplemv: Kind = the way of drawing, Comp = the coordinate whose values become env["draws"],
	// Matrix = d when a draw is a d x d matrix (row-major)
	Comp   int `json:"comp,omitempty"`
	Matrix int `json:"matrix,omitempty"`
}

// curEnv is the environment of the case being evaluated.
var curEnv map[string][]float64

// wordOf assembles a Source value from the printed halves (lo may be printed as a negative
// 32-bit integer).
func wordOf(w [2]int64) uint64 { return uint64(uint32(w[0]))<<32 | uint64(uint32(int32(w[1]))) }

type stepDrift struct{ why string }

// runSteps executes the steps of a case; it returns the (possibly rebuilt) object.  A
// stepDrift panic reports a consumption pattern other than the scripted one.
func runSteps(c *ratCase, obj reflect.Value, seed int64) reflect.Value {
	for si := range c.Steps {
		st := &c.Steps[si]
		switch st.Op {
		case "let":
			curEnv[st.Name] = vecOf(st.Vals)
		case "call":
			m := method(obj, st.Fn)
			ft := m.Type()
			if ft.NumIn() != len(st.Args) {
				bad("harness: %s takes %d arguments, %d given", st.Fn, ft.NumIn(), len(st.Args))
			}
			in := make([]reflect.Value, len(st.Args))
			for i, raw := range st.Args {
				var n []json.RawMessage
				if err := json.Unmarshal(raw, &n); err != nil || len(n) == 0 {
					bad("harness: malformed argument %s", raw)
				}
				switch str(n[0]) {
				case "vec":
					v, ok := curEnv[str(n[1])]
					if !ok {
						bad("harness: no environment vector %q", str(n[1]))
					}
					in[i] = reflect.ValueOf(v)
				case "nil":
					in[i] = reflect.ValueOf([]float64(nil))
				default:
					x := eval(obj, raw).v
					switch ft.In(i).Kind() {
					case reflect.Float64:
						in[i] = reflect.ValueOf(x)
					case reflect.Int:
						in[i] = reflect.ValueOf(int(x))
					default:
						bad("harness: %s: unsupported parameter type %s", st.Fn, ft.In(i))
					}
				}
			}
			out := m.Call(in)
			if st.Out != "" {
				if len(out) != 1 {
					bad("harness: %s returns %d values", st.Fn, len(out))
				}
				switch out[0].Kind() {
				case reflect.Float64:
					curEnv[st.Out] = []float64{out[0].Float()}
				case reflect.Int:
					curEnv[st.Out] = []float64{float64(out[0].Int())}
				case reflect.Slice:
					v, ok := out[0].Interface().([]float64)
					if !ok {
						bad("harness: %s: unsupported result type %s", st.Fn, out[0].Type())
					}
					curEnv[st.Out] = v
				default:
					bad("harness: %s: unsupported result type %s", st.Fn, out[0].Type())
				}
			}
		case "rand":
			words := make([]uint64, len(st.Words))
			for i, w := range st.Words {
				words[i] = wordOf(w)
			}
			ref := &script{}
			ref.set(words...)
			var variate float64
			o := core.Call(func() {
				r := rand.New(ref)
				switch st.Kind {
				case "uniform":
					variate = r.Float64()
				case "exp":
					variate = r.ExpFloat64()
				case "normal":
					variate = r.NormFloat64()
				default:
					bad("harness: unknown variate kind %q", st.Kind)
				}
			})
			if o.Panicked {
				if e, isHarness := o.Val.(evalErr); isHarness {
					panic(e)
				}
				panic(stepDrift{"math/rand/v2 needs more words than scripted for the " + st.Kind + " variate"})
			}
			src := &script{}
			src.set(words...)
			nobj, err := buildObjSrc(c.Obj, src)
			if err != nil {
				bad("%v", err)
			}
			var draw float64
			o = core.CallTimeout(watchdog, func() { draw = callFloat(method(nobj, "Rand"), "Rand", nil) })
			if o.Hung {
				panic("Rand did not return within " + watchdog.String())
			}
			if o.Panicked {
				if _, dry := o.Val.(scriptExhausted); dry {
					panic(stepDrift{"Rand consumes more words than the scripted variate"})
				}
				panic(o.Val)
			}
			if src.used != ref.used {
				panic(stepDrift{fmt.Sprintf("Rand consumes %d words, the %s variate %d", src.used, st.Kind, ref.used)})
			}
			obj = nobj
			curEnv["draw"] = []float64{draw}
			curEnv["var"] = []float64{variate}
		case "sample":
			nobj, err := buildObjSrc(c.Obj, rand.NewPCG(uint64(seed), uint64(st.Salt)))
			if err != nil {
				bad("%v", err)
			}
			draws := make([]float64, st.N)
			m := method(nobj, "Rand")
			o := core.CallTimeout(3*watchdog, func() {
				for i := range draws {
					draws[i] = callFloat(m, "Rand", nil)
				}
			})
			if o.Hung {
				panic(fmt.Sprintf("%d calls of Rand did not return within %v", st.N, 3*watchdog))
			}
			if o.Panicked {
				panic(o.Val)
			}
			obj = nobj
			curEnv["draws"] = draws
		case "samplemv":
			sampleMv(c, st, seed)
		default:
			bad("harness: unknown step %q", st.Op)
		}
	}
	return obj
}

// vectorCheck evaluates the check kinds that look at a whole vector of draws.
func (c *ratCheck) vectorCheck(obj reflect.Value, st *ratStats, where string) (bool, string) {
	var n []json.RawMessage
	if err := json.Unmarshal(c.E, &n); err != nil || len(n) < 2 {
		bad("harness: malformed expression %s", c.E)
	}
	var draws []float64
	if len(n) == 2 && str(n[0]) == "v" {
		// a whole environment vector
		v, ok := curEnv[str(n[1])]
		if !ok || len(v) == 0 {
			bad("harness: no environment vector %q", str(n[1]))
		}
		draws = v
	} else if c.K == "support" {
		// one value: lo <= e <= hi
		var x float64
		o := core.CallTimeout(20*time.Second, func() { x = eval(obj, c.E).v })
		if o.Hung || o.Panicked {
			if e, isHarness := o.Val.(evalErr); isHarness {
				panic(e)
			}
			return false, o.Text
		}
		draws = []float64{x}
	} else {
		bad("harness: %s check needs e = [v, name], got %s", c.K, c.E)
	}
	switch c.K {
	case "support":
		var lo, hi float64
		o := core.CallTimeout(20*time.Second, func() { lo, hi = eval(obj, c.Lo).v, eval(obj, c.Hi).v })
		if o.Hung || o.Panicked {
			if e, isHarness := o.Val.(evalErr); isHarness {
				panic(e)
			}
			return false, "support bounds: " + o.Text
		}
		for i, x := range draws {
			if math.IsNaN(x) || x < lo || x > hi {
				return false, fmt.Sprintf("value %d = %v is outside [%v, %v]", i, x, lo, hi)
			}
			if c.Lat == 1 && x != math.Trunc(x) {
				return false, fmt.Sprintf("draw %d = %v is not an integer", i, x)
			}
		}
		st.n["support"] += len(draws)
		return true, ""
	case "freq":
		var cut, p float64
		o := core.CallTimeout(20*time.Second, func() { cut, p = eval(obj, c.C).v, eval(obj, c.P).v })
		if o.Hung || o.Panicked {
			if e, isHarness := o.Val.(evalErr); isHarness {
				panic(e)
			}
			return false, "cut point / reference probability: " + o.Text
		}
		if math.IsNaN(cut) || math.IsNaN(p) {
			return false, fmt.Sprintf("cut point %v with reference probability %v", cut, p)
		}
		k := 0
		for _, x := range draws {
			if x <= cut {
				k++
			}
		}
		eps, _ := valueOf(c.V).Float64()
		f := float64(k) / float64(len(draws))
		st.n["freq"]++
		if r := math.Abs(f-p) / eps; r <= 1 && r > st.maxRatio["freq"] {
			st.maxRatio["freq"] = r
			st.worst["freq"] = fmt.Sprintf("%s %s: %d of %d draws <= %.6g, reference probability %.6g", where, c.ID, k, len(draws), cut, p)
		}
		if math.Abs(f-p) > eps {
			return false, fmt.Sprintf("%d of %d draws (%.4f) are <= %.10g, the law gives %.6f (allowed deviation %.3g)", k, len(draws), f, cut, p, eps)
		}
		return true, ""
	}
	bad("harness: unknown vector check %q", c.K)
	return false, ""
}
