package dist

import (
	"encoding/json"
	"fmt"
	"math"
	"math/rand/v2"
	"reflect"

	"gonum.org/v1/gonum/mat"
	"gonum.org/v1/gonum/spatial/r1"
	"gonum.org/v1/gonum/stat/distmat"
	"gonum.org/v1/gonum/stat/distmv"
	"gonum.org/v1/gonum/stat/samplemv"

	"gonum.org/v1/gonum/verifharness/internal/core"
)

// Multivariate / matrix samplers for the "samplemv" step of a dist-rat case (printed by
// specs/dist/MvLaws.tla, kind "rand").  An mvSamp holds, per way of drawing ("how"), a function
// that returns one draw as a flat vector; the step projects the draws on one coordinate and
// the checks of the case compare its empirical distribution function with the marginal law the
// specification names.  Parameters arrive as one flat list of printed values (integers here).
type mvSamp struct {
	draw map[string]func() []float64
}

func symFlat(n int, p []float64) *mat.SymDense {
	if len(p) != n*n {
		bad("harness: %d values for a %dx%d matrix", len(p), n, n)
	}
	s := mat.NewSymDense(n, nil)
	for i := 0; i < n; i++ {
		for j := i; j < n; j++ {
			if p[i*n+j] != p[j*n+i] {
				bad("harness: printed matrix is not symmetric")
			}
			s.SetSym(i, j, p[i*n+j])
		}
	}
	return s
}

func flatSym(s mat.Symmetric) []float64 {
	n := s.SymmetricDim()
	f := make([]float64, 0, n*n)
	for i := 0; i < n; i++ {
		for j := 0; j < n; j++ {
			f = append(f, s.At(i, j))
		}
	}
	return f
}

func init() {
	ratTypes["mvsamp"] = reflect.TypeOf(mvSamp{})
	one := func(f func() []float64) reflect.Value {
		return reflect.ValueOf(&mvSamp{draw: map[string]func() []float64{"Rand": f}})
	}
	// [n, mu (n), sigma (n*n)]
	ratCtors["distmv.Normal"] = func(p []float64, src rand.Source) reflect.Value {
		n := int(p[0])
		mu, sigma := p[1:1+n], symFlat(n, p[1+n:])
		d, ok := distmv.NewNormal(mu, sigma, src)
		if !ok {
			bad("harness: NewNormal rejects the printed covariance")
		}
		var chol mat.Cholesky
		chol.Factorize(sigma)
		var pchol mat.PivotedCholesky
		pchol.Factorize(sigma, -1)
		var es mat.EigenSym
		es.Factorize(sigma, true)
		dc := distmv.NewNormalChol(mu, &chol, src)
		return reflect.ValueOf(&mvSamp{draw: map[string]func() []float64{
			"Rand":                          func() []float64 { return d.Rand(nil) },
			"Rand:dst":                      func() []float64 { dst := make([]float64, n); d.Rand(dst); return dst },
			"NewNormalChol.Rand":            func() []float64 { return dc.Rand(nil) },
			"NormalRand":                    func() []float64 { return distmv.NormalRand(nil, mu, &chol, src) },
			"NormalRandCov:Cholesky":        func() []float64 { return distmv.NormalRandCov(nil, mu, &chol, src) },
			"NormalRandCov:PivotedCholesky": func() []float64 { return distmv.NormalRandCov(nil, mu, &pchol, src) },
			"NormalRandCov:EigenSym":        func() []float64 { return distmv.NormalRandCov(nil, mu, &es, src) },
			"NormalRandCov:PositivePartEigenSym": func() []float64 {
				return distmv.NormalRandCov(nil, mu, distmv.NewPositivePartEigenSym(&es), src)
			},
			"NormalRandCov:SymDense": func() []float64 { return distmv.NormalRandCov(nil, mu, sigma, src) },
		}})
	}
	// [n, nu, mu (n), sigma (n*n)]
	ratCtors["distmv.StudentsT"] = func(p []float64, src rand.Source) reflect.Value {
		n := int(p[0])
		d, ok := distmv.NewStudentsT(p[2:2+n], symFlat(n, p[2+n:]), p[1], src)
		if !ok {
			bad("harness: NewStudentsT rejects the printed covariance")
		}
		return one(func() []float64 { return d.Rand(nil) })
	}
	// [lo, hi, lo, hi, ..]
	ratCtors["distmv.Uniform"] = func(p []float64, src rand.Source) reflect.Value {
		b := make([]r1.Interval, len(p)/2)
		for i := range b {
			b[i] = r1.Interval{Min: p[2*i], Max: p[2*i+1]}
		}
		d := distmv.NewUniform(b, src)
		return one(func() []float64 { return d.Rand(nil) })
	}
	// [dim]
	ratCtors["distmv.UnitUniform"] = func(p []float64, src rand.Source) reflect.Value {
		d := distmv.NewUnitUniform(int(p[0]), src)
		return one(func() []float64 { return d.Rand(nil) })
	}
	// [alpha..]
	ratCtors["distmv.Dirichlet"] = func(p []float64, src rand.Source) reflect.Value {
		d := distmv.NewDirichlet(p, src)
		return one(func() []float64 { return d.Rand(nil) })
	}
	// [d, nu, v (d*d)]: a draw is the matrix, row-major
	ratCtors["distmat.Wishart"] = func(p []float64, src rand.Source) reflect.Value {
		n := int(p[0])
		w, ok := distmat.NewWishart(symFlat(n, p[2:]), p[1], src)
		if !ok {
			bad("harness: NewWishart rejects the printed scale matrix")
		}
		return reflect.ValueOf(&mvSamp{draw: map[string]func() []float64{
			"RandSymTo": func() []float64 {
				var s mat.SymDense
				w.RandSymTo(&s)
				return flatSym(&s)
			},
			"RandSymTo:dst": func() []float64 {
				s := mat.NewSymDense(n, nil)
				w.RandSymTo(s)
				return flatSym(s)
			},
			"RandCholTo": func() []float64 {
				var c mat.Cholesky
				w.RandCholTo(&c)
				var s mat.SymDense
				c.ToSym(&s)
				return flatSym(&s)
			},
		}})
	}
	// [dim]
	ratCtors["distmat.UnitVector"] = func(p []float64, src rand.Source) reflect.Value {
		u := distmat.NewUnitVector(src)
		n := int(p[0])
		return reflect.ValueOf(&mvSamp{draw: map[string]func() []float64{"UnitVecTo": func() []float64 {
			v := mat.NewVecDense(n, nil)
			u.UnitVecTo(v)
			return append([]float64(nil), v.RawVector().Data...)
		}}})
	}
	// [n, y (n), sigma (n*n)]: draws are ConditionalRand(., y)
	ratCtors["samplemv.ProposalNormal"] = func(p []float64, src rand.Source) reflect.Value {
		n := int(p[0])
		y := p[1 : 1+n]
		pn, ok := samplemv.NewProposalNormal(symFlat(n, p[1+n:]), src)
		if !ok {
			bad("harness: NewProposalNormal rejects the printed covariance")
		}
		return reflect.ValueOf(&mvSamp{draw: map[string]func() []float64{
			"ConditionalRand":     func() []float64 { return pn.ConditionalRand(nil, y) },
			"ConditionalRand:dst": func() []float64 { x := make([]float64, n); pn.ConditionalRand(x, y); return x },
		}})
	}
	for k := range ratCtors {
		if _, ok := ratTypes[k]; !ok {
			ratTypes[k] = reflect.TypeOf(mvSamp{})
		}
	}
}

// sampleMv is the "samplemv" step: n draws, projected on coordinate st.Salt2; it also records
// the sum and the sum of squares of the coordinates of every draw, whether every coordinate is
// finite, and for square draws (matrices) whether the matrix is symmetric positive definite.
func sampleMv(c *ratCase, st *ratStep, seed int64) {
	obj, err := buildObjSrc(c.Obj, rand.NewPCG(uint64(seed), uint64(st.Salt)))
	if err != nil {
		bad("%v", err)
	}
	ms, ok := obj.Interface().(*mvSamp)
	if !ok {
		bad("harness: %s is not a multivariate sampler", c.Obj.T)
	}
	f, ok := ms.draw[st.Kind]
	if !ok {
		bad("harness: %s cannot draw by %q", c.Obj.T, st.Kind)
	}
	draws := make([]float64, st.N)
	sums := make([]float64, st.N)
	sumsq := make([]float64, st.N)
	finite := make([]float64, st.N)
	spd := make([]float64, st.N)
	dim := 0
	o := core.CallTimeout(3*watchdog, func() {
		for i := range draws {
			x := f()
			if st.Comp >= len(x) {
				panic(fmt.Sprintf("draw has %d coordinates, coordinate %d wanted", len(x), st.Comp))
			}
			dim = len(x)
			draws[i] = x[st.Comp]
			finite[i] = 1
			for _, v := range x {
				sums[i] += v
				sumsq[i] += v * v
				if math.IsNaN(v) || math.IsInf(v, 0) {
					finite[i] = 0
				}
			}
			if st.Matrix > 0 {
				n := st.Matrix
				s := mat.NewSymDense(n, nil)
				sym := len(x) == n*n
				for a := 0; a < n && sym; a++ {
					for b := a; b < n; b++ {
						if x[a*n+b] != x[b*n+a] {
							sym = false
						}
						s.SetSym(a, b, x[a*n+b])
					}
				}
				var ch mat.Cholesky
				if sym && ch.Factorize(s) {
					spd[i] = 1
				}
			}
		}
	})
	if o.Hung {
		panic(fmt.Sprintf("%d draws did not return within %v", st.N, 3*watchdog))
	}
	if o.Panicked {
		panic(o.Val)
	}
	curEnv["draws"] = draws
	curEnv["sum"] = sums
	curEnv["sumsq"] = sumsq
	curEnv["finite"] = finite
	curEnv["spd"] = spd
	curEnv["dim"] = []float64{float64(dim)}
}

// ---- statistical distances of distmv as an expression node ----------------------------------

// mvOperand builds ["normal", [mu..], [[row]..]] | ["uniform", [[lo, hi]..]] | ["dirichlet", [alpha..]].
func mvOperand(raw json.RawMessage) reflect.Value {
	var n []json.RawMessage
	if err := json.Unmarshal(raw, &n); err != nil || len(n) < 2 {
		bad("harness: malformed multivariate operand %s", raw)
	}
	switch kind := str(n[0]); kind {
	case "normal":
		var mu []int64
		var sigma [][]int64
		if json.Unmarshal(n[1], &mu) != nil || len(n) < 3 || json.Unmarshal(n[2], &sigma) != nil {
			bad("harness: malformed normal operand %s", raw)
		}
		d, ok := distmv.NewNormal(floats(mu), symOf(sigma), nil)
		if !ok {
			bad("harness: NewNormal rejects the printed covariance %v", sigma)
		}
		return reflect.ValueOf(d)
	case "uniform":
		var box [][2]int64
		if json.Unmarshal(n[1], &box) != nil {
			bad("harness: malformed uniform operand %s", raw)
		}
		b := make([]r1.Interval, len(box))
		for i, iv := range box {
			b[i] = r1.Interval{Min: float64(iv[0]), Max: float64(iv[1])}
		}
		return reflect.ValueOf(distmv.NewUniform(b, nil))
	case "dirichlet":
		var al []int64
		if json.Unmarshal(n[1], &al) != nil {
			bad("harness: malformed dirichlet operand %s", raw)
		}
		return reflect.ValueOf(distmv.NewDirichlet(floats(al), nil))
	default:
		bad("harness: unknown multivariate operand kind %q", kind)
	}
	return reflect.Value{}
}

// mvDistance evaluates ["mvdist", "distmv.Renyi", "DistNormal", l, r, alpha?].
func mvDistance(obj reflect.Value, n []json.RawMessage) float64 {
	var d any
	switch t := str(n[1]); t {
	case "distmv.Bhattacharyya":
		d = distmv.Bhattacharyya{}
	case "distmv.CrossEntropy":
		d = distmv.CrossEntropy{}
	case "distmv.Hellinger":
		d = distmv.Hellinger{}
	case "distmv.KullbackLeibler":
		d = distmv.KullbackLeibler{}
	case "distmv.Wasserstein":
		d = distmv.Wasserstein{}
	case "distmv.Renyi":
		if len(n) < 6 {
			bad("harness: distmv.Renyi needs its order")
		}
		d = distmv.Renyi{Alpha: eval(obj, n[5]).v}
	default:
		bad("harness: unknown distance type %s", t)
	}
	m := reflect.ValueOf(d).MethodByName(str(n[2]))
	if !m.IsValid() {
		bad("harness: %s has no method %s", str(n[1]), str(n[2]))
	}
	return m.Call([]reflect.Value{mvOperand(n[3]), mvOperand(n[4])})[0].Float()
}
