package dist

import (
	"encoding/json"
	"fmt"
	"math"
	"math/big"
	"math/rand/v2"
	"reflect"
	"sort"
	"strings"
	"time"

	"gonum.org/v1/gonum/mathext"
	"gonum.org/v1/gonum/stat/distuv"

	"gonum.org/v1/gonum/verifharness/internal/core"
)

// dist-rat: interpreter for the tables printed by specs/dist/RationalLaws.tla and
// SpecialFunctions.tla.  A case names an object (Go type + float64 field values) and a list of
// checks; a check is an expression over method calls of that object (or of another object, or
// of package-level functions), the arithmetic nodes the specification wrote, and the exact
// rational the expression must equal.  The interpreter knows no law: it constructs the object by
// reflection, calls what the expression names and compares with the specification's rational
// through math/big within the tolerance class the specification chose.
func init() { core.RegisterReplay("dist-rat", replayRat) }

// types that can be named by a case; the float64 fields are set in declaration order.
var ratTypes = map[string]reflect.Type{
	"distuv.Beta":         reflect.TypeOf(distuv.Beta{}),
	"distuv.F":            reflect.TypeOf(distuv.F{}),
	"distuv.StudentsT":    reflect.TypeOf(distuv.StudentsT{}),
	"distuv.Normal":       reflect.TypeOf(distuv.Normal{}),
	"distuv.Laplace":      reflect.TypeOf(distuv.Laplace{}),
	"distuv.Logistic":     reflect.TypeOf(distuv.Logistic{}),
	"distuv.Pareto":       reflect.TypeOf(distuv.Pareto{}),
	"distuv.Exponential":  reflect.TypeOf(distuv.Exponential{}),
	"distuv.Gamma":        reflect.TypeOf(distuv.Gamma{}),
	"distuv.ChiSquared":   reflect.TypeOf(distuv.ChiSquared{}),
	"distuv.Chi":          reflect.TypeOf(distuv.Chi{}),
	"distuv.InverseGamma": reflect.TypeOf(distuv.InverseGamma{}),
	"distuv.Weibull":      reflect.TypeOf(distuv.Weibull{}),
	"distuv.LogNormal":    reflect.TypeOf(distuv.LogNormal{}),
	"distuv.GumbelRight":  reflect.TypeOf(distuv.GumbelRight{}),
	"distuv.Poisson":      reflect.TypeOf(distuv.Poisson{}),
	"distuv.Uniform":      reflect.TypeOf(distuv.Uniform{}),
	"distuv.Binomial":     reflect.TypeOf(distuv.Binomial{}),
	"distuv.Bernoulli":    reflect.TypeOf(distuv.Bernoulli{}),
	"distuv.AlphaStable":  reflect.TypeOf(distuv.AlphaStable{}),
	"distuv.Triangle":     reflect.TypeOf(distuv.Triangle{}), // built by NewTriangle (ratCtors)
	"mathext":             reflect.TypeOf(struct{}{}),        // cases made of package-level calls only
}

// types whose fields are not exported are built by their constructor from the printed values.
var ratCtors = map[string]func(p []float64, src rand.Source) reflect.Value{
	"distuv.Triangle": func(p []float64, src rand.Source) reflect.Value {
		if len(p) != 3 {
			bad("harness: distuv.Triangle takes 3 values, %d given", len(p))
		}
		v := reflect.New(reflect.TypeOf(distuv.Triangle{})).Elem()
		v.Set(reflect.ValueOf(distuv.NewTriangle(p[0], p[1], p[2], src)))
		return v
	},
}

// the statistical distance types of distuv that a "dist" node can name.
var ratDists = map[string]any{
	"distuv.Bhattacharyya":   distuv.Bhattacharyya{},
	"distuv.Hellinger":       distuv.Hellinger{},
	"distuv.KullbackLeibler": distuv.KullbackLeibler{},
}

// package-level functions that can be named by an "f" node.
var ratFuncs = map[string]any{
	"mathext.Beta":               mathext.Beta,
	"mathext.Lbeta":              mathext.Lbeta,
	"mathext.RegIncBeta":         mathext.RegIncBeta,
	"mathext.InvRegIncBeta":      mathext.InvRegIncBeta,
	"mathext.Digamma":            mathext.Digamma,
	"mathext.GammaIncReg":        mathext.GammaIncReg,
	"mathext.GammaIncRegComp":    mathext.GammaIncRegComp,
	"mathext.GammaIncRegInv":     mathext.GammaIncRegInv,
	"mathext.GammaIncRegCompInv": mathext.GammaIncRegCompInv,
	"mathext.Zeta":               mathext.Zeta,
	"mathext.NormalQuantile":     mathext.NormalQuantile,
	"mathext.EllipticRF":         mathext.EllipticRF,
	"mathext.EllipticRD":         mathext.EllipticRD,
	"mathext.EllipticF":          mathext.EllipticF,
	"mathext.EllipticE":          mathext.EllipticE,
	"mathext.CompleteK":          mathext.CompleteK,
	"mathext.CompleteE":          mathext.CompleteE,
	"mathext.CompleteB":          mathext.CompleteB,
	"mathext.CompleteD":          mathext.CompleteD,
	"mathext.MvLgamma":           mathext.MvLgamma,
}

type ratObj struct {
	T string     `json:"t"`
	P [][3]int64 `json:"p"`
}

type ratCheck struct {
	ID  string          `json:"id"`
	E   json.RawMessage `json:"e"`
	K   string          `json:"k"` // rat | pinf | ninf | nan | panic | sign | support | freq
	V   [3]int64        `json:"v"`
	Tol string          `json:"tol"`
	// k = support: every element of the vector named by E = ["v", name] lies in [Lo, Hi] (expressions; the
	// closure of the support) and is an integer if Lat = 1.  k = freq: the fraction of the elements that are
	// <= C (expression) is within V of P (expression): the empirical distribution function at C.
	Lo  json.RawMessage `json:"lo,omitempty"`
	Hi  json.RawMessage `json:"hi,omitempty"`
	Lat int             `json:"lat,omitempty"`
	C   json.RawMessage `json:"c,omitempty"`
	P   json.RawMessage `json:"p,omitempty"`
}

type ratCase struct {
	Obj    ratObj     `json:"obj"`
	Steps  []ratStep  `json:"steps,omitempty"`
	Checks []ratCheck `json:"checks"`
	// Alts: alternative check lists (the two orientations of a sampler); the case holds when all
	// checks of at least one alternative hold.
	Alts [][]ratCheck `json:"alts,omitempty"`
}

// valueOf decodes the printed value n/d * 2^e exactly.
func valueOf(v [3]int64) *big.Rat {
	r := big.NewRat(v[0], v[1])
	if v[2] > 0 {
		r.Mul(r, new(big.Rat).SetInt(new(big.Int).Lsh(big.NewInt(1), uint(v[2]))))
	} else if v[2] < 0 {
		r.Quo(r, new(big.Rat).SetInt(new(big.Int).Lsh(big.NewInt(1), uint(-v[2]))))
	}
	return r
}

// floatOf is the float64 nearest to n/d, times 2^e.
func floatOf(n, d, e int64) float64 {
	return math.Ldexp(float64(n)/float64(d), int(e))
}

func buildObj(o ratObj) (reflect.Value, error) { return buildObjSrc(o, nil) }

// buildObjSrc builds the object with the given random source (nil: the default source).
func buildObjSrc(o ratObj, src rand.Source) (rv reflect.Value, err error) {
	t, ok := ratTypes[o.T]
	if !ok {
		return reflect.Value{}, fmt.Errorf("harness: unknown type %q", o.T)
	}
	if ctor, ok := ratCtors[o.T]; ok {
		p := make([]float64, len(o.P))
		for i, x := range o.P {
			p[i] = floatOf(x[0], x[1], x[2])
		}
		// a constructor that rejects the printed parameters is a malformed table
		out := core.Call(func() { rv = ctor(p, src) })
		if out.Panicked {
			return reflect.Value{}, fmt.Errorf("harness: constructor of %s%v panicked: %s", o.T, p, out.Text)
		}
		return rv, nil
	}
	v := reflect.New(t).Elem()
	if src != nil {
		f := v.FieldByName("Src")
		if !f.IsValid() {
			return reflect.Value{}, fmt.Errorf("harness: %s has no Src field", o.T)
		}
		f.Set(reflect.ValueOf(src))
	}
	k := 0
	for i := 0; i < t.NumField(); i++ {
		if t.Field(i).Type.Kind() != reflect.Float64 {
			continue
		}
		if k >= len(o.P) {
			return reflect.Value{}, fmt.Errorf("harness: %s has more float64 fields than the %d values given", o.T, len(o.P))
		}
		v.Field(i).SetFloat(floatOf(o.P[k][0], o.P[k][1], o.P[k][2]))
		k++
	}
	if k != len(o.P) {
		return reflect.Value{}, fmt.Errorf("harness: %s has %d float64 fields, %d values given", o.T, k, len(o.P))
	}
	return v, nil
}

// ev is the value of an expression together with the magnitude against which a rounding error
// of its evaluation has to be measured (first-order propagation: the largest operand of a
// sum, carried through products and quotients).
type ev struct{ v, s float64 }

type evalErr struct{ msg string }

func bad(format string, a ...any) { panic(evalErr{fmt.Sprintf(format, a...)}) }

func callFloat(fn reflect.Value, name string, args []float64) float64 {
	ft := fn.Type()
	if ft.NumIn() != len(args) {
		bad("harness: %s takes %d arguments, %d given", name, ft.NumIn(), len(args))
	}
	in := make([]reflect.Value, len(args))
	for i, a := range args {
		switch ft.In(i).Kind() {
		case reflect.Float64:
			in[i] = reflect.ValueOf(a)
		case reflect.Int:
			in[i] = reflect.ValueOf(int(a))
		default:
			bad("harness: %s: unsupported parameter type %s", name, ft.In(i))
		}
	}
	out := fn.Call(in)
	if len(out) != 1 {
		bad("harness: %s returns %d values", name, len(out))
	}
	switch out[0].Kind() {
	case reflect.Float64:
		return out[0].Float()
	case reflect.Int:
		return float64(out[0].Int())
	}
	bad("harness: %s: unsupported result type %s", name, out[0].Type())
	return 0
}

func method(obj reflect.Value, name string) reflect.Value {
	m := obj.MethodByName(name)
	if !m.IsValid() && obj.CanAddr() {
		m = obj.Addr().MethodByName(name)
	}
	if !m.IsValid() {
		bad("harness: %s has no method %s", obj.Type(), name)
	}
	return m
}

func str(raw json.RawMessage) string {
	var s string
	if err := json.Unmarshal(raw, &s); err != nil {
		bad("harness: expected a string, got %s", raw)
	}
	return s
}

func num(raw json.RawMessage) int64 {
	var n int64
	if err := json.Unmarshal(raw, &n); err != nil {
		bad("harness: expected an integer, got %s", raw)
	}
	return n
}

func eval(obj reflect.Value, raw json.RawMessage) ev {
	var n []json.RawMessage
	if err := json.Unmarshal(raw, &n); err != nil || len(n) == 0 {
		bad("harness: malformed expression %s", raw)
	}
	args := func(from int) ([]float64, float64) {
		a := make([]float64, 0, len(n)-from)
		for _, r := range n[from:] {
			a = append(a, eval(obj, r).v)
		}
		return a, 0
	}
	leaf := func(v float64) ev { return ev{v, math.Abs(v)} }
	switch op := str(n[0]); op {
	case "q":
		return leaf(floatOf(num(n[1]), num(n[2]), num(n[3])))
	case "inf":
		return leaf(math.Inf(int(num(n[1]))))
	case "nan":
		return leaf(math.NaN())
	case "m":
		a, _ := args(2)
		return leaf(callFloat(method(obj, str(n[1])), str(n[1]), a))
	case "ms": // method with a leading nil []float64 destination returning a slice; element n[2]
		a, _ := args(3)
		m := method(obj, str(n[1]))
		in := []reflect.Value{reflect.ValueOf([]float64(nil))}
		for _, x := range a {
			in = append(in, reflect.ValueOf(x))
		}
		out := m.Call(in)
		res, ok := out[0].Interface().([]float64)
		if !ok || int(num(n[2])) >= len(res) {
			bad("harness: %s did not return a long enough []float64", str(n[1]))
		}
		return leaf(res[num(n[2])])
	case "om":
		var o ratObj
		o.T = str(n[1])
		if err := json.Unmarshal(n[2], &o.P); err != nil {
			bad("harness: malformed object parameters %s", n[2])
		}
		other, err := buildObj(o)
		if err != nil {
			bad("%v", err)
		}
		a := make([]float64, 0, len(n)-4)
		for _, r := range n[4:] {
			a = append(a, eval(obj, r).v)
		}
		return leaf(callFloat(method(other, str(n[3])), str(n[3]), a))
	case "v": // element n[2] of the environment vector n[1] (set by a step of the case)
		vec, ok := curEnv[str(n[1])]
		if !ok || int(num(n[2])) >= len(vec) {
			bad("harness: no element %d of environment vector %q", num(n[2]), str(n[1]))
		}
		return leaf(vec[num(n[2])])
	case "fld": // exported float64 field of the case's object
		f := obj.FieldByName(str(n[1]))
		if !f.IsValid() || f.Kind() != reflect.Float64 {
			bad("harness: %s has no float64 field %s", obj.Type(), str(n[1]))
		}
		return leaf(f.Float())
	case "dist": // ["dist", "distuv.Hellinger", "DistNormal", [t, p], [t, p]]
		d, ok := ratDists[str(n[1])]
		if !ok {
			bad("harness: unknown distance type %s", str(n[1]))
		}
		m := reflect.ValueOf(d).MethodByName(str(n[2]))
		if !m.IsValid() {
			bad("harness: %s has no method %s", str(n[1]), str(n[2]))
		}
		in := make([]reflect.Value, 2)
		for k := 0; k < 2; k++ {
			var pair []json.RawMessage
			if err := json.Unmarshal(n[3+k], &pair); err != nil || len(pair) != 2 {
				bad("harness: malformed distance operand %s", n[3+k])
			}
			var o ratObj
			o.T = str(pair[0])
			if err := json.Unmarshal(pair[1], &o.P); err != nil {
				bad("harness: malformed object parameters %s", pair[1])
			}
			v, err := buildObj(o)
			if err != nil {
				bad("%v", err)
			}
			in[k] = v
		}
		return leaf(m.Call(in)[0].Float())
	case "f":
		f, ok := ratFuncs[str(n[1])]
		if !ok {
			bad("harness: unknown function %s", str(n[1]))
		}
		a, _ := args(2)
		return leaf(callFloat(reflect.ValueOf(f), str(n[1]), a))
	case "add", "sub":
		a, b := eval(obj, n[1]), eval(obj, n[2])
		v := a.v + b.v
		if op == "sub" {
			v = a.v - b.v
		}
		return ev{v, math.Max(math.Max(a.s, b.s), math.Abs(v))}
	case "mul":
		a, b := eval(obj, n[1]), eval(obj, n[2])
		return ev{a.v * b.v, a.s * b.s}
	case "div":
		a, b := eval(obj, n[1]), eval(obj, n[2])
		v := a.v / b.v
		s := a.s / math.Abs(b.v) * (b.s / math.Abs(b.v))
		if math.IsNaN(s) {
			s = math.Abs(v)
		}
		return ev{v, s}
	case "neg":
		a := eval(obj, n[1])
		return ev{-a.v, a.s}
	case "exp":
		a := eval(obj, n[1])
		v := math.Exp(a.v)
		// an absolute error d of the argument is a relative error d of the value
		return ev{v, math.Abs(v) * math.Max(1, a.s)}
	case "sqrt":
		a := eval(obj, n[1])
		v := math.Sqrt(a.v)
		return ev{v, math.Max(math.Abs(v), a.s/(2*math.Abs(v)))}
	case "mvdist":
		return leaf(mvDistance(obj, n))
	case "mvm": // ["mvm", operand, "Entropy" | "LogProbAtMean" | "Dim"]
		o := mvOperand(n[1])
		switch f := str(n[2]); f {
		case "LogProbAtMean":
			mean := o.MethodByName("Mean").Call([]reflect.Value{reflect.ValueOf([]float64(nil))})[0]
			return leaf(o.MethodByName("LogProb").Call([]reflect.Value{mean})[0].Float())
		default:
			return leaf(callFloat(o.MethodByName(f), f, nil))
		}
	case "log":
		a := eval(obj, n[1])
		v := math.Log(a.v)
		// a relative error d of the argument is an absolute error d of the value
		return ev{v, math.Max(math.Abs(v), a.s/math.Abs(a.v))}
	default:
		bad("harness: unknown expression node %q", op)
	}
	return ev{}
}

// tolerance classes: relative bound (of max(|want|, scale)) and absolute floor.
var tolClass = map[string][2]float64{
	"ops":     {8 * 0x1p-52, 0},
	"tight":   {1e-13, 1e-300},
	"special": {1e-10, 1e-300},
	"prob":    {1e-10, 1e-300}, // of max(|want|, 1)
	"inverse": {1e-8, 1e-300},
	"coarse":  {1e-8, 1e-300},
}

type ratStats struct {
	maxRatio map[string]float64
	worst    map[string]string
	n        map[string]int
	seen     map[string]bool // signatures already reported
	drift    []string        // cases skipped because the random source was consumed differently
}

func newRatStats() *ratStats {
	return &ratStats{maxRatio: map[string]float64{}, worst: map[string]string{}, n: map[string]int{}, seen: map[string]bool{}}
}

func exprString(raw json.RawMessage) string {
	s := string(raw)
	s = strings.ReplaceAll(s, "\"", "")
	if len(s) > 160 {
		s = s[:160] + "..."
	}
	return s
}

func (c *ratCheck) verdict(obj reflect.Value, st *ratStats, where string) (bool, string) {
	if c.K == "support" || c.K == "freq" {
		return c.vectorCheck(obj, st, where)
	}
	var r ev
	o := core.CallTimeout(20*time.Second, func() { r = eval(obj, c.E) })
	if o.Hung {
		return false, "did not return within 20s"
	}
	if o.Panicked {
		if e, isHarness := o.Val.(evalErr); isHarness {
			panic(e)
		}
		if c.K == "panic" {
			if o.Runtime {
				return false, "runtime error instead of the documented panic: " + o.Text
			}
			return true, ""
		}
		return false, "panicked: " + o.Text
	}
	got := r.v
	switch c.K {
	case "panic":
		return false, fmt.Sprintf("returned %v, the documentation says it panics", got)
	case "pinf":
		if !math.IsInf(got, 1) {
			return false, fmt.Sprintf("= %v, want +Inf", got)
		}
		return true, ""
	case "ninf":
		if !math.IsInf(got, -1) {
			return false, fmt.Sprintf("= %v, want -Inf", got)
		}
		return true, ""
	case "nan":
		if !math.IsNaN(got) {
			return false, fmt.Sprintf("= %v, want NaN", got)
		}
		return true, ""
	case "sign":
		sg := 0
		if got > 0 {
			sg = 1
		} else if got < 0 {
			sg = -1
		}
		if math.IsNaN(got) || int64(sg) != c.V[0] {
			return false, fmt.Sprintf("= %v, want sign %d", got, c.V[0])
		}
		return true, ""
	case "rat":
	default:
		panic(evalErr{"harness: unknown check kind " + c.K})
	}
	want := valueOf(c.V)
	if math.IsNaN(got) || math.IsInf(got, 0) {
		return false, fmt.Sprintf("= %v, want %s", got, ratStr(want))
	}
	diff := new(big.Rat).SetFloat64(got)
	diff.Sub(diff, want)
	diff.Abs(diff)
	st.n[c.Tol]++
	if c.Tol == "exact" {
		if diff.Sign() != 0 {
			return false, fmt.Sprintf("= %.17g, want exactly %s", got, ratStr(want))
		}
		return true, ""
	}
	cl, ok := tolClass[c.Tol]
	if !ok {
		panic(evalErr{"harness: unknown tolerance class " + c.Tol})
	}
	wf, _ := new(big.Rat).Abs(want).Float64()
	ref := math.Max(wf, r.s)
	if math.IsInf(ref, 0) || math.IsNaN(ref) {
		ref = wf
	}
	if c.Tol == "prob" {
		ref = math.Max(ref, 1)
	}
	tol := cl[0]*ref + cl[1]
	if c.Tol == "ops" && tol == 0 {
		tol = 8 * 0x1p-1074
	}
	df, _ := diff.Float64()
	ratio := df / tol
	if ratio <= 1 && ratio > st.maxRatio[c.Tol] { // largest ratio among the checks that hold
		st.maxRatio[c.Tol] = ratio
		st.worst[c.Tol] = fmt.Sprintf("%s %s %s = %.17g want %s", where, c.ID, exprString(c.E), got, ratStr(want))
	}
	if diff.Cmp(new(big.Rat).SetFloat64(tol)) > 0 {
		return false, fmt.Sprintf("= %.17g, want %s within %.3g (class %s; error %.3g)", got, ratStr(want), tol, c.Tol, df)
	}
	return true, ""
}

// sig3 rounds to three significant digits (for the evidence file).
func sig3(x float64) float64 {
	if x == 0 || math.IsNaN(x) || math.IsInf(x, 0) {
		return x
	}
	m := math.Pow(10, 2-math.Floor(math.Log10(math.Abs(x))))
	return math.Round(x*m) / m
}

// stepString is a short rendering of the steps of a case for messages.
func stepString(steps []ratStep) string {
	var b strings.Builder
	for i, st := range steps {
		if i > 0 {
			b.WriteString("; ")
		}
		switch st.Op {
		case "let":
			fmt.Fprintf(&b, "%s=%v", st.Name, vecOf(st.Vals))
		case "call":
			a := make([]string, len(st.Args))
			for k, r := range st.Args {
				a[k] = exprString(r)
			}
			fmt.Fprintf(&b, "%s(%s)", st.Fn, strings.Join(a, ", "))
		case "rand":
			fmt.Fprintf(&b, "Rand with source words %v (%s variate)", st.Words, st.Kind)
		case "sample":
			fmt.Fprintf(&b, "%d draws (PCG stream %d)", st.N, st.Salt)
		case "samplemv":
			fmt.Fprintf(&b, "%d draws by %s (PCG stream %d), coordinate %d", st.N, st.Kind, st.Salt, st.Comp)
		}
	}
	s := b.String()
	if len(s) > 300 {
		s = s[:300] + "..."
	}
	return s
}

func objString(o ratObj) string {
	var b strings.Builder
	b.WriteString(o.T)
	b.WriteString("{")
	for i, p := range o.P {
		if i > 0 {
			b.WriteString(", ")
		}
		b.WriteString(valueOf(p).RatString())
	}
	b.WriteString("}")
	return b.String()
}

func replayRat(in *core.Lines, args []string, seed int64, sum *core.Summary) error {
	st := newRatStats()
	var herr error
	for herr == nil {
		b, ok := in.Next()
		if !ok {
			break
		}
		var c ratCase
		if err := json.Unmarshal(b, &c); err != nil {
			return fmt.Errorf("line %d: %v", in.N, err)
		}
		obj, err := buildObj(c.Obj)
		if err != nil {
			return fmt.Errorf("line %d: %v", in.N, err)
		}
		sum.Cases++
		if len(c.Checks) > 0 || len(c.Alts) > 0 {
			sum.Nontrivial++
		}
		if in.N%23 == 1 {
			small := c
			if len(small.Checks) > 4 {
				small.Checks = small.Checks[:4]
			}
			sum.Sample(small)
		}
		where := objString(c.Obj)
		func() {
			// a malformed table is a failure of the machinery, never a verdict on gonum
			defer func() {
				if r := recover(); r != nil {
					if e, ok := r.(evalErr); ok {
						herr = fmt.Errorf("line %d: %s", in.N, e.msg)
						return
					}
					panic(r)
				}
			}()
			curEnv = map[string][]float64{}
			if len(c.Steps) > 0 {
				drift := false
				o := core.Call(func() { obj = runSteps(&c, obj, seed) })
				if o.Panicked {
					switch e := o.Val.(type) {
					case evalErr:
						panic(e)
					case stepDrift:
						// another consumption pattern of the random source than the scripted one: not a verdict
						drift = true
						sum.Count("rand_protocol_drift", 1)
						st.drift = append(st.drift, where+": "+e.why)
					default:
						sig := "dist:" + c.Obj.T + ".steps:panic"
						sum.Count("failed_checks", 1)
						if !st.seen[sig] {
							st.seen[sig] = true
							one := c
							one.Checks = nil
							sum.Fail(sig, fmt.Sprintf("%s: %s: %s", where, stepString(c.Steps), o.Text), one)
						}
						drift = true
					}
				}
				if drift {
					return
				}
				where += " after " + stepString(c.Steps)
			}
			if len(c.Alts) > 0 {
				sum.Count("checks", 1)
				var msgs []string
				held := -1
				for a, alt := range c.Alts {
					all := true
					for i := range alt {
						if ok, msg := alt[i].verdict(obj, st, where); !ok {
							all = false
							msgs = append(msgs, fmt.Sprintf("%s: %s %s", alt[i].ID, exprString(alt[i].E), msg))
							break
						}
					}
					if all {
						held = a
						break
					}
				}
				if held >= 0 {
					sum.Count(fmt.Sprintf("orientation_%d", held+1), 1)
				} else {
					sig := "dist:" + c.Obj.T + "." + c.Alts[0][0].ID
					sum.Count("failed_checks", 1)
					if !st.seen[sig] {
						st.seen[sig] = true
						sum.Fail(sig, fmt.Sprintf("%s: env %v: neither orientation holds: %s", where, curEnv, strings.Join(msgs, " | ")), c)
					}
				}
			}
			for i := range c.Checks {
				ck := &c.Checks[i]
				sum.Count("checks", 1)
				if ok, msg := ck.verdict(obj, st, where); !ok {
					// one report per signature (the first failing check; it replays alone), the rest are counted
					sig := "dist:" + c.Obj.T + "." + ck.ID
					sum.Count("failed_checks", 1)
					if !st.seen[sig] {
						st.seen[sig] = true
						one := ratCase{Obj: c.Obj, Steps: c.Steps, Checks: []ratCheck{*ck}}
						sum.Fail(sig, fmt.Sprintf("%s: %s: %s %s", where, ck.ID, exprString(ck.E), msg), one)
					}
				}
			}
		}()
	}
	if herr != nil {
		return herr
	}
	if sum.Extra == nil {
		sum.Extra = map[string]any{}
	}
	keys := make([]string, 0, len(st.n))
	for k := range st.n {
		keys = append(keys, k)
	}
	sort.Strings(keys)
	if len(st.drift) > 0 {
		if len(st.drift) > 5 {
			st.drift = st.drift[:5]
		}
		sum.Extra["rand_protocol_drift_examples"] = st.drift
	}
	for _, k := range keys {
		sum.Extra["checks_"+k] = st.n[k]
		if k != "exact" && k != "support" {
			sum.Extra["max_error_over_tolerance_"+k] = sig3(st.maxRatio[k])
			sum.Extra["worst_"+k] = st.worst[k]
		}
	}
	return nil
}
