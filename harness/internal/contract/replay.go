package contract

import (
	"encoding/json"
	"fmt"
	"sort"
	"strings"

	"gonum.org/v1/gonum/verifharness/internal/core"
)

// replay reads the lines printed by the contract generators. Three kinds of lines:
//
//	{"meta":"blas", ...}        per-family facts printed by the specification (operands, clauses)
//	["gemv",[...],[...],...]    a BLAS tuple of the family announced by the latest meta line
//	{"kind":"blas"|"lapack"|"mat", ...}   a self-contained tuple (failure re-run alone; LAPACK and mat tuples)
func replay(in *core.Lines, args []string, seed int64, sum *core.Summary) error {
	only := ""
	for _, a := range args {
		if strings.HasPrefix(a, "prec=") {
			only = a[5:]
		}
		if strings.HasPrefix(a, "build=") {
			buildName = a[6:]
		}
	}
	st := newStats()
	metas := map[string]*blasMeta{}
	pending := map[string][]json.RawMessage{}
	salt := int(seed%1000) * 13
	for {
		line, ok := in.Next()
		if !ok {
			break
		}
		raw := json.RawMessage(append([]byte(nil), line...))
		salt++
		var probe struct {
			Meta string `json:"meta"`
			Kind string `json:"kind"`
		}
		if line[0] == '{' {
			if err := json.Unmarshal(line, &probe); err != nil {
				return fmt.Errorf("line %d: %v", in.N, err)
			}
		}
		switch {
		case probe.Meta == "blas":
			var m blasMeta
			if err := json.Unmarshal(line, &m); err != nil {
				return fmt.Errorf("line %d: %v", in.N, err)
			}
			metas[m.R] = &m
			for _, r := range pending[m.R] {
				salt++
				if err := runBlas(&m, r, salt, only, sum, st); err != nil {
					return err
				}
			}
			delete(pending, m.R)
		case probe.Meta == "lapack":
			var m lapackMeta
			if err := json.Unmarshal(line, &m); err != nil {
				return fmt.Errorf("line %d: %v", in.N, err)
			}
			for _, cl := range m.Clauses {
				st.lapackClauses[m.R+"|"+cl] = true
			}
		case probe.Meta == "lquery" || probe.Meta == "matfact":
			// the routines / factorization types of the workspace-query grid: each needs a dispatch entry and
			// must be executed at least once
			var m struct {
				Routines []string `json:"routines"`
			}
			if err := json.Unmarshal(line, &m); err != nil {
				return fmt.Errorf("line %d: %v", in.N, err)
			}
			for _, r := range m.Routines {
				if probe.Meta == "matfact" {
					r = "mat." + r
				} else if _, ok := ltab[r]; !ok {
					return fmt.Errorf("line %d: the specification tabulates a workspace query for %s, which has no dispatch entry", in.N, r)
				}
				st.qAnnounced[r] = true
			}
		case line[0] == '[':
			var fam string
			var head []json.RawMessage
			if err := json.Unmarshal(line, &head); err != nil || len(head) == 0 || json.Unmarshal(head[0], &fam) != nil {
				return fmt.Errorf("line %d: not a tuple", in.N)
			}
			m, ok := metas[fam]
			if !ok {
				pending[fam] = append(pending[fam], raw)
				continue
			}
			if err := runBlas(m, raw, salt, only, sum, st); err != nil {
				return fmt.Errorf("line %d: %v", in.N, err)
			}
		case probe.Kind == "blas":
			var s soloCase
			if err := json.Unmarshal(line, &s); err != nil {
				return fmt.Errorf("line %d: %v", in.N, err)
			}
			if err := runBlas(&s.Meta, s.Case, s.Salt, only, sum, st); err != nil {
				return fmt.Errorf("line %d: %v", in.N, err)
			}
		case probe.Kind == "lapack":
			if err := runLapack(raw, salt, sum, st); err != nil {
				return fmt.Errorf("line %d: %v", in.N, err)
			}
		case probe.Kind == "lquery":
			if err := runQuery(raw, salt, sum, st); err != nil {
				return fmt.Errorf("line %d: %v", in.N, err)
			}
		case probe.Kind == "matfact":
			if err := runMatFact(raw, salt, sum, st); err != nil {
				return fmt.Errorf("line %d: %v", in.N, err)
			}
		default:
			return fmt.Errorf("line %d: unknown line kind", in.N)
		}
	}
	if len(pending) > 0 {
		return fmt.Errorf("tuples of %d families without a meta line", len(pending))
	}
	// vacuity guard material: clauses of the decision table that were never the only violated clause
	never := []string{}
	for fam, m := range metas {
		for _, cl := range m.Clauses {
			if !st.sole[fam+"|"+cl] {
				never = append(never, fam+":"+cl)
			}
		}
	}
	for k := range st.lapackClauses {
		if !st.sole[k] {
			never = append(never, strings.Replace(k, "|", ":", 1))
		}
	}
	for r := range st.qAnnounced {
		if st.routines[r] == 0 {
			never = append(never, r+":workspace-query")
		}
	}
	sort.Strings(never)
	sum.Extra["clauses_never_sole"] = never
	sum.Count("gonum_calls", st.calls)
	sum.Count("disagreements_total", st.failures)
	for k, v := range st.byExp {
		sum.Count("expected_"+k, v)
	}
	for k, v := range st.byGot {
		sum.Count("observed_"+k, v)
	}
	sum.Count("either_returned", st.eitherOK)
	sum.Count("either_panicked", st.eitherPan)
	sum.Count("no_expectation", st.unspec)
	sum.Count("nil_operand_workspace_queries", st.nilQueries)
	if st.queries > 0 || st.matFact > 0 {
		sum.Count("workspace_queries", st.queries)
		sum.Count("calls_with_queried_workspace", st.queriedCalls)
		sum.Count("calls_with_minimum_workspace", st.minCalls)
		sum.Count("queried_larger_than_minimum", st.queryLarger)
		sum.Count("mat_factorizations", st.matFact)
		sum.Count("mat_factorizations_not_ok", st.matNotOK)
		sum.Count("largest_queried_lwork", st.maxQueried)
	}
	sum.Count("distinct_gonum_routines", len(st.routines))
	sum.Count("sole_clause_pairs_hit", len(st.sole))
	names := make([]string, 0, len(st.routines))
	for n := range st.routines {
		names = append(names, n)
	}
	sort.Strings(names)
	sum.Extra["routines"] = strings.Join(names, " ")
	if len(st.foreignMsg) > 0 {
		sum.Extra["foreign_panics"] = st.foreignMsg
	}
	return nil
}
