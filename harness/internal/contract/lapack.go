package contract

import (
	"encoding/json"
	"fmt"
	"math"
	"sort"
	"strings"

	gblas "gonum.org/v1/gonum/blas"
	"gonum.org/v1/gonum/blas/blas64"
	"gonum.org/v1/gonum/lapack"
	lgonum "gonum.org/v1/gonum/lapack/gonum"
	"gonum.org/v1/gonum/lapack/lapack64"

	"gonum.org/v1/gonum/verifharness/internal/core"
)

var limpl lgonum.Implementation

// lcall carries the arguments of one LAPACK call as the specification printed them.
type lcall struct {
	f     []int // flag codes in argument order
	d     []int // dimensions in argument order
	salt  int
	fl    map[string][]float64
	ld    map[string]int
	iv    map[string][]int
	bv    map[string][]bool
	inc   int
	lwork int
}

func (c *lcall) side(i int) gblas.Side       { return flagByte(c.f[i], legalSide, c.salt+i) }
func (c *lcall) trans(i int) gblas.Transpose { return flagByte(c.f[i], legalTrans, c.salt+i) }
func (c *lcall) uplo(i int) gblas.Uplo       { return flagByte(c.f[i], legalUplo, c.salt+i) }
func (c *lcall) diag(i int) gblas.Diag       { return flagByte(c.f[i], legalDiag, c.salt+i) }
func (c *lcall) direct(i int) lapack.Direct {
	return flagByte(c.f[i], []lapack.Direct{lapack.Forward, lapack.Backward}, c.salt+i)
}
func (c *lcall) storev(i int) lapack.StoreV {
	return flagByte(c.f[i], []lapack.StoreV{lapack.ColumnWise, lapack.RowWise}, c.salt+i)
}

func (c *lcall) uplo3(i int) gblas.Uplo {
	return flagByte(c.f[i], []gblas.Uplo{gblas.Upper, gblas.Lower, gblas.All}, c.salt+i)
}
func (c *lcall) svdjob(i int) lapack.SVDJob {
	return flagByte(c.f[i], []lapack.SVDJob{lapack.SVDAll, lapack.SVDStore, lapack.SVDNone}, c.salt+i)
}
func (c *lcall) evjob(i int) lapack.EVJob {
	return flagByte(c.f[i], []lapack.EVJob{lapack.EVNone, lapack.EVCompute}, c.salt+i)
}
func (c *lcall) levjob(i int) lapack.LeftEVJob {
	return flagByte(c.f[i], []lapack.LeftEVJob{lapack.LeftEVNone, lapack.LeftEVCompute}, c.salt+i)
}
func (c *lcall) revjob(i int) lapack.RightEVJob {
	return flagByte(c.f[i], []lapack.RightEVJob{lapack.RightEVNone, lapack.RightEVCompute}, c.salt+i)
}
func (c *lcall) norm4(i int) lapack.MatrixNorm {
	return flagByte(c.f[i], []lapack.MatrixNorm{lapack.MaxAbs, lapack.MaxColumnSum, lapack.MaxRowSum, lapack.Frobenius}, c.salt+i)
}
func (c *lcall) norm2(i int) lapack.MatrixNorm {
	return flagByte(c.f[i], []lapack.MatrixNorm{lapack.MaxColumnSum, lapack.MaxRowSum}, c.salt+i)
}
func (c *lcall) genortho(i int) lapack.GenOrtho {
	return flagByte(c.f[i], []lapack.GenOrtho{lapack.GenerateQ, lapack.GeneratePT}, c.salt+i)
}
func (c *lcall) applyortho(i int) lapack.ApplyOrtho {
	return flagByte(c.f[i], []lapack.ApplyOrtho{lapack.ApplyQ, lapack.ApplyP}, c.salt+i)
}
func (c *lcall) mtype3(i int) lapack.MatrixType {
	return flagByte(c.f[i], []lapack.MatrixType{lapack.General, lapack.UpperTri, lapack.LowerTri}, c.salt+i)
}
func (c *lcall) sort2(i int) lapack.Sort {
	return flagByte(c.f[i], []lapack.Sort{lapack.SortIncreasing, lapack.SortDecreasing}, c.salt+i)
}
func (c *lcall) boolean(i int) bool { return c.f[i] == 1 }
func (c *lcall) gsvdjob(i int, compute lapack.GSVDJob) lapack.GSVDJob {
	return flagByte(c.f[i], []lapack.GSVDJob{compute, lapack.GSVDNone}, c.salt+i)
}
func (c *lcall) schurjob(i int) lapack.SchurJob {
	return flagByte(c.f[i], []lapack.SchurJob{lapack.EigenvaluesOnly, lapack.EigenvaluesAndSchur}, c.salt+i)
}
func (c *lcall) schurcomp(i int) lapack.SchurComp {
	return flagByte(c.f[i], []lapack.SchurComp{lapack.SchurNone, lapack.SchurHess, lapack.SchurOrig}, c.salt+i)
}
func (c *lcall) evside(i int) lapack.EVSide {
	return flagByte(c.f[i], []lapack.EVSide{lapack.EVRight, lapack.EVLeft, lapack.EVBoth}, c.salt+i)
}
func (c *lcall) evhowmany(i int) lapack.EVHowMany {
	return flagByte(c.f[i], []lapack.EVHowMany{lapack.EVAll, lapack.EVAllMulQ, lapack.EVSelected}, c.salt+i)
}

// ltab passes the fields of a call to gonum in the argument order of the API. No arithmetic.
var ltab = map[string]func(c *lcall){
	"Dgels": func(c *lcall) {
		limpl.Dgels(c.trans(0), c.d[0], c.d[1], c.d[2], c.fl["a"], c.ld["a"], c.fl["b"], c.ld["b"], c.fl["work"], c.lwork)
	},
	"Dgesvd": func(c *lcall) {
		limpl.Dgesvd(c.svdjob(0), c.svdjob(1), c.d[0], c.d[1], c.fl["a"], c.ld["a"], c.fl["s"], c.fl["u"], c.ld["u"], c.fl["vt"], c.ld["vt"], c.fl["work"], c.lwork)
	},
	"Dsyev": func(c *lcall) {
		limpl.Dsyev(c.evjob(0), c.uplo(1), c.d[0], c.fl["a"], c.ld["a"], c.fl["w"], c.fl["work"], c.lwork)
	},
	"Dsytrd": func(c *lcall) {
		limpl.Dsytrd(c.uplo(0), c.d[0], c.fl["a"], c.ld["a"], c.fl["d"], c.fl["e"], c.fl["tau"], c.fl["work"], c.lwork)
	},
	"Dorgtr": func(c *lcall) {
		limpl.Dorgtr(c.uplo(0), c.d[0], c.fl["a"], c.ld["a"], c.fl["tau"], c.fl["work"], c.lwork)
	},
	"Dgeev": func(c *lcall) {
		limpl.Dgeev(c.levjob(0), c.revjob(1), c.d[0], c.fl["a"], c.ld["a"], c.fl["wr"], c.fl["wi"], c.fl["vl"], c.ld["vl"], c.fl["vr"], c.ld["vr"], c.fl["work"], c.lwork)
	},
	"Dtrcon": func(c *lcall) {
		limpl.Dtrcon(c.norm2(0), c.uplo(1), c.diag(2), c.d[0], c.fl["a"], c.ld["a"], c.fl["work"], c.iv["iwork"])
	},
	"Dgecon": func(c *lcall) { limpl.Dgecon(c.norm2(0), c.d[0], c.fl["a"], c.ld["a"], 1, c.fl["work"], c.iv["iwork"]) },
	"Dpocon": func(c *lcall) { limpl.Dpocon(c.uplo(0), c.d[0], c.fl["a"], c.ld["a"], 1, c.fl["work"], c.iv["iwork"]) },
	"Dlansy": func(c *lcall) { limpl.Dlansy(c.norm4(0), c.uplo(1), c.d[0], c.fl["a"], c.ld["a"], c.fl["work"]) },
	"Dgehrd": func(c *lcall) {
		limpl.Dgehrd(c.d[0], c.d[1], c.d[2], c.fl["a"], c.ld["a"], c.fl["tau"], c.fl["work"], c.lwork)
	},
	"Dorghr": func(c *lcall) {
		limpl.Dorghr(c.d[0], c.d[1], c.d[2], c.fl["a"], c.ld["a"], c.fl["tau"], c.fl["work"], c.lwork)
	},
	"Dgeqp3": func(c *lcall) {
		limpl.Dgeqp3(c.d[0], c.d[1], c.fl["a"], c.ld["a"], c.iv["jpvt"], c.fl["tau"], c.fl["work"], c.lwork)
	},
	"Dgebrd": func(c *lcall) {
		limpl.Dgebrd(c.d[0], c.d[1], c.fl["a"], c.ld["a"], c.fl["d"], c.fl["e"], c.fl["tauq"], c.fl["taup"], c.fl["work"], c.lwork)
	},
	"Dlacpy": func(c *lcall) { limpl.Dlacpy(c.uplo3(0), c.d[0], c.d[1], c.fl["a"], c.ld["a"], c.fl["b"], c.ld["b"]) },
	"Dlaset": func(c *lcall) { limpl.Dlaset(c.uplo3(0), c.d[0], c.d[1], 2, 3, c.fl["a"], c.ld["a"]) },
	"Dlange": func(c *lcall) { limpl.Dlange(c.norm4(0), c.d[0], c.d[1], c.fl["a"], c.ld["a"], c.fl["work"]) },
	"Dlantr": func(c *lcall) {
		limpl.Dlantr(c.norm4(0), c.uplo(1), c.diag(2), c.d[0], c.d[1], c.fl["a"], c.ld["a"], c.fl["work"])
	},
	"Dpbtrs": func(c *lcall) {
		limpl.Dpbtrs(c.uplo(0), c.d[0], c.d[1], c.d[2], c.fl["a"], c.ld["a"], c.fl["b"], c.ld["b"])
	},
	"Dpbtrf": func(c *lcall) { limpl.Dpbtrf(c.uplo(0), c.d[0], c.d[1], c.fl["a"], c.ld["a"]) },
	"Dtbtrs": func(c *lcall) {
		limpl.Dtbtrs(c.uplo(0), c.trans(1), c.diag(2), c.d[0], c.d[1], c.d[2], c.fl["a"], c.ld["a"], c.fl["b"], c.ld["b"])
	},
	"Dgtsv": func(c *lcall) { limpl.Dgtsv(c.d[0], c.d[1], c.fl["dl"], c.fl["d"], c.fl["du"], c.fl["b"], c.ld["b"]) },
	"Dptsv": func(c *lcall) { limpl.Dptsv(c.d[0], c.d[1], c.fl["d"], c.fl["e"], c.fl["b"], c.ld["b"]) },
	"Dorgbr": func(c *lcall) {
		limpl.Dorgbr(c.genortho(0), c.d[0], c.d[1], c.d[2], c.fl["a"], c.ld["a"], c.fl["tau"], c.fl["work"], c.lwork)
	},
	"Dormbr": func(c *lcall) {
		limpl.Dormbr(c.applyortho(0), c.side(1), c.trans(2), c.d[0], c.d[1], c.d[2], c.fl["a"], c.ld["a"], c.fl["tau"], c.fl["c"], c.ld["c"], c.fl["work"], c.lwork)
	},
	"Dormhr": func(c *lcall) {
		limpl.Dormhr(c.side(0), c.trans(1), c.d[0], c.d[1], c.d[2], c.d[3], c.fl["a"], c.ld["a"], c.fl["tau"], c.fl["c"], c.ld["c"], c.fl["work"], c.lwork)
	},
	"Dgetrf": func(c *lcall) { limpl.Dgetrf(c.d[0], c.d[1], c.fl["a"], c.ld["a"], c.iv["ipiv"]) },
	"Dgetf2": func(c *lcall) { limpl.Dgetf2(c.d[0], c.d[1], c.fl["a"], c.ld["a"], c.iv["ipiv"]) },
	"Dgetrs": func(c *lcall) {
		limpl.Dgetrs(c.trans(0), c.d[0], c.d[1], c.fl["a"], c.ld["a"], c.iv["ipiv"], c.fl["b"], c.ld["b"])
	},
	"Dgesv":  func(c *lcall) { limpl.Dgesv(c.d[0], c.d[1], c.fl["a"], c.ld["a"], c.iv["ipiv"], c.fl["b"], c.ld["b"]) },
	"Dgetri": func(c *lcall) { limpl.Dgetri(c.d[0], c.fl["a"], c.ld["a"], c.iv["ipiv"], c.fl["work"], c.lwork) },
	"Dpotrf": func(c *lcall) { limpl.Dpotrf(c.uplo(0), c.d[0], c.fl["a"], c.ld["a"]) },
	"Dpotf2": func(c *lcall) { limpl.Dpotf2(c.uplo(0), c.d[0], c.fl["a"], c.ld["a"]) },
	"Dpotri": func(c *lcall) { limpl.Dpotri(c.uplo(0), c.d[0], c.fl["a"], c.ld["a"]) },
	"Dpotrs": func(c *lcall) {
		limpl.Dpotrs(c.uplo(0), c.d[0], c.d[1], c.fl["a"], c.ld["a"], c.fl["b"], c.ld["b"])
	},
	"Dgeqrf": func(c *lcall) { limpl.Dgeqrf(c.d[0], c.d[1], c.fl["a"], c.ld["a"], c.fl["tau"], c.fl["work"], c.lwork) },
	"Dgelqf": func(c *lcall) { limpl.Dgelqf(c.d[0], c.d[1], c.fl["a"], c.ld["a"], c.fl["tau"], c.fl["work"], c.lwork) },
	"Dgeqr2": func(c *lcall) { limpl.Dgeqr2(c.d[0], c.d[1], c.fl["a"], c.ld["a"], c.fl["tau"], c.fl["work"]) },
	"Dgelq2": func(c *lcall) { limpl.Dgelq2(c.d[0], c.d[1], c.fl["a"], c.ld["a"], c.fl["tau"], c.fl["work"]) },
	"Dorgqr": func(c *lcall) {
		limpl.Dorgqr(c.d[0], c.d[1], c.d[2], c.fl["a"], c.ld["a"], c.fl["tau"], c.fl["work"], c.lwork)
	},
	"Dorglq": func(c *lcall) {
		limpl.Dorglq(c.d[0], c.d[1], c.d[2], c.fl["a"], c.ld["a"], c.fl["tau"], c.fl["work"], c.lwork)
	},
	"Dorg2r": func(c *lcall) { limpl.Dorg2r(c.d[0], c.d[1], c.d[2], c.fl["a"], c.ld["a"], c.fl["tau"], c.fl["work"]) },
	"Dorgl2": func(c *lcall) { limpl.Dorgl2(c.d[0], c.d[1], c.d[2], c.fl["a"], c.ld["a"], c.fl["tau"], c.fl["work"]) },
	"Dormqr": func(c *lcall) {
		limpl.Dormqr(c.side(0), c.trans(1), c.d[0], c.d[1], c.d[2], c.fl["a"], c.ld["a"], c.fl["tau"], c.fl["c"], c.ld["c"], c.fl["work"], c.lwork)
	},
	"Dormlq": func(c *lcall) {
		limpl.Dormlq(c.side(0), c.trans(1), c.d[0], c.d[1], c.d[2], c.fl["a"], c.ld["a"], c.fl["tau"], c.fl["c"], c.ld["c"], c.fl["work"], c.lwork)
	},
	"Dorm2r": func(c *lcall) {
		limpl.Dorm2r(c.side(0), c.trans(1), c.d[0], c.d[1], c.d[2], c.fl["a"], c.ld["a"], c.fl["tau"], c.fl["c"], c.ld["c"], c.fl["work"])
	},
	"Dorml2": func(c *lcall) {
		limpl.Dorml2(c.side(0), c.trans(1), c.d[0], c.d[1], c.d[2], c.fl["a"], c.ld["a"], c.fl["tau"], c.fl["c"], c.ld["c"], c.fl["work"])
	},
	"Dtrtri": func(c *lcall) { limpl.Dtrtri(c.uplo(0), c.diag(1), c.d[0], c.fl["a"], c.ld["a"]) },
	"Dtrti2": func(c *lcall) { limpl.Dtrti2(c.uplo(0), c.diag(1), c.d[0], c.fl["a"], c.ld["a"]) },
	"Dtrtrs": func(c *lcall) {
		limpl.Dtrtrs(c.uplo(0), c.trans(1), c.diag(2), c.d[0], c.d[1], c.fl["a"], c.ld["a"], c.fl["b"], c.ld["b"])
	},
	"Dlarft": func(c *lcall) {
		limpl.Dlarft(c.direct(0), c.storev(1), c.d[0], c.d[1], c.fl["v"], c.ld["v"], c.fl["tau"], c.fl["t"], c.ld["t"])
	},
	"Dlarfb": func(c *lcall) {
		limpl.Dlarfb(c.side(0), c.trans(1), c.direct(2), c.storev(3), c.d[0], c.d[1], c.d[2], c.fl["v"], c.ld["v"],
			c.fl["t"], c.ld["t"], c.fl["c"], c.ld["c"], c.fl["w"], c.ld["w"])
	},
	"Dlarf": func(c *lcall) {
		limpl.Dlarf(c.side(0), c.d[0], c.d[1], c.fl["x"], c.inc, 0.5, c.fl["c"], c.ld["c"], c.fl["work"])
	},
	// norm-type and auxiliary routines
	"Dlansb": func(c *lcall) {
		limpl.Dlansb(c.norm4(0), c.uplo(1), c.d[0], c.d[1], c.fl["a"], c.ld["a"], c.fl["work"])
	},
	"Dlantb": func(c *lcall) {
		limpl.Dlantb(c.norm4(0), c.uplo(1), c.diag(2), c.d[0], c.d[1], c.fl["a"], c.ld["a"], c.fl["work"])
	},
	"Dlangt": func(c *lcall) { limpl.Dlangt(c.norm4(0), c.d[0], c.fl["dl"], c.fl["d"], c.fl["du"]) },
	"Dlanst": func(c *lcall) { limpl.Dlanst(c.norm4(0), c.d[0], c.fl["d"], c.fl["e"]) },
	"Dlangb": func(c *lcall) {
		limpl.Dlangb(c.norm4(0), c.d[0], c.d[1], c.d[2], c.d[3], c.fl["a"], c.ld["a"])
	},
	"Dlanhs": func(c *lcall) { limpl.Dlanhs(c.norm4(0), c.d[0], c.fl["a"], c.ld["a"], c.fl["work"]) },
	"Dlascl": func(c *lcall) { limpl.Dlascl(c.mtype3(0), 0, 0, 2, 1, c.d[0], c.d[1], c.fl["a"], c.ld["a"]) },
	"Dlaswp": func(c *lcall) {
		limpl.Dlaswp(c.d[0], c.fl["a"], c.ld["a"], c.d[1], c.d[2], c.iv["ipiv"], c.inc)
	},
	"Dlapmt": func(c *lcall) { limpl.Dlapmt(c.boolean(0), c.d[0], c.d[1], c.fl["a"], c.ld["a"], c.iv["k"]) },
	"Dlapmr": func(c *lcall) { limpl.Dlapmr(c.boolean(0), c.d[0], c.d[1], c.fl["a"], c.ld["a"], c.iv["k"]) },
	"Drscl":  func(c *lcall) { limpl.Drscl(c.d[0], 2, c.fl["x"], c.inc) },
	"Dlassq": func(c *lcall) { limpl.Dlassq(c.d[0], c.fl["x"], c.inc, 0, 1) },
	"Dlasrt": func(c *lcall) { limpl.Dlasrt(c.sort2(0), c.d[0], c.fl["d"]) },
	"Dgeql2": func(c *lcall) { limpl.Dgeql2(c.d[0], c.d[1], c.fl["a"], c.ld["a"], c.fl["tau"], c.fl["work"]) },
	"Dgerq2": func(c *lcall) { limpl.Dgerq2(c.d[0], c.d[1], c.fl["a"], c.ld["a"], c.fl["tau"], c.fl["work"]) },
	"Dgehd2": func(c *lcall) {
		limpl.Dgehd2(c.d[0], c.d[1], c.d[2], c.fl["a"], c.ld["a"], c.fl["tau"], c.fl["work"])
	},
	"Dsytd2": func(c *lcall) {
		limpl.Dsytd2(c.uplo(0), c.d[0], c.fl["a"], c.ld["a"], c.fl["d"], c.fl["e"], c.fl["tau"])
	},
	"Dlauu2": func(c *lcall) { limpl.Dlauu2(c.uplo(0), c.d[0], c.fl["a"], c.ld["a"]) },
	"Dlauum": func(c *lcall) { limpl.Dlauum(c.uplo(0), c.d[0], c.fl["a"], c.ld["a"]) },
	"Dpttrf": func(c *lcall) { limpl.Dpttrf(c.d[0], c.fl["d"], c.fl["e"]) },
	"Dpttrs": func(c *lcall) { limpl.Dpttrs(c.d[0], c.d[1], c.fl["d"], c.fl["e"], c.fl["b"], c.ld["b"]) },
	"Dptcon": func(c *lcall) { limpl.Dptcon(c.d[0], c.fl["d"], c.fl["e"], 1, c.fl["work"]) },
	"Dgerqf": func(c *lcall) { limpl.Dgerqf(c.d[0], c.d[1], c.fl["a"], c.ld["a"], c.fl["tau"], c.fl["work"], c.lwork) },
	"Dorgql": func(c *lcall) {
		limpl.Dorgql(c.d[0], c.d[1], c.d[2], c.fl["a"], c.ld["a"], c.fl["tau"], c.fl["work"], c.lwork)
	},
	"Dorg2l": func(c *lcall) { limpl.Dorg2l(c.d[0], c.d[1], c.d[2], c.fl["a"], c.ld["a"], c.fl["tau"], c.fl["work"]) },
	"Dorgr2": func(c *lcall) { limpl.Dorgr2(c.d[0], c.d[1], c.d[2], c.fl["a"], c.ld["a"], c.fl["tau"], c.fl["work"]) },
	"Dormr2": func(c *lcall) {
		limpl.Dormr2(c.side(0), c.trans(1), c.d[0], c.d[1], c.d[2], c.fl["a"], c.ld["a"], c.fl["tau"], c.fl["c"], c.ld["c"], c.fl["work"])
	},
	"Dpbtf2": func(c *lcall) { limpl.Dpbtf2(c.uplo(0), c.d[0], c.d[1], c.fl["a"], c.ld["a"]) },
	"Dpbcon": func(c *lcall) {
		limpl.Dpbcon(c.uplo(0), c.d[0], c.d[1], c.fl["a"], c.ld["a"], 1, c.fl["work"], c.iv["iwork"])
	},
	"Dsterf": func(c *lcall) { limpl.Dsterf(c.d[0], c.fl["d"], c.fl["e"]) },
	"Dlarfg": func(c *lcall) { limpl.Dlarfg(c.d[0], 3, c.fl["x"], c.inc) },
	// routines of the workspace-query grid only (LapackQuery.tla)
	"Dggsvp3": func(c *lcall) {
		limpl.Dggsvp3(c.gsvdjob(0, lapack.GSVDU), c.gsvdjob(1, lapack.GSVDV), c.gsvdjob(2, lapack.GSVDQ), c.d[0], c.d[1], c.d[2],
			c.fl["a"], c.ld["a"], c.fl["b"], c.ld["b"], 1e-8, 1e-8, c.fl["u"], c.ld["u"], c.fl["v"], c.ld["v"], c.fl["q"], c.ld["q"],
			c.iv["iwork"], c.fl["tau"], c.fl["work"], c.lwork)
	},
	"Dggsvd3": func(c *lcall) {
		limpl.Dggsvd3(c.gsvdjob(0, lapack.GSVDU), c.gsvdjob(1, lapack.GSVDV), c.gsvdjob(2, lapack.GSVDQ), c.d[0], c.d[1], c.d[2],
			c.fl["a"], c.ld["a"], c.fl["b"], c.ld["b"], c.fl["alpha"], c.fl["beta"], c.fl["u"], c.ld["u"], c.fl["v"], c.ld["v"],
			c.fl["q"], c.ld["q"], c.fl["work"], c.lwork, c.iv["iwork"])
	},
	"Dhseqr": func(c *lcall) {
		limpl.Dhseqr(c.schurjob(0), c.schurcomp(1), c.d[0], c.d[1], c.d[2], c.fl["h"], c.ld["h"], c.fl["wr"], c.fl["wi"],
			c.fl["z"], c.ld["z"], c.fl["work"], c.lwork)
	},
	"Dlaqr04": func(c *lcall) {
		limpl.Dlaqr04(c.boolean(0), c.boolean(1), c.d[0], c.d[1], c.d[2], c.fl["h"], c.ld["h"], c.fl["wr"], c.fl["wi"],
			c.d[3], c.d[4], c.fl["z"], c.ld["z"], c.fl["work"], c.lwork, 1)
	},
	"Dlaqr23": func(c *lcall) {
		limpl.Dlaqr23(c.boolean(0), c.boolean(1), c.d[0], c.d[1], c.d[2], c.d[3], c.fl["h"], c.ld["h"], c.d[4], c.d[5], c.fl["z"], c.ld["z"],
			c.fl["sr"], c.fl["si"], c.fl["v"], c.ld["v"], c.d[6], c.fl["t"], c.ld["t"], c.d[7], c.fl["wv"], c.ld["wv"], c.fl["work"], c.lwork, c.f[2])
	},
	"Dtrevc3": func(c *lcall) {
		limpl.Dtrevc3(c.evside(0), c.evhowmany(1), c.bv["selected"], c.d[0], c.fl["t"], c.ld["t"], c.fl["vl"], c.ld["vl"],
			c.fl["vr"], c.ld["vr"], c.d[1], c.fl["work"], c.lwork)
	},
}

// named is a [name, len] or [name, len, ld] triple printed by the specification.
type named struct {
	Name string
	Len  int
	Ld   int
}

func (n *named) UnmarshalJSON(b []byte) error {
	var raw []json.RawMessage
	if err := json.Unmarshal(b, &raw); err != nil {
		return err
	}
	if len(raw) < 2 {
		return fmt.Errorf("operand triple too short")
	}
	if err := json.Unmarshal(raw[0], &n.Name); err != nil {
		return err
	}
	if err := json.Unmarshal(raw[1], &n.Len); err != nil {
		return err
	}
	if len(raw) > 2 {
		return json.Unmarshal(raw[2], &n.Ld)
	}
	return nil
}

type lapackCase struct {
	Kind    string   `json:"kind"`
	R       string   `json:"r"`
	F       []int    `json:"f"`
	D       []int    `json:"d"`
	Inc     int      `json:"inc"`
	Lwork   int      `json:"lwork"`
	Lwk     string   `json:"lwk"`
	Mats    []named  `json:"mats"`
	Vecs    []named  `json:"vecs"`
	IVecs   []named  `json:"ivecs"`
	Work    int      `json:"work"`
	Exp     string   `json:"exp"`
	NoWrite int      `json:"nowrite"`
	Hard    []string `json:"hard"`
	Soft    []string `json:"soft"`
}

type lapackMeta struct {
	R       string   `json:"r"`
	Clauses []string `json:"clauses"`
}

var (
	larena  []float64
	liarena []int
)

const intCanary = -0x5a5a5a5a

func runLapack(raw json.RawMessage, salt int, sum *core.Summary, st *cstats) error {
	var k lapackCase
	if err := json.Unmarshal(raw, &k); err != nil {
		return err
	}
	f, ok := ltab[k.R]
	if !ok {
		return fmt.Errorf("no dispatch entry for %s", k.R)
	}
	sum.Cases++
	if len(k.Hard) == 1 || (k.Exp == "OK" && k.NoWrite == 0) {
		sum.Nontrivial++
	}
	st.byExp[k.Exp]++
	if len(k.Hard) == 1 {
		st.sole[k.R+"|"+k.Hard[0]] = true
	}
	exec := func(name string, f func(*lcall)) {
		failed := false
		fail := func(kind, msg string) {
			detail := "multi"
			if len(k.Hard) == 1 {
				detail = k.Hard[0]
			} else if len(k.Hard) == 0 {
				detail = "valid"
				if len(k.Soft) > 0 {
					detail = "open"
				}
			}
			sig := fmt.Sprintf("contract:lapack:%s:%s:%s", name, kind, detail)
			switch kind {
			case "runtime-error", "foreign-panic", "valid-rejected", "out-of-slice-write", "hang":
				// which code path: the flag codes and the sign pattern of the dimensions
				sig += ":f=" + codes(k.F) + ":d=" + signs(k.D)
			}
			st.failures++
			failed = true
			key := sig + "|" + buildName
			if st.seen[key] {
				return
			}
			st.seen[key] = true
			sum.Fail(sig, fmt.Sprintf("%s [%s build] %s: %s", name, buildName, string(raw), msg), raw)
		}

		c := &lcall{f: k.F, d: k.D, salt: salt, fl: map[string][]float64{}, ld: map[string]int{}, iv: map[string][]int{}, inc: k.Inc, lwork: k.Lwork}
		hasWork := k.Lwk != "none"
		workLen := k.Work
		if k.Lwk == "opt" {
			// the routine's own workspace query supplies the value of lwork; the specification says how
			// long the work slice is relative to it
			q := *c
			q.fl = map[string][]float64{"work": make([]float64, 1)}
			q.ld = map[string]int{}
			for _, m := range k.Mats {
				q.ld[m.Name] = m.Ld
			}
			q.iv = map[string][]int{}
			q.lwork = -1
			// probe: the usual LAPACK idiom, a workspace query with nil matrices and vectors. The documentation
			// says a query only stores the optimal lwork in work[0]; a package panic is tolerated, a
			// runtime.Error is not.
			qo := core.Call(func() { f(&q) })
			st.nilQueries++
			opt := 1 << 12
			if !qo.Panicked {
				opt = int(q.fl["work"][0])
			} else {
				if qo.Runtime && k.Exp == "OK" {
					fail("nil-query-runtime-error", "workspace query (lwork=-1) of a legal call with nil matrices and vectors: "+qo.Text)
				}
				// second attempt with operands of the lengths of the tuple
				for _, m := range k.Mats {
					q.fl[m.Name] = ones(m.Len)
				}
				for _, v := range k.Vecs {
					q.fl[v.Name] = ones(v.Len)
				}
				for _, v := range k.IVecs {
					q.iv[v.Name] = make([]int, v.Len)
				}
				q.fl["work"] = make([]float64, 1)
				qo = core.Call(func() { f(&q) })
				if !qo.Panicked {
					opt = int(q.fl["work"][0])
				} else if k.Exp == "OK" {
					fail("query-rejected", "the workspace query of a legal call panicked: "+qo.Text)
				}
			}
			if opt < 1 || opt > 1<<20 {
				fail("query-value", fmt.Sprintf("workspace query returned %v", q.fl["work"][0]))
				opt = 1 << 12
			}
			c.lwork = opt
			workLen = opt + k.Work
			if workLen < 0 {
				workLen = 0
			}
		}

		// operands: floats in one arena, ints in another; cap == len; canary margins around each
		total := margin
		for _, m := range k.Mats {
			total += m.Len + margin
		}
		for _, v := range k.Vecs {
			total += v.Len + margin
		}
		if hasWork {
			total += workLen + margin
		}
		if len(larena) < total {
			larena = make([]float64, total+1<<12)
		}
		ar := larena[:total]
		canary := nan64(canaryCode)
		for i := range ar {
			ar[i] = canary
		}
		type span struct{ lo, hi int }
		spans := map[string]span{}
		off := margin
		carve := func(name string, n, ld int, tau bool) {
			s := ar[off : off+n : off+n]
			for j := range s {
				switch {
				case tau:
					s[j] = 0.5
				case name == "d":
					s[j] = float64(16 + (salt+j)%3) // diagonal of a tridiagonal matrix: dominant
				case ld > 0 && j%(ld+1) == 0:
					s[j] = float64(16 + (salt+j)%3) // strong diagonal: factorizations and solves stay regular
				default:
					s[j] = float64(1+(salt+3*j)%4) / 4
				}
			}
			c.fl[name] = s
			spans[name] = span{off, off + n}
			off += n + margin
		}
		for _, m := range k.Mats {
			carve(m.Name, m.Len, m.Ld, false)
			c.ld[m.Name] = m.Ld
		}
		for _, v := range k.Vecs {
			carve(v.Name, v.Len, 0, strings.HasPrefix(v.Name, "tau"))
		}
		if hasWork {
			carve("work", workLen, 0, false)
		}
		itotal := margin
		for _, v := range k.IVecs {
			itotal += v.Len + margin
		}
		if len(liarena) < itotal {
			liarena = make([]int, itotal+256)
		}
		iar := liarena[:itotal]
		for i := range iar {
			iar[i] = intCanary
		}
		ispans := map[string]span{}
		ioff := margin
		for _, v := range k.IVecs {
			s := iar[ioff : ioff+v.Len : ioff+v.Len]
			for j := range s {
				s[j] = j // a legal pivot sequence (no interchange)
			}
			c.iv[v.Name] = s
			ispans[v.Name] = span{ioff, ioff + v.Len}
			ioff += v.Len + margin
		}
		before := append([]float64(nil), ar...)
		ibefore := append([]int(nil), iar...)

		out := core.CallTimeout(20e9, func() { f(c) })
		if out.Hung {
			fail("hang", out.Text)
			return
		}
		got := classify(out, []string{"lapack: "}, "gonum.org/v1/gonum/lapack")
		if got == gotForeign {
			if s, isStr := out.Val.(string); isStr && strings.HasPrefix(s, "blas: ") {
				got = "PANIC_BLAS" // a BLAS argument panic escaping from a LAPACK routine
			}
		}
		st.calls++
		st.routines[name]++
		st.byGot[got]++

		opChanged := map[string]int{}
		workBeyond0 := false
		canaryHit := ""
		for i := range ar {
			if math.Float64bits(ar[i]) == math.Float64bits(before[i]) {
				continue
			}
			hit := ""
			for nm, sp := range spans {
				if i >= sp.lo && i < sp.hi {
					hit = nm
					if _, dup := opChanged[nm]; !dup {
						opChanged[nm] = i - sp.lo
					}
					if nm == "work" && i > sp.lo {
						workBeyond0 = true
					}
				}
			}
			if hit == "" && canaryHit == "" {
				canaryHit = fmt.Sprintf("float arena element %d (outside every operand; operands at %v) was written", i, spans)
			}
		}
		for i := range iar {
			if iar[i] == ibefore[i] {
				continue
			}
			hit := ""
			for nm, sp := range ispans {
				if i >= sp.lo && i < sp.hi {
					hit = nm
					if _, dup := opChanged[nm]; !dup {
						opChanged[nm] = i - sp.lo
					}
				}
			}
			if hit == "" && canaryHit == "" {
				canaryHit = fmt.Sprintf("int arena element %d (outside every operand) was written", i)
			}
		}
		if canaryHit != "" {
			fail("out-of-slice-write", canaryHit)
		}
		changed := func() string {
			var s []string
			for nm, i := range opChanged {
				s = append(s, fmt.Sprintf("%s[%d]", nm, i))
			}
			sort.Strings(s)
			return strings.Join(s, ",")
		}

		if k.Exp == "UNSPEC" { // no documented expectation: only the canaries are checked
			st.unspec++
			return
		}
		switch got {
		case gotRuntime:
			fail("runtime-error", fmt.Sprintf("expected %s, got a runtime.Error: %s", k.Exp, out.Text))
			return
		case gotForeign, "PANIC_BLAS":
			st.foreignMsg[name+": "+out.Text]++
			fail("foreign-panic", fmt.Sprintf("expected %s, got a panic that is not the package's own: %T %s", k.Exp, out.Val, out.Text))
			return
		}
		switch k.Exp {
		case "OK":
			if got != gotOK {
				if k.Lwk == "opt" && strings.Contains(out.Text, "workspace") {
					fail("opt-lwork-rejected", fmt.Sprintf("the routine's own workspace query returned lwork=%d, which the routine then rejects: %s", c.lwork, out.Text))
					return
				}
				fail("valid-rejected", "the contract is satisfied but the call panicked: "+out.Text)
				return
			}
		case "PANIC":
			if got != gotPkg {
				fail("invalid-accepted", fmt.Sprintf("violated %v but the call returned normally (operands changed: %q)", k.Hard, changed()))
				return
			}
		case "EITHER":
			if got == gotOK {
				st.eitherOK++
			} else {
				st.eitherPan++
			}
		default:
			fail("harness", "unknown expectation "+k.Exp)
			return
		}
		if got == gotPkg {
			// workspaces are scratch (several drivers store the optimal lwork in work[0] first): only
			// genuine operands count
			for nm := range opChanged {
				if nm != "work" && nm != "iwork" && nm != "w" {
					fail("write-before-panic", fmt.Sprintf("panicked (%s) after modifying %s", out.Text, changed()))
					break
				}
			}
		}
		if got == gotOK && (k.NoWrite == 1 || k.Lwork == -1 && hasWork) {
			// a zero-sized problem or a workspace query may write work[0] and nothing else
			for nm, i := range opChanged {
				if nm == "work" && i == 0 && hasWork && !workBeyond0 {
					continue
				}
				fail("write-on-noop", fmt.Sprintf("a call that addresses nothing modified %s", changed()))
				break
			}
		}
		if !failed && len(k.Hard) == 1 && salt%499 == 3 {
			sum.Sample(map[string]any{"routine": k.R, "tuple": raw})
		}
	}
	exec(k.R, f)
	// the lapack64 wrapper of the routine takes the same arguments packed in blas64 structs and passes
	// max(1, Stride) as the stride: same contract whenever every stride of the tuple is at least 1
	if w, ok := lwtab[k.R]; ok {
		for _, m := range k.Mats {
			if m.Ld < 1 {
				return nil
			}
		}
		exec("lapack64."+w.name, w.f)
	}
	return nil
}

func codes(f []int) string {
	var b strings.Builder
	for _, v := range f {
		fmt.Fprintf(&b, "%d", v)
	}
	return b.String()
}

func signs(d []int) string {
	var b strings.Builder
	for _, v := range d {
		switch {
		case v < 0:
			b.WriteByte('-')
		case v == 0:
			b.WriteByte('0')
		default:
			b.WriteByte('+')
		}
	}
	return b.String()
}

func ones(n int) []float64 {
	s := make([]float64, n)
	for i := range s {
		s[i] = 1
	}
	return s
}

// lwtab: the lapack64 wrappers of a few routines (pure argument passing).
var lwtab = map[string]struct {
	name string
	f    func(c *lcall)
}{
	"Dgels": {"Gels", func(c *lcall) {
		lapack64.Gels(c.trans(0), c.general("a", c.d[0], c.d[1]), c.general("b", 0, c.d[2]), c.fl["work"], c.lwork)
	}},
	"Dgesvd": {"Gesvd", func(c *lcall) {
		lapack64.Gesvd(c.svdjob(0), c.svdjob(1), c.general("a", c.d[0], c.d[1]), c.general("u", 0, 0), c.general("vt", 0, 0), c.fl["s"], c.fl["work"], c.lwork)
	}},
	"Dgetrf": {"Getrf", func(c *lcall) { lapack64.Getrf(c.general("a", c.d[0], c.d[1]), c.iv["ipiv"]) }},
	"Dgetrs": {"Getrs", func(c *lcall) {
		lapack64.Getrs(c.trans(0), c.general("a", c.d[0], c.d[0]), c.general("b", c.d[0], c.d[1]), c.iv["ipiv"])
	}},
	"Dgetri": {"Getri", func(c *lcall) { lapack64.Getri(c.general("a", c.d[0], c.d[0]), c.iv["ipiv"], c.fl["work"], c.lwork) }},
	"Dgeqrf": {"Geqrf", func(c *lcall) { lapack64.Geqrf(c.general("a", c.d[0], c.d[1]), c.fl["tau"], c.fl["work"], c.lwork) }},
	"Dlange": {"Lange", func(c *lcall) { lapack64.Lange(c.norm4(0), c.general("a", c.d[0], c.d[1]), c.fl["work"]) }},
	"Dsyev": {"Syev", func(c *lcall) {
		lapack64.Syev(c.evjob(0), blas64.Symmetric{Uplo: c.uplo(1), N: c.d[0], Data: c.fl["a"], Stride: c.ld["a"]}, c.fl["w"], c.fl["work"], c.lwork)
	}},
	"Dtrcon": {"Trcon", func(c *lcall) {
		lapack64.Trcon(c.norm2(0), blas64.Triangular{Uplo: c.uplo(1), Diag: c.diag(2), N: c.d[0], Data: c.fl["a"], Stride: c.ld["a"]}, c.fl["work"], c.iv["iwork"])
	}},
	"Dlansy": {"Lansy", func(c *lcall) {
		lapack64.Lansy(c.norm4(0), blas64.Symmetric{Uplo: c.uplo(1), N: c.d[0], Data: c.fl["a"], Stride: c.ld["a"]}, c.fl["work"])
	}},
	"Dlansb": {"Lansb", func(c *lcall) {
		lapack64.Lansb(c.norm4(0), blas64.SymmetricBand{Uplo: c.uplo(1), N: c.d[0], K: c.d[1], Data: c.fl["a"], Stride: c.ld["a"]}, c.fl["work"])
	}},
	"Dlantb": {"Lantb", func(c *lcall) {
		lapack64.Lantb(c.norm4(0), blas64.TriangularBand{Uplo: c.uplo(1), Diag: c.diag(2), N: c.d[0], K: c.d[1], Data: c.fl["a"], Stride: c.ld["a"]}, c.fl["work"])
	}},
	"Dlangb": {"Langb", func(c *lcall) {
		lapack64.Langb(c.norm4(0), blas64.Band{Rows: c.d[0], Cols: c.d[1], KL: c.d[2], KU: c.d[3], Data: c.fl["a"], Stride: c.ld["a"]})
	}},
	"Dlangt": {"Langt", func(c *lcall) {
		lapack64.Langt(c.norm4(0), lapack64.Tridiagonal{N: c.d[0], DL: c.fl["dl"], D: c.fl["d"], DU: c.fl["du"]})
	}},
	"Dlapmt": {"Lapmt", func(c *lcall) { lapack64.Lapmt(c.boolean(0), c.general("a", c.d[0], c.d[1]), c.iv["k"]) }},
	"Dlapmr": {"Lapmr", func(c *lcall) { lapack64.Lapmr(c.boolean(0), c.general("a", c.d[0], c.d[1]), c.iv["k"]) }},
}

func (c *lcall) general(name string, rows, cols int) blas64.General {
	return blas64.General{Rows: rows, Cols: cols, Data: c.fl[name], Stride: c.ld[name]}
}
