package contract

import (
	"encoding/json"
	"fmt"

	"gonum.org/v1/gonum/verifharness/internal/core"
)

func runLapack(raw json.RawMessage, salt int, sum *core.Summary, st *cstats) error {
	return fmt.Errorf("lapack tuples are not supported yet")
}
