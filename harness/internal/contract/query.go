package contract

import (
	"encoding/json"
	"fmt"
	"math"
	"sort"
	"strings"

	"gonum.org/v1/gonum/mat"

	"gonum.org/v1/gonum/verifharness/internal/core"
)

// The workspace-query grid of specs/contract/LapackQuery.tla. The specification prints, for one routine,
// one legal flag combination and one legal shape, the length, stride and fill pattern of every operand and
// the documented minimum lwork. The harness allocates the operands (cap == len inside a canary arena),
// issues the workspace query, then calls the routine with lwork = len(work) = the queried value and with
// lwork = len(work) = the documented minimum. The expectation of every step is "returns without a
// panic"; the query may change work[0] only. No expected values are computed here.

type qmat struct {
	Name string `json:"name"`
	Len  int    `json:"len"`
	Ld   int    `json:"ld"`
	Rows int    `json:"rows"`
	Cols int    `json:"cols"`
	Fill string `json:"fill"`
}

type qvec struct {
	Name string `json:"name"`
	Len  int    `json:"len"`
	Fill string `json:"fill"`
}

type queryCase struct {
	Kind     string `json:"kind"`
	R        string `json:"r"`
	F        []int  `json:"f"`
	D        []int  `json:"d"`
	MinLwork int    `json:"minlwork"`
	Block    []int  `json:"block"`
	Mats     []qmat `json:"mats"`
	Vecs     []qvec `json:"vecs"`
	IVecs    []qvec `json:"ivecs"`
	BVecs    []qvec `json:"bvecs"`
	Exp      string `json:"exp"`
}

// fillMat writes one of the fill patterns named by the specification. Values are irrelevant to the
// clause under test; the patterns keep the routines on their regular paths.
func fillMat(s []float64, m qmat, block []int, salt int) {
	for i := range s {
		s[i] = 7 // stride padding
	}
	for i := 0; i < m.Rows; i++ {
		for j := 0; j < m.Cols; j++ {
			x := i*m.Ld + j
			if x >= len(s) {
				continue
			}
			off := float64((3*i+5*j+salt)%5 - 2)
			var v float64
			switch m.Fill {
			case "ident":
				if i == j {
					v = 1
				}
			case "refl":
				v = off / 64
			case "upper", "hess", "dom":
				v = off
				if i == j {
					v = float64(4*(m.Rows+m.Cols) + 3*i + 1)
				}
				if m.Fill == "upper" && i > j {
					v = 0
				}
				if m.Fill == "hess" {
					switch {
					case i > j+1:
						v = 0
					case i == j+1:
						v = 2
						if len(block) == 2 && (i <= block[0] || i > block[1]) {
							v = 0 // the active block is isolated
						}
					}
				}
			}
			s[x] = v
		}
	}
}

// qarena holds the operands of one call and a snapshot for the comparison afterwards.
type qarena struct {
	fl, before   []float64
	in, ibefore  []int
	spans        map[string][2]int
	ispans       map[string][2]int
	c            *lcall
	bools, bcopy []bool
}

var (
	qfl []float64
	qin []int
)

func buildQuery(k *queryCase, salt, workLen, lwork int) *qarena {
	a := &qarena{spans: map[string][2]int{}, ispans: map[string][2]int{}}
	total := margin
	for _, m := range k.Mats {
		total += m.Len + margin
	}
	for _, v := range k.Vecs {
		total += v.Len + margin
	}
	total += workLen + margin
	if len(qfl) < total {
		qfl = make([]float64, total+1<<12)
	}
	a.fl = qfl[:total]
	canary := nan64(canaryCode)
	for i := range a.fl {
		a.fl[i] = canary
	}
	c := &lcall{f: k.F, d: k.D, salt: salt, fl: map[string][]float64{}, ld: map[string]int{}, iv: map[string][]int{},
		bv: map[string][]bool{}, inc: 1, lwork: lwork}
	a.c = c
	off := margin
	carve := func(name string, n int) []float64 {
		s := a.fl[off : off+n : off+n]
		c.fl[name] = s
		a.spans[name] = [2]int{off, off + n}
		off += n + margin
		return s
	}
	for _, m := range k.Mats {
		fillMat(carve(m.Name, m.Len), m, k.Block, salt)
		c.ld[m.Name] = m.Ld
	}
	for _, v := range k.Vecs {
		s := carve(v.Name, v.Len)
		for j := range s {
			s[j] = 0
			if strings.HasPrefix(v.Name, "tau") {
				s[j] = 1
			}
		}
	}
	w := carve("work", workLen)
	for j := range w {
		w[j] = -3
	}
	itotal := margin
	for _, v := range k.IVecs {
		itotal += v.Len + margin
	}
	if len(qin) < itotal {
		qin = make([]int, itotal+256)
	}
	a.in = qin[:itotal]
	for i := range a.in {
		a.in[i] = intCanary
	}
	ioff := margin
	for _, v := range k.IVecs {
		s := a.in[ioff : ioff+v.Len : ioff+v.Len]
		for j := range s {
			switch v.Fill {
			case "ident":
				s[j] = j
			case "free":
				s[j] = -1
			default:
				s[j] = 0
			}
		}
		c.iv[v.Name] = s
		a.ispans[v.Name] = [2]int{ioff, ioff + v.Len}
		ioff += v.Len + margin
	}
	for _, v := range k.BVecs {
		b := make([]bool, v.Len)
		for j := range b {
			b[j] = true
		}
		c.bv[v.Name] = b
		a.bools = b
		a.bcopy = append([]bool(nil), b...)
	}
	a.before = append(a.before[:0], a.fl...)
	a.ibefore = append(a.ibefore[:0], a.in...)
	return a
}

// diff lists the operands that changed ("name[first index]"), whether work changed beyond element 0 and
// whether an element outside every operand was written.
func (a *qarena) diff() (changed []string, workBeyond0 bool, canary string) {
	first := map[string]int{}
	for i := range a.fl {
		if math.Float64bits(a.fl[i]) == math.Float64bits(a.before[i]) {
			continue
		}
		hit := false
		for nm, sp := range a.spans {
			if i >= sp[0] && i < sp[1] {
				hit = true
				if _, dup := first[nm]; !dup {
					first[nm] = i - sp[0]
				}
				if nm == "work" && i > sp[0] {
					workBeyond0 = true
				}
			}
		}
		if !hit && canary == "" {
			canary = fmt.Sprintf("float arena element %d (outside every operand; operands at %v) was written", i, a.spans)
		}
	}
	for i := range a.in {
		if a.in[i] == a.ibefore[i] {
			continue
		}
		hit := false
		for nm, sp := range a.ispans {
			if i >= sp[0] && i < sp[1] {
				hit = true
				if _, dup := first[nm]; !dup {
					first[nm] = i - sp[0]
				}
			}
		}
		if !hit && canary == "" {
			canary = fmt.Sprintf("int arena element %d (outside every operand) was written", i)
		}
	}
	for j := range a.bools {
		if a.bools[j] != a.bcopy[j] {
			first["selected"] = j
			break
		}
	}
	for nm, i := range first {
		changed = append(changed, fmt.Sprintf("%s[%d]", nm, i))
	}
	sort.Strings(changed)
	return changed, workBeyond0, canary
}

func runQuery(raw json.RawMessage, salt int, sum *core.Summary, st *cstats) error {
	var k queryCase
	if err := json.Unmarshal(raw, &k); err != nil {
		return err
	}
	f, ok := ltab[k.R]
	if !ok {
		return fmt.Errorf("no dispatch entry for %s", k.R)
	}
	if k.Exp != "OK" {
		return fmt.Errorf("workspace-query tuple with expectation %q", k.Exp)
	}
	sum.Cases++
	sum.Nontrivial++
	st.byExp[k.Exp]++
	failed := false
	fail := func(kind, msg string) {
		sig := fmt.Sprintf("lapack:%s:%s:%s", k.R, kind, codes(k.F))
		st.failures++
		failed = true
		key := sig + "|" + buildName
		if st.seen[key] {
			return
		}
		st.seen[key] = true
		sum.Fail(sig, fmt.Sprintf("%s [%s build] %s: %s", k.R, buildName, string(raw), msg), raw)
	}
	describe := func(o core.Outcome) string {
		if o.Hung {
			return o.Text
		}
		if o.Runtime {
			return "runtime.Error: " + o.Text
		}
		return "panic: " + o.Text
	}

	// 1. the workspace query, with every operand present
	qa := buildQuery(&k, salt, 1, -1)
	qo := core.CallTimeout(60e9, func() { f(qa.c) })
	st.queries++
	st.calls++
	st.routines[k.R]++
	if qo.Panicked || qo.Hung {
		fail("query-rejected", "the workspace query (lwork = -1) of a valid call did not return: "+describe(qo))
		return nil
	}
	changed, _, canary := qa.diff()
	if canary != "" {
		fail("query-out-of-slice-write", canary)
	}
	for _, ch := range changed {
		if ch != "work[0]" {
			fail("query-writes", fmt.Sprintf("the workspace query modified %v (only work[0] may change)", changed))
			break
		}
	}
	qv := qa.c.fl["work"][0]
	queried := int(qv)
	if !(qv >= 1) || qv > 1<<24 {
		fail("query-value", fmt.Sprintf("the workspace query stored %v in work[0]", qv))
		return nil
	}
	if queried > k.MinLwork {
		st.queryLarger++
	}
	if queried > st.maxQueried {
		st.maxQueried = queried
	}

	// 2. lwork = len(work) = the queried value; 3. lwork = len(work) = the documented minimum
	for _, step := range []struct {
		kind  string
		lwork int
	}{{"query-insufficient", queried}, {"min-insufficient", k.MinLwork}} {
		if step.kind == "min-insufficient" && step.lwork == queried {
			continue // the same call
		}
		wl := step.lwork
		if wl < 1 {
			wl = 1
		}
		ca := buildQuery(&k, salt, wl, step.lwork)
		o := core.CallTimeout(120e9, func() { f(ca.c) })
		st.calls++
		if step.kind == "query-insufficient" {
			st.queriedCalls++
		} else {
			st.minCalls++
		}
		got := gotOK
		if o.Hung {
			got = "HANG"
		} else if o.Panicked {
			got = classify(o, []string{"lapack: "}, "gonum.org/v1/gonum/lapack")
		}
		st.byGot[got]++
		if got != gotOK {
			ch, _, _ := ca.diff()
			what := "the value returned by the routine's own workspace query"
			if step.kind == "min-insufficient" {
				what = "the documented minimum"
			}
			fail(step.kind, fmt.Sprintf("valid call with lwork = len(work) = %d (%s; query %d, documented minimum %d) did not complete: %s (operands modified before: %v)",
				step.lwork, what, queried, k.MinLwork, describe(o), ch))
			continue
		}
		if _, _, canary := ca.diff(); canary != "" {
			fail("out-of-slice-write", canary)
		}
	}
	if !failed && salt%997 == 5 {
		sum.Sample(map[string]any{"routine": k.R, "queried_lwork": queried, "tuple": raw})
	}
	return nil
}

// ---- mat factorizations that size their workspaces by such queries -------------------------------

type matFactCase struct {
	Kind   string   `json:"kind"`
	T      string   `json:"t"`
	Flags  []string `json:"flags"`
	Shapes [][]int  `json:"shapes"`
	Exp    string   `json:"exp"`
}

var matKindBits = map[string]int{
	"SVDThinU": int(mat.SVDThinU), "SVDFullU": int(mat.SVDFullU), "SVDThinV": int(mat.SVDThinV), "SVDFullV": int(mat.SVDFullV),
	"EigenLeft": int(mat.EigenLeft), "EigenRight": int(mat.EigenRight),
	"GSVDU": int(mat.GSVDU), "GSVDV": int(mat.GSVDV), "GSVDQ": int(mat.GSVDQ),
}

func runMatFact(raw json.RawMessage, salt int, sum *core.Summary, st *cstats) error {
	var k matFactCase
	if err := json.Unmarshal(raw, &k); err != nil {
		return err
	}
	if k.Exp != "OK" {
		return fmt.Errorf("mat factorization tuple with expectation %q", k.Exp)
	}
	kind := 0
	for _, fl := range k.Flags {
		b, ok := matKindBits[fl]
		if !ok {
			return fmt.Errorf("unknown kind flag %q", fl)
		}
		kind |= b
	}
	ms := make([]*mat.Dense, len(k.Shapes))
	for i, sh := range k.Shapes {
		if len(sh) != 2 {
			return fmt.Errorf("shape %v", sh)
		}
		d := make([]float64, sh[0]*sh[1])
		fillMat(d, qmat{Len: len(d), Ld: sh[1], Rows: sh[0], Cols: sh[1], Fill: "dom"}, nil, salt+i)
		ms[i] = mat.NewDense(sh[0], sh[1], d)
	}
	sum.Cases++
	sum.Nontrivial++
	st.byExp[k.Exp]++
	st.matFact++
	okRes := true
	var call func()
	switch k.T {
	case "QR":
		call = func() {
			var qr mat.QR
			qr.Factorize(ms[0])
			var q mat.Dense
			qr.QTo(&q)
		}
	case "LQ":
		call = func() {
			var lq mat.LQ
			lq.Factorize(ms[0])
			var q mat.Dense
			lq.QTo(&q)
		}
	case "SVD":
		call = func() {
			var svd mat.SVD
			okRes = svd.Factorize(ms[0], mat.SVDKind(kind))
		}
	case "Eigen":
		call = func() {
			var e mat.Eigen
			okRes = e.Factorize(ms[0], mat.EigenKind(kind))
		}
	case "GSVD":
		call = func() {
			var g mat.GSVD
			okRes = g.Factorize(ms[0], ms[1], mat.GSVDKind(kind))
		}
	case "HOGSVD":
		call = func() {
			var g mat.HOGSVD
			args := make([]mat.Matrix, len(ms))
			for i := range ms {
				args[i] = ms[i]
			}
			okRes = g.Factorize(args...)
		}
	default:
		return fmt.Errorf("unknown factorization type %q", k.T)
	}
	o := core.CallTimeout(120e9, call)
	st.calls++
	st.routines["mat."+k.T]++
	if o.Hung || o.Panicked {
		txt := "panic: " + o.Text
		if o.Runtime {
			txt = "runtime.Error: " + o.Text
		}
		if o.Hung {
			txt = o.Text
		}
		sig := fmt.Sprintf("mat:%s:factorize-panic:%s", k.T, strings.Join(k.Flags, "+"))
		st.failures++
		key := sig + "|" + buildName
		if !st.seen[key] {
			st.seen[key] = true
			sum.Fail(sig, fmt.Sprintf("mat.%s [%s build] %s: Factorize of a legal shape did not complete: %s", k.T, buildName, string(raw), txt), raw)
		}
		return nil
	}
	if !okRes {
		st.matNotOK++
	}
	return nil
}
