package paths

// spec->code for graph/path/dynamic.DStarLite, driven by specs/path/DStarLite.tla.
//
// "path-dstar-tables": every line is a small world with the specification's
// tables (true distances d[v][t], optimal successors opt[t][v], heuristic
// h[a][b]) for the world itself and for EVERY single and double edge-cost
// change.  For every (start, goal, k, change) the harness runs the documented
// loop on a fresh planner with the spec's heuristic:
//   plan -> Path -> Step k times -> UpdateWorld(change) -> Path -> Step ... goal
// and judges every Path() and Step() by table look-up only: a path must be a
// chain of the spec's optimal successors from here to the goal and its
// reported weight must be the spec's distance; Step must move to an optimal
// successor and must be refused exactly at the goal.
//
// With moves=A|B|C the scripts move by MoveTo as well (dscript.Mv / Post, see movePatterns):
// MoveTo(n) must leave the robot at n, and Path() / Step() from there are judged by the same
// look-up.  A: every epoch is MoveTo* Step*; B: a MoveTo follows a Step inside one epoch;
// C: a MoveTo to an arbitrary node is followed by Path() at once (no UpdateWorld in between);
// D: the planner is created with start = goal, the robot is moved away and the update follows.
//
// "path-dstar-machine": the lines are the transitions of the specification's
// state graph (TLC explored every behaviour); the real planner's run must be a
// path of that graph: after every Step the state (i, here, levels) reached by
// the code must be a successor of the previous state in the spec.

import (
	"encoding/json"
	"fmt"
	"math"
	"sort"
	"strconv"
	"strings"
	"sync"
	"sync/atomic"
	"time"

	"gonum.org/v1/gonum/graph"
	"gonum.org/v1/gonum/graph/path"
	"gonum.org/v1/gonum/graph/path/dynamic"
	"gonum.org/v1/gonum/graph/simple"

	"gonum.org/v1/gonum/verifharness/internal/core"
)

func init() {
	core.RegisterReplay("path-dstar-tables", replayDStarTables)
	core.RegisterReplay("path-dstar-machine", replayDStarMachine)
}

type dtab struct {
	D   [][]int64   `json:"d"`   // d[v][t]
	Opt [][][]int64 `json:"opt"` // opt[t][v]
}

type dchange struct {
	Ch  [][3]int64 `json:"ch"` // u, v, new cost
	Tab dtab       `json:"tab"`
}

type dworld struct {
	K       string     `json:"k"`
	Idx     int        `json:"idx"`
	N       int        `json:"n"`
	Goals   []int      `json:"goals"` // the goals the scripts may use (absent: every node)
	E       [][3]int64 `json:"e"`
	H       [][]int64  `json:"h"`
	Tab     dtab       `json:"tab"`
	Changes []dchange  `json:"changes"`
}

// a sub-case that can be replayed alone: one world, one script
type dscript struct {
	K  string     `json:"k"` // "ws"
	N  int        `json:"n"`
	E  [][3]int64 `json:"e"`
	H  [][]int64  `json:"h"`
	T0 dtab       `json:"tab0"`
	S  int        `json:"s"`
	T  int        `json:"t"`
	St int        `json:"steps"`
	Ch [][3]int64 `json:"ch"`
	T1 dtab       `json:"tab1"`
	// moves before the update, one letter each (empty: St times "s"):
	//   s Step   h / m / M MoveTo(Path()[0 / 1 / 2])   j MoveTo(Jt), the update follows at once
	//   J MoveTo(Jt) and Path() at once
	Mv string `json:"mv,omitempty"`
	// moves after the update, one letter each (s / m); the last letter is repeated to the goal
	Post string `json:"post,omitempty"`
	Jt   int    `json:"jt,omitempty"`
}

func dstarID(m int64) int64 { return m*7 - 11 } // non-contiguous, includes negative ids

type planner struct {
	n    int
	g    *simple.WeightedDirectedGraph
	d    *dynamic.DStarLite
	h    [][]int64
	err  string
	hung bool
}

// watchdog limit of one planner call (replays on tiny worlds: a call takes microseconds). A call
// that does not return leaks its goroutine, which may allocate without bound: the first hang
// ends the replay (hangSeen), the failure carries the signature path:DStarLite:hang.
var (
	dstarLimit = 20 * time.Second
	hangSeen   atomic.Bool
)

func (p *planner) call(what string, f func()) string {
	o := core.CallTimeout(dstarLimit, f)
	if o.Hung {
		p.hung = true
		hangSeen.Store(true)
		return what + " did not return within " + dstarLimit.String()
	}
	if o.Panicked {
		return what + ": " + o.Text
	}
	return ""
}

func newPlanner(n int, e [][3]int64, h [][]int64, s, t int, heur string) *planner {
	p := &planner{n: n, h: h, g: simple.NewWeightedDirectedGraph(0, math.Inf(1))}
	for v := 1; v <= n; v++ {
		p.g.AddNode(simple.Node(dstarID(int64(v))))
	}
	for _, x := range e {
		p.g.SetWeightedEdge(simple.WeightedEdge{F: simple.Node(dstarID(x[0])), T: simple.Node(dstarID(x[1])), W: float64(x[2])})
	}
	var hf path.Heuristic
	switch heur {
	case "null":
		hf = path.NullHeuristic
	default:
		hf = func(a, b graph.Node) float64 {
			return float64(h[(a.ID()+11)/7-1][(b.ID()+11)/7-1])
		}
	}
	p.err = p.call("NewDStarLite", func() {
		p.d = dynamic.NewDStarLite(simple.Node(dstarID(int64(s))), simple.Node(dstarID(int64(t))), p.g, hf, simple.NewWeightedDirectedGraph(0, math.Inf(1)))
	})
	return p
}

func (p *planner) here() int { return int((p.d.Here().ID() + 11) / 7) }

func inSet(s []int64, x int) bool {
	for _, y := range s {
		if int(y) == x {
			return true
		}
	}
	return false
}

// checkPath judges Path() against the tables of the current world (goal t).
func (p *planner) checkPath(tab *dtab, t int) string {
	var ns []graph.Node
	var w float64
	if m := p.call("Path()", func() { ns, w = p.d.Path() }); m != "" {
		return m
	}
	here := p.here()
	want := tab.D[here-1][t-1]
	if w != float64(want) {
		return fmt.Sprintf("Path() from %d reports weight %v, the true distance to %d in the current world is %d (path %v)", here, w, t, want, modelIDs(ns))
	}
	ms := modelIDs(ns)
	if len(ms) == 0 || ms[0] != here || ms[len(ms)-1] != t {
		return fmt.Sprintf("Path() = %v does not lead from %d to %d", ms, here, t)
	}
	for i := 0; i+1 < len(ms); i++ {
		if ms[i] < 1 || ms[i] > p.n || !inSet(tab.Opt[t-1][ms[i]-1], ms[i+1]) {
			return fmt.Sprintf("Path() = %v: %d -> %d is not an optimal edge of the current world (optimal successors %v)", ms, ms[i], ms[i+1], tab.Opt[t-1][ms[i]-1])
		}
	}
	return ""
}

func modelIDs(ns []graph.Node) []int {
	out := make([]int, len(ns))
	for i, n := range ns {
		out[i] = int((n.ID() + 11) / 7)
	}
	return out
}

// step judges one Step().
func (p *planner) step(tab *dtab, t int) (moved bool, problem string) {
	from := p.here()
	var ret bool
	if m := p.call("Step()", func() { ret = p.d.Step() }); m != "" {
		return false, m
	}
	if m := p.call("Here() after Step()", func() { p.d.Here().ID() }); m != "" {
		return false, m
	}
	if ret != (from != t) {
		return ret, fmt.Sprintf("Step() at %d (goal %d) returned %v", from, t, ret)
	}
	if !ret {
		if p.here() != from {
			return false, fmt.Sprintf("refused Step() moved from %d to %d", from, p.here())
		}
		return false, ""
	}
	if to := p.here(); !inSet(tab.Opt[t-1][from-1], to) {
		return true, fmt.Sprintf("Step() moved %d -> %d, the optimal successors towards %d in the current world are %v", from, to, t, tab.Opt[t-1][from-1])
	}
	return true, ""
}

func (p *planner) update(ch [][3]int64) string {
	var es []graph.Edge
	for _, c := range ch {
		p.g.SetWeightedEdge(simple.WeightedEdge{F: simple.Node(dstarID(c[0])), T: simple.Node(dstarID(c[1])), W: float64(c[2])})
		es = append(es, p.g.Edge(dstarID(c[0]), dstarID(c[1])))
	}
	return p.call("UpdateWorld", func() { p.d.UpdateWorld(es) })
}

// moveAlong calls MoveTo(n) for the node n that lies j edges ahead on the planner's own Path()
// (the last one if the path is shorter) and judges Here(). The choice of n is test-input selection;
// the caller judges Path() from n against the tables.
func (p *planner) moveAlong(j int) string {
	var ns []graph.Node
	if m := p.call("Path()", func() { ns, _ = p.d.Path() }); m != "" {
		return m
	}
	if len(ns) == 0 {
		return "Path() is empty although the goal is reachable"
	}
	if j > len(ns)-1 {
		j = len(ns) - 1
	}
	return p.moveTo(int((ns[j].ID() + 11) / 7))
}

// moveTo calls MoveTo with a node value of the caller (only its id is the planner's business) and
// judges Here(): the robot must stand at n.
func (p *planner) moveTo(n int) string {
	from := p.here()
	if m := p.call("MoveTo", func() { p.d.MoveTo(simple.Node(dstarID(int64(n)))) }); m != "" {
		return m
	}
	if m := p.call("Here() after MoveTo", func() { p.d.Here().ID() }); m != "" {
		return m
	}
	if p.here() != n {
		return fmt.Sprintf("MoveTo(%d) at %d: Here() = %d afterwards", n, from, p.here())
	}
	return ""
}

// movePatterns lists the (moves before the update, moves after it, uses a jump target) patterns of
// a domain. A: every epoch is MoveTo* Step*. B: some MoveTo follows a Step inside one epoch.
// C: MoveTo to an arbitrary node, Path() at once.
func movePatterns(dom string) (pats [][2]string) {
	switch dom {
	case "A":
		return [][2]string{{"m", "s"}, {"mm", "m"}, {"mmm", "ms"}, {"ms", "m"}, {"mms", "s"}, {"M", "mms"}, {"Ms", "m"},
			{"mM", "s"}, {"h", "m"}, {"hs", "ms"}, {"j", "s"}, {"mj", "m"}}
	case "B":
		return [][2]string{{"sm", "s"}, {"ssm", "sm"}, {"sms", "s"}, {"smm", "sm"}, {"sM", "s"}, {"ssM", "sm"},
			{"sh", "s"}, {"ssh", "sm"}, {"msm", "s"}, {"sj", "s"}, {"", "sm"}, {"m", "sm"}}
	case "C":
		return [][2]string{{"J", "s"}, {"mJ", "s"}}
	case "D": // the planner is created at its goal (start = goal) and the robot is then moved away
		return [][2]string{{"j", "s"}}
	}
	return nil
}

// runScript executes one script; it returns "" or the first disagreement.
func runScript(sc *dscript, heur string) (what, msg string) {
	var p *planner
	defer func() {
		if p != nil && p.hung {
			what = "hang"
		}
	}()
	p = newPlanner(sc.N, sc.E, sc.H, sc.S, sc.T, heur)
	if p.err != "" {
		return "new", p.err
	}
	if m := p.checkPath(&sc.T0, sc.T); m != "" {
		return "initial-path", m
	}
	pre := sc.Mv
	if pre == "" {
		pre = "sss"[:sc.St]
	}
	for _, c := range pre {
		if p.here() == sc.T && c != 'j' && c != 'J' {
			return "", "" // reached the goal before the update: nothing more to say
		}
		switch c {
		case 's':
			moved, m := p.step(&sc.T0, sc.T)
			if m != "" {
				return "step", m
			}
			if !moved {
				return "", ""
			}
		case 'h', 'm', 'M':
			if m := p.moveAlong(map[rune]int{'h': 0, 'm': 1, 'M': 2}[c]); m != "" {
				return "moveto", m
			}
			if m := p.checkPath(&sc.T0, sc.T); m != "" {
				return "path-after-moveto", m
			}
		case 'j', 'J':
			if m := p.moveTo(sc.Jt); m != "" {
				return "moveto", m
			}
			if c == 'J' {
				if m := p.checkPath(&sc.T0, sc.T); m != "" {
					return "path-after-moveto", m
				}
			}
		}
	}
	if p.here() == sc.T {
		return "", ""
	}
	if m := p.update(sc.Ch); m != "" {
		return "update", m
	}
	if m := p.checkPath(&sc.T1, sc.T); m != "" {
		return "path-after-update", m
	}
	post := sc.Post
	if post == "" {
		post = "s"
	}
	for k := 0; k <= sc.N; k++ {
		c := post[len(post)-1]
		if k < len(post) {
			c = post[k]
		}
		if c == 'm' && p.here() != sc.T {
			if m := p.moveAlong(1); m != "" {
				return "moveto-after-update", m
			}
		} else {
			moved, m := p.step(&sc.T1, sc.T)
			if m != "" {
				return "step-after-update", m
			}
			if !moved {
				return "", ""
			}
		}
		if m := p.checkPath(&sc.T1, sc.T); m != "" {
			return "path-after-update", m
		}
	}
	return "step-after-update", "the goal was not reached within n+1 optimal moves"
}

func replayDStarTables(in *core.Lines, args []string, seed int64, sum *core.Summary) error {
	heur := argOf(args, "heur", "spec")
	if ms, err := strconv.Atoi(argOf(args, "limitms", "")); err == nil && ms > 0 {
		dstarLimit = time.Duration(ms) * time.Millisecond
	}
	// moves: "" the documented loop (Step only); A / B / C: scripts with MoveTo (movePatterns). The
	// domains B and C have signatures of their own.
	moves := argOf(args, "moves", "")
	maxWorlds, _ := strconv.Atoi(argOf(args, "worlds", "0"))
	sigp := "path:DStarLite:"
	switch moves {
	case "B":
		sigp += "moveto-after-step:"
	case "C":
		sigp += "moveto-then-path:"
	case "D":
		sigp += "moveto-from-goal:"
	}
	maxSteps := 3
	type job struct{ line []byte }
	jobs := make(chan job, 16)
	var wg sync.WaitGroup
	var mu sync.Mutex
	var firstErr error
	for w := 0; w < 8; w++ {
		wg.Add(1)
		go func() {
			defer wg.Done()
			cases, nontriv, scripts, bad := 0, 0, 0, 0
			badPat := map[string]int{}
			type fl struct {
				sig, msg string
				c        any
			}
			var fails []fl
			for j := range jobs {
				var probe struct {
					K string `json:"k"`
				}
				json.Unmarshal(j.line, &probe)
				var list []*dscript
				switch probe.K {
				case "ws": // a script extracted from an earlier failure
					sc := &dscript{}
					if err := json.Unmarshal(j.line, sc); err != nil {
						mu.Lock()
						firstErr = err
						mu.Unlock()
						continue
					}
					list = append(list, sc)
				case "w":
					var wd dworld
					if err := json.Unmarshal(j.line, &wd); err != nil {
						mu.Lock()
						firstErr = err
						mu.Unlock()
						continue
					}
					sort.Slice(wd.Changes, func(a, b int) bool { return fmt.Sprint(wd.Changes[a].Ch) < fmt.Sprint(wd.Changes[b].Ch) })
					isGoal := func(t int) bool {
						if wd.Goals == nil {
							return true
						}
						for _, g := range wd.Goals {
							if g == t {
								return true
							}
						}
						return false
					}
					for s := 1; s <= wd.N; s++ {
						for t := 1; t <= wd.N; t++ {
							if (s == t) != (moves == "D") || !isGoal(t) {
								continue
							}
							if moves == "" {
								for k := 0; k <= maxSteps; k++ {
									for ci := range wd.Changes {
										list = append(list, &dscript{K: "ws", N: wd.N, E: wd.E, H: wd.H, T0: wd.Tab, S: s, T: t, St: k, Ch: wd.Changes[ci].Ch, T1: wd.Changes[ci].Tab})
									}
								}
								continue
							}
							for _, pt := range movePatterns(moves) {
								// jump targets: every node but the goal for the bare jump, one for longer patterns
								jts := []int{0}
								if pt[0] == "j" || pt[0] == "J" {
									jts = jts[:0]
									for x := 1; x <= wd.N; x++ {
										if x != t {
											jts = append(jts, x)
										}
									}
								} else if strings.ContainsAny(pt[0], "jJ") {
									jts[0] = (2*s+t)%wd.N + 1
									if jts[0] == t {
										jts[0] = t%wd.N + 1
									}
								}
								for _, jt := range jts {
									for ci := range wd.Changes {
										list = append(list, &dscript{K: "ws", N: wd.N, E: wd.E, H: wd.H, T0: wd.Tab, S: s, T: t, St: len(pt[0]), Ch: wd.Changes[ci].Ch, T1: wd.Changes[ci].Tab, Mv: pt[0], Post: pt[1], Jt: jt})
									}
								}
							}
						}
					}
				default:
					continue
				}
				cases++
				for _, sc := range list {
					if hangSeen.Load() {
						break // a leaked planner goroutine is still running: stop here
					}
					scripts++
					if sc.St > 0 {
						nontriv++
					}
					if what, msg := runScript(sc, heur); msg != "" {
						bad++
						if moves != "" {
							badPat[sc.Mv+"/"+sc.Post+":"+what]++
						}
						if len(fails) < 6 {
							mv := ""
							if sc.Mv != "" || sc.Post != "" {
								mv = fmt.Sprintf(" moves=%q jump-target=%d moves-after-update=%q", sc.Mv, sc.Jt, sc.Post)
							}
							fails = append(fails, fl{sigp + what, fmt.Sprintf("[heur=%s] world e=%v start=%d goal=%d steps=%d%s change=%v: %s", heur, sc.E, sc.S, sc.T, sc.St, mv, sc.Ch, msg), sc})
						}
					}
				}
			}
			mu.Lock()
			sum.Cases += scripts
			sum.Nontrivial += nontriv
			sum.Count("worlds", cases)
			sum.Count("scripts-failed", bad)
			for k, v := range badPat {
				sum.Count("failed["+k+"]", v)
			}
			for _, f := range fails {
				sum.Fail(f.sig, f.msg, f.c)
			}
			mu.Unlock()
		}()
	}
	for nl := 0; maxWorlds <= 0 || nl < maxWorlds; nl++ {
		b, ok := in.Next()
		if !ok {
			break
		}
		jobs <- job{append([]byte(nil), b...)}
	}
	close(jobs)
	wg.Wait()
	return firstErr
}

// ---- machine role -----------------------------------------------------------

type mstate struct {
	I    int     `json:"i"`
	Here int     `json:"here"`
	Lv   []int64 `json:"lv"`
}

func (s mstate) key() string { return fmt.Sprint(s.I, s.Here, s.Lv) }

type mtab struct {
	D   []int64   `json:"d"`   // d[v] to the goal
	Opt [][]int64 `json:"opt"` // opt[v]
}

type mline struct {
	K    string     `json:"k"`
	Idx  int        `json:"idx"`
	N    int        `json:"n"`
	Goal int        `json:"goal"`
	E    [][3]int64 `json:"e"`
	H    [][]int64  `json:"h"`
	Act  string     `json:"act"` // "step" | "move" | "update"
	J    int        `json:"j"`   // move: how many edges ahead on Path() the target of MoveTo lies
	Ch   [][3]int64 `json:"ch"`
	S    mstate     `json:"s"`
	T    mstate     `json:"t"`
	Tab  *mtab      `json:"tab"`
}

func (t *mtab) full(n, goal int) *dtab {
	d := &dtab{D: make([][]int64, n), Opt: make([][][]int64, n)}
	for v := 0; v < n; v++ {
		d.D[v] = make([]int64, n)
		d.D[v][goal-1] = t.D[v]
	}
	d.Opt[goal-1] = t.Opt
	return d
}

// replayDStarMachine: the input holds the "init" line and all transition lines of some
// behaviours (grouped by idx by this function). A failing behaviour is reported with all of
// its lines, so it can be replayed alone.
func replayDStarMachine(in *core.Lines, args []string, seed int64, sum *core.Summary) error {
	heur := argOf(args, "heur", "spec")
	sigDom := argOf(args, "dom", "") // "moveto-after-step:" for behaviours in which a MoveTo may follow a Step
	groups := map[int][]mline{}
	var order []int
	for {
		b, ok := in.Next()
		if !ok {
			break
		}
		var first []json.RawMessage
		if len(b) > 0 && b[0] == '[' { // a failure case: an array of lines
			if err := json.Unmarshal(b, &first); err != nil {
				return err
			}
		} else {
			first = []json.RawMessage{append([]byte(nil), b...)}
		}
		for _, r := range first {
			var l mline
			if err := json.Unmarshal(r, &l); err != nil {
				return fmt.Errorf("line %d: %v", in.N, err)
			}
			if l.K != "init" && l.K != "t" {
				continue
			}
			if _, ok := groups[l.Idx]; !ok {
				order = append(order, l.Idx)
			}
			groups[l.Idx] = append(groups[l.Idx], l)
		}
	}
	var mu sync.Mutex
	var wg sync.WaitGroup
	sem := make(chan struct{}, 8)
	for _, idx := range order {
		lines := groups[idx]
		wg.Add(1)
		sem <- struct{}{}
		go func() {
			defer func() { <-sem; wg.Done() }()
			steps, moves, updates, what, msg := runMachine(lines, heur)
			mu.Lock()
			defer mu.Unlock()
			sum.Cases++
			if updates > 0 && steps > 0 {
				sum.Nontrivial++
			}
			sum.Count("machine-steps", steps-moves)
			sum.Count("machine-movetos", moves)
			sum.Count("machine-updates", updates)
			if msg != "" {
				sum.Fail("path:DStarLite:"+sigDom+"machine-"+what, fmt.Sprintf("[heur=%s] behaviour idx=%d: %s", heur, lines[0].Idx, msg), lines)
			}
		}()
	}
	wg.Wait()
	return nil
}

func runMachine(lines []mline, heur string) (steps, moves, updates int, what, msg string) {
	var init *mline
	out := map[string][]*mline{}
	for i := range lines {
		l := &lines[i]
		if l.K == "init" {
			init = l
		} else {
			out[l.S.key()] = append(out[l.S.key()], l)
		}
	}
	if init == nil {
		return 0, 0, 0, "input", "no init line"
	}
	goal := init.Goal
	p := newPlanner(init.N, init.E, init.H, init.S.Here, goal, heur)
	if p.err != "" {
		return 0, 0, 0, "new", p.err
	}
	tab := init.Tab.full(init.N, goal)
	cur := init.S
	if m := p.checkPath(tab, goal); m != "" {
		return 0, 0, 0, "initial-path", m
	}
	for guard := 0; guard < 1000; guard++ {
		ts := out[cur.key()]
		if len(ts) == 0 {
			// the specification's behaviour ends here: the robot must be at the goal and Step refused
			if cur.Here != goal {
				return steps, moves, updates, "spec-graph", fmt.Sprintf("state %v has no successor in the specification but is not the goal", cur)
			}
			if _, m := p.step(tab, goal); m != "" {
				return steps, moves, updates, "final-step", m
			}
			return steps, moves, updates, "", ""
		}
		if ts[0].Act == "update" {
			if m := p.update(ts[0].Ch); m != "" {
				return steps, moves, updates, "update", m
			}
			updates++
			tab = ts[0].Tab.full(init.N, goal)
			cur = ts[0].T
			if m := p.checkPath(tab, goal); m != "" {
				return steps, moves, updates, "path-after-update", fmt.Sprintf("after %d steps and %d updates (last change %v): %s", steps, updates, ts[0].Ch, m)
			}
			continue
		}
		if ts[0].Act == "move" {
			// MoveTo: the harness picks the node J edges ahead on the planner's Path(); the state reached
			// must be a successor in the specification (a node J optimal edges ahead)
			if m := p.moveAlong(ts[0].J); m != "" {
				return steps, moves, updates, "moveto", fmt.Sprintf("after %d moves and %d updates: %s", steps, updates, m)
			}
			moves++
		} else {
			// Step: the code chooses; the state it reaches must be a successor in the specification
			_, m := p.step(tab, goal)
			if m != "" {
				return steps, moves, updates, "step", fmt.Sprintf("after %d moves and %d updates: %s", steps, updates, m)
			}
		}
		steps++
		var next *mline
		for _, t := range ts {
			if t.T.Here == p.here() {
				next = t
			}
		}
		if next == nil {
			return steps, moves, updates, ts[0].Act, fmt.Sprintf("%s (j=%d) led to %d which is not a successor of state %v in the specification", ts[0].Act, ts[0].J, p.here(), cur)
		}
		cur = next.T
		if m := p.checkPath(tab, goal); m != "" {
			return steps, moves, updates, "path-after-" + ts[0].Act, fmt.Sprintf("after %d moves (%d by MoveTo) and %d updates: %s", steps, moves, updates, m)
		}
	}
	return steps, moves, updates, "spec-graph", "behaviour did not end"
}
