package paths

// code->spec: seeded random graphs (to ~60 nodes; sparse, dense, disconnected,
// ties, zero-weight cycles, negative edges with and without cycles, undirected,
// non-contiguous ids) are run through the real routines and everything they
// answer is logged; specs/path/ShortestPathTrace.tla decides. Nothing is
// judged here.

import (
	"fmt"
	"math"
	"math/rand"
	"strconv"
	"strings"

	"gonum.org/v1/gonum/graph"
	"gonum.org/v1/gonum/graph/path"
	"gonum.org/v1/gonum/graph/simple"

	"gonum.org/v1/gonum/verifharness/internal/core"
)

func init() {
	core.RegisterRecord("path-rand", recordRand)
}

// toExt converts a float answer to the spec's extended integer; [3,0] is a
// token the spec never accepts (NaN, non-integer, or too large for TLC).
func toExt(w float64) ext {
	switch {
	case math.IsInf(w, 1):
		return ext{1, 0}
	case math.IsInf(w, -1):
		return ext{2, 0}
	case math.IsNaN(w) || w != math.Trunc(w) || math.Abs(w) > 1e8:
		return ext{3, 0}
	}
	return ext{0, int64(w)}
}

type rgraph struct {
	n    int
	dir  bool
	ids  []int64
	r2m  map[int64]int64
	g    graph.Graph
	in   [][][2]int64
	out  [][]int64
	name string
}

func (r *rgraph) models(p []graph.Node) []int64 {
	out := make([]int64, 0, len(p))
	for _, n := range p {
		if n == nil {
			out = append(out, 0)
			continue
		}
		out = append(out, r.r2m[n.ID()]) // unknown ids map to 0, which is not a node of the spec's graph
	}
	return out
}

func (r *rgraph) node(m int) graph.Node { return simple.Node(r.ids[m-1]) }

func newRandGraph(rng *rand.Rand, fam string, n int) *rgraph {
	r := &rgraph{n: n, r2m: map[int64]int64{}, name: fam}
	// non-contiguous, unordered real ids
	base := rng.Int63n(1000) - 500
	step := rng.Int63n(7) + 1
	perm := rng.Perm(n)
	r.ids = make([]int64, n)
	for i := 0; i < n; i++ {
		r.ids[i] = base + int64(perm[i])*step*3 + int64(rng.Intn(3))
		if i%7 == 3 {
			r.ids[i] += 1 << 40
		}
	}
	for i, id := range r.ids {
		r.r2m[id] = int64(i + 1)
	}
	type edge struct {
		u, v int
		w int64
	}
	var es []edge
	seen := map[[2]int]bool{}
	add := func(u, v int, w int64, dir bool) {
		if u == v {
			return
		}
		k := [2]int{u, v}
		if !dir && u > v {
			k = [2]int{v, u}
		}
		if seen[k] {
			return
		}
		seen[k] = true
		es = append(es, edge{k[0], k[1], w})
	}
	r.dir = true
	switch fam {
	case "sparse-pos":
		for i := 0; i < 2*n; i++ {
			add(rng.Intn(n), rng.Intn(n), int64(1+rng.Intn(5)), true)
		}
	case "dense-ties":
		for u := 0; u < n; u++ {
			for v := 0; v < n; v++ {
				if rng.Intn(100) < 45 {
					add(u, v, int64(1+rng.Intn(3)), true)
				}
			}
		}
	case "disconnected":
		h := n / 2
		for i := 0; i < 3*n; i++ {
			if rng.Intn(2) == 0 {
				add(rng.Intn(h), rng.Intn(h), int64(1+rng.Intn(4)), true)
			} else if n-h-1 > 0 {
				add(h+rng.Intn(n-h-1), h+rng.Intn(n-h-1), int64(1+rng.Intn(4)), true) // node n-1 stays isolated
			}
		}
	case "zero-cycles":
		for i := 0; i < 3*n; i++ {
			add(rng.Intn(n), rng.Intn(n), int64(rng.Intn(3)), true)
		}
	case "neg-dag":
		for i := 0; i < 3*n; i++ {
			u, v := rng.Intn(n), rng.Intn(n)
			if u > v {
				u, v = v, u
			}
			add(u, v, int64(rng.Intn(9)-3), true)
		}
	case "neg-potential":
		// negative edges on cycles but no negative cycle: w(u,v) = base + pi(u) - pi(v) with base >= 1,
		// so every cycle weighs the sum of its base weights (the re-weighting of Johnson's algorithm
		// run backwards); dense enough that most nodes lie on cycles with negative edges
		pi := make([]int64, n)
		for i := range pi {
			pi[i] = int64(rng.Intn(12))
		}
		p := 15 + rng.Intn(25)
		for u := 0; u < n; u++ {
			for v := 0; v < n; v++ {
				if u != v && rng.Intn(100) < p {
					add(u, v, int64(1+rng.Intn(6))+pi[u]-pi[v], true)
				}
			}
		}
	case "neg-mixed":
		for i := 0; i < 3*n; i++ {
			add(rng.Intn(n), rng.Intn(n), int64(rng.Intn(8)-3), true)
		}
	case "neg-cycle-far":
		// mostly positive, with one planted negative cycle somewhere
		for i := 0; i < 3*n; i++ {
			add(rng.Intn(n), rng.Intn(n), int64(1+rng.Intn(5)), true)
		}
		a, b, c := rng.Intn(n), rng.Intn(n), rng.Intn(n)
		add(a, b, -2, true)
		add(b, c, -1, true)
		add(c, a, 1, true)
	case "undirected-pos":
		r.dir = false
		for i := 0; i < 2*n; i++ {
			add(rng.Intn(n), rng.Intn(n), int64(1+rng.Intn(4)), false)
		}
	case "undirected-zero":
		r.dir = false
		for i := 0; i < 2*n; i++ {
			add(rng.Intn(n), rng.Intn(n), int64(rng.Intn(3)), false)
		}
	}
	r.in = make([][][2]int64, n)
	r.out = make([][]int64, n)
	for i := range r.in {
		r.in[i] = [][2]int64{}
		r.out[i] = []int64{}
	}
	link := func(u, v int, w int64) {
		r.out[u] = append(r.out[u], int64(v+1))
		r.in[v] = append(r.in[v], [2]int64{int64(u + 1), w})
	}
	if r.dir {
		g := simple.NewWeightedDirectedGraph(0, math.Inf(1))
		for _, id := range r.ids {
			g.AddNode(simple.Node(id))
		}
		for _, e := range es {
			g.SetWeightedEdge(simple.WeightedEdge{F: simple.Node(r.ids[e.u]), T: simple.Node(r.ids[e.v]), W: float64(e.w)})
			link(e.u, e.v, e.w)
		}
		r.g = g
	} else {
		g := simple.NewWeightedUndirectedGraph(0, math.Inf(1))
		for _, id := range r.ids {
			g.AddNode(simple.Node(id))
		}
		for _, e := range es {
			g.SetWeightedEdge(simple.WeightedEdge{F: simple.Node(r.ids[e.u]), T: simple.Node(r.ids[e.v]), W: float64(e.w)})
			link(e.u, e.v, e.w)
			link(e.v, e.u, e.w)
		}
		r.g = g
	}
	return r
}

var families = []string{"sparse-pos", "dense-ties", "disconnected", "zero-cycles", "neg-dag", "neg-mixed", "neg-cycle-far", "undirected-pos", "undirected-zero", "neg-potential"}

type ev map[string]any

const recLimit = 60e9 // ns

func recordRand(out *core.Out, args []string, seed int64, sum *core.Summary) error {
	ngraphs, _ := strconv.Atoi(argOf(args, "graphs", "16"))
	families := strings.Split(argOf(args, "fams", strings.Join(families, ",")), ",")
	maxn, _ := strconv.Atoi(argOf(args, "maxn", "60"))
	rng := rand.New(rand.NewSource(seed*7919 + 13))
	hung := func(what string, r *rgraph) {
		sum.Fail("path:"+what+":hang", fmt.Sprintf("%s did not return within 60 s on a %s graph with %d nodes (seed %d)", what, r.name, r.n, seed), nil)
	}
	for gi := 0; gi < ngraphs; gi++ {
		fam := families[gi%len(families)]
		n := 5 + rng.Intn(maxn-4)
		if gi%len(families) == gi { // the first round uses small graphs so that every source is run
			n = 5 + rng.Intn(8)
		}
		if fam == "dense-ties" && n > 40 {
			n = 40
		}
		if fam == "neg-potential" && gi%len(families) != gi {
			n = 20 + rng.Intn(21)
		}
		r := newRandGraph(rng, fam, n)
		out.Emit(ev{"op": "graph", "r": fam, "n": n, "dir": r.dir, "in": r.in, "out": r.out})
		sum.Traces++
		sum.Count("graphs:"+fam, 1)

		var sources []int
		if n <= 12 {
			for s := 1; s <= n; s++ {
				sources = append(sources, s)
			}
		} else {
			for _, i := range rng.Perm(n)[:6] {
				sources = append(sources, i+1)
			}
		}
		targets := func(s int) []int {
			var ts []int
			for _, i := range rng.Perm(n) {
				if i+1 != s && len(ts) < 3 {
					ts = append(ts, i+1)
				}
			}
			return ts
		}
		for _, s := range sources {
			sn := r.node(s)
			// rows of weights and one path per target
			row := func(name, famName string, alt, panicked, ok bool, wt func(int64) float64, to func(int64) []graph.Node) {
				w := make([]ext, n)
				p := make([][]int64, n)
				for t := 1; t <= n; t++ {
					p[t-1] = []int64{}
					w[t-1] = ext{3, 0}
					if !panicked {
						tid := r.ids[t-1]
						w[t-1] = toExt(wt(tid))
						if ok {
							p[t-1] = r.models(to(tid))
						}
					}
				}
				out.Emit(ev{"op": "sssp", "r": name, "fam": famName, "s": s, "alt": alt, "panic": panicked, "ok": ok, "w": w, "p": p})
			}
			var sh path.Shortest
			var sa path.ShortestAlts
			var bok bool
			o := core.CallTimeout(recLimit, func() { sh = path.DijkstraFrom(sn, r.g) })
			if o.Hung {
				hung("DijkstraFrom", r)
				continue
			}
			row("DijkstraFrom", "dijkstra", false, o.Panicked, true, sh.WeightTo, func(t int64) []graph.Node { p, _ := sh.To(t); return p })
			o = core.CallTimeout(recLimit, func() { sa = path.DijkstraAllFrom(sn, r.g) })
			if o.Hung {
				hung("DijkstraAllFrom", r)
				continue
			}
			dijkstraAllOK := !o.Panicked
			row("DijkstraAllFrom", "dijkstra", true, o.Panicked, true, sa.WeightTo, func(t int64) []graph.Node { p, _, _ := sa.To(t); return p })
			if dijkstraAllOK {
				for _, t := range targets(s) {
					ps, w := sa.AllTo(r.ids[t-1])
					if len(ps) <= 60 {
						out.Emit(ev{"op": "all", "r": "DijkstraAllFrom.AllTo", "s": s, "t": t, "w": toExt(w), "ps": r.paths(ps)})
					}
				}
			}
			o = core.CallTimeout(recLimit, func() { sh, bok = path.BellmanFordFrom(sn, r.g) })
			if o.Hung {
				hung("BellmanFordFrom", r)
				continue
			}
			row("BellmanFordFrom", "bellmanford", false, o.Panicked, bok, sh.WeightTo, func(t int64) []graph.Node { p, _ := sh.To(t); return p })
			o = core.CallTimeout(recLimit, func() { sa, bok = path.BellmanFordAllFrom(sn, r.g) })
			if o.Hung {
				hung("BellmanFordAllFrom", r)
				continue
			}
			row("BellmanFordAllFrom", "bellmanford", true, o.Panicked, bok, sa.WeightTo, func(t int64) []graph.Node { p, _, _ := sa.To(t); return p })
			if !o.Panicked && bok {
				for _, t := range targets(s) {
					ps, w := sa.AllTo(r.ids[t-1])
					if len(ps) <= 60 {
						out.Emit(ev{"op": "all", "r": "BellmanFordAllFrom.AllTo", "s": s, "t": t, "w": toExt(w), "ps": r.paths(ps)})
					}
				}
			}
			for _, t := range targets(s) {
				tn := r.node(t)
				var p []graph.Node
				var w float64
				o = core.CallTimeout(recLimit, func() { p, w = path.DijkstraFromTo(sn, tn, r.g) })
				if o.Hung {
					hung("DijkstraFromTo", r)
					continue
				}
				out.Emit(ev{"op": "pt", "r": "DijkstraFromTo", "s": s, "t": t, "panic": o.Panicked, "w": toExt(w), "p": r.models(p)})
				o = core.CallTimeout(recLimit, func() {
					as, _ := path.AStar(sn, tn, r.g, path.NullHeuristic)
					p, w = as.To(tn.ID())
				})
				if o.Hung {
					hung("AStar", r)
					continue
				}
				out.Emit(ev{"op": "pt", "r": "AStar(null)", "s": s, "t": t, "panic": o.Panicked, "w": toExt(w), "p": r.models(p)})
			}
		}

		// all pairs
		apsp := func(name, famName string, f func() (path.AllShortest, bool)) {
			var ap path.AllShortest
			var ok bool
			o := core.CallTimeout(recLimit, func() { ap, ok = f() })
			if o.Hung {
				hung(name, r)
				return
			}
			w := make([][]ext, n)
			for s := 1; s <= n; s++ {
				w[s-1] = make([]ext, n)
				for t := 1; t <= n; t++ {
					w[s-1][t-1] = ext{3, 0}
					if !o.Panicked {
						w[s-1][t-1] = toExt(ap.Weight(r.ids[s-1], r.ids[t-1]))
					}
				}
			}
			pp := []ev{}
			if !o.Panicked && (ok || famName == "floyd") {
				for i := 0; i < 10; i++ {
					s, t := 1+rng.Intn(n), 1+rng.Intn(n)
					if s == t {
						continue // s = t under a negative cycle is left open (see the replay side)
					}
					p, pw, _ := ap.Between(r.ids[s-1], r.ids[t-1])
					pp = append(pp, ev{"s": s, "t": t, "p": r.models(p), "w": toExt(pw)})
				}
			}
			out.Emit(ev{"op": "apsp", "r": name, "fam": famName, "panic": o.Panicked, "ok": ok || o.Panicked && famName == "dijkstra", "w": w, "pp": pp})
			if !o.Panicked && ok {
				for i := 0; i < 4; i++ {
					s, t := 1+rng.Intn(n), 1+rng.Intn(n)
					ps, pw := ap.AllBetween(r.ids[s-1], r.ids[t-1])
					if len(ps) <= 60 {
						out.Emit(ev{"op": "all", "r": name + ".AllBetween", "s": s, "t": t, "w": toExt(pw), "ps": r.paths(ps)})
					}
				}
			}
		}
		apsp("DijkstraAllPaths", "dijkstra", func() (path.AllShortest, bool) { return path.DijkstraAllPaths(r.g), true })
		apsp("FloydWarshall", "floyd", func() (path.AllShortest, bool) { return path.FloydWarshall(r.g) })
		apsp("JohnsonAllPaths", "johnson", func() (path.AllShortest, bool) { return path.JohnsonAllPaths(r.g) })

		// Yen
		for i := 0; i < 4; i++ {
			s, t := 1+rng.Intn(n), 1+rng.Intn(n)
			if s == t {
				continue
			}
			k := []int{1, 2, 3, 5, 8}[rng.Intn(5)]
			c := []int64{0, 1, 2, 99}[rng.Intn(4)]
			if n <= 12 && i == 0 {
				k, c = -1, int64(rng.Intn(3))
			}
			cost := float64(c)
			if c == 99 {
				cost = math.Inf(1)
			}
			var ps [][]graph.Node
			o := core.CallTimeout(recLimit, func() { ps = path.YenKShortestPaths(r.g, k, cost, r.node(s), r.node(t)) })
			if o.Hung {
				hung("YenKShortestPaths", r)
				continue
			}
			out.Emit(ev{"op": "yen", "r": "YenKShortestPaths", "s": s, "t": t, "k": k, "c": c, "panic": o.Panicked, "ps": r.paths(ps)})
		}
	}
	return nil
}

func (r *rgraph) paths(ps [][]graph.Node) [][]int64 {
	out := make([][]int64, 0, len(ps))
	for _, p := range ps {
		out = append(out, r.models(p))
	}
	return out
}
