package paths

// code->spec for the priority-queue driven routines of graph/path on graphs
// where the open queue gets large and tentative distances are lowered again and
// again: dense weighted digraphs and undirected graphs of 10..40 nodes with
// integer weights 1..20, sparse ones, grids with diagonal shortcuts, and graphs
// whose weights are planted around a node potential. For every graph the
// recorder logs AStar(s, t, g, h).To(t) for EVERY ordered pair (s, t), for several
// heuristics and several containers / successor orders, plus the Dijkstra family
// (DijkstraFrom, DijkstraAllFrom, DijkstraFromTo, DijkstraAllPaths) and Yen.
// The internal heaps (aStarQueue, Dijkstra's priorityQueue, Yen's candidate heap)
// are unexported; they are bound through these answers only.
//
// Nothing is judged here. specs/path/ShortestPathTrace.tla computes the true
// weights of every logged graph once (Bellman fixed point) and accepts a row only
// if every weight is the true weight and every path a real walk of that weight.
//
// Heuristics. A heuristic table h[v][t] is logged ("aheur") before it is used and
// the specification certifies it on the logged graph with its own arithmetic
// (h[t][t] = 0, h >= 0, h[u][t] <= w(u,v) + h[v][t] on every edge); an
// uncertified table makes TLC reject the trace. Where the table comes from is
// therefore irrelevant for the verdict:
//   potential   max(0, pi(v) - pi(t)) on graphs whose weights were planted as
//               w(u,v) >= pi(u) - pi(v)                 (operand construction)
//   chebyshev   (grids) minimum weight x Chebyshev distance
//   half        floor(d(v,t) / 2) with d taken from gonum's own FloydWarshall
//               as a CANDIDATE (test-input selection; the certificate decides;
//               FloydWarshall's weights are themselves judged by an "apsp" event)

import (
	"fmt"
	"math"
	"math/rand"
	"sort"
	"strconv"
	"strings"
	"time"

	"gonum.org/v1/gonum/graph"
	"gonum.org/v1/gonum/graph/iterator"
	"gonum.org/v1/gonum/graph/multi"
	"gonum.org/v1/gonum/graph/path"
	"gonum.org/v1/gonum/graph/simple"
	"gonum.org/v1/gonum/graph/traverse"

	"gonum.org/v1/gonum/verifharness/internal/core"
)

func init() {
	core.RegisterRecord("path-astar", recordAStar)
}

type wedge struct {
	u, v int // 0-based model nodes
	w    int64
}

// agraph is one seeded graph: model nodes 1..n, an edge list, and the real ids.
type agraph struct {
	fam  string
	n    int
	dir  bool
	es   []wedge
	ids  []int64 // scrambled, non-contiguous
	r2m  map[int64]int64
	pi   []int64 // planted potential (family "potential")
	rows int     // grids
	cols int
}

func newAGraph(rng *rand.Rand, fam string, minn, maxn int) *agraph {
	a := &agraph{fam: fam, dir: true}
	n := minn + rng.Intn(maxn-minn+1)
	seen := map[[2]int]bool{}
	add := func(u, v int, w int64) {
		if u == v {
			return
		}
		k := [2]int{u, v}
		if !a.dir && u > v {
			k = [2]int{v, u}
		}
		if seen[k] {
			return
		}
		seen[k] = true
		a.es = append(a.es, wedge{k[0], k[1], w})
	}
	wide := func() int64 { return int64(1 + rng.Intn(20)) }
	switch fam {
	case "dense-wide", "dense-wide-undirected":
		a.dir = fam == "dense-wide"
		p := 25 + rng.Intn(40)
		for u := 0; u < n; u++ {
			for v := 0; v < n; v++ {
				if rng.Intn(100) < p {
					add(u, v, wide())
				}
			}
		}
	case "sparse-wide", "sparse-wide-undirected":
		a.dir = fam == "sparse-wide"
		deg := 3 + rng.Intn(3)
		for i := 0; i < deg*n; i++ {
			add(rng.Intn(n), rng.Intn(n), wide())
		}
	case "skewed":
		// a few very cheap long chains inside a dense expensive graph: the cheap route to a
		// node is found late, after the node has been queued with a large score
		a.dir = rng.Intn(2) == 0
		perm := rng.Perm(n)
		for i := 0; i+1 < n; i++ {
			add(perm[i], perm[i+1], int64(1+rng.Intn(2)))
		}
		for u := 0; u < n; u++ {
			for v := 0; v < n; v++ {
				if rng.Intn(100) < 45 {
					add(u, v, int64(6+rng.Intn(15)))
				}
			}
		}
	case "grid-diag", "grid-diag-undirected":
		a.dir = fam == "grid-diag"
		for {
			a.rows, a.cols = 3+rng.Intn(5), 3+rng.Intn(5)
			if a.rows*a.cols >= minn && a.rows*a.cols <= maxn {
				break
			}
		}
		n = a.rows * a.cols
		at := func(i, j int) int { return i*a.cols + j }
		for i := 0; i < a.rows; i++ {
			for j := 0; j < a.cols; j++ {
				for _, d := range [][2]int{{0, 1}, {1, 0}, {0, -1}, {-1, 0}} {
					if x, y := i+d[0], j+d[1]; x >= 0 && x < a.rows && y >= 0 && y < a.cols {
						add(at(i, j), at(x, y), wide())
					}
				}
				for _, d := range [][2]int{{1, 1}, {1, -1}, {-1, 1}, {-1, -1}} {
					if x, y := i+d[0], j+d[1]; x >= 0 && x < a.rows && y >= 0 && y < a.cols && rng.Intn(100) < 40 {
						add(at(i, j), at(x, y), wide())
					}
				}
			}
		}
	case "potential":
		// w(u,v) = max(0, pi(u) - pi(v)) + extra with extra >= 1: the potential heuristic
		// max(0, pi(v) - pi(t)) is consistent by construction (and certified by the spec)
		a.dir = rng.Intn(3) != 0
		a.pi = make([]int64, n)
		for i := range a.pi {
			a.pi[i] = int64(rng.Intn(25))
		}
		p := 25 + rng.Intn(35)
		for u := 0; u < n; u++ {
			for v := 0; v < n; v++ {
				if rng.Intn(100) < p {
					d := a.pi[u] - a.pi[v]
					if !a.dir && d < 0 {
						d = -d
					}
					if d < 0 {
						d = 0
					}
					add(u, v, d+int64(1+rng.Intn(8)))
				}
			}
		}
	default:
		panic("unknown family " + fam)
	}
	a.n = n
	// scrambled, non-contiguous real ids (negative and beyond 2^40 included)
	base := rng.Int63n(1000) - 500
	step := rng.Int63n(7) + 1
	perm := rng.Perm(n)
	a.ids = make([]int64, n)
	a.r2m = map[int64]int64{}
	for i := 0; i < n; i++ {
		a.ids[i] = base + int64(perm[i])*step*3 + int64(rng.Intn(3))
		if i%7 == 3 {
			a.ids[i] += 1 << 40
		}
		a.r2m[a.ids[i]] = int64(i + 1)
	}
	return a
}

// lists returns the adjacency lists of the graph event.
func (a *agraph) lists() (in [][][2]int64, out [][]int64) {
	in = make([][][2]int64, a.n)
	out = make([][]int64, a.n)
	for i := range in {
		in[i], out[i] = [][2]int64{}, []int64{}
	}
	link := func(u, v int, w int64) {
		out[u] = append(out[u], int64(v+1))
		in[v] = append(in[v], [2]int64{int64(u + 1), w})
	}
	for _, e := range a.es {
		link(e.u, e.v, e.w)
		if !a.dir {
			link(e.v, e.u, e.w)
		}
	}
	return
}

// orderedView lists successors in a fixed order (ascending / descending real id, or a fixed
// shuffle) instead of the map order of the container. It stays a graph.Graph and Weighted.
type orderedView struct {
	graph.Graph
	w     path.Weighted
	order string
	salt  int64
}

func (o orderedView) Weight(u, v int64) (float64, bool) { return o.w.Weight(u, v) }
func (o orderedView) From(id int64) graph.Nodes {
	nodes := graph.NodesOf(o.Graph.From(id))
	if len(nodes) == 0 {
		return graph.Empty
	}
	switch o.order {
	case "asc":
		sort.Slice(nodes, func(i, j int) bool { return nodes[i].ID() < nodes[j].ID() })
	case "desc":
		sort.Slice(nodes, func(i, j int) bool { return nodes[i].ID() > nodes[j].ID() })
	default: // a fixed pseudo-random order per (salt, id)
		sort.Slice(nodes, func(i, j int) bool { return nodes[i].ID() < nodes[j].ID() })
		r := rand.New(rand.NewSource(o.salt*1000003 + id))
		r.Shuffle(len(nodes), func(i, j int) { nodes[i], nodes[j] = nodes[j], nodes[i] })
	}
	return iterator.NewOrderedNodes(nodes)
}

// costerView adds a HeuristicCost method answering from a table (used with a nil heuristic).
type costerView struct {
	orderedView
	h func(x, y graph.Node) float64
}

func (c costerView) HeuristicCost(x, y graph.Node) float64 { return c.h(x, y) }

// container builds the real graph in one of the containers; ids gives the real id of every
// model node (matrices need 0..n-1).
func (a *agraph) container(kind string, ids []int64) graph.Graph {
	we := func(e wedge) simple.WeightedEdge {
		return simple.WeightedEdge{F: simple.Node(ids[e.u]), T: simple.Node(ids[e.v]), W: float64(e.w)}
	}
	switch kind {
	case "simple":
		if a.dir {
			g := simple.NewWeightedDirectedGraph(0, math.Inf(1))
			for _, id := range ids {
				g.AddNode(simple.Node(id))
			}
			for _, e := range a.es {
				g.SetWeightedEdge(we(e))
			}
			return g
		}
		g := simple.NewWeightedUndirectedGraph(0, math.Inf(1))
		for _, id := range ids {
			g.AddNode(simple.Node(id))
		}
		for _, e := range a.es {
			g.SetWeightedEdge(we(e))
		}
		return g
	case "matrix":
		if a.dir {
			g := simple.NewDirectedMatrix(a.n, math.Inf(1), 0, math.Inf(1))
			for _, e := range a.es {
				g.SetWeightedEdge(we(e))
			}
			return g
		}
		g := simple.NewUndirectedMatrix(a.n, math.Inf(1), 0, math.Inf(1))
		for _, e := range a.es {
			g.SetWeightedEdge(we(e))
		}
		return g
	case "multi":
		if a.dir {
			g := multi.NewWeightedDirectedGraph()
			for _, id := range ids {
				g.AddNode(multi.Node(id))
			}
			for _, e := range a.es {
				g.SetWeightedLine(g.NewWeightedLine(multi.Node(ids[e.u]), multi.Node(ids[e.v]), float64(e.w)))
			}
			return g
		}
		g := multi.NewWeightedUndirectedGraph()
		for _, id := range ids {
			g.AddNode(multi.Node(id))
		}
		for _, e := range a.es {
			g.SetWeightedLine(g.NewWeightedLine(multi.Node(ids[e.u]), multi.Node(ids[e.v]), float64(e.w)))
		}
		return g
	}
	panic("unknown container " + kind)
}

// view is one way of presenting the graph to the routines.
type view struct {
	name string
	g    graph.Graph // also traverse.Graph and path.Weighted
	ids  []int64
	r2m  map[int64]int64
}

func (v *view) models(p []graph.Node) []int64 {
	out := make([]int64, 0, len(p))
	for _, n := range p {
		if n == nil {
			out = append(out, 0)
			continue
		}
		out = append(out, v.r2m[n.ID()])
	}
	return out
}

func (a *agraph) views(rng *rand.Rand, which []string) []*view {
	contig := make([]int64, a.n)
	cm := map[int64]int64{}
	for i := range contig {
		contig[i] = int64(i)
		cm[int64(i)] = int64(i + 1)
	}
	var vs []*view
	for _, w := range which {
		parts := strings.SplitN(w, "/", 2)
		ids, r2m := a.ids, a.r2m
		if parts[0] == "matrix" {
			ids, r2m = contig, cm
		}
		g := a.container(parts[0], ids)
		if len(parts) == 2 {
			g = orderedView{Graph: g, w: g.(path.Weighted), order: parts[1], salt: rng.Int63n(1 << 30)}
		}
		vs = append(vs, &view{name: w, g: g, ids: ids, r2m: r2m})
	}
	return vs
}

var aStarFamilies = []string{"dense-wide", "dense-wide-undirected", "grid-diag", "potential", "sparse-wide", "skewed",
	"grid-diag-undirected", "sparse-wide-undirected"}

// all presentations; every graph uses the first one and a seeded choice of the others
var aStarViews = []string{"simple", "simple/asc", "simple/desc", "simple/shuffle", "matrix", "multi", "multi/asc"}

func recordAStar(out *core.Out, args []string, seed int64, sum *core.Summary) error {
	ngraphs, _ := strconv.Atoi(argOf(args, "graphs", "16"))
	minn, _ := strconv.Atoi(argOf(args, "minn", "10"))
	maxn, _ := strconv.Atoi(argOf(args, "maxn", "40"))
	nviews, _ := strconv.Atoi(argOf(args, "views", "3"))
	fams := strings.Split(argOf(args, "fams", strings.Join(aStarFamilies, ",")), ",")
	rng := rand.New(rand.NewSource(seed*6151 + 29))
	const limit = 60 * time.Second
	hung := func(what string, a *agraph) {
		sum.Fail("path:"+what+":hang", fmt.Sprintf("%s did not return within 60 s on a %s graph with %d nodes (seed %d)", what, a.fam, a.n, seed), nil)
	}
	for gi := 0; gi < ngraphs; gi++ {
		fam := fams[gi%len(fams)]
		a := newAGraph(rng, fam, minn, maxn)
		n := a.n
		in, ou := a.lists()
		out.Emit(ev{"op": "graph", "r": fam, "n": n, "dir": a.dir, "in": in, "out": ou})
		sum.Traces++
		sum.Count("graphs:"+fam, 1)

		which := []string{"simple"}
		for _, i := range rng.Perm(len(aStarViews) - 1)[:nviews-1] {
			which = append(which, aStarViews[i+1])
		}
		views := a.views(rng, which)

		// ---- heuristic tables (candidates; the specification certifies them) ----
		type heur struct {
			name string
			h    [][]int64
		}
		var heurs []heur
		table := func(f func(v, t int) int64) [][]int64 {
			h := make([][]int64, n)
			for v := range h {
				h[v] = make([]int64, n)
				for t := range h[v] {
					h[v][t] = f(v, t)
				}
			}
			return h
		}
		switch {
		case a.pi != nil:
			heurs = append(heurs, heur{"potential", table(func(v, t int) int64 {
				d := a.pi[v] - a.pi[t]
				if !a.dir && d < 0 {
					d = -d
				}
				if d < 0 {
					d = 0
				}
				return d
			})})
		case a.rows > 0:
			minw := int64(math.MaxInt64)
			for _, e := range a.es {
				if e.w < minw {
					minw = e.w
				}
			}
			heurs = append(heurs, heur{"chebyshev", table(func(v, t int) int64 {
				dr, dc := abs(v/a.cols-t/a.cols), abs(v%a.cols-t%a.cols)
				if dr < dc {
					dr = dc
				}
				return minw * int64(dr)
			})})
		}
		{
			var fw path.AllShortest
			o := core.CallTimeout(limit, func() { fw, _ = path.FloydWarshall(views[0].g) })
			if o.Hung {
				hung("FloydWarshall", a)
				return nil
			}
			if !o.Panicked {
				heurs = append(heurs, heur{"half", table(func(v, t int) int64 {
					d := fw.Weight(views[0].ids[v], views[0].ids[t])
					if math.IsInf(d, 0) || math.IsNaN(d) {
						return 1000000 // t cannot be reached from v: any large value keeps the table consistent
					}
					return int64(math.Floor(d / 2))
				})})
			}
		}

		// ---- A*: every (s, t), every heuristic, every view ----
		astarRows := func(v *view, hk, hname string, g traverse.Graph, h path.Heuristic) bool {
			for s := 1; s <= n; s++ {
				w := make([]ext, n)
				p := make([][]int64, n)
				pn := make([]bool, n)
				sn := simple.Node(v.ids[s-1])
				for t := 1; t <= n; t++ {
					tn := simple.Node(v.ids[t-1])
					var pp []graph.Node
					var pw float64
					o := core.CallTimeout(limit, func() {
						sh, _ := path.AStar(sn, tn, g, h)
						pp, pw = sh.To(tn.ID())
					})
					if o.Hung {
						hung("AStar", a)
						return false
					}
					w[t-1], p[t-1], pn[t-1] = ext{3, 0}, []int64{}, o.Panicked
					if !o.Panicked {
						w[t-1], p[t-1] = toExt(pw), v.models(pp)
					}
					sum.Count("astar-calls", 1)
				}
				out.Emit(ev{"op": "astar", "r": "AStar(" + hname + ")@" + v.name, "hk": hk, "s": s, "panic": pn, "w": w, "p": p})
			}
			return true
		}
		for vi, v := range views {
			if !astarRows(v, "null", "null", v.g, path.NullHeuristic) {
				return nil
			}
			if vi == 0 && !astarRows(v, "nil", "nil", v.g, nil) {
				return nil
			}
		}
		for hi, hr := range heurs {
			out.Emit(ev{"op": "aheur", "r": hr.name, "h": hr.h})
			for vi, v := range views {
				v := v
				hf := func(x, y graph.Node) float64 { return float64(hr.h[v.r2m[x.ID()]-1][v.r2m[y.ID()]-1]) }
				if !astarRows(v, "table", hr.name, v.g, hf) {
					return nil
				}
				if (vi+hi)%2 == 0 {
					ov, ok := v.g.(orderedView)
					if !ok {
						ov = orderedView{Graph: v.g, w: v.g.(path.Weighted), order: "asc"}
					}
					if !astarRows(v, "coster", hr.name+",HeuristicCost", costerView{ov, hf}, nil) {
						return nil
					}
				}
			}
		}

		// ---- the Dijkstra family on the same graphs (its own priority queue) ----
		for vi, v := range views {
			for s := 1; s <= n; s++ {
				sn := simple.Node(v.ids[s-1])
				row := func(name string, alt, panicked bool, wt func(int64) float64, to func(int64) []graph.Node) {
					w := make([]ext, n)
					p := make([][]int64, n)
					for t := 1; t <= n; t++ {
						p[t-1], w[t-1] = []int64{}, ext{3, 0}
						if !panicked {
							w[t-1] = toExt(wt(v.ids[t-1]))
							p[t-1] = v.models(to(v.ids[t-1]))
						}
					}
					out.Emit(ev{"op": "sssp", "r": name + "@" + v.name, "fam": "dijkstra", "s": s, "alt": alt, "panic": panicked, "ok": true, "w": w, "p": p})
				}
				var sh path.Shortest
				o := core.CallTimeout(limit, func() { sh = path.DijkstraFrom(sn, v.g) })
				if o.Hung {
					hung("DijkstraFrom", a)
					return nil
				}
				row("DijkstraFrom", false, o.Panicked, sh.WeightTo, func(t int64) []graph.Node { p, _ := sh.To(t); return p })
				if vi == 0 {
					var sa path.ShortestAlts
					o = core.CallTimeout(limit, func() { sa = path.DijkstraAllFrom(sn, v.g) })
					if o.Hung {
						hung("DijkstraAllFrom", a)
						return nil
					}
					row("DijkstraAllFrom", true, o.Panicked, sa.WeightTo, func(t int64) []graph.Node { p, _, _ := sa.To(t); return p })
				}
				// DijkstraFromTo stops early: one event per target
				for _, ti := range rng.Perm(n)[:4] {
					tn := simple.Node(v.ids[ti])
					var pp []graph.Node
					var pw float64
					o = core.CallTimeout(limit, func() { pp, pw = path.DijkstraFromTo(sn, tn, v.g) })
					if o.Hung {
						hung("DijkstraFromTo", a)
						return nil
					}
					out.Emit(ev{"op": "pt", "r": "DijkstraFromTo@" + v.name, "s": s, "t": ti + 1, "panic": o.Panicked, "w": toExt(pw), "p": v.models(pp)})
					sum.Count("dijkstra-fromto-calls", 1)
				}
			}
		}
		// all pairs: DijkstraAllPaths and (as the source of the "half" candidates) FloydWarshall
		v0 := views[0]
		for _, r := range []struct {
			name, fam string
			f         func() (path.AllShortest, bool)
		}{
			{"DijkstraAllPaths", "dijkstra", func() (path.AllShortest, bool) { return path.DijkstraAllPaths(v0.g), true }},
			{"FloydWarshall", "floyd", func() (path.AllShortest, bool) { return path.FloydWarshall(v0.g) }},
		} {
			var ap path.AllShortest
			var ok bool
			o := core.CallTimeout(limit, func() { ap, ok = r.f() })
			if o.Hung {
				hung(r.name, a)
				return nil
			}
			w := make([][]ext, n)
			for s := 1; s <= n; s++ {
				w[s-1] = make([]ext, n)
				for t := 1; t <= n; t++ {
					w[s-1][t-1] = ext{3, 0}
					if !o.Panicked {
						w[s-1][t-1] = toExt(ap.Weight(v0.ids[s-1], v0.ids[t-1]))
					}
				}
			}
			pp := []ev{}
			if !o.Panicked && ok {
				for i := 0; i < 12; i++ {
					s, t := 1+rng.Intn(n), 1+rng.Intn(n)
					if s == t {
						continue
					}
					p, pw, _ := ap.Between(v0.ids[s-1], v0.ids[t-1])
					pp = append(pp, ev{"s": s, "t": t, "p": v0.models(p), "w": toExt(pw)})
				}
			}
			out.Emit(ev{"op": "apsp", "r": r.name + "@" + v0.name, "fam": r.fam, "panic": o.Panicked, "ok": ok || o.Panicked && r.fam == "dijkstra", "w": w, "pp": pp})
		}
		// Yen's candidate heap: k shortest loopless paths, or all within a cost bound (k = -1); the
		// trace specification judges the paths, specs/path/YenSearch.tla that none is missing
		for i := 0; i < 16; i++ {
			s, t := 1+rng.Intn(n), 1+rng.Intn(n)
			if s == t {
				continue
			}
			k := []int{1, 2, 3, 5, 8, 12, -1}[rng.Intn(7)]
			c := []int64{0, 1, 3, 8, 99}[rng.Intn(5)]
			if k < 0 && c == 99 {
				c = 5 // k < 0 with an infinite bound asks for every simple path
			}
			cost := float64(c)
			if c == 99 {
				cost = math.Inf(1)
			}
			v := views[0] // a raw container: a wrapped view hides graph.Directed from Yen
			var ps [][]graph.Node
			o := core.CallTimeout(limit, func() {
				ps = path.YenKShortestPaths(v.g, k, cost, simple.Node(v.ids[s-1]), simple.Node(v.ids[t-1]))
			})
			if o.Hung {
				hung("YenKShortestPaths", a)
				return nil
			}
			mp := make([][]int64, 0, len(ps))
			for _, p := range ps {
				mp = append(mp, v.models(p))
			}
			out.Emit(ev{"op": "yen", "r": "YenKShortestPaths@" + v.name, "s": s, "t": t, "k": k, "c": c, "panic": o.Panicked, "ps": mp})
		}
	}
	return nil
}
