// Package paths binds specs/path/ShortestPath.tla to gonum's graph/path
// package. spec->code (this file): every graph case printed by TLC carries the
// complete expected answer of every query (true weights incl. +Inf/-Inf,
// negative-cycle flags, the sets of shortest simple paths, the table of all
// simple paths with their weights, Yen counts); the harness builds the graph,
// calls the real routines and compares. It contains no shortest-path
// computation of its own: a returned path is judged by looking it up in the
// spec's tables, a returned weight by comparing it with the spec's number.
package paths

import (
	"encoding/json"
	"fmt"
	"math"
	"strconv"
	"strings"
	"sync"
	"time"

	"gonum.org/v1/gonum/graph"
	"gonum.org/v1/gonum/graph/path"
	"gonum.org/v1/gonum/graph/simple"

	"gonum.org/v1/gonum/verifharness/internal/core"
)

func init() {
	core.RegisterReplay("path-small", replaySmall)
}

// ext is an extended integer printed by the spec: [0,x] finite, [1,0] +Inf, [2,0] -Inf.
type ext [2]int64

func (e ext) fin() bool  { return e[0] == 0 }
func (e ext) pinf() bool { return e[0] == 1 }
func (e ext) ninf() bool { return e[0] == 2 }
func (e ext) float() float64 {
	switch e[0] {
	case 0:
		return float64(e[1])
	case 1:
		return math.Inf(1)
	}
	return math.Inf(-1)
}
func (e ext) String() string {
	switch e[0] {
	case 0:
		return fmt.Sprint(e[1])
	case 1:
		return "+Inf"
	}
	return "-Inf"
}

type pathRec struct {
	P []int64 `json:"p"`
	W int64   `json:"w"`
}

type selfRec struct {
	P []int64 `json:"p"`
	W ext     `json:"w"`
}

type yenRec struct {
	S   int   `json:"s"`
	T   int   `json:"t"`
	K   int   `json:"k"`
	C   int64 `json:"c"`
	Cnt int   `json:"cnt"`
}

// gcase is one graph with all expected answers (emitted by EmitCase).
type gcase struct {
	K           string        `json:"k"`
	Dir         bool          `json:"dir"`
	N           int           `json:"n"`
	E           [][3]int64    `json:"e"`
	TW          [][]ext       `json:"tw"`
	NegFrom     []bool        `json:"negfrom"`
	AnyNeg      bool          `json:"anyneg"`
	NegEdgeFrom []bool        `json:"negedgefrom"`
	AnyNegEdge  bool          `json:"anynegedge"`
	Src         []int         `json:"src"`        // src[s-1]: the node From() of a tree for source s must return
	SelfAbsent  []selfRec     `json:"selfabsent"` // legal answers of Between(a, a) for the absent id a
	Orders      [][]int64     `json:"orders"`     // tie-rich family: node orders for containers with a deterministic node order
	Sink        []bool        `json:"sink"`
	ZCyc        bool          `json:"zcyc"` // the graph has a zero-weight cycle
	SP          [][][][]int64 `json:"sp"`
	Simple      [][][]pathRec `json:"simple"`
	Uniq        [][]int       `json:"uniq"`
	AW          [][][]int64   `json:"aw"`
	Yen         []yenRec      `json:"yen"`
}

// travOnly hides everything but the traverse.Graph and Weighted methods, so
// that the routines take their "not a graph.Graph" branch (nodes added lazily).
type travOnly struct{ g graph.Graph }

func (t travOnly) From(id int64) graph.Nodes      { return t.g.From(id) }
func (t travOnly) Edge(u, v int64) graph.Edge     { return t.g.Edge(u, v) }
func (t travOnly) Weight(u, v int64) (float64, bool) {
	return t.g.(graph.Weighted).Weight(u, v)
}

// travUniform is travOnly without Weight (UniformCost branch).
type travUniform struct{ g graph.Graph }

func (t travUniform) From(id int64) graph.Nodes  { return t.g.From(id) }
func (t travUniform) Edge(u, v int64) graph.Edge { return t.g.Edge(u, v) }

type tgraph interface {
	From(id int64) graph.Nodes
	Edge(u, v int64) graph.Edge
}

type checker struct {
	c     *gcase
	raw   json.RawMessage
	sum   *core.Summary
	ids   []int64 // model id i (1-based) -> real id ids[i-1]
	r2m   map[int64]int64
	g     graph.Graph // the real graph
	kind  string
	view  string
	fails int
	tag   string // prefix of the signatures of a stage ("ties:")
	nreps int    // repetitions of a randomised query (0: the default rule)
	allQ  int    // finite all-shortest-paths answers compared with the spec's set
	allP  int    // paths in them
	fromQ int    // From() answers judged
	selfQ int // answers to a -> a on the absent id judged
}

func (k *checker) fail(routine, what, f string, a ...any) {
	k.fails++
	cs := k.raw // the spec-emitted case verbatim: replayable alone
	k.sum.Fail("path:"+k.tag+routine+":"+what, fmt.Sprintf("[%s/%s ids=%v] ", k.kind, k.view, k.ids)+fmt.Sprintf(f, a...)+" graph n="+fmt.Sprint(k.c.N)+" e="+fmt.Sprint(k.c.E), cs)
}

func (k *checker) real(m int) int64 { return k.ids[m-1] }

func (k *checker) models(p []graph.Node) ([]int64, bool) {
	out := make([]int64, len(p))
	for i, n := range p {
		if n == nil {
			return nil, false
		}
		m, ok := k.r2m[n.ID()]
		if !ok {
			return nil, false
		}
		out[i] = m
	}
	return out, true
}

// key encodes a path of model ids (all < 256) as a string.
func key(p []int64) string {
	b := make([]byte, len(p))
	for i, x := range p {
		b[i] = byte(x)
	}
	return string(b)
}

// want returns the spec's true weight for model ids s,t (absent ids are n+1).
func (k *checker) want(s, t int) ext { return k.c.TW[s-1][t-1] }

func (k *checker) present(s int) bool { return s <= k.c.N }

func sameW(got float64, w ext) bool {
	switch {
	case w.fin():
		return got == float64(w[1])
	case w.pinf():
		return math.IsInf(got, 1)
	default:
		return math.IsInf(got, -1)
	}
}

// inSP reports whether p is one of the spec's shortest simple paths s->t.
func (k *checker) inSP(s, t int, p []int64) bool {
	if !k.present(s) || !k.present(t) {
		return false
	}
	for _, q := range k.c.SP[s-1][t-1] {
		if key(q) == key(p) {
			return true
		}
	}
	return false
}

// checkOne judges a (path, weight) answer for s->t against the spec (no negative cycle on the way).
func (k *checker) checkOne(routine string, s, t int, p []graph.Node, w float64) {
	want := k.want(s, t)
	if !sameW(w, want) {
		k.fail(routine, "weight", "%d->%d weight %v, spec %v", s, t, w, want)
		return
	}
	if want.pinf() {
		if len(p) != 0 {
			k.fail(routine, "path", "%d->%d unreachable but path %v returned", s, t, p)
		}
		return
	}
	if want.fin() {
		mp, ok := k.models(p)
		if !ok || !k.inSP(s, t, mp) {
			k.fail(routine, "path", "%d->%d returned path %v (model ids %v) is not a shortest simple path of the spec %v", s, t, p, mp, k.c.SP[s-1][t-1])
		}
	}
}

// checkOneAlt is checkOne for the two methods that walk random predecessors and cut zero-weight
// cycles (ShortestAlts.To, AllShortest.Between): a non-shortest-path answer on a graph with a
// zero-weight cycle gets its own signature (the stale-index cut in graph/path/shortest.go).
func (k *checker) checkOneAlt(routine string, s, t int, p []graph.Node, w float64) {
	want := k.want(s, t)
	if k.c.ZCyc && want.fin() && sameW(w, want) {
		if mp, ok := k.models(p); !ok || !k.inSP(s, t, mp) {
			k.fail(routine, "zero-cycle-cut-nonwalk", "%d->%d returned path %v (model ids %v) is not a shortest simple path of the spec %v", s, t, p, mp, k.c.SP[s-1][t-1])
			return
		}
	}
	k.checkOne(routine, s, t, p, w)
}

// reps: how often a randomised query is repeated.
func (k *checker) reps() int {
	if k.nreps > 0 {
		return k.nreps
	}
	if k.c.ZCyc {
		return 25
	}
	return 3
}

// checkAll judges an all-shortest-paths answer.
func (k *checker) checkAll(routine string, s, t int, ps [][]graph.Node, w float64) {
	want := k.want(s, t)
	if !sameW(w, want) {
		k.fail(routine, "weight", "%d->%d weight %v, spec %v", s, t, w, want)
		return
	}
	if !want.fin() {
		if len(ps) != 0 {
			k.fail(routine, "allpaths", "%d->%d weight %v but %d paths returned", s, t, want, len(ps))
		}
		return
	}
	k.allQ++
	k.allP += len(ps)
	seen := map[string]bool{}
	for _, p := range ps {
		mp, ok := k.models(p)
		if !ok || !k.inSP(s, t, mp) {
			k.fail(routine, "allpaths", "%d->%d returned %v which is not a shortest simple path of the spec %v", s, t, mp, k.c.SP[s-1][t-1])
			return
		}
		if seen[key(mp)] {
			k.fail(routine, "allpaths", "%d->%d path %v returned twice", s, t, mp)
			return
		}
		seen[key(mp)] = true
	}
	if len(seen) != len(k.c.SP[s-1][t-1]) {
		k.fail(routine, "allpaths", "%d->%d returned %d of the %d shortest simple paths %v", s, t, len(seen), len(k.c.SP[s-1][t-1]), k.c.SP[s-1][t-1])
	}
}

func (k *checker) checkUnique(routine string, s, t int, unique bool) {
	if !k.present(s) || !k.present(t) {
		return
	}
	switch k.c.Uniq[s-1][t-1] {
	case 0:
		if unique {
			k.fail(routine, "unique", "%d->%d unique=true but the spec has %d shortest paths", s, t, len(k.c.SP[s-1][t-1]))
		}
	case 1:
		if !unique {
			k.fail(routine, "unique", "%d->%d unique=false but exactly one shortest walk exists", s, t)
		}
	}
}

// checkFrom judges Shortest.From / ShortestAlts.From of the tree returned for source s by looking
// up the spec's src table ("the starting node of the paths held by" the tree).
func (k *checker) checkFrom(routine string, s int, from func() graph.Node) {
	if len(k.c.Src) < s {
		return // a case file printed before the table existed
	}
	n := from() // a getter; a panic in it is caught by the watchdog of the graph run
	k.fromQ++
	if n == nil {
		k.fail(routine, "from", "From() of the tree for source %d is nil, spec: node %d", s, k.c.Src[s-1])
		return
	}
	if m, ok := k.r2m[n.ID()]; !ok || int(m) != k.c.Src[s-1] {
		k.fail(routine, "from", "From() of the tree for source %d has id %d (model node %d), spec: node %d (id %d)", s, n.ID(), m, k.c.Src[s-1], k.real(k.c.Src[s-1]))
	}
}

// checkSelfAbsent judges one answer (paths, weight) to a query a -> a on the absent id a: it must be
// one of the spec's legal answers (selfabsent), and the nodes of a returned path must carry the
// queried id (this is where the package's own node type is handed out).
func (k *checker) checkSelfAbsent(routine string, a int, ps [][]graph.Node, w float64) {
	if len(k.c.SelfAbsent) == 0 {
		return
	}
	k.selfQ++
	if len(ps) > 1 {
		k.fail(routine, "self-absent", "%d paths returned for %d->%d on an id that is not in the graph", len(ps), a, a)
		return
	}
	var mp []int64
	if len(ps) == 1 {
		var ok bool
		if mp, ok = k.models(ps[0]); !ok || len(mp) == 0 {
			k.fail(routine, "self-absent", "%d->%d on an id that is not in the graph returned the path %v with a nil or foreign node", a, a, ps[0])
			return
		}
	}
	for _, r := range k.c.SelfAbsent {
		if key(r.P) == key(mp) && len(r.P) == len(mp) && sameW(w, r.W) {
			return
		}
	}
	k.fail(routine, "self-absent", "%d->%d on an id that is not in the graph returned (path %v, weight %v); the legal answers are %v", a, a, mp, w, k.c.SelfAbsent)
}

const callLimit = 60 * time.Second

// run calls f under the watchdog; an unexpected panic or hang is a failure.
func (k *checker) run(routine string, mayPanic bool, f func()) (ok bool, panicked bool) {
	o := core.Call(f) // the watchdog is per graph run (see oneCase)
	if o.Panicked {
		if o.Runtime || !mayPanic {
			k.fail(routine, "panic", "unexpected panic: %s", o.Text)
		}
		return false, true
	}
	return true, false
}

type shortestLike interface {
	WeightTo(int64) float64
}

func (k *checker) queries() []int {
	q := make([]int, 0, k.c.N+1)
	for i := 1; i <= k.c.N+1; i++ {
		q = append(q, i)
	}
	return q
}

// skipPair: s = t on an absent id is left unspecified by the documentation
// (Weight says +Inf, Between says 0); in the traverse-only view a sink cannot
// be told from an absent node, so s = t on a sink is skipped there.
func (k *checker) skipPair(s, t int, tg tgraph) bool {
	if s == t && !k.present(s) {
		return true
	}
	if _, full := tg.(graph.Graph); !full && s == t && k.present(s) && k.c.Sink[s-1] {
		return true
	}
	return false
}

func (k *checker) singleSource(tg tgraph) {
	c := k.c
	for _, s := range k.queries() {
		sn := simple.Node(k.real(s))
		negEdge := k.present(s) && c.NegEdgeFrom[s-1]
		negCyc := k.present(s) && c.NegFrom[s-1]

		// ---- DijkstraFrom
		var sh path.Shortest
		if ok, pan := k.run("DijkstraFrom", negEdge, func() { sh = path.DijkstraFrom(sn, tg) }); ok {
			k.checkFrom("DijkstraFrom", s, func() graph.Node { return sh.From() })
			if negEdge {
				k.fail("DijkstraFrom", "nopanic", "source %d reaches a negative edge but DijkstraFrom did not panic", s)
			} else {
				for _, t := range k.queries() {
					if k.skipPair(s, t, tg) {
						continue
					}
					tid := k.real(t)
					if w := sh.WeightTo(tid); !sameW(w, k.want(s, t)) {
						k.fail("DijkstraFrom", "weight", "WeightTo %d->%d = %v, spec %v", s, t, w, k.want(s, t))
					}
					for rep := 0; rep < 2; rep++ {
						p, w := sh.To(tid)
						k.checkOne("DijkstraFrom", s, t, p, w)
					}
				}
			}
		} else if !pan {
			continue
		}

		// ---- DijkstraFromTo (early exit); with a reachable negative edge the documentation allows
		// either a panic or a result, so those sources are skipped.
		if !negEdge {
			for _, t := range k.queries() {
				if k.skipPair(s, t, tg) {
					continue
				}
				var p []graph.Node
				var w float64
				tn := simple.Node(k.real(t))
				if ok, _ := k.run("DijkstraFromTo", false, func() { p, w = path.DijkstraFromTo(sn, tn, tg) }); ok {
					if s == t && k.present(s) && c.Sink[s-1] {
						// isolated finding: see signature
						if !sameW(w, k.want(s, t)) || len(p) != 1 {
							k.fail("DijkstraFromTo", "sink-self", "DijkstraFromTo(u,u) on a node without out-edges returned (%v, %v); DijkstraFrom(u).To(u) gives ([u], 0)", p, w)
						}
						continue
					}
					k.checkOne("DijkstraFromTo", s, t, p, w)
				}
			}
		}

		// ---- DijkstraAllFrom
		var sa path.ShortestAlts
		if ok, _ := k.run("DijkstraAllFrom", negEdge, func() { sa = path.DijkstraAllFrom(sn, tg) }); ok {
			k.checkFrom("DijkstraAllFrom", s, func() graph.Node { return sa.From() })
			if negEdge {
				k.fail("DijkstraAllFrom", "nopanic", "source %d reaches a negative edge but DijkstraAllFrom did not panic", s)
			} else {
				k.checkAlts("DijkstraAllFrom", s, sa, tg)
			}
		}

		// ---- BellmanFordFrom
		var bok bool
		if ok, _ := k.run("BellmanFordFrom", false, func() { sh, bok = path.BellmanFordFrom(sn, tg) }); ok {
			k.checkFrom("BellmanFordFrom", s, func() graph.Node { return sh.From() })
			if bok == negCyc {
				k.fail("BellmanFordFrom", "negcycle-flag", "source %d: ok=%v but the spec says negative cycle reachable=%v", s, bok, negCyc)
			} else if bok {
				for _, t := range k.queries() {
					if k.skipPair(s, t, tg) {
						continue
					}
					tid := k.real(t)
					if w := sh.WeightTo(tid); !sameW(w, k.want(s, t)) {
						k.fail("BellmanFordFrom", "weight", "WeightTo %d->%d = %v, spec %v", s, t, w, k.want(s, t))
					}
					p, w := sh.To(tid)
					k.checkOne("BellmanFordFrom", s, t, p, w)
				}
			} else {
				k.negCycleSingle("BellmanFordFrom", s, func(tid int64) (float64, float64) {
					var w float64
					k.run("BellmanFordFrom.To", false, func() { _, w = sh.To(tid) })
					return sh.WeightTo(tid), w
				}, tg)
			}
		}

		// ---- BellmanFordAllFrom
		if ok, _ := k.run("BellmanFordAllFrom", false, func() { sa, bok = path.BellmanFordAllFrom(sn, tg) }); ok {
			k.checkFrom("BellmanFordAllFrom", s, func() graph.Node { return sa.From() })
			if bok == negCyc {
				k.fail("BellmanFordAllFrom", "negcycle-flag", "source %d: ok=%v but the spec says negative cycle reachable=%v", s, bok, negCyc)
			} else if bok {
				k.checkAlts("BellmanFordAllFrom", s, sa, tg)
			} else {
				k.negCycleSingle("BellmanFordAllFrom", s, func(tid int64) (float64, float64) {
					var w float64
					k.run("BellmanFordAllFrom.To", false, func() { _, w, _ = sa.To(tid) })
					return sa.WeightTo(tid), w
				}, tg)
			}
		}

		// ---- AStar with the two heuristics of the design: null, and half the true remaining
		// weight as printed by the spec (admissible and consistent)
		if !negEdge {
			for _, t := range k.queries() {
				if k.skipPair(s, t, tg) {
					continue
				}
				tn := simple.Node(k.real(t))
				half := func(x, y graph.Node) float64 {
					mx, ok1 := k.r2m[x.ID()]
					my, ok2 := k.r2m[y.ID()]
					if !ok1 || !ok2 {
						return 0
					}
					return k.want(int(mx), int(my)).float() / 2
				}
				for hi, h := range []path.Heuristic{nil, path.NullHeuristic, half} {
					name := []string{"AStar(nil)", "AStar(null)", "AStar(half)"}[hi]
					var as path.Shortest
					if ok, _ := k.run(name, false, func() { as, _ = path.AStar(sn, tn, tg, h) }); ok {
						k.checkFrom(name, s, func() graph.Node { return as.From() })
						p, w := as.To(tn.ID())
						k.checkOne(name, s, t, p, w)
					}
				}
			}
		}
	}
}

// negCycleSingle: what is still promised by a single-source tree when ok=false.
// Unreachable nodes must stay at +Inf (strict).  For reachable nodes the doc of To says
// "if the path to v includes a negative cycle ... weight will be returned as -Inf"; whether
// every affected node is marked depends on how far the relaxation got before the loop bound
// fired, so a difference there is counted as drift, not as a violation.
func (k *checker) negCycleSingle(routine string, s int, get func(tid int64) (wt, to float64), tg tgraph) {
	for _, t := range k.queries() {
		if k.skipPair(s, t, tg) {
			continue
		}
		want := k.want(s, t)
		wt, to := get(k.real(t))
		switch {
		case want.pinf():
			if !math.IsInf(wt, 1) || !math.IsInf(to, 1) {
				k.fail(routine, "negcycle-unreachable", "%d->%d is unreachable but WeightTo=%v To=%v", s, t, wt, to)
			}
		case want.ninf():
			if s == t {
				// a closed walk through a negative cycle: -Inf as a walk, 0 as the trivial path
				k.sum.Count("either:"+routine+":self-on-negcycle", 1)
			} else if !math.IsInf(to, -1) {
				k.sum.Count("drift:"+routine+":affected-node-not-marked", 1)
			} else {
				k.sum.Count("agree:"+routine+":affected-node-marked", 1)
			}
		default:
			if to != float64(want[1]) {
				k.sum.Count("drift:"+routine+":finite-node-under-negcycle", 1)
			} else {
				k.sum.Count("agree:"+routine+":finite-node-under-negcycle", 1)
			}
		}
	}
}

func (k *checker) checkAlts(routine string, s int, sa path.ShortestAlts, tg tgraph) {
	for _, t := range k.queries() {
		if k.skipPair(s, t, tg) {
			continue
		}
		tid := k.real(t)
		if w := sa.WeightTo(tid); !sameW(w, k.want(s, t)) {
			k.fail(routine, "weight", "WeightTo %d->%d = %v, spec %v", s, t, w, k.want(s, t))
		}
		for rep := 0; rep < k.reps(); rep++ {
			p, w, u := sa.To(tid)
			k.checkOneAlt(routine, s, t, p, w)
			if k.want(s, t).fin() {
				k.checkUnique(routine, s, t, u)
			}
		}
		var ps [][]graph.Node
		var w float64
		if ok, _ := k.run(routine+".AllTo", false, func() { ps, w = sa.AllTo(tid) }); ok {
			k.checkAll(routine+".AllTo", s, t, ps, w)
		}
		var fs [][]graph.Node
		if ok, _ := k.run(routine+".AllToFunc", false, func() {
			sa.AllToFunc(tid, func(p []graph.Node) { fs = append(fs, append([]graph.Node(nil), p...)) })
		}); ok {
			k.checkAll(routine+".AllToFunc", s, t, fs, k.want(s, t).float())
		}
	}
}

func (k *checker) allPairs() {
	c := k.c
	g := k.g
	check := func(routine string, ap path.AllShortest, negOK bool) {
		for _, s := range k.queries() {
			for _, t := range k.queries() {
				if s == t && !k.present(s) {
					// the answer is left open by the documentation: one of the spec's legal answers
					aid := k.real(s)
					var p []graph.Node
					var w float64
					if ok, _ := k.run(routine+".Between", false, func() { p, w, _ = ap.Between(aid, aid) }); ok {
						var ps [][]graph.Node
						if p != nil {
							ps = [][]graph.Node{p}
						}
						k.checkSelfAbsent(routine+".Between", s, ps, w)
					}
					var ps [][]graph.Node
					if ok, _ := k.run(routine+".AllBetween", false, func() { ps, w = ap.AllBetween(aid, aid) }); ok {
						k.checkSelfAbsent(routine+".AllBetween", s, ps, w)
					}
					var fs [][]graph.Node
					if ok, _ := k.run(routine+".AllBetweenFunc", false, func() {
						ap.AllBetweenFunc(aid, aid, func(p []graph.Node) { fs = append(fs, append([]graph.Node(nil), p...)) })
					}); ok {
						fw := math.Inf(1) // AllBetweenFunc reports no weight: a path handed to fn is the trivial one
						if len(fs) > 0 {
							fw = 0
						}
						k.checkSelfAbsent(routine+".AllBetweenFunc", s, fs, fw)
					}
					continue
				}
				sid, tid := k.real(s), k.real(t)
				want := k.want(s, t)
				if w := ap.Weight(sid, tid); !sameW(w, want) {
					k.fail(routine, "weight", "Weight %d->%d = %v, spec %v", s, t, w, want)
					continue
				}
				for rep := 0; rep < k.reps(); rep++ {
					p, w, u := ap.Between(sid, tid)
					if want.ninf() && s == t && len(p) == 1 && w == 0 {
						// a closed walk through a negative cycle: the spec's walk weight is -Inf, the
						// trivial path [s] of weight 0 is accepted as well (Weight and Between differ here)
						k.sum.Count("either:"+routine+":self-on-negcycle-trivial-path", 1)
						continue
					}
					if want.ninf() {
						if p != nil || !math.IsInf(w, -1) || u {
							k.fail(routine, "negcycle-between", "Between %d->%d on a negative cycle returned (%v,%v,%v), documented (nil,-Inf,false)", s, t, p, w, u)
						}
						continue
					}
					k.checkOneAlt(routine, s, t, p, w)
					if want.fin() {
						k.checkUnique(routine, s, t, u)
					}
				}
				var ps [][]graph.Node
				var w float64
				if ok, _ := k.run(routine+".AllBetween", false, func() { ps, w = ap.AllBetween(sid, tid) }); ok {
					if want.ninf() && s == t && len(ps) == 1 && len(ps[0]) == 1 && w == 0 {
						continue
					}
					k.checkAll(routine+".AllBetween", s, t, ps, w)
				}
				var fs [][]graph.Node
				if ok, _ := k.run(routine+".AllBetweenFunc", false, func() {
					ap.AllBetweenFunc(sid, tid, func(p []graph.Node) { fs = append(fs, append([]graph.Node(nil), p...)) })
				}); ok && !(want.ninf() && s == t && len(fs) == 1 && len(fs[0]) == 1) {
					k.checkAll(routine+".AllBetweenFunc", s, t, fs, want.float())
				}
			}
		}
	}

	var ap path.AllShortest
	if ok, _ := k.run("DijkstraAllPaths", c.AnyNegEdge, func() { ap = path.DijkstraAllPaths(g) }); ok {
		if c.AnyNegEdge {
			k.fail("DijkstraAllPaths", "nopanic", "graph has a negative edge but DijkstraAllPaths did not panic")
		} else {
			check("DijkstraAllPaths", ap, false)
		}
	}
	var fok bool
	if ok, _ := k.run("FloydWarshall", false, func() { ap, fok = path.FloydWarshall(g) }); ok {
		if fok == c.AnyNeg {
			k.fail("FloydWarshall", "negcycle-flag", "ok=%v but the spec says a negative cycle exists=%v", fok, c.AnyNeg)
		} else {
			// documented: with a negative cycle the returned paths stay valid and affected weights are -Inf
			check("FloydWarshall", ap, true)
		}
	}
	if ok, _ := k.run("JohnsonAllPaths", false, func() { ap, fok = path.JohnsonAllPaths(g) }); ok {
		if fok == c.AnyNeg {
			k.fail("JohnsonAllPaths", "negcycle-flag", "ok=%v but the spec says a negative cycle exists=%v", fok, c.AnyNeg)
		} else if fok {
			check("JohnsonAllPaths", ap, false)
		}
	}
}

func (k *checker) yen() {
	c := k.c
	if c.AnyNegEdge {
		return
	}
	for _, y := range c.Yen {
		cost := float64(y.C)
		if y.C == 99 {
			cost = math.Inf(1)
		}
		var ps [][]graph.Node
		sn, tn := simple.Node(k.real(y.S)), simple.Node(k.real(y.T))
		ok, _ := k.run("YenKShortestPaths", false, func() { ps = path.YenKShortestPaths(k.g, y.K, cost, sn, tn) })
		if !ok {
			continue
		}
		if y.S == y.T && c.Sink[y.S-1] {
			if len(ps) != y.Cnt {
				k.fail("YenKShortestPaths", "sink-self", "s=t=%d without out-edges: %d paths returned, spec %d (the trivial path)", y.S, len(ps), y.Cnt)
			}
			continue
		}
		table := map[string]int64{}
		for _, r := range c.Simple[y.S-1][y.T-1] {
			table[key(r.P)] = r.W
		}
		aw := c.AW[y.S-1][y.T-1]
		if len(ps) != y.Cnt {
			k.fail("YenKShortestPaths", "count", "%d->%d k=%d cost=%v: %d paths returned, spec %d (weights of all simple paths %v)", y.S, y.T, y.K, cost, len(ps), y.Cnt, aw)
			continue
		}
		seen := map[string]bool{}
		for i, p := range ps {
			mp, ok := k.models(p)
			w, in := table[key(mp)]
			if !ok || !in {
				k.fail("YenKShortestPaths", "path", "%d->%d k=%d cost=%v: path %v is not a simple path of the graph", y.S, y.T, y.K, cost, mp)
				break
			}
			if seen[key(mp)] {
				k.fail("YenKShortestPaths", "duplicate", "%d->%d k=%d cost=%v: path %v returned twice", y.S, y.T, y.K, cost, mp)
				break
			}
			seen[key(mp)] = true
			if w != aw[i] {
				k.fail("YenKShortestPaths", "order", "%d->%d k=%d cost=%v: path #%d %v has weight %d, the spec's %d lightest simple paths weigh %v", y.S, y.T, y.K, cost, i+1, mp, w, y.Cnt, aw[:y.Cnt])
				break
			}
		}
	}
}

// build constructs the real graph of the case for a kind.
func build(c *gcase, kind string, ids []int64) (graph.Graph, error) {
	switch kind {
	case "weighted":
		if c.Dir {
			g := simple.NewWeightedDirectedGraph(0, math.Inf(1))
			for i := 0; i < c.N; i++ {
				g.AddNode(simple.Node(ids[i]))
			}
			for _, e := range c.E {
				g.SetWeightedEdge(simple.WeightedEdge{F: simple.Node(ids[e[0]-1]), T: simple.Node(ids[e[1]-1]), W: float64(e[2])})
			}
			return g, nil
		}
		g := simple.NewWeightedUndirectedGraph(0, math.Inf(1))
		for i := 0; i < c.N; i++ {
			g.AddNode(simple.Node(ids[i]))
		}
		for _, e := range c.E {
			g.SetWeightedEdge(simple.WeightedEdge{F: simple.Node(ids[e[0]-1]), T: simple.Node(ids[e[1]-1]), W: float64(e[2])})
		}
		return g, nil
	case "matrix":
		seen := make([]bool, c.N)
		for i := 0; i < c.N; i++ {
			if ids[i] < 0 || ids[i] >= int64(c.N) || seen[ids[i]] {
				return nil, fmt.Errorf("matrix kind needs a permutation of the ids 0..n-1")
			}
			seen[ids[i]] = true
		}
		if ids[c.N] != int64(c.N) {
			return nil, fmt.Errorf("matrix kind needs the absent id n")
		}
		if c.N == 0 {
			return nil, nil
		}
		if c.Dir {
			g := simple.NewDirectedMatrix(c.N, math.Inf(1), 0, math.Inf(1))
			for _, e := range c.E {
				g.SetWeightedEdge(simple.WeightedEdge{F: simple.Node(ids[e[0]-1]), T: simple.Node(ids[e[1]-1]), W: float64(e[2])})
			}
			return g, nil
		}
		g := simple.NewUndirectedMatrix(c.N, math.Inf(1), 0, math.Inf(1))
		for _, e := range c.E {
			g.SetWeightedEdge(simple.WeightedEdge{F: simple.Node(ids[e[0]-1]), T: simple.Node(ids[e[1]-1]), W: float64(e[2])})
		}
		return g, nil
	case "uniform":
		for _, e := range c.E {
			if e[2] != 1 {
				return nil, fmt.Errorf("uniform kind needs unit weights")
			}
		}
		if c.Dir {
			g := simple.NewDirectedGraph()
			for i := 0; i < c.N; i++ {
				g.AddNode(simple.Node(ids[i]))
			}
			for _, e := range c.E {
				g.SetEdge(simple.Edge{F: simple.Node(ids[e[0]-1]), T: simple.Node(ids[e[1]-1])})
			}
			return g, nil
		}
		g := simple.NewUndirectedGraph()
		for i := 0; i < c.N; i++ {
			g.AddNode(simple.Node(ids[i]))
		}
		for _, e := range c.E {
			g.SetEdge(simple.Edge{F: simple.Node(ids[e[0]-1]), T: simple.Node(ids[e[1]-1])})
		}
		return g, nil
	}
	return nil, fmt.Errorf("unknown kind %q", kind)
}

func argOf(args []string, name, def string) string {
	for _, a := range args {
		if strings.HasPrefix(a, name+"=") {
			return a[len(name)+1:]
		}
	}
	return def
}

// replaySmall: args kinds=weighted,matrix,uniform  views=graph,traverse  ids=[[...],[...]]
// Cases are independent; they are checked by a small pool of workers, each with its own
// summary, merged at the end.
func replaySmall(in *core.Lines, args []string, seed int64, sum *core.Summary) error {
	kinds := strings.Split(argOf(args, "kinds", "weighted"), ",")
	views := strings.Split(argOf(args, "views", "graph"), ",")
	var idsets [][]int64
	if err := json.Unmarshal([]byte(argOf(args, "ids", "[[1,2,3,4,5,6]]")), &idsets); err != nil {
		return err
	}
	tag := argOf(args, "tag", "")                     // prefix of the signatures of the stage
	nreps, _ := strconv.Atoi(argOf(args, "reps", "0")) // repetitions of the randomised queries (0: default)
	nw := 8
	type job struct {
		line []byte
		n    int
	}
	jobs := make(chan job, 64)
	var wg sync.WaitGroup
	var mu sync.Mutex
	var firstErr error
	for w := 0; w < nw; w++ {
		wg.Add(1)
		go func() {
			defer wg.Done()
			local := &core.Summary{Extra: map[string]any{}}
			for j := range jobs {
				if err := oneCase(j.line, j.n, kinds, views, idsets, tag, nreps, local); err != nil {
					mu.Lock()
					if firstErr == nil {
						firstErr = err
					}
					mu.Unlock()
				}
			}
			mu.Lock()
			sum.Cases += local.Cases
			sum.Nontrivial += local.Nontrivial
			for _, f := range local.Failures {
				sum.Fail(f.Sig, f.Msg, f.Case)
			}
			for _, sm := range local.Samples {
				sum.Sample(sm)
			}
			for k, v := range local.Extra {
				sum.Count(k, v.(int))
			}
			mu.Unlock()
		}()
	}
	for {
		b, ok := in.Next()
		if !ok {
			break
		}
		jobs <- job{append([]byte(nil), b...), in.N}
	}
	close(jobs)
	wg.Wait()
	return firstErr
}

func oneCase(b []byte, lineNo int, kinds, views []string, idsets [][]int64, tag string, nreps int, sum *core.Summary) error {
	var c gcase
	if err := json.Unmarshal(b, &c); err != nil {
		return fmt.Errorf("line %d: %v", lineNo, err)
	}
	if c.K != "g" {
		return nil
	}
	raw := json.RawMessage(b)
	for _, kind := range kinds {
		sets := idsets
		if kind == "matrix" {
			// a dense matrix enumerates its nodes in id order: the ids 0..n-1 in model order, or - tie-rich
			// family - one binding per node order printed by the spec (model node m sits at position o[m])
			id0 := make([]int64, c.N+1)
			for i := range id0 {
				id0[i] = int64(i)
			}
			sets = [][]int64{id0}
			for oi, o := range c.Orders {
				if len(o) != c.N {
					return fmt.Errorf("line %d: order of length %d for %d nodes", lineNo, len(o), c.N)
				}
				ids := make([]int64, c.N+1)
				for m := range o {
					ids[m] = o[m] - 1
				}
				ids[c.N] = int64(c.N)
				if oi == 0 {
					sets = sets[:0]
				}
				sets = append(sets, ids)
			}
		}
		for _, ids := range sets {
			if len(ids) < c.N+1 {
				return fmt.Errorf("need %d ids", c.N+1)
			}
			g, err := build(&c, kind, ids)
			if err != nil {
				return err
			}
			if g == nil {
				continue
			}
			k := &checker{c: &c, raw: raw, sum: sum, ids: ids[:c.N+1], g: g, kind: kind, r2m: map[int64]int64{}, tag: tag, nreps: nreps}
			for i, id := range k.ids {
				k.r2m[id] = int64(i + 1)
			}
			for _, view := range views {
				k.view = view
				var tg tgraph = g
				if view == "traverse" {
					if kind == "uniform" {
						tg = travUniform{g}
					} else {
						tg = travOnly{g}
					}
				}
				if o := core.CallTimeout(callLimit, func() {
					k.singleSource(tg)
					if view == "graph" {
						k.allPairs()
						k.yen()
					}
				}); o.Hung || o.Panicked {
					k.fail("any", "hang-or-harness-panic", "%s", o.Text)
				}
				sum.Count("graph-runs", 1)
			}
			sum.Count("all-paths-sets", k.allQ)
			sum.Count("all-paths-paths", k.allP)
			sum.Count("from-queries", k.fromQ)
			sum.Count("self-absent-queries", k.selfQ)
		}
	}
	sum.Cases++
	if len(c.E) > 0 {
		sum.Nontrivial++
	}
	if lineNo%997 == 1 {
		sum.Sample(map[string]any{"n": c.N, "dir": c.Dir, "e": c.E, "tw": c.TW, "anyneg": c.AnyNeg})
	}
	return nil
}
