package paths

// code->spec for graph/path/dynamic.DStarLite: random positive-weight worlds,
// the documented replanning loop (Step, change edge costs, UpdateWorld) with the
// planner's answers logged after every action. Judged by ShortestPathTrace.tla.

import (
	"fmt"
	"math"
	"math/rand"
	"strconv"
	"time"

	"gonum.org/v1/gonum/graph"
	"gonum.org/v1/gonum/graph/path"
	"gonum.org/v1/gonum/graph/path/dynamic"
	"gonum.org/v1/gonum/graph/simple"

	"gonum.org/v1/gonum/verifharness/internal/core"
)

func init() {
	core.RegisterRecord("path-dstar", recordDStar)
}

func recordDStar(out *core.Out, args []string, seed int64, sum *core.Summary) error {
	worlds, _ := strconv.Atoi(argOf(args, "worlds", "40"))
	rounds, _ := strconv.Atoi(argOf(args, "rounds", "8"))
	maxn, _ := strconv.Atoi(argOf(args, "maxn", "9"))
	rng := rand.New(rand.NewSource(seed*104729 + 5))
	const limit = 30 * time.Second
	for wi := 0; wi < worlds; wi++ {
		n := 3 + rng.Intn(maxn-2)
		ids := make([]int64, n)
		r2m := map[int64]int64{}
		for i, p := range rng.Perm(n) {
			ids[i] = int64(p)*5 - 7
			r2m[ids[i]] = int64(i + 1)
		}
		w := map[[2]int]int64{}
		g := simple.NewWeightedDirectedGraph(0, math.Inf(1))
		for _, id := range ids {
			g.AddNode(simple.Node(id))
		}
		set := func(u, v int, c int64) {
			w[[2]int{u, v}] = c
			g.SetWeightedEdge(simple.WeightedEdge{F: simple.Node(ids[u]), T: simple.Node(ids[v]), W: float64(c)})
		}
		grid := wi%3 == 2 && n >= 4
		if grid {
			// a 2 x k grid world, both directions
			k := n / 2
			n = 2 * k
			for i := 0; i < k; i++ {
				set(i, i+k, int64(1+rng.Intn(3)))
				set(i+k, i, int64(1+rng.Intn(3)))
				if i+1 < k {
					set(i, i+1, int64(1+rng.Intn(3)))
					set(i+1, i, int64(1+rng.Intn(3)))
					set(i+k, i+k+1, int64(1+rng.Intn(3)))
					set(i+k+1, i+k, int64(1+rng.Intn(3)))
				}
			}
		} else if wi%3 == 0 {
			// a two-way ring with a few chords: long plans, many steps
			for i := 0; i < n; i++ {
				set(i, (i+1)%n, int64(1+rng.Intn(4)))
				set((i+1)%n, i, int64(1+rng.Intn(4)))
			}
			for i := 0; i < n/3; i++ {
				if u, v := rng.Intn(n), rng.Intn(n); u != v {
					set(u, v, int64(2+rng.Intn(6)))
				}
			}
		} else {
			for i := 0; i < 3*n; i++ {
				u, v := rng.Intn(n), rng.Intn(n)
				if u != v {
					set(u, v, int64(1+rng.Intn(5)))
				}
			}
		}
		emitWorld := func() {
			in := make([][][2]int64, n)
			ou := make([][]int64, n)
			for i := 0; i < n; i++ {
				in[i], ou[i] = [][2]int64{}, []int64{}
			}
			for u := 0; u < n; u++ { // deterministic order
				for v := 0; v < n; v++ {
					if c, ok := w[[2]int{u, v}]; ok {
						ou[u] = append(ou[u], int64(v+1))
						in[v] = append(in[v], [2]int64{int64(u + 1), c})
					}
				}
			}
			out.Emit(ev{"op": "graph", "r": "dstar-world", "n": n, "dir": true, "in": in, "out": ou})
		}
		models := func(p []graph.Node) []int64 {
			o := make([]int64, 0, len(p))
			for _, x := range p {
				o = append(o, r2m[x.ID()])
			}
			return o
		}
		s, t := rng.Intn(n), rng.Intn(n)
		if wi%3 != 1 {
			t = (s + n/2) % n // far apart in rings and grids
		}
		emitWorld()
		sum.Traces++
		var d *dynamic.DStarLite
		o := core.CallTimeout(limit, func() {
			d = dynamic.NewDStarLite(simple.Node(ids[s]), simple.Node(ids[t]), g, path.NullHeuristic, simple.NewWeightedDirectedGraph(0, math.Inf(1)))
		})
		if o.Hung || o.Panicked {
			sum.Fail("path:DStarLite:new", fmt.Sprintf("NewDStarLite hung or panicked: %s (world %d seed %d)", o.Text, wi, seed), nil)
			continue
		}
		logPath := func() bool {
			var p []graph.Node
			var pw float64
			o := core.CallTimeout(limit, func() { p, pw = d.Path() })
			if o.Hung {
				sum.Fail("path:DStarLite:hang", fmt.Sprintf("Path() did not return (world %d seed %d)", wi, seed), nil)
				return false
			}
			out.Emit(ev{"op": "dpath", "r": "DStarLite.Path", "here": r2m[d.Here().ID()], "goal": t + 1, "panic": o.Panicked, "w": toExt(pw), "p": models(p)})
			return !o.Panicked
		}
		if !logPath() {
			continue
		}
		for round := 0; round < rounds; round++ {
			from := r2m[d.Here().ID()]
			var ret bool
			o := core.CallTimeout(limit, func() { ret = d.Step() })
			if o.Hung {
				sum.Fail("path:DStarLite:hang", fmt.Sprintf("Step() did not return (world %d seed %d)", wi, seed), nil)
				break
			}
			here := from
			if !o.Panicked {
				here = r2m[d.Here().ID()]
			}
			out.Emit(ev{"op": "dstep", "r": "DStarLite.Step", "from": from, "here": here, "goal": t + 1, "ret": ret, "panic": o.Panicked})
			if o.Panicked || !ret {
				break
			}
			// change 1..3 edge costs (raise, lower, block with a large cost, or add an edge)
			var changes []graph.Edge
			for c := 1 + rng.Intn(3); c > 0; c-- {
				u, v := rng.Intn(n), rng.Intn(n)
				if u == v {
					continue
				}
				if _, ok := w[[2]int{u, v}]; !ok && rng.Intn(3) != 0 {
					// prefer existing edges: pick one at random
					for k := range w {
						u, v = k[0], k[1]
						break
					}
				}
				nc := int64(1 + rng.Intn(9))
				if rng.Intn(4) == 0 {
					nc = 50
				}
				set(u, v, nc)
				changes = append(changes, g.Edge(ids[u], ids[v]))
			}
			if len(changes) == 0 {
				continue
			}
			emitWorld()
			o = core.CallTimeout(limit, func() { d.UpdateWorld(changes) })
			if o.Hung || o.Panicked {
				sum.Fail("path:DStarLite:update", fmt.Sprintf("UpdateWorld hung or panicked: %s (world %d seed %d)", o.Text, wi, seed), nil)
				break
			}
			if !logPath() {
				break
			}
		}
	}
	return nil
}

// ---- deliberate histories on grids with specification-validated heuristics ----------------
//
// Worlds are r x c 4-neighbour grids; every edge has a base cost in {1,2} and is either low
// (base) or high (base+2), so costs never drop below the base cost. The heuristic is
// Manhattan distance times the minimum base cost, or the distance in the base world, or null;
// its table is logged in the "dnew" event and ShortestPathTrace.tla accepts it only if it is
// consistent and dominated by the edge costs of every world of the history. Histories have the
// form plan -> Step k times -> UpdateWorld(raise an edge of the planner's current plan, lower an
// edge off the plan) -> Path -> ... The choice of the changes uses the planner's own answer
// (test-input selection); nothing is judged here.

func init() {
	core.RegisterRecord("path-dstar-grid", recordDStarGrid)
}

func recordDStarGrid(out *core.Out, args []string, seed int64, sum *core.Summary) error {
	hist, _ := strconv.Atoi(argOf(args, "hist", "1000"))
	rounds, _ := strconv.Atoi(argOf(args, "rounds", "4"))
	part, _ := strconv.Atoi(argOf(args, "part", "0"))
	rng := rand.New(rand.NewSource(seed*15485863 + 17 + int64(part)*7919))
	const limit = 30 * time.Second
	dims := [][2]int{{2, 3}, {2, 4}, {2, 5}, {3, 3}, {3, 4}, {4, 4}}
	heurs := []string{"manhattan", "base", "base", "manhattan", "null"}
	for hi := 0; hi < hist; hi++ {
		dm := dims[rng.Intn(len(dims))]
		R, C := dm[0], dm[1]
		n := R * C
		heur := heurs[hi%len(heurs)]
		type edge struct{ u, v, base, lvl int }
		var es []edge
		add := func(u, v int) { es = append(es, edge{u, v, 1 + rng.Intn(2), rng.Intn(2)}) }
		for i := 0; i < R; i++ {
			for j := 0; j < C; j++ {
				if j+1 < C {
					add(i*C+j, i*C+j+1)
					add(i*C+j+1, i*C+j)
				}
				if i+1 < R {
					add(i*C+j, (i+1)*C+j)
					add((i+1)*C+j, i*C+j)
				}
			}
		}
		id := func(m int) int64 { return int64(m)*3 - 20 }
		model := func(x int64) int64 { return (x+20)/3 + 1 }
		cost := func(e edge) float64 { return float64(e.base + 2*e.lvl) }
		g := simple.NewWeightedDirectedGraph(0, math.Inf(1))
		bg := simple.NewWeightedDirectedGraph(0, math.Inf(1)) // the base world
		minBase := 2
		for _, e := range es {
			g.SetWeightedEdge(simple.WeightedEdge{F: simple.Node(id(e.u)), T: simple.Node(id(e.v)), W: cost(e)})
			bg.SetWeightedEdge(simple.WeightedEdge{F: simple.Node(id(e.u)), T: simple.Node(id(e.v)), W: float64(e.base)})
			if e.base < minBase {
				minBase = e.base
			}
		}
		// heuristic table (integers)
		h := make([][]int64, n)
		var baseDist path.AllShortest
		if heur == "base" {
			baseDist, _ = path.FloydWarshall(bg)
		}
		for a := 0; a < n; a++ {
			h[a] = make([]int64, n)
			for b := 0; b < n; b++ {
				switch heur {
				case "manhattan":
					dr, dc := a/C-b/C, a%C-b%C
					if dr < 0 {
						dr = -dr
					}
					if dc < 0 {
						dc = -dc
					}
					h[a][b] = int64(minBase * (dr + dc))
				case "base":
					h[a][b] = int64(baseDist.Weight(id(a), id(b)))
				}
			}
		}
		hf := func(a, b graph.Node) float64 { return float64(h[model(a.ID())-1][model(b.ID())-1]) }
		emitWorld := func(tag string) {
			in := make([][][2]int64, n)
			ou := make([][]int64, n)
			for i := 0; i < n; i++ {
				in[i], ou[i] = [][2]int64{}, []int64{}
			}
			for _, e := range es {
				ou[e.u] = append(ou[e.u], int64(e.v+1))
				in[e.v] = append(in[e.v], [2]int64{int64(e.u + 1), int64(e.base + 2*e.lvl)})
			}
			out.Emit(ev{"op": "graph", "r": tag, "n": n, "dir": true, "in": in, "out": ou})
		}
		models := func(p []graph.Node) []int64 {
			o := make([]int64, 0, len(p))
			for _, x := range p {
				o = append(o, model(x.ID()))
			}
			return o
		}
		// start and goal far apart
		t := rng.Intn(n)
		s := t
		best := -1
		for _, cand := range rng.Perm(n) {
			d := abs(cand/C-t/C) + abs(cand%C-t%C)
			if d > best || (d == best && rng.Intn(2) == 0) {
				best, s = d, cand
			}
		}
		emitWorld("dstar-world0")
		sum.Traces++
		sum.Count("hist:"+heur, 1)
		var d *dynamic.DStarLite
		o := core.CallTimeout(limit, func() {
			d = dynamic.NewDStarLite(simple.Node(id(s)), simple.Node(id(t)), g, hf, simple.NewWeightedDirectedGraph(0, math.Inf(1)))
		})
		if o.Hung || o.Panicked {
			sum.Fail("path:DStarLite:new", fmt.Sprintf("NewDStarLite hung or panicked: %s (history %d seed %d)", o.Text, hi, seed), nil)
			continue
		}
		out.Emit(ev{"op": "dnew", "r": "NewDStarLite(" + heur + ")", "h": h, "here": s + 1, "goal": t + 1})
		var lastPath []graph.Node
		logPath := func() bool {
			var pw float64
			o := core.CallTimeout(limit, func() { lastPath, pw = d.Path() })
			if o.Hung {
				sum.Fail("path:DStarLite:hang", fmt.Sprintf("Path() did not return (history %d seed %d)", hi, seed), nil)
				return false
			}
			out.Emit(ev{"op": "dpath", "r": "DStarLite.Path", "here": model(d.Here().ID()), "goal": t + 1, "panic": o.Panicked, "w": toExt(pw), "p": models(lastPath)})
			return !o.Panicked
		}
		step := func() (bool, bool) {
			from := model(d.Here().ID())
			var ret bool
			o := core.CallTimeout(limit, func() { ret = d.Step() })
			if o.Hung {
				sum.Fail("path:DStarLite:hang", fmt.Sprintf("Step() did not return (history %d seed %d)", hi, seed), nil)
				return false, false
			}
			here := from
			if !o.Panicked {
				here = model(d.Here().ID())
			}
			out.Emit(ev{"op": "dstep", "r": "DStarLite.Step", "from": from, "here": here, "goal": t + 1, "ret": ret, "panic": o.Panicked})
			sum.Count("steps", 1)
			return ret, !o.Panicked
		}
		if !logPath() {
			continue
		}
		alive := true
		for round := 0; round < rounds && alive; round++ {
			for k := 1 + rng.Intn(2); k > 0 && alive; k-- {
				ret, ok := step()
				alive = ret && ok
			}
			if !alive || model(d.Here().ID()) == int64(t+1) {
				break
			}
			if !logPath() {
				alive = false
				break
			}
			on := map[[2]int]bool{}
			for i := 0; i+1 < len(lastPath); i++ {
				on[[2]int{int(model(lastPath[i].ID())) - 1, int(model(lastPath[i+1].ID())) - 1}] = true
			}
			var ups, dns []int
			for j, e := range es {
				if on[[2]int{e.u, e.v}] && e.lvl == 0 {
					ups = append(ups, j)
				}
				if !on[[2]int{e.u, e.v}] && e.lvl == 1 {
					dns = append(dns, j)
				}
			}
			var changes []graph.Edge
			flip := func(j int) {
				es[j].lvl = 1 - es[j].lvl
				g.SetWeightedEdge(simple.WeightedEdge{F: simple.Node(id(es[j].u)), T: simple.Node(id(es[j].v)), W: cost(es[j])})
				changes = append(changes, g.Edge(id(es[j].u), id(es[j].v)))
			}
			if len(ups) > 0 {
				flip(ups[rng.Intn(len(ups))])
			}
			if len(dns) > 0 {
				flip(dns[rng.Intn(len(dns))])
			}
			if rng.Intn(4) == 0 {
				flip(rng.Intn(len(es)))
			}
			if len(changes) == 0 {
				break
			}
			emitWorld("dstar-world")
			sum.Count("updates", 1)
			o = core.CallTimeout(limit, func() { d.UpdateWorld(changes) })
			if o.Hung || o.Panicked {
				sum.Fail("path:DStarLite:update", fmt.Sprintf("UpdateWorld hung or panicked: %s (history %d seed %d)", o.Text, hi, seed), nil)
				break
			}
			if !logPath() {
				break
			}
		}
		// walk to the goal
		for k := 0; k <= n && alive; k++ {
			ret, ok := step()
			alive = ret && ok
		}
	}
	return nil
}

func abs(x int) int {
	if x < 0 {
		return -x
	}
	return x
}
