package paths

// code->spec for graph/path/dynamic.DStarLite: random worlds, the documented
// replanning loop (Step, change edge costs, UpdateWorld) with the planner's
// answers logged after every action. Judged by ShortestPathTrace.tla.
//
// zero=none      strictly positive weights (the first version of this recorder)
// zero=gate      zero-weight edges into and out of the goal (free gates, zero-weight
//                cycles through the goal), every other edge positive; costs next to
//                the goal are raised and dropped (also to and from 0), the edge the
//                planner currently uses is raised or removed (cost +Inf) and edges
//                come back, Step() interleaved
// zero=interior  additionally zero-weight edges between other nodes, laid out along a
//                random node order so that every zero-weight cycle passes through the
//                goal
// MoveTo (not for zero=interior): at the start of a round the robot may move by MoveTo to
// the node one or two edges ahead on the planner's own Path() (event "dmove", kind "plan",
// Path() logged again afterwards), then comes the Step: every epoch is MoveTo* Step*. Now and
// then it is moved to an arbitrary node (kind "jump"); then nothing is asked before the next
// UpdateWorld, which is forced to carry a change.
// The class of every world is stated in its "graph" event and checked by the
// specification, and so is the shape of the history (gEp in ShortestPathTrace.tla). A call that does not return within the watchdog limit is a failure
// with its own signature (...:hang) and ends the recording (the goroutine is leaked
// and may allocate without bound).

import (
	"encoding/json"
	"fmt"
	"math"
	"math/rand"
	"strconv"
	"time"

	"gonum.org/v1/gonum/graph"
	"gonum.org/v1/gonum/graph/path"
	"gonum.org/v1/gonum/graph/path/dynamic"
	"gonum.org/v1/gonum/graph/simple"

	"gonum.org/v1/gonum/verifharness/internal/core"
)

func init() {
	core.RegisterRecord("path-dstar", recordDStar)
	core.RegisterReplay("path-dstar", replayDHist)
}

// dhist is the self-contained history of one recorded planner: the failure case of a call that
// hung or panicked (what a wrong answer is, only the specification can say: those are reported
// through the trace). replayDHist runs it again alone.
type dhist struct {
	K    string     `json:"k"` // "dhist"
	Zero string     `json:"zero"`
	N    int        `json:"n"`
	IDs  []int64    `json:"ids"` // real id of model node i+1
	E    [][3]int64 `json:"e"`   // the first world: u, v, cost (model nodes from 1; cost -1: weight +Inf)
	S    int        `json:"s"`
	T    int        `json:"t"`
	Ops  []dop      `json:"ops"`
}

type dop struct {
	Op string     `json:"op"` // "new" | "path" | "step" | "update" | "move" (MoveTo(model node ch[0][0]))
	Ch [][3]int64 `json:"ch,omitempty"`
}

func costOf(c int64) float64 {
	if c < 0 {
		return math.Inf(1)
	}
	return float64(c)
}

func replayDHist(in *core.Lines, args []string, seed int64, sum *core.Summary) error {
	const limit = 3 * time.Second
	for {
		b, ok := in.Next()
		if !ok {
			return nil
		}
		var h dhist
		if err := json.Unmarshal(b, &h); err != nil || h.K != "dhist" {
			continue
		}
		sum.Cases++
		sum.Nontrivial++
		sigp := "path:DStarLite:"
		switch h.Zero {
		case "gate":
			sigp += "zero-gate:"
		case "interior":
			sigp += "zero-interior:"
		}
		g := simple.NewWeightedDirectedGraph(0, math.Inf(1))
		for _, id := range h.IDs {
			g.AddNode(simple.Node(id))
		}
		edge := func(c [3]int64) simple.WeightedEdge {
			return simple.WeightedEdge{F: simple.Node(h.IDs[c[0]-1]), T: simple.Node(h.IDs[c[1]-1]), W: costOf(c[2])}
		}
		for _, c := range h.E {
			g.SetWeightedEdge(edge(c))
		}
		var d *dynamic.DStarLite
		for i, op := range h.Ops {
			var f func()
			switch op.Op {
			case "new":
				f = func() {
					d = dynamic.NewDStarLite(simple.Node(h.IDs[h.S-1]), simple.Node(h.IDs[h.T-1]), g, path.NullHeuristic, simple.NewWeightedDirectedGraph(0, math.Inf(1)))
				}
			case "path":
				f = func() { d.Path() }
			case "step":
				f = func() { d.Step(); d.Here().ID() }
			case "move":
				to := simple.Node(h.IDs[op.Ch[0][0]-1])
				f = func() { d.MoveTo(to); d.Here().ID() }
			case "update":
				var es []graph.Edge
				for _, c := range op.Ch {
					g.SetWeightedEdge(edge(c))
					es = append(es, g.Edge(h.IDs[c[0]-1], h.IDs[c[1]-1]))
				}
				f = func() { d.UpdateWorld(es) }
			default:
				continue
			}
			o := core.CallTimeout(limit, f)
			if o.Hung {
				sum.Fail(sigp+"hang", fmt.Sprintf("operation %d (%s) of the history did not return within %v: n=%d start=%d goal=%d first world %v operations %v", i+1, op.Op, limit, h.N, h.S, h.T, h.E, h.Ops), h)
				return nil // the leaked goroutine keeps running
			}
			if o.Panicked {
				sum.Fail(sigp+"panic", fmt.Sprintf("operation %d (%s) of the history panicked (%s): n=%d start=%d goal=%d first world %v operations %v", i+1, op.Op, o.Text, h.N, h.S, h.T, h.E, h.Ops), h)
				break
			}
		}
	}
}

// recordSmallestInterior logs the smallest history of the zero=interior class that was found to
// separate planners: three nodes, one zero-weight edge between two nodes other than the goal
// (3 -> 1), one cost increase next to the goal. Like every other history it is only logged.
func recordSmallestInterior(out *core.Out, sum *core.Summary) {
	g := simple.NewWeightedDirectedGraph(0, math.Inf(1))
	w := [][3]int64{{1, 2, 1}, {2, 3, 2}, {3, 1, 0}, {3, 2, 2}}
	id := func(m int64) int64 { return m * 10 }
	emit := func(r string) {
		in := [][][2]int64{{}, {}, {}}
		ou := [][]int64{{}, {}, {}}
		for _, e := range w {
			ou[e[0]-1] = append(ou[e[0]-1], e[1])
			in[e[1]-1] = append(in[e[1]-1], [2]int64{e[0], e[2]})
		}
		out.Emit(ev{"op": "graph", "r": r, "n": 3, "dir": true, "in": in, "out": ou, "goal": 2})
	}
	for _, e := range w {
		g.SetWeightedEdge(simple.WeightedEdge{F: simple.Node(id(e[0])), T: simple.Node(id(e[1])), W: float64(e[2])})
	}
	emit("dstar-zero0")
	sum.Traces++
	var d *dynamic.DStarLite
	logPath := func() bool {
		var p []graph.Node
		var pw float64
		o := core.CallTimeout(3*time.Second, func() {
			if d == nil {
				d = dynamic.NewDStarLite(simple.Node(id(3)), simple.Node(id(2)), g, path.NullHeuristic, simple.NewWeightedDirectedGraph(0, math.Inf(1)))
			}
			p, pw = d.Path()
		})
		if o.Hung {
			sum.Fail("path:DStarLite:zero-interior:hang", "the three-node history (1->2:1 2->3:2 3->1:0 3->2:2, start 3, goal 2, then 1->2 := 4) did not return", nil)
			return false
		}
		ms := []int64{}
		for _, x := range p {
			ms = append(ms, x.ID()/10)
		}
		out.Emit(ev{"op": "dpath", "r": "DStarLite.Path", "here": 3, "goal": 2, "panic": o.Panicked, "w": toExt(pw), "p": ms})
		return !o.Panicked
	}
	if !logPath() {
		return
	}
	w[0][2] = 4
	g.SetWeightedEdge(simple.WeightedEdge{F: simple.Node(id(1)), T: simple.Node(id(2)), W: 4})
	emit("dstar-zero")
	if o := core.CallTimeout(3*time.Second, func() { d.UpdateWorld([]graph.Edge{g.Edge(id(1), id(2))}) }); o.Hung || o.Panicked {
		sum.Fail("path:DStarLite:zero-interior:update", "UpdateWorld hung or panicked on the three-node history: "+o.Text, nil)
		return
	}
	logPath()
}

// hereOf calls Here() under recover: a planner whose current node was lost (nil) must become a
// reported failure, not a crash of the recorder.
func hereOf(d *dynamic.DStarLite) (id int64, ok bool) {
	o := core.Call(func() { id = d.Here().ID() })
	return id, !o.Panicked
}

func recordDStar(out *core.Out, args []string, seed int64, sum *core.Summary) error {
	worlds, _ := strconv.Atoi(argOf(args, "worlds", "40"))
	rounds, _ := strconv.Atoi(argOf(args, "rounds", "8"))
	maxn, _ := strconv.Atoi(argOf(args, "maxn", "9"))
	zero := argOf(args, "zero", "none")
	rng := rand.New(rand.NewSource(seed*104729 + 5))
	limit := 30 * time.Second
	sigp, tag0, tag := "path:DStarLite:", "dstar-world", "dstar-world"
	switch zero {
	case "gate":
		sigp, tag0, tag, limit = "path:DStarLite:zero-gate:", "dstar-gate0", "dstar-gate", 3*time.Second
	case "interior":
		sigp, tag0, tag, limit = "path:DStarLite:zero-interior:", "dstar-zero0", "dstar-zero", 3*time.Second
	}
	const removed = -1 // cost of an edge that was removed (weight +Inf in the real graph)
	for wi := 0; wi < worlds; wi++ {
		if zero == "interior" && wi == 0 {
			recordSmallestInterior(out, sum)
			continue
		}
		n := 3 + rng.Intn(maxn-2)
		ids := make([]int64, n)
		r2m := map[int64]int64{}
		for i, p := range rng.Perm(n) {
			ids[i] = int64(p)*5 - 7
			r2m[ids[i]] = int64(i + 1)
		}
		w := map[[2]int]int64{}
		g := simple.NewWeightedDirectedGraph(0, math.Inf(1))
		for _, id := range ids {
			g.AddNode(simple.Node(id))
		}
		set := func(u, v int, c int64) {
			w[[2]int{u, v}] = c
			fc := float64(c)
			if c == removed {
				fc = math.Inf(1)
			}
			g.SetWeightedEdge(simple.WeightedEdge{F: simple.Node(ids[u]), T: simple.Node(ids[v]), W: fc})
		}
		change := func(u, v int, c int64, changes *[]graph.Edge, rec *[][3]int64) {
			set(u, v, c)
			*changes = append(*changes, g.Edge(ids[u], ids[v]))
			*rec = append(*rec, [3]int64{int64(u + 1), int64(v + 1), c})
		}
		grid := wi%3 == 2 && n >= 4
		if grid {
			// a 2 x k grid world, both directions
			k := n / 2
			n = 2 * k
			for i := 0; i < k; i++ {
				set(i, i+k, int64(1+rng.Intn(3)))
				set(i+k, i, int64(1+rng.Intn(3)))
				if i+1 < k {
					set(i, i+1, int64(1+rng.Intn(3)))
					set(i+1, i, int64(1+rng.Intn(3)))
					set(i+k, i+k+1, int64(1+rng.Intn(3)))
					set(i+k+1, i+k, int64(1+rng.Intn(3)))
				}
			}
		} else if wi%3 == 0 {
			// a two-way ring with a few chords: long plans, many steps
			for i := 0; i < n; i++ {
				set(i, (i+1)%n, int64(1+rng.Intn(4)))
				set((i+1)%n, i, int64(1+rng.Intn(4)))
			}
			for i := 0; i < n/3; i++ {
				if u, v := rng.Intn(n), rng.Intn(n); u != v {
					set(u, v, int64(2+rng.Intn(6)))
				}
			}
		} else {
			for i := 0; i < 3*n; i++ {
				u, v := rng.Intn(n), rng.Intn(n)
				if u != v {
					set(u, v, int64(1+rng.Intn(5)))
				}
			}
		}
		var t int
		emitWorld := func(r string) {
			in := make([][][2]int64, n)
			ou := make([][]int64, n)
			for i := 0; i < n; i++ {
				in[i], ou[i] = [][2]int64{}, []int64{}
			}
			for u := 0; u < n; u++ { // deterministic order
				for v := 0; v < n; v++ {
					if c, ok := w[[2]int{u, v}]; ok && c != removed {
						ou[u] = append(ou[u], int64(v+1))
						in[v] = append(in[v], [2]int64{int64(u + 1), c})
					}
				}
			}
			out.Emit(ev{"op": "graph", "r": r, "n": n, "dir": true, "in": in, "out": ou, "goal": t + 1})
		}
		models := func(p []graph.Node) []int64 {
			o := make([]int64, 0, len(p))
			for _, x := range p {
				o = append(o, r2m[x.ID()])
			}
			return o
		}
		s := rng.Intn(n)
		t = rng.Intn(n)
		if wi%3 != 1 {
			t = (s + n/2) % n // far apart in rings and grids
		}
		// where a zero weight is allowed, and the costs an update may choose
		rank := rng.Perm(n)
		okZero := func(u, v int) bool {
			switch {
			case zero == "none":
				return false
			case u == t || v == t:
				return true
			}
			return zero == "interior" && rank[u] > rank[v]
		}
		newCost := func(u, v int) int64 {
			r := rng.Intn(16)
			switch {
			case zero == "none":
				if rng.Intn(4) == 0 {
					return 50
				}
				return int64(1 + rng.Intn(9))
			case r < 5 && okZero(u, v):
				return 0
			case r == 14:
				return 50
			case r == 15:
				return removed
			}
			return int64(1 + rng.Intn(9))
		}
		if zero != "none" {
			var keys [][2]int
			for u := 0; u < n; u++ {
				for v := 0; v < n; v++ {
					if _, ok := w[[2]int{u, v}]; ok {
						keys = append(keys, [2]int{u, v})
					}
				}
			}
			for _, k := range keys {
				if okZero(k[0], k[1]) && rng.Intn(5) < 2 {
					set(k[0], k[1], 0)
				}
			}
			if n > 1 && rng.Intn(3) != 0 { // a free two-way gate at the goal
				u := (t + 1 + rng.Intn(n-1)) % n
				set(u, t, 0)
				set(t, u, 0)
			}
		}
		emitWorld(tag0)
		sum.Traces++
		hist := &dhist{K: "dhist", Zero: zero, N: n, IDs: append([]int64(nil), ids[:n]...), S: s + 1, T: t + 1, E: [][3]int64{}}
		for u := 0; u < n; u++ {
			for v := 0; v < n; v++ {
				if c, ok := w[[2]int{u, v}]; ok {
					hist.E = append(hist.E, [3]int64{int64(u + 1), int64(v + 1), c})
				}
			}
		}
		did := func(op string, ch [][3]int64) { hist.Ops = append(hist.Ops, dop{Op: op, Ch: ch}) }
		did("new", nil)
		var d *dynamic.DStarLite
		o := core.CallTimeout(limit, func() {
			d = dynamic.NewDStarLite(simple.Node(ids[s]), simple.Node(ids[t]), g, path.NullHeuristic, simple.NewWeightedDirectedGraph(0, math.Inf(1)))
		})
		if o.Hung {
			sum.Fail(sigp+"hang", fmt.Sprintf("NewDStarLite did not return within %v (world %d of the recording, seed %d, zero=%s)", limit, wi, seed, zero), hist)
			return nil
		}
		if o.Panicked {
			sum.Fail(sigp+"new", fmt.Sprintf("NewDStarLite panicked: %s (world %d seed %d)", o.Text, wi, seed), hist)
			continue
		}
		hung := false
		var lastPath []graph.Node
		logPath := func() bool {
			var pw float64
			lastPath = nil
			var p []graph.Node
			did("path", nil)
			o := core.CallTimeout(limit, func() { p, pw = d.Path() })
			if o.Hung {
				sum.Fail(sigp+"hang", fmt.Sprintf("Path() did not return within %v (world %d of the recording, seed %d, zero=%s)", limit, wi, seed, zero), hist)
				hung = true
				return false
			}
			lastPath = p
			hid, ok := hereOf(d)
			if !ok {
				sum.Fail(sigp+"here-panic", fmt.Sprintf("Here() panicked: the planner lost its current node (world %d of the recording, seed %d, zero=%s)", wi, seed, zero), hist)
				return false
			}
			out.Emit(ev{"op": "dpath", "r": "DStarLite.Path", "here": r2m[hid], "goal": t + 1, "panic": o.Panicked, "w": toExt(pw), "p": models(p)})
			return !o.Panicked
		}
		if !logPath() {
			if hung {
				return nil
			}
			continue
		}
		// moveTo logs one MoveTo call (kind "plan": a node of the planner's Path(); "jump": any node)
		moveTo := func(to int64, kind string) bool {
			hid, ok := hereOf(d)
			if !ok {
				sum.Fail(sigp+"here-panic", fmt.Sprintf("Here() panicked: the planner lost its current node (world %d of the recording, seed %d, zero=%s)", wi, seed, zero), hist)
				return false
			}
			from := r2m[hid]
			did("move", [][3]int64{{to, 0, 0}})
			o := core.CallTimeout(limit, func() { d.MoveTo(simple.Node(ids[to-1])) })
			if o.Hung {
				sum.Fail(sigp+"hang", fmt.Sprintf("MoveTo did not return within %v (world %d of the recording, seed %d, zero=%s)", limit, wi, seed, zero), hist)
				hung = true
				return false
			}
			here := from
			if !o.Panicked {
				if hid, ok = hereOf(d); !ok {
					sum.Fail(sigp+"here-panic", fmt.Sprintf("Here() panicked after MoveTo(model node %d) (world %d of the recording, seed %d, zero=%s)", to, wi, seed, zero), hist)
					return false
				}
				here = r2m[hid]
			}
			out.Emit(ev{"op": "dmove", "r": "DStarLite.MoveTo", "kind": kind, "from": from, "to": to, "here": here, "goal": t + 1, "panic": o.Panicked})
			sum.Count("movetos:"+kind, 1)
			return !o.Panicked
		}
		stepped := false // a Step was taken since the planner last planned (no MoveTo then: MoveTo* Step*)
		for round := 0; round < rounds; round++ {
			jumped := false
			if zero != "interior" && !stepped {
				alive := true
				hid, _ := hereOf(d)
				switch r := rng.Intn(8); {
				case r == 0 && n > 2 && r2m[hid] != int64(t+1): // moved to an arbitrary node; the update follows at once
					// (MoveTo is not used to leave the goal, in particular not when the planner was created there)
					to := rng.Intn(n)
					if to == t {
						to = (to + 1) % n
					}
					alive = moveTo(int64(to+1), "jump")
					jumped = true
				case r <= 4: // one or two MoveTo calls along the planner's own path (lastPath is its latest answer)
					for k := 1 + rng.Intn(2); k > 0 && alive && len(lastPath) > 1; k-- {
						j := 1
						if len(lastPath) > 2 && rng.Intn(3) == 0 {
							j = 2
						}
						alive = moveTo(r2m[lastPath[j].ID()], "plan") && logPath()
					}
				}
				if hung {
					return nil
				}
				if !alive {
					break
				}
			}
			// zero families: one update in three comes without a step in between
			if !jumped && (zero == "none" || rng.Intn(3) != 0) {
				hid, ok := hereOf(d)
				if !ok {
					sum.Fail(sigp+"here-panic", fmt.Sprintf("Here() panicked: the planner lost its current node (world %d of the recording, seed %d, zero=%s)", wi, seed, zero), hist)
					break
				}
				from := r2m[hid]
				var ret bool
				did("step", nil)
				o = core.CallTimeout(limit, func() { ret = d.Step() })
				if o.Hung {
					sum.Fail(sigp+"hang", fmt.Sprintf("Step() did not return within %v (world %d of the recording, seed %d, zero=%s)", limit, wi, seed, zero), hist)
					return nil
				}
				here := from
				if !o.Panicked {
					if hid, ok = hereOf(d); !ok {
						sum.Fail(sigp+"here-panic", fmt.Sprintf("Here() panicked after Step() = %v at model node %d: the planner lost its current node (world %d of the recording, seed %d, zero=%s)", ret, from, wi, seed, zero), hist)
						break
					}
					here = r2m[hid]
				}
				out.Emit(ev{"op": "dstep", "r": "DStarLite.Step", "from": from, "here": here, "goal": t + 1, "ret": ret, "panic": o.Panicked})
				sum.Count("steps", 1)
				stepped = stepped || ret
				if o.Panicked {
					break
				}
				if !ret && (zero == "none" || here == int64(t+1)) {
					break // at the goal (zero families go on when the goal is merely cut off: edges come back)
				}
			}
			// change 1..3 edge costs (raise, lower, block with a large cost, add or remove an edge)
			var changes []graph.Edge
			var chrec [][3]int64
			if zero == "none" {
				for c := 1 + rng.Intn(3); c > 0; c-- {
					u, v := rng.Intn(n), rng.Intn(n)
					if u == v {
						continue
					}
					if _, ok := w[[2]int{u, v}]; !ok && rng.Intn(3) != 0 {
						// prefer existing edges: pick one at random
						for k := range w {
							u, v = k[0], k[1]
							break
						}
					}
					change(u, v, newCost(u, v), &changes, &chrec)
				}
			} else {
				var keys, intoGoal [][2]int
				for u := 0; u < n; u++ {
					for v := 0; v < n; v++ {
						if _, ok := w[[2]int{u, v}]; ok {
							keys = append(keys, [2]int{u, v})
							if v == t {
								intoGoal = append(intoGoal, [2]int{u, v})
							}
						}
					}
				}
				for c := 1 + rng.Intn(3); c > 0; c-- {
					u, v := rng.Intn(n), rng.Intn(n)
					switch r := rng.Intn(12); {
					case r < 4 && len(intoGoal) > 0: // next to the goal
						k := intoGoal[rng.Intn(len(intoGoal))]
						u, v = k[0], k[1]
					case r < 7 && len(lastPath) > 1: // an edge of the plan the planner holds: raise or remove it
						i := 0
						if rng.Intn(2) == 0 {
							i = rng.Intn(len(lastPath) - 1)
						}
						u, v = int(r2m[lastPath[i].ID()])-1, int(r2m[lastPath[i+1].ID()])-1
						old := w[[2]int{u, v}]
						nc := int64(removed)
						if rng.Intn(2) == 0 && old != removed {
							nc = old + int64(1+rng.Intn(9))
						}
						change(u, v, nc, &changes, &chrec)
						sum.Count("plan-edge-raised-or-removed", 1)
						continue
					case r < 11 && len(keys) > 0: // an existing (or removed) edge
						k := keys[rng.Intn(len(keys))]
						u, v = k[0], k[1]
					}
					if u == v {
						continue
					}
					change(u, v, newCost(u, v), &changes, &chrec)
				}
			}
			if len(changes) == 0 && jumped {
				// the planner must plan again before it is asked anything: change one existing edge
			pick:
				for u := 0; u < n; u++ {
					for v := 0; v < n; v++ {
						if c, ok := w[[2]int{u, v}]; ok && c != removed && v != t && u != t {
							change(u, v, c+1, &changes, &chrec)
							break pick
						}
					}
				}
				if len(changes) == 0 {
					break // no edge to change: the history ends here, nothing more is asked
				}
			}
			if len(changes) == 0 {
				continue
			}
			emitWorld(tag)
			sum.Count("updates", 1)
			did("update", chrec)
			o = core.CallTimeout(limit, func() { d.UpdateWorld(changes) })
			if o.Hung {
				sum.Fail(sigp+"hang", fmt.Sprintf("UpdateWorld did not return within %v (world %d of the recording, seed %d, zero=%s)", limit, wi, seed, zero), hist)
				return nil
			}
			if o.Panicked {
				sum.Fail(sigp+"update", fmt.Sprintf("UpdateWorld panicked: %s (world %d seed %d)", o.Text, wi, seed), hist)
				break
			}
			stepped = false
			if !logPath() {
				if hung {
					return nil
				}
				break
			}
		}
	}
	return nil
}

// ---- deliberate histories on grids with specification-validated heuristics ----------------
//
// Worlds are r x c 4-neighbour grids; every edge has a base cost in {1,2} and is either low
// (base) or high (base+2), so costs never drop below the base cost. The heuristic is
// Manhattan distance times the minimum base cost, or the distance in the base world, or null;
// its table is logged in the "dnew" event and ShortestPathTrace.tla accepts it only if it is
// consistent and dominated by the edge costs of every world of the history. Histories have the
// form plan -> moves -> UpdateWorld(raise an edge of the planner's current plan, lower an
// edge off the plan) -> Path -> ... where the moves of an epoch are MoveTo^a Step^b (MoveTo to the
// node one or two edges ahead on the planner's own Path(), which is logged again after every
// MoveTo) or one MoveTo to an arbitrary node, after which the update comes at once and carries
// at least one change. The choice of the changes and of the MoveTo targets uses the planner's
// own answer (test-input selection); nothing is judged here.

func init() {
	core.RegisterRecord("path-dstar-grid", recordDStarGrid)
}

func recordDStarGrid(out *core.Out, args []string, seed int64, sum *core.Summary) error {
	hist, _ := strconv.Atoi(argOf(args, "hist", "1000"))
	rounds, _ := strconv.Atoi(argOf(args, "rounds", "4"))
	part, _ := strconv.Atoi(argOf(args, "part", "0"))
	rng := rand.New(rand.NewSource(seed*15485863 + 17 + int64(part)*7919))
	const limit = 30 * time.Second
	dims := [][2]int{{2, 3}, {2, 4}, {2, 5}, {3, 3}, {3, 4}, {4, 4}}
	heurs := []string{"manhattan", "base", "base", "manhattan", "null"}
	for hi := 0; hi < hist; hi++ {
		dm := dims[rng.Intn(len(dims))]
		R, C := dm[0], dm[1]
		n := R * C
		heur := heurs[hi%len(heurs)]
		type edge struct{ u, v, base, lvl int }
		var es []edge
		add := func(u, v int) { es = append(es, edge{u, v, 1 + rng.Intn(2), rng.Intn(2)}) }
		for i := 0; i < R; i++ {
			for j := 0; j < C; j++ {
				if j+1 < C {
					add(i*C+j, i*C+j+1)
					add(i*C+j+1, i*C+j)
				}
				if i+1 < R {
					add(i*C+j, (i+1)*C+j)
					add((i+1)*C+j, i*C+j)
				}
			}
		}
		id := func(m int) int64 { return int64(m)*3 - 20 }
		model := func(x int64) int64 { return (x+20)/3 + 1 }
		cost := func(e edge) float64 { return float64(e.base + 2*e.lvl) }
		g := simple.NewWeightedDirectedGraph(0, math.Inf(1))
		bg := simple.NewWeightedDirectedGraph(0, math.Inf(1)) // the base world
		minBase := 2
		for _, e := range es {
			g.SetWeightedEdge(simple.WeightedEdge{F: simple.Node(id(e.u)), T: simple.Node(id(e.v)), W: cost(e)})
			bg.SetWeightedEdge(simple.WeightedEdge{F: simple.Node(id(e.u)), T: simple.Node(id(e.v)), W: float64(e.base)})
			if e.base < minBase {
				minBase = e.base
			}
		}
		// heuristic table (integers)
		h := make([][]int64, n)
		var baseDist path.AllShortest
		if heur == "base" {
			baseDist, _ = path.FloydWarshall(bg)
		}
		for a := 0; a < n; a++ {
			h[a] = make([]int64, n)
			for b := 0; b < n; b++ {
				switch heur {
				case "manhattan":
					dr, dc := a/C-b/C, a%C-b%C
					if dr < 0 {
						dr = -dr
					}
					if dc < 0 {
						dc = -dc
					}
					h[a][b] = int64(minBase * (dr + dc))
				case "base":
					h[a][b] = int64(baseDist.Weight(id(a), id(b)))
				}
			}
		}
		hf := func(a, b graph.Node) float64 { return float64(h[model(a.ID())-1][model(b.ID())-1]) }
		emitWorld := func(tag string) {
			in := make([][][2]int64, n)
			ou := make([][]int64, n)
			for i := 0; i < n; i++ {
				in[i], ou[i] = [][2]int64{}, []int64{}
			}
			for _, e := range es {
				ou[e.u] = append(ou[e.u], int64(e.v+1))
				in[e.v] = append(in[e.v], [2]int64{int64(e.u + 1), int64(e.base + 2*e.lvl)})
			}
			out.Emit(ev{"op": "graph", "r": tag, "n": n, "dir": true, "in": in, "out": ou})
		}
		models := func(p []graph.Node) []int64 {
			o := make([]int64, 0, len(p))
			for _, x := range p {
				o = append(o, model(x.ID()))
			}
			return o
		}
		// start and goal far apart
		t := rng.Intn(n)
		s := t
		best := -1
		for _, cand := range rng.Perm(n) {
			d := abs(cand/C-t/C) + abs(cand%C-t%C)
			if d > best || (d == best && rng.Intn(2) == 0) {
				best, s = d, cand
			}
		}
		emitWorld("dstar-world0")
		sum.Traces++
		sum.Count("hist:"+heur, 1)
		var d *dynamic.DStarLite
		o := core.CallTimeout(limit, func() {
			d = dynamic.NewDStarLite(simple.Node(id(s)), simple.Node(id(t)), g, hf, simple.NewWeightedDirectedGraph(0, math.Inf(1)))
		})
		if o.Hung || o.Panicked {
			sum.Fail("path:DStarLite:new", fmt.Sprintf("NewDStarLite hung or panicked: %s (history %d seed %d)", o.Text, hi, seed), nil)
			continue
		}
		out.Emit(ev{"op": "dnew", "r": "NewDStarLite(" + heur + ")", "h": h, "here": s + 1, "goal": t + 1})
		var lastPath []graph.Node
		logPath := func() bool {
			var pw float64
			o := core.CallTimeout(limit, func() { lastPath, pw = d.Path() })
			if o.Hung {
				sum.Fail("path:DStarLite:hang", fmt.Sprintf("Path() did not return (history %d seed %d)", hi, seed), nil)
				return false
			}
			out.Emit(ev{"op": "dpath", "r": "DStarLite.Path", "here": model(d.Here().ID()), "goal": t + 1, "panic": o.Panicked, "w": toExt(pw), "p": models(lastPath)})
			return !o.Panicked
		}
		step := func() (bool, bool) {
			from := model(d.Here().ID())
			var ret bool
			o := core.CallTimeout(limit, func() { ret = d.Step() })
			if o.Hung {
				sum.Fail("path:DStarLite:hang", fmt.Sprintf("Step() did not return (history %d seed %d)", hi, seed), nil)
				return false, false
			}
			here := from
			if !o.Panicked {
				here = model(d.Here().ID())
			}
			out.Emit(ev{"op": "dstep", "r": "DStarLite.Step", "from": from, "here": here, "goal": t + 1, "ret": ret, "panic": o.Panicked})
			sum.Count("steps", 1)
			return ret, !o.Panicked
		}
		moveTo := func(to int64, kind string) bool {
			from := model(d.Here().ID())
			o := core.CallTimeout(limit, func() { d.MoveTo(simple.Node(id(int(to - 1)))) })
			if o.Hung {
				sum.Fail("path:DStarLite:hang", fmt.Sprintf("MoveTo did not return (history %d seed %d)", hi, seed), nil)
				return false
			}
			here := from
			if !o.Panicked {
				here = model(d.Here().ID())
			}
			out.Emit(ev{"op": "dmove", "r": "DStarLite.MoveTo", "kind": kind, "from": from, "to": to, "here": here, "goal": t + 1, "panic": o.Panicked})
			sum.Count("movetos:"+kind, 1)
			return !o.Panicked
		}
		if !logPath() {
			continue
		}
		alive := true
		for round := 0; round < rounds && alive; round++ {
			// the moves of this epoch: MoveTo^a Step^b, or one MoveTo to an arbitrary node
			a, b, jumped := 0, 1+rng.Intn(2), false
			switch r := rng.Intn(6); {
			case r == 0:
				a, b, jumped = 0, 0, true
			case r <= 3:
				a = 1 + rng.Intn(2)
				b = rng.Intn(2)
			}
			if jumped {
				to := rng.Intn(n)
				if to == t {
					to = (to + 1) % n
				}
				if !moveTo(int64(to+1), "jump") {
					alive = false
					break
				}
			}
			for ; a > 0 && alive && len(lastPath) > 1; a-- { // lastPath: the planner's latest answer, from here
				j := 1
				if len(lastPath) > 2 && rng.Intn(3) == 0 {
					j = 2
				}
				alive = moveTo(model(lastPath[j].ID()), "plan") && logPath()
			}
			for k := b; k > 0 && alive; k-- {
				ret, ok := step()
				alive = ret && ok
			}
			if !alive || model(d.Here().ID()) == int64(t+1) {
				break
			}
			if !jumped && !logPath() {
				alive = false
				break
			}
			on := map[[2]int]bool{}
			for i := 0; i+1 < len(lastPath); i++ {
				on[[2]int{int(model(lastPath[i].ID())) - 1, int(model(lastPath[i+1].ID())) - 1}] = true
			}
			var ups, dns []int
			for j, e := range es {
				if on[[2]int{e.u, e.v}] && e.lvl == 0 {
					ups = append(ups, j)
				}
				if !on[[2]int{e.u, e.v}] && e.lvl == 1 {
					dns = append(dns, j)
				}
			}
			var changes []graph.Edge
			flip := func(j int) {
				es[j].lvl = 1 - es[j].lvl
				g.SetWeightedEdge(simple.WeightedEdge{F: simple.Node(id(es[j].u)), T: simple.Node(id(es[j].v)), W: cost(es[j])})
				changes = append(changes, g.Edge(id(es[j].u), id(es[j].v)))
			}
			if len(ups) > 0 {
				flip(ups[rng.Intn(len(ups))])
			}
			if len(dns) > 0 {
				flip(dns[rng.Intn(len(dns))])
			}
			if rng.Intn(4) == 0 || (jumped && len(changes) == 0) {
				flip(rng.Intn(len(es)))
			}
			if len(changes) == 0 {
				break
			}
			emitWorld("dstar-world")
			sum.Count("updates", 1)
			o = core.CallTimeout(limit, func() { d.UpdateWorld(changes) })
			if o.Hung || o.Panicked {
				sum.Fail("path:DStarLite:update", fmt.Sprintf("UpdateWorld hung or panicked: %s (history %d seed %d)", o.Text, hi, seed), nil)
				break
			}
			if !logPath() {
				break
			}
		}
		// walk to the goal
		for k := 0; k <= n && alive; k++ {
			ret, ok := step()
			alive = ret && ok
		}
	}
	return nil
}

func abs(x int) int {
	if x < 0 {
		return -x
	}
	return x
}
