package paths

// code->spec for graph/path/dynamic.DStarLite: random positive-weight worlds,
// the documented replanning loop (Step, change edge costs, UpdateWorld) with the
// planner's answers logged after every action. Judged by ShortestPathTrace.tla.

import (
	"fmt"
	"math"
	"math/rand"
	"strconv"
	"time"

	"gonum.org/v1/gonum/graph"
	"gonum.org/v1/gonum/graph/path"
	"gonum.org/v1/gonum/graph/path/dynamic"
	"gonum.org/v1/gonum/graph/simple"

	"gonum.org/v1/gonum/verifharness/internal/core"
)

func init() {
	core.RegisterRecord("path-dstar", recordDStar)
}

func recordDStar(out *core.Out, args []string, seed int64, sum *core.Summary) error {
	worlds, _ := strconv.Atoi(argOf(args, "worlds", "40"))
	rounds, _ := strconv.Atoi(argOf(args, "rounds", "8"))
	maxn, _ := strconv.Atoi(argOf(args, "maxn", "9"))
	rng := rand.New(rand.NewSource(seed*104729 + 5))
	const limit = 30 * time.Second
	for wi := 0; wi < worlds; wi++ {
		n := 3 + rng.Intn(maxn-2)
		ids := make([]int64, n)
		r2m := map[int64]int64{}
		for i, p := range rng.Perm(n) {
			ids[i] = int64(p)*5 - 7
			r2m[ids[i]] = int64(i + 1)
		}
		w := map[[2]int]int64{}
		g := simple.NewWeightedDirectedGraph(0, math.Inf(1))
		for _, id := range ids {
			g.AddNode(simple.Node(id))
		}
		set := func(u, v int, c int64) {
			w[[2]int{u, v}] = c
			g.SetWeightedEdge(simple.WeightedEdge{F: simple.Node(ids[u]), T: simple.Node(ids[v]), W: float64(c)})
		}
		grid := wi%3 == 2 && n >= 4
		if grid {
			// a 2 x k grid world, both directions
			k := n / 2
			n = 2 * k
			for i := 0; i < k; i++ {
				set(i, i+k, int64(1+rng.Intn(3)))
				set(i+k, i, int64(1+rng.Intn(3)))
				if i+1 < k {
					set(i, i+1, int64(1+rng.Intn(3)))
					set(i+1, i, int64(1+rng.Intn(3)))
					set(i+k, i+k+1, int64(1+rng.Intn(3)))
					set(i+k+1, i+k, int64(1+rng.Intn(3)))
				}
			}
		} else if wi%3 == 0 {
			// a two-way ring with a few chords: long plans, many steps
			for i := 0; i < n; i++ {
				set(i, (i+1)%n, int64(1+rng.Intn(4)))
				set((i+1)%n, i, int64(1+rng.Intn(4)))
			}
			for i := 0; i < n/3; i++ {
				if u, v := rng.Intn(n), rng.Intn(n); u != v {
					set(u, v, int64(2+rng.Intn(6)))
				}
			}
		} else {
			for i := 0; i < 3*n; i++ {
				u, v := rng.Intn(n), rng.Intn(n)
				if u != v {
					set(u, v, int64(1+rng.Intn(5)))
				}
			}
		}
		emitWorld := func() {
			in := make([][][2]int64, n)
			ou := make([][]int64, n)
			for i := 0; i < n; i++ {
				in[i], ou[i] = [][2]int64{}, []int64{}
			}
			for u := 0; u < n; u++ { // deterministic order
				for v := 0; v < n; v++ {
					if c, ok := w[[2]int{u, v}]; ok {
						ou[u] = append(ou[u], int64(v+1))
						in[v] = append(in[v], [2]int64{int64(u + 1), c})
					}
				}
			}
			out.Emit(ev{"op": "graph", "r": "dstar-world", "n": n, "dir": true, "in": in, "out": ou})
		}
		models := func(p []graph.Node) []int64 {
			o := make([]int64, 0, len(p))
			for _, x := range p {
				o = append(o, r2m[x.ID()])
			}
			return o
		}
		s, t := rng.Intn(n), rng.Intn(n)
		if wi%3 != 1 {
			t = (s + n/2) % n // far apart in rings and grids
		}
		emitWorld()
		sum.Traces++
		var d *dynamic.DStarLite
		o := core.CallTimeout(limit, func() {
			d = dynamic.NewDStarLite(simple.Node(ids[s]), simple.Node(ids[t]), g, path.NullHeuristic, simple.NewWeightedDirectedGraph(0, math.Inf(1)))
		})
		if o.Hung || o.Panicked {
			sum.Fail("path:DStarLite:new", fmt.Sprintf("NewDStarLite hung or panicked: %s (world %d seed %d)", o.Text, wi, seed), nil)
			continue
		}
		logPath := func() bool {
			var p []graph.Node
			var pw float64
			o := core.CallTimeout(limit, func() { p, pw = d.Path() })
			if o.Hung {
				sum.Fail("path:DStarLite:hang", fmt.Sprintf("Path() did not return (world %d seed %d)", wi, seed), nil)
				return false
			}
			out.Emit(ev{"op": "dpath", "r": "DStarLite.Path", "here": r2m[d.Here().ID()], "goal": t + 1, "panic": o.Panicked, "w": toExt(pw), "p": models(p)})
			return !o.Panicked
		}
		if !logPath() {
			continue
		}
		for round := 0; round < rounds; round++ {
			from := r2m[d.Here().ID()]
			var ret bool
			o := core.CallTimeout(limit, func() { ret = d.Step() })
			if o.Hung {
				sum.Fail("path:DStarLite:hang", fmt.Sprintf("Step() did not return (world %d seed %d)", wi, seed), nil)
				break
			}
			here := from
			if !o.Panicked {
				here = r2m[d.Here().ID()]
			}
			out.Emit(ev{"op": "dstep", "r": "DStarLite.Step", "from": from, "here": here, "goal": t + 1, "ret": ret, "panic": o.Panicked})
			if o.Panicked || !ret {
				break
			}
			// change 1..3 edge costs (raise, lower, block with a large cost, or add an edge)
			var changes []graph.Edge
			for c := 1 + rng.Intn(3); c > 0; c-- {
				u, v := rng.Intn(n), rng.Intn(n)
				if u == v {
					continue
				}
				if _, ok := w[[2]int{u, v}]; !ok && rng.Intn(3) != 0 {
					// prefer existing edges: pick one at random
					for k := range w {
						u, v = k[0], k[1]
						break
					}
				}
				nc := int64(1 + rng.Intn(9))
				if rng.Intn(4) == 0 {
					nc = 50
				}
				set(u, v, nc)
				changes = append(changes, g.Edge(ids[u], ids[v]))
			}
			if len(changes) == 0 {
				continue
			}
			emitWorld()
			o = core.CallTimeout(limit, func() { d.UpdateWorld(changes) })
			if o.Hung || o.Panicked {
				sum.Fail("path:DStarLite:update", fmt.Sprintf("UpdateWorld hung or panicked: %s (world %d seed %d)", o.Text, wi, seed), nil)
				break
			}
			if !logPath() {
				break
			}
		}
	}
	return nil
}
