package blas

// The wrapper packages (blas32, blas64, cblas64, cblas128) and the Level 1 routines with
// non-integer results. Like replay.go this file has no arithmetic of its own: it builds operands
// from what the specification printed, calls gonum, and compares with the printed expectation
// (exact rationals with a printed tolerance are compared through math/big).
//
//	probe            a recording BLAS implementation installed with Use: which method did a wrapper
//	                 forward to, with which arguments and which slices?
//	kind "conv"      From conversions between row-major structs and their column-major twins (BlasConv.tla)
//	kind "use"       Use / Implementation histories (BlasUse.tla)
//	kind "nrm2"      Snrm2 Dnrm2 Scnrm2 Dznrm2 and the Nrm2 wrappers (BlasNorm.tla)
//	kind "rotg"      Srotg Drotg and the Rotg wrappers
//	kind "rotmg"     Srotmg Drotmg and the Rotmg wrappers

import (
	"encoding/json"
	"fmt"
	"math"
	"math/big"
	"sort"
	"strings"
	"unsafe"

	gblas "gonum.org/v1/gonum/blas"
	"gonum.org/v1/gonum/blas/blas32"
	"gonum.org/v1/gonum/blas/blas64"
	"gonum.org/v1/gonum/blas/cblas128"
	"gonum.org/v1/gonum/blas/cblas64"
	"gonum.org/v1/gonum/blas/gonum"

	"gonum.org/v1/gonum/verifharness/internal/core"
)

// ---------------------------------------------------------------------------------- the probe

type sliceID struct {
	ptr unsafe.Pointer
	n   int
}

func sid[T any](s []T) sliceID { return sliceID{unsafe.Pointer(unsafe.SliceData(s)), len(s)} }

func sc[T scalar](v T) complex128 {
	switch x := any(v).(type) {
	case float32:
		return complex(float64(x), 0)
	case float64:
		return complex(x, 0)
	case complex64:
		return complex128(x)
	case complex128:
		return x
	}
	return 0
}

type fwdRec struct {
	name string
	ints map[string]int
	scal map[string]complex128
	sl   map[string]sliceID
}

// probe implements blas.Float32, Float64, Complex64 and Complex128: the generated methods (and the
// few written out below) record the call and hand it to gonum.Implementation.
type probe struct {
	gonum.Implementation
	id    string
	calls int
	last  *fwdRec
}

var theProbe = &probe{id: "probe"}

func (p *probe) reset() { p.calls, p.last = 0, nil }
func (p *probe) note(name string, ints map[string]int, scal map[string]complex128, sl map[string]sliceID) {
	p.calls++
	p.last = &fwdRec{name, ints, scal, sl}
}

func (p *probe) Srotm(n int, x []float32, incx int, y []float32, incy int, h gblas.SrotmParams) {
	p.note("Srotm", map[string]int{"n": n, "incx": incx, "incy": incy, "hflag": int(h.Flag)},
		map[string]complex128{"h0": sc(h.H[0]), "h1": sc(h.H[1]), "h2": sc(h.H[2]), "h3": sc(h.H[3])},
		map[string]sliceID{"x": sid(x), "y": sid(y)})
	p.Implementation.Srotm(n, x, incx, y, incy, h)
}
func (p *probe) Drotm(n int, x []float64, incx int, y []float64, incy int, h gblas.DrotmParams) {
	p.note("Drotm", map[string]int{"n": n, "incx": incx, "incy": incy, "hflag": int(h.Flag)},
		map[string]complex128{"h0": sc(h.H[0]), "h1": sc(h.H[1]), "h2": sc(h.H[2]), "h3": sc(h.H[3])},
		map[string]sliceID{"x": sid(x), "y": sid(y)})
	p.Implementation.Drotm(n, x, incx, y, incy, h)
}
func (p *probe) Dsdot(n int, x []float32, incx int, y []float32, incy int) float64 {
	p.note("Dsdot", map[string]int{"n": n, "incx": incx, "incy": incy}, nil, map[string]sliceID{"x": sid(x), "y": sid(y)})
	return p.Implementation.Dsdot(n, x, incx, y, incy)
}
func (p *probe) Sdsdot(n int, alpha float32, x []float32, incx int, y []float32, incy int) float32 {
	p.note("Sdsdot", map[string]int{"n": n, "incx": incx, "incy": incy}, map[string]complex128{"alpha": sc(alpha)},
		map[string]sliceID{"x": sid(x), "y": sid(y)})
	return p.Implementation.Sdsdot(n, alpha, x, incx, y, incy)
}
func (p *probe) Snrm2(n int, x []float32, incx int) float32 {
	p.note("Snrm2", map[string]int{"n": n, "incx": incx}, nil, map[string]sliceID{"x": sid(x)})
	return p.Implementation.Snrm2(n, x, incx)
}
func (p *probe) Dnrm2(n int, x []float64, incx int) float64 {
	p.note("Dnrm2", map[string]int{"n": n, "incx": incx}, nil, map[string]sliceID{"x": sid(x)})
	return p.Implementation.Dnrm2(n, x, incx)
}
func (p *probe) Scnrm2(n int, x []complex64, incx int) float32 {
	p.note("Scnrm2", map[string]int{"n": n, "incx": incx}, nil, map[string]sliceID{"x": sid(x)})
	return p.Implementation.Scnrm2(n, x, incx)
}
func (p *probe) Dznrm2(n int, x []complex128, incx int) float64 {
	p.note("Dznrm2", map[string]int{"n": n, "incx": incx}, nil, map[string]sliceID{"x": sid(x)})
	return p.Implementation.Dznrm2(n, x, incx)
}
func (p *probe) Srotg(a, b float32) (c, s, r, z float32) {
	p.note("Srotg", nil, map[string]complex128{"a": sc(a), "b": sc(b)}, nil)
	return p.Implementation.Srotg(a, b)
}
func (p *probe) Drotg(a, b float64) (c, s, r, z float64) {
	p.note("Drotg", nil, map[string]complex128{"a": sc(a), "b": sc(b)}, nil)
	return p.Implementation.Drotg(a, b)
}
func (p *probe) Srotmg(d1, d2, b1, b2 float32) (gblas.SrotmParams, float32, float32, float32) {
	p.note("Srotmg", nil, map[string]complex128{"d1": sc(d1), "d2": sc(d2), "b1": sc(b1), "b2": sc(b2)}, nil)
	return p.Implementation.Srotmg(d1, d2, b1, b2)
}
func (p *probe) Drotmg(d1, d2, b1, b2 float64) (gblas.DrotmParams, float64, float64, float64) {
	p.note("Drotmg", nil, map[string]complex128{"d1": sc(d1), "d2": sc(d2), "b1": sc(b1), "b2": sc(b2)}, nil)
	return p.Implementation.Drotmg(d1, d2, b1, b2)
}

// check compares the recorded call with the call the specification says the wrapper forwards.
func (p *probe) check(name string, fwd params, scal map[string]complex128, sl map[string]sliceID, h []int64) string {
	if p.calls != 1 || p.last == nil {
		return fmt.Sprintf("the wrapper made %d calls of the implementation installed with Use, want 1 (%s)", p.calls, name)
	}
	r := p.last
	if r.name != name {
		return fmt.Sprintf("the wrapper forwarded to %s, want %s", r.name, name)
	}
	want := map[string]int{"tA": int(trans(fwd.TA)), "tB": int(trans(fwd.TB)), "ul": int(uploOf(fwd.Ul)),
		"dg": int(diagOf(fwd.Dg)), "sd": int(sideOf(fwd.Sd)), "m": fwd.M, "n": fwd.N, "k": fwd.K, "kl": fwd.Kl,
		"ku": fwd.Ku, "lda": fwd.Lda, "ldb": fwd.Ldb, "ldc": fwd.Ldc, "incx": fwd.Incx, "incy": fwd.Incy}
	if len(h) == 5 {
		want["hflag"] = int(h[0])
		scal = map[string]complex128{"h0": complex(float64(h[1]), 0), "h1": complex(float64(h[2]), 0),
			"h2": complex(float64(h[3]), 0), "h3": complex(float64(h[4]), 0), "alpha": scal["alpha"], "beta": scal["beta"]}
	}
	var bad []string
	for key, got := range r.ints {
		if w, ok := want[key]; !ok || w != got {
			bad = append(bad, fmt.Sprintf("%s=%d want %d", key, got, w))
		}
	}
	for key, got := range r.scal {
		if w, ok := scal[key]; !ok || w != got {
			bad = append(bad, fmt.Sprintf("%s=%v want %v", key, got, w))
		}
	}
	for key, got := range r.sl {
		if w, ok := sl[key]; !ok || w != got {
			bad = append(bad, fmt.Sprintf("slice argument %s is not the Data of struct %s (len %d want %d)", key, key, got.n, w.n))
		}
	}
	if len(bad) == 0 {
		return ""
	}
	sort.Strings(bad)
	return fmt.Sprintf("%s received other arguments than the specified forwarding: %s", name, strings.Join(bad, ", "))
}

var probeInstalled bool

// installProbe makes the four wrapper packages forward to p (nil: to the default gonum.Implementation).
func installProbe(p *probe) {
	precS.use(p)
	precD.use(p)
	precC.use(p)
	precZ.use(p)
	probeInstalled = p != nil
}
func ensureProbe() {
	if !probeInstalled {
		installProbe(theProbe)
	}
}

func init() {
	precS.pkg, precS.wtab, precS.conv, precS.epsExp = "blas32", wtabS, convS, 23
	precD.pkg, precD.wtab, precD.conv, precD.epsExp = "blas64", wtabD, convD, 52
	precC.pkg, precC.wtab, precC.conv, precC.epsExp = "cblas64", wtabC, convC, 23
	precZ.pkg, precZ.wtab, precZ.conv, precZ.epsExp = "cblas128", wtabZ, convZ, 52
	precS.use = func(p *probe) {
		if p == nil {
			blas32.Use(gonum.Implementation{})
		} else {
			blas32.Use(p)
		}
	}
	precD.use = func(p *probe) {
		if p == nil {
			blas64.Use(gonum.Implementation{})
		} else {
			blas64.Use(p)
		}
	}
	precC.use = func(p *probe) {
		if p == nil {
			cblas64.Use(gonum.Implementation{})
		} else {
			cblas64.Use(p)
		}
	}
	precZ.use = func(p *probe) {
		if p == nil {
			cblas128.Use(gonum.Implementation{})
		} else {
			cblas128.Use(p)
		}
	}
	precS.cur = func() any { return blas32.Implementation() }
	precD.cur = func() any { return blas64.Implementation() }
	precC.cur = func() any { return cblas64.Implementation() }
	precZ.cur = func() any { return cblas128.Implementation() }

	// wrappers whose signatures do not follow the family pattern
	wtabS["dsdot"] = wentry[float32, float32]{"DDot", map[string]string{"x": "Vector", "y": "Vector"}, func(c *call[float32, float32]) {
		c.retF = [2]float64{blas32.DDot(mkSVector(c.w["x"], c.x), mkSVector(c.w["y"], c.y)), 0}
	}}
	wtabS["sdsdot"] = wentry[float32, float32]{"SDDot", map[string]string{"x": "Vector", "y": "Vector"}, func(c *call[float32, float32]) {
		c.setT(blas32.SDDot(c.alpha, mkSVector(c.w["x"], c.x), mkSVector(c.w["y"], c.y)))
	}}
	wtabS["rotm"] = wentry[float32, float32]{"Rotm", map[string]string{"x": "Vector", "y": "Vector"}, func(c *call[float32, float32]) {
		blas32.Rotm(c.n, mkSVector(c.w["x"], c.x), mkSVector(c.w["y"], c.y), gblas.SrotmParams{Flag: gblas.Flag(c.h[0]),
			H: [4]float32{float32(c.h[1]), float32(c.h[2]), float32(c.h[3]), float32(c.h[4])}})
	}}
	wtabD["rotm"] = wentry[float64, float64]{"Rotm", map[string]string{"x": "Vector", "y": "Vector"}, func(c *call[float64, float64]) {
		blas64.Rotm(mkDVector(c.w["x"], c.x), mkDVector(c.w["y"], c.y), gblas.DrotmParams{Flag: gblas.Flag(c.h[0]),
			H: [4]float64{float64(c.h[1]), float64(c.h[2]), float64(c.h[3]), float64(c.h[4])}})
	}}
}

// --------------------------------------------------------------------------------- statistics

type extraStats struct {
	calls, wrapCalls, wrapPanics, failures int
	routines                               map[string]int
	kinds                                  map[string]int
	seen                                   map[string]bool
}

func newExtraStats() *extraStats {
	return &extraStats{routines: map[string]int{}, kinds: map[string]int{}, seen: map[string]bool{}}
}

func (xs *extraStats) fail(sum *core.Summary, raw json.RawMessage, name, kind, operand, cond, msg string) {
	sig := fmt.Sprintf("blas:%s:%s:%s:build=%s,%s", name, kind, operand, buildName, cond)
	xs.failures++
	if xs.seen[sig] {
		return
	}
	xs.seen[sig] = true
	sum.Fail(sig, name+": "+msg, raw)
}

func replayExtra(line []byte, raw json.RawMessage, only string, sum *core.Summary, xs *extraStats) error {
	var head struct {
		Kind string `json:"kind"`
		Cx   bool   `json:"cx"`
	}
	if err := json.Unmarshal(line, &head); err != nil {
		return err
	}
	sum.Cases++
	xs.kinds[head.Kind]++
	on := func(p string) bool { return only == "" || only == p }
	switch head.Kind {
	case "conv":
		var k convCase
		if err := json.Unmarshal(line, &k); err != nil {
			return err
		}
		if k.Sw.Rows*k.Sw.Cols+k.Sw.N > 0 {
			sum.Nontrivial++
		}
		if k.Cx {
			if on("C") {
				runConv(&precC, &k, raw, sum, xs)
			}
			if on("Z") {
				runConv(&precZ, &k, raw, sum, xs)
			}
		} else {
			if on("S") {
				runConv(&precS, &k, raw, sum, xs)
			}
			if on("D") {
				runConv(&precD, &k, raw, sum, xs)
			}
		}
	case "use":
		var k useCase
		if err := json.Unmarshal(line, &k); err != nil {
			return err
		}
		sum.Nontrivial++
		if on("S") {
			runUse(&precS, &k, raw, sum, xs)
		}
		if on("D") {
			runUse(&precD, &k, raw, sum, xs)
		}
		if on("C") {
			runUse(&precC, &k, raw, sum, xs)
		}
		if on("Z") {
			runUse(&precZ, &k, raw, sum, xs)
		}
	case "nrm2":
		var k nrmCase
		if err := json.Unmarshal(line, &k); err != nil {
			return err
		}
		if k.N > 0 {
			sum.Nontrivial++
		}
		if k.Cx {
			if on("C") {
				runNrm2(&precC, &k, raw, sum, xs, "Scnrm2", func(n int, x []complex64, inc int) float64 { return float64(impl.Scnrm2(n, x, inc)) },
					func(w *wstruct, x []complex64) float64 { return float64(cblas64.Nrm2(mkCVector(w, x))) })
			}
			if on("Z") {
				runNrm2(&precZ, &k, raw, sum, xs, "Dznrm2", func(n int, x []complex128, inc int) float64 { return impl.Dznrm2(n, x, inc) },
					func(w *wstruct, x []complex128) float64 { return cblas128.Nrm2(mkZVector(w, x)) })
			}
		} else {
			if on("S") {
				runNrm2(&precS, &k, raw, sum, xs, "Snrm2", func(n int, x []float32, inc int) float64 { return float64(impl.Snrm2(n, x, inc)) },
					func(w *wstruct, x []float32) float64 { return float64(blas32.Nrm2(mkSVector(w, x))) })
			}
			if on("D") {
				runNrm2(&precD, &k, raw, sum, xs, "Dnrm2", func(n int, x []float64, inc int) float64 { return impl.Dnrm2(n, x, inc) },
					func(w *wstruct, x []float64) float64 { return blas64.Nrm2(mkDVector(w, x)) })
			}
		}
	case "rotg":
		var k rotgCase
		if err := json.Unmarshal(line, &k); err != nil {
			return err
		}
		sum.Nontrivial++
		if on("S") {
			e := k.exp("S")
			a, b := float32(math.Ldexp(float64(k.A), e)), float32(math.Ldexp(float64(k.B), e))
			runRotg(&k, "S", 23, raw, sum, xs, "Srotg", complex(float64(a), 0), complex(float64(b), 0),
				func() [4]float64 {
					c, s, r, z := impl.Srotg(a, b)
					return [4]float64{float64(c), float64(s), float64(r), float64(z)}
				},
				func() [4]float64 {
					c, s, r, z := blas32.Rotg(a, b)
					return [4]float64{float64(c), float64(s), float64(r), float64(z)}
				})
		}
		if on("D") {
			e := k.exp("D")
			a, b := math.Ldexp(float64(k.A), e), math.Ldexp(float64(k.B), e)
			runRotg(&k, "D", 52, raw, sum, xs, "Drotg", complex(a, 0), complex(b, 0),
				func() [4]float64 { c, s, r, z := impl.Drotg(a, b); return [4]float64{c, s, r, z} },
				func() [4]float64 { c, s, r, z := blas64.Rotg(a, b); return [4]float64{c, s, r, z} })
		}
	case "rotmg":
		var k rotmgCase
		if err := json.Unmarshal(line, &k); err != nil {
			return err
		}
		sum.Nontrivial++
		in := [4]float64{dy(k.D1), dy(k.D2), dy(k.X1), dy(k.Y1)}
		if on("S") {
			f := [4]float32{float32(in[0]), float32(in[1]), float32(in[2]), float32(in[3])}
			conv := func(p gblas.SrotmParams, d1, d2, x1 float32) rotmgOut {
				return rotmgOut{int(p.Flag), [4]float64{float64(p.H[0]), float64(p.H[1]), float64(p.H[2]), float64(p.H[3])}, float64(d1), float64(d2), float64(x1)}
			}
			runRotmg(&k, "S", 23, in, raw, sum, xs, "Srotmg",
				func() rotmgOut { return conv(impl.Srotmg(f[0], f[1], f[2], f[3])) },
				func() rotmgOut { return conv(blas32.Rotmg(f[0], f[1], f[2], f[3])) })
		}
		if on("D") {
			conv := func(p gblas.DrotmParams, d1, d2, x1 float64) rotmgOut {
				return rotmgOut{int(p.Flag), p.H, d1, d2, x1}
			}
			runRotmg(&k, "D", 52, in, raw, sum, xs, "Drotmg",
				func() rotmgOut { return conv(impl.Drotmg(in[0], in[1], in[2], in[3])) },
				func() rotmgOut { return conv(blas64.Rotmg(in[0], in[1], in[2], in[3])) })
		}
	default:
		return fmt.Errorf("unknown case kind %q", head.Kind)
	}
	return nil
}

// -------------------------------------------------------------------------------- conversions

type convCase struct {
	Cx         bool    `json:"cx"`
	Type       string  `json:"type"`
	ToCols     bool    `json:"toCols"`
	Sw         wstruct `json:"sw"`
	Dw         wstruct `json:"dw"`
	Src        []num   `json:"src"`
	Dst        []num   `json:"dst"`
	Out        []num   `json:"out"`
	Alt        []num   `json:"alt"`
	SameStride bool    `json:"samestride"`
}

func runConv[T scalar, R realT](pr *prec[T, R], k *convCase, raw json.RawMessage, sum *core.Summary, xs *extraStats) {
	dstT, srcT := k.Type, k.Type+"Cols"
	if k.ToCols {
		dstT, srcT = k.Type+"Cols", k.Type
	}
	name := fmt.Sprintf("%s.%s.From(%s)", pr.pkg, dstT, srcT)
	strides := "strides-differ"
	if k.SameStride {
		strides = "strides-equal"
	}
	cond := fmt.Sprintf("%s,ul=%c", strides, "UL"[k.Sw.Uplo])
	fail := func(kind, operand, msg string) { xs.fail(sum, raw, name, kind, operand, cond, msg) }
	f, ok := pr.conv[k.Type]
	if !ok && pr.pkg == "cblas64" && (k.Type == "Symmetric" || k.Type == "SymmetricBand") {
		xs.kinds["conv_type_not_in_cblas64"]++ // cblas64 has no SymmetricCols / SymmetricBandCols
		return
	}
	if !ok || k.Sw.T != k.Type || k.Dw.T != k.Type {
		fail("harness", "-", "no conversion for struct type "+k.Type)
		return
	}
	ar := pr.arena
	ar.reset(pr.canary, len(k.Src)+len(k.Dst)+2*capTail)
	src := build(pr, ar, k.Src)
	dst := build(pr, ar, k.Dst)
	out := core.Call(func() { f(k.ToCols, &k.Sw, &k.Dw, src, dst) })
	xs.calls++
	xs.routines[name]++
	if out.Panicked {
		kind := "panic"
		if out.Runtime {
			kind = "runtime-panic"
		}
		fail(kind, "-", "valid conversion panicked: "+out.Text)
		return
	}
	for i := range src {
		if d := pr.match(src[i], k.Src[i]); d != "" {
			fail("ro-modified", "src", fmt.Sprintf("source[%d] changed: %s", i, d))
			break
		}
	}
	for _, s := range [][]T{src, dst} {
		full := s[:len(s)+capTail]
		for i := len(s); i < len(full); i++ {
			if !pr.same(full[i], pr.canary) {
				fail("captail", "-", fmt.Sprintf("element %d beyond len=%d (inside cap) was written", i, len(s)))
				break
			}
		}
	}
	for i := range dst {
		d := pr.match(dst[i], k.Out[i])
		if d == "" || pr.match(dst[i], k.Alt[i]) == "" {
			continue
		}
		if k.Out[i].re >= markerBase {
			fail("clobber", "dst", fmt.Sprintf("destination[%d] holds no element of the matrix and must not change: %s", i, d))
		} else {
			fail("value", "dst", fmt.Sprintf("destination[%d]: %s", i, d))
		}
		break
	}
}

// ---------------------------------------------------------------- Use / Implementation histories

type useCase struct {
	Steps []struct {
		Op  string `json:"op"`
		Arg string `json:"arg"`
		Obs string `json:"obs"`
	} `json:"steps"`
}

// emptyCall calls wrapper fn on empty operands (the forwarded routine returns at once).
func emptyCall[T scalar, R realT](pr *prec[T, R], fn string) (string, bool) {
	fam := strings.ToLower(fn)
	we, ok := pr.wtab[fam]
	e, ok2 := pr.tab[fam]
	if !ok || !ok2 || we.fn != fn {
		return "", false
	}
	vec := &wstruct{T: "Vector", Inc: 1}
	ge := &wstruct{T: "General", Stride: 1}
	c := &call[T, R]{tA: gblas.NoTrans, tB: gblas.NoTrans, parts: pr.parts,
		w: map[string]*wstruct{"x": vec, "y": vec, "a": ge, "b": ge, "c": ge}}
	out := core.Call(func() { we.f(c) })
	return e.name, !out.Panicked
}

func runUse[T scalar, R realT](pr *prec[T, R], k *useCase, raw json.RawMessage, sum *core.Summary, xs *extraStats) {
	if probeInstalled { // histories start in the default state
		installProbe(nil)
	}
	defer pr.use(nil)
	probes := map[string]*probe{"probe1": {id: "probe1"}, "probe2": {id: "probe2"}}
	for i, s := range k.Steps {
		name := pr.pkg + "." + s.Op
		fail := func(msg string) {
			xs.fail(sum, raw, name, "use", "-", "obs="+s.Obs, fmt.Sprintf("step %d (%s %s): %s", i+1, s.Op, s.Arg, msg))
		}
		switch s.Op {
		case "Use":
			pr.use(probes[s.Arg]) // "gonum": nil -> gonum.Implementation{}
		case "Implementation":
			got := "?"
			switch v := pr.cur().(type) {
			case *probe:
				got = v.id
			case gonum.Implementation:
				got = "gonum"
			}
			if got != s.Obs {
				fail(fmt.Sprintf("Implementation() returned %s, want %s", got, s.Obs))
			}
		case "Call":
			for _, p := range probes {
				p.reset()
			}
			method, ok := emptyCall(pr, s.Arg)
			xs.calls++
			if !ok {
				fail("wrapper call on empty operands failed")
				continue
			}
			for id, p := range probes {
				want := 0
				if id == s.Obs {
					want = 1
				}
				if p.calls != want || (want == 1 && p.last.name != method) {
					fail(fmt.Sprintf("%s received %d calls, want %d of %s", id, p.calls, want, method))
				}
			}
		}
	}
}

// ------------------------------------------------------------------------ rationals (comparison)

// ratOf turns the printed <<num, den, e>> into num/den * 2^e.
func ratOf(q []int64) *big.Rat {
	r := big.NewRat(q[0], q[1])
	return r.Mul(r, pow2(int(q[2])))
}
func pow2(e int) *big.Rat {
	if e >= 0 {
		return new(big.Rat).SetInt(new(big.Int).Lsh(big.NewInt(1), uint(e)))
	}
	return new(big.Rat).SetFrac(big.NewInt(1), new(big.Int).Lsh(big.NewInt(1), uint(-e)))
}

// within: |got - exp| <= tolk * 2^-epsExp * |exp| (exactly, in rationals).
func within(got float64, exp *big.Rat, tolk int64, epsExp int) bool {
	if math.IsNaN(got) || math.IsInf(got, 0) {
		return false
	}
	d := new(big.Rat).SetFloat64(got)
	d.Sub(d, exp)
	d.Abs(d)
	tol := new(big.Rat).Abs(exp)
	tol.Mul(tol, big.NewRat(tolk, 1))
	tol.Mul(tol, pow2(-epsExp))
	return d.Cmp(tol) <= 0
}
func showRat(r *big.Rat) string {
	f, _ := r.Float64()
	return fmt.Sprintf("%s (~%g)", r.RatString(), f)
}

// dy: the dyadic input <<mantissa, exponent>> (exact in float32 and float64).
func dy(q []int64) float64 { return math.Ldexp(float64(q[0]), int(q[1])) }

// ------------------------------------------------------------------------------------- nrm2

type nrmCase struct {
	Cx    bool                `json:"cx"`
	N     int                 `json:"n"`
	Inc   int                 `json:"inc"`
	Sc    int                 `json:"sc"`
	Scexp map[string]int      `json:"scexp"`
	X     []num               `json:"x"`
	Ret   int64               `json:"ret"`
	Tolk  int64               `json:"tolk"`
	Fn    string              `json:"fn"`
	W     map[string]*wstruct `json:"w"`
	Fwd   struct {
		N    int `json:"n"`
		Incx int `json:"incx"`
	} `json:"fwd"`
	Wpanic string `json:"wpanic"`
}

func scaleExp(sc int, scexp map[string]int, letter string) int {
	l := "D"
	if letter == "S" || letter == "C" {
		l = "S"
	}
	switch sc {
	case 1:
		return scexp[l]
	case 2:
		return -scexp[l]
	}
	return 0
}

// scaled multiplies an element by 2^e (exact: the specification chose e so that the result is representable).
func scaled[T scalar](v T, e int) T {
	switch x := any(v).(type) {
	case float32:
		return any(float32(math.Ldexp(float64(x), e))).(T)
	case float64:
		return any(math.Ldexp(x, e)).(T)
	case complex64:
		return any(complex(float32(math.Ldexp(float64(real(x)), e)), float32(math.Ldexp(float64(imag(x)), e)))).(T)
	case complex128:
		return any(complex(math.Ldexp(real(x), e), math.Ldexp(imag(x), e))).(T)
	}
	return v
}

func runNrm2[T scalar, R realT](pr *prec[T, R], k *nrmCase, raw json.RawMessage, sum *core.Summary, xs *extraStats,
	implName string, direct func(n int, x []T, inc int) float64, wrapped func(w *wstruct, x []T) float64) {
	e := scaleExp(k.Sc, k.Scexp, pr.letter)
	exp := new(big.Rat).SetInt64(k.Ret)
	exp.Mul(exp, pow2(e))
	cond := fmt.Sprintf("inc=%s,scale=%d,n=%s", incClass(k.Inc), k.Sc, nClass(k.N))
	for pass := 0; pass < 2; pass++ {
		name := implName
		if pass == 1 {
			name = pr.pkg + "." + k.Fn
			if !wrappersOn {
				break
			}
			if k.Fn != "Nrm2" || k.W["x"] == nil || k.W["x"].T != "Vector" {
				xs.fail(sum, raw, name, "harness", "-", cond, "specification names another wrapper or struct")
				break
			}
		}
		fail := func(kind, msg string) { xs.fail(sum, raw, name, kind, "-", cond, msg) }
		ar := pr.arena
		ar.reset(pr.canary, len(k.X)+capTail)
		x := build(pr, ar, k.X)
		for i, v := range k.X {
			if v.re < poisonBase {
				x[i] = scaled(x[i], e)
			}
		}
		orig := append([]T(nil), x...)
		var got float64
		var out core.Outcome
		if pass == 0 {
			out = core.Call(func() { got = direct(k.N, x, k.Inc) })
		} else {
			ensureProbe()
			theProbe.reset()
			out = core.Call(func() { got = wrapped(k.W["x"], x) })
		}
		xs.calls++
		xs.routines[name]++
		if pass == 1 && k.Wpanic != "" {
			xs.wrapPanics++
			if !out.Panicked {
				fail("no-panic", fmt.Sprintf("documented panic (%s) did not happen", k.Wpanic))
			}
			continue
		}
		if out.Panicked {
			fail("panic", "valid call panicked: "+out.Text)
			continue
		}
		if pass == 1 {
			xs.wrapCalls++
			if msg := theProbe.check(implName, params{N: k.Fwd.N, Incx: k.Fwd.Incx}, nil, map[string]sliceID{"x": sid(x)}, nil); msg != "" {
				fail("forward", msg)
			}
		}
		for i := range x {
			if !pr.same(x[i], orig[i]) {
				fail("ro-modified", fmt.Sprintf("x[%d] changed", i))
				break
			}
		}
		full := x[:len(x)+capTail]
		for i := len(x); i < len(full); i++ {
			if !pr.same(full[i], pr.canary) {
				fail("captail", fmt.Sprintf("element %d beyond len(x)=%d was written", i, len(x)))
				break
			}
		}
		if !within(got, exp, k.Tolk, pr.epsExp) {
			fail("ret", fmt.Sprintf("returned %g, want %s within %d eps", got, showRat(exp), k.Tolk))
		}
	}
}

func nClass(n int) string {
	switch {
	case n == 0:
		return "0"
	case n == 1:
		return "1"
	}
	return "+"
}

// ------------------------------------------------------------------------------------- rotg

type rotgCase struct {
	A     int64          `json:"a"`
	B     int64          `json:"b"`
	Sc    int            `json:"sc"`
	Scexp map[string]int `json:"scexp"`
	R     int64          `json:"r"`
	C     []int64        `json:"c"`
	S     []int64        `json:"s"`
	Z     []int64        `json:"z"`
	Zalt  []int64        `json:"zalt"`
	Tolk  int64          `json:"tolk"`
}

func (k *rotgCase) exp(letter string) int { return scaleExp(k.Sc, k.Scexp, letter) }

func sgnClass(v int64) string {
	switch {
	case v > 0:
		return "+"
	case v < 0:
		return "-"
	}
	return "0"
}

func runRotg(k *rotgCase, letter string, epsExp int, raw json.RawMessage, sum *core.Summary, xs *extraStats,
	implName string, a, b complex128, direct, wrapped func() [4]float64) {
	e := k.exp(letter)
	r := new(big.Rat).SetInt64(k.R)
	r.Mul(r, pow2(e))
	cmp := "|a|<=|b|"
	if k.A*k.A > k.B*k.B {
		cmp = "|a|>|b|"
	}
	cond := fmt.Sprintf("a=%s,b=%s,%s,scale=%d", sgnClass(k.A), sgnClass(k.B), cmp, k.Sc)
	pkg := map[string]string{"S": "blas32", "D": "blas64"}[letter]
	for pass := 0; pass < 2; pass++ {
		name := implName
		if pass == 1 {
			if !wrappersOn {
				break
			}
			name = pkg + ".Rotg"
			ensureProbe()
			theProbe.reset()
		}
		fail := func(kind, msg string) { xs.fail(sum, raw, name, kind, "-", cond, msg) }
		var got [4]float64
		var out core.Outcome
		if pass == 0 {
			out = core.Call(func() { got = direct() })
		} else {
			out = core.Call(func() { got = wrapped() })
		}
		xs.calls++
		xs.routines[name]++
		if out.Panicked {
			fail("panic", "call panicked: "+out.Text)
			continue
		}
		if pass == 1 {
			xs.wrapCalls++
			if msg := theProbe.check(implName, params{}, map[string]complex128{"a": a, "b": b}, nil, nil); msg != "" {
				fail("forward", msg)
			}
		}
		if !within(got[0], ratOf(k.C), k.Tolk, epsExp) {
			fail("c", fmt.Sprintf("c = %g, want %s", got[0], showRat(ratOf(k.C))))
		}
		if !within(got[1], ratOf(k.S), k.Tolk, epsExp) {
			fail("s", fmt.Sprintf("s = %g, want %s", got[1], showRat(ratOf(k.S))))
		}
		if !within(got[2], r, k.Tolk, epsExp) {
			fail("r", fmt.Sprintf("r = %g, want %s", got[2], showRat(r)))
		}
		if !within(got[3], ratOf(k.Z), k.Tolk, epsExp) && !within(got[3], ratOf(k.Zalt), k.Tolk, epsExp) {
			fail("z", fmt.Sprintf("z = %g, want %s", got[3], showRat(ratOf(k.Z))))
		}
	}
}

// ------------------------------------------------------------------------------------ rotmg

type rotmgCase struct {
	D1   []int64 `json:"d1"`
	D2   []int64 `json:"d2"`
	X1   []int64 `json:"x1"`
	Y1   []int64 `json:"y1"`
	Outs []struct {
		Flag int       `json:"flag"`
		H    [][]int64 `json:"h"`
		Mask []bool    `json:"mask"`
		Rd1  []int64   `json:"rd1"`
		Rd2  []int64   `json:"rd2"`
		Rx1  []int64   `json:"rx1"`
	} `json:"outs"`
	Tolk int64 `json:"tolk"`
}

type rotmgOut struct {
	flag       int
	h          [4]float64
	d1, d2, x1 float64
}

func runRotmg(k *rotmgCase, letter string, epsExp int, in [4]float64, raw json.RawMessage, sum *core.Summary, xs *extraStats,
	implName string, direct, wrapped func() rotmgOut) {
	pkg := map[string]string{"S": "blas32", "D": "blas64"}[letter]
	cond := fmt.Sprintf("flag=%d,d1=%s,d2=%s,x1=%s,y1=%s", k.Outs[0].Flag, sgnClass(k.D1[0]), sgnClass(k.D2[0]), sgnClass(k.X1[0]), sgnClass(k.Y1[0]))
	for pass := 0; pass < 2; pass++ {
		name := implName
		if pass == 1 {
			if !wrappersOn {
				break
			}
			name = pkg + ".Rotmg"
			ensureProbe()
			theProbe.reset()
		}
		fail := func(kind, msg string) { xs.fail(sum, raw, name, kind, "-", cond, msg) }
		var got rotmgOut
		var out core.Outcome
		if pass == 0 {
			out = core.Call(func() { got = direct() })
		} else {
			out = core.Call(func() { got = wrapped() })
		}
		xs.calls++
		xs.routines[name]++
		if out.Panicked {
			fail("panic", "call panicked: "+out.Text)
			continue
		}
		if pass == 1 {
			xs.wrapCalls++
			if msg := theProbe.check(implName, params{}, map[string]complex128{"d1": complex(in[0], 0), "d2": complex(in[1], 0),
				"b1": complex(in[2], 0), "b2": complex(in[3], 0)}, nil, nil); msg != "" {
				fail("forward", msg)
			}
		}
		why := ""
		ok := false
		for _, o := range k.Outs { // every legal outcome the specification printed
			w := ""
			if got.flag != o.Flag {
				w = fmt.Sprintf("flag %d want %d", got.flag, o.Flag)
			}
			for i := 0; i < 4 && w == ""; i++ {
				if o.Mask[i] && !within(got.h[i], ratOf(o.H[i]), k.Tolk, epsExp) {
					w = fmt.Sprintf("H[%d] = %g want %s", i, got.h[i], showRat(ratOf(o.H[i])))
				}
			}
			if w == "" && !within(got.d1, ratOf(o.Rd1), k.Tolk, epsExp) {
				w = fmt.Sprintf("d1 = %g want %s", got.d1, showRat(ratOf(o.Rd1)))
			}
			if w == "" && !within(got.d2, ratOf(o.Rd2), k.Tolk, epsExp) {
				w = fmt.Sprintf("d2 = %g want %s", got.d2, showRat(ratOf(o.Rd2)))
			}
			if w == "" && !within(got.x1, ratOf(o.Rx1), k.Tolk, epsExp) {
				w = fmt.Sprintf("x1 = %g want %s", got.x1, showRat(ratOf(o.Rx1)))
			}
			if w == "" {
				ok = true
				break
			}
			if why == "" {
				why = w
			}
		}
		if !ok {
			fail("value", fmt.Sprintf("(d1,d2,x1,y1) = (%g,%g,%g,%g): %s", in[0], in[1], in[2], in[3], why))
		}
	}
}
