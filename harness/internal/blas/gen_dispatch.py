#!/usr/bin/env python3
"""Generates dispatch_gen.go from the tables below (the only input; the Go compiler checks them
against the real signatures of gonum).  No arithmetic here.

  tabS/D/C/Z    one closure per BLAS routine and precision that passes the fields of a call record
                to blas/gonum.Implementation, in the argument order of the gonum API
  wtabS/D/C/Z   one closure per routine family and wrapper package (blas32, blas64, cblas64,
                cblas128): builds the wrapper's structs from the struct records the specification
                printed (BlasWrap.tla) and calls the wrapper function
  probe         an implementation of blas.Float32/Float64/Complex64/Complex128 that records the
                method and every argument it is called with and then forwards to
                gonum.Implementation (installed with Use: what did the wrapper forward?)
  convS/D/C/Z   the From conversions between the row-major struct types and their column-major twins
"""
import os

# family -> (domains, argument tokens of the gonum method, kind of returned value)
T = {
 "swap":  ("RC", "n x incx y incy", ""),
 "copy":  ("RC", "n x incx y incy", ""),
 "axpy":  ("RC", "n alpha x incx y incy", ""),
 "scal":  ("RC", "n alpha x incx", ""),
 "rscal": ("C",  "n ralpha x incx", ""),
 "dot":   ("R",  "n x incx y incy", "T"),
 "dotu":  ("C",  "n x incx y incy", "T"),
 "dotc":  ("C",  "n x incx y incy", "T"),
 "asum":  ("RC", "n x incx", "R"),
 "iamax": ("RC", "n x incx", "I"),
 "rot":   ("R",  "n x incx y incy alpha beta", ""),
 "gemv":  ("RC", "tA m n alpha a lda x incx beta y incy", ""),
 "gbmv":  ("RC", "tA m n kl ku alpha a lda x incx beta y incy", ""),
 "symv":  ("R",  "ul n alpha a lda x incx beta y incy", ""),
 "hemv":  ("C",  "ul n alpha a lda x incx beta y incy", ""),
 "sbmv":  ("R",  "ul n k alpha a lda x incx beta y incy", ""),
 "hbmv":  ("C",  "ul n k alpha a lda x incx beta y incy", ""),
 "spmv":  ("R",  "ul n alpha a x incx beta y incy", ""),
 "hpmv":  ("C",  "ul n alpha a x incx beta y incy", ""),
 "trmv":  ("RC", "ul tA dg n a lda x incx", ""),
 "trsv":  ("RC", "ul tA dg n a lda x incx", ""),
 "tbmv":  ("RC", "ul tA dg n k a lda x incx", ""),
 "tbsv":  ("RC", "ul tA dg n k a lda x incx", ""),
 "tpmv":  ("RC", "ul tA dg n a x incx", ""),
 "tpsv":  ("RC", "ul tA dg n a x incx", ""),
 "ger":   ("R",  "m n alpha x incx y incy a lda", ""),
 "geru":  ("C",  "m n alpha x incx y incy a lda", ""),
 "gerc":  ("C",  "m n alpha x incx y incy a lda", ""),
 "syr":   ("R",  "ul n alpha x incx a lda", ""),
 "her":   ("C",  "ul n ralpha x incx a lda", ""),
 "spr":   ("R",  "ul n alpha x incx a", ""),
 "hpr":   ("C",  "ul n ralpha x incx a", ""),
 "syr2":  ("R",  "ul n alpha x incx y incy a lda", ""),
 "her2":  ("C",  "ul n alpha x incx y incy a lda", ""),
 "spr2":  ("R",  "ul n alpha x incx y incy a", ""),
 "hpr2":  ("C",  "ul n alpha x incx y incy a", ""),
 "gemm":  ("RC", "tA tB m n k alpha a lda b ldb beta c ldc", ""),
 "symm":  ("RC", "sd ul m n alpha a lda b ldb beta c ldc", ""),
 "hemm":  ("C",  "sd ul m n alpha a lda b ldb beta c ldc", ""),
 "syrk":  ("RC", "ul tA n k alpha a lda beta c ldc", ""),
 "herk":  ("C",  "ul tA n k ralpha a lda rbeta c ldc", ""),
 "syr2k": ("RC", "ul tA n k alpha a lda b ldb beta c ldc", ""),
 "her2k": ("C",  "ul tA n k alpha a lda b ldb rbeta c ldc", ""),
 "trmm":  ("RC", "sd ul tA dg m n alpha a lda b ldb", ""),
 "trsm":  ("RC", "sd ul tA dg m n alpha a lda b ldb", ""),
}
SPECIAL = {  # (family, precision) -> gonum method name
 ("asum", "C"): "Scasum", ("asum", "Z"): "Dzasum",
 ("iamax", "S"): "Isamax", ("iamax", "D"): "Idamax", ("iamax", "C"): "Icamax", ("iamax", "Z"): "Izamax",
 ("rscal", "C"): "Csscal", ("rscal", "Z"): "Zdscal",
}
TYPES = {"S": ("float32", "float32"), "D": ("float64", "float64"),
         "C": ("complex64", "float32"), "Z": ("complex128", "float64")}
PKG = {"S": "blas32", "D": "blas64", "C": "cblas64", "Z": "cblas128"}

# family -> (wrapper function, argument tokens of the wrapper; a matrix/vector token is operand:StructType)
W = {
 "swap":  ("Swap", "x:Vector y:Vector"),
 "copy":  ("Copy", "x:Vector y:Vector"),
 "axpy":  ("Axpy", "alpha x:Vector y:Vector"),
 "scal":  ("Scal", "alpha x:Vector"),
 "rscal": ("Dscal", "ralpha x:Vector"),
 "dot":   ("Dot", "x:Vector y:Vector"),
 "dotu":  ("Dotu", "x:Vector y:Vector"),
 "dotc":  ("Dotc", "x:Vector y:Vector"),
 "asum":  ("Asum", "x:Vector"),
 "iamax": ("Iamax", "x:Vector"),
 "rot":   ("Rot", "x:Vector y:Vector alpha beta"),
 "gemv":  ("Gemv", "tA alpha a:General x:Vector beta y:Vector"),
 "gbmv":  ("Gbmv", "tA alpha a:Band x:Vector beta y:Vector"),
 "symv":  ("Symv", "alpha a:Symmetric x:Vector beta y:Vector"),
 "hemv":  ("Hemv", "alpha a:Hermitian x:Vector beta y:Vector"),
 "sbmv":  ("Sbmv", "alpha a:SymmetricBand x:Vector beta y:Vector"),
 "hbmv":  ("Hbmv", "alpha a:HermitianBand x:Vector beta y:Vector"),
 "spmv":  ("Spmv", "alpha a:SymmetricPacked x:Vector beta y:Vector"),
 "hpmv":  ("Hpmv", "alpha a:HermitianPacked x:Vector beta y:Vector"),
 "trmv":  ("Trmv", "tA a:Triangular x:Vector"),
 "trsv":  ("Trsv", "tA a:Triangular x:Vector"),
 "tbmv":  ("Tbmv", "tA a:TriangularBand x:Vector"),
 "tbsv":  ("Tbsv", "tA a:TriangularBand x:Vector"),
 "tpmv":  ("Tpmv", "tA a:TriangularPacked x:Vector"),
 "tpsv":  ("Tpsv", "tA a:TriangularPacked x:Vector"),
 "ger":   ("Ger", "alpha x:Vector y:Vector a:General"),
 "geru":  ("Geru", "alpha x:Vector y:Vector a:General"),
 "gerc":  ("Gerc", "alpha x:Vector y:Vector a:General"),
 "syr":   ("Syr", "alpha x:Vector a:Symmetric"),
 "her":   ("Her", "ralpha x:Vector a:Hermitian"),
 "spr":   ("Spr", "alpha x:Vector a:SymmetricPacked"),
 "hpr":   ("Hpr", "ralpha x:Vector a:HermitianPacked"),
 "syr2":  ("Syr2", "alpha x:Vector y:Vector a:Symmetric"),
 "her2":  ("Her2", "alpha x:Vector y:Vector a:Hermitian"),
 "spr2":  ("Spr2", "alpha x:Vector y:Vector a:SymmetricPacked"),
 "hpr2":  ("Hpr2", "alpha x:Vector y:Vector a:HermitianPacked"),
 "gemm":  ("Gemm", "tA tB alpha a:General b:General beta c:General"),
 "symm":  ("Symm", "sd alpha a:Symmetric b:General beta c:General"),
 "hemm":  ("Hemm", "sd alpha a:Hermitian b:General beta c:General"),
 "syrk":  ("Syrk", "tA alpha a:General beta c:Symmetric"),
 "herk":  ("Herk", "tA ralpha a:General rbeta c:Hermitian"),
 "syr2k": ("Syr2k", "tA alpha a:General b:General beta c:Symmetric"),
 "her2k": ("Her2k", "tA alpha a:General b:General rbeta c:Hermitian"),
 "trmm":  ("Trmm", "sd tA alpha a:Triangular b:General"),
 "trsm":  ("Trsm", "sd tA alpha a:Triangular b:General"),
}
WOVERRIDE = {("rot", "S"): "n x:Vector y:Vector alpha beta"}   # blas32.Rot takes n explicitly

# struct type -> fields set from the struct record (Data is always the backing slice)
STRUCTS = {
 "Vector": "N Inc", "General": "Rows Cols Stride", "Band": "Rows Cols KL KU Stride",
 "Triangular": "N Stride Uplo Diag", "TriangularBand": "N K Stride Uplo Diag", "TriangularPacked": "N Uplo Diag",
 "Symmetric": "N Stride Uplo", "SymmetricBand": "N K Stride Uplo", "SymmetricPacked": "N Uplo",
 "Hermitian": "N Stride Uplo", "HermitianBand": "N K Stride Uplo", "HermitianPacked": "N Uplo",
}
COMPLEX_ONLY = {"Hermitian", "HermitianBand", "HermitianPacked"}
CONV = ["General", "Triangular", "Band", "TriangularBand", "Symmetric", "SymmetricBand", "Hermitian", "HermitianBand"]

GOTYPE = {"n": "int", "m": "int", "k": "int", "kl": "int", "ku": "int", "lda": "int", "ldb": "int", "ldc": "int",
          "incx": "int", "incy": "int", "tA": "gblas.Transpose", "tB": "gblas.Transpose", "ul": "gblas.Uplo",
          "dg": "gblas.Diag", "sd": "gblas.Side"}

out = ["// Code generated by gen_dispatch.py; DO NOT EDIT.", "", "package blas", "",
       "import (", '\tgblas "gonum.org/v1/gonum/blas"', '\t"gonum.org/v1/gonum/blas/blas32"',
       '\t"gonum.org/v1/gonum/blas/blas64"', '\t"gonum.org/v1/gonum/blas/cblas128"',
       '\t"gonum.org/v1/gonum/blas/cblas64"', '\t"gonum.org/v1/gonum/blas/gonum"', ")", "",
       "var impl gonum.Implementation", ""]


def in_dom(fam, prec):
    return ("R" if prec in "SD" else "C") in T[fam][0]


# ---- direct calls -----------------------------------------------------------------------------
for prec in "SDCZ":
    t, r = TYPES[prec]
    out.append("var tab%s = map[string]entry[%s, %s]{" % (prec, t, r))
    for fam in T:
        dom, args, ret = T[fam]
        if not in_dom(fam, prec):
            continue
        name = SPECIAL.get((fam, prec), prec + fam)
        call = "impl.%s(%s)" % (name, ", ".join("c." + a for a in args.split()))
        if ret == "T":
            call = "c.setT(%s)" % call
        elif ret == "R":
            call = "c.setR(%s)" % call
        elif ret == "I":
            call = "c.setI(%s)" % call
        out.append('\t"%s": {"%s", func(c *call[%s, %s]) { %s }},' % (fam, name, t, r, call))
    out.append("}")
    out.append("")

# ---- struct constructors ------------------------------------------------------------------------
for prec in "SDCZ":
    t, r = TYPES[prec]
    for st, fields in STRUCTS.items():
        if st in COMPLEX_ONLY and prec in "SD":
            continue
        fl = []
        for f in fields.split():
            if f == "Uplo":
                fl.append("Uplo: uploOf(w.Uplo)")
            elif f == "Diag":
                fl.append("Diag: diagOf(w.Diag)")
            else:
                fl.append("%s: w.%s" % (f, f))
        out.append("func mk%s%s(w *wstruct, d []%s) %s.%s {\n\treturn %s.%s{%s, Data: d}\n}" % (
            prec, st, t, PKG[prec], st, PKG[prec], st, ", ".join(fl)))
    out.append("")

# ---- wrapper calls ------------------------------------------------------------------------------
for prec in "SDCZ":
    t, r = TYPES[prec]
    out.append("var wtab%s = map[string]wentry[%s, %s]{" % (prec, t, r))
    for fam in W:
        if not in_dom(fam, prec):
            continue
        fn, toks = W[fam]
        toks = WOVERRIDE.get((fam, prec), toks)
        args, types = [], []
        for tk in toks.split():
            if ":" in tk:
                o, st = tk.split(":")
                args.append('mk%s%s(c.w["%s"], c.%s)' % (prec, st, o, o))
                types.append('"%s": "%s"' % (o, st))
            else:
                args.append("c." + tk)
        call = "%s.%s(%s)" % (PKG[prec], fn, ", ".join(args))
        ret = T[fam][2]
        if ret == "T":
            call = "c.setT(%s)" % call
        elif ret == "R":
            call = "c.setR(%s)" % call
        elif ret == "I":
            call = "c.setI(%s)" % call
        out.append('\t"%s": {"%s", map[string]string{%s}, func(c *call[%s, %s]) { %s }},' % (
            fam, fn, ", ".join(types), t, r, call))
    out.append("}")
    out.append("")

# ---- the recording implementation ---------------------------------------------------------------
out.append("// probe records the method and the arguments of the last BLAS call it receives and forwards the call to")
out.append("// gonum.Implementation. Methods that are not listed here are inherited unrecorded.")
for prec in "SDCZ":
    t, r = TYPES[prec]
    for fam in T:
        dom, args, ret = T[fam]
        if not in_dom(fam, prec):
            continue
        name = SPECIAL.get((fam, prec), prec + fam)
        params, ints, scal, sl = [], [], [], []
        for a in args.split():
            if a in GOTYPE:
                params.append("%s %s" % (a, GOTYPE[a]))
                ints.append('"%s": int(%s)' % (a, a))
            elif a in ("alpha", "beta"):
                params.append("%s %s" % (a, t))
                scal.append('"%s": sc(%s)' % (a, a))
            elif a in ("ralpha", "rbeta"):
                params.append("%s %s" % (a, r))
                scal.append('"%s": sc(%s)' % (a[1:], a))
            else:
                params.append("%s []%s" % (a, t))
                sl.append('"%s": sid(%s)' % (a, a))
        rett = {"": "", "T": " " + t, "R": " " + r, "I": " int"}[ret]
        fwd = "p.Implementation.%s(%s)" % (name, ", ".join(a for a in args.split()))
        out.append("func (p *probe) %s(%s)%s {" % (name, ", ".join(params), rett))
        out.append('\tp.note("%s", map[string]int{%s}, map[string]complex128{%s}, map[string]sliceID{%s})' % (
            name, ", ".join(ints), ", ".join(scal), ", ".join(sl)))
        out.append("\t%s%s" % ("return " if ret else "", fwd))
        out.append("}")
        out.append("")

# ---- conversions between row-major and column-major structs --------------------------------------
for prec in "SDCZ":
    t, r = TYPES[prec]
    pk = PKG[prec]
    out.append("var conv%s = map[string]func(toCols bool, sw, dw *wstruct, s, d []%s){" % (prec, t))
    for st in CONV:
        if st in COMPLEX_ONLY and prec in "SD":
            continue
        if prec == "C" and st in ("Symmetric", "SymmetricBand"):   # cblas64 has no SymmetricCols / SymmetricBandCols
            continue
        out.append('\t"%s": func(toCols bool, sw, dw *wstruct, s, d []%s) {' % (st, t))
        out.append("\t\tif toCols {")
        out.append("\t\t\t%s.%sCols(mk%s%s(dw, d)).From(mk%s%s(sw, s))" % (pk, st, prec, st, prec, st))
        out.append("\t\t} else {")
        out.append("\t\t\tmk%s%s(dw, d).From(%s.%sCols(mk%s%s(sw, s)))" % (prec, st, pk, st, prec, st))
        out.append("\t\t}")
        out.append("\t},")
    out.append("}")
    out.append("")

open(os.path.join(os.path.dirname(os.path.abspath(__file__)), "dispatch_gen.go"), "w").write("\n".join(out))
