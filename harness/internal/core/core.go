// Package core holds the small amount of plumbing shared by every area of the
// conformance harness: the summary object printed for tools/check, a registry
// of replay (spec->code) and record (code->spec) drivers, ndjson helpers and a
// per-call watchdog.
package core

import (
	"bufio"
	"encoding/json"
	"fmt"
	"io"
	"os"
	"runtime"
	"sort"
	"time"
)

// Failure is one disagreement between the real code and the specification.
type Failure struct {
	Sig  string `json:"sig"`            // stable signature used for known-findings matching
	Msg  string `json:"msg"`            // human readable detail
	Case any    `json:"case,omitempty"` // self-contained case that can be replayed alone
}

// Summary is printed as the last stdout line of every harness run.
type Summary struct {
	Cases      int            `json:"cases"`
	Nontrivial int            `json:"nontrivial"`
	Events     int            `json:"events,omitempty"`
	Traces     int            `json:"traces,omitempty"`
	Failures   []Failure      `json:"failures"`
	Samples    []any          `json:"samples"`
	Extra      map[string]any `json:"extra"`
	failSeen   map[string]int
}

// Fail records a failure (at most 3 per signature and 40 in total are kept).
func (s *Summary) Fail(sig, msg string, c any) {
	if s.failSeen == nil {
		s.failSeen = map[string]int{}
	}
	s.failSeen[sig]++
	if s.failSeen[sig] > 3 || len(s.Failures) >= 40 {
		return
	}
	s.Failures = append(s.Failures, Failure{Sig: sig, Msg: msg, Case: c})
}

// Sample keeps a few cases verbatim for the evidence file.
func (s *Summary) Sample(c any) {
	if len(s.Samples) < 3 {
		s.Samples = append(s.Samples, c)
	}
}

// Count adds to a named counter in Extra.
func (s *Summary) Count(name string, n int) {
	if s.Extra == nil {
		s.Extra = map[string]any{}
	}
	v, _ := s.Extra[name].(int)
	s.Extra[name] = v + n
}

type ReplayFunc func(in *Lines, args []string, seed int64, sum *Summary) error
type RecordFunc func(out *Out, args []string, seed int64, sum *Summary) error

var (
	replays = map[string]ReplayFunc{}
	records = map[string]RecordFunc{}
)

func RegisterReplay(area string, f ReplayFunc) { replays[area] = f }
func RegisterRecord(area string, f RecordFunc) { records[area] = f }

func Areas() (r, c []string) {
	for k := range replays {
		r = append(r, k)
	}
	for k := range records {
		c = append(c, k)
	}
	sort.Strings(r)
	sort.Strings(c)
	return
}
func Replay(area string) ReplayFunc { return replays[area] }
func Record(area string) RecordFunc { return records[area] }

// Lines iterates over the lines of an ndjson file.
type Lines struct {
	sc *bufio.Scanner
	f  *os.File
	N  int
}

func OpenLines(path string) (*Lines, error) {
	f, err := os.Open(path)
	if err != nil {
		return nil, err
	}
	sc := bufio.NewScanner(f)
	sc.Buffer(make([]byte, 1<<20), 1<<28)
	return &Lines{sc: sc, f: f}, nil
}

// Next returns the next non-empty line (valid until the following call).
func (l *Lines) Next() ([]byte, bool) {
	for l.sc.Scan() {
		b := l.sc.Bytes()
		if len(b) == 0 {
			continue
		}
		l.N++
		return b, true
	}
	return nil, false
}
func (l *Lines) Close() { l.f.Close() }

// Out writes ndjson records.
type Out struct {
	w *bufio.Writer
	f *os.File
	N int
}

func CreateOut(path string) (*Out, error) {
	f, err := os.Create(path)
	if err != nil {
		return nil, err
	}
	return &Out{w: bufio.NewWriterSize(f, 1<<20), f: f}, nil
}
func (o *Out) Emit(v any) {
	b, err := json.Marshal(v)
	if err != nil {
		panic(err)
	}
	o.w.Write(b)
	o.w.WriteByte('\n')
	o.N++
}
func (o *Out) Close()            { o.w.Flush(); o.f.Close() }
func (o *Out) Writer() io.Writer { return o.w }

// Outcome classifies what a call into gonum did.
type Outcome struct {
	Panicked bool
	Runtime  bool   // the panic value was a runtime.Error (never acceptable)
	Hung     bool   // watchdog fired
	Val      any    // recovered value
	Text     string // fmt.Sprint(Val)
}

// Call runs f, recovering a panic.
func Call(f func()) (o Outcome) {
	defer func() {
		if r := recover(); r != nil {
			o.Panicked = true
			o.Val = r
			o.Text = fmt.Sprint(r)
			if _, ok := r.(runtime.Error); ok {
				o.Runtime = true
			}
		}
	}()
	f()
	return
}

// CallTimeout runs f in a goroutine with a watchdog. A hang leaks the goroutine.
func CallTimeout(d time.Duration, f func()) Outcome {
	ch := make(chan Outcome, 1)
	go func() { ch <- Call(f) }()
	select {
	case o := <-ch:
		return o
	case <-time.After(d):
		return Outcome{Hung: true, Text: "watchdog: call did not return within " + d.String()}
	}
}
