package structural

import (
	"encoding/json"
	"fmt"
	"math"
	"math/rand"
	"strings"

	"gonum.org/v1/gonum/graph"
	"gonum.org/v1/gonum/graph/graphs/gen"
	"gonum.org/v1/gonum/graph/multi"
	"gonum.org/v1/gonum/graph/product"
	"gonum.org/v1/gonum/graph/simple"

	"gonum.org/v1/gonum/verifharness/internal/core"
)

// ---- records printed by StructuralGen.tla ----------------------------------

type rootExp struct {
	R        int64      `json:"r"`
	Reach    []int64    `json:"reach"`
	Depth    [][2]int64 `json:"depth"`
	Blk      int64      `json:"blk"`
	ReachBlk []int64    `json:"reachblk"`
	Idom     [][2]int64 `json:"idom"`
}

type specCase struct {
	K string `json:"k"`
	N int    `json:"n"`
	E [][2]int64
	// dir
	Sccs   [][]int64 `json:"sccs"`
	Cyc    [][]int64 `json:"cyc"`
	Sorts  [][]int64 `json:"sorts"`
	Cycles [][]int64 `json:"cycles"`
	Roots  []rootExp `json:"roots"`
	// und
	W       [][3]int64  `json:"W"`
	Ccs     [][]int64   `json:"ccs"`
	Mu      int         `json:"mu"`
	Cliques [][]int64   `json:"cliques"`
	Cg      []cgEdge    `json:"cg"`
	Kcc     [][][]int64 `json:"kcc"`
	Dgn     int         `json:"dgn"`
	Shells  [][]int64   `json:"shells"`
	KCores  [][]int64   `json:"kcores"`
	Msf     int64       `json:"msf"`
	Chi     int         `json:"chi"`
	// part
	Part [][2]int64 `json:"part"`
	Ok   bool       `json:"ok"`
	// prod
	Na    int                       `json:"na"`
	Ea    [][2]int64                `json:"ea"`
	Nb    int                       `json:"nb"`
	Eb    [][2]int64                `json:"eb"`
	Nodes json.RawMessage           `json:"nodes"`
	Prods map[string][][2][2]int64  `json:"prods"`
	// prodx: inputs of either kind (held in an undirected or a directed container) with arc weights; per product
	// the arcs a directed destination must hold and the edges an undirected destination must hold
	AUnd   bool                     `json:"aund"`
	BUnd   bool                     `json:"bund"`
	Wa     [][3]int64               `json:"wa"`
	Wb     [][3]int64               `json:"wb"`
	Arcs   map[string][][2][2]int64 `json:"arcs"`
	UEdges map[string][][2][2]int64 `json:"uedges"`
	Alias  map[string]string        `json:"alias"`
	// gen
	Kind  string     `json:"kind"`
	Fan   int        `json:"fan"`
	IDs   []int64    `json:"ids"`
	Ctr   int64      `json:"ctr"`
	Panic bool       `json:"panic"`
	Edges [][2]int64 `json:"edges"`
	// gen: what the destination holds before the call ("none": empty), and the number of model ids in use
	Pre struct {
		Kind  string     `json:"kind"`
		Nodes []int64    `json:"nodes"`
		Edges [][2]int64 `json:"edges"`
	} `json:"pre"`
	NModel int `json:"nmodel"`
}

type failer struct {
	sum   *core.Summary
	raw   json.RawMessage
	where string
}

func (f *failer) fail(routine, kind, format string, a ...any) {
	f.sum.Fail("structural:"+routine+":"+kind, f.where+": "+fmt.Sprintf(format, a...), f.raw)
}

func (f *failer) problems(ps []problem) {
	for _, p := range ps {
		r := p.Routine
		if i := strings.IndexByte(r, '('); i > 0 {
			r = r[:i]
		}
		f.fail(r, p.Kind, "%s: %s", p.Routine, p.Text)
	}
}

func hasSeq(fam [][]int64, s []int64) bool {
	k := fmt.Sprint(s)
	for _, x := range fam {
		if fmt.Sprint(x) == k {
			return true
		}
	}
	return false
}

func firsts(p [][2]int64) []int64 {
	out := make([]int64, len(p))
	for i := range p {
		out[i] = p[i][0]
	}
	return out
}

func swapPairs(p [][2]int64) [][2]int64 {
	out := make([][2]int64, len(p))
	for i := range p {
		out[i] = [2]int64{p[i][1], p[i][0]}
	}
	return out
}

// checkRoot compares one root's traversal / dominator observations with the spec's answers.
func checkRoot(f *failer, ro rootObs, ex rootExp, dom bool) {
	reach := setKey(ex.Reach)
	if pairKey(ro.Depth) != pairKey(ex.Depth) {
		f.fail("BreadthFirst.Walk", "depth", "root %d: (node,depth) seen by until = %v, hop distances = %v", ex.R, ro.Depth, ex.Depth)
	}
	for name, got := range map[string][]int64{"BreadthFirst.Walk/Visit": ro.BfsVisit, "BreadthFirst.Visited": ro.BfsSeen,
		"DepthFirst.Walk/Visit": ro.DfsVisit, "DepthFirst.Walk/until": ro.DfsUntil, "PathExistsIn": ro.PathEx} {
		if setKey(got) != reach {
			f.fail(name, "reach", "root %d: got %v, reachable set = %v", ex.R, got, ex.Reach)
		}
	}
	if ro.Blk > 0 {
		if setKey(ro.BfsBlk) != setKey(ex.ReachBlk) {
			f.fail("BreadthFirst.Walk/Traverse", "reach", "root %d, edges into %d refused: visited %v, spec %v", ex.R, ex.Blk, ro.BfsBlk, ex.ReachBlk)
		}
		if setKey(ro.DfsBlk) != setKey(ex.ReachBlk) {
			f.fail("DepthFirst.Walk/Traverse", "reach", "root %d, edges into %d refused: visited %v, spec %v", ex.R, ex.Blk, ro.DfsBlk, ex.ReachBlk)
		}
	}
	if dom {
		want := pairKey(ex.Idom)
		wantKids := pairKey(swapPairs(ex.Idom))
		if pairKey(ro.LT) != want || pairKey(ro.LTKids) != wantKids || ro.LTRoot != ex.R {
			f.fail("Dominators", "tree", "root %d: DominatorOf = %v DominatedBy = %v Root = %d; unique dominator tree (v, idom v) = %v", ex.R, ro.LT, ro.LTKids, ro.LTRoot, ex.Idom)
		}
		if pairKey(ro.SLT) != want || pairKey(ro.SLTKids) != wantKids || ro.SLTRoot != ex.R {
			f.fail("DominatorsSLT", "tree", "root %d: DominatorOf = %v DominatedBy = %v Root = %d; unique dominator tree (v, idom v) = %v", ex.R, ro.SLT, ro.SLTKids, ro.SLTRoot, ex.Idom)
		}
	}
}

func replayDir(c *specCase, f *failer, maps int, seed int64, sum *core.Summary) {
	roots := make([][2]int64, len(c.Roots))
	exp := map[int64]rootExp{}
	for i, r := range c.Roots {
		roots[i] = [2]int64{r.R, r.Blk}
		exp[r.R] = r
	}
	for mi := 0; mi < maps; mi++ {
		im := mkMap(c.N, mi, seed)
		for ki, kind := range dirKinds {
			rng := rand.New(rand.NewSource(seed*31 + int64(mi*7+ki)))
			g := buildDir(kind, c.N, c.E, im, rng)
			f.where = kind + " ids=" + im.name
			d, probs := observeDir(g, c.N, im, roots, true)
			f.problems(probs)
			sum.Cases++
			if len(c.E) > 0 {
				sum.Nontrivial++
			}
			if famKey(d.Sccs) != famKey(c.Sccs) {
				f.fail("TarjanSCC", "components", "got %v, classes of mutual reachability = %v", d.Sccs, c.Sccs)
			}
			for _, s := range []struct {
				name string
				s    []int64
				cyc  [][]int64
			}{{"Sort", d.Sort, d.Cyc}, {"SortStabilized", d.Stab, d.StabCyc}, {"SortStabilized/desc", d.StabR, d.StabRCyc}} {
				if !hasSeq(c.Sorts, s.s) {
					f.fail(s.name, "order", "returned %v (0 = nil), not one of the legal orders %v", s.s, c.Sorts)
				}
				if famKey(s.cyc) != famKey(c.Cyc) {
					f.fail(s.name, "unorderable", "error lists %v, cyclic components = %v", s.cyc, c.Cyc)
				}
			}
			if d.SortErr != (len(c.Cyc) > 0) {
				f.fail("Sort", "error", "error returned = %v, cyclic components = %v", d.SortErr, c.Cyc)
			}
			if !d.ErrMsg {
				f.fail("Sort", "error-text", "the Unorderable error has an empty text")
			}
			if !d.CycByID {
				f.fail("Sort", "component-order", "members of a listed cyclic component are not sorted by id")
			}
			if seqFamKey(d.Cycles) != seqFamKey(c.Cycles) || !d.CycRaw {
				f.fail("DirectedCyclesIn", "cycles", "got %v (closed=%v), elementary cycles = %v", d.Cycles, d.CycRaw, c.Cycles)
			}
			for _, ro := range d.Roots {
				checkRoot(f, ro, exp[ro.R], true)
			}
		}
	}
}

func edgeWeights(w [][3]int64) map[[2]int64]int64 {
	m := map[[2]int64]int64{}
	for _, t := range w {
		m[[2]int64{t[0], t[1]}] = t[2]
	}
	return m
}

func cgKey(es []cgEdge) string {
	k := make([][]int64, 0)
	var ks []string
	for _, e := range es {
		a, b := setKey(e.A), setKey(e.B)
		if a > b {
			a, b = b, a
		}
		ks = append(ks, a+"~"+b+":"+setKey(e.S))
	}
	_ = k
	sortStrings(ks)
	return strings.Join(ks, ";")
}

func nonEmpty(f [][]int64) [][]int64 {
	out := [][]int64{}
	for _, s := range f {
		if len(s) > 0 {
			out = append(out, s)
		}
	}
	return out
}

func replayUnd(c *specCase, f *failer, maps int, seed int64, sum *core.Summary) {
	var roots []int64
	exp := map[int64]rootExp{}
	for _, r := range c.Roots {
		roots = append(roots, r.R)
		exp[r.R] = r
	}
	w := edgeWeights(c.W)
	for mi := 0; mi < maps; mi++ {
		im := mkMap(c.N, mi, seed)
		for ki, kind := range undKinds {
			rng := rand.New(rand.NewSource(seed*37 + int64(mi*7+ki)))
			g := buildUnd(kind, c.N, c.E, w, im, rng)
			f.where = kind + " ids=" + im.name
			weighted := kind == "simple.WeightedUndirectedGraph"
			u, probs := observeUnd(g, c.N, im, roots, undOpts{kccMax: 5, kcoreTop: c.Dgn + 2, exact: true, cliques: true,
				weighted: weighted, seed: uint64(seed)})
			// KCore(k) for k beyond degeneracy+1 indexes past the k-core offsets: isolated as one finding
			var rest []problem
			for _, p := range probs {
				if strings.HasPrefix(p.Routine, "KCore(") && p.Kind == "runtime-panic" && p.Routine == fmt.Sprintf("KCore(%d)", c.Dgn+2) {
					f.fail("KCore", "panic-k-above-degeneracy-plus-1", "KCore(%d) on a graph of degeneracy %d: %s (the k-core is empty)", c.Dgn+2, c.Dgn, p.Text)
					continue
				}
				rest = append(rest, p)
			}
			f.problems(rest)
			sum.Cases++
			if len(c.E) > 0 {
				sum.Nontrivial++
			}
			if famKey(u.Ccs) != famKey(c.Ccs) {
				f.fail("ConnectedComponents", "components", "got %v, spec %v", u.Ccs, c.Ccs)
			}
			if famKey(u.BfsAll) != famKey(c.Ccs) {
				f.fail("BreadthFirst.WalkAll", "components", "got %v, spec %v", u.BfsAll, c.Ccs)
			}
			if famKey(u.DfsAll) != famKey(c.Ccs) {
				f.fail("DepthFirst.WalkAll", "components", "got %v, spec %v", u.DfsAll, c.Ccs)
			}
			if len(u.Basis) != c.Mu {
				f.fail("UndirectedCyclesIn", "count", "%d cycles, cyclomatic number %d", len(u.Basis), c.Mu)
			}
			if famKey(u.Cliques) != famKey(c.Cliques) {
				f.fail("BronKerbosch", "cliques", "got %v, maximal cliques = %v", u.Cliques, c.Cliques)
			}
			if famKey(u.CgNodes) != famKey(c.Cliques) || cgKey(u.CgEdges) != cgKey(c.Cg) {
				f.fail("CliqueGraph", "graph", "nodes %v edges %v; spec nodes %v edges %v", u.CgNodes, u.CgEdges, c.Cliques, c.Cg)
			}
			for k := range u.Kcc {
				if k < len(c.Kcc) && famKey(nonEmpty(u.Kcc[k])) != famKey(c.Kcc[k]) {
					f.fail("KCliqueCommunities", "communities", "k=%d: got %v, spec %v", k+1, u.Kcc[k], c.Kcc[k])
				}
			}
			if len(u.Cores)-1 != c.Dgn {
				f.fail("DegeneracyOrdering", "degeneracy", "len(cores)-1 = %d, degeneracy = %d", len(u.Cores)-1, c.Dgn)
			} else {
				for k := range u.Cores {
					if setKey(u.Cores[k]) != setKey(c.Shells[k]) {
						f.fail("DegeneracyOrdering", "cores", "cores[%d] = %v, nodes of core number %d = %v", k, u.Cores[k], k, c.Shells[k])
					}
				}
			}
			if setKey(u.Order) != setKey(allNodes(c.N, im)) {
				f.fail("DegeneracyOrdering", "order", "order %v is not a permutation of the nodes", u.Order)
			}
			for k := range u.KCores {
				if k < len(c.KCores) && setKey(u.KCores[k]) != setKey(c.KCores[k]) {
					f.fail("KCore", "core", "KCore(%d) = %v, spec %v", k, u.KCores[k], c.KCores[k])
				}
			}
			if weighted {
				for name, fo := range map[string]forestObs{"Prim": u.Prim, "Kruskal": u.Kruskal} {
					if fo.Frac || fo.W != c.Msf {
						f.fail(name, "weight", "returned weight %d (non-integral=%v), minimum spanning forest weight = %d", fo.W, fo.Frac, c.Msf)
					}
				}
			}
			for _, co := range u.Cols {
				if co.Err != "" {
					f.fail(co.Alg, "error", "unexpected error %q without a partial colouring", co.Err)
				}
				if co.Exact && co.K != c.Chi {
					f.fail(co.Alg, "chromatic-number", "k = %d, chromatic number = %d", co.K, c.Chi)
				}
				if co.K < c.Chi && c.N > 0 {
					f.fail(co.Alg, "below-chromatic-number", "k = %d < chromatic number %d", co.K, c.Chi)
				}
			}
			for _, ro := range u.Roots {
				checkRoot(f, ro, exp[ro.R], false)
			}
		}
	}
}

func replayPart(c *specCase, f *failer, maps int, seed int64, sum *core.Summary) {
	for mi := 0; mi < maps; mi++ {
		im := mkMap(c.N, mi, seed)
		rng := rand.New(rand.NewSource(seed*41 + int64(mi)))
		g := buildUnd("simple.UndirectedGraph", c.N, c.E, nil, im, rng)
		for variant := 0; variant < 2; variant++ {
			part := map[int64]int{}
			for _, p := range c.Part {
				part[im.real(p[0])] = int(p[1])
			}
			ok := c.Ok
			f.where = "ids=" + im.name
			if variant == 1 { // a colour for a node that is not in the graph: inadmissible
				if c.N == 0 {
					continue
				}
				part[im.real(int64(c.N+1))] = 0
				ok = false
				f.where += " +absent-node"
			}
			cols, probs := observePartial(g, im, part, uint64(seed))
			f.problems(probs)
			sum.Cases++
			if len(c.Part) > 0 {
				sum.Nontrivial++
			}
			for _, co := range cols {
				if c.N == 0 {
					continue
				}
				if ok && co.Err != "" {
					f.fail(co.Alg, "partial-rejected", "admissible partial colouring %v rejected: %s", c.Part, co.Err)
				}
				if !ok && co.Err != "invalid-partial" {
					f.fail(co.Alg, "partial-accepted", "inadmissible partial colouring %v: err=%q k=%d col=%v", c.Part, co.Err, co.K, co.Col)
				}
			}
		}
	}
}

func pairID(p [2]int64) string { return fmt.Sprint(p[0], "/", p[1]) }

func replayProd(c *specCase, f *failer, maps int, seed int64, sum *core.Summary) {
	var nodes [][2]int64
	json.Unmarshal(c.Nodes, &nodes)
	for mi := 0; mi < maps; mi++ {
		ima, imb := mkMap(c.Na, mi, seed), mkMap(c.Nb, (mi+1)%maps, seed+1)
		rng := rand.New(rand.NewSource(seed*43 + int64(mi)))
		a := buildUnd(undKinds[mi%2+0], c.Na, c.Ea, nil, ima, rng)
		b := buildUnd("simple.UndirectedGraph", c.Nb, c.Eb, nil, imb, rng)
		f.where = "ids=" + ima.name + "," + imb.name
		for name, fn := range map[string]func(graph.Builder, graph.Graph, graph.Graph){
			"Cartesian": product.Cartesian, "Tensor": product.Tensor, "Lexicographical": product.Lexicographical,
			"Strong": product.Strong, "CoNormal": product.CoNormal, "Modular": product.Modular,
			"ModularExt": func(d graph.Builder, x, y graph.Graph) {
				product.ModularExt(d, x, y, func(graph.Edge, graph.Edge) bool { return true })
			}} {
			want := c.Prods[strings.TrimSuffix(name, "Ext")]
			dst := simple.NewUndirectedGraph()
			oc := core.CallTimeout(watchdog, func() { fn(dst, a, b) })
			sum.Cases++
			if len(want) > 0 {
				sum.Nontrivial++
			}
			if oc.Panicked || oc.Hung {
				f.fail("product."+name, "panic", "%s", oc.Text)
				continue
			}
			var gotN, wantN, gotE, wantE []string
			bad := false
			proj := func(n graph.Node) [2]int64 {
				pn, ok := n.(product.Node)
				if !ok || pn.A == nil || pn.B == nil {
					bad = true
					return [2]int64{-1, -1}
				}
				return [2]int64{ima.model(pn.A.ID()), imb.model(pn.B.ID())}
			}
			it := dst.Nodes()
			for it.Next() {
				gotN = append(gotN, pairID(proj(it.Node())))
			}
			for _, p := range nodes {
				wantN = append(wantN, pairID(p))
			}
			es := dst.Edges()
			for es.Next() {
				p, q := pairID(proj(es.Edge().From())), pairID(proj(es.Edge().To()))
				if p > q {
					p, q = q, p
				}
				gotE = append(gotE, p+"~"+q)
			}
			for _, e := range want {
				p, q := pairID(e[0]), pairID(e[1])
				if p > q {
					p, q = q, p
				}
				wantE = append(wantE, p+"~"+q)
			}
			sortStrings(gotN)
			sortStrings(wantN)
			sortStrings(gotE)
			sortStrings(wantE)
			if bad || strings.Join(gotN, ";") != strings.Join(wantN, ";") {
				f.fail("product."+name, "nodes", "nodes %v, spec %v", gotN, wantN)
			}
			if strings.Join(gotE, ";") != strings.Join(wantE, ";") {
				f.fail("product."+name, "edges", "edges %v, definition gives %v", gotE, wantE)
			}
		}
	}
}

type genDst interface {
	gen.NodeIDGraphBuilder
	Nodes() graph.Nodes
	Edges() graph.Edges
}

// multiDirDst / multiUndDst let a multigraph stand as the destination of a generator: an edge is a new line.
// (No container of graph/multi is a graph.Builder itself; only the set of joined pairs is compared, the number
// of parallel lines a generator leaves is counted, not judged.)
type multiDirDst struct{ *multi.DirectedGraph }

func (g multiDirDst) NewEdge(from, to graph.Node) graph.Edge { return lineEdge{g.NewLine(from, to)} }
func (g multiDirDst) SetEdge(e graph.Edge)                   { g.SetLine(asLine(g.DirectedGraph, e)) }

type multiUndDst struct{ *multi.UndirectedGraph }

func (g multiUndDst) NewEdge(from, to graph.Node) graph.Edge { return lineEdge{g.NewLine(from, to)} }
func (g multiUndDst) SetEdge(e graph.Edge)                   { g.SetLine(asLine(g.UndirectedGraph, e)) }

// lineEdge presents a line as an edge.
type lineEdge struct{ graph.Line }

func (e lineEdge) ReversedEdge() graph.Edge { return lineEdge{e.ReversedLine()} }

func asLine(g interface {
	NewLine(from, to graph.Node) graph.Line
}, e graph.Edge) graph.Line {
	if l, ok := e.(lineEdge); ok {
		return l.Line
	}
	return g.NewLine(e.From(), e.To())
}

var genDsts = []struct {
	name     string
	directed bool
	mk       func() genDst
}{
	{"simple.DirectedGraph", true, func() genDst { return simple.NewDirectedGraph() }},
	{"simple.UndirectedGraph", false, func() genDst { return simple.NewUndirectedGraph() }},
	{"multi.DirectedGraph", true, func() genDst { return multiDirDst{multi.NewDirectedGraph()} }},
	{"multi.UndirectedGraph", false, func() genDst { return multiUndDst{multi.NewUndirectedGraph()} }},
}

func replayGen(c *specCase, f *failer, maps int, seed int64, sum *core.Summary) {
	size := int(c.Ctr) + 1
	if c.NModel > size {
		size = c.NModel
	}
	for mi := 0; mi < maps; mi++ {
		im := mkMap(size, mi, seed)
		idl := make(gen.IDSet, len(c.IDs))
		for i, m := range c.IDs {
			idl[i] = im.real(m)
		}
		// the id listings: the explicit set, and gen.IDRange when the real ids are consecutive and ascending
		iders := []struct {
			name string
			ids  gen.IDer
		}{{"IDSet", idl}}
		consecutive := len(idl) > 0
		for i := 1; i < len(idl); i++ {
			if idl[i-1] == math.MaxInt64 || idl[i] != idl[i-1]+1 {
				consecutive = false
			}
		}
		if consecutive {
			iders = append(iders, struct {
				name string
				ids  gen.IDer
			}{"IDRange", gen.IDRange{First: idl[0], Last: idl[len(idl)-1]}})
		}
		ctr := im.real(c.Ctr)
		for _, dk := range genDsts {
			directed := dk.directed
			if c.Kind == "Complete" && directed {
				continue // direction of Complete's edges is not documented
			}
			for _, ider := range iders {
				dst := dk.mk()
				// what the destination holds before the call
				for _, m := range c.Pre.Nodes {
					if n, isNew := dst.NodeWithID(im.real(m)); isNew {
						dst.AddNode(n)
					}
				}
				for _, e := range c.Pre.Edges {
					u, _ := dst.NodeWithID(im.real(e[0]))
					v, _ := dst.NodeWithID(im.real(e[1]))
					dst.SetEdge(dst.NewEdge(u, v))
				}
				ids := ider.ids
				f.where = fmt.Sprintf("dst=%s pre=%s ids=%s(%s)", dk.name, c.Pre.Kind, im.name, ider.name)
				oc := core.CallTimeout(watchdog, func() {
					switch c.Kind {
					case "Complete":
						gen.Complete(dst, ids)
					case "Path":
						gen.Path(dst, ids)
					case "Cycle":
						gen.Cycle(dst, ids)
					case "Star":
						gen.Star(dst, ctr, ids)
					case "Wheel":
						gen.Wheel(dst, ctr, ids)
					case "Tree":
						gen.Tree(dst, c.Fan, ids)
					}
				})
				sum.Cases++
				sum.Count("gen_calls_"+dk.name+"_"+ider.name, 1)
				if len(c.Edges) > 0 || c.Panic {
					sum.Nontrivial++
				}
				if oc.Hung || oc.Runtime {
					f.fail("gen."+c.Kind, "runtime-panic", "%s", oc.Text)
					continue
				}
				if oc.Panicked != c.Panic {
					f.fail("gen."+c.Kind, "panic-contract", "panicked=%v (%s), documented contract says %v", oc.Panicked, oc.Text, c.Panic)
					continue
				}
				if c.Panic {
					continue
				}
				var nodes []int64
				it := dst.Nodes()
				for it.Next() {
					nodes = append(nodes, im.model(it.Node().ID()))
				}
				var wantN []int64
				json.Unmarshal(c.Nodes, &wantN)
				if setKey(nodes) != setKey(wantN) {
					f.fail("gen."+c.Kind, "nodes", "nodes %v, spec %v", nodes, wantN)
				}
				norm := func(p [2]int64) [2]int64 {
					if !directed && p[0] > p[1] {
						return [2]int64{p[1], p[0]}
					}
					return p
				}
				var got, want [][2]int64
				es := dst.Edges()
				for es.Next() {
					e := es.Edge()
					got = append(got, norm([2]int64{im.model(e.From().ID()), im.model(e.To().ID())}))
					if ls, ok := e.(graph.Lines); ok {
						if k := ls.Len(); k > 1 {
							sum.Count("gen_parallel_lines_left_in_multigraph", k-1)
						}
					}
				}
				seen := map[[2]int64]bool{}
				for _, e := range c.Edges {
					e = norm(e)
					if !seen[e] {
						seen[e] = true
						want = append(want, e)
					}
				}
				if pairKey(got) != pairKey(want) {
					f.fail("gen."+c.Kind, "edges", "edges %v, definition gives %v", got, want)
				}
			}
		}
	}
}

func sortStrings(s []string) {
	for i := 1; i < len(s); i++ {
		for j := i; j > 0 && s[j] < s[j-1]; j-- {
			s[j], s[j-1] = s[j-1], s[j]
		}
	}
}

// replay: args maps=N (number of id maps per case)
func replay(in *core.Lines, args []string, seed int64, sum *core.Summary) error {
	a := parseArgs(args)
	maps := atoi(a["maps"], 3)
	prodxAllMaps = a["all"] == "1"
	prodxSeed = seed
	if prodxSeed < 0 {
		prodxSeed = -prodxSeed
	}
	for {
		line, ok := in.Next()
		if !ok {
			break
		}
		var c specCase
		if err := json.Unmarshal(line, &c); err != nil {
			return fmt.Errorf("line %d: %v", in.N, err)
		}
		f := &failer{sum: sum, raw: append(json.RawMessage(nil), line...)}
		before := len(sum.Failures)
		switch c.K {
		case "dir":
			replayDir(&c, f, maps, seed, sum)
		case "und":
			replayUnd(&c, f, maps, seed, sum)
		case "part":
			replayPart(&c, f, maps, seed, sum)
		case "prod":
			replayProd(&c, f, maps, seed, sum)
		case "prodx":
			replayProdX(&c, f, maps, seed, sum)
		case "gen":
			replayGen(&c, f, maps, seed, sum)
		case "flow":
			if err := replayFlow(line, f, maps, seed, sum); err != nil {
				return fmt.Errorf("line %d: %v", in.N, err)
			}
		case "walk":
			if err := replayWalk(line, f, maps, seed, sum); err != nil {
				return fmt.Errorf("line %d: %v", in.N, err)
			}
		case "equal":
			if err := replayEqual(line, f, maps, seed, sum); err != nil {
				return fmt.Errorf("line %d: %v", in.N, err)
			}
		case "missing-clique":
			if err := replayMissingClique(line, f, seed, sum); err != nil {
				return fmt.Errorf("line %d: %v", in.N, err)
			}
		case "missing-cycle":
			if err := replayMissingCycle(line, f, seed, sum); err != nil {
				return fmt.Errorf("line %d: %v", in.N, err)
			}
		case "witness":
			if err := replayWitness(line, f, seed, sum); err != nil {
				return fmt.Errorf("line %d: %v", in.N, err)
			}
		default:
			return fmt.Errorf("line %d: unknown case kind %q", in.N, c.K)
		}
		if len(sum.Failures) == before && in.N%97 == 1 {
			sum.Sample(json.RawMessage(append([]byte(nil), line...)))
		}
		sum.Count("spec_cases_"+c.K, 1)
	}
	return nil
}

func init() {
	core.RegisterReplay("structural", replay)
}
