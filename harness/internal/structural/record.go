package structural

import (
	"encoding/json"
	"fmt"
	"math/rand"

	"gonum.org/v1/gonum/verifharness/internal/core"
)

// events written for StructuralTrace.tla (every field always present, [] never null)

type chkFlags struct {
	Cliques  bool `json:"cliques"`  // clique family small enough for TLC to enumerate: compare as sets
	Kcc      bool `json:"kcc"`      // k-clique communities evaluated (needs SUBSET V on the TLC side)
	Weighted bool `json:"weighted"` // Prim / Kruskal were run
}

type dirEvent struct {
	K     string     `json:"k"`
	V     []int64    `json:"V"`
	E     [][2]int64 `json:"E"`
	DoCyc bool       `json:"docyc"`
	Type  string     `json:"type"`
	O     dirObs     `json:"o"`
}

type undEvent struct {
	K    string     `json:"k"`
	V    []int64    `json:"V"`
	E    [][2]int64 `json:"E"`
	W    [][3]int64 `json:"W"`
	Chk  chkFlags   `json:"chk"`
	Type string     `json:"type"`
	O    undObs     `json:"o"`
}

type partEvent struct {
	K    string     `json:"k"`
	V    []int64    `json:"V"`
	E    [][2]int64 `json:"E"`
	Part [][2]int64 `json:"part"`
	Cols []colObs   `json:"cols"`
}

func nn(e [][2]int64) [][2]int64 {
	if e == nil {
		return [][2]int64{}
	}
	return e
}

func recFail(sum *core.Summary, probs []problem, ev any) {
	for _, p := range probs {
		sum.Fail("structural:"+p.Routine+":"+p.Kind, p.Text, ev)
	}
}

func recDir(out *core.Out, sum *core.Summary, n int, edges [][2]int64, seed int64, salt int, docyc bool, nroots int) {
	rng := rand.New(rand.NewSource(seed*53 + int64(salt)))
	im := mkMap(n, 2+salt%3, seed+int64(salt))
	kind := dirKinds[salt%len(dirKinds)]
	g := buildDir(kind, n, edges, im, rng)
	var roots [][2]int64
	for _, r := range rng.Perm(n) {
		if len(roots) >= nroots {
			break
		}
		roots = append(roots, [2]int64{int64(r + 1), int64(rng.Intn(n) + 1)})
	}
	d, probs := observeDir(g, n, im, roots, docyc)
	ev := dirEvent{K: "dir", V: allNodes(n, im), E: nn(edges), DoCyc: docyc, Type: kind + "/" + im.name, O: d}
	recFail(sum, probs, ev)
	out.Emit(ev)
	sum.Traces++
}

func recUnd(out *core.Out, sum *core.Summary, n int, edges [][2]int64, w [][3]int64, seed int64, salt int, chk chkFlags, exact bool, nroots int) {
	rng := rand.New(rand.NewSource(seed*59 + int64(salt)))
	im := mkMap(n, 2+salt%3, seed+int64(salt))
	kind := undKinds[0]
	if !chk.Weighted {
		kind = undKinds[1+salt%2]
	}
	g := buildUnd(kind, n, edges, edgeWeights(w), im, rng)
	var roots []int64
	for _, r := range rng.Perm(n) {
		if len(roots) >= nroots {
			break
		}
		roots = append(roots, int64(r+1))
	}
	kcc := 0
	if chk.Kcc {
		kcc = 5
	}
	u, probs := observeUnd(g, n, im, roots, undOpts{kccMax: kcc, kcoreTop: -1, exact: exact, cliques: true, weighted: chk.Weighted, seed: uint64(seed)})
	if w == nil {
		w = [][3]int64{}
	}
	ev := undEvent{K: "und", V: allNodes(n, im), E: nn(edges), W: w, Chk: chk, Type: kind + "/" + im.name, O: u}
	recFail(sum, probs, ev)
	out.Emit(ev)
	sum.Traces++
}

func recPart(out *core.Out, sum *core.Summary, c *specCase, seed int64, salt int) {
	rng := rand.New(rand.NewSource(seed*61 + int64(salt)))
	im := mkMap(c.N, 2+salt%3, seed+int64(salt))
	g := buildUnd("simple.UndirectedGraph", c.N, c.E, nil, im, rng)
	part := map[int64]int{}
	pp := nn(c.Part)
	for _, p := range c.Part {
		part[im.real(p[0])] = int(p[1])
	}
	if salt%5 == 4 && c.N > 0 { // a colour for a node that is not in the graph
		part[im.real(int64(c.N+1))] = 0
		pp = append(append([][2]int64{}, pp...), [2]int64{int64(c.N + 1), 0})
	}
	cols, probs := observePartial(g, im, part, uint64(seed))
	ev := partEvent{K: "part", V: allNodes(c.N, im), E: nn(c.E), Part: pp, Cols: cols}
	recFail(sum, probs, ev)
	out.Emit(ev)
	sum.Traces++
}

// record: args  mode=cases cases=<ndjson of StructuralGen cases> stride=S   (graphs only; the printed answers are not used)
//               mode=random count=N maxn=M
//               mode=chromatic graphs=G calls=C heur=H nmin=A nmax=B cliq=Q par=P   (chromatic.go)
//               mode=dcycles graphs=G calls=C nmin=A nmax=B                            (chromatic.go)
//               mode=rgen cases=<ndjson of RandGen cases>[,<more>]                     (randgen.go)
func record(out *core.Out, args []string, seed int64, sum *core.Summary) error {
	a := parseArgs(args)
	switch a["mode"] {
	case "cases":
		in, err := core.OpenLines(a["cases"])
		if err != nil {
			return err
		}
		defer in.Close()
		stride := atoi(a["stride"], 1)
		off := int(seed % int64(stride))
		i := 0
		for {
			line, ok := in.Next()
			if !ok {
				break
			}
			i++
			if i%stride != off {
				continue
			}
			var c specCase
			if err := json.Unmarshal(line, &c); err != nil {
				return err
			}
			switch c.K {
			case "dir":
				recDir(out, sum, c.N, c.E, seed, i, true, 2)
			case "und":
				recUnd(out, sum, c.N, c.E, c.W, seed, i, chkFlags{Cliques: true, Kcc: true, Weighted: true}, true, 2)
			case "part":
				recPart(out, sum, &c, seed, i)
			default:
				return fmt.Errorf("cases of kind %q cannot be recorded", c.K)
			}
		}
	case "random":
		count, maxn := atoi(a["count"], 40), atoi(a["maxn"], 40)
		rng := rand.New(rand.NewSource(seed*104729 + 17))
		for i := 0; i < count; i++ {
			// sizes: a third small (exact / enumerating checks on), the rest up to maxn
			n := 2 + rng.Intn(maxn-1)
			if i%3 == 0 {
				n = 2 + rng.Intn(8)
			}
			dens := []float64{0.03, 0.06, 0.1, 0.2, 0.4, 0.7}[rng.Intn(6)]
			if n > 20 && dens > 0.2 {
				dens = 0.2
			}
			if i%2 == 0 {
				var edges [][2]int64
				for u := 1; u <= n; u++ {
					for v := 1; v <= n; v++ {
						if u != v && rng.Float64() < dens {
							edges = append(edges, [2]int64{int64(u), int64(v)})
						}
					}
				}
				docyc := n <= 7 || len(edges) <= n+2
				recDir(out, sum, n, edges, seed, i, docyc, 3)
			} else {
				var edges [][2]int64
				var w [][3]int64
				for u := 1; u <= n; u++ {
					for v := u + 1; v <= n; v++ {
						if rng.Float64() < dens*1.3 {
							edges = append(edges, [2]int64{int64(u), int64(v)})
							w = append(w, [3]int64{int64(u), int64(v), int64(rng.Intn(7) - 2)})
						}
					}
				}
				chk := chkFlags{Cliques: n <= 12 || len(edges) <= 2*n, Kcc: n <= 10, Weighted: i%4 == 1 || n > 10}
				recUnd(out, sum, n, edges, w, seed, i, chk, n <= 9, 3)
			}
		}
	case "chromatic":
		return recordChromatic(out, sum, a, seed)
	case "dcycles":
		return recordDcycles(out, sum, a, seed)
	case "rgen":
		return recordRgen(out, a, seed, sum)
	default:
		return fmt.Errorf("record structural: mode=cases|random|chromatic|dcycles required")
	}
	return nil
}

func init() { core.RegisterRecord("structural", record) }
