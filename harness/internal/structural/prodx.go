package structural

import (
	"encoding/json"
	"fmt"
	"math"
	"math/rand"
	"runtime/debug"
	"sort"
	"strings"
	"sync"

	"gonum.org/v1/gonum/graph"
	"gonum.org/v1/gonum/graph/multi"
	"gonum.org/v1/gonum/graph/product"
	"gonum.org/v1/gonum/graph/simple"

	"gonum.org/v1/gonum/verifharness/internal/core"
)

// Products over arcs ("prodx" records of StructuralGen.tla): inputs of either kind, destinations of either kind.
// The harness builds the two inputs in the container kinds the record names, calls every function of
// graph/product into a directed and an undirected destination and compares the node set and the arc set
// (directed destination) / edge set (undirected destination) with the two sets the specification printed.

// buildStored builds one input: und = held in an undirected container (edges are unordered pairs u < v),
// otherwise in a directed one (edges are arcs). which selects the container type; weights (model arc -> weight)
// are stored in the weighted types.
func buildStored(und bool, which int, n int, edges [][2]int64, w map[[2]int64]int64, im *idmap, rng *rand.Rand) (graph.Graph, string) {
	if und {
		kind := undKinds[which%len(undKinds)]
		return buildUnd(kind, n, edges, w, im, rng), kind
	}
	kind := dirKinds[which%len(dirKinds)]
	if kind != "simple.WeightedDirectedGraph" {
		return buildDir(kind, n, edges, im, rng), kind
	}
	g := simple.NewWeightedDirectedGraph(0, math.Inf(1))
	for _, i := range shuffled(rng, n) {
		g.AddNode(simple.Node(im.real(int64(i + 1))))
	}
	for _, i := range shuffled(rng, len(edges)) {
		e := edges[i]
		g.SetWeightedEdge(simple.WeightedEdge{F: simple.Node(im.real(e[0])), T: simple.Node(im.real(e[1])), W: float64(w[e])})
	}
	return g, kind
}

// weightedKind is the index (into undKinds / dirKinds) of the weighted simple container.
func weightedKind(und bool) int {
	ks := dirKinds
	if und {
		ks = undKinds
	}
	for i, k := range ks {
		if strings.Contains(k, "Weighted") {
			return i
		}
	}
	panic("no weighted container kind")
}

type prodDst interface {
	graph.Builder
	Nodes() graph.Nodes
	Edges() graph.Edges
}

var prodDsts = []struct {
	name     string
	directed bool
	mk       func() prodDst
}{
	{"simple.DirectedGraph", true, func() prodDst { return simple.NewDirectedGraph() }},
	{"simple.UndirectedGraph", false, func() prodDst { return simple.NewUndirectedGraph() }},
	{"multi.DirectedGraph", true, func() prodDst { return multiDirDst{multi.NewDirectedGraph()} }},
	{"multi.UndirectedGraph", false, func() prodDst { return multiUndDst{multi.NewUndirectedGraph()} }},
}

func weightEq(ea, eb graph.Edge) bool {
	wa, oka := ea.(graph.WeightedEdge)
	wb, okb := eb.(graph.WeightedEdge)
	if !oka || !okb {
		panic(fmt.Sprintf("agreement function handed unweighted edges %T %T", ea, eb))
	}
	return wa.Weight() == wb.Weight()
}

type prodCall struct {
	key      string // key of the expected sets in the record (after the alias map)
	name     string // routine as reported
	weighted bool   // needs the weighted inputs
	fn       func(graph.Builder, graph.Graph, graph.Graph)
}

var prodCalls = []prodCall{
	{"Cartesian", "Cartesian", false, product.Cartesian},
	{"Tensor", "Tensor", false, product.Tensor},
	{"Lexicographical", "Lexicographical", false, product.Lexicographical},
	{"Strong", "Strong", false, product.Strong},
	{"CoNormal", "CoNormal", false, product.CoNormal},
	{"Modular", "Modular", false, product.Modular},
	{"ModularExt:true", "ModularExt", false, func(d graph.Builder, x, y graph.Graph) {
		product.ModularExt(d, x, y, func(graph.Edge, graph.Edge) bool { return true })
	}},
	{"ModularExt:nil", "ModularExt", false, func(d graph.Builder, x, y graph.Graph) { product.ModularExt(d, x, y, nil) }},
	{"ModularExt:false", "ModularExt", false, func(d graph.Builder, x, y graph.Graph) {
		product.ModularExt(d, x, y, func(graph.Edge, graph.Edge) bool { return false })
	}},
	{"ModularExt:weq", "ModularExt", true, func(d graph.Builder, x, y graph.Graph) { product.ModularExt(d, x, y, weightEq) }},
}

// arcCode packs an arc between product nodes (model id pairs) into one integer; arcSet is the sorted list of codes.
func arcCode(e [2][2]int64) uint64 {
	c := uint64(0)
	for _, x := range [4]int64{e[0][0], e[0][1], e[1][0], e[1][1]} {
		c = c<<16 | uint64(x+2000)&0xffff
	}
	return c
}

func arcSet(es [][2][2]int64) []uint64 {
	k := make([]uint64, len(es))
	for i, e := range es {
		k[i] = arcCode(e)
	}
	sort.Slice(k, func(i, j int) bool { return k[i] < k[j] })
	return k
}

func sameCodes(a, b []uint64) bool {
	if len(a) != len(b) {
		return false
	}
	for i := range a {
		if a[i] != b[i] {
			return false
		}
	}
	return true
}

func arcText(es [][2][2]int64) string {
	k := make([]string, len(es))
	for i, e := range es {
		k[i] = fmt.Sprint(e[0][0], "/", e[0][1], ">", e[1][0], "/", e[1][1])
	}
	sort.Strings(k)
	return strings.Join(k, ";")
}

func pairLess(p, q [2]int64) bool { return p[0] < q[0] || (p[0] == q[0] && p[1] < q[1]) }

func replayProdX(c *specCase, f *failer, maps int, seed int64, sum *core.Summary) {
	var nodes [][2]int64
	json.Unmarshal(c.Nodes, &nodes)
	wantN := make([]string, len(nodes))
	for i, p := range nodes {
		wantN[i] = pairID(p)
	}
	sortStrings(wantN)
	wa, wb := edgeWeights(c.Wa), edgeWeights(c.Wb)
	wantSets := map[wantKey][]uint64{}
	gcOnce.Do(func() { debug.SetGCPercent(800) }) // half a million tiny graphs: the default setting collects constantly
	for mi := 0; mi < maps; mi++ {
		mi := mi
		// two directed inputs (4 900 of the 6 724 pairs): one id map per case, taken in turn (a function of the case
		// and the seed, so that a failing case replayed alone uses the same map), unless all=1 is given; a pair with
		// an undirected input: every id map
		if turn := (int64(c.Na+3*c.Nb+5*len(c.Ea)+7*len(c.Eb)) + prodxSeed) % int64(maps); !c.AUnd && !c.BUnd && !prodxAllMaps && int64(mi) != turn {
			continue
		}
		// one watchdog for all calls under one id map (a product of graphs on <= 3 nodes takes microseconds); panics
		// are caught per call
		if oc := core.CallTimeout(watchdog, func() { replayProdXMap(c, f, maps, mi, seed, sum, wantN, wa, wb, wantSets) }); oc.Hung || oc.Panicked {
			f.fail("product", "hang-or-harness-panic", "id map %d: %s", mi, oc.Text)
			return
		}
	}
}

var (
	gcOnce       sync.Once
	prodxAllMaps bool  // replay argument all=1
	prodxSeed    int64 // the replay's seed (non-negative)
)

type wantKey struct {
	key string
	dir bool
}

func replayProdXMap(c *specCase, f *failer, maps, mi int, seed int64, sum *core.Summary, wantN []string, wa, wb map[[2]int64]int64, wantSets map[wantKey][]uint64) {
	{
		ima, imb := mkMap(c.Na, mi, seed), mkMap(c.Nb, (mi+1)%maps, seed+1)
		rng := rand.New(rand.NewSource(seed*47 + int64(mi)))
		// the inputs twice: in the weighted simple containers (weights as the record gives them) and in the
		// container types this id map selects
		aw, akw := buildStored(c.AUnd, weightedKind(c.AUnd), c.Na, c.Ea, wa, ima, rng)
		bw, bkw := buildStored(c.BUnd, weightedKind(c.BUnd), c.Nb, c.Eb, wb, imb, rng)
		a, ak := buildStored(c.AUnd, mi+1, c.Na, c.Ea, wa, ima, rng)
		b, bk := buildStored(c.BUnd, mi+2, c.Nb, c.Eb, wb, imb, rng)
		for di, dk := range prodDsts {
			if di >= 2 && mi != 0 && !prodxAllMaps {
				continue // multigraph destinations under the first id map only
			}
			for _, pc := range prodCalls {
				x, y, xk, yk := a, b, ak, bk
				if pc.weighted {
					x, y, xk, yk = aw, bw, akw, bkw
				}
				key := pc.key
				if al, ok := c.Alias[key]; ok {
					key = al
				}
				want, ok := c.Arcs[key]
				if !dk.directed {
					want, ok = c.UEdges[key]
				}
				if !ok {
					f.fail("product."+pc.name, "no-expectation", "record has no set for %q", key)
					continue
				}
				f.where = fmt.Sprintf("%s a=%s b=%s dst=%s ids=%s,%s", pc.key, xk, yk, dk.name, ima.name, imb.name)
				dst := dk.mk()
				oc := core.Call(func() { pc.fn(dst, x, y) })
				sum.Cases++
				sum.Count("product_calls_"+map[bool]string{true: "und", false: "dir"}[c.AUnd]+"_x_"+
					map[bool]string{true: "und", false: "dir"}[c.BUnd]+"_into_"+map[bool]string{true: "dir", false: "und"}[dk.directed], 1)
				if len(want) > 0 {
					sum.Nontrivial++
				}
				if oc.Panicked || oc.Hung {
					f.fail("product."+pc.name, "panic", "%s", oc.Text)
					continue
				}
				bad := false
				proj := func(n graph.Node) [2]int64 {
					pn, ok := n.(product.Node)
					if !ok || pn.A == nil || pn.B == nil {
						bad = true
						return [2]int64{-1, -1}
					}
					return [2]int64{ima.model(pn.A.ID()), imb.model(pn.B.ID())}
				}
				var gotN []string
				uids := map[int64]bool{}
				it := dst.Nodes()
				for it.Next() {
					gotN = append(gotN, pairID(proj(it.Node())))
					uids[it.Node().ID()] = true
				}
				sortStrings(gotN)
				if bad || len(uids) != len(gotN) || strings.Join(gotN, ";") != strings.Join(wantN, ";") {
					f.fail("product."+pc.name, "nodes", "nodes %v, spec %v", gotN, wantN)
				}
				var got [][2][2]int64
				es := dst.Edges()
				for es.Next() {
					p, q := proj(es.Edge().From()), proj(es.Edge().To())
					if !dk.directed && pairLess(q, p) {
						p, q = q, p
					}
					got = append(got, [2][2]int64{p, q})
				}
				wk, ok := wantSets[wantKey{key, dk.directed}]
				if !ok {
					wk = arcSet(want)
					wantSets[wantKey{key, dk.directed}] = wk
				}
				if !sameCodes(arcSet(got), wk) {
					what := "arcs"
					if !dk.directed {
						what = "edges"
					}
					f.fail("product."+pc.name, "edges", "%d %s %s, definition gives %d: %s", len(got), what, arcText(got), len(want), arcText(want))
				}
			}
		}
	}
}
