package structural

import (
	"errors"
	"fmt"
	"math"
	"math/rand/v2"
	"sort"
	"time"

	"gonum.org/v1/gonum/graph"
	"gonum.org/v1/gonum/graph/coloring"
	"gonum.org/v1/gonum/graph/community"
	"gonum.org/v1/gonum/graph/flow"
	"gonum.org/v1/gonum/graph/path"
	"gonum.org/v1/gonum/graph/simple"
	"gonum.org/v1/gonum/graph/topo"
	"gonum.org/v1/gonum/graph/traverse"

	"gonum.org/v1/gonum/verifharness/internal/core"
)

const watchdog = 20 * time.Second

// problem is an abnormal outcome of a gonum call (panic, hang).
type problem struct {
	Routine string
	Kind    string // "panic" | "runtime-panic" | "hang"
	Text    string
}

type obs struct{ problems []problem }

// call runs f under the watchdog; abnormal outcomes are collected.
func (o *obs) call(routine string, f func()) bool {
	oc := core.CallTimeout(watchdog, f)
	switch {
	case oc.Hung:
		o.problems = append(o.problems, problem{routine, "hang", oc.Text})
	case oc.Runtime:
		o.problems = append(o.problems, problem{routine, "runtime-panic", oc.Text})
	case oc.Panicked:
		o.problems = append(o.problems, problem{routine, "panic", oc.Text})
	default:
		return true
	}
	return false
}

func allNodes(n int, im *idmap) []int64 {
	out := make([]int64, n)
	for i := range out {
		out[i] = int64(i + 1)
	}
	return out
}

// ---- traversal and dominators (per root) ----------------------------------

type rootObs struct {
	R         int64      `json:"r"`
	Depth     [][2]int64 `json:"depth"`    // (node, depth passed to until) for every node handed to until
	BfsVisit  []int64    `json:"bfsvisit"` // nodes handed to Visit, in call order
	BfsSeen   []int64    `json:"bfsseen"`  // nodes for which Visited reports true afterwards
	DfsVisit  []int64    `json:"dfsvisit"`
	DfsUntil  []int64    `json:"dfsuntil"`
	PathEx    []int64    `json:"pathex"` // nodes v with topo.PathExistsIn(g, r, v)
	BfsBlk    []int64    `json:"bfsblk"` // Visit calls when every edge into Blk is refused by Traverse
	DfsBlk    []int64    `json:"dfsblk"`
	Blk       int64      `json:"blk"`
	LT        [][2]int64 `json:"lt"`  // (v, DominatorOf(v)) for every v with a non-nil dominator
	SLT       [][2]int64 `json:"slt"` //
	LTKids    [][2]int64 `json:"ltkids"` // (d, v) for v in DominatedBy(d)
	SLTKids   [][2]int64 `json:"sltkids"`
	LTRoot    int64      `json:"ltroot"`
	SLTRoot   int64      `json:"sltroot"`
	Dominated bool       `json:"dominated"` // dominators were computed (directed graphs only)
}

func observeRoot(o *obs, g graph.Graph, n int, im *idmap, r, blk int64, dom bool) rootObs {
	ro := rootObs{R: r, Blk: blk, Depth: [][2]int64{}, BfsVisit: []int64{}, BfsSeen: []int64{}, DfsVisit: []int64{},
		DfsUntil: []int64{}, PathEx: []int64{}, BfsBlk: []int64{}, DfsBlk: []int64{}, LT: [][2]int64{}, SLT: [][2]int64{},
		LTKids: [][2]int64{}, SLTKids: [][2]int64{}, Dominated: dom}
	root := g.Node(im.real(r))
	o.call("BreadthFirst.Walk", func() {
		var b traverse.BreadthFirst
		b.Visit = func(x graph.Node) { ro.BfsVisit = append(ro.BfsVisit, im.model(x.ID())) }
		got := b.Walk(g, root, func(x graph.Node, d int) bool {
			ro.Depth = append(ro.Depth, [2]int64{im.model(x.ID()), int64(d)})
			return false
		})
		if got != nil {
			ro.Depth = append(ro.Depth, [2]int64{-1, -1}) // until never returned true: Walk must return nil
		}
		for _, v := range allNodes(n, im) {
			if b.Visited(g.Node(im.real(v))) {
				ro.BfsSeen = append(ro.BfsSeen, v)
			}
		}
	})
	o.call("DepthFirst.Walk", func() {
		var d traverse.DepthFirst
		d.Visit = func(x graph.Node) { ro.DfsVisit = append(ro.DfsVisit, im.model(x.ID())) }
		got := d.Walk(g, root, func(x graph.Node) bool {
			ro.DfsUntil = append(ro.DfsUntil, im.model(x.ID()))
			return false
		})
		if got != nil {
			ro.DfsUntil = append(ro.DfsUntil, -1)
		}
	})
	if blk > 0 {
		refuse := func(e graph.Edge) bool { return e.To().ID() != im.real(blk) }
		o.call("BreadthFirst.Walk/Traverse", func() {
			b := traverse.BreadthFirst{Traverse: refuse}
			b.Visit = func(x graph.Node) { ro.BfsBlk = append(ro.BfsBlk, im.model(x.ID())) }
			b.Walk(g, root, nil)
		})
		o.call("DepthFirst.Walk/Traverse", func() {
			d := traverse.DepthFirst{Traverse: refuse}
			d.Visit = func(x graph.Node) { ro.DfsBlk = append(ro.DfsBlk, im.model(x.ID())) }
			d.Walk(g, root, nil)
		})
	}
	o.call("PathExistsIn", func() {
		for _, v := range allNodes(n, im) {
			if topo.PathExistsIn(g, root, g.Node(im.real(v))) {
				ro.PathEx = append(ro.PathEx, v)
			}
		}
	})
	if dom {
		dg := g.(graph.Directed)
		tree := func(name string, f func(graph.Node, graph.Directed) flow.DominatorTree, out, kids *[][2]int64, rt *int64) {
			o.call(name, func() {
				t := f(root, dg)
				*rt = 0
				if t.Root() != nil {
					*rt = im.model(t.Root().ID())
				}
				for _, v := range allNodes(n, im) {
					if d := t.DominatorOf(im.real(v)); d != nil {
						*out = append(*out, [2]int64{v, im.model(d.ID())})
					}
					for _, c := range t.DominatedBy(im.real(v)) {
						*kids = append(*kids, [2]int64{v, im.model(c.ID())})
					}
				}
			})
		}
		tree("Dominators", flow.Dominators, &ro.LT, &ro.LTKids, &ro.LTRoot)
		tree("DominatorsSLT", flow.DominatorsSLT, &ro.SLT, &ro.SLTKids, &ro.SLTRoot)
	}
	return ro
}

// ---- directed graphs ------------------------------------------------------

type dirObs struct {
	Sccs     [][]int64 `json:"sccs"`
	Sort     []int64   `json:"sort"` // 0 marks a cyclic component
	SortErr  bool      `json:"sorterr"`
	Cyc      [][]int64 `json:"cyc"`     // components listed by the Unorderable error, in listing order
	CycByID  bool      `json:"cycbyid"` // every listed component is sorted by real id (documented)
	ErrMsg   bool      `json:"errmsg"`  // the error value of Sort, if any, has a text (Unorderable.Error)
	Stab     []int64   `json:"stab"`    // SortStabilized(g, nil)
	StabCyc  [][]int64 `json:"stabcyc"`
	StabR    []int64   `json:"stabr"` // SortStabilized(g, descending-id order)
	StabRCyc [][]int64 `json:"stabrcyc"`
	Cycles   [][]int64 `json:"cycles"` // DirectedCyclesIn, projected, closing node dropped, least node first
	CycRaw   bool      `json:"cycraw"` // every raw cycle was a closed walk (first = last)
	Roots    []rootObs `json:"roots"`
}

func sortObs(o *obs, name string, f func() ([]graph.Node, error), im *idmap) (s []int64, cyc [][]int64, isErr, byID, hasText bool) {
	s, cyc, byID, hasText = []int64{}, [][]int64{}, true, true
	o.call(name, func() {
		nodes, err := f()
		s = ids(nodes, im)
		if err != nil {
			isErr = true
			hasText = err.Error() != "" // topo.Unorderable.Error (both of its forms: up to and above 10 nodes)
			var uo topo.Unorderable
			if errors.As(err, &uo) {
				cyc = idsOfSets(uo, im)
				for _, c := range uo {
					if !sort.SliceIsSorted(c, func(i, j int) bool { return c[i].ID() < c[j].ID() }) {
						byID = false
					}
				}
			} else {
				cyc = [][]int64{{-1}} // some other error type: never equals a component
			}
		}
	})
	return
}

func observeDir(g graph.Directed, n int, im *idmap, roots [][2]int64, doCycles bool) (dirObs, []problem) {
	o := &obs{}
	d := dirObs{Sccs: [][]int64{}, Cycles: [][]int64{}, CycRaw: true, Roots: []rootObs{}}
	o.call("TarjanSCC", func() { d.Sccs = idsOfSets(topo.TarjanSCC(g), im) })
	d.Sort, d.Cyc, d.SortErr, d.CycByID, d.ErrMsg = sortObs(o, "Sort", func() ([]graph.Node, error) { return topo.Sort(g) }, im)
	var e1, e2 bool
	d.Stab, d.StabCyc, e1, _, _ = sortObs(o, "SortStabilized", func() ([]graph.Node, error) { return topo.SortStabilized(g, nil) }, im)
	d.StabR, d.StabRCyc, e2, _, _ = sortObs(o, "SortStabilized/desc", func() ([]graph.Node, error) {
		return topo.SortStabilized(g, func(ns []graph.Node) {
			sort.Slice(ns, func(i, j int) bool { return ns[i].ID() > ns[j].ID() })
		})
	}, im)
	if e1 != d.SortErr || e2 != d.SortErr {
		// an error from one but not the other shows up as a component mismatch downstream
		if !e1 {
			d.StabCyc = [][]int64{}
		}
	}
	if doCycles {
		o.call("DirectedCyclesIn", func() {
			for _, c := range topo.DirectedCyclesIn(g) {
				p := ids(c, im)
				if len(p) < 2 || p[0] != p[len(p)-1] {
					d.CycRaw = false
				}
				d.Cycles = append(d.Cycles, rotateToLeast(p))
			}
		})
	}
	for _, rb := range roots {
		d.Roots = append(d.Roots, observeRoot(o, g, n, im, rb[0], rb[1], true))
	}
	return d, o.problems
}

// ---- undirected graphs ------------------------------------------------------

type colObs struct {
	Alg   string     `json:"alg"`
	K     int        `json:"k"`
	Col   [][2]int64 `json:"col"`
	Err   string     `json:"err"`   // "" | "invalid-partial" | other text
	Exact bool       `json:"exact"` // the routine claims the chromatic number
	// coloring.Sets of the returned colouring: per colour the list <colour, members...> (model ids, in the order
	// returned), and whether every member list was ascending by real id (documented)
	Sets      [][]int64 `json:"sets"`
	SetsByID  bool      `json:"setsbyid"`
}

// withSets fills in what coloring.Sets makes of the colouring c.
func (co colObs) withSets(c map[int64]int, im *idmap) colObs {
	co.Sets, co.SetsByID = [][]int64{}, true
	if c == nil {
		return co
	}
	for colour, members := range coloring.Sets(c) {
		if !sort.SliceIsSorted(members, func(i, j int) bool { return members[i] < members[j] }) {
			co.SetsByID = false
		}
		row := []int64{int64(colour)}
		for _, id := range members {
			row = append(row, im.model(id))
		}
		co.Sets = append(co.Sets, row)
	}
	sort.Slice(co.Sets, func(i, j int) bool { return co.Sets[i][0] < co.Sets[j][0] })
	return co
}

type forestObs struct {
	W    int64      `json:"w"`    // returned weight (exactly integral on integer data)
	Frac bool       `json:"frac"` // returned weight was not an integer
	T    [][3]int64 `json:"t"`    // edges of dst (u < v, weight)
	N    []int64    `json:"n"`    // nodes of dst
}

type cgEdge struct {
	A []int64 `json:"a"`
	B []int64 `json:"b"`
	S []int64 `json:"s"`
}

type undObs struct {
	Ccs      [][]int64   `json:"ccs"`
	BfsAll   [][]int64   `json:"bfsall"` // components seen by BreadthFirst.WalkAll (between before/after)
	DfsAll   [][]int64   `json:"dfsall"`
	Basis    [][]int64   `json:"basis"` // UndirectedCyclesIn, closing node dropped
	Cliques  [][]int64   `json:"cliques"`
	CgNodes  [][]int64   `json:"cgnodes"`
	CgEdges  []cgEdge    `json:"cgedges"`
	Kcc      [][][]int64 `json:"kcc"` // k = 1..5
	Order    []int64     `json:"order"`
	Cores    [][]int64   `json:"cores"`
	KCores   [][]int64   `json:"kcores"` // k = 0..len(KCores)-1
	KCoreTop int         `json:"kcoretop"`
	Prim     forestObs   `json:"prim"`
	Kruskal  forestObs   `json:"kruskal"`
	Cols     []colObs    `json:"cols"`
	Roots    []rootObs   `json:"roots"`
}

func colPairs(c map[int64]int, im *idmap) [][2]int64 {
	out := [][2]int64{}
	for id, col := range c {
		out = append(out, [2]int64{im.model(id), int64(col)})
	}
	sort.Slice(out, func(i, j int) bool { return out[i][0] < out[j][0] })
	return out
}

func errText(err error) string {
	switch {
	case err == nil:
		return ""
	case errors.Is(err, coloring.ErrInvalidPartialColoring):
		return "invalid-partial"
	}
	return "other: " + err.Error()
}

func forest(o *obs, name string, f func(dst path.WeightedBuilder) float64, im *idmap) forestObs {
	fo := forestObs{T: [][3]int64{}, N: []int64{}}
	o.call(name, func() {
		dst := simple.NewWeightedUndirectedGraph(0, math.Inf(1))
		w := f(dst)
		fo.W = int64(w)
		fo.Frac = float64(fo.W) != w
		it := dst.Nodes()
		for it.Next() {
			fo.N = append(fo.N, im.model(it.Node().ID()))
		}
		es := dst.WeightedEdges()
		for es.Next() {
			e := es.WeightedEdge()
			u, v := im.model(e.From().ID()), im.model(e.To().ID())
			if u > v {
				u, v = v, u
			}
			ew := e.Weight()
			if float64(int64(ew)) != ew {
				fo.Frac = true
			}
			fo.T = append(fo.T, [3]int64{u, v, int64(ew)})
		}
	})
	return fo
}

type undOpts struct {
	kccMax   int  // KCliqueCommunities for k = 1..kccMax
	kcoreTop int  // KCore for k = 0..kcoreTop  (-1: up to len(cores))
	exact    bool // run DsaturExact
	cliques  bool
	weighted bool // g is a weighted graph with WeightedEdges: run Prim / Kruskal
	seed     uint64
}

func observeUnd(g graph.Undirected, n int, im *idmap, roots []int64, op undOpts) (undObs, []problem) {
	o := &obs{}
	u := undObs{Ccs: [][]int64{}, BfsAll: [][]int64{}, DfsAll: [][]int64{}, Basis: [][]int64{}, Cliques: [][]int64{},
		CgNodes: [][]int64{}, CgEdges: []cgEdge{}, Kcc: [][][]int64{}, Order: []int64{}, Cores: [][]int64{}, KCores: [][]int64{},
		Cols: []colObs{}, Roots: []rootObs{}, Prim: forestObs{T: [][3]int64{}, N: []int64{}}, Kruskal: forestObs{T: [][3]int64{}, N: []int64{}}}
	o.call("ConnectedComponents", func() { u.Ccs = idsOfSets(topo.ConnectedComponents(g), im) })
	walkAll := func(name string, w interface {
		WalkAll(graph.Undirected, func(), func(), func(graph.Node))
	}, out *[][]int64) {
		o.call(name, func() {
			var cur []int64
			open := false
			w.WalkAll(g, func() { cur, open = []int64{}, true }, func() {
				*out = append(*out, cur)
				open = false
			}, func(x graph.Node) {
				if !open {
					cur = append(cur, -2) // during outside before/after
				}
				cur = append(cur, im.model(x.ID()))
			})
		})
	}
	walkAll("BreadthFirst.WalkAll", &traverse.BreadthFirst{}, &u.BfsAll)
	walkAll("DepthFirst.WalkAll", &traverse.DepthFirst{}, &u.DfsAll)
	o.call("UndirectedCyclesIn", func() {
		for _, c := range topo.UndirectedCyclesIn(g) {
			u.Basis = append(u.Basis, openCycle(ids(c, im)))
		}
	})
	if op.cliques {
		o.call("BronKerbosch", func() { u.Cliques = idsOfSets(topo.BronKerbosch(g), im) })
		o.call("CliqueGraph", func() {
			cg := simple.NewUndirectedGraph()
			topo.CliqueGraph(cg, g)
			it := cg.Nodes()
			for it.Next() {
				u.CgNodes = append(u.CgNodes, ids(it.Node().(topo.Clique).Nodes(), im))
			}
			es := cg.Edges()
			for es.Next() {
				e := es.Edge().(topo.CliqueGraphEdge)
				u.CgEdges = append(u.CgEdges, cgEdge{
					A: sorted(ids(e.From().(topo.Clique).Nodes(), im)),
					B: sorted(ids(e.To().(topo.Clique).Nodes(), im)),
					S: sorted(ids(e.Nodes(), im))})
			}
		})
		for k := 1; k <= op.kccMax; k++ {
			k := k
			o.call(fmt.Sprintf("KCliqueCommunities(%d)", k), func() {
				u.Kcc = append(u.Kcc, idsOfSets(community.KCliqueCommunities(k, g), im))
			})
		}
	}
	o.call("DegeneracyOrdering", func() {
		ord, cores := topo.DegeneracyOrdering(g)
		u.Order = ids(ord, im)
		u.Cores = idsOfSets(cores, im)
	})
	top := op.kcoreTop
	if top < 0 {
		top = len(u.Cores)
	}
	u.KCoreTop = top
	for k := 0; k <= top; k++ {
		k := k
		if !o.call(fmt.Sprintf("KCore(%d)", k), func() { u.KCores = append(u.KCores, ids(topo.KCore(k, g), im)) }) {
			break
		}
	}
	if op.weighted {
		wg := g.(path.UndirectedWeightLister)
		u.Prim = forest(o, "Prim", func(dst path.WeightedBuilder) float64 { return path.Prim(dst, wg) }, im)
		u.Kruskal = forest(o, "Kruskal", func(dst path.WeightedBuilder) float64 { return path.Kruskal(dst, wg) }, im)
	}
	col := func(alg string, exact bool, f func() (int, map[int64]int, error)) {
		o.call(alg, func() {
			k, c, err := f()
			u.Cols = append(u.Cols, colObs{Alg: alg, K: k, Col: colPairs(c, im), Err: errText(err), Exact: exact && err == nil}.withSets(c, im))
		})
	}
	col("Dsatur", false, func() (int, map[int64]int, error) { return coloring.Dsatur(g, nil) })
	col("Randomized", false, func() (int, map[int64]int, error) {
		return coloring.Randomized(g, nil, rand.NewPCG(op.seed, 17))
	})
	col("RecursiveLargestFirst", false, func() (int, map[int64]int, error) {
		k, c := coloring.RecursiveLargestFirst(g)
		return k, c, nil
	})
	col("SanSegundo", false, func() (int, map[int64]int, error) { return coloring.SanSegundo(g, nil) })
	col("WelshPowell", false, func() (int, map[int64]int, error) { return coloring.WelshPowell(g, nil) })
	if op.exact {
		col("DsaturExact", true, func() (int, map[int64]int, error) { return coloring.DsaturExact(nil, g) })
	}
	for _, r := range roots {
		u.Roots = append(u.Roots, observeRoot(o, g, n, im, r, 0, false))
	}
	return u, o.problems
}

// partial colourings: the four routines that take one
func observePartial(g graph.Undirected, im *idmap, part map[int64]int, seed uint64) ([]colObs, []problem) {
	o := &obs{}
	out := []colObs{}
	cp := func() map[int64]int {
		m := make(map[int64]int, len(part))
		for k, v := range part {
			m[k] = v
		}
		return m
	}
	col := func(alg string, f func(p map[int64]int) (int, map[int64]int, error)) {
		o.call(alg, func() {
			p := cp()
			k, c, err := f(p)
			co := colObs{Alg: alg, K: k, Col: colPairs(c, im), Err: errText(err)}.withSets(c, im)
			out = append(out, co)
		})
	}
	col("Dsatur", func(p map[int64]int) (int, map[int64]int, error) { return coloring.Dsatur(g, p) })
	col("Randomized", func(p map[int64]int) (int, map[int64]int, error) {
		return coloring.Randomized(g, p, rand.NewPCG(seed, 23))
	})
	col("SanSegundo", func(p map[int64]int) (int, map[int64]int, error) { return coloring.SanSegundo(g, p) })
	col("WelshPowell", func(p map[int64]int) (int, map[int64]int, error) { return coloring.WelshPowell(g, p) })
	return out, o.problems
}
