package structural

// Outputs on graphs beyond the enumeration bound, for the three exhaustive search
// modules of specs/structural (ChromaticSearch.tla, CliqueSearch.tla,
// CycleSearch.tla) and the "chrom" / "dcyc" clauses of StructuralTrace.tla.
//
// record (mode=chromatic): seeded random graphs of 18..36 nodes are built in real
// gonum containers; coloring.DsaturExact is called many times per graph on freshly
// rebuilt containers (container type, id map, insertion order and Go's map
// iteration order all change between calls), the heuristic colourings a few
// times, topo.BronKerbosch once; every returned (k, colouring) and clique family
// is written down. Whether a colouring is proper, whether k is the chromatic
// number and whether a maximal clique is missing is decided by TLC, not here.
// record (mode=dcycles): the same for topo.DirectedCyclesIn on random digraphs.
//
// replay (case kinds "witness", "missing-clique", "missing-cycle"): TLC found a
// proper colouring with fewer colours than the exact solver ever returned (a
// maximal clique / an elementary cycle that was not returned). The harness
// rebuilds the graph, confirms through the container's own edge queries that the
// object is what TLC says it is, and calls the routine again: a call that repeats
// the wrong answer is the violation, reproduced in this process.

import (
	"encoding/json"
	"fmt"
	"math/rand"
	randv2 "math/rand/v2"
	"sort"
	"sync"
	"time"

	"gonum.org/v1/gonum/graph"
	"gonum.org/v1/gonum/graph/coloring"
	"gonum.org/v1/gonum/graph/topo"

	"gonum.org/v1/gonum/verifharness/internal/core"
)

// exactWatchdog bounds one DsaturExact call. The routine is exponential in the
// worst case and documents no running time, so an overrun is not a failure: the
// call is dropped and counted.
const exactWatchdog = 10 * time.Second

type chromEvent struct {
	K     string     `json:"k"` // "chrom"
	Gid   int        `json:"gid"`
	V     []int64    `json:"V"`
	E     [][2]int64 `json:"E"`
	Order []int64    `json:"order"` // search order for ChromaticSearch.tla (any permutation of V is sound)
	Type  string     `json:"type"`
	Calls []colObs   `json:"calls"`
	// topo.BronKerbosch(g) for CliqueSearch.tla (Cl: it was recorded for this graph)
	Cl      bool      `json:"cl"`
	Cliques [][]int64 `json:"cliques"`
}

// cliqueCase is printed by tools/props/C14.py when TLC reached a maximal clique that
// BronKerbosch had not returned.
type cliqueCase struct {
	K      string     `json:"k"` // "missing-clique"
	Gid    int        `json:"gid"`
	V      []int64    `json:"V"`
	E      [][2]int64 `json:"E"`
	Clique []int64    `json:"clique"`
	Calls  int        `json:"calls"`
	Type   string     `json:"type"`
}

type witnessCase struct {
	K     string     `json:"k"` // "witness"
	Gid   int        `json:"gid"`
	V     []int64    `json:"V"`
	E     [][2]int64 `json:"E"`
	Col   [][2]int64 `json:"col"`  // (model node, colour) found by TLC
	Kw    int        `json:"kw"`   // number of colours of the witness
	Kmin  int        `json:"kmin"` // least k any recorded call returned (information only)
	Calls int        `json:"calls"`
	Type  string     `json:"type"`
}

// searchOrder lists the nodes for the canonical colouring search: a greedily grown
// clique first, then always the node with most neighbours already listed (ties: larger
// degree, smaller id). The order only shapes TLC's search tree; the specification
// checks that it is a permutation and is complete for any permutation.
func searchOrder(n int, edges [][2]int64) []int64 {
	adj := make([]map[int64]bool, n+1)
	for i := range adj {
		adj[i] = map[int64]bool{}
	}
	for _, e := range edges {
		adj[e[0]][e[1]] = true
		adj[e[1]][e[0]] = true
	}
	nodes := make([]int64, n)
	for i := range nodes {
		nodes[i] = int64(i + 1)
	}
	sort.Slice(nodes, func(i, j int) bool {
		di, dj := len(adj[nodes[i]]), len(adj[nodes[j]])
		if di != dj {
			return di > dj
		}
		return nodes[i] < nodes[j]
	})
	var order []int64
	placed := map[int64]bool{}
	// clique grown greedily in descending-degree order
	for _, v := range nodes {
		ok := true
		for _, u := range order {
			if !adj[v][u] {
				ok = false
				break
			}
		}
		if ok {
			order = append(order, v)
			placed[v] = true
		}
	}
	back := make([]int, n+1)
	for _, u := range order {
		for w := range adj[u] {
			back[w]++
		}
	}
	for len(order) < n {
		best := int64(-1)
		for _, v := range nodes { // nodes is sorted by (degree desc, id asc): first maximum wins
			if !placed[v] && (best < 0 || back[v] > back[best]) {
				best = v
			}
		}
		order = append(order, best)
		placed[best] = true
		for w := range adj[best] {
			back[w]++
		}
	}
	return order
}

// chromGraph draws the gi-th graph: G(n, p), or a graph with a planted partition into
// parts independent sets (edges only between different parts, probability p).
func chromGraph(rng *rand.Rand, gi, nmin, nmax int) (n int, edges [][2]int64, desc string) {
	n = nmin + rng.Intn(nmax-nmin+1)
	p := 0.3 + 0.4*rng.Float64()
	parts := 0
	if gi%2 == 1 {
		parts = 4 + rng.Intn(4)
		p = 0.45 + 0.4*rng.Float64()
	}
	part := make([]int, n+1)
	for v := 1; v <= n; v++ {
		if parts > 0 {
			part[v] = rng.Intn(parts)
		} else {
			part[v] = v
		}
	}
	for u := 1; u <= n; u++ {
		for v := u + 1; v <= n; v++ {
			if part[u] != part[v] && rng.Float64() < p {
				edges = append(edges, [2]int64{int64(u), int64(v)})
			}
		}
	}
	if parts > 0 {
		desc = fmt.Sprintf("planted(n=%d,parts=%d,p=%.2f)", n, parts, p)
	} else {
		desc = fmt.Sprintf("gnp(n=%d,p=%.2f)", n, p)
	}
	return n, edges, desc
}

// chromBuild rebuilds the graph for the c-th call: container type, id map and
// insertion order all depend on c.
func chromBuild(n int, edges [][2]int64, seed int64, gi, c int) (graph.Undirected, *idmap, string) {
	rng := rand.New(rand.NewSource(seed*7907 + int64(gi)*613 + int64(c)))
	im := mkMap(n, (gi+c)%5, seed+int64(gi*31+c))
	kind := undKinds[(gi+c/2)%len(undKinds)]
	return buildUnd(kind, n, edges, nil, im, rng), im, kind + "/" + im.name
}

// chromResult is what one graph contributed (graphs are processed by a few goroutines
// and written in graph order).
type chromResult struct {
	ev       chromEvent
	problems []problem
	exact    int
	heur     int
	overrun  int
}

func chromOne(gi, n int, edges [][2]int64, desc string, calls, heur int, cliques bool, seed int64) chromResult {
	r := chromResult{ev: chromEvent{K: "chrom", Gid: gi + 1, V: allNodes(n, nil), E: nn(edges), Order: searchOrder(n, edges), Type: desc,
		Calls: []colObs{}, Cliques: [][]int64{}}}
	o := &obs{}
	if cliques {
		g, im, _ := chromBuild(n, edges, seed, gi, calls+heur)
		r.ev.Cl = o.call("BronKerbosch", func() { r.ev.Cliques = idsOfSets(topo.BronKerbosch(g), im) })
		if r.ev.Cliques == nil {
			r.ev.Cliques = [][]int64{}
		}
	}
	add := func(alg string, exact bool, k int, c map[int64]int, err error, im *idmap) {
		r.ev.Calls = append(r.ev.Calls, colObs{Alg: alg, K: k, Col: colPairs(c, im), Err: errText(err), Exact: exact && err == nil}.withSets(c, im))
	}
	for c := 0; c < calls; c++ {
		g, im, _ := chromBuild(n, edges, seed, gi, c)
		var k int
		var col map[int64]int
		var err error
		oc := core.CallTimeout(exactWatchdog, func() { k, col, err = coloring.DsaturExact(nil, g) })
		switch {
		case oc.Hung:
			r.overrun++
			c = calls // no further exact calls on this graph
			continue
		case oc.Runtime:
			o.problems = append(o.problems, problem{"DsaturExact", "runtime-panic", oc.Text})
			continue
		case oc.Panicked:
			o.problems = append(o.problems, problem{"DsaturExact", "panic", oc.Text})
			continue
		}
		add("DsaturExact", true, k, col, err, im)
		r.exact++
	}
	for c := 0; c < heur; c++ {
		g, im, _ := chromBuild(n, edges, seed, gi, calls+c)
		o.call("Dsatur", func() { k, col, err := coloring.Dsatur(g, nil); add("Dsatur", false, k, col, err, im) })
		o.call("Randomized", func() {
			k, col, err := coloring.Randomized(g, nil, randv2.NewPCG(uint64(seed), uint64(gi*100+c)))
			add("Randomized", false, k, col, err, im)
		})
		o.call("RecursiveLargestFirst", func() {
			k, col := coloring.RecursiveLargestFirst(g)
			add("RecursiveLargestFirst", false, k, col, nil, im)
		})
		o.call("SanSegundo", func() { k, col, err := coloring.SanSegundo(g, nil); add("SanSegundo", false, k, col, err, im) })
		o.call("WelshPowell", func() { k, col, err := coloring.WelshPowell(g, nil); add("WelshPowell", false, k, col, err, im) })
		r.heur += 5
	}
	r.problems = o.problems
	return r
}

func recordChromatic(out *core.Out, sum *core.Summary, a map[string]string, seed int64) error {
	graphs, calls, heur := atoi(a["graphs"], 40), atoi(a["calls"], 12), atoi(a["heur"], 2)
	nmin, nmax, par := atoi(a["nmin"], 18), atoi(a["nmax"], 28), atoi(a["par"], 4)
	cliq := atoi(a["cliq"], 0) // BronKerbosch is recorded for every cliq-th graph (0: never)
	rng := rand.New(rand.NewSource(seed*15485863 + 29))
	type inst struct {
		n     int
		edges [][2]int64
		desc  string
	}
	insts := make([]inst, graphs)
	for gi := range insts {
		insts[gi].n, insts[gi].edges, insts[gi].desc = chromGraph(rng, gi, nmin, nmax)
	}
	res := make([]chromResult, graphs)
	var wg sync.WaitGroup
	next := make(chan int)
	for w := 0; w < par; w++ {
		wg.Add(1)
		go func() {
			defer wg.Done()
			for gi := range next {
				res[gi] = chromOne(gi, insts[gi].n, insts[gi].edges, insts[gi].desc, calls, heur, cliq > 0 && gi%cliq == 0, seed)
			}
		}()
	}
	for gi := range insts {
		next <- gi
	}
	close(next)
	wg.Wait()
	for _, r := range res {
		sum.Count("exact_calls", r.exact)
		sum.Count("heuristic_calls", r.heur)
		sum.Count("exact_calls_over_watchdog", r.overrun)
		if r.ev.Cl {
			sum.Count("clique_families", 1)
			sum.Count("cliques_returned", len(r.ev.Cliques))
		}
		recFail(sum, r.problems, r.ev)
		if len(r.ev.Calls) == 0 {
			continue // nothing was returned for this graph (every call overran): nothing to judge
		}
		out.Emit(r.ev)
		sum.Traces++
	}
	return nil
}

// replayWitness: see the package comment of this file.
func replayWitness(line []byte, f *failer, seed int64, sum *core.Summary) error {
	var w witnessCase
	if err := json.Unmarshal(line, &w); err != nil {
		return err
	}
	n := len(w.V)
	calls := w.Calls
	if calls <= 0 {
		calls = 200
	}
	sum.Cases++
	sum.Nontrivial++
	for c := 0; c < calls; c++ {
		g, im, where := chromBuild(n, w.E, seed, w.Gid, c)
		f.where = where
		// the witness, read against the real container: every node coloured, every edge of the case is an
		// edge of g with differently coloured ends, g has no other edges, kw colours in all
		col := map[int64]int64{}
		used := map[int64]bool{}
		for _, p := range w.Col {
			col[im.real(p[0])] = p[1]
			used[p[1]] = true
		}
		proper := len(col) == n && g.Nodes().Len() == n && len(used) == w.Kw
		for _, e := range w.E {
			u, v := im.real(e[0]), im.real(e[1])
			cu, oku := col[u]
			cv, okv := col[v]
			if !oku || !okv || cu == cv || !g.HasEdgeBetween(u, v) {
				proper = false
			}
		}
		pairs := 0
		it := g.Nodes()
		for it.Next() {
			pairs += g.From(it.Node().ID()).Len()
		}
		if pairs != 2*len(w.E) {
			proper = false
		}
		if !proper {
			sum.Count("witness_not_confirmed", 1)
			return nil
		}
		if c == 0 {
			sum.Count("witness_confirmed_proper", 1)
		}
		var k int
		var err error
		oc := core.CallTimeout(exactWatchdog, func() { k, _, err = coloring.DsaturExact(nil, g) })
		if oc.Hung || oc.Panicked {
			continue
		}
		sum.Count("witness_exact_calls", 1)
		if err == nil && k > w.Kw {
			sum.Count("witness_reproduced", 1)
			f.fail("DsaturExact", "above-chromatic-number",
				"call %d on graph %d (%s, %d nodes, %d edges): DsaturExact returned k = %d, but the graph has a proper colouring with %d colours (found by TLC, confirmed on the container): %v",
				c+1, w.Gid, w.Type, n, len(w.E), k, w.Kw, w.Col)
			return nil
		}
	}
	return nil
}

// replayMissingClique: TLC reached a maximal clique that is not in the family BronKerbosch
// returned. The harness rebuilds the graph, confirms through the container's own edge
// queries that the node set is a clique no other node is adjacent to all of, and calls
// BronKerbosch again: an output without that clique is the violation, reproduced here.
func replayMissingClique(line []byte, f *failer, seed int64, sum *core.Summary) error {
	var w cliqueCase
	if err := json.Unmarshal(line, &w); err != nil {
		return err
	}
	n := len(w.V)
	calls := w.Calls
	if calls <= 0 {
		calls = 50
	}
	sum.Cases++
	sum.Nontrivial++
	in := map[int64]bool{}
	for _, v := range w.Clique {
		in[v] = true
	}
	for c := 0; c < calls; c++ {
		g, im, where := chromBuild(n, w.E, seed, w.Gid, c)
		f.where = where
		maximal := len(w.Clique) > 0 && len(in) == len(w.Clique) && g.Nodes().Len() == n
		for _, u := range w.Clique {
			for _, v := range w.Clique {
				if u != v && !g.HasEdgeBetween(im.real(u), im.real(v)) {
					maximal = false
				}
			}
		}
		for _, v := range w.V {
			if in[v] {
				continue
			}
			all := true
			for _, u := range w.Clique {
				if !g.HasEdgeBetween(im.real(u), im.real(v)) {
					all = false
					break
				}
			}
			if all {
				maximal = false
			}
		}
		if !maximal {
			sum.Count("clique_not_confirmed", 1)
			return nil
		}
		if c == 0 {
			sum.Count("clique_confirmed_maximal", 1)
		}
		var fam [][]int64
		oc := core.CallTimeout(watchdog, func() { fam = idsOfSets(topo.BronKerbosch(g), im) })
		if oc.Hung || oc.Panicked {
			continue
		}
		sum.Count("clique_calls", 1)
		found := false
		for _, s := range fam {
			if setKey(s) == setKey(w.Clique) {
				found = true
			}
		}
		if !found {
			sum.Count("clique_reproduced", 1)
			f.fail("BronKerbosch", "missing-maximal-clique",
				"call %d on graph %d (%s, %d nodes, %d edges): BronKerbosch returned %d cliques without the maximal clique %v (reached by TLC's exhaustive enumeration, confirmed on the container)",
				c+1, w.Gid, w.Type, n, len(w.E), len(fam), w.Clique)
			return nil
		}
	}
	return nil
}

// ---- elementary cycles of digraphs beyond the enumeration bound (CycleSearch.tla) ----------

type dcycRun struct {
	Cycles [][]int64 `json:"cycles"` // projected, closing node dropped, least node first
	Raw    bool      `json:"raw"`    // every raw cycle was a closed walk (first = last)
}

type dcycEvent struct {
	K    string     `json:"k"` // "dcyc"
	Gid  int        `json:"gid"`
	V    []int64    `json:"V"`
	E    [][2]int64 `json:"E"`
	Type string     `json:"type"`
	Runs []dcycRun  `json:"runs"`
}

type cycleCase struct {
	K     string     `json:"k"` // "missing-cycle"
	Gid   int        `json:"gid"`
	V     []int64    `json:"V"`
	E     [][2]int64 `json:"E"`
	Cycle []int64    `json:"cycle"`
	Calls int        `json:"calls"`
	Type  string     `json:"type"`
}

func dcycBuild(n int, edges [][2]int64, seed int64, gi, c int) (graph.Directed, *idmap, string) {
	rng := rand.New(rand.NewSource(seed*6947 + int64(gi)*419 + int64(c)))
	im := mkMap(n, (gi+c)%5, seed+int64(gi*37+c))
	kind := dirKinds[(gi+c)%len(dirKinds)]
	return buildDir(kind, n, edges, im, rng), im, kind + "/" + im.name
}

func dcycObserve(g graph.Directed, im *idmap) (r dcycRun, oc core.Outcome) {
	r = dcycRun{Cycles: [][]int64{}, Raw: true}
	oc = core.CallTimeout(watchdog, func() {
		for _, c := range topo.DirectedCyclesIn(g) {
			p := ids(c, im)
			if len(p) < 2 || p[0] != p[len(p)-1] {
				r.Raw = false
			}
			r.Cycles = append(r.Cycles, rotateToLeast(p))
		}
	})
	return r, oc
}

// recordDcycles: seeded random digraphs with expected out-degree dmin..dmax (chosen so that the number of
// simple paths TLC has to enumerate stays in the 10^3..10^5 range per digraph), DirectedCyclesIn on rebuilt
// containers.
func recordDcycles(out *core.Out, sum *core.Summary, a map[string]string, seed int64) error {
	graphs, calls := atoi(a["graphs"], 40), atoi(a["calls"], 2)
	nmin, nmax := atoi(a["nmin"], 8), atoi(a["nmax"], 14)
	dmin, dmax := float64(atoi(a["dmin"], 130))/100, float64(atoi(a["dmax"], 260))/100 // expected out-degree range, in hundredths
	rng := rand.New(rand.NewSource(seed*32452843 + 5))
	for gi := 0; gi < graphs; gi++ {
		n := nmin + rng.Intn(nmax-nmin+1)
		deg := dmin + (dmax-dmin)*rng.Float64()
		p := deg / float64(n-1)
		var edges [][2]int64
		for u := 1; u <= n; u++ {
			for v := 1; v <= n; v++ {
				if u != v && rng.Float64() < p {
					edges = append(edges, [2]int64{int64(u), int64(v)})
				}
			}
		}
		ev := dcycEvent{K: "dcyc", Gid: gi + 1, V: allNodes(n, nil), E: nn(edges), Type: fmt.Sprintf("gnp-directed(n=%d,outdeg=%.2f)", n, deg), Runs: []dcycRun{}}
		o := &obs{}
		for c := 0; c < calls; c++ {
			g, im, _ := dcycBuild(n, edges, seed, gi, c)
			r, oc := dcycObserve(g, im)
			switch {
			case oc.Hung:
				o.problems = append(o.problems, problem{"DirectedCyclesIn", "hang", oc.Text})
			case oc.Runtime:
				o.problems = append(o.problems, problem{"DirectedCyclesIn", "runtime-panic", oc.Text})
			case oc.Panicked:
				o.problems = append(o.problems, problem{"DirectedCyclesIn", "panic", oc.Text})
			default:
				ev.Runs = append(ev.Runs, r)
				sum.Count("cycle_calls", 1)
				sum.Count("cycles_returned", len(r.Cycles))
			}
		}
		recFail(sum, o.problems, ev)
		if len(ev.Runs) == 0 {
			continue
		}
		out.Emit(ev)
		sum.Traces++
	}
	return nil
}

// replayMissingCycle: TLC reached an elementary cycle that some call of DirectedCyclesIn had not
// returned. The harness rebuilds the digraph, confirms through the container's own edge queries
// that the node sequence is a closed simple path, and calls DirectedCyclesIn again: an output
// without that cycle is the violation, reproduced here.
func replayMissingCycle(line []byte, f *failer, seed int64, sum *core.Summary) error {
	var w cycleCase
	if err := json.Unmarshal(line, &w); err != nil {
		return err
	}
	n := len(w.V)
	calls := w.Calls
	if calls <= 0 {
		calls = 50
	}
	sum.Cases++
	sum.Nontrivial++
	for c := 0; c < calls; c++ {
		g, im, where := dcycBuild(n, w.E, seed, w.Gid, c)
		f.where = where
		seen := map[int64]bool{}
		closed := len(w.Cycle) >= 2 && g.Nodes().Len() == n
		for i, u := range w.Cycle {
			v := w.Cycle[(i+1)%len(w.Cycle)]
			if seen[u] || !g.HasEdgeFromTo(im.real(u), im.real(v)) {
				closed = false
			}
			seen[u] = true
		}
		if !closed {
			sum.Count("cycle_not_confirmed", 1)
			return nil
		}
		if c == 0 {
			sum.Count("cycle_confirmed_elementary", 1)
		}
		r, oc := dcycObserve(g, im)
		if oc.Hung || oc.Panicked {
			continue
		}
		sum.Count("cycle_calls", 1)
		if !hasSeq(r.Cycles, rotateToLeast(append([]int64{}, w.Cycle...))) {
			sum.Count("cycle_reproduced", 1)
			f.fail("DirectedCyclesIn", "missing-elementary-cycle",
				"call %d on digraph %d (%s, %d nodes, %d edges): DirectedCyclesIn returned %d cycles without the elementary cycle %v (reached by TLC's exhaustive enumeration, confirmed on the container)",
				c+1, w.Gid, w.Type, n, len(w.E), len(r.Cycles), w.Cycle)
			return nil
		}
	}
	return nil
}
