// Package structural binds specs/structural/Structural.tla to gonum's
// structural graph algorithms (graph/topo, flow, traverse, path spanning
// trees, coloring, product, graphs/gen, community k-cliques).
//
// The package contains no graph mathematics: it builds the graph the
// specification enumerated inside real gonum containers (under several id
// maps and container types), calls the routine, projects the result back to
// model ids and either compares it with the answer TLC printed (replay) or
// writes it down for TLC to judge (record).
package structural

import (
	"fmt"
	"math"
	"math/rand"
	"sort"
	"strings"

	"gonum.org/v1/gonum/graph"
	"gonum.org/v1/gonum/graph/multi"
	"gonum.org/v1/gonum/graph/simple"
)

// idmap binds model ids 1..n (the spec's node names) to real 64-bit ids.
type idmap struct {
	name string
	m2r  map[int64]int64
	r2m  map[int64]int64
}

func (im *idmap) real(m int64) int64 { return im.m2r[m] }

// model returns the model id of a real id; unknown ids map to -1000-|id| so
// that an invented node can never be mistaken for a model node.
func (im *idmap) model(r int64) int64 {
	if m, ok := im.r2m[r]; ok {
		return m
	}
	return -1000
}

var idPool = []int64{-3, -1, 0, 2, 5, 7, 11, 100, 1000, 1 << 20, 1 << 40, -(1 << 40), 1 << 62,
	math.MaxInt64, math.MinInt64, math.MaxInt64 - 1, math.MinInt64 + 1, 42, -77, 1 << 33}

// mkMap builds the which-th id map for n model nodes (plus extra ids n+1..n+extra
// for nodes that are deliberately absent from the graph).
func mkMap(n int, which int, seed int64) *idmap {
	im := &idmap{m2r: map[int64]int64{}, r2m: map[int64]int64{}}
	tot := n + 2
	switch which {
	case 0: // identity
		im.name = "identity"
		for m := 1; m <= tot; m++ {
			im.m2r[int64(m)] = int64(m)
		}
	case 1: // order reversing, non-contiguous
		im.name = "reversed-gaps"
		for m := 1; m <= tot; m++ {
			im.m2r[int64(m)] = int64(tot-m)*10 - 7
		}
	default: // seeded arbitrary ids, extremes included
		im.name = fmt.Sprintf("arbitrary-%d", which)
		rng := rand.New(rand.NewSource(seed*1000003 + int64(which)*7919 + int64(n)))
		pool := append([]int64(nil), idPool...)
		rng.Shuffle(len(pool), func(i, j int) { pool[i], pool[j] = pool[j], pool[i] })
		used := map[int64]bool{}
		for m := 1; m <= tot; m++ {
			var id int64
			if m-1 < len(pool) {
				id = pool[m-1]
			} else {
				for {
					id = rng.Int63() - (1 << 62)
					if !used[id] {
						break
					}
				}
			}
			used[id] = true
			im.m2r[int64(m)] = id
		}
	}
	for m, r := range im.m2r {
		im.r2m[r] = m
	}
	return im
}

// ---- container construction ---------------------------------------------

type dirKind string
type undKind string

var dirKinds = []string{"simple.DirectedGraph", "multi.DirectedGraph", "simple.WeightedDirectedGraph"}
var undKinds = []string{"simple.WeightedUndirectedGraph", "simple.UndirectedGraph", "multi.UndirectedGraph"}

func shuffled(rng *rand.Rand, n int) []int {
	p := rng.Perm(n)
	return p
}

// buildDir constructs the digraph (1..n, edges) in a container of the given
// kind; node and edge insertion order is shuffled by rng.
func buildDir(kind string, n int, edges [][2]int64, im *idmap, rng *rand.Rand) graph.Directed {
	switch kind {
	case "simple.DirectedGraph":
		g := simple.NewDirectedGraph()
		for _, i := range shuffled(rng, n) {
			g.AddNode(simple.Node(im.real(int64(i + 1))))
		}
		for _, i := range shuffled(rng, len(edges)) {
			e := edges[i]
			g.SetEdge(simple.Edge{F: simple.Node(im.real(e[0])), T: simple.Node(im.real(e[1]))})
		}
		return g
	case "simple.WeightedDirectedGraph":
		g := simple.NewWeightedDirectedGraph(0, math.Inf(1))
		for _, i := range shuffled(rng, n) {
			g.AddNode(simple.Node(im.real(int64(i + 1))))
		}
		for _, i := range shuffled(rng, len(edges)) {
			e := edges[i]
			g.SetWeightedEdge(simple.WeightedEdge{F: simple.Node(im.real(e[0])), T: simple.Node(im.real(e[1])), W: 1})
		}
		return g
	case "multi.DirectedGraph":
		g := multi.NewDirectedGraph()
		for _, i := range shuffled(rng, n) {
			g.AddNode(multi.Node(im.real(int64(i + 1))))
		}
		for _, i := range shuffled(rng, len(edges)) {
			e := edges[i]
			for k := 0; k < 1+rng.Intn(2); k++ { // parallel lines
				g.SetLine(g.NewLine(multi.Node(im.real(e[0])), multi.Node(im.real(e[1]))))
			}
		}
		return g
	}
	panic("unknown directed kind " + kind)
}

// buildUnd constructs the undirected graph; w gives integer edge weights (nil: all 1).
func buildUnd(kind string, n int, edges [][2]int64, w map[[2]int64]int64, im *idmap, rng *rand.Rand) graph.Undirected {
	wt := func(e [2]int64) float64 {
		if w == nil {
			return 1
		}
		return float64(w[e])
	}
	switch kind {
	case "simple.WeightedUndirectedGraph":
		g := simple.NewWeightedUndirectedGraph(0, math.Inf(1))
		for _, i := range shuffled(rng, n) {
			g.AddNode(simple.Node(im.real(int64(i + 1))))
		}
		for _, i := range shuffled(rng, len(edges)) {
			e := edges[i]
			f, t := e[0], e[1]
			if rng.Intn(2) == 0 {
				f, t = t, f
			}
			g.SetWeightedEdge(simple.WeightedEdge{F: simple.Node(im.real(f)), T: simple.Node(im.real(t)), W: wt(e)})
		}
		return g
	case "simple.UndirectedGraph":
		g := simple.NewUndirectedGraph()
		for _, i := range shuffled(rng, n) {
			g.AddNode(simple.Node(im.real(int64(i + 1))))
		}
		for _, i := range shuffled(rng, len(edges)) {
			e := edges[i]
			f, t := e[0], e[1]
			if rng.Intn(2) == 0 {
				f, t = t, f
			}
			g.SetEdge(simple.Edge{F: simple.Node(im.real(f)), T: simple.Node(im.real(t))})
		}
		return g
	case "multi.UndirectedGraph":
		g := multi.NewUndirectedGraph()
		for _, i := range shuffled(rng, n) {
			g.AddNode(multi.Node(im.real(int64(i + 1))))
		}
		for _, i := range shuffled(rng, len(edges)) {
			e := edges[i]
			for k := 0; k < 1+rng.Intn(2); k++ {
				f, t := e[0], e[1]
				if rng.Intn(2) == 0 {
					f, t = t, f
				}
				g.SetLine(g.NewLine(multi.Node(im.real(f)), multi.Node(im.real(t))))
			}
		}
		return g
	}
	panic("unknown undirected kind " + kind)
}

// ---- projections -----------------------------------------------------------

// ids projects a node slice to model ids (nil node -> 0).
func ids(ns []graph.Node, im *idmap) []int64 {
	out := make([]int64, len(ns))
	for i, n := range ns {
		if n == nil {
			out[i] = 0
			continue
		}
		out[i] = im.model(n.ID())
	}
	return out
}

func idsOfSets(nss [][]graph.Node, im *idmap) [][]int64 {
	out := make([][]int64, len(nss))
	for i, ns := range nss {
		out[i] = ids(ns, im)
	}
	return out
}

func sorted(s []int64) []int64 {
	c := append([]int64{}, s...)
	sort.Slice(c, func(i, j int) bool { return c[i] < c[j] })
	return c
}

// setKey is the canonical text of a set of ints given as a list (duplicates are kept,
// so a list with a repeated element never equals a set).
func setKey(s []int64) string { return fmt.Sprint(sorted(s)) }

// famKey is the canonical text of a family (bag) of sets.
func famKey(f [][]int64) string {
	k := make([]string, len(f))
	for i, s := range f {
		k[i] = setKey(s)
	}
	sort.Strings(k)
	return strings.Join(k, ";")
}

// seqFamKey is the canonical text of a bag of sequences.
func seqFamKey(f [][]int64) string {
	k := make([]string, len(f))
	for i, s := range f {
		k[i] = fmt.Sprint(s)
	}
	sort.Strings(k)
	return strings.Join(k, ";")
}

// pairKey is the canonical text of a bag of pairs.
func pairKey(p [][2]int64) string {
	k := make([]string, len(p))
	for i, s := range p {
		k[i] = fmt.Sprint(s[0], ",", s[1])
	}
	sort.Strings(k)
	return strings.Join(k, ";")
}

// rotateToLeast drops a repeated closing node and rotates the cycle so that its least
// model id comes first (the specification's representative of a cycle up to rotation).
func rotateToLeast(c []int64) []int64 {
	if len(c) > 1 && c[0] == c[len(c)-1] {
		c = c[:len(c)-1]
	}
	if len(c) == 0 {
		return c
	}
	m := 0
	for i := range c {
		if c[i] < c[m] {
			m = i
		}
	}
	out := make([]int64, 0, len(c))
	out = append(out, c[m:]...)
	out = append(out, c[:m]...)
	return out
}

func openCycle(c []int64) []int64 {
	if len(c) > 1 && c[0] == c[len(c)-1] {
		return c[:len(c)-1]
	}
	return c
}

func parseArgs(args []string) map[string]string {
	m := map[string]string{}
	for _, a := range args {
		if i := strings.IndexByte(a, '='); i > 0 {
			m[a[:i]] = a[i+1:]
		}
	}
	return m
}

func atoi(s string, def int) int {
	if s == "" {
		return def
	}
	var v int
	if _, err := fmt.Sscan(s, &v); err != nil {
		return def
	}
	return v
}
