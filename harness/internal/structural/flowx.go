package structural

// Replay of the "flow" (control flow intervals), "walk" (topo.IsPathIn) and "equal" (topo.Equal) records of
// StructuralGen.tla.  No graph mathematics here: the graph the specification enumerated is built in real
// containers, the routine is called, every query method of the returned objects is evaluated for all ids and
// the answers are compared with the sets TLC printed.

import (
	"encoding/json"
	"fmt"
	"math/rand"
	"sort"
	"strings"

	"gonum.org/v1/gonum/graph"
	"gonum.org/v1/gonum/graph/flow"
	"gonum.org/v1/gonum/graph/topo"

	"gonum.org/v1/gonum/verifharness/internal/core"
)

type ivExp struct {
	H     int64      `json:"h"`
	Nodes []int64    `json:"nodes"`
	Inner [][2]int64 `json:"inner"`
}

type flowRoot struct {
	R    int64      `json:"r"`
	Ivs  []ivExp    `json:"ivs"`
	Dg   [][2]int64 `json:"dg"`
	Tags []string   `json:"tags"`
}

type flowCase struct {
	K     string     `json:"k"`
	N     int        `json:"n"`
	E     [][2]int64 `json:"E"`
	Roots []flowRoot `json:"roots"`
}

func drainIDs(it graph.Nodes) []int64 {
	out := []int64{}
	if it == nil {
		return append(out, -999)
	}
	n := it.Len()
	for it.Next() {
		out = append(out, it.Node().ID())
		if len(out) > 10000 {
			break
		}
	}
	if n >= 0 && n != len(out) {
		out = append(out, -998) // Len() disagreed with the number of items handed out
	}
	return out
}

// classSuffix names the class of the input in a failure signature: ":<tag>" when the specification put the
// input into the class (IvTags of Structural.tla) that this kind of failure belongs to, "" otherwise - so a
// known-findings entry can be confined to one class of inputs and the same failure elsewhere keeps a bare signature.
func classSuffix(tags []string, tag string) string {
	for _, t := range tags {
		if t == tag {
			return ":" + tag
		}
	}
	return ""
}

// dirGraphQueries is the query contract shared by flow.Interval and flow.IntervalGraph (both are graph.Directed).
type dirGraphQueries interface {
	Node(int64) graph.Node
	Nodes() graph.Nodes
	From(int64) graph.Nodes
	To(int64) graph.Nodes
	Edge(uid, vid int64) graph.Edge
	HasEdgeBetween(xid, yid int64) bool
	HasEdgeFromTo(uid, vid int64) bool
}

// checkQueries evaluates every query of q for the ids in universe and compares with the node set and the arc
// set the specification printed (both given in the id space of q); proj maps an id of q to the name used in
// messages.  It returns descriptions of the disagreements.
func checkQueries(q dirGraphQueries, universe []int64, nodes map[int64]bool, arcs map[[2]int64]bool, proj func(int64) int64) []string {
	var bad []string
	say := func(f string, a ...any) {
		if len(bad) < 6 {
			bad = append(bad, fmt.Sprintf(f, a...))
		}
	}
	got := drainIDs(q.Nodes())
	want := []int64{}
	for id := range nodes {
		want = append(want, id)
	}
	if setKey(got) != setKey(want) {
		say("Nodes() = %v, spec %v", projAll(got, proj), projAll(want, proj))
	}
	for _, u := range universe {
		nd := q.Node(u)
		if (nd != nil) != nodes[u] || (nd != nil && nd.ID() != u) {
			say("Node(%d) = %v, spec: node present = %v", proj(u), nd, nodes[u])
		}
		var wf, wt []int64
		for a := range arcs {
			if a[0] == u {
				wf = append(wf, a[1])
			}
			if a[1] == u {
				wt = append(wt, a[0])
			}
		}
		if g := drainIDs(q.From(u)); setKey(g) != setKey(wf) {
			say("From(%d) = %v, spec %v", proj(u), projAll(g, proj), projAll(wf, proj))
		}
		if g := drainIDs(q.To(u)); setKey(g) != setKey(wt) {
			say("To(%d) = %v, spec %v", proj(u), projAll(g, proj), projAll(wt, proj))
		}
		for _, v := range universe {
			has := arcs[[2]int64{u, v}]
			e := q.Edge(u, v)
			if (e != nil) != has {
				say("Edge(%d,%d) non-nil = %v, spec %v", proj(u), proj(v), e != nil, has)
			} else if e != nil && (e.From() == nil || e.To() == nil || e.From().ID() != u || e.To().ID() != v) {
				say("Edge(%d,%d) has ends (%v,%v)", proj(u), proj(v), e.From(), e.To())
			}
			if g := q.HasEdgeFromTo(u, v); g != has {
				say("HasEdgeFromTo(%d,%d) = %v, spec %v", proj(u), proj(v), g, has)
			}
			if g, w := q.HasEdgeBetween(u, v), has || arcs[[2]int64{v, u}]; g != w {
				say("HasEdgeBetween(%d,%d) = %v, spec %v", proj(u), proj(v), g, w)
			}
		}
	}
	return bad
}

func projAll(xs []int64, proj func(int64) int64) []int64 {
	out := make([]int64, len(xs))
	for i, x := range xs {
		out[i] = proj(x)
	}
	return sorted(out)
}

func replayFlow(line []byte, f *failer, maps int, seed int64, sum *core.Summary) error {
	var c flowCase
	if err := json.Unmarshal(line, &c); err != nil {
		return err
	}
	for mi := 0; mi < maps; mi++ {
		im := mkMap(c.N, mi, seed)
		for ki, kind := range dirKinds {
			rng := rand.New(rand.NewSource(seed*47 + int64(mi*7+ki)))
			g := buildDir(kind, c.N, c.E, im, rng)
			for _, ro := range c.Roots {
				f.where = fmt.Sprintf("%s ids=%s root=%d", kind, im.name, ro.R)
				sum.Cases++
				if len(ro.Ivs) > 1 {
					sum.Nontrivial++
				}
				var ig flow.IntervalGraph
				oc := core.CallTimeout(watchdog, func() { ig = flow.Intervals(g, im.real(ro.R)) })
				switch {
				case oc.Hung:
					f.fail("flow.Intervals", "hang", "%s", oc.Text)
					continue
				case oc.Runtime:
					f.fail("flow.Intervals", "runtime-panic"+classSuffix(ro.Tags, "pending"), "%s; spec: intervals %v", oc.Text, ro.Ivs)
					continue
				case oc.Panicked:
					f.fail("flow.Intervals", "panic", "%s", oc.Text)
					continue
				}
				oc = core.CallTimeout(watchdog, func() { checkIntervals(&ig, &c, &ro, im, f) })
				if oc.Panicked || oc.Hung {
					f.fail("flow.Intervals", "query-panic", "a query method of the result panicked: %s", oc.Text)
				}
			}
		}
	}
	return nil
}

func checkIntervals(ig *flow.IntervalGraph, c *flowCase, ro *flowRoot, im *idmap, f *failer) {
	part := "partition" + classSuffix(ro.Tags, "reentry")
	// the family of intervals: (header, node set) - ids of the intervals are the implementation's
	exp := map[int64]ivExp{}
	var wantFam, gotFam []string
	for _, iv := range ro.Ivs {
		exp[iv.H] = iv
		wantFam = append(wantFam, fmt.Sprint(iv.H, setKey(iv.Nodes)))
	}
	hdrOf := map[int64]int64{} // interval id -> model id of its header
	dup := false
	for id, iv := range ig.Intervals {
		if iv == nil || iv.ID() != id || iv.Head() == nil {
			f.fail("flow.Intervals", part, "Intervals[%d] = %v (ID or Head inconsistent)", id, iv)
			return
		}
		h := im.model(iv.Head().ID())
		for _, seen := range hdrOf {
			if seen == h {
				dup = true
			}
		}
		hdrOf[id] = h
		var ns []int64
		for _, r := range drainIDs(iv.Nodes()) {
			ns = append(ns, im.model(r))
		}
		gotFam = append(gotFam, fmt.Sprint(h, setKey(ns)))
	}
	sort.Strings(wantFam)
	sort.Strings(gotFam)
	if dup || strings.Join(gotFam, ";") != strings.Join(wantFam, ";") {
		f.fail("flow.Intervals", part, "intervals (header [nodes]) = %v, definition gives %v", gotFam, wantFam)
		return
	}
	if ig.Head() == nil || im.model(ig.Head().ID()) != ro.R {
		f.fail("flow.IntervalGraph", "head", "Head() = %v, entry node is %d", ig.Head(), ro.R)
	}
	// every interval as a graph: the subgraph of g induced by its nodes
	universe := make([]int64, 0, c.N+1)
	for m := 1; m <= c.N+1; m++ { // n+1: no node of the graph
		universe = append(universe, im.real(int64(m)))
	}
	for id, iv := range ig.Intervals {
		e := exp[hdrOf[id]]
		nodes := map[int64]bool{}
		for _, m := range e.Nodes {
			nodes[im.real(m)] = true
		}
		arcs := map[[2]int64]bool{}
		for _, a := range e.Inner {
			arcs[[2]int64{im.real(a[0]), im.real(a[1])}] = true
		}
		if bad := checkQueries(iv, universe, nodes, arcs, im.model); len(bad) > 0 {
			f.fail("flow.Interval", "queries", "interval with header %d: %s", hdrOf[id], strings.Join(bad, "; "))
		}
	}
	// the derived graph over the interval ids
	idOf := map[int64]int64{}
	nodes := map[int64]bool{}
	var ids []int64
	for id, h := range hdrOf {
		idOf[h] = id
		nodes[id] = true
		ids = append(ids, id)
	}
	free := int64(len(ids)) // an id that names no interval
	for nodes[free] {
		free++
	}
	ids = append(ids, free)
	arcs := map[[2]int64]bool{}
	for _, d := range ro.Dg {
		arcs[[2]int64{idOf[d[0]], idOf[d[1]]}] = true
	}
	proj := func(id int64) int64 {
		if h, ok := hdrOf[id]; ok {
			return h
		}
		return -id - 1000
	}
	if bad := checkQueries(ig, ids, nodes, arcs, proj); len(bad) > 0 {
		f.fail("flow.IntervalGraph", "queries"+classSuffix(ro.Tags, "fan"), "derived graph (intervals named by their headers): %s", strings.Join(bad, "; "))
	}
	// the nodes of the derived graph are the intervals themselves
	it := ig.Nodes()
	for it != nil && it.Next() {
		if iv, ok := it.Node().(*flow.Interval); !ok || ig.Intervals[iv.ID()] != iv {
			f.fail("flow.IntervalGraph", "nodes", "Nodes() hands out %T %v, not the interval held under that id", it.Node(), it.Node())
			break
		}
	}
}

// ---- topo.IsPathIn --------------------------------------------------------------------------------------------

type walkCase struct {
	K      string     `json:"k"`
	N      int        `json:"n"`
	Und    bool       `json:"und"`
	E      [][2]int64 `json:"E"`
	MaxLen int        `json:"maxlen"`
	Yes    [][]int64  `json:"yes"`
}

func replayWalk(line []byte, f *failer, maps int, seed int64, sum *core.Summary) error {
	var c walkCase
	if err := json.Unmarshal(line, &c); err != nil {
		return err
	}
	yes := map[string]bool{}
	for _, p := range c.Yes {
		yes[fmt.Sprint(p)] = true
	}
	kinds := dirKinds
	if c.Und {
		kinds = undKinds
	}
	for mi := 0; mi < maps; mi++ {
		im := mkMap(c.N, mi, seed)
		for ki, kind := range kinds {
			rng := rand.New(rand.NewSource(seed*53 + int64(mi*7+ki)))
			var g graph.Graph
			if c.Und {
				g = buildUnd(kind, c.N, c.E, nil, im, rng)
			} else {
				g = buildDir(kind, c.N, c.E, im, rng)
			}
			f.where = kind + " ids=" + im.name
			sum.Cases++
			if len(c.E) > 0 {
				sum.Nontrivial++
			}
			// every node sequence over the model ids 1..n+1 up to the printed length (an enumeration, not a judgement)
			seq := []int64{}
			var rec func()
			calls := 0
			rec = func() {
				path := make([]graph.Node, len(seq))
				for i, m := range seq {
					path[i] = plainNode(im.real(m))
				}
				var got bool
				oc := core.Call(func() { got = topo.IsPathIn(g, path) })
				calls++
				if oc.Panicked {
					f.fail("IsPathIn", "panic", "path %v: %s", seq, oc.Text)
				} else if want := yes[fmt.Sprint(seq)]; got != want {
					f.fail("IsPathIn", "answer", "IsPathIn(%v) = %v, definition %v (edges %v, undirected=%v)", seq, got, want, c.E, c.Und)
				}
				if len(seq) == c.MaxLen {
					return
				}
				for m := int64(1); m <= int64(c.N+1); m++ {
					seq = append(seq, m)
					rec()
					seq = seq[:len(seq)-1]
				}
			}
			rec()
			sum.Count("ispathin_calls", calls)
		}
	}
	return nil
}

type plainNode int64

func (n plainNode) ID() int64 { return int64(n) }

// ---- topo.Equal -----------------------------------------------------------------------------------------------

type equalCase struct {
	K      string     `json:"k"`
	NModel int        `json:"nmodel"`
	Va     []int64    `json:"va"`
	AUnd   bool       `json:"aund"`
	Ea     [][2]int64 `json:"ea"`
	Vb     []int64    `json:"vb"`
	BUnd   bool       `json:"bund"`
	Eb     [][2]int64 `json:"eb"`
	Equal  bool       `json:"equal"`
}

func replayEqual(line []byte, f *failer, maps int, seed int64, sum *core.Summary) error {
	var c equalCase
	if err := json.Unmarshal(line, &c); err != nil {
		return err
	}
	for mi := 0; mi < maps; mi++ {
		im := mkMap(c.NModel, mi, seed) // ONE id map for both graphs: equality is about the ids
		for ki := 0; ki < 3; ki++ {
			rng := rand.New(rand.NewSource(seed*59 + int64(mi*7+ki)))
			a, an := buildOn(c.Va, c.Ea, c.AUnd, ki, im, rng)
			b, bn := buildOn(c.Vb, c.Eb, c.BUnd, (ki+mi+1)%3, im, rng)
			f.where = fmt.Sprintf("a=%s b=%s ids=%s", an, bn, im.name)
			sum.Cases++
			if len(c.Ea)+len(c.Eb) > 0 {
				sum.Nontrivial++
			}
			var got bool
			oc := core.Call(func() { got = topo.Equal(a, b) })
			if oc.Panicked {
				f.fail("Equal", "panic", "%s", oc.Text)
			} else if got != c.Equal {
				f.fail("Equal", "answer", "Equal = %v, definition %v: a nodes %v edges %v (undirected=%v), b nodes %v edges %v (undirected=%v)",
					got, c.Equal, c.Va, c.Ea, c.AUnd, c.Vb, c.Eb, c.BUnd)
			}
		}
	}
	return nil
}

// buildOn builds the graph on the node subset vs (model ids) in the which-th container kind of its family.
func buildOn(vs []int64, es [][2]int64, und bool, which int, im *idmap, rng *rand.Rand) (graph.Graph, string) {
	// the containers are built over ALL model nodes 1..max and the nodes outside vs removed again, so that the
	// node set is an arbitrary subset (the builders of common.go take node counts)
	max := 0
	in := map[int64]bool{}
	for _, v := range vs {
		in[v] = true
		if int(v) > max {
			max = int(v)
		}
	}
	var g graph.Graph
	var name string
	if und {
		name = undKinds[which%len(undKinds)]
		g = buildUnd(name, max, es, nil, im, rng)
	} else {
		name = dirKinds[which%len(dirKinds)]
		g = buildDir(name, max, es, im, rng)
	}
	for m := 1; m <= max; m++ {
		if !in[int64(m)] {
			g.(graph.NodeRemover).RemoveNode(im.real(int64(m)))
		}
	}
	return g, name
}
