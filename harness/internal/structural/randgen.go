package structural

// Recorder for the random generators of graph/graphs/gen (record mode "rgen").  Every case was printed by
// RandGen.tla (parameters, kind of destination, what the destination holds before, kind of random source, for
// Gnp the variates of a scripted source).  The harness makes the call on a real container behind a wrapper that
// writes down the AddNode and SetEdge / SetLine calls, repeats it on a fresh container with an identically
// seeded source, and writes case + outcome as one event; RandGenTrace.tla judges the events.  Nothing is judged
// here.

import (
	"bufio"
	"encoding/json"
	"fmt"
	"math"
	"math/big"
	"math/rand/v2"
	"os"
	"sort"
	"strings"

	"gonum.org/v1/gonum/graph"
	"gonum.org/v1/gonum/graph/graphs/gen"
	"gonum.org/v1/gonum/graph/multi"
	"gonum.org/v1/gonum/graph/simple"

	"gonum.org/v1/gonum/verifharness/internal/core"
)

type rgCase struct {
	K      string     `json:"k"`
	Gen    string     `json:"gen"`
	Dst    string     `json:"dst"`
	N      int        `json:"n"`
	M      int        `json:"m"`
	D      int        `json:"d"`
	Q      int        `json:"q"`
	R      int        `json:"r"`
	Dims   []int      `json:"dims"`
	Pn     int64      `json:"pn"`
	Pd     int64      `json:"pd"`
	Dn     int64      `json:"dn"`
	Dd     int64      `json:"dd"`
	An     int64      `json:"an"`
	Ad     int64      `json:"ad"`
	Sn     int64      `json:"sn"`
	Sd     int64      `json:"sd"`
	Src    string     `json:"src"`
	Salt   int        `json:"salt"`
	Skips  []int      `json:"skips"`
	Skips2 []int      `json:"skips2"`
	Us     [][2]int64 `json:"us"`
	Pre    string     `json:"pre"`
}

type rgEvent struct {
	rgCase
	New    []int64    `json:"new"`
	Calls  [][2]int64 `json:"calls"`
	New2   []int64    `json:"new2"`
	Calls2 [][2]int64 `json:"calls2"`
	PostN  []int64    `json:"postn"`
	PostE  [][2]int64 `json:"poste"`
	Err    bool       `json:"err"`
	ErrTxt string     `json:"errtext"`
	Panic  string     `json:"panic"`
	P1     []int64    `json:"p1"`
	P2     []int64    `json:"p2"`
	Used   int        `json:"used"`
	ID     int        `json:"id"`
}

// rgScript is a math/rand/v2 Source that plays back values; rand.Rand.Float64 is
// float64(src.Uint64()<<11>>11) / (1<<53), so the value num*2^53/den yields the variate num/den exactly
// (den a power of two <= 2^53).
type rgScript struct {
	q    []uint64
	used int
}

type rgScriptExhausted struct{}

func (s *rgScript) Uint64() uint64 {
	if s.used >= len(s.q) {
		panic(rgScriptExhausted{})
	}
	v := s.q[s.used]
	s.used++
	return v
}

var rgTwo53 = new(big.Int).Lsh(big.NewInt(1), 53)

func rgVariate(num, den int64) uint64 {
	k := new(big.Int).Mul(big.NewInt(num), rgTwo53)
	k.Quo(k, big.NewInt(den))
	return k.Uint64()
}

// callLog is what the recording destinations write down.
type callLog struct {
	added []int64
	calls [][2]int64
}

type rgUnd struct {
	*simple.UndirectedGraph
	log *callLog
}

func (g rgUnd) AddNode(n graph.Node) { g.log.added = append(g.log.added, n.ID()); g.UndirectedGraph.AddNode(n) }
func (g rgUnd) SetEdge(e graph.Edge) {
	g.log.calls = append(g.log.calls, [2]int64{e.From().ID(), e.To().ID()})
	g.UndirectedGraph.SetEdge(e)
}

type rgDir struct {
	*simple.DirectedGraph
	log *callLog
}

func (g rgDir) AddNode(n graph.Node) { g.log.added = append(g.log.added, n.ID()); g.DirectedGraph.AddNode(n) }
func (g rgDir) SetEdge(e graph.Edge) {
	g.log.calls = append(g.log.calls, [2]int64{e.From().ID(), e.To().ID()})
	g.DirectedGraph.SetEdge(e)
}

type rgMUnd struct {
	*multi.UndirectedGraph
	log *callLog
}

func (g rgMUnd) AddNode(n graph.Node) { g.log.added = append(g.log.added, n.ID()); g.UndirectedGraph.AddNode(n) }
func (g rgMUnd) SetLine(l graph.Line) {
	g.log.calls = append(g.log.calls, [2]int64{l.From().ID(), l.To().ID()})
	g.UndirectedGraph.SetLine(l)
}

type rgMDir struct {
	*multi.DirectedGraph
	log *callLog
}

func (g rgMDir) AddNode(n graph.Node) { g.log.added = append(g.log.added, n.ID()); g.DirectedGraph.AddNode(n) }
func (g rgMDir) SetLine(l graph.Line) {
	g.log.calls = append(g.log.calls, [2]int64{l.From().ID(), l.To().ID()})
	g.DirectedGraph.SetLine(l)
}

const rgPre1, rgPre2 = 1000, 1001 // real ids of the nodes a pre-populated destination holds (event names 101, 102)

type rgRun struct {
	new    []int64
	calls  [][2]int64
	postN  []int64
	postE  [][2]int64
	err    error
	panic  string
	p1, p2 []int64
	used   int
}

func ratF(n, d int64) float64 {
	if d == 0 {
		return math.NaN()
	}
	return float64(n) / float64(d)
}

// rgOnce makes the call of the case once on a fresh destination.
func rgOnce(c *rgCase, seed int64, id int) rgRun {
	log := &callLog{}
	var (
		und  *simple.UndirectedGraph
		dir  *simple.DirectedGraph
		mund *multi.UndirectedGraph
		mdir *multi.DirectedGraph
	)
	// the destination and what it holds before the call (put there directly, not through the recording wrapper)
	pre := func(addNode func(graph.Node), join func(u, v int64)) {
		switch c.Pre {
		case "iso":
			addNode(simple.Node(rgPre1))
		case "edge":
			addNode(simple.Node(rgPre1))
			addNode(simple.Node(rgPre2))
			join(rgPre1, rgPre2)
		}
	}
	switch c.Dst {
	case "und":
		und = simple.NewUndirectedGraph()
		pre(und.AddNode, func(u, v int64) { und.SetEdge(simple.Edge{F: simple.Node(u), T: simple.Node(v)}) })
	case "dir":
		dir = simple.NewDirectedGraph()
		pre(dir.AddNode, func(u, v int64) { dir.SetEdge(simple.Edge{F: simple.Node(u), T: simple.Node(v)}) })
	case "mund":
		mund = multi.NewUndirectedGraph()
		pre(func(n graph.Node) { mund.AddNode(multi.Node(n.ID())) }, func(u, v int64) { mund.SetLine(mund.NewLine(multi.Node(u), multi.Node(v))) })
	case "mdir":
		mdir = multi.NewDirectedGraph()
		pre(func(n graph.Node) { mdir.AddNode(multi.Node(n.ID())) }, func(u, v int64) { mdir.SetLine(mdir.NewLine(multi.Node(u), multi.Node(v))) })
	}
	var src rand.Source
	var sc *rgScript
	switch c.Src {
	case "pcg":
		src = rand.NewPCG(uint64(seed)*1000+uint64(c.Salt), uint64(id))
	case "script":
		sc = &rgScript{}
		for _, u := range c.Us {
			sc.q = append(sc.q, rgVariate(u[0], u[1]))
		}
		src = sc
	}
	p := ratF(c.Pn, c.Pd)
	var run rgRun
	var p1, p2 []graph.Node
	oc := core.CallTimeout(watchdog, func() {
		switch c.Gen {
		case "Gnp":
			if c.Dst == "und" {
				run.err = gen.Gnp(rgUnd{und, log}, c.N, p, src)
			} else {
				run.err = gen.Gnp(rgDir{dir, log}, c.N, p, src)
			}
		case "Gnm":
			if c.Dst == "und" {
				run.err = gen.Gnm(rgUnd{und, log}, c.N, c.M, src)
			} else {
				run.err = gen.Gnm(rgDir{dir, log}, c.N, c.M, src)
			}
		case "SmallWorldsBB":
			if c.Dst == "und" {
				run.err = gen.SmallWorldsBB(rgUnd{und, log}, c.N, c.D, p, src)
			} else {
				run.err = gen.SmallWorldsBB(rgDir{dir, log}, c.N, c.D, p, src)
			}
		case "PowerLaw":
			if c.Dst == "mund" {
				run.err = gen.PowerLaw(rgMUnd{mund, log}, c.N, c.D, src)
			} else {
				run.err = gen.PowerLaw(rgMDir{mdir, log}, c.N, c.D, src)
			}
		case "BipartitePowerLaw":
			if c.Dst == "mund" {
				p1, p2, run.err = gen.BipartitePowerLaw(rgMUnd{mund, log}, c.N, c.D, src)
			} else {
				p1, p2, run.err = gen.BipartitePowerLaw(rgMDir{mdir, log}, c.N, c.D, src)
			}
		case "Duplication":
			run.err = gen.Duplication(rgUnd{und, log}, c.N, ratF(c.Dn, c.Dd), ratF(c.An, c.Ad), ratF(c.Sn, c.Sd), src)
		case "TunableClusteringScaleFree":
			run.err = gen.TunableClusteringScaleFree(rgUnd{und, log}, c.N, c.M, p, src)
		case "PreferentialAttachment":
			run.err = gen.PreferentialAttachment(rgUnd{und, log}, c.N, c.M, src)
		case "NavigableSmallWorld":
			if c.Dst == "und" {
				run.err = gen.NavigableSmallWorld(rgUnd{und, log}, c.Dims, c.D, c.Q, float64(c.R), src)
			} else {
				run.err = gen.NavigableSmallWorld(rgDir{dir, log}, c.Dims, c.D, c.Q, float64(c.R), src)
			}
		default:
			panic("harness: unknown generator " + c.Gen)
		}
	})
	switch {
	case oc.Hung:
		run.panic = "hang"
	case oc.Runtime:
		run.panic = "runtime: " + oc.Text
	case oc.Panicked:
		run.panic = "panic: " + oc.Text
	}
	if len(run.panic) > 160 {
		run.panic = run.panic[:160]
	}
	if sc != nil {
		run.used = sc.used
	}
	// names: the k-th node handed to AddNode is k, the nodes put there before are 101 / 102; PreferentialAttachment
	// names its nodes itself (ids 0 .. n-1): id i is i + 1
	name := map[int64]int64{rgPre1: 101, rgPre2: 102}
	direct := c.Gen == "PreferentialAttachment"
	run.new = []int64{}
	for _, r := range log.added {
		if _, ok := name[r]; !ok && !direct {
			name[r] = int64(len(run.new) + 1)
			run.new = append(run.new, name[r])
		}
	}
	nm := func(r int64) int64 {
		if direct {
			return r + 1
		}
		if k, ok := name[r]; ok {
			return k
		}
		return -1
	}
	run.calls = [][2]int64{}
	for _, cl := range log.calls {
		run.calls = append(run.calls, [2]int64{nm(cl[0]), nm(cl[1])})
	}
	run.postN, run.postE = []int64{}, [][2]int64{}
	var g graph.Graph
	switch c.Dst {
	case "und":
		g = und
	case "dir":
		g = dir
	case "mund":
		g = mund
	case "mdir":
		g = mdir
	}
	if run.panic == "" {
		core.Call(func() {
			for _, n := range graph.NodesOf(g.Nodes()) {
				run.postN = append(run.postN, nm(n.ID()))
			}
			switch gg := g.(type) {
			case interface{ Edges() graph.Edges }:
				it := gg.Edges()
				for it.Next() {
					e := it.Edge()
					if ls, ok := e.(graph.Lines); ok {
						for ls.Next() {
							run.postE = append(run.postE, [2]int64{nm(ls.Line().From().ID()), nm(ls.Line().To().ID())})
						}
						continue
					}
					run.postE = append(run.postE, [2]int64{nm(e.From().ID()), nm(e.To().ID())})
				}
			}
		})
	}
	sort.Slice(run.postN, func(i, j int) bool { return run.postN[i] < run.postN[j] })
	if direct {
		run.new = append(run.new, run.postN...)
	}
	run.p1, run.p2 = []int64{}, []int64{}
	for _, n := range p1 {
		run.p1 = append(run.p1, nm(n.ID()))
	}
	for _, n := range p2 {
		run.p2 = append(run.p2, nm(n.ID()))
	}
	return run
}

// recordRgen: args cases=<file>[,<file>...]
func recordRgen(out *core.Out, a map[string]string, seed int64, sum *core.Summary) error {
	id := 0
	for _, fn := range strings.Split(a["cases"], ",") {
		fh, err := os.Open(fn)
		if err != nil {
			return err
		}
		sc := bufio.NewScanner(fh)
		sc.Buffer(make([]byte, 1<<20), 1<<26)
		for sc.Scan() {
			var c rgCase
			if err := json.Unmarshal(sc.Bytes(), &c); err != nil {
				fh.Close()
				return fmt.Errorf("%s: %v", fn, err)
			}
			if c.K != "rg" {
				continue
			}
			id++
			if c.Dims == nil {
				c.Dims = []int{}
			}
			if c.Skips == nil {
				c.Skips = []int{}
			}
			if c.Skips2 == nil {
				c.Skips2 = []int{}
			}
			if c.Us == nil {
				c.Us = [][2]int64{}
			}
			r1 := rgOnce(&c, seed, id)
			r2 := r1
			if c.Src != "nil" {
				r2 = rgOnce(&c, seed, id)
			}
			ev := rgEvent{rgCase: c, New: r1.new, Calls: r1.calls, New2: r2.new, Calls2: r2.calls, PostN: r1.postN, PostE: r1.postE,
				Err: r1.err != nil, Panic: r1.panic, P1: r1.p1, P2: r1.p2, Used: r1.used, ID: id}
			if r1.err != nil {
				ev.ErrTxt = r1.err.Error()
			}
			out.Emit(ev)
			sum.Traces++
			sum.Count("rgen_calls_"+c.Gen, 1)
			if len(r1.calls) > 0 {
				sum.Count("rgen_calls_with_edges", 1)
			}
			if r1.err != nil {
				sum.Count("rgen_calls_returning_error", 1)
			}
			if r1.panic != "" {
				sum.Count("rgen_calls_panicking", 1)
			}
		}
		fh.Close()
		if err := sc.Err(); err != nil {
			return err
		}
	}
	return nil
}
