package spectral

import (
	"encoding/json"
	"strings"

	"gonum.org/v1/gonum/blas/blas64"
	"gonum.org/v1/gonum/lapack"
	"gonum.org/v1/gonum/lapack/lapack64"
	"gonum.org/v1/gonum/mat"

	"gonum.org/v1/gonum/verifharness/internal/core"
)

func init() { families["svd"] = svdFamily }

// svdValues checks the documented order (non-negative, descending, exactly) and the values.
func (k *chk) svdValues(routine string, c *inst, s []float64) {
	mn := mini(c.M, c.N)
	for i := 0; i < mn; i++ {
		if !(s[i] >= 0) {
			k.fail(routine, "order", "singular value s[%d] = %v is not >= 0", i, s[i])
			break
		}
		if i+1 < mn && !(s[i] >= s[i+1]) {
			k.fail(routine, "order", "singular values not descending: s[%d] = %v, s[%d] = %v", i, s[i], i+1, s[i+1])
			break
		}
	}
	for i := 0; i < mn; i++ {
		k.cmpVal(routine, "s", i, s[i], c.Sv[i], 1)
	}
}

// svdVectors compares the singular vector pairs of simple non-zero singular values: u (column r
// of U) and v (row r of V^T) up to ONE common sign.  getU / getV may be nil (job None).
func (k *chk) svdVectors(routine string, c *inst, getU, getV func(r, i int) float64) {
	mn := mini(c.M, c.N)
	for r := 0; r < mn; r++ {
		if len(c.U[r]) == 0 {
			continue
		}
		r := r
		var get []func(i int) float64
		var exp [][]int64
		var dens []int64
		if getU != nil {
			get = append(get, func(i int) float64 { return getU(r, i) })
			exp = append(exp, c.U[r])
			dens = append(dens, c.Uden)
		}
		if getV != nil {
			get = append(get, func(i int) float64 { return getV(r, i) })
			exp = append(exp, c.V[r])
			dens = append(dens, c.Vden)
		}
		if len(get) > 0 {
			k.cmpVecs(routine, "singular vector pair", r, c.Gap[r], get, exp, dens)
		}
	}
}

var svdJobName = map[lapack.SVDJob]string{lapack.SVDAll: "A", lapack.SVDStore: "S", lapack.SVDNone: "N"}

// svdFamily: planted A = U0 S V0^T, every shape, every job combination gonum implements
// (SVDOverwrite is documented as not coded and panics).
func svdFamily(c *inst, raw json.RawMessage, full bool, sum *core.Summary) {
	m, n := c.M, c.N
	mn := mini(m, n)
	k := newChk(sum, raw, c.Tol, c.Den, c.Sce, maxi(m, n))
	k.empty = mn == 0
	// Finding C03-F3: with n == 1 Dgesvd still evaluates a[lda:] (m == 1; dgesvd.go:412,506,686) or
	// vt[ldvt:] (dgesvd.go:591,798) as the operand of a Dlaset on n-1 = 0 rows; with lda / ldvt > 1
	// and a backing slice of the documented minimal length ((m-1)*lda+n resp. (n-1)*ldvt+n = 1;
	// here 2) the slice expression itself dies with a slice-bounds runtime panic.
	k.tagFor = func(text string) string {
		if n == 1 && strings.HasPrefix(text, "runtime error: slice bounds out of range") {
			return ":n1-ld-slice"
		}
		return ""
	}
	count := func() {
		sum.Cases++
		if mn >= 2 {
			sum.Nontrivial++
		}
		if mn > 0 && (m >= (16*n)/10 || n >= (16*m)/10) {
			sum.Count("calls_on_mnthr_shapes", 1)
		}
	}
	jobs := []lapack.SVDJob{lapack.SVDNone, lapack.SVDStore, lapack.SVDAll}
	minw := 1
	if mn > 0 {
		minw = maxi(3*mn+maxi(m, n), 5*mn)
	}
	if want("Dgesvd") {
		for ju, jobU := range jobs {
			for jv, jobVT := range jobs {
				for _, pad := range pads {
					lda := maxi(1, n) + pad
					// u: m x ucols, vt: vrows x n
					ucols, vrows := 0, 0
					ldu, ldvt := 1+pad, 1+pad
					switch jobU {
					case lapack.SVDAll:
						ucols, ldu = m, maxi(1, m)+pad
					case lapack.SVDStore:
						ucols, ldu = mn, maxi(1, mn)+pad
					}
					switch jobVT {
					case lapack.SVDAll:
						vrows, ldvt = n, maxi(1, n)+pad
					case lapack.SVDStore:
						vrows, ldvt = mn, maxi(1, n)+pad
					}
					mk := func() (a, s, u, vt []float64) {
						a = build(c.A, c.Den, c.Sce, m, n, lda, 1)
						s = outVec(mn, 1)
						if ucols > 0 || jobU != lapack.SVDNone {
							u = blank(m, ucols, ldu, 1)
						} else {
							u = canaryVec(2)
						}
						if vrows > 0 || jobVT != lapack.SVDNone {
							vt = blank(vrows, n, ldvt, 1)
						} else {
							vt = canaryVec(2)
						}
						return
					}
					a0, s0, u0, vt0 := mk()
					k.where = desc("Dgesvd query jobU", svdJobName[jobU], "jobVT", svdJobName[jobVT], "m", m, "n", n, "lda", lda, "ldu", ldu, "ldvt", ldvt)
					opt, ok := k.query("Dgesvd", minw, func(work []float64) {
						impl.Dgesvd(jobU, jobVT, m, n, a0, lda, s0, u0, ldu, vt0, ldvt, work, -1)
					}, a0, s0, u0, vt0)
					// the workspace grid; ld*n uses the stride of A and min(m, n): from lwork >= wrkbl + lda*min(m,n)
					// on, the QR-first / LQ-first paths keep the triangular factor with the stride of A
					grid := lworkGrid(minw, opt, ok, lda, mn)
					path, fast := 0, 0
					if pi := 3*ju + jv; pi < len(c.Paths) && len(c.Paths[pi]) == 2 {
						path, fast = c.Paths[pi][0], c.Paths[pi][1]
					}
					for _, routine := range []string{"Dgesvd", "lapack64.Gesvd"} {
						if routine == "lapack64.Gesvd" && (pad != 0 || m == 0 || n == 0) {
							continue // blas64.General needs a positive stride and is exercised at minimal ld only
						}
						for _, lw := range grid {
							lwork := lw.lwork
							if routine == "lapack64.Gesvd" && lw.name != "min" && lw.name != "opt" {
								continue // the wrapper only forwards lwork
							}
							k.where = desc(routine, "jobU", svdJobName[jobU], "jobVT", svdJobName[jobVT], "m", m, "n", n,
								"lda", lda, "ldu", ldu, "ldvt", ldvt, "lwork", lwork, "("+lw.name+")", "path", path, "sce", c.Sce)
							if routine == "Dgesvd" {
								// which (path, workspace class, branch) ran: the path and the length `fast` from which a
								// QR-first path uses its fast variant are the specification's (GesvdPath, GesvdFast);
								// "fast-wide" = lwork >= optimum + lda*min(m,n) >= wrkbl + lda*min(m,n), where the copy of
								// the triangular factor is kept with the stride of A
								br := "-"
								if fast > 0 {
									br = "slow"
									if lwork >= fast {
										br = "fast"
									}
									if ok && lwork >= opt+lda*mn {
										br = "fast-wide"
									}
								}
								gridNote("gesvd_grid", desc("path", path, lw.name, br, "lda+"+desc(pad)))
							}
							a, s, u, vt := mk()
							work := newWork(lwork)
							var res bool
							ran := k.run(routine, func() {
								if routine == "Dgesvd" {
									res = impl.Dgesvd(jobU, jobVT, m, n, a, lda, s, u, ldu, vt, ldvt, work, lwork)
								} else {
									ug := blas64.General{Rows: m, Cols: ucols, Stride: ldu, Data: u}
									vg := blas64.General{Rows: vrows, Cols: n, Stride: ldvt, Data: vt}
									res = lapack64.Gesvd(jobU, jobVT, blas64.General{Rows: m, Cols: n, Stride: lda, Data: a}, ug, vg, s, work, lwork)
								}
							})
							count()
							if !ran {
								continue
							}
							if !res {
								k.fail(routine, "ok", "returned ok = false on a planted matrix")
								continue
							}
							k.cmpPad(routine, "a", a, lda, m, n)
							k.cmpTail(routine, "s", s, mn)
							var getU, getV func(r, i int) float64
							if jobU != lapack.SVDNone {
								k.cmpPad(routine, "u", u, ldu, m, ucols)
								getU = func(r, i int) float64 { return u[i*ldu+r] }
							} else {
								k.cmpTail(routine, "u (not referenced)", u, 0)
							}
							if jobVT != lapack.SVDNone {
								k.cmpPad(routine, "vt", vt, ldvt, vrows, n)
								getV = func(r, i int) float64 { return vt[r*ldvt+i] }
							} else {
								k.cmpTail(routine, "vt (not referenced)", vt, 0)
							}
							k.svdValues(routine, c, s)
							k.svdVectors(routine, c, getU, getV)
							// every column of U and row of V^T (repeated values, SVDAll extras): GenPred!SvdAccept
							k.svdIdentity(routine, c, u, ldu, ucols, vt, ldvt, vrows, s)
						}
					}
				}
			}
		}
	}

	if want("Dgebrd") {
		svdPipeline(k, c, count)
	}

	// ---- mat.SVD --------------------------------------------------------------------------------
	if want("SVD") && m >= 1 && n >= 1 && forcedNB == 0 {
		for _, kind := range []mat.SVDKind{mat.SVDNone, mat.SVDThin, mat.SVDFull, mat.SVDThinU | mat.SVDFullV} {
			k.where = desc("mat.SVD kind", int(kind), "m", m, "n", n, "sce", c.Sce)
			a := mat.NewDense(m, n, build(c.A, c.Den, c.Sce, m, n, n, 0))
			var sv mat.SVD
			var res bool
			var vals []float64
			var ud, vd mat.Dense
			ran := k.run("mat.SVD", func() {
				res = sv.Factorize(a, kind)
				if res {
					vals = sv.Values(nil)
					if kind != mat.SVDNone {
						sv.UTo(&ud)
						sv.VTo(&vd)
					}
				}
			})
			count()
			if !ran {
				continue
			}
			if !res || len(vals) != mn {
				k.fail("mat.SVD", "ok", "Factorize returned %v, %d values", res, len(vals))
				continue
			}
			k.svdValues("mat.SVD", c, vals)
			if kind != mat.SVDNone {
				ur, vr := ud.RawMatrix(), vd.RawMatrix()
				k.svdVectors("mat.SVD", c,
					func(r, i int) float64 { return ur.Data[i*ur.Stride+r] },
					func(r, i int) float64 { return vr.Data[i*vr.Stride+r] })
			}
		}
	}
}
