package spectral

import (
	"encoding/json"
	"math"

	"gonum.org/v1/gonum/blas"
	"gonum.org/v1/gonum/blas/blas64"
	"gonum.org/v1/gonum/lapack"
	"gonum.org/v1/gonum/lapack/lapack64"
	"gonum.org/v1/gonum/mat"

	"gonum.org/v1/gonum/verifharness/internal/core"
)

func init() { families["sym"] = symFamily }

// buildSym lays out the uplo triangle of the symmetric matrix; the other triangle holds a
// canary NaN that no routine may read (it would poison the result) or, where the
// documentation says the triangle is not referenced, write.
func buildSym(c *inst, uplo blas.Uplo, lda int) []float64 {
	a := build(c.A, c.Den, c.Sce, c.N, c.N, lda, 1)
	for i := 0; i < c.N; i++ {
		for j := 0; j < c.N; j++ {
			if (uplo == blas.Upper && j < i) || (uplo == blas.Lower && j > i) {
				a[i*lda+j] = triNaN
			}
		}
	}
	return a
}

func (k *chk) otherTriangle(routine string, a []float64, n, lda int, uplo blas.Uplo) {
	for i := 0; i < n; i++ {
		for j := 0; j < n; j++ {
			if (uplo == blas.Upper && j < i) || (uplo == blas.Lower && j > i) {
				if math.Float64bits(a[i*lda+j]) != math.Float64bits(triNaN) {
					k.fail(routine, "touch", "element [%d][%d] of the unreferenced triangle was written: %v", i, j, a[i*lda+j])
					return
				}
			}
		}
	}
}

// symValues checks the documented order (ascending, exactly) and the values against the exact spectrum.
func (k *chk) symValues(routine string, c *inst, w []float64) {
	for i := 0; i+1 < c.N; i++ {
		if !(w[i] <= w[i+1]) {
			k.fail(routine, "order", "eigenvalues not ascending: w[%d] = %v, w[%d] = %v", i, w[i], i+1, w[i+1])
			break
		}
	}
	for i := 0; i < c.N; i++ {
		k.cmpVal(routine, "w", i, w[i], c.W[i], 1)
	}
}

// symVectors compares the columns of z (row-major, ldz) that belong to simple eigenvalues.
func (k *chk) symVectors(routine string, c *inst, z []float64, ldz int) {
	for r := 0; r < c.N; r++ {
		if len(c.V[r]) == 0 {
			continue
		}
		r := r
		k.cmpVecs(routine, "eigenvector", r, c.Gap[r],
			[]func(i int) float64{func(i int) float64 { return z[i*ldz+r] }}, [][]int64{c.V[r]}, []int64{c.Qden})
	}
}

// symFamily: planted A = Q0 D Q0^T.
func symFamily(c *inst, raw json.RawMessage, full bool, sum *core.Summary) {
	n := c.N
	k := newChk(sum, raw, c.Tol, c.Den, c.Sce, n)
	k.empty = n == 0
	// Finding C03-F2: Dsterf rescales a tiny / huge tridiagonal block through Dlascl with lda = n
	// for an (l x 1) operand (a column-major leftover), which panics with shortA.  It is reached
	// from Dsyev / Syev / EigenSym without vectors when |A| < ~1e-122 (after Dsyev's own scaling
	// to sqrt(smlnum)).  Only this exact panic text in this configuration gets the tag.
	novec := false
	k.tagFor = func(text string) string {
		if novec && c.Sce < 0 && text == "lapack: insufficient length of a" {
			return ":dsterf-dlascl-ld"
		}
		return ""
	}
	count := func() {
		sum.Cases++
		if n >= 3 {
			sum.Nontrivial++
		}
		if forcedNB > 0 && forcedNB < n || n > 32 {
			sum.Count("calls_on_blocked_sizes", 1)
		}
	}
	uplos := []blas.Uplo{blas.Upper, blas.Lower}
	uname := map[blas.Uplo]string{blas.Upper: "U", blas.Lower: "L"}

	// ---- Dsyev and lapack64.Syev -------------------------------------------------------
	if want("Dsyev") {
		for _, jobz := range []lapack.EVJob{lapack.EVNone, lapack.EVCompute} {
			for _, uplo := range uplos {
				for _, pad := range pads {
					lda := maxi(1, n) + pad
					minw := maxi(1, 3*n-1)
					a0 := buildSym(c, uplo, lda)
					w0 := outVec(n, 1)
					k.where = desc("Dsyev query jobz", string(rune(jobz)), "uplo", uname[uplo], "n", n, "lda", lda, "sce", c.Sce)
					opt, ok := k.query("Dsyev", minw, func(work []float64) { impl.Dsyev(jobz, uplo, n, a0, lda, w0, work, -1) }, a0, w0)
					grid := lworkGrid(minw, opt, ok, lda, n)
					for _, routine := range []string{"Dsyev", "lapack64.Syev"} {
						if routine == "lapack64.Syev" && pad != 0 {
							continue
						}
						for _, lw := range grid {
							lwork := lw.lwork
							if routine == "lapack64.Syev" && lw.name != "min" && lw.name != "opt" {
								continue // the wrapper only forwards lwork
							}
							if routine == "Dsyev" {
								gridNote("lwork_grid", desc("Dsyev", lw.name, "lda+"+desc(pad)))
							}
							novec = jobz == lapack.EVNone
							k.where = desc(routine, "jobz", string(rune(jobz)), "uplo", uname[uplo], "n", n, "lda", lda, "lwork", lwork, "("+lw.name+")", "sce", c.Sce)
							a := buildSym(c, uplo, lda)
							w := outVec(n, 1)
							work := newWork(lwork)
							var res bool
							ran := k.run(routine, func() {
								if routine == "Dsyev" {
									res = impl.Dsyev(jobz, uplo, n, a, lda, w, work, lwork)
								} else {
									res = lapack64.Syev(jobz, blas64.Symmetric{N: n, Stride: lda, Data: a, Uplo: uplo}, w, work, lwork)
								}
							})
							count()
							if !ran {
								continue
							}
							if !res {
								k.fail(routine, "ok", "returned ok = false on a planted matrix")
								continue
							}
							k.cmpPad(routine, "a", a, lda, n, n)
							k.cmpTail(routine, "w", w, n)
							k.symValues(routine, c, w)
							if jobz == lapack.EVCompute {
								k.symVectors(routine, c, a, lda)
								// every eigenvector (repeated eigenvalues too): GenPred!SymAccept
								k.symIdentity(routine, c, a, lda, w)
							} else {
								k.otherTriangle(routine, a, n, lda, uplo)
							}
						}
					}
				}
			}
		}
	}

	// ---- the pieces beneath: Dsytrd -> Dsterf ; Dsytrd -> Dorgtr -> Dsteqr ------------------
	// The tridiagonal form itself is not unique to the bit, so the specification judges the
	// composition: eigenvalues of (d, e) by Dsterf / Dsteqr, eigenvectors of A by Dsteqr applied
	// to the Q generated by Dorgtr.  Unscaled instances only (the scaling belongs to Dsyev).
	if want("Dsytrd") && c.Sce == 0 && n >= 1 {
		for _, uplo := range uplos {
			for _, pad := range pads {
				lda := n + pad
				a0 := buildSym(c, uplo, lda)
				d0, e0, tau0 := outVec(n, 1), outVec(n-1, 1), outVec(n-1, 1)
				k.where = desc("Dsytrd query uplo", uname[uplo], "n", n, "lda", lda)
				opt, ok := k.query("Dsytrd", 1, func(work []float64) { impl.Dsytrd(uplo, n, a0, lda, d0, e0, tau0, work, -1) }, a0, d0, e0, tau0)
				for oi, lw := range lworkGrid(1, opt, ok, lda, n) {
					lwork := lw.lwork
					gridNote("lwork_grid", desc("Dsytrd", lw.name, "lda+"+desc(pad)))
					k.where = desc("Dsytrd uplo", uname[uplo], "n", n, "lda", lda, "lwork", lwork, "("+lw.name+")")
					a := buildSym(c, uplo, lda)
					d, e, tau := outVec(n, 1), outVec(n-1, 1), outVec(n-1, 1)
					work := newWork(lwork)
					ran := k.run("Dsytrd", func() { impl.Dsytrd(uplo, n, a, lda, d, e, tau, work, lwork) })
					count()
					if !ran {
						continue
					}
					k.cmpPad("Dsytrd", "a", a, lda, n, n)
					k.otherTriangle("Dsytrd", a, n, lda, uplo)
					k.cmpTail("Dsytrd", "d", d, n)
					k.cmpTail("Dsytrd", "e", e, n-1)
					k.cmpTail("Dsytrd", "tau", tau, n-1)
					// eigenvalues of the tridiagonal matrix = eigenvalues of A
					{
						d2, e2 := cloneF(d), cloneF(e)
						var res bool
						k.where = desc("Dsytrd+Dsterf uplo", uname[uplo], "n", n, "lda", lda, "lwork", lwork)
						if k.run("Dsterf", func() { res = impl.Dsterf(n, d2, e2) }) {
							count()
							if !res {
								k.fail("Dsterf", "ok", "returned ok = false")
							} else {
								k.symValues("Dsytrd+Dsterf", c, d2)
								k.cmpTail("Dsterf", "d", d2, n)
							}
						}
					}
					{
						d2, e2 := cloneF(d), cloneF(e)
						var res bool
						k.where = desc("Dsytrd+Dsteqr(N) uplo", uname[uplo], "n", n, "lda", lda, "lwork", lwork)
						zc := canaryVec(1)
						if k.run("Dsteqr", func() { res = impl.Dsteqr(lapack.EVCompNone, n, d2, e2, zc, 1, nil) }) {
							count()
							if !res {
								k.fail("Dsteqr", "ok", "returned ok = false")
							} else {
								k.symValues("Dsytrd+Dsteqr", c, d2)
								k.cmpTail("Dsteqr", "z (not referenced)", zc, 0)
							}
						}
					}
					// Q from Dorgtr, then eigenvectors of A from Dsteqr(EVOrig)
					minq := maxi(1, n-1)
					k.where = desc("Dorgtr query uplo", uname[uplo], "n", n, "lda", lda)
					optq, okq := k.query("Dorgtr", minq, func(w []float64) { impl.Dorgtr(uplo, n, a, lda, tau, w, -1) }, a, tau)
					for _, lwq := range innerGrid(oi, lworkGrid(minq, optq, okq, lda, n)) {
						lq := lwq.lwork
						gridNote("lwork_grid", desc("Dorgtr", lwq.name, "lda+"+desc(pad)))
						q := cloneF(a)
						// Dorgtr overwrites the whole n x n matrix; clear the canary triangle first is NOT
						// needed: the routine must not read it.
						wq := newWork(lq)
						k.where = desc("Dsytrd+Dorgtr uplo", uname[uplo], "n", n, "lda", lda, "lwork", lwork, "lworkq", lq)
						if !k.run("Dorgtr", func() { impl.Dorgtr(uplo, n, q, lda, tau, wq, lq) }) {
							continue
						}
						count()
						k.cmpPad("Dorgtr", "a", q, lda, n, n)
						d2, e2 := cloneF(d), cloneF(e)
						ws := newWork(maxi(1, 2*n-2))
						var res bool
						k.where = desc("Dsytrd+Dorgtr+Dsteqr(V) uplo", uname[uplo], "n", n, "lda", lda, "lwork", lwork, "lworkq", lq)
						if !k.run("Dsteqr", func() { res = impl.Dsteqr(lapack.EVOrig, n, d2, e2, q, lda, ws) }) {
							continue
						}
						count()
						if !res {
							k.fail("Dsteqr", "ok", "returned ok = false")
							continue
						}
						k.cmpPad("Dsteqr", "z", q, lda, n, n)
						k.symValues("Dsytrd+Dorgtr+Dsteqr", c, d2)
						k.symVectors("Dsytrd+Dorgtr+Dsteqr", c, q, lda)
						k.symIdentity("Dsytrd+Dorgtr+Dsteqr", c, q, lda, d2)
					}
				}
			}
		}
	}

	// ---- mat.EigenSym ------------------------------------------------------------------------
	if want("EigenSym") && n >= 1 && forcedNB == 0 {
		for _, vectors := range []bool{false, true} {
			novec = !vectors
			k.where = desc("mat.EigenSym vectors", vectors, "n", n, "sce", c.Sce)
			data := build(c.A, c.Den, c.Sce, n, n, n, 0)
			s := mat.NewSymDense(n, data)
			var es mat.EigenSym
			var res bool
			var vals []float64
			var ev mat.Dense
			ran := k.run("mat.EigenSym", func() {
				res = es.Factorize(s, vectors)
				if res {
					vals = es.Values(nil)
					if vectors {
						es.VectorsTo(&ev)
					}
				}
			})
			count()
			if !ran {
				continue
			}
			if !res || len(vals) != n {
				k.fail("mat.EigenSym", "ok", "Factorize returned %v, %d values", res, len(vals))
				continue
			}
			k.symValues("mat.EigenSym", c, vals)
			if vectors {
				rm := ev.RawMatrix()
				k.symVectors("mat.EigenSym", c, rm.Data, rm.Stride)
			}
		}
	}
}
