package spectral

import (
	"gonum.org/v1/gonum/lapack"
)

// gevPipeline drives the pieces beneath Dgeev on a planted instance: Dgebal (all four jobs),
// Dgehrd (Hessenberg reduction), Dorghr (Q), Dhseqr (eigenvalues only / Schur form with Z),
// Dtrevc3 (eigenvectors of the Schur form multiplied by Z) and Dgebak (back transformation).
// The Hessenberg and Schur forms are not unique, so the specification judges the compositions:
// the eigenvalues (multiset, pair order rule) and the right / left eigenvectors of A, which are
// defined up to a scalar.
func gevPipeline(k *chk, c *inst, kap int64, count func()) {
	n := c.N
	if n == 0 || c.Sce != 0 {
		return
	}
	jobs := []lapack.BalanceJob{lapack.BalanceNone, lapack.Permute, lapack.Scale, lapack.PermuteScale}
	for ji, job := range jobs {
		for _, pad := range pads {
			if (ji+pad)%2 == 1 && n > 12 {
				continue // large instances: half of the job x ld grid
			}
			lda := n + pad
			ldz := n + pad
			a := build(c.A, c.Den, 0, n, n, lda, 1)
			scale := outVec(n, 0)
			var ilo, ihi int
			k.where = desc("Dgebal job", string(rune(job)), "n", n, "lda", lda)
			if !k.run("Dgebal", func() { ilo, ihi = impl.Dgebal(job, n, a, lda, scale) }) {
				continue
			}
			count()
			k.cmpPad("Dgebal", "a", a, lda, n, n)
			if ilo < 0 || ihi >= n || (ilo > ihi && !(n == 0)) {
				k.fail("Dgebal", "range", "ilo = %d, ihi = %d for n = %d", ilo, ihi, n)
				continue
			}
			if (job == lapack.BalanceNone || job == lapack.Scale) && (ilo != 0 || ihi != n-1) {
				k.fail("Dgebal", "range", "ilo = %d, ihi = %d, documented 0 and n-1 for this job", ilo, ihi)
				continue
			}
			minw := maxi(1, n)
			tau0 := outVec(n-1, 0) // documented: length exactly n-1
			k.where = desc("Dgehrd query n", n, "ilo", ilo, "ihi", ihi, "lda", lda)
			opt, ok := k.query("Dgehrd", minw, func(w []float64) { impl.Dgehrd(n, ilo, ihi, a, lda, tau0, w, -1) }, a, tau0)
			for oi, lwh := range lworkGrid(minw, opt, ok, lda, n) {
				lwork := lwh.lwork
				gridNote("lwork_grid", desc("Dgehrd", lwh.name, "lda+"+desc(pad)))
				h := cloneF(a)
				tau := outVec(n-1, 0)
				k.where = desc("Dgebal+Dgehrd job", string(rune(job)), "n", n, "ilo", ilo, "ihi", ihi, "lda", lda, "lwork", lwork)
				if !k.run("Dgehrd", func() { impl.Dgehrd(n, ilo, ihi, h, lda, tau, newWork(lwork), lwork) }) {
					continue
				}
				count()
				k.cmpPad("Dgehrd", "a", h, lda, n, n)
				// eigenvalues only
				{
					h2 := cloneF(h)
					wr, wi := outVec(n, 0), outVec(n, 0)
					zc := canaryVec(1)
					k.where = desc("Dgebal+Dgehrd+Dhseqr(E,N) query n", n)
					oq, okq := k.query("Dhseqr", minw, func(w []float64) {
						impl.Dhseqr(lapack.EigenvaluesOnly, lapack.SchurNone, n, ilo, ihi, h2, lda, wr, wi, zc, 1, w, -1)
					}, h2, wr, wi, zc)
					hv := lwVariants(minw, oq, okq)
					if oi >= 2 {
						hv = hv[oi%len(hv):][:1] // nested under the Dgehrd grid: one Dhseqr workspace per outer class
					}
					for _, lw := range hv {
						h3 := cloneF(h)
						unc := -1
						k.where = desc("Dgebal+Dgehrd+Dhseqr(E,N) job", string(rune(job)), "n", n, "ilo", ilo, "ihi", ihi, "lda", lda, "lwork", lwork, "lworkh", lw)
						if !k.run("Dhseqr", func() {
							unc = impl.Dhseqr(lapack.EigenvaluesOnly, lapack.SchurNone, n, ilo, ihi, h3, lda, wr, wi, zc, 1, newWork(lw), lw)
						}) {
							continue
						}
						count()
						if unc != 0 {
							k.fail("Dhseqr", "ok", "unconverged = %d", unc)
							continue
						}
						k.cmpPad("Dhseqr", "h", h3, lda, n, n)
						k.cmpTail("Dhseqr", "z (not referenced)", zc, 0)
						k.gevValues("Dgebal+Dgehrd+Dhseqr", c, wr, wi)
					}
				}
				// Q, Schur form, eigenvectors
				mq := maxi(1, ihi-ilo)
				z0 := cloneF(h)
				k.where = desc("Dorghr query n", n, "ilo", ilo, "ihi", ihi)
				oq, okq := k.query("Dorghr", mq, func(w []float64) { impl.Dorghr(n, ilo, ihi, z0, ldz, tau, w, -1) }, z0, tau)
				for _, lwqv := range innerGrid(oi, lworkGrid(mq, oq, okq, ldz, n)) {
					lwq := lwqv.lwork
					gridNote("lwork_grid", desc("Dorghr", lwqv.name, "ldz+"+desc(pad)))
					z := cloneF(h)
					k.where = desc("Dgebal+Dgehrd+Dorghr job", string(rune(job)), "n", n, "ilo", ilo, "ihi", ihi, "lda", lda, "lwork", lwork, "lworkq", lwq)
					if !k.run("Dorghr", func() { impl.Dorghr(n, ilo, ihi, z, ldz, tau, newWork(lwq), lwq) }) {
						continue
					}
					count()
					k.cmpPad("Dorghr", "a", z, ldz, n, n)
					t := cloneF(h)
					wr, wi := outVec(n, 0), outVec(n, 0)
					unc := -1
					lw := minw
					if lwq != mq {
						lw = maxi(minw, 11*n) // a second, larger workspace
					}
					k.where = desc("Dgebal+Dgehrd+Dorghr+Dhseqr(S,V) job", string(rune(job)), "n", n, "ilo", ilo, "ihi", ihi, "lda", lda, "lwork", lwork, lwq, lw)
					if !k.run("Dhseqr", func() {
						unc = impl.Dhseqr(lapack.EigenvaluesAndSchur, lapack.SchurOrig, n, ilo, ihi, t, lda, wr, wi, z, ldz, newWork(lw), lw)
					}) {
						continue
					}
					count()
					if unc != 0 {
						k.fail("Dhseqr", "ok", "unconverged = %d", unc)
						continue
					}
					k.cmpPad("Dhseqr", "h", t, lda, n, n)
					k.cmpPad("Dhseqr", "z", z, ldz, n, n)
					idx := k.gevValues("Dgebal+Dgehrd+Dorghr+Dhseqr", c, wr, wi)
					if idx == nil {
						continue
					}
					// quasi-triangular Schur form: nothing below the first subdiagonal, and the diagonal
					// blocks carry the eigenvalues in the order of (wr, wi)
					for i := 0; i < n; i++ {
						for j := 0; j < i-1; j++ {
							if t[i*lda+j] != 0 {
								k.fail("Dhseqr", "schur-form", "T[%d][%d] = %v below the first subdiagonal", i, j, t[i*lda+j])
								i = n
								break
							}
						}
					}
					for i := 0; i < n; i++ {
						if t[i*lda+i] != wr[i] {
							k.fail("Dhseqr", "schur-form", "T[%d][%d] = %v but wr[%d] = %v", i, i, t[i*lda+i], i, wr[i])
							break
						}
						if i+1 < n && (wi[i] > 0) != (t[(i+1)*lda+i] != 0) {
							k.fail("Dhseqr", "schur-form", "subdiagonal T[%d][%d] = %v but wi[%d] = %v", i+1, i, t[(i+1)*lda+i], i, wi[i])
							break
						}
					}
					// eigenvectors: right = Z*X, left = Z*Y, then back transformation
					for _, side := range []lapack.EVSide{lapack.EVRight, lapack.EVLeft} {
						left := side == lapack.EVLeft
						v := cloneF(z)
						other := canaryVec(1)
						m := -1
						lwt := maxi(1, 3*n)
						k.where = desc("...+Dtrevc3+Dgebak side", string(rune(side)), "job", string(rune(job)), "n", n, "ilo", ilo, "ihi", ihi, "lda", lda, "lwork", lwork, lwq, lw)
						if !k.run("Dtrevc3", func() {
							if left {
								m = impl.Dtrevc3(side, lapack.EVAllMulQ, nil, n, t, lda, v, ldz, other, 1, n, newWork(lwt), lwt)
							} else {
								m = impl.Dtrevc3(side, lapack.EVAllMulQ, nil, n, t, lda, other, 1, v, ldz, n, newWork(lwt), lwt)
							}
						}) {
							continue
						}
						count()
						if m != n {
							k.fail("Dtrevc3", "ok", "returned m = %d, want %d", m, n)
							continue
						}
						k.cmpPad("Dtrevc3", "v", v, ldz, n, n)
						k.cmpTail("Dtrevc3", "unused side (not referenced)", other, 0)
						if !k.run("Dgebak", func() { impl.Dgebak(job, side, n, ilo, ihi, scale, n, v, ldz) }) {
							continue
						}
						count()
						k.cmpPad("Dgebak", "v", v, ldz, n, n)
						for j := 0; j < n; j++ {
							if wi[j] < 0 {
								continue
							}
							e := &c.Ev[idx[j]]
							if e.Mult != 1 || len(e.Vr) == 0 || (e.Im > 0) != (wi[j] != 0) {
								continue
							}
							j := j
							er, ei, what := e.Vr, e.Vi, "right eigenvector"
							if left {
								er, ei, what = e.Ur, e.Ui, "left eigenvector"
							}
							if e.Im > 0 {
								k.gevVector("Dgehrd+Dorghr+Dhseqr+Dtrevc3+Dgebak", what, j, e, kap, er, ei, false,
									func(i int) complex128 { return complex(v[i*ldz+j], v[i*ldz+j+1]) }, false)
							} else {
								k.gevVector("Dgehrd+Dorghr+Dhseqr+Dtrevc3+Dgebak", what, j, e, kap, er, nil, false,
									func(i int) complex128 { return complex(v[i*ldz+j], 0) }, false)
							}
						}
					}
				}
			}
		}
	}
}
