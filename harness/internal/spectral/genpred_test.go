package spectral

import (
	"math"
	"math/big"
	"math/rand"
	"testing"
)

// The dyadic number type must agree with math/big.Rat on every operation the predicates use.
func TestDyAgainstRat(t *testing.T) {
	rnd := rand.New(rand.NewSource(1))
	val := func() float64 {
		switch rnd.Intn(6) {
		case 0:
			return 0
		case 1:
			return float64(rnd.Intn(7) - 3)
		case 2:
			return math.Ldexp(rnd.NormFloat64(), rnd.Intn(200)-100)
		case 3:
			return 0x1p-1074 * float64(rnd.Intn(5))
		}
		return rnd.NormFloat64()
	}
	toRat := func(x *dy) *big.Rat {
		r := new(big.Rat).SetInt(&x.m)
		if x.e >= 0 {
			return r.Mul(r, new(big.Rat).SetInt(new(big.Int).Lsh(big.NewInt(1), uint(x.e))))
		}
		return r.Quo(r, new(big.Rat).SetInt(new(big.Int).Lsh(big.NewInt(1), uint(-x.e))))
	}
	for it := 0; it < 20000; it++ {
		a, b, c := val(), val(), val()
		da, db, dc := new(dy).SetFloat64(a), new(dy).SetFloat64(b), new(dy).SetFloat64(c)
		ra, rb, rc := new(big.Rat).SetFloat64(a), new(big.Rat).SetFloat64(b), new(big.Rat).SetFloat64(c)
		if toRat(da).Cmp(ra) != 0 {
			t.Fatalf("SetFloat64(%v)", a)
		}
		// (a*b + c) - a, |.|, comparison, with aliasing as the predicates use it
		d := new(dy).Mul(da, db)
		d.Add(d, dc)
		d.Sub(d, da)
		r := new(big.Rat).Mul(ra, rb)
		r.Add(r, rc)
		r.Sub(r, ra)
		if toRat(d).Cmp(r) != 0 {
			t.Fatalf("a*b+c-a for %v %v %v: %v vs %v", a, b, c, toRat(d), r)
		}
		d.Abs(d)
		r.Abs(r)
		if toRat(d).Cmp(r) != 0 || d.Cmp(dc) != r.Cmp(rc) || d.Sign() != r.Sign() {
			t.Fatalf("abs / cmp for %v %v %v", a, b, c)
		}
		if f, _ := r.Float64(); f != d.Float64() && !(math.IsInf(f, 0) || f == 0) {
			t.Fatalf("Float64: %v vs %v", f, d.Float64())
		}
	}
}

// The mirror of GenPred!Ident accepts an exact decomposition and rejects a perturbed one in each of its four forms.
func TestIdentForms(t *testing.T) {
	// L, R: 3-4-5 rotations (exactly orthogonal in float64? 0.6 and 0.8 are not dyadic, so use signed permutations)
	l := rFromInt(imat{{0, 1}, {-1, 0}}, 2, 2)
	r := rFromInt(imat{{0, 0, 1}, {1, 0, 0}, {0, -1, 0}}, 3, 3)
	x := rFromInt(imat{{1, 2, 3}, {-2, 0, 1}}, 2, 3)
	y := rMul(rMul(rT(l), x), r)
	tau := dyInt(1)
	tau.e = -40
	for _, c := range []struct{ l, r *rmat }{{l, r}, {nil, r}, {l, nil}, {nil, nil}} {
		if ok, _, form := ident(c.l, x, c.r, y, tau); !ok {
			t.Fatalf("%s rejects the exact product", form)
		}
		y2 := rSub(y, rFromInt(imat{{0, 0, 0}, {0, 1, 0}}, 2, 3))
		if ok, _, form := ident(c.l, x, c.r, y2, tau); ok {
			t.Fatalf("%s accepts a perturbed product", form)
		}
	}
	if ok, _ := orthoOK(r, tau); !ok {
		t.Fatal("OrthoOK rejects a signed permutation")
	}
	if ok, _ := orthoOK(x, tau); ok {
		t.Fatal("OrthoOK accepts a non-square / non-orthogonal matrix")
	}
}
