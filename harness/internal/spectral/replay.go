package spectral

import (
	"encoding/json"
	"fmt"

	"gonum.org/v1/gonum/internal/verifhook"
	"gonum.org/v1/gonum/lapack/gonum"

	"gonum.org/v1/gonum/verifharness/internal/core"
)

var impl = gonum.Implementation{}

// evrec is one distinct eigenvalue of a planted non-symmetric matrix (im >= 0; im > 0 stands
// for the conjugate pair) with its exact right / left eigenvectors when it is simple.
type evrec struct {
	Re   int64   `json:"re"`
	Im   int64   `json:"im"`
	Mult int     `json:"mult"`
	Gap  int64   `json:"gap"`
	Vr   []int64 `json:"vr"`
	Vi   []int64 `json:"vi"`
	Ur   []int64 `json:"ur"`
	Ui   []int64 `json:"ui"`
}

// inst is one instance printed by specs/spectral/*.tla (fields used depend on Fam).
type inst struct {
	Fam  string    `json:"fam"`
	M    int       `json:"m"`
	N    int       `json:"n"`
	Qv   int       `json:"qv"`
	Dv   int       `json:"dv"`
	Sce  int       `json:"sce"`
	Den  int64     `json:"den"`
	Qden int64     `json:"qden"`
	Uden int64     `json:"uden"`
	Vden int64     `json:"vden"`
	Tol  []int64   `json:"tol"`
	A    imat      `json:"A"`
	W    []int64   `json:"w"`
	Sv   []int64   `json:"sv"`
	U    [][]int64 `json:"U"`
	V    [][]int64 `json:"V"`
	Gap  []int64   `json:"gap"`
	Ev   []evrec   `json:"ev"`
	// Paths[3*ju+jv] = {path, fast}: the Dgesvd path of the specification's path-selection model for
	// the job pair (0 None, 1 Store, 2 All) and the workspace length from which its fast variant runs.
	Paths [][]int `json:"paths"`
}

// forcedNB > 0 when the Ilaenv override is installed (used only for counting).
var forcedNB int

var families = map[string]func(in *inst, raw json.RawMessage, full bool, sum *core.Summary){}

func init() {
	core.RegisterReplay("spectral", replay)
}

func replay(in *core.Lines, args []string, seed int64, sum *core.Summary) error {
	sum.Count("inexact_values", 0)
	full := false
	nb, nx := 0, -1
	only := ""
	for _, a := range args {
		if a == "variants=full" {
			full = true
		}
		fmt.Sscanf(a, "nb=%d", &nb)
		fmt.Sscanf(a, "nx=%d", &nx)
		fmt.Sscanf(a, "only=%s", &only)
	}
	if nb > 0 {
		// Force the block size (ispec 1) and the crossover point (ispec 3) of every blocked
		// LAPACK routine through the verif-tagged hook in lapack/gonum.Ilaenv; everything else
		// keeps its default.  Which path runs is never a verdict: results are compared with the
		// same specification values as before.
		verifhook.SetIlaenv(func(ispec int, name, opts string, n1, n2, n3, n4 int) (int, bool) {
			if ispec == 1 || ispec == 3 {
				sum.Count("ilaenv_override_hits", 1)
			}
			switch {
			case ispec == 1:
				return nb, true
			case ispec == 3 && nx >= 0:
				return nx, true
			}
			return 0, false
		})
		defer verifhook.SetIlaenv(nil)
		forcedNB = nb
		sum.Extra["forced_nb"] = nb
		sum.Extra["forced_nx"] = nx
	}
	onlyRoutine = only
	defer func() {
		for name, t := range gridTable {
			if sum.Extra == nil {
				sum.Extra = map[string]any{}
			}
			sum.Extra[name] = t
		}
	}()
	for {
		line, ok := in.Next()
		if !ok {
			break
		}
		raw := json.RawMessage(append([]byte(nil), line...))
		var c inst
		if err := json.Unmarshal(line, &c); err != nil {
			return fmt.Errorf("line %d: %v", in.N, err)
		}
		f := families[c.Fam]
		if f == nil {
			return fmt.Errorf("line %d: unknown family %q", in.N, c.Fam)
		}
		before := len(sum.Failures)
		f(&c, raw, full, sum)
		if len(sum.Failures) == before && len(sum.Samples) < 2 && c.M <= 4 && c.N <= 4 && c.M*c.N >= 9 && c.Dv == 0 {
			sum.Sample(raw)
		}
	}
	return nil
}

// onlyRoutine restricts a replay to one routine group (development aid, "" = all).
var onlyRoutine string

func want(group string) bool { return onlyRoutine == "" || onlyRoutine == group }

// pads lists the leading-dimension paddings tried: minimum, minimum + 1 and minimum + 3.
var pads = []int{0, 1, 3}
