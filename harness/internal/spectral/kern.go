package spectral

import (
	"encoding/json"
	"math"
	"math/big"

	"gonum.org/v1/gonum/blas"
	"gonum.org/v1/gonum/lapack"

	"gonum.org/v1/gonum/verifharness/internal/core"
)

// Families printed by specs/spectral/KernelSpectral.tla: Dlag2 (2x2 generalized eigenvalues) and
// Dlasq6 (one dqd transform in ping-pong form).
func init() {
	families["lag2"] = lag2Family
	families["lasq6"] = lasq6Family
	families["lasr"] = lasrFamily
	families["larfx"] = larfxFamily
	families["laqr1"] = laqr1Family
}

type lag2Inst struct {
	B    imat    `json:"B"`
	Ea   int     `json:"ea"`
	Eb   int     `json:"eb"`
	Cplx bool    `json:"cplx"`
	Ev   []int64 `json:"lam"`
}

func ratF(f float64) *big.Rat { return new(big.Rat).SetFloat64(f) }

var lag2MaxRatio float64

// lag2Accept mirrors KernelSpectral!Lag2Accept: l = (l1, l2) real eigenvalues or (a, b) for a +- i*b,
// lsc = 2^(ea-eb), tol the absolute tolerance for an eigenvalue of the unscaled pencil.
func lag2Accept(cplx bool, l []int64, lsc *big.Rat, s1, s2, wr1, wr2, wi *big.Rat, tol *big.Rat) (ok bool, why string) {
	near := func(w, s *big.Rat, lam int64) bool {
		d := new(big.Rat).Mul(big.NewRat(lam, 1), lsc)
		d.Mul(d, s).Sub(w, d).Abs(d)
		b := new(big.Rat).Mul(tol, lsc)
		b.Mul(b, s)
		if d.Cmp(b) > 0 {
			return false
		}
		if b.Sign() > 0 {
			if r, _ := new(big.Rat).Quo(d, b).Float64(); r > lag2MaxRatio {
				lag2MaxRatio = r // largest accepted deviation / tolerance (evidence only)
			}
		}
		return true
	}
	if cplx {
		switch {
		case s1.Sign() <= 0:
			return false, "scale1 is not positive"
		case s1.Cmp(s2) != 0:
			return false, "scale1 != scale2 for a complex pair"
		case wr1.Cmp(wr2) != 0:
			return false, "wr1 != wr2 for a complex pair"
		case wi.Sign() <= 0:
			return false, "wi is not positive for a complex pair"
		case !near(wr1, s1, l[0]):
			return false, "wr1/scale1 is not the real part"
		}
		im := l[1]
		if im < 0 {
			im = -im
		}
		if !near(wi, s1, im) {
			return false, "wi/scale1 is not the imaginary part"
		}
		return true, ""
	}
	switch {
	case s1.Sign() <= 0 || s2.Sign() <= 0:
		return false, "a scale factor is not positive"
	case wi.Sign() != 0:
		return false, "wi != 0 for a real pair"
	}
	if near(wr1, s1, l[0]) && near(wr2, s2, l[1]) || near(wr1, s1, l[1]) && near(wr2, s2, l[0]) {
		return true, ""
	}
	return false, "{wr1/scale1, wr2/scale2} is not the pair of eigenvalues"
}

// lag2Family: planted 2x2 pencils (KernelSpectral!Lag2Inst) through Dlag2 for every pair of leading
// dimensions; A and B are inputs only.
func lag2Family(c *inst, raw json.RawMessage, full bool, sum *core.Summary) {
	var x lag2Inst
	if err := json.Unmarshal(raw, &x); err != nil {
		sum.Fail("spectral:harness:json", err.Error(), raw)
		return
	}
	if !want("lag2") {
		return
	}
	k := newChk(sum, raw, c.Tol, 1, 0, 2)
	lsc := pow2(x.Ea - x.Eb)
	defer func() { sum.Extra["lag2_max_dev_over_tol"] = lag2MaxRatio }()
	for _, lda := range []int{2, 3, 5} {
		for _, ldb := range []int{2, 3, 5} {
			a := build(c.A, 1, x.Ea, 2, 2, lda, 1)
			b := build(x.B, 1, x.Eb, 2, 2, ldb, 1)
			a0, b0 := cloneF(a), cloneF(b)
			k.where = desc("Dlag2 A", c.A, "* 2^", x.Ea, "B", x.B, "* 2^", x.Eb, "lda", lda, "ldb", ldb)
			var s1, s2, wr1, wr2, wi float64
			ran := k.run("Dlag2", func() { s1, s2, wr1, wr2, wi = impl.Dlag2(a, lda, b, ldb) })
			sum.Cases++
			sum.Nontrivial++
			if !ran {
				continue
			}
			k.cmpSame("Dlag2", "A (input only)", a, a0)
			k.cmpSame("Dlag2", "B (input only)", b, b0)
			if !finite([]float64{s1, s2, wr1, wr2, wi}) {
				k.fail("Dlag2", "value", "non-finite result scale1 %v scale2 %v wr1 %v wr2 %v wi %v", s1, s2, wr1, wr2, wi)
				continue
			}
			if x.Cplx {
				sum.Count("lag2_complex_pairs", 1)
			} else {
				sum.Count("lag2_real_pairs", 1)
			}
			if s1 != 1 && s1 != s2 {
				sum.Count("lag2_distinct_scale_factors", 1)
			}
			if ok, why := lag2Accept(x.Cplx, x.Ev, lsc, ratF(s1), ratF(s2), ratF(wr1), ratF(wr2), ratF(wi), k.tol0); !ok {
				kind := "eigenvalue"
				if x.Cplx {
					kind = "eigenvalue:complex"
				}
				k.fail("Dlag2", kind, "scale1 %v scale2 %v wr1 %v wr2 %v wi %v: %s; specification: eigenvalues %v%s * 2^%d, tolerance %s * 2^%d (Lag2Accept)",
					s1, s2, wr1, wr2, wi, why, x.Ev, map[bool]string{false: "", true: " (re, im)"}[x.Cplx], x.Ea-x.Eb, k.tol0.FloatString(20), x.Ea-x.Eb)
			}
		}
	}
}

type lasq6Inst struct {
	I0    int       `json:"i0"`
	N0    int       `json:"n0"`
	Pp    int       `json:"pp"`
	Zin   [][]int64 `json:"zin"`
	Zout  [][]int64 `json:"zout"`
	Free  int       `json:"free"`
	Dmin  []int64   `json:"dmin"`
	Dmin1 []int64   `json:"dmin1"`
	Dmin2 []int64   `json:"dmin2"`
	Dn    []int64   `json:"dn"`
	Dnm1  []int64   `json:"dnm1"`
	Dnm2  []int64   `json:"dnm2"`
}

// dyVal converts the dyadic number <<num, e>> = num / 2^e of the specification (exact).
func dyVal(d []int64) float64 { return math.Ldexp(float64(d[0]), -int(d[1])) }

// lasq6Family: one dqd transform on a planted window (KernelSpectral!Lasq6Inst); every operation is
// exact, so the pong half and the six returned numbers are expected bit for bit, everything else
// in z unchanged (the slot `free`, where the routine keeps its auxiliary minimum, is not judged).
func lasq6Family(c *inst, raw json.RawMessage, full bool, sum *core.Summary) {
	var x lasq6Inst
	if err := json.Unmarshal(raw, &x); err != nil {
		sum.Fail("spectral:harness:json", err.Error(), raw)
		return
	}
	if !want("lasq6") {
		return
	}
	k := newChk(sum, raw, c.Tol, 1, 0, 2)
	for _, extra := range []int{0, 3} {
		z := make([]float64, len(x.Zin)+extra)
		for i := range z {
			if i < len(x.Zin) {
				z[i] = dyVal(x.Zin[i])
			} else {
				z[i] = tailNaN
			}
		}
		k.where = desc("Dlasq6 i0", x.I0, "n0", x.N0, "pp", x.Pp, "len(z)", len(z), "variant", c.Qv)
		var got [6]float64
		ran := k.run("Dlasq6", func() {
			got[0], got[1], got[2], got[3], got[4], got[5] = impl.Dlasq6(x.I0, x.N0, z, x.Pp)
		})
		sum.Cases++
		if x.N0-x.I0 >= 3 {
			sum.Nontrivial++
		}
		if !ran {
			continue
		}
		names := []string{"dmin", "dmin1", "dmin2", "dn", "dnm1", "dnm2"}
		for i, w := range [][]int64{x.Dmin, x.Dmin1, x.Dmin2, x.Dn, x.Dnm1, x.Dnm2} {
			if got[i] != dyVal(w) {
				k.fail("Dlasq6", "value:"+names[i], "%s = %v, specification says %d/2^%d = %v (every operation is exact on this instance)", names[i], got[i], w[0], w[1], dyVal(w))
			}
		}
		for i := range z {
			if i == x.Free {
				continue
			}
			if i >= len(x.Zin) {
				if math.Float64bits(z[i]) != math.Float64bits(tailNaN) {
					k.fail("Dlasq6", "touch", "z[%d] beyond 4*(n0+1) was written: %v", i, z[i])
				}
				continue
			}
			sum.Count("lasq6_elements_compared", 1)
			if w := dyVal(x.Zout[i]); z[i] != w {
				kind := "value:pong"
				if x.Zout[i][0] == x.Zin[i][0] && x.Zout[i][1] == x.Zin[i][1] {
					kind = "touch"
				}
				k.fail("Dlasq6", kind, "z[%d] = %v, specification says %d/2^%d = %v (slot %d of index %d, window %d..%d)", i, z[i], x.Zout[i][0], x.Zout[i][1], w, i%4, i/4, x.I0, x.N0)
				break
			}
		}
	}
}

type lasrInst struct {
	Cl  []int64 `json:"cl"`
	Sl  []int64 `json:"sl"`
	Cr  []int64 `json:"cr"`
	Sr  []int64 `json:"sr"`
	Res []imat  `json:"res"` // res[6*side + 2*pivot + direct]
}

// lasrFamily: sequences of exact plane rotations (KernelSpectral!LasrInst) through Dlasr for side x
// pivot x direct and two leading dimensions; integer data, expected exactly; c and s are inputs only.
func lasrFamily(c *inst, raw json.RawMessage, full bool, sum *core.Summary) {
	var x lasrInst
	if err := json.Unmarshal(raw, &x); err != nil {
		sum.Fail("spectral:harness:json", err.Error(), raw)
		return
	}
	if !want("lasr") {
		return
	}
	m, n := c.M, c.N
	k := newChk(sum, raw, c.Tol, 1, 0, 2)
	sides := []blas.Side{blas.Left, blas.Right}
	pivots := []lapack.Pivot{lapack.Variable, lapack.Top, lapack.Bottom}
	directs := []lapack.Direct{lapack.Forward, lapack.Backward}
	for si, side := range sides {
		ci, sv := x.Cl, x.Sl
		if side == blas.Right {
			ci, sv = x.Cr, x.Sr
		}
		for pi, pivot := range pivots {
			for di, direct := range directs {
				exp := x.Res[6*si+2*pi+di]
				for _, lda := range []int{maxi(1, n), n + 3} {
					a := build(c.A, 1, 0, m, n, lda, 1)
					cc, ss := vecOf(ci, 0, 1), vecOf(sv, 0, 1)
					cc0, ss0 := cloneF(cc), cloneF(ss)
					k.where = desc("Dlasr side", si, "pivot", pi, "direct", di, "m", m, "n", n, "lda", lda, "c", ci, "s", sv)
					ran := k.run("Dlasr", func() { impl.Dlasr(side, pivot, direct, m, n, cc[:len(ci)], ss[:len(sv)], a, lda) })
					sum.Cases++
					if len(ci) >= 2 && m >= 1 && n >= 1 {
						sum.Nontrivial++
					}
					if !ran {
						continue
					}
					k.cmpSame("Dlasr", "c (input only)", cc, cc0)
					k.cmpSame("Dlasr", "s (input only)", ss, ss0)
					bad := false
					for i := 0; i < m && !bad; i++ {
						for j := 0; j < n; j++ {
							sum.Count("lasr_elements_compared", 1)
							if a[i*lda+j] != float64(exp[i][j]) {
								k.fail("Dlasr", "value", "A[%d][%d] = %v, specification says %d", i, j, a[i*lda+j], exp[i][j])
								bad = true
								break
							}
						}
					}
					k.cmpPad("Dlasr", "a", a, lda, m, n)
				}
			}
		}
	}
}

type larfxInst struct {
	Hv   []int64 `json:"hv"`
	Hden int64   `json:"hden"`
	CL   imat    `json:"CL"`
	CR   imat    `json:"CR"`
	HC   imat    `json:"HC"` // hden * H * CL
	CH   imat    `json:"CH"` // CR * hden * H
}

// larfxFamily: exact reflectors H = I - v*v^T/hden (KernelSpectral!LarfxInst) through Dlarfx from the
// left and from the right, orders 1..12 (the unrolled code for every order 1..10 and the general
// code), and tau = 0 (H = I); integer C, results integers / hden: expected exactly; v is input only.
func larfxFamily(c *inst, raw json.RawMessage, full bool, sum *core.Summary) {
	var x larfxInst
	if err := json.Unmarshal(raw, &x); err != nil {
		sum.Fail("spectral:harness:json", err.Error(), raw)
		return
	}
	if !want("larfx") {
		return
	}
	z, o := c.M, c.N
	k := newChk(sum, raw, c.Tol, 1, 0, 2)
	for _, side := range []blas.Side{blas.Left, blas.Right} {
		m, n, src, exp := z, o, x.CL, x.HC
		if side == blas.Right {
			m, n, src, exp = o, z, x.CR, x.CH
		}
		for _, zero := range []bool{false, true} {
			for _, ldc := range []int{n, n + 1, n + 3} {
				cc := build(src, 1, 0, m, n, ldc, 1)
				v := vecOf(x.Hv, 0, 1)
				v0 := cloneF(v)
				tau := 1 / float64(x.Hden)
				if zero {
					tau = 0
				}
				lw := n
				if side == blas.Right {
					lw = m
				}
				work := newWork(lw + 1)
				k.where = desc("Dlarfx side", map[blas.Side]string{blas.Left: "L", blas.Right: "R"}[side], "order", z, "other dimension", o, "tau", tau, "ldc", ldc, "v", x.Hv)
				ran := k.run("Dlarfx", func() { impl.Dlarfx(side, m, n, v[:z], tau, cc, ldc, work[:lw]) })
				sum.Cases++
				if z >= 2 {
					sum.Nontrivial++
				}
				if !ran {
					continue
				}
				if z <= 10 {
					sum.Count("larfx_unrolled_orders", 1)
				}
				k.cmpSame("Dlarfx", "v (input only)", v, v0)
				if work[lw] != workFill {
					k.fail("Dlarfx", "touch", "work was written beyond its documented length %d", lw)
				}
				bad := false
				for i := 0; i < m && !bad; i++ {
					for j := 0; j < n; j++ {
						want := float64(src[i][j])
						if !zero {
							want = float64(exp[i][j]) / float64(x.Hden)
						}
						sum.Count("larfx_elements_compared", 1)
						if cc[i*ldc+j] != want {
							k.fail("Dlarfx", "value", "C[%d][%d] = %v, specification says %v", i, j, cc[i*ldc+j], want)
							bad = true
							break
						}
					}
				}
				k.cmpPad("Dlarfx", "c", cc, ldc, m, n)
			}
		}
	}
}

type laqr1Inst struct {
	Sr1  int64   `json:"sr1"`
	Si1  int64   `json:"si1"`
	Sr2  int64   `json:"sr2"`
	Si2  int64   `json:"si2"`
	Wcol []int64 `json:"wcol"`
}

// laqr1Accept mirrors KernelSpectral!Laqr1Accept: v parallel to the integer column w.
func laqr1Accept(v []float64, w []int64, tau *big.Rat) (bool, string) {
	n := len(w)
	mv, mw := new(big.Rat), int64(0)
	rv := make([]*big.Rat, n)
	for i := range w {
		rv[i] = ratF(v[i])
		if a := new(big.Rat).Abs(rv[i]); a.Cmp(mv) > 0 {
			mv = a
		}
		if a := abs64(w[i]); a > mw {
			mw = a
		}
	}
	if (mw == 0) != (mv.Sign() == 0) {
		return false, "v = 0 must hold exactly when the exact column is 0"
	}
	bound := new(big.Rat).Mul(tau, mv)
	bound.Mul(bound, big.NewRat(mw, 1))
	for i := 0; i < n; i++ {
		for j := 0; j < n; j++ {
			d := new(big.Rat).Mul(rv[i], big.NewRat(w[j], 1))
			d.Sub(d, new(big.Rat).Mul(rv[j], big.NewRat(w[i], 1)))
			if d.Abs(d).Cmp(bound) > 0 {
				return false, desc("the minor of components", i, j, "does not vanish:", d.FloatString(20))
			}
		}
	}
	return true, ""
}

// laqr1Family: first column of (H - s1 I)(H - s2 I) up to a scalar (KernelSpectral!Laqr1Inst), n = 2
// and 3, real and conjugate shifts, ldh in {n, n+2}; H is input only.
func laqr1Family(c *inst, raw json.RawMessage, full bool, sum *core.Summary) {
	var x laqr1Inst
	if err := json.Unmarshal(raw, &x); err != nil {
		sum.Fail("spectral:harness:json", err.Error(), raw)
		return
	}
	if !want("laqr1") {
		return
	}
	n := c.N
	k := newChk(sum, raw, c.Tol, 1, 0, 2)
	for _, ldh := range []int{n, n + 2} {
		h := build(c.A, 1, 0, n, n, ldh, 1)
		h0 := cloneF(h)
		v := make([]float64, n)
		for i := range v {
			v[i] = workFill
		}
		k.where = desc("Dlaqr1 n", n, "H", c.A, "shifts", x.Sr1, x.Si1, x.Sr2, x.Si2, "ldh", ldh)
		ran := k.run("Dlaqr1", func() { impl.Dlaqr1(n, h, ldh, float64(x.Sr1), float64(x.Si1), float64(x.Sr2), float64(x.Si2), v) })
		sum.Cases++
		sum.Nontrivial++
		if !ran {
			continue
		}
		k.cmpSame("Dlaqr1", "H (input only)", h, h0)
		if !finite(v) {
			k.fail("Dlaqr1", "value", "non-finite v = %v", v)
			continue
		}
		if ok, why := laqr1Accept(v, x.Wcol, k.tol0); !ok {
			k.fail("Dlaqr1", "direction", "v = %v is not a multiple of the exact column %v: %s (Laqr1Accept)", v, x.Wcol, why)
		}
	}
}
